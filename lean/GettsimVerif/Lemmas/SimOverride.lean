import GettsimVerif.Lemmas.SimTargets
import GettsimVerif.Lemmas.SimRows
import GettsimVerif.Props.C03
import GettsimVerif.Props.C05
import GettsimVerif.Props.C04Sim
import GettsimVerif.Lemmas.SimLocality
/-
Helper lemmas for `Props/C05Sim.lean`: property C05 (a computable column may be supplied in the
data instead) for the CONCRETE end-to-end model `GV.Simulate`.
-/
namespace GV.Simulate
open GV.Lang (Val FunDef)
open GV.VecDtype (R DT numOf dtypeOf)

/-! ### every value of the concrete DAG is homogeneous: all entries have the dtype of the column -/

/-- all entries of the column have the column's dtype -/
def ov_Typed (c : Col) : Prop := ∀ r ∈ c.vals, dtypeOf r = c.dt

theorem ov_castTo_typed (c : Col) (t : DT) : ov_Typed (c.castTo t) := by
  intro r hr
  simp only [Col.castTo, List.mem_map] at hr ⊢
  obtain ⟨a, _, rfl⟩ := hr
  exact VecDtype.dtypeOf_cast t a

theorem ov_option_mapM_mem {A B : Type} (f : A → Option B) :
    ∀ (l : List A) (out : List B), l.mapM f = some out → ∀ b ∈ out, ∃ a ∈ l, f a = some b := by
  intro l
  induction l with
  | nil => intro out h b hb; simp only [List.mapM_nil, pure, Option.some.injEq] at h; subst h; cases hb
  | cons a l ih =>
    intro out h b hb
    rw [List.mapM_cons] at h
    cases ha : f a with
    | none => rw [ha] at h; cases h
    | some b0 =>
      cases hl : l.mapM f with
      | none => rw [ha, hl] at h; cases h
      | some bs =>
        rw [ha, hl] at h
        simp only [bind, Option.bind, pure, Option.some.injEq] at h
        subst h
        rcases List.mem_cons.1 hb with rfl | hb
        · exact ⟨a, List.mem_cons_self, ha⟩
        · obtain ⟨a', ha', hfa⟩ := ih bs hl b hb
          exact ⟨a', List.mem_cons_of_mem _ ha', hfa⟩

theorem ov_colOfData_typed {c : Column} {col : Col} (h : colOfData c = .ok col) : ov_Typed col := by
  unfold colOfData at h
  split at h
  · cases h
  · rename_i rs hrs
    split at h
    · rename_i hb
      simp only [Except.ok.injEq] at h
      subst h
      intro r hr
      simp only [Bool.and_eq_true, List.all_eq_true, beq_iff_eq] at hb
      exact hb.1 r hr
    · split at h
      · rename_i hb
        simp only [Except.ok.injEq] at h
        subst h
        intro r hr
        simp only [Bool.and_eq_true, List.all_eq_true, beq_iff_eq] at hb
        exact hb.1 r hr
      · split at h
        · simp only [Except.ok.injEq] at h
          subst h
          intro r hr
          simp only [List.mem_map] at hr
          obtain ⟨a, _, rfl⟩ := hr
          exact VecDtype.dtypeOf_cast .float a
        · cases h

theorem ov_convertCol_typed {t : Ty} {c c' : Col} (hc : ov_Typed c) (h : convertCol t c = .ok c') :
    ov_Typed c' := by
  unfold convertCol at h
  repeat' split at h
  all_goals first
    | (cases h; done)
    | (simp only [Except.ok.injEq] at h; subst h; first | exact hc | exact ov_castTo_typed _ _)

theorem ov_typed_map {A : Type} {dt : DT} {l : List A} {g : A → R} (hg : ∀ a, dtypeOf (g a) = dt) :
    ov_Typed { dt := dt, vals := l.map g } := by
  intro r hr
  simp only [List.mem_map] at hr
  obtain ⟨a, _, rfl⟩ := hr
  exact hg a

theorem ov_typed_map' {A : Type} {dt : DT} {l : List A} {g : A → R} {sh : Shape}
    (hg : ∀ a, dtypeOf (g a) = dt) : ov_Typed { dt := dt, vals := l.map g, shape := sh } := by
  intro r hr
  simp only [List.mem_map] at hr
  obtain ⟨a, _, rfl⟩ := hr
  exact hg a

theorem ov_timeConvOp_typed {u v : TimeConv.TUnit} {args : List Col} {c : Col}
    (h : timeConvOp u v args = .ok c) : ov_Typed c := by
  unfold timeConvOp at h
  split at h
  · simp only at h
    split at h <;>
    · simp only [Except.ok.injEq] at h
      subst h
      exact ov_typed_map' (fun _ => rfl)
  · cases h

theorem ov_groupAggOp_typed {a : Aggr} {args : List Col} {c : Col}
    (h : groupAggOp a args = .ok c) : ov_Typed c := by
  unfold groupAggOp at h
  split at h
  · repeat' split at h
    all_goals try (cases h)
    obtain ⟨r, hr, h⟩ := bind_ok h
    simp only [pure, Except.pure, Except.ok.injEq] at h
    subst h
    exact ov_typed_map (fun _ => rfl)
  · rename_i col gid
    simp only at h
    repeat' split at h
    all_goals try (cases h)
    all_goals
      obtain ⟨r, hr, h⟩ := bind_ok h
      simp only [pure, Except.pure, Except.ok.injEq] at h
      subst h
      apply ov_typed_map
      intro q
    all_goals first | rfl | (rename_i hq; exact absurd hq (by decide)) | (cases hdt : col.dt <;> simp_all [dtypeOf])
  · cases h

theorem ov_pidSumOp_typed {args : List Col} {c : Col} (h : pidSumOp args = .ok c) : ov_Typed c := by
  unfold pidSumOp at h
  split at h
  · rename_i col ptr pid
    simp only at h
    repeat' split at h
    all_goals try (cases h; done)
    all_goals
      first
      | (obtain ⟨r, hr, h⟩ := bind_ok h
         simp only [pure, Except.pure, Except.ok.injEq] at h
         subst h
         apply ov_typed_map
         intro q)
      | (simp only [Except.ok.injEq] at h
         subst h
         apply ov_typed_map
         intro q)
    all_goals first | rfl | exact VecDtype.dtypeOf_cast _ _ | (cases hdt : col.dt <;> simp_all [dtypeOf])
  · cases h

theorem ov_groupingOp_typed {g : Grouping} {args : List Col} {c : Col}
    (h : groupingOp g args = .ok c) : ov_Typed c := by
  unfold groupingOp at h
  split at h
  · cases h
  · rename_i c0 rest
    split at h
    · cases h
    · split at h
      · split at h
        · simp only [Except.ok.injEq] at h
          subst h
          intro r hr; cases hr
        · repeat' split at h
          all_goals cases h
      · split at h
        · cases h
        · simp only at h
          split at h
          all_goals try (cases h; done)
          all_goals
            first
            | (obtain ⟨r, hr, h⟩ := bind_ok h
               simp only [pure, Except.pure, Except.ok.injEq] at h
               subst h
               apply ov_typed_map
               intro q)
            | (simp only [Except.ok.injEq] at h
               subst h
               apply ov_typed_map
               intro q)
          all_goals first | rfl | (split <;> simp [dtypeOf])

theorem ov_vectorize_typed {d : Option DT} {rs vals : List R} {dt : DT}
    (h : VecDtype.vectorize d rs = some (dt, vals)) : ∀ r ∈ vals, dtypeOf r = dt := by
  unfold VecDtype.vectorize at h
  split at h
  · simp only [VecDtype.vecDeclared, Option.some.injEq, Prod.mk.injEq] at h
    obtain ⟨rfl, rfl⟩ := h
    intro r hr
    simp only [List.mem_map] at hr
    obtain ⟨a, _, rfl⟩ := hr
    exact VecDtype.dtypeOf_cast _ a
  · unfold VecDtype.vecInferred at h
    split at h
    · cases h
    · simp only [Option.some.injEq, Prod.mk.injEq] at h
      obtain ⟨rfl, rfl⟩ := h
      intro r hr
      simp only [List.mem_map] at hr
      obtain ⟨a, _, rfl⟩ := hr
      exact VecDtype.dtypeOf_cast _ a

theorem ov_mapM_mem_out {A B : Type} {g : A → Except Err B} {l : List A} {out : List B}
    (h : l.mapM g = .ok out) : ∀ b ∈ out, ∃ a ∈ l, g a = .ok b := mapM_mem_out h

theorem ov_ruleOp_typed {params : List (String × Val)} {fn : FunDef} {ret : Option Ty} {spec : Option RSpec}
    {free : List String} {cols : List Col} {c : Col}
    (h : ruleOp params fn ret spec free cols = .ok c) : ov_Typed c := by
  unfold ruleOp at h
  obtain ⟨n?, hn, h'⟩ := bind_ok h
  clear h
  rename' h' => h
  extract_lets rows npArgs jpF jpB args0 at h
  have hF : ∀ out, ov_Typed out → jpF out = .ok c → ov_Typed c := by
    intro out hgo hf
    simp only [jpF] at hf
    split at hf
    · simp only [pure, Except.pure, Except.ok.injEq] at hf
      subst hf; exact hgo
    · repeat' split at hf
      all_goals
        first
        | exact absurd hf throw_bind_ne_ok
        | (obtain ⟨vals, hvals, hf⟩ := bind_ok hf
           simp only [pure, Except.pure, Except.ok.injEq] at hf
           subst hf
           intro r hr
           obtain ⟨a, _, ha⟩ := mapM_mem_out hvals r hr
           obtain ⟨q, _, ha⟩ := bind_ok ha
           simp only [pure, Except.pure, Except.ok.injEq] at ha
           subst ha
           rfl)
  have hB : ∀ probed, jpB probed = .ok c → ov_Typed c := by
    intro probed hb
    simp only [jpB] at hb
    obtain ⟨raw, hraw, hb⟩ := bind_ok hb
    obtain ⟨rs, hrs, hb⟩ := bind_ok hb
    split at hb
    · split at hb
      · refine hF _ ?_ hb
        intro r hr
        simp only [List.mem_singleton] at hr
        subst hr; rfl
      · exact absurd hb throw_bind_ne_ok
    · split at hb
      · rename_i dt vals hvec
        refine hF _ ?_ hb
        exact ov_vectorize_typed hvec
      · exact absurd hb throw_bind_ne_ok
  split at h
  · exact hB _ h
  · split at h
    · exact absurd h throw_bind_ne_ok
    · split at h
      · exact hB _ h
      · exact absurd h throw_bind_ne_ok
      · exact hB _ h

theorem ov_nodeOf_typed (params : List (String × Val)) (specs : List (String × RSpec)) (f : Fn)
    (args : List Col) (c : Col) (h : (nodeOf params specs f).op args = .ok c) : ov_Typed c := by
  unfold nodeOf at h
  cases hk : f.kind with
  | rule fn ret key => rw [hk] at h; exact ov_ruleOp_typed h
  | pidSum s p => rw [hk] at h; exact ov_pidSumOp_typed h
  | timeConv s u v => rw [hk] at h; exact ov_timeConvOp_typed h
  | groupAgg a s g => rw [hk] at h; exact ov_groupAggOp_typed h
  | grouping g => rw [hk] at h; exact ov_groupingOp_typed h

/-! ### rendering a genuine column and reading it back as data gives the same column -/

theorem ov_valToR_rToVal (r : R) : valToR (rToVal r) = some r := by cases r <;> rfl

theorem ov_mapM_valToR (vals : List R) : (vals.map rToVal).mapM valToR = some vals := by
  induction vals with
  | nil => rfl
  | cons r rs ih =>
    rw [List.map_cons, List.mapM_cons, ov_valToR_rToVal, ih]
    rfl

theorem ov_render_arr (k : Nat) (v : Col) (hs : v.shape = .arr) : render k v = v.vals.map rToVal := by
  unfold render Col.scalar
  rw [hs]
  rfl

/-- `colOfData ∘ render` is the identity on homogeneous 1-d columns (an EMPTY int / bool column
would come back as an empty float column: pandas infers `float64`/`object` for an empty column) -/
theorem ov_colOfData_render {k : Nat} {v : Col} (ht : ov_Typed v) (hs : v.shape = .arr)
    (hne : v.vals ≠ [] ∨ v.dt = .float) : colOfData (render k v) = .ok v := by
  rw [ov_render_arr k v hs]
  unfold colOfData
  rw [ov_mapM_valToR]
  obtain ⟨dt, vals, shape⟩ := v
  simp only at hs hne ⊢
  subst hs
  have ht' : ∀ r ∈ vals, dtypeOf r = dt := ht
  cases dt with
  | bool =>
    have hne' : vals ≠ [] := by rcases hne with h | h; exact h; cases h
    have h1 : (vals.all (fun r => dtypeOf r == .bool) && !vals.isEmpty) = true := by
      simp only [Bool.and_eq_true, List.all_eq_true, beq_iff_eq, Bool.not_eq_true', List.isEmpty_eq_false_iff]
      exact ⟨ht', hne'⟩
    rw [if_pos h1]
  | int =>
    have hne' : vals ≠ [] := by rcases hne with h | h; exact h; cases h
    have h1 : ¬ (vals.all (fun r => dtypeOf r == .bool) && !vals.isEmpty) = true := by
      simp only [Bool.and_eq_true, List.all_eq_true, beq_iff_eq, Bool.not_eq_true', not_and]
      intro hall
      obtain ⟨r, hr⟩ := List.exists_mem_of_ne_nil _ hne'
      have := (ht' r hr).symm.trans (hall r hr)
      cases this
    have h2 : (vals.all (fun r => dtypeOf r == .int) && !vals.isEmpty) = true := by
      simp only [Bool.and_eq_true, List.all_eq_true, beq_iff_eq, Bool.not_eq_true', List.isEmpty_eq_false_iff]
      exact ⟨ht', hne'⟩
    rw [if_neg h1, if_pos h2]
  | float =>
    have h1 : ¬ (vals.all (fun r => dtypeOf r == .bool) && !vals.isEmpty) = true := by
      simp only [Bool.and_eq_true, List.all_eq_true, beq_iff_eq, Bool.not_eq_true', not_and,
        List.isEmpty_eq_false_iff, ne_eq, not_not]
      intro hall
      cases vals with
      | nil => rfl
      | cons r rs =>
        have := (ht' r List.mem_cons_self).symm.trans (hall r List.mem_cons_self)
        cases this
    have h2 : ¬ (vals.all (fun r => dtypeOf r == .int) && !vals.isEmpty) = true := by
      simp only [Bool.and_eq_true, List.all_eq_true, beq_iff_eq, Bool.not_eq_true', not_and,
        List.isEmpty_eq_false_iff, ne_eq, not_not]
      intro hall
      cases vals with
      | nil => rfl
      | cons r rs =>
        have := (ht' r List.mem_cons_self).symm.trans (hall r List.mem_cons_self)
        cases this
    have h3 : vals.all (fun r => dtypeOf r != .bool) = true := by
      simp only [List.all_eq_true, bne_iff_ne, ne_eq]
      intro r hr
      rw [ht' r hr]
      decide
    have h4 : vals.map (VecDtype.cast .float) = vals := by
      rw [List.map_congr_left (g := id)]
      · simp
      · intro r hr
        exact VecDtype.cast_id_when_typed .float r (ht' r hr)
    rw [if_neg h1, if_neg h2, if_pos h3, h4]

/-- the conversion to the internal type is the identity on a column that already has it -/
theorem ov_convertCol_id {t : Ty} {v : Col} (h : t.toDT = v.dt) : convertCol t v = .ok v := by
  unfold convertCol
  rw [if_pos h.symm]

/-! ### the values of a run -/

/-- the value of node `x` (a typed column, BEFORE rendering) in the run for `inp`: the node is
evaluated in the unpruned system over the converted data -/
def ov_value (inp : Input) (x : String) : Except Err Col := do
  let pr ← prepare (inp.rules.map (ruleFn inp.rounding)) inp.groupSpecs inp.pidSpecs inp.data
    (sortDedup inp.targets)
  Dag.eval (fullSys inp.params pr.fns) pr.data (pr.fns.length + 1) x

/-- the internal type to which `_convert_data_to_correct_types` converts the data column `n` of
`inp` (`none`: the column is left as it is): `TYPES_INPUT_VARIABLES[n]`, else the return annotation
of the function called `n` (which the column overrides) -/
def ov_convTy (inp : Input) (n : String) : Option Ty :=
  match find? typesInputVariables n with
  | some t => some t
  | none =>
    match buildFunctions (inp.rules.map (ruleFn inp.rounding)) inp.groupSpecs inp.pidSpecs
        (sortDedup inp.targets) (inp.data.map (·.1)) with
    | .ok all => (findFn? all n).bind (·.ann)
    | .error _ => none

/-- A DECIDABLE criterion for "`all_functions` of `load_and_check_functions` does not change when a
column called `n` is added to the data": (a) every p_id aggregation spec is kept / dropped as
before (`ov_pidKeep`: its source is a rule, a data column or a time conversion of a data column), (b) `create_time_conversion_functions` returns the same functions, (c) no
argument / target becomes an automatic group sum only because `n` is now a data column. -/
def ov_pidKeep (rules : List Fn) (dc : List String) (src : String) : Bool :=
  hasFn rules src || dc.contains src || ((TimeConv.create [] dc).map (·.name)).contains src

def ov_fnsStable (inp : Input) (n : String) : Bool :=
  let rules := merge [] (inp.rules.map (ruleFn inp.rounding))
  let dc := inp.data.map (·.1)
  (inp.pidSpecs.all fun s => ov_pidKeep rules (dc ++ [n]) s.2.source == ov_pidKeep rules dc s.2.source) &&
  match pidFns rules dc inp.pidSpecs with
  | .error _ => true
  | .ok pid =>
    decide (TimeConv.create ((merge rules pid).map fun f => (f.name, f.args)) (dc ++ [n]) =
      TimeConv.create ((merge rules pid).map fun f => (f.name, f.args)) dc) &&
    ((merge (merge (timeConvFns (merge rules pid) dc) rules) pid).flatMap (·.args) ++ sortDedup inp.targets ++
        inp.groupSpecs.filterMap (fun (_, s) => s.source)).all
      fun col => autoOk (merge (merge (timeConvFns (merge rules pid) dc) rules) pid) (dc ++ [n]) col ==
        autoOk (merge (merge (timeConvFns (merge rules pid) dc) rules) pid) dc col

theorem ov_filterMapM_congr {A B : Type} {g g' : A → Except Err (Option B)} {l : List A}
    (h : ∀ a ∈ l, g a = g' a) : l.filterMapM g = l.filterMapM g' := by
  induction l with
  | nil => rfl
  | cons a l ih =>
    rw [List.filterMapM_cons, List.filterMapM_cons, h a List.mem_cons_self,
      ih (fun x hx => h x (List.mem_cons_of_mem _ hx))]

theorem ov_pidFns_append (rules : List Fn) (dc : List String) (ps : List (String × PidSpec)) (n : String)
    (h : (ps.all fun s => ov_pidKeep rules (dc ++ [n]) s.2.source == ov_pidKeep rules dc s.2.source) = true) :
    pidFns rules (dc ++ [n]) ps = pidFns rules dc ps := by
  unfold pidFns
  simp only
  congr 1
  apply ov_filterMapM_congr
  rintro ⟨m, s⟩ hs
  have hc := beq_iff_eq.1 (List.all_eq_true.1 h (m, s) hs)
  unfold ov_pidKeep at hc
  simp only at hc
  simp only [hc]

theorem ov_groupAggFns_append (fns : List Fn) (T dc : List String) (gs : List (String × GroupSpec))
    (n : String)
    (h : ((fns.flatMap (·.args) ++ T ++ gs.filterMap (fun (_, s) => s.source)).all
      fun col => autoOk fns (dc ++ [n]) col == autoOk fns dc col) = true) :
    groupAggFns fns T (dc ++ [n]) gs = groupAggFns fns T dc gs := by
  have hspecs : allSpecs fns T (dc ++ [n]) gs = allSpecs fns T dc gs := by
    unfold allSpecs
    congr 3
    apply List.filter_congr
    intro x hx
    have := List.all_eq_true.1 h x hx
    exact beq_iff_eq.1 this
  rw [groupAggFns_eq, groupAggFns_eq, hspecs]

theorem ov_fnsStable_spec (inp : Input) (n : String) (h : ov_fnsStable inp n = true) :
    buildFunctions (inp.rules.map (ruleFn inp.rounding)) inp.groupSpecs inp.pidSpecs
        (sortDedup inp.targets) (inp.data.map (·.1) ++ [n]) =
      buildFunctions (inp.rules.map (ruleFn inp.rounding)) inp.groupSpecs inp.pidSpecs
        (sortDedup inp.targets) (inp.data.map (·.1)) := by
  unfold ov_fnsStable at h
  simp only [Bool.and_eq_true] at h
  obtain ⟨ha, hb⟩ := h
  unfold buildFunctions
  simp only
  rw [ov_pidFns_append _ _ _ _ ha]
  cases hpid : pidFns (merge [] (inp.rules.map (ruleFn inp.rounding))) (inp.data.map (·.1)) inp.pidSpecs with
  | error e => rfl
  | ok pid =>
    rw [hpid] at hb
    simp only [Bool.and_eq_true, decide_eq_true_eq] at hb
    obtain ⟨hb, hc⟩ := hb
    have htc : timeConvFns (merge (merge [] (inp.rules.map (ruleFn inp.rounding))) pid) (inp.data.map (·.1) ++ [n]) =
        timeConvFns (merge (merge [] (inp.rules.map (ruleFn inp.rounding))) pid) (inp.data.map (·.1)) := by
      unfold timeConvFns
      rw [hb]
    simp only [bind, Except.bind]
    rw [htc, ov_groupAggFns_append _ _ _ _ _ hc]

theorem ov_mapM_append {A B : Type} (g : A → Except Err B) (l : List A) (a : A) (out : List B)
    (h : (l ++ [a]).mapM g = .ok out) :
    ∃ o1 b, l.mapM g = .ok o1 ∧ g a = .ok b ∧ out = o1 ++ [b] := by
  induction l generalizing out with
  | nil =>
    rw [List.nil_append, List.mapM_cons] at h
    obtain ⟨b, hb, h⟩ := bind_ok h
    simp only [List.mapM_nil, pure, Except.pure, bind, Except.bind, Except.ok.injEq] at h
    exact ⟨[], b, rfl, hb, by rw [← h]; rfl⟩
  | cons x l ih =>
    rw [List.cons_append, List.mapM_cons] at h
    obtain ⟨y, hy, h⟩ := bind_ok h
    obtain ⟨rest, hrest, h⟩ := bind_ok h
    simp only [pure, Except.pure, Except.ok.injEq] at h
    obtain ⟨o1, b, ho1, hb, hout⟩ := ih rest hrest
    refine ⟨y :: o1, b, ?_, hb, by rw [← h, hout]; rfl⟩
    rw [List.mapM_cons, hy, ho1]
    rfl

/-! ### `prepare` -/

theorem ov_checkData_nil : checkData [] = .error .valueError := by decide

theorem ov_prepare_data_ne_nil {ruleFns : List Fn} {gs : List (String × GroupSpec)}
    {ps : List (String × PidSpec)} {data : List (String × Column)} {targets : List String} {pr : Prep}
    (h : prepare ruleFns gs ps data targets = .ok pr) : pr.data ≠ [] := by
  intro hnil
  have hlen := (prepare_data_lengths h).1
  rw [hnil] at hlen
  have hd : data = [] := List.length_eq_zero_iff.1 hlen.symm
  subst hd
  unfold prepare at h
  obtain ⟨typed, htyped, h⟩ := bind_ok h
  obtain ⟨_, hchk, _⟩ := bind_ok h
  have : typed = [] := by
    simp only [typedData, List.mapM_nil, pure, Except.pure, Except.ok.injEq] at htyped
    exact htyped.symm
  rw [this, ov_checkData_nil] at hchk
  cases hchk

theorem ov_prepare_data_typed {ruleFns : List Fn} {gs : List (String × GroupSpec)}
    {ps : List (String × PidSpec)} {data : List (String × Column)} {targets : List String} {pr : Prep}
    (h : prepare ruleFns gs ps data targets = .ok pr) : ∀ e ∈ pr.data, ov_Typed e.2 := by
  obtain ⟨raw, all, hraw, _, hconv, _, _⟩ := prepare_ok h
  intro e he
  unfold convertData at hconv
  obtain ⟨⟨an, ac⟩, ha, hae⟩ := mapM_mem_out hconv e he
  have hac : ov_Typed ac := by
    unfold typedData at hraw
    obtain ⟨⟨bn, bc⟩, _, hb⟩ := mapM_mem_out hraw (an, ac) ha
    simp only at hb
    obtain ⟨col, hcol, hb⟩ := bind_ok hb
    simp only [pure, Except.pure, Except.ok.injEq, Prod.mk.injEq] at hb
    rw [← hb.2]
    exact ov_colOfData_typed hcol
  simp only at hae
  split at hae
  · simp only [Except.ok.injEq] at hae
    subst hae
    exact hac
  · obtain ⟨col, hcol, hae⟩ := bind_ok hae
    simp only [pure, Except.pure, Except.ok.injEq] at hae
    subst hae
    exact ov_convertCol_typed hac hcol

/-- every value computed in the unpruned system of a successful preparation is homogeneous -/
theorem ov_eval_typed {ruleFns : List Fn} {gs : List (String × GroupSpec)}
    {ps : List (String × PidSpec)} {data : List (String × Column)} {targets : List String} {pr : Prep}
    (h : prepare ruleFns gs ps data targets = .ok pr) (params : List (String × Val)) (k : Nat) (x : String)
    (v : Col) (hv : Dag.eval (fullSys params pr.fns) pr.data k x = .ok v) : ov_Typed v := by
  refine Dag.eval_invariant _ pr.data ov_Typed ?_ ?_ k x v hv
  · intro y c hy
    exact ov_prepare_data_typed h (y, c) (Dag.find?_mem _ _ _ hy)
  · intro y nd hy args c _ hop
    have := find?_map_fns (nodeLazy params) pr.fns y
    unfold find? at this
    unfold fullSys at hy
    rw [this] at hy
    cases hf : findFn? pr.fns y with
    | none => rw [hf] at hy; cases hy
    | some f =>
      rw [hf] at hy
      simp only [Option.map_some, Option.some.injEq] at hy
      subst hy
      exact ov_nodeOf_typed _ _ f args c hop

theorem ov_contains_names {raw : List (String × Col)} {m : String} (hm : m ∈ raw.map (·.1)) :
    (raw.map (·.1)).contains m = true := by simpa using hm

/-- The preparation with the additional data column `(n, c)`, where `c` reads back as the typed
column `v` and the conversion type (if any) is `v`'s dtype: the converted data are the old ones
plus `(n, v)`, and the functions that take part in the evaluation agree with the old ones on all
common names. -/
theorem ov_prepare_feed {rf : List Fn} {gs : List (String × GroupSpec)} {ps : List (String × PidSpec)}
    {D : List (String × Column)} {T1 T2 : List String} {n : String} {c : Column} {v : Col} {pr pr' : Prep}
    (hpr : prepare rf gs ps D T1 = .ok pr)
    (hpr' : prepare rf gs ps (D ++ [(n, c)]) T2 = .ok pr')
    (hstab : buildFunctions rf gs ps T2 (D.map (·.1) ++ [n]) = buildFunctions rf gs ps T2 (D.map (·.1)))
    (hcol : colOfData c = .ok v)
    (hty : ∀ all' ty, buildFunctions rf gs ps T2 (D.map (·.1) ++ [n]) = .ok all' →
      (match find? typesInputVariables n with
        | some t => some t
        | none => (findFn? all' n).bind (·.ann)) = some ty → ty.toDT = v.dt) :
    pr'.data = pr.data ++ [(n, v)] ∧
    ∀ x f f', findFn? pr.fns x = some f → findFn? pr'.fns x = some f' → f = f' := by
  have hnd := prepare_targets_not_data hpr
  have hnd' := prepare_targets_not_data hpr'
  obtain ⟨raw, all, hraw, hall, hconv, hfns, _⟩ := prepare_ok hpr
  obtain ⟨raw', all', hraw', hall', hconv', hfns', _⟩ := prepare_ok hpr'
  have hnames := typedData_names hraw
  -- the typed data of the second run
  unfold typedData at hraw'
  obtain ⟨raw0, e, hraw0, he, hraw'eq⟩ := ov_mapM_append _ _ _ _ hraw'
  have : raw0 = raw := by
    unfold typedData at hraw
    rw [hraw] at hraw0
    exact (Except.ok.inj hraw0).symm
  subst this
  simp only [hcol, bind, Except.bind, pure, Except.pure, Except.ok.injEq] at he
  subst he
  subst hraw'eq
  have hnames' : (raw0 ++ [(n, v)]).map (·.1) = D.map (·.1) ++ [n] := by
    rw [List.map_append, hnames]; rfl
  rw [hnames'] at hall' hconv' hfns'
  rw [hnames] at hall hconv hfns
  have hall2 : buildFunctions rf gs ps T2 (D.map (·.1)) = .ok all' := by rw [← hstab]; exact hall'
  -- the function sets
  have hagree : ∀ x f f', findFn? all x = some f → findFn? all' x = some f' → f = f' :=
    fun x f f' hf hf' => (buildFunctions_targets hall hall2 x f hf).1 f' hf'
  refine ⟨?_, ?_⟩
  · -- the converted data
    unfold convertData at hconv'
    obtain ⟨d1, e, hd1, he, hdata'⟩ := ov_mapM_append _ _ _ _ hconv'
    rw [hdata']
    have hd1' : convertData raw0 (all'.filter fun f => (D.map (·.1) ++ [n]).contains f.name) = .ok d1 := hd1
    rw [convertData_congr raw0 _ (all.filter fun f => (D.map (·.1)).contains f.name)] at hd1'
    · rw [hconv] at hd1'
      cases hd1'
      congr 2
      -- the new column
      simp only at he
      have hcn : (D.map (·.1) ++ [n]).contains n = true := by simp
      have hov : findFn? (all'.filter fun f => (D.map (·.1) ++ [n]).contains f.name) n = findFn? all' n := by
        rw [findFn?_filter_name (fun m => (D.map (·.1) ++ [n]).contains m)]
        simp only [hcn, if_true]
      rw [hov] at he
      split at he
      · simp only [Except.ok.injEq] at he
        exact he.symm
      · rename_i t ht
        have := hty all' t hall' ht
        rw [ov_convertCol_id this] at he
        simp only [bind, Except.bind, pure, Except.pure, Except.ok.injEq] at he
        exact he.symm
    · intro m hm
      rw [hnames] at hm
      rw [findFn?_filter_name (fun x => (D.map (·.1) ++ [n]).contains x),
        findFn?_filter_name (fun x => (D.map (·.1)).contains x)]
      have hc1 : (D.map (·.1)).contains m = true := by simpa using hm
      have hc2 : (D.map (·.1) ++ [n]).contains m = true := by
        simp only [List.contains_eq_mem, List.mem_append, decide_eq_true_eq]
        exact Or.inl hm
      simp only [hc1, hc2, if_true]
      cases hf : findFn? all m with
      | some f =>
        obtain ⟨h1, h2⟩ := buildFunctions_targets hall hall2 m f hf
        cases hf' : findFn? all' m with
        | some f' => rw [h1 f' hf']
        | none => exact absurd hm (hnd m (h2 hf').1)
      | none =>
        cases hf' : findFn? all' m with
        | some f' =>
          obtain ⟨_, h2⟩ := buildFunctions_targets hall2 hall m f' hf'
          have := hnd' m (h2 hf).1
          rw [List.map_append, List.mem_append] at this
          exact absurd (Or.inl hm) this
        | none => rfl
  · intro x f f' hf hf'
    rw [hfns, findFn?_filter_name (fun m => !(D.map (·.1)).contains m)] at hf
    rw [hfns', findFn?_filter_name (fun m => !(D.map (·.1) ++ [n]).contains m)] at hf'
    split at hf
    · split at hf'
      · exact hagree x f f' hf hf'
      · cases hf'
    · cases hf

theorem ov_find?_fullSys (params : List (String × Val)) (fns : List Fn) (x : String) :
    Dag.find? (fullSys params fns) x = (findFn? fns x).map (nodeLazy params) := by
  have := find?_map_fns (nodeLazy params) fns x
  unfold find? at this
  exact this

/-- the general feed-back lemma (see `simulate_feed_back_gen` in `Props/C05Sim.lean`) -/
theorem ov_feed_back (inp : Input) (n t : String) (tbl tbl' : Table) (c : Column) (v : Col)
    (h : simulate { inp with targets := [n, t] } = .ok tbl) (hc : find? tbl n = some c)
    (h' : simulate { inp with targets := [t], data := inp.data ++ [(n, c)] } = .ok tbl')
    (hv : ov_value { inp with targets := [n, t] } n = .ok v)
    (hshape : v.shape = .arr) (hne : c ≠ [] ∨ v.vals ≠ [])
    (hty : ∀ ty, ov_convTy { inp with targets := [t], data := inp.data ++ [(n, c)] } n = some ty →
      ty.toDT = v.dt)
    (hfs : ov_fnsStable { inp with targets := [t] } n = true) :
    find? tbl' t = find? tbl t := by
  obtain ⟨pr, vt, hpr, hvt, hft⟩ := simulate_value_unpruned _ tbl t h (by simp)
  obtain ⟨pr0, vn, hpr0, hvn, hfn⟩ := simulate_value_unpruned _ tbl n h (by simp)
  obtain ⟨pr', vt', hpr', hvt', hft'⟩ := simulate_value_unpruned _ tbl' t h' (by simp)
  simp only at hpr hpr0 hpr' hvt hvn hvt'
  rw [hpr] at hpr0
  cases hpr0
  -- the value of `n`
  have hvn' : vn = v := by
    unfold ov_value at hv
    simp only [hpr, bind, Except.bind] at hv
    rw [hvn] at hv
    exact Except.ok.inj hv
  subst hvn'
  rw [hc] at hfn
  have hcr := Option.some.inj hfn
  have htyped : ov_Typed vn := ov_eval_typed hpr _ _ _ _ hvn
  have hvals : vn.vals ≠ [] := by
    rcases hne with hne | hne
    · intro hnil
      apply hne
      rw [hcr, ov_render_arr _ _ hshape, hnil]
      rfl
    · exact hne
  have hcol : colOfData c = .ok vn := by
    rw [hcr]
    exact ov_colOfData_render htyped hshape (Or.inl hvals)
  have hT : sortDedup [t] = [t] := rfl
  have hstab := ov_fnsStable_spec _ n hfs
  simp only [hT] at hstab hpr'
  obtain ⟨hdata, hagree⟩ := ov_prepare_feed hpr hpr' hstab hcol (by
    intro all' ty hall' hm
    apply hty ty
    unfold ov_convTy
    simp only [hT, List.map_append, List.map_cons, List.map_nil, hall']
    exact hm)
  -- the value of `t`
  have h1 := Dag.override_equiv_append _ _ n vn _ hvn _ t vt hvt
  rw [hdata] at hvt'
  have hvv : vt = vt' := by
    refine Dag.eval_ok_agree _ _ _ ?_ _ _ t vt vt' h1 hvt'
    intro x nd nd' hx hx'
    rw [ov_find?_fullSys] at hx hx'
    cases hf : findFn? pr.fns x with
    | none => rw [hf] at hx; cases hx
    | some f =>
      cases hf' : findFn? pr'.fns x with
      | none => rw [hf'] at hx'; cases hx'
      | some f' =>
        rw [hf] at hx
        rw [hf'] at hx'
        simp only [Option.map_some, Option.some.injEq] at hx hx'
        have := hagree x f f' hf hf'
        subst this
        subst hx
        subst hx'
        exact ⟨rfl, fun _ => rfl⟩
  rw [hft, hft', hdata, hvv]
  have hne' := ov_prepare_data_ne_nil hpr
  cases hd : pr.data with
  | nil => exact absurd hd hne'
  | cons e rest => rfl

/-! ### a supplied column is used: the rule of the same name is irrelevant -/

/-- forget the body (and return type / rounding key inside the kind) of the rules called `n` -/
def ov_blank (n : String) (f : Fn) : Fn :=
  match f.kind with
  | .rule _ _ _ => if f.name = n then { f with kind := .grouping .fg } else f
  | _ => f

theorem ov_blank_name (n : String) (f : Fn) : (ov_blank n f).name = f.name := by
  unfold ov_blank; split <;> [split; skip] <;> rfl

theorem ov_blank_args (n : String) (f : Fn) : (ov_blank n f).args = f.args := by
  unfold ov_blank; split <;> [split; skip] <;> rfl

theorem ov_blank_ann (n : String) (f : Fn) : (ov_blank n f).ann = f.ann := by
  unfold ov_blank; split <;> [split; skip] <;> rfl

theorem ov_blank_of_ne {n : String} {f : Fn} (h : f.name ≠ n) : ov_blank n f = f := by
  unfold ov_blank; split <;> [rw [if_neg h]; rfl]

theorem ov_dictUpdate_blank (n : String) (d : List Fn) (f : Fn) :
    dictUpdate (d.map (ov_blank n)) (ov_blank n f) = (dictUpdate d f).map (ov_blank n) := by
  induction d with
  | nil => rfl
  | cons g d ih =>
    simp only [List.map_cons, dictUpdate, ov_blank_name]
    split
    · rfl
    · rw [List.map_cons, ih]

theorem ov_merge_blank (n : String) (a b : List Fn) :
    merge (a.map (ov_blank n)) (b.map (ov_blank n)) = (merge a b).map (ov_blank n) := by
  unfold merge
  induction b generalizing a with
  | nil => rfl
  | cons f b ih =>
    rw [List.map_cons, List.foldl_cons, List.foldl_cons, ov_dictUpdate_blank, ih]

theorem ov_findFn?_blank (n : String) (d : List Fn) (x : String) :
    findFn? (d.map (ov_blank n)) x = (findFn? d x).map (ov_blank n) := by
  induction d with
  | nil => rfl
  | cons g d ih =>
    rw [List.map_cons, findFn?_cons, findFn?_cons, ov_blank_name, ih]
    split <;> rfl

theorem ov_hasFn_blank (n : String) (d : List Fn) (x : String) :
    hasFn (d.map (ov_blank n)) x = hasFn d x := by
  unfold hasFn
  rw [ov_findFn?_blank]
  cases findFn? d x <;> rfl

theorem ov_aggAnn_blank (n : String) (a : Aggr) (src : Option String) (d : List Fn) :
    aggAnn a src (d.map (ov_blank n)) = aggAnn a src d := by
  unfold aggAnn
  cases a <;> cases src <;> simp only [ov_findFn?_blank] <;>
    (rename_i s; cases findFn? d s <;> simp [ov_blank_ann])

theorem ov_names_blank (n : String) (d : List Fn) :
    (d.map (ov_blank n)).map (·.name) = d.map (·.name) := by
  rw [List.map_map]
  apply List.map_congr_left
  intro f _
  exact ov_blank_name n f

theorem ov_args_blank (n : String) (d : List Fn) :
    (d.map (ov_blank n)).flatMap (·.args) = d.flatMap (·.args) := by
  induction d with
  | nil => rfl
  | cons f d ih => rw [List.map_cons, List.flatMap_cons, List.flatMap_cons, ih, ov_blank_args]

theorem ov_blank_notRule (n : String) {f : Fn} (h : f.notRule) : ov_blank n f = f := by
  unfold Fn.notRule at h
  unfold ov_blank
  split
  · rename_i hk; rw [hk] at h; exact h.elim
  · rfl

theorem ov_map_blank_fix (n : String) {l : List Fn} (h : ∀ f ∈ l, f.notRule) : l.map (ov_blank n) = l := by
  rw [List.map_congr_left (g := id)]
  · simp
  · intro f hf; exact ov_blank_notRule n (h f hf)

theorem ov_pidFns_notRule {rules : List Fn} {dataCols : List String} {specs : List (String × PidSpec)}
    {out : List Fn} (h : pidFns rules dataCols specs = .ok out) : ∀ f ∈ out, f.notRule := by
  unfold pidFns at h
  obtain ⟨fs, hfs, h⟩ := bind_ok h
  simp only [pure, Except.pure, Except.ok.injEq] at h
  subst h
  intro f hf
  rcases loc_mem_merge hf with hf | hf
  · cases hf
  · obtain ⟨⟨n, s⟩, _, hg⟩ := filterMapM_mem _ _ _ hfs f hf
    simp only at hg
    split at hg
    · split at hg
      · cases hg
      · simp only [pure, Except.pure, Except.ok.injEq, Option.some.injEq] at hg
        subst hg
        unfold Fn.notRule; trivial
    · cases hg

theorem ov_timeConvFns_notRule (l : List Fn) (dataCols : List String) :
    ∀ f ∈ timeConvFns l dataCols, f.notRule := by
  intro f hf
  unfold timeConvFns at hf
  obtain ⟨d, _, rfl⟩ := List.mem_map.1 hf
  unfold Fn.notRule; trivial

theorem ov_groupAggFn_notRule {fns : List Fn} {name : String} {s : GroupSpec} {f : Fn}
    (h : groupAggFn fns name s = .ok f) : f.notRule := by
  unfold groupAggFn at h
  split at h
  · cases h
  · split at h
    · cases h; unfold Fn.notRule; trivial
    · split at h
      · cases h
      · cases h; unfold Fn.notRule; trivial
    · cases h

theorem ov_groupAggFns_notRule {fns : List Fn} {targets dataCols : List String}
    {userSpecs : List (String × GroupSpec)} {out : List Fn}
    (h : groupAggFns fns targets dataCols userSpecs = .ok out) : ∀ f ∈ out, f.notRule := by
  rw [groupAggFns_eq] at h
  split at h
  · cases h
  · intro f hf
    obtain ⟨⟨n, s⟩, _, hg⟩ := mapM_mem_out h f hf
    exact ov_groupAggFn_notRule hg

theorem ov_groupingFns_notRule : ∀ f ∈ groupingFns, f.notRule := by
  intro f hf
  simp only [groupingFns, List.mem_cons, List.not_mem_nil, or_false] at hf
  rcases hf with rfl | rfl | rfl | rfl | rfl | rfl <;> (unfold Fn.notRule; trivial)

theorem ov_pidFns_blank (n : String) (rules : List Fn) (dc : List String) (ps : List (String × PidSpec)) :
    pidFns (rules.map (ov_blank n)) dc ps = pidFns rules dc ps := by
  unfold pidFns
  simp only [ov_hasFn_blank, ov_aggAnn_blank]

theorem ov_timeConvFns_blank (n : String) (l : List Fn) (dc : List String) :
    timeConvFns (l.map (ov_blank n)) dc = timeConvFns l dc := by
  unfold timeConvFns
  congr 2
  rw [List.map_map]
  apply List.map_congr_left
  intro f _
  simp only [Function.comp, ov_blank_name, ov_blank_args]

theorem ov_groupAggFns_blank (n : String) (fns : List Fn) (T dc : List String)
    (gs : List (String × GroupSpec)) :
    groupAggFns (fns.map (ov_blank n)) T dc gs = groupAggFns fns T dc gs := by
  have hauto : autoOk (fns.map (ov_blank n)) dc = autoOk fns dc := by
    funext col
    unfold autoOk
    rw [ov_hasFn_blank, ov_names_blank]
  have hspecs : allSpecs (fns.map (ov_blank n)) T dc gs = allSpecs fns T dc gs := by
    unfold allSpecs
    rw [ov_args_blank, hauto]
  have hfn : ∀ name s, groupAggFn (fns.map (ov_blank n)) name s = groupAggFn fns name s := by
    intro name s
    unfold groupAggFn
    simp only [ov_aggAnn_blank]
  rw [groupAggFns_eq, groupAggFns_eq, hspecs]
  simp only [hfn]

theorem ov_merge_blank_right (n : String) (a b : List Fn) (hb : ∀ f ∈ b, f.notRule) :
    merge (a.map (ov_blank n)) b = (merge a b).map (ov_blank n) := by
  rw [← ov_merge_blank, ov_map_blank_fix n hb]

theorem ov_merge_blank_left (n : String) (a b : List Fn) (ha : ∀ f ∈ a, f.notRule) :
    merge a (b.map (ov_blank n)) = (merge a b).map (ov_blank n) := by
  rw [← ov_merge_blank, ov_map_blank_fix n ha]

theorem ov_merge_notRule {a b : List Fn} (ha : ∀ f ∈ a, f.notRule) (hb : ∀ f ∈ b, f.notRule) :
    ∀ f ∈ merge a b, f.notRule := by
  intro f hf
  rcases loc_mem_merge hf with hf | hf
  · exact ha f hf
  · exact hb f hf

/-- `load_and_check_functions` only looks at the names, parameters and return annotations of the
rules: blanking the bodies of the rules called `n` commutes with it -/
theorem ov_buildFunctions_blank (n : String) (rf : List Fn) (gs : List (String × GroupSpec))
    (ps : List (String × PidSpec)) (T dc : List String) :
    buildFunctions (rf.map (ov_blank n)) gs ps T dc =
      (match buildFunctions rf gs ps T dc with
       | .ok all => .ok (all.map (ov_blank n))
       | .error e => .error e) := by
  unfold buildFunctions
  simp only
  have hrules : merge [] (rf.map (ov_blank n)) = (merge [] rf).map (ov_blank n) :=
    ov_merge_blank n [] rf
  rw [hrules, ov_pidFns_blank]
  cases hpid : pidFns (merge [] rf) dc ps with
  | error e => rfl
  | ok pid =>
    have hp := ov_pidFns_notRule hpid
    simp only [bind, Except.bind]
    rw [ov_merge_blank_right n _ _ hp, ov_timeConvFns_blank]
    have ht := ov_timeConvFns_notRule (merge (merge [] rf) pid) dc
    rw [ov_merge_blank_left n _ _ ht, ov_merge_blank_right n _ _ hp, ov_groupAggFns_blank]
    cases hgrp : groupAggFns (merge (merge (timeConvFns (merge (merge [] rf) pid) dc) (merge [] rf)) pid) T dc gs with
    | error e => rfl
    | ok grp =>
      have hg := ov_groupAggFns_notRule hgrp
      simp only [pure, Except.pure]
      rw [ov_merge_blank_left n _ _ (ov_merge_notRule hp ht), ov_merge_blank_right n _ _ hg,
        ov_merge_blank_right n _ _ ov_groupingFns_notRule]

/-- the preparation does not depend on the bodies of rules that are overridden by a data column -/
theorem ov_prepare_blank (n : String) (rf : List Fn) (gs : List (String × GroupSpec))
    (ps : List (String × PidSpec)) (data : List (String × Column)) (T : List String)
    (hn : n ∈ data.map (·.1)) :
    prepare (rf.map (ov_blank n)) gs ps data T = prepare rf gs ps data T := by
  unfold prepare
  cases hraw : typedData data with
  | error e => rfl
  | ok raw =>
    simp only [bind, Except.bind]
    cases checkData raw with
    | error e => rfl
    | ok _ =>
      simp only
      rw [ov_buildFunctions_blank]
      cases buildFunctions rf gs ps T (raw.map (·.1)) with
      | error e => rfl
      | ok all =>
        simp only
        have hn' : n ∈ raw.map (·.1) := by rw [typedData_names hraw]; exact hn
        have h1 : T.all (hasFn (all.map (ov_blank n))) = T.all (hasFn all) := by
          congr 1; funext x; exact ov_hasFn_blank n all x
        have h2 : (all.map (ov_blank n)).filter (fun f => !(raw.map (·.1)).contains f.name) =
            all.filter (fun f => !(raw.map (·.1)).contains f.name) := by
          rw [List.filter_map]
          rw [List.map_congr_left (g := id)]
          · simp only [List.map_id_fun, id_eq]
            congr 1
            funext f
            simp only [Function.comp, ov_blank_name]
          · intro f hf
            apply ov_blank_of_ne
            rintro rfl
            have := (List.mem_filter.1 hf).2
            simp only [Function.comp, ov_blank_name, Bool.not_eq_true', List.contains_eq_mem,
              decide_eq_false_iff_not] at this
            exact this hn'
        have h3 : convertData raw ((all.map (ov_blank n)).filter fun f => (raw.map (·.1)).contains f.name) =
            convertData raw (all.filter fun f => (raw.map (·.1)).contains f.name) := by
          apply convertData_congr
          intro m _
          rw [findFn?_filter_name (fun x => (raw.map (·.1)).contains x),
            findFn?_filter_name (fun x => (raw.map (·.1)).contains x), ov_findFn?_blank]
          split
          · cases findFn? all m <;> simp [ov_blank_ann]
          · rfl
        rw [h1, h2, h3]

theorem ov_run_blank (n : String) (rf : List Fn) (params : List (String × Val))
    (gs : List (String × GroupSpec)) (ps : List (String × PidSpec)) (data : List (String × Column))
    (T : List String) (hn : n ∈ data.map (·.1)) :
    run (rf.map (ov_blank n)) params gs ps data T = run rf params gs ps data T := by
  unfold run
  simp only [ov_prepare_blank n rf gs ps data _ hn]

/-- two rules with the same name, parameters and return annotation; identical unless called `n` -/
def ov_sameButBody (n : String) (r r' : Rule) : Prop :=
  r.name = r'.name ∧ r.fn.args = r'.fn.args ∧ r.ret = r'.ret ∧ (r.name ≠ n → r = r')

theorem ov_blank_ruleFn (n : String) (b : Bool) {r r' : Rule} (h : ov_sameButBody n r r') :
    ov_blank n (ruleFn b r) = ov_blank n (ruleFn b r') := by
  obtain ⟨h1, h2, h3, h4⟩ := h
  by_cases hn : r.name = n
  · unfold ov_blank ruleFn
    simp only [hn, ← h1, h2, h3, if_true]
  · rw [h4 hn]

theorem ov_blank_rules (n : String) (b : Bool) {rs rs' : List Rule}
    (h : List.Forall₂ (ov_sameButBody n) rs rs') :
    (rs.map (ruleFn b)).map (ov_blank n) = (rs'.map (ruleFn b)).map (ov_blank n) := by
  induction h with
  | nil => rfl
  | cons hab _ ih => simp only [List.map_cons, ov_blank_ruleFn n b hab, ih]

/-! ### decidable side conditions and a report for (counter)examples -/

/-- the side conditions of the feed-back theorem, computed from the input: the value of `n` is a
non-empty 1-d column, its dtype is the one to which the supplied column will be converted (if any),
and the function set does not change when `n` becomes a data column -/
def ov_feedHyps (inp : Input) (n t : String) : Bool :=
  match ov_value { inp with targets := [n, t] } n with
  | .error _ => false
  | .ok v =>
    v.shape == .arr && !v.vals.isEmpty &&
    (match ov_convTy { inp with targets := [t], data := inp.data ++ [(n, [])] } n with
     | some ty => ty.toDT == v.dt
     | none => true) &&
    ov_fnsStable { inp with targets := [t] } n

theorem ov_convTy_col (inp : Input) (n t : String) (c c' : Column) :
    ov_convTy { inp with targets := [t], data := inp.data ++ [(n, c)] } n =
      ov_convTy { inp with targets := [t], data := inp.data ++ [(n, c')] } n := by
  unfold ov_convTy
  simp only [List.map_append, List.map_cons, List.map_nil]

theorem ov_feed_back_checked (inp : Input) (n t : String) (tbl tbl' : Table) (c : Column)
    (hyps : ov_feedHyps inp n t = true)
    (h : simulate { inp with targets := [n, t] } = .ok tbl) (hc : find? tbl n = some c)
    (h' : simulate { inp with targets := [t], data := inp.data ++ [(n, c)] } = .ok tbl') :
    find? tbl' t = find? tbl t := by
  unfold ov_feedHyps at hyps
  split at hyps
  · cases hyps
  · rename_i v hv
    simp only [Bool.and_eq_true, beq_iff_eq, Bool.not_eq_true', List.isEmpty_eq_false_iff] at hyps
    obtain ⟨⟨⟨hshape, hvals⟩, hty⟩, hfs⟩ := hyps
    refine ov_feed_back inp n t tbl tbl' c v h hc h' hv hshape (Or.inr hvals) ?_ hfs
    intro ty hct
    rw [ov_convTy_col inp n t c []] at hct
    rw [hct] at hty
    exact beq_iff_eq.1 hty

/-- a result column as printed (`kind`, values with six decimals) -/
def ov_shown (tbl : Table) (x : String) : Option (String × List String) :=
  (find? tbl x).map fun c => (Examples.kindOf c, c.map Examples.fmtVal)

structure ov_Report where
  shapeArr : Bool
  nonEmpty : Bool
  typeOk : Bool
  fnsStable : Bool
  /-- the column of `t` is printed identically in both runs -/
  sameResult : Bool
  deriving DecidableEq, Repr

/-- run `inp` for `[n, t]`, feed the column of `n` back as data, run for `[t]`: which side
conditions hold, and is the column of `t` the same? (`none` if one of the runs fails) -/
def ov_feedReport (inp : Input) (n t : String) : Option ov_Report :=
  match simulate { inp with targets := [n, t] }, ov_value { inp with targets := [n, t] } n with
  | .ok tbl, .ok v =>
    match find? tbl n with
    | none => none
    | some c =>
      match simulate { inp with targets := [t], data := inp.data ++ [(n, c)] } with
      | .error _ => none
      | .ok tbl' =>
        some { shapeArr := v.shape == .arr, nonEmpty := !c.isEmpty,
               typeOk := (match ov_convTy { inp with targets := [t], data := inp.data ++ [(n, [])] } n with
                 | some ty => ty.toDT == v.dt
                 | none => true),
               fnsStable := ov_fnsStable { inp with targets := [t] } n,
               sameResult := ov_shown tbl' t == ov_shown tbl t }
  | _, _ => none

/-- a report with `sameResult = false` is a genuine counterexample to the conclusion -/
theorem ov_feedReport_differs {inp : Input} {n t : String} {r : ov_Report}
    (h : ov_feedReport inp n t = some r) (hr : r.sameResult = false) :
    ∃ tbl tbl' c, simulate { inp with targets := [n, t] } = .ok tbl ∧ find? tbl n = some c ∧
      simulate { inp with targets := [t], data := inp.data ++ [(n, c)] } = .ok tbl' ∧
      find? tbl' t ≠ find? tbl t := by
  unfold ov_feedReport at h
  split at h
  · rename_i tbl v h1 _
    split at h
    · cases h
    · rename_i c hc
      split at h
      · cases h
      · rename_i tbl' h2
        simp only [Option.some.injEq] at h
        subst h
        refine ⟨tbl, tbl', c, h1, hc, h2, ?_⟩
        intro heq
        simp only [ov_shown, heq, beq_self_eq_true] at hr
        cases hr
  · cases h

/-! ### a weaker, still computable, condition on the function sets: agreement on common names -/

/-- the kind of a function without the rule body -/
inductive ov_KindTag where
  | rule
  | pidSum (src ptr : String)
  | timeConv (src : String) (u v : TimeConv.TUnit)
  | groupAgg (aggr : Aggr) (src : Option String) (gid : String)
  | grouping (g : Grouping)
  deriving DecidableEq, Repr

def ov_kindTag : Kind → ov_KindTag
  | .rule _ _ _ => .rule
  | .pidSum s p => .pidSum s p
  | .timeConv s u v => .timeConv s u v
  | .groupAgg a s g => .groupAgg a s g
  | .grouping g => .grouping g

/-- everything about a function except the body of a rule -/
def ov_sig (f : Fn) : String × List String × Option Ty × ov_KindTag :=
  (f.name, f.args, f.ann, ov_kindTag f.kind)

theorem ov_sig_notRule {f f' : Fn} (h : ov_sig f = ov_sig f') (hf : f.notRule) : f = f' := by
  obtain ⟨name, args, ann, kind⟩ := f
  obtain ⟨name', args', ann', kind'⟩ := f'
  simp only [ov_sig, Prod.mk.injEq] at h
  obtain ⟨rfl, rfl, rfl, hk⟩ := h
  unfold Fn.notRule at hf
  cases kind <;> cases kind' <;> simp_all [ov_kindTag]

theorem ov_sig_rule {f f' : Fn} (h : ov_sig f = ov_sig f') (hf : ¬ f.notRule) : ¬ f'.notRule := by
  obtain ⟨name, args, ann, kind⟩ := f
  obtain ⟨name', args', ann', kind'⟩ := f'
  simp only [ov_sig, Prod.mk.injEq] at h
  obtain ⟨_, _, _, hk⟩ := h
  unfold Fn.notRule at hf ⊢
  cases kind <;> cases kind' <;> simp_all [ov_kindTag]

theorem ov_buildFunctions_mem {rf : List Fn} {gs : List (String × GroupSpec)}
    {ps : List (String × PidSpec)} {T dc : List String} {all : List Fn}
    (h : buildFunctions rf gs ps T dc = .ok all) : ∀ f ∈ all, f.notRule ∨ f ∈ merge [] rf := by
  obtain ⟨pid, grp, hpid, hgrp, rfl⟩ := buildFunctions_ok h
  intro f hf
  rcases loc_mem_merge hf with hf | hf
  · rcases loc_mem_merge hf with hf | hf
    · rcases loc_mem_merge hf with hf | hf
      · rcases loc_mem_merge hf with hf | hf
        · exact Or.inl (ov_pidFns_notRule hpid f hf)
        · exact Or.inl (ov_timeConvFns_notRule _ _ f hf)
      · exact Or.inr hf
    · exact Or.inl (ov_groupAggFns_notRule hgrp f hf)
  · exact Or.inl (ov_groupingFns_notRule f hf)

/-- two functions with the same signature, taken from two function sets built from the SAME rules,
are equal -/
theorem ov_sig_eq {rf : List Fn} {gs : List (String × GroupSpec)} {ps : List (String × PidSpec)}
    {T T' dc dc' : List String} {all all' : List Fn}
    (h : buildFunctions rf gs ps T dc = .ok all) (h' : buildFunctions rf gs ps T' dc' = .ok all')
    {f f' : Fn} (hf : f ∈ all) (hf' : f' ∈ all') (hs : ov_sig f = ov_sig f') : f = f' := by
  by_cases hnr : f.notRule
  · exact ov_sig_notRule hs hnr
  · have hnr' := ov_sig_rule hs hnr
    have h1 := (ov_buildFunctions_mem h f hf).resolve_left hnr
    have h2 := (ov_buildFunctions_mem h' f' hf').resolve_left hnr'
    have hname : f.name = f'.name := by
      have := congrArg (·.1) hs
      exact this
    have e1 := findFn?_of_mem_nodup (nodup_merge_nil rf) h1
    have e2 := findFn?_of_mem_nodup (nodup_merge_nil rf) h2
    rw [hname, e2] at e1
    exact (Option.some.inj e1).symm

/-- A WEAKER computable condition than `ov_fnsStable`: with and without the data column `n`
(targets `[t]`) both function sets exist, `t` is a function without it, every function that exists
in both and is not overridden in the second has the same signature, and the annotations of the
functions overridden by the old data columns are the same. New functions may appear. -/
def ov_fnsCompat (inp : Input) (n t : String) : Bool :=
  let rf := inp.rules.map (ruleFn inp.rounding)
  let dc := inp.data.map (·.1)
  match buildFunctions rf inp.groupSpecs inp.pidSpecs [t] dc,
        buildFunctions rf inp.groupSpecs inp.pidSpecs [t] (dc ++ [n]) with
  | .ok A, .ok A' =>
    hasFn A t &&
    (A'.all fun f' => (dc ++ [n]).contains f'.name ||
      match findFn? A f'.name with
      | some f => ov_sig f == ov_sig f'
      | none => true) &&
    (dc.all fun m => (findFn? A m).bind (·.ann) == (findFn? A' m).bind (·.ann))
  | _, _ => false

/-- `ov_prepare_feed` with the function sets only required to agree on common names -/
theorem ov_prepare_feed' {rf : List Fn} {gs : List (String × GroupSpec)} {ps : List (String × PidSpec)}
    {D : List (String × Column)} {T1 T2 : List String} {n : String} {c : Column} {v : Col} {pr pr' : Prep}
    {A : List Fn}
    (hpr : prepare rf gs ps D T1 = .ok pr)
    (hpr' : prepare rf gs ps (D ++ [(n, c)]) T2 = .ok pr')
    (hA : buildFunctions rf gs ps T2 (D.map (·.1)) = .ok A)
    (hsub : ∀ x ∈ T1, x = n ∨ hasFn A x = true)
    (hcompat : ∀ all', buildFunctions rf gs ps T2 (D.map (·.1) ++ [n]) = .ok all' →
      (∀ x f f', (D.map (·.1) ++ [n]).contains x = false → findFn? A x = some f →
        findFn? all' x = some f' → f = f') ∧
      (∀ m ∈ D.map (·.1), (findFn? A m).bind (·.ann) = (findFn? all' m).bind (·.ann)))
    (hcol : colOfData c = .ok v)
    (hty : ∀ all' ty, buildFunctions rf gs ps T2 (D.map (·.1) ++ [n]) = .ok all' →
      (match find? typesInputVariables n with
        | some t => some t
        | none => (findFn? all' n).bind (·.ann)) = some ty → ty.toDT = v.dt) :
    pr'.data = pr.data ++ [(n, v)] ∧
    ∀ x f f', findFn? pr.fns x = some f → findFn? pr'.fns x = some f' → f = f' := by
  have hnd := prepare_targets_not_data hpr
  have hnd' := prepare_targets_not_data hpr'
  obtain ⟨raw, all, hraw, hall, hconv, hfns, _⟩ := prepare_ok hpr
  obtain ⟨raw', all', hraw', hall', hconv', hfns', _⟩ := prepare_ok hpr'
  have hnames := typedData_names hraw
  unfold typedData at hraw'
  obtain ⟨raw0, e, hraw0, he, hraw'eq⟩ := ov_mapM_append _ _ _ _ hraw'
  have : raw0 = raw := by
    unfold typedData at hraw
    rw [hraw] at hraw0
    exact (Except.ok.inj hraw0).symm
  subst this
  simp only [hcol, bind, Except.bind, pure, Except.pure, Except.ok.injEq] at he
  subst he
  subst hraw'eq
  have hnames' : (raw0 ++ [(n, v)]).map (·.1) = D.map (·.1) ++ [n] := by
    rw [List.map_append, hnames]; rfl
  rw [hnames'] at hall' hconv' hfns'
  rw [hnames] at hall hconv hfns
  obtain ⟨hc1, hc2⟩ := hcompat all' hall'
  have hagree : ∀ x f f', (D.map (·.1) ++ [n]).contains x = false → findFn? all x = some f →
      findFn? all' x = some f' → f = f' := by
    intro x f f' hx hf hf'
    obtain ⟨h1, h2⟩ := buildFunctions_targets hall hA x f hf
    cases hg : findFn? A x with
    | some g => rw [h1 g hg]; exact hc1 x g f' hx hg hf'
    | none =>
      exfalso
      rcases hsub x (h2 hg).1 with rfl | hx'
      · simp at hx
      · unfold hasFn at hx'; rw [hg] at hx'; cases hx'
  refine ⟨?_, ?_⟩
  · unfold convertData at hconv'
    obtain ⟨d1, e, hd1, he, hdata'⟩ := ov_mapM_append _ _ _ _ hconv'
    rw [hdata']
    have hd1' : convertData raw0 (all'.filter fun f => (D.map (·.1) ++ [n]).contains f.name) = .ok d1 := hd1
    rw [convertData_congr raw0 _ (all.filter fun f => (D.map (·.1)).contains f.name)] at hd1'
    · rw [hconv] at hd1'
      cases hd1'
      congr 2
      simp only at he
      have hcn : (D.map (·.1) ++ [n]).contains n = true := by simp
      have hov : findFn? (all'.filter fun f => (D.map (·.1) ++ [n]).contains f.name) n = findFn? all' n := by
        rw [findFn?_filter_name (fun m => (D.map (·.1) ++ [n]).contains m)]
        simp only [hcn, if_true]
      rw [hov] at he
      split at he
      · simp only [Except.ok.injEq] at he
        exact he.symm
      · rename_i t ht
        have := hty all' t hall' ht
        rw [ov_convertCol_id this] at he
        simp only [bind, Except.bind, pure, Except.pure, Except.ok.injEq] at he
        exact he.symm
    · intro m hm
      rw [hnames] at hm
      rw [findFn?_filter_name (fun x => (D.map (·.1) ++ [n]).contains x),
        findFn?_filter_name (fun x => (D.map (·.1)).contains x)]
      have hcm1 : (D.map (·.1)).contains m = true := by simpa using hm
      have hcm2 : (D.map (·.1) ++ [n]).contains m = true := by
        simp only [List.contains_eq_mem, List.mem_append, decide_eq_true_eq]
        exact Or.inl hm
      simp only [hcm1, hcm2, if_true]
      rw [← hc2 m hm]
      cases hf : findFn? all m with
      | some f =>
        obtain ⟨h1, h2⟩ := buildFunctions_targets hall hA m f hf
        cases hf' : findFn? A m with
        | some f' => rw [h1 f' hf']
        | none => exact absurd hm (hnd m (h2 hf').1)
      | none =>
        cases hf' : findFn? A m with
        | some f' =>
          obtain ⟨_, h2⟩ := buildFunctions_targets hA hall m f' hf'
          have := hnd' m (h2 hf).1
          rw [List.map_append, List.mem_append] at this
          exact absurd (Or.inl hm) this
        | none => rfl
  · intro x f f' hf hf'
    rw [hfns, findFn?_filter_name (fun m => !(D.map (·.1)).contains m)] at hf
    rw [hfns', findFn?_filter_name (fun m => !(D.map (·.1) ++ [n]).contains m)] at hf'
    split at hf
    · split at hf'
      · rename_i hx
        exact hagree x f f' (by simpa using hx) hf hf'
      · cases hf'
    · cases hf

theorem ov_fnsCompat_spec {inp : Input} {n t : String} (h : ov_fnsCompat inp n t = true) :
    ∃ A, buildFunctions (inp.rules.map (ruleFn inp.rounding)) inp.groupSpecs inp.pidSpecs [t]
        (inp.data.map (·.1)) = .ok A ∧ hasFn A t = true ∧
      ∀ all', buildFunctions (inp.rules.map (ruleFn inp.rounding)) inp.groupSpecs inp.pidSpecs [t]
          (inp.data.map (·.1) ++ [n]) = .ok all' →
        (∀ x f f', (inp.data.map (·.1) ++ [n]).contains x = false → findFn? A x = some f →
          findFn? all' x = some f' → f = f') ∧
        (∀ m ∈ inp.data.map (·.1), (findFn? A m).bind (·.ann) = (findFn? all' m).bind (·.ann)) := by
  unfold ov_fnsCompat at h
  simp only at h
  split at h
  · rename_i A A' hA hA'
    simp only [Bool.and_eq_true] at h
    obtain ⟨⟨ht, hsig⟩, hann⟩ := h
    refine ⟨A, hA, ht, ?_⟩
    intro all' hall'
    rw [hA'] at hall'
    cases hall'
    refine ⟨?_, ?_⟩
    · intro x f f' hx hf hf'
      obtain ⟨hmem', hname'⟩ := findFn?_some hf'
      obtain ⟨hmem, _⟩ := findFn?_some hf
      have := List.all_eq_true.1 hsig f' hmem'
      rw [hname', hx, hf] at this
      simp only [Bool.false_or, beq_iff_eq] at this
      exact ov_sig_eq hA hA' hmem hmem' this
    · intro m hm
      have := List.all_eq_true.1 hann m hm
      exact beq_iff_eq.1 this
  · cases h

/-- the feed-back lemma with the weaker condition on the function sets -/
theorem ov_feed_back' (inp : Input) (n t : String) (tbl tbl' : Table) (c : Column) (v : Col)
    (h : simulate { inp with targets := [n, t] } = .ok tbl) (hc : find? tbl n = some c)
    (h' : simulate { inp with targets := [t], data := inp.data ++ [(n, c)] } = .ok tbl')
    (hv : ov_value { inp with targets := [n, t] } n = .ok v)
    (hshape : v.shape = .arr) (hne : c ≠ [] ∨ v.vals ≠ [])
    (hty : ∀ ty, ov_convTy { inp with targets := [t], data := inp.data ++ [(n, c)] } n = some ty →
      ty.toDT = v.dt)
    (hfs : ov_fnsCompat inp n t = true) :
    find? tbl' t = find? tbl t := by
  obtain ⟨pr, vt, hpr, hvt, hft⟩ := simulate_value_unpruned _ tbl t h (by simp)
  obtain ⟨pr0, vn, hpr0, hvn, hfn⟩ := simulate_value_unpruned _ tbl n h (by simp)
  obtain ⟨pr', vt', hpr', hvt', hft'⟩ := simulate_value_unpruned _ tbl' t h' (by simp)
  simp only at hpr hpr0 hpr' hvt hvn hvt'
  rw [hpr] at hpr0
  cases hpr0
  have hvn' : vn = v := by
    unfold ov_value at hv
    simp only [hpr, bind, Except.bind] at hv
    rw [hvn] at hv
    exact Except.ok.inj hv
  subst hvn'
  rw [hc] at hfn
  have hcr := Option.some.inj hfn
  have htyped : ov_Typed vn := ov_eval_typed hpr _ _ _ _ hvn
  have hvals : vn.vals ≠ [] := by
    rcases hne with hne | hne
    · intro hnil
      apply hne
      rw [hcr, ov_render_arr _ _ hshape, hnil]
      rfl
    · exact hne
  have hcol : colOfData c = .ok vn := by
    rw [hcr]
    exact ov_colOfData_render htyped hshape (Or.inl hvals)
  have hT : sortDedup [t] = [t] := rfl
  obtain ⟨A, hA, hAt, hcompat⟩ := ov_fnsCompat_spec hfs
  simp only [hT] at hpr'
  obtain ⟨hdata, hagree⟩ := ov_prepare_feed' hpr hpr' hA (by
      intro x hx
      rw [mem_sortDedup] at hx
      simp only [List.mem_cons, List.not_mem_nil, or_false] at hx
      rcases hx with rfl | rfl
      · exact Or.inl rfl
      · exact Or.inr hAt) hcompat hcol (by
    intro all' ty hall' hm
    apply hty ty
    unfold ov_convTy
    simp only [hT, List.map_append, List.map_cons, List.map_nil, hall']
    exact hm)
  have h1 := Dag.override_equiv_append _ _ n vn _ hvn _ t vt hvt
  rw [hdata] at hvt'
  have hvv : vt = vt' := by
    refine Dag.eval_ok_agree _ _ _ ?_ _ _ t vt vt' h1 hvt'
    intro x nd nd' hx hx'
    rw [ov_find?_fullSys] at hx hx'
    cases hf : findFn? pr.fns x with
    | none => rw [hf] at hx; cases hx
    | some f =>
      cases hf' : findFn? pr'.fns x with
      | none => rw [hf'] at hx'; cases hx'
      | some f' =>
        rw [hf] at hx
        rw [hf'] at hx'
        simp only [Option.map_some, Option.some.injEq] at hx hx'
        have := hagree x f f' hf hf'
        subst this
        subst hx
        subst hx'
        exact ⟨rfl, fun _ => rfl⟩
  rw [hft, hft', hdata, hvv]
  have hne' := ov_prepare_data_ne_nil hpr
  cases hd : pr.data with
  | nil => exact absurd hd hne'
  | cons e rest => rfl

/-- `ov_feedHyps` with the weaker condition on the function sets -/
def ov_feedHyps' (inp : Input) (n t : String) : Bool :=
  match ov_value { inp with targets := [n, t] } n with
  | .error _ => false
  | .ok v =>
    v.shape == .arr && !v.vals.isEmpty &&
    (match ov_convTy { inp with targets := [t], data := inp.data ++ [(n, [])] } n with
     | some ty => ty.toDT == v.dt
     | none => true) &&
    ov_fnsCompat inp n t

theorem ov_feed_back_checked' (inp : Input) (n t : String) (tbl tbl' : Table) (c : Column)
    (hyps : ov_feedHyps' inp n t = true)
    (h : simulate { inp with targets := [n, t] } = .ok tbl) (hc : find? tbl n = some c)
    (h' : simulate { inp with targets := [t], data := inp.data ++ [(n, c)] } = .ok tbl') :
    find? tbl' t = find? tbl t := by
  unfold ov_feedHyps' at hyps
  split at hyps
  · cases hyps
  · rename_i v hv
    simp only [Bool.and_eq_true, beq_iff_eq, Bool.not_eq_true', List.isEmpty_eq_false_iff] at hyps
    obtain ⟨⟨⟨hshape, hvals⟩, hty⟩, hfs⟩ := hyps
    refine ov_feed_back' inp n t tbl tbl' c v h hc h' hv hshape (Or.inr hvals) ?_ hfs
    intro ty hct
    rw [ov_convTy_col inp n t c []] at hct
    rw [hct] at hty
    exact beq_iff_eq.1 hty

end GV.Simulate
