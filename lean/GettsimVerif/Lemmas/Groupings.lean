import GettsimVerif.Core.Groupings
/-
Helper lemmas for the partition specifications of the group-id constructors (C12).
-/
namespace GV

/-! ### dictionary lemmas -/

theorem dictGet?_nil {α : Type} (k : Int) : dictGet? ([] : List (Int × α)) k = none := rfl

theorem dictGet?_dictSet {α : Type} (d : List (Int × α)) (k k' : Int) (v : α) :
    dictGet? (dictSet d k v) k' = if k = k' then some v else dictGet? d k' := by
  induction d with
  | nil => simp [dictSet, dictGet?]
  | cons hd tl ih =>
    obtain ⟨a, b⟩ := hd
    simp only [dictSet]
    split
    · simp only [dictGet?]; grind
    · simp only [dictGet?]; grind

theorem dictGet?_dictSet_self {α : Type} (d : List (Int × α)) (k : Int) (v : α) :
    dictGet? (dictSet d k v) k = some v := by
  simp [dictGet?_dictSet]

theorem dictGet?_dictSet_ne {α : Type} (d : List (Int × α)) {k k' : Int} (v : α) (h : k ≠ k') :
    dictGet? (dictSet d k v) k' = dictGet? d k' := by
  simp [dictGet?_dictSet, h]

/-- Rows with unique first components: the row of a pid is unique. -/
theorem nodup_fst_unique {β : Type} {rows : List (Int × β)} (h : (rows.map Prod.fst).Nodup)
    {a : Int} {b c : β} (hb : (a, b) ∈ rows) (hc : (a, c) ∈ rows) : b = c := by
  induction rows with
  | nil => simp at hb
  | cons hd tl ih =>
    simp only [List.map_cons, List.nodup_cons, List.mem_map, not_exists, not_and] at h
    simp only [List.mem_cons] at hb hc
    rcases hb with hb | hb <;> rcases hc with hc | hc
    · grind
    · exact absurd rfl (hb ▸ h.1 (a, c) hc)
    · exact absurd rfl (hc ▸ h.1 (a, b) hb)
    · exact ih h.2 hb hc

theorem snoc_induction {α : Type} {P : List α → Prop} (nil : P [])
    (snoc : ∀ l a, P l → P (l ++ [a])) : ∀ l, P l := by
  intro l
  rw [← List.reverse_reverse l]
  induction l.reverse with
  | nil => exact nil
  | cons a t ih => simpa using snoc _ a ih

namespace Groupings

/-! ### eg_id / ehe_id -/

/-- Validity of a (pid, pointer) row list in membership form. -/
structure ValidRows (rows : List (Int × Int)) : Prop where
  nodup : (rows.map Prod.fst).Nodup
  nonneg : ∀ r ∈ rows, 0 ≤ r.1
  noself : ∀ r ∈ rows, r.2 ≠ r.1
  symm : ∀ r ∈ rows, 0 ≤ r.2 → (r.2, r.1) ∈ rows

/-- rows of the scanned prefix tagged with their result -/
def pairTag (pre : List (Int × Int)) (s : PairState) : List ((Int × Int) × Int) :=
  pre.zip s.res.reverse

structure PairInv (pre : List (Int × Int)) (s : PairState) : Prop where
  len : s.res.length = pre.length
  key : ∀ k g, dictGet? s.dict k = some g → k ∈ pre.map Prod.fst ∧ g < s.next
  inj : ∀ k1 k2 g, dictGet? s.dict k1 = some g → dictGet? s.dict k2 = some g → k1 = k2
  row : ∀ p q g, ((p, q), g) ∈ pairTag pre s →
    dictGet? s.dict p = some g ∨ (dictGet? s.dict p = none ∧ 0 ≤ q ∧ dictGet? s.dict q = some g)
  own : ∀ p q, (p, q) ∈ pre → 0 ≤ q → dictGet? s.dict p ≠ none → dictGet? s.dict q = none

theorem pairTag_snoc {pre : List (Int × Int)} {s : PairState} (h : s.res.length = pre.length)
    (r : Int × Int) (g : Int) (d : List (Int × Int)) (n : Int) :
    pairTag (pre ++ [r]) { dict := d, next := n, res := g :: s.res } = pairTag pre s ++ [(r, g)] := by
  simp only [pairTag, List.reverse_cons]
  rw [List.zip_append (by simp [h])]
  simp

theorem pairInv_init : PairInv [] {} := by
  constructor <;> simp [dictGet?, pairTag]

theorem pairInv_step {rows pre post : List (Int × Int)} {r : Int × Int} (hv : ValidRows rows)
    (hrows : rows = pre ++ r :: post) {s : PairState} (inv : PairInv pre s) :
    PairInv (pre ++ [r]) (pairStep s r) := by
  obtain ⟨p, q⟩ := r
  have hp_new : p ∉ pre.map Prod.fst := by
    have := hv.nodup
    rw [hrows] at this
    simp only [List.map_append, List.map_cons] at this
    have h2 := (List.nodup_append.mp this).2.2
    intro hmem
    exact h2 p hmem p (by simp) rfl
  have hp_none : dictGet? s.dict p = none := by
    cases h : dictGet? s.dict p with
    | none => rfl
    | some g => exact absurd (inv.key p g h).1 hp_new
  have hr_mem : (p, q) ∈ rows := by rw [hrows]; simp
  have hpre_mem : ∀ x ∈ pre, x ∈ rows := by intro x hx; rw [hrows]; simp [hx]
  have hqp : q ≠ p := hv.noself (p, q) hr_mem
  simp only [pairStep]
  split
  · -- joins the partner's entry
    rename_i g hg
    have hq : 0 ≤ q ∧ dictGet? s.dict q = some g := by
      split at hg
      · exact ⟨by assumption, hg⟩
      · simp at hg
    constructor
    · simp [inv.len]
    · intro k g' h
      have := inv.key k g' h
      exact ⟨by simp only [List.map_append, List.mem_append]; exact Or.inl this.1, this.2⟩
    · exact inv.inj
    · intro p' q' g' hm
      have e : ({ s with res := g :: s.res } : PairState) = { dict := s.dict, next := s.next, res := g :: s.res } := rfl
      rw [e, pairTag_snoc inv.len] at hm
      simp only [List.mem_append, List.mem_singleton, Prod.mk.injEq] at hm
      rcases hm with hm | ⟨⟨rfl, rfl⟩, rfl⟩
      · exact inv.row p' q' g' hm
      · exact Or.inr ⟨hp_none, hq.1, hq.2⟩
    · intro p' q' hm hq' hne
      simp only [List.mem_append, List.mem_singleton, Prod.mk.injEq] at hm
      rcases hm with hm | ⟨rfl, rfl⟩
      · exact inv.own p' q' hm hq' hne
      · exact absurd hp_none hne
  · -- fresh id
    rename_i hg
    have hq : 0 ≤ q → dictGet? s.dict q = none := by
      intro h0
      simpa [h0] using hg
    constructor
    · simp [inv.len]
    · intro k g' h
      simp only [dictGet?_dictSet] at h
      split at h
      · subst_vars
        simp only [Option.some.injEq] at h
        exact ⟨by simp, by show g' < s.next + 1; omega⟩
      · have := inv.key k g' h
        exact ⟨by simp only [List.map_append, List.mem_append]; exact Or.inl this.1,
          by show g' < s.next + 1; omega⟩
    · intro k1 k2 g' h1 h2
      simp only [dictGet?_dictSet] at h1 h2
      split at h1 <;> split at h2
      · omega
      · have := (inv.key k2 g' h2).2
        simp only [Option.some.injEq] at h1; omega
      · have := (inv.key k1 g' h1).2
        simp only [Option.some.injEq] at h2; omega
      · exact inv.inj k1 k2 g' h1 h2
    · intro p' q' g' hm
      rw [pairTag_snoc inv.len] at hm
      simp only [List.mem_append, List.mem_singleton, Prod.mk.injEq] at hm
      rcases hm with hm | ⟨⟨rfl, rfl⟩, rfl⟩
      · have hpre : (p', q') ∈ pre := (List.of_mem_zip hm).1
        have hne : p ≠ p' := by
          intro e; subst e
          exact hp_new (List.mem_map.mpr ⟨(p, q'), hpre, rfl⟩)
        rw [dictGet?_dictSet_ne _ _ hne]
        rcases inv.row p' q' g' hm with h | ⟨h1, h2, h3⟩
        · exact Or.inl h
        · have : p ≠ q' := by
            intro e; subst e
            rw [hp_none] at h3; cases h3
          rw [dictGet?_dictSet_ne _ _ this]
          exact Or.inr ⟨h1, h2, h3⟩
      · exact Or.inl (dictGet?_dictSet_self _ _ _)
    · intro p' q' hm hq' hne
      simp only [List.mem_append, List.mem_singleton, Prod.mk.injEq] at hm
      rcases hm with hm | ⟨rfl, rfl⟩
      · have hne' : p ≠ p' := by
          intro e; subst e
          exact hp_new (List.mem_map.mpr ⟨(p, q'), hm, rfl⟩)
        rw [dictGet?_dictSet_ne _ _ hne'] at hne
        have hnone := inv.own p' q' hm hq' hne
        have : p ≠ q' := by
          intro e; subst e
          -- the partner row of p' is the current row, so q = p'
          have h1 : (p, p') ∈ rows := hv.symm (p', p) (hpre_mem _ hm) hq'
          have h2 : q = p' := nodup_fst_unique hv.nodup hr_mem h1
          subst h2
          have h0 : 0 ≤ q := hv.nonneg (q, p) (hpre_mem _ hm)
          exact hne (hq h0)
        rw [dictGet?_dictSet_ne _ _ this]
        exact hnone
      · rw [dictGet?_dictSet_ne _ _ (Ne.symm hqp)]
        exact hq hq'

theorem pairInv_foldl {rows : List (Int × Int)} (hv : ValidRows rows) :
    ∀ pre post, rows = pre ++ post → PairInv pre (pre.foldl pairStep {}) := by
  intro pre
  induction pre using snoc_induction with
  | nil => intro _ _; exact pairInv_init
  | snoc pre r ih =>
    intro post h
    rw [List.foldl_append]
    simp only [List.foldl_cons, List.foldl_nil]
    have h' : rows = pre ++ r :: post := by simpa using h
    exact pairInv_step hv h' (ih (r :: post) h')

/-- Partition specification of `pairId` in membership form. -/
theorem pair_spec_mem {rows : List (Int × Int)} (hv : ValidRows rows)
    {p1 q1 g1 p2 q2 g2 : Int}
    (h1 : ((p1, q1), g1) ∈ pairTag rows (rows.foldl pairStep {}))
    (h2 : ((p2, q2), g2) ∈ pairTag rows (rows.foldl pairStep {})) :
    g1 = g2 ↔ (p1 = p2 ∨ q1 = p2) := by
  have inv := pairInv_foldl hv rows [] (by simp)
  have m1 : (p1, q1) ∈ rows := (List.of_mem_zip h1).1
  have m2 : (p2, q2) ∈ rows := (List.of_mem_zip h2).1
  have r1 := inv.row _ _ _ h1
  have r2 := inv.row _ _ _ h2
  constructor
  · intro e
    subst e
    rcases r1 with a | ⟨a1, a2, a3⟩ <;> rcases r2 with b | ⟨b1, b2, b3⟩
    · exact Or.inl (inv.inj _ _ _ a b)
    · -- q2 = p1, so by symmetry q1 = p2
      have e : p1 = q2 := inv.inj _ _ _ a b3
      subst e
      have := hv.symm (p2, p1) m2 b2
      exact Or.inr (nodup_fst_unique hv.nodup m1 this)
    · exact Or.inr (inv.inj _ _ _ a3 b)
    · have e : q1 = q2 := inv.inj _ _ _ a3 b3
      subst e
      have s1 := hv.symm (p1, q1) m1 a2
      have s2 := hv.symm (p2, q1) m2 b2
      exact Or.inl (nodup_fst_unique hv.nodup s1 s2)
  · rintro (e | e)
    · subst e
      have e : q1 = q2 := nodup_fst_unique hv.nodup m1 m2
      subst e
      rcases r1 with a | ⟨a1, a2, a3⟩ <;> rcases r2 with b | ⟨b1, b2, b3⟩
      · rw [a] at b; exact Option.some.inj b
      · rw [a] at b1; cases b1
      · rw [b] at a1; cases a1
      · rw [a3] at b3; exact Option.some.inj b3
    · subst e
      have hq : 0 ≤ q1 := hv.nonneg _ m2
      have e : q2 = p1 := nodup_fst_unique hv.nodup m2 (hv.symm (p1, q1) m1 hq)
      subst e
      rcases r1 with a | ⟨a1, a2, a3⟩ <;> rcases r2 with b | ⟨b1, b2, b3⟩
      · have := inv.own _ _ m1 hq (by rw [a]; simp)
        rw [b] at this; cases this
      · rw [a] at b3; exact Option.some.inj b3
      · rw [a3] at b; exact Option.some.inj b
      · rw [a3] at b1; cases b1

theorem pairStep_foldl_res_length (rows : List (Int × Int)) (s : PairState) :
    (rows.foldl pairStep s).res.length = s.res.length + rows.length := by
  induction rows generalizing s with
  | nil => simp
  | cons r rows ih =>
    rw [List.foldl_cons, ih]
    obtain ⟨p, q⟩ := r
    simp only [pairStep]
    split <;> simp <;> omega

theorem pairId_length' (pid partner : List Int) :
    (pairId pid partner).length = min pid.length partner.length := by
  simp [pairId, pairStep_foldl_res_length]

/-- Validity of the (p_id, partner pointer) columns, index form.  Negative pointers mean "none".
We assume `p_id ≥ 0` (true for real data; a negative p_id could never be pointed to). -/
structure ValidPairs (pid partner : List Int) : Prop where
  len : partner.length = pid.length
  nodup : pid.Nodup
  nonneg : ∀ p ∈ pid, 0 ≤ p
  ptr : ∀ i (h : i < pid.length), partner[i]'(len ▸ h) < 0 ∨
    ∃ j, ∃ hj : j < pid.length, pid[j] = partner[i]'(len ▸ h)
  noself : ∀ i (h : i < pid.length), partner[i]'(len ▸ h) ≠ pid[i]
  symm : ∀ i (hi : i < pid.length) j (hj : j < pid.length),
    partner[i]'(len ▸ hi) = pid[j] → partner[j]'(len ▸ hj) = pid[i]

theorem mem_zip_iff_index {pid partner : List Int} (len : partner.length = pid.length)
    (r : Int × Int) :
    r ∈ pid.zip partner ↔ ∃ i, ∃ h : i < pid.length, r = (pid[i], partner[i]'(len ▸ h)) := by
  constructor
  · intro h
    obtain ⟨i, hi, e⟩ := List.mem_iff_getElem.mp h
    have hi' : i < pid.length := by simp at hi; omega
    exact ⟨i, hi', by rw [← e, List.getElem_zip]⟩
  · rintro ⟨i, h, rfl⟩
    refine List.mem_iff_getElem.mpr ⟨i, by simp [len]; exact h, ?_⟩
    rw [List.getElem_zip]

theorem ValidPairs.toRows {pid partner : List Int} (hv : ValidPairs pid partner) :
    ValidRows (pid.zip partner) := by
  have hlen := hv.len
  constructor
  · rw [List.map_fst_zip (by omega)]; exact hv.nodup
  · intro r hr
    exact hv.nonneg _ (List.of_mem_zip (a := r.1) (b := r.2) hr).1
  · intro r hr
    obtain ⟨i, h, rfl⟩ := (mem_zip_iff_index hlen r).mp hr
    exact hv.noself i h
  · intro r hr h0
    obtain ⟨i, h, rfl⟩ := (mem_zip_iff_index hlen r).mp hr
    rcases hv.ptr i h with hneg | ⟨j, hj, e⟩
    · simp only at h0; omega
    · have := hv.symm i h j hj e.symm
      refine (mem_zip_iff_index hlen _).mpr ⟨j, hj, ?_⟩
      simp only [e, this]

theorem pairTag_getElem {pid partner : List Int} (len : partner.length = pid.length)
    {i : Nat} (h : i < pid.length) :
    ((pid[i], partner[i]'(len ▸ h)), (pairId pid partner)[i]'(by rw [pairId_length']; omega)) ∈
      pairTag (pid.zip partner) ((pid.zip partner).foldl pairStep {}) := by
  refine List.mem_iff_getElem.mpr ⟨i, ?_, ?_⟩
  · simp [pairTag, pairStep_foldl_res_length, len]; exact h
  · simp [pairTag, pairId]

theorem pairId_spec_idx {pid partner : List Int} (hv : ValidPairs pid partner) {i j : Nat}
    (hi : i < pid.length) (hj : j < pid.length) :
    (pairId pid partner)[i]'(by rw [pairId_length', hv.len]; omega) =
      (pairId pid partner)[j]'(by rw [pairId_length', hv.len]; omega) ↔
    (i = j ∨ partner[i]'(hv.len ▸ hi) = pid[j]) := by
  rw [pair_spec_mem hv.toRows (pairTag_getElem hv.len hi) (pairTag_getElem hv.len hj)]
  rw [List.getElem_inj hv.nodup]

/-! #### bounds (unconditional) -/

structure PairBnd (s : PairState) : Prop where
  next0 : 0 ≤ s.next
  nextle : s.next ≤ s.res.length
  dict : ∀ k g, dictGet? s.dict k = some g → 0 ≤ g ∧ g < s.next
  res : ∀ g ∈ s.res, 0 ≤ g ∧ g < s.next

theorem pairBnd_step {s : PairState} (b : PairBnd s) (r : Int × Int) : PairBnd (pairStep s r) := by
  obtain ⟨p, q⟩ := r
  simp only [pairStep]
  split
  · rename_i g hg
    have hq : dictGet? s.dict q = some g := by
      split at hg
      · exact hg
      · simp at hg
    have := b.dict q g hq
    constructor
    · exact b.next0
    · have := b.nextle; simp only [List.length_cons]; omega
    · exact b.dict
    · intro g' hg'
      simp only [List.mem_cons] at hg'
      rcases hg' with rfl | h
      · exact this
      · exact b.res g' h
  · have h0 := b.next0
    have h1 := b.nextle
    constructor
    · show 0 ≤ s.next + 1; omega
    · show s.next + 1 ≤ ((s.next :: s.res).length : Int); simp only [List.length_cons]; omega
    · intro k g h
      show 0 ≤ g ∧ g < s.next + 1
      simp only [dictGet?_dictSet] at h
      split at h
      · simp only [Option.some.injEq] at h; omega
      · have := b.dict k g h; omega
    · intro g hg
      show 0 ≤ g ∧ g < s.next + 1
      simp only [List.mem_cons] at hg
      rcases hg with rfl | h
      · omega
      · have := b.res g h; omega

theorem pairBnd_foldl (rows : List (Int × Int)) {s : PairState} (b : PairBnd s) :
    PairBnd (rows.foldl pairStep s) := by
  induction rows generalizing s with
  | nil => exact b
  | cons r rows ih => exact ih (pairBnd_step b r)

theorem pairId_bounded_aux (pid partner : List Int) :
    ∀ g ∈ pairId pid partner, 0 ≤ g ∧ g < (pairId pid partner).length := by
  have b : PairBnd ((pid.zip partner).foldl pairStep {}) :=
    pairBnd_foldl _ ⟨by simp, by simp, by simp [dictGet?], by simp⟩
  intro g hg
  simp only [pairId, List.mem_reverse] at hg
  have := b.res g hg
  have := b.nextle
  simp only [pairId, List.length_reverse]
  omega

/-! ### wthh_id -/

theorem wthhId_length' (hh : List Int) (v1 v2 : List Bool) :
    (wthhId hh v1 v2).length = min hh.length (min v1.length v2.length) := by
  simp [wthhId]

theorem wthhId_getElem {hh : List Int} {v1 v2 : List Bool} {i : Nat}
    (h : i < (wthhId hh v1 v2).length) :
    (wthhId hh v1 v2)[i] =
      hh[i]'(by rw [wthhId_length'] at h; omega) * 100 +
        (if (v1[i]'(by rw [wthhId_length'] at h; omega) || v2[i]'(by rw [wthhId_length'] at h; omega))
          then 1 else 0) := by
  simp only [wthhId, List.getElem_map, List.getElem_zip]
  split <;> simp_all

/-! ### bg_id -/

/-- a row (fg, alter, eigenbedarf_gedeckt) of a self-sufficient child under 25 -/
def bgQual (r : Int × Int × Bool) : Bool := r.2.1 < 25 && r.2.2

/-- number of qualifying rows of family unit `f` among the first `i+1` rows -/
def bgRankRows (rows : List (Int × Int × Bool)) (f : Int) (i : Nat) : Nat :=
  (rows.take (i + 1)).countP (fun x => x.1 == f && bgQual x)

def bgVal (rows : List (Int × Int × Bool)) (i : Nat) (r : Int × Int × Bool) : Int :=
  if bgQual r then r.1 * 100 + bgRankRows rows r.1 i else r.1 * 100

structure BgInv (pre : List (Int × Int × Bool)) (s : BgState) : Prop where
  len : s.res.length = pre.length
  cnt : ∀ f, (dictGet? s.counter f).getD 0 = (pre.countP (fun x => x.1 == f && bgQual x) : Int)
  res : ∀ i r, pre[i]? = some r → s.res.reverse[i]? = some (bgVal pre i r)

theorem bgVal_snoc_lt {pre : List (Int × Int × Bool)} {i : Nat} (h : i < pre.length)
    (x r : Int × Int × Bool) : bgVal (pre ++ [x]) i r = bgVal pre i r := by
  simp only [bgVal, bgRankRows]
  rw [List.take_append_of_le_length (by omega)]

theorem bgInv_step {pre : List (Int × Int × Bool)} {s : BgState} (inv : BgInv pre s)
    (x : Int × Int × Bool) : BgInv (pre ++ [x]) (bgStep s x) := by
  obtain ⟨f, a, e⟩ := x
  have old : ∀ (g : Int) (c : List (Int × Int)) i r, (pre ++ [(f, a, e)])[i]? = some r → i < pre.length →
      ({ counter := c, res := g :: s.res } : BgState).res.reverse[i]? =
        some (bgVal (pre ++ [(f, a, e)]) i r) := by
    intro g c i r hr hi
    rw [bgVal_snoc_lt hi]
    rw [List.getElem?_append_left hi] at hr
    simp only [List.reverse_cons]
    rw [List.getElem?_append_left (by simp [inv.len]; exact hi)]
    exact inv.res i r hr
  simp only [bgStep]
  by_cases hq : (decide (a < 25) && e) = true
  · rw [if_pos hq]
    have hq' : bgQual (f, a, e) = true := hq
    constructor
    · simp [inv.len]
    · intro f'
      simp only [dictGet?_dictSet, List.countP_append, List.countP_cons, List.countP_nil]
      by_cases hf : f = f'
      · subst hf; simp [hq', inv.cnt f]
      · have : (f == f') = false := by simp [hf]
        simp [hf, inv.cnt f', this]
    · intro i r hr
      by_cases hi : i < pre.length
      · exact old _ _ i r hr hi
      · have hlen : i = pre.length := by
          have := (List.getElem?_eq_some_iff.mp hr).1
          simp at this; omega
        subst hlen
        simp only [List.getElem?_concat_length, Option.some.injEq] at hr
        subst hr
        simp only [List.reverse_cons]
        rw [← inv.len, ← List.length_reverse, List.getElem?_concat_length]
        simp only [bgVal, hq', if_true, bgRankRows, List.length_reverse, inv.len]
        rw [List.take_of_length_le (by simp)]
        simp [List.countP_append, inv.cnt f, hq']
  · rw [if_neg hq]
    have hq' : bgQual (f, a, e) = false := by simpa [bgQual] using hq
    constructor
    · simp [inv.len]
    · intro f'
      simp only [List.countP_append, List.countP_cons, List.countP_nil]
      simp [inv.cnt f', hq']
    · intro i r hr
      by_cases hi : i < pre.length
      · exact old _ _ i r hr hi
      · have hlen : i = pre.length := by
          have := (List.getElem?_eq_some_iff.mp hr).1
          simp at this; omega
        subst hlen
        simp only [List.getElem?_concat_length, Option.some.injEq] at hr
        subst hr
        simp only [List.reverse_cons]
        rw [← inv.len, ← List.length_reverse, List.getElem?_concat_length]
        simp [bgVal, hq']

theorem bgInv_foldl (rows : List (Int × Int × Bool)) : BgInv rows (rows.foldl bgStep {}) := by
  induction rows using snoc_induction with
  | nil => constructor <;> simp [dictGet?]
  | snoc pre r ih =>
    rw [List.foldl_append]
    exact bgInv_step ih r

theorem bgRankRows_pos {rows : List (Int × Int × Bool)} {j : Nat} (hj : j < rows.length)
    (hq : bgQual rows[j] = true) :
    bgRankRows rows rows[j].1 j = (rows.take j).countP (fun x => x.1 == rows[j].1 && bgQual x) + 1 := by
  simp only [bgRankRows]
  rw [List.take_succ_eq_append_getElem hj, List.countP_append]
  simp [hq]

theorem bgRankRows_lt {rows : List (Int × Int × Bool)} {i j : Nat} (hij : i < j)
    (hj : j < rows.length) (hq : bgQual rows[j] = true) :
    bgRankRows rows rows[j].1 i < bgRankRows rows rows[j].1 j := by
  rw [bgRankRows_pos hj hq]
  have : bgRankRows rows rows[j].1 i ≤ (rows.take j).countP (fun x => x.1 == rows[j].1 && bgQual x) :=
    (List.take_sublist_take_left (by omega)).countP_le
  omega

theorem bgId_length' (fg alter : List Int) (eigen : List Bool) :
    (bgId fg alter eigen).length = min fg.length (min alter.length eigen.length) := by
  simp [bgId, (bgInv_foldl _).len]

theorem bgId_getElem_rows {fg alter : List Int} {eigen : List Bool} {i : Nat}
    (h : i < (bgId fg alter eigen).length) :
    (bgId fg alter eigen)[i] =
      bgVal (fg.zip (alter.zip eigen)) i
        (fg[i]'(by rw [bgId_length'] at h; omega), alter[i]'(by rw [bgId_length'] at h; omega),
          eigen[i]'(by rw [bgId_length'] at h; omega)) := by
  have h' := h
  rw [bgId_length'] at h'
  have inv := bgInv_foldl (fg.zip (alter.zip eigen))
  have := inv.res i (fg[i], alter[i], eigen[i]) (by
    rw [List.getElem?_eq_some_iff]
    exact ⟨by simp; omega, by simp⟩)
  have e := List.getElem?_eq_some_iff.mp this
  exact e.2

/-- `bgRank fg alter eigen i` = number of rows `j ≤ i` with `fg[j] = fg[i]`, `alter[j] < 25` and
`eigen[j]` (rows = positions of the three zipped columns). -/
def bgRank (fg alter : List Int) (eigen : List Bool) (i : Nat) : Nat :=
  bgRankRows (fg.zip (alter.zip eigen)) (fg[i]?.getD 0) i

/-! ### sn_id -/

instance instDecEqExcept {ε α : Type} [DecidableEq ε] [DecidableEq α] : DecidableEq (Except ε α)
  | .ok a, .ok b =>
    if h : a = b then isTrue (by rw [h]) else isFalse (by intro e; cases e; exact h rfl)
  | .error a, .error b =>
    if h : a = b then isTrue (by rw [h]) else isFalse (by intro e; cases e; exact h rfl)
  | .ok _, .error _ => isFalse (by intro e; cases e)
  | .error _, .ok _ => isFalse (by intro e; cases e)

/-- Validity of (pid, spouse pointer, flag) rows in membership form. -/
structure ValidRows3 (rows : List (Int × Int × Bool)) : Prop where
  nodup : (rows.map Prod.fst).Nodup
  nonneg : ∀ r ∈ rows, 0 ≤ r.1
  noself : ∀ r ∈ rows, r.2.1 ≠ r.1
  symm : ∀ r ∈ rows, 0 ≤ r.2.1 → ∃ b, (r.2.1, r.1, b) ∈ rows

/-- all spouses inside `pre` carry the same flag -/
def SnAgree (pre : List (Int × Int × Bool)) : Prop :=
  ∀ x ∈ pre, ∀ y ∈ pre, 0 ≤ x.2.1 → y.1 = x.2.1 → y.2.2 = x.2.2

def snTag (pre : List (Int × Int × Bool)) (s : SnState) : List ((Int × Int × Bool) × Int) :=
  pre.zip s.res.reverse

structure SnInv (pre : List (Int × Int × Bool)) (s : SnState) : Prop where
  len : s.res.length = pre.length
  key : ∀ k g, dictGet? s.dict k = some g →
    g < s.next ∧ ∃ q b, (k, q, b) ∈ pre ∧ dictGet? s.flag k = some b
  inj : ∀ k1 k2 g, dictGet? s.dict k1 = some g → dictGet? s.dict k2 = some g → k1 = k2
  row : ∀ p q b g, ((p, q, b), g) ∈ snTag pre s →
    dictGet? s.dict p = some g ∨
      (dictGet? s.dict p = none ∧ 0 ≤ q ∧ b = true ∧ dictGet? s.dict q = some g)
  own : ∀ p q, (p, q, true) ∈ pre → 0 ≤ q → dictGet? s.dict p ≠ none → dictGet? s.dict q = none

theorem snTag_snoc {pre : List (Int × Int × Bool)} {s : SnState} (h : s.res.length = pre.length)
    (r : Int × Int × Bool) (g : Int) (d : List (Int × Int)) (f : List (Int × Bool)) (n : Int) :
    snTag (pre ++ [r]) { dict := d, flag := f, next := n, res := g :: s.res } =
      snTag pre s ++ [(r, g)] := by
  simp only [snTag, List.reverse_cons]
  rw [List.zip_append (by simp [h])]
  simp

theorem exists_mem_zip_of_mem {α β : Type} {l : List α} {m : List β} (h : m.length = l.length)
    {x : α} (hx : x ∈ l) : ∃ g, (x, g) ∈ l.zip m := by
  obtain ⟨i, hi, e⟩ := List.mem_iff_getElem.mp hx
  refine ⟨m[i], List.mem_iff_getElem.mpr ⟨i, by simp [h]; exact hi, ?_⟩⟩
  simp [e]

/-- every scanned row either owns a dict entry or joined its spouse's entry -/
theorem SnInv.rowm {pre : List (Int × Int × Bool)} {s : SnState} (inv : SnInv pre s)
    {p q : Int} {b : Bool} (h : (p, q, b) ∈ pre) :
    dictGet? s.dict p ≠ none ∨ (0 ≤ q ∧ b = true ∧ dictGet? s.dict q ≠ none) := by
  obtain ⟨g, hg⟩ := exists_mem_zip_of_mem (m := s.res.reverse) (by simp [inv.len]) h
  rcases inv.row p q b g hg with h1 | ⟨_, h2, h3, h4⟩
  · left; rw [h1]; simp
  · right; exact ⟨h2, h3, by rw [h4]; simp⟩

def snFresh (s : SnState) (p : Int) (b : Bool) : SnState :=
  { dict := dictSet s.dict p s.next, flag := dictSet s.flag p b,
    next := s.next + 1, res := s.next :: s.res }

section step
variable {rows pre post : List (Int × Int × Bool)} {p q : Int} {b : Bool} {s : SnState}

theorem sn_new_key (hv : ValidRows3 rows) (hrows : rows = pre ++ (p, q, b) :: post) :
    p ∉ pre.map Prod.fst := by
  have := hv.nodup
  rw [hrows] at this
  simp only [List.map_append, List.map_cons] at this
  have h2 := (List.nodup_append.mp this).2.2
  intro hmem
  exact h2 p hmem p (by simp) rfl

theorem sn_new_none (hv : ValidRows3 rows) (hrows : rows = pre ++ (p, q, b) :: post)
    (inv : SnInv pre s) : dictGet? s.dict p = none := by
  cases h : dictGet? s.dict p with
  | none => rfl
  | some g =>
    obtain ⟨_, q', b', hm, _⟩ := inv.key p g h
    exact absurd (List.mem_map.mpr ⟨(p, q', b'), hm, rfl⟩) (sn_new_key hv hrows)

/-- the earlier spouse of the current row owns a dict entry and a flag entry -/
theorem sn_partner_entry (hv : ValidRows3 rows) (hrows : rows = pre ++ (p, q, b) :: post)
    (inv : SnInv pre s) {qy : Int} {by' : Bool} (hy : (q, qy, by') ∈ pre) (h0 : 0 ≤ q) :
    qy = p ∧ dictGet? s.dict q ≠ none ∧ dictGet? s.flag q = some by' := by
  have hr_mem : (p, q, b) ∈ rows := by rw [hrows]; simp
  have hy_mem : (q, qy, by') ∈ rows := by rw [hrows]; simp [hy]
  obtain ⟨b'', hsym⟩ := hv.symm (p, q, b) hr_mem h0
  have e := nodup_fst_unique hv.nodup hy_mem hsym
  simp only [Prod.mk.injEq] at e
  obtain ⟨rfl, rfl⟩ := e
  have hd : dictGet? s.dict q ≠ none := by
    rcases inv.rowm hy with h | ⟨_, _, h⟩
    · exact h
    · exact absurd (sn_new_none hv hrows inv) h
  refine ⟨rfl, hd, ?_⟩
  cases hg : dictGet? s.dict q with
  | none => exact absurd hg hd
  | some g =>
    obtain ⟨_, q', b', hm, hf⟩ := inv.key q g hg
    have := nodup_fst_unique hv.nodup hy_mem (by rw [hrows]; simp [hm] : (q, q', b') ∈ rows)
    simp only [Prod.mk.injEq] at this
    rw [hf, this.2]

theorem snInv_join (hv : ValidRows3 rows) (hrows : rows = pre ++ (p, q, b) :: post)
    (inv : SnInv pre s) {g : Int} (h0 : 0 ≤ q) (hd : dictGet? s.dict q = some g) (hb : b = true) :
    SnInv (pre ++ [(p, q, b)]) { s with res := g :: s.res } := by
  have hp_none := sn_new_none hv hrows inv
  constructor
  · simp [inv.len]
  · intro k g' h
    obtain ⟨h1, q', b', hm, hf⟩ := inv.key k g' h
    exact ⟨h1, q', b', by simp [hm], hf⟩
  · exact inv.inj
  · intro p' q' b' g' hm
    have e : ({ s with res := g :: s.res } : SnState) =
      { dict := s.dict, flag := s.flag, next := s.next, res := g :: s.res } := rfl
    rw [e, snTag_snoc inv.len] at hm
    simp only [List.mem_append, List.mem_singleton, Prod.mk.injEq] at hm
    rcases hm with hm | ⟨⟨rfl, rfl, rfl⟩, rfl⟩
    · exact inv.row p' q' b' g' hm
    · exact Or.inr ⟨hp_none, h0, hb, hd⟩
  · intro p' q' hm hq' hne
    simp only [List.mem_append, List.mem_singleton, Prod.mk.injEq] at hm
    rcases hm with hm | ⟨rfl, rfl, _⟩
    · exact inv.own p' q' hm hq' hne
    · exact absurd hp_none hne

theorem snInv_fresh (hv : ValidRows3 rows) (hrows : rows = pre ++ (p, q, b) :: post)
    (inv : SnInv pre s)
    (hc : 0 ≤ q → dictGet? s.dict q = none ∨ (b = false ∧ dictGet? s.flag q = some false)) :
    SnInv (pre ++ [(p, q, b)])
      { dict := dictSet s.dict p s.next, flag := dictSet s.flag p b,
        next := s.next + 1, res := s.next :: s.res } := by
  have hp_new := sn_new_key hv hrows
  have hp_none := sn_new_none hv hrows inv
  have hr_mem : (p, q, b) ∈ rows := by rw [hrows]; simp
  have hpre_mem : ∀ x ∈ pre, x ∈ rows := by intro x hx; rw [hrows]; simp [hx]
  have hqp : q ≠ p := hv.noself (p, q, b) hr_mem
  constructor
  · simp [inv.len]
  · intro k g' h
    show g' < s.next + 1 ∧ _
    simp only [dictGet?_dictSet] at h ⊢
    split at h
    · subst_vars
      simp only [Option.some.injEq] at h
      exact ⟨by omega, q, b, by simp, by simp⟩
    · rename_i hne
      obtain ⟨h1, q', b', hm, hf⟩ := inv.key k g' h
      exact ⟨by omega, q', b', by simp [hm], by simp [hne, hf]⟩
  · intro k1 k2 g' h1 h2
    simp only [dictGet?_dictSet] at h1 h2
    split at h1 <;> split at h2
    · omega
    · have := (inv.key k2 g' h2).1
      simp only [Option.some.injEq] at h1; omega
    · have := (inv.key k1 g' h1).1
      simp only [Option.some.injEq] at h2; omega
    · exact inv.inj k1 k2 g' h1 h2
  · intro p' q' b' g' hm
    rw [snTag_snoc inv.len] at hm
    simp only [List.mem_append, List.mem_singleton, Prod.mk.injEq] at hm
    rcases hm with hm | ⟨⟨rfl, rfl, rfl⟩, rfl⟩
    · have hpre : (p', q', b') ∈ pre := (List.of_mem_zip hm).1
      have hne : p ≠ p' := by
        intro e; subst e
        exact hp_new (List.mem_map.mpr ⟨(p, q', b'), hpre, rfl⟩)
      rw [dictGet?_dictSet_ne _ _ hne]
      rcases inv.row p' q' b' g' hm with h | ⟨h1, h2, h3, h4⟩
      · exact Or.inl h
      · have : p ≠ q' := by
          intro e; subst e
          rw [hp_none] at h4; cases h4
        rw [dictGet?_dictSet_ne _ _ this]
        exact Or.inr ⟨h1, h2, h3, h4⟩
    · exact Or.inl (dictGet?_dictSet_self _ _ _)
  · intro p' q' hm hq' hne
    simp only [List.mem_append, List.mem_singleton, Prod.mk.injEq] at hm
    rcases hm with hm | ⟨rfl, rfl, hbt⟩
    · have hne' : p ≠ p' := by
        intro e; subst e
        exact hp_new (List.mem_map.mpr ⟨(p, q', true), hm, rfl⟩)
      rw [dictGet?_dictSet_ne _ _ hne'] at hne
      have hnone := inv.own p' q' hm hq' hne
      have : p ≠ q' := by
        intro e; subst e
        obtain ⟨b'', h1⟩ := hv.symm (p', p, true) (hpre_mem _ hm) hq'
        have h2 := nodup_fst_unique hv.nodup hr_mem h1
        simp only [Prod.mk.injEq] at h2
        obtain ⟨rfl, _⟩ := h2
        have h0 : 0 ≤ q := hv.nonneg (q, p, true) (hpre_mem _ hm)
        obtain ⟨_, _, hfl⟩ := sn_partner_entry hv hrows inv hm h0
        rcases hc h0 with h | ⟨_, h⟩
        · exact hne h
        · rw [hfl] at h; cases h
      rw [dictGet?_dictSet_ne _ _ this]
      exact hnone
    · rw [dictGet?_dictSet_ne _ _ (Ne.symm hqp)]
      rcases hc hq' with h | ⟨h, _⟩
      · exact h
      · rw [← hbt] at h; cases h

/-- Outcome of one `snStep` from a state satisfying the invariant. -/
theorem snInv_step (hv : ValidRows3 rows) (hrows : rows = pre ++ (p, q, b) :: post)
    (inv : SnInv pre s) :
    (∃ s', snStep s (p, q, b) = .ok s' ∧ SnInv (pre ++ [(p, q, b)]) s' ∧
        ∀ y ∈ pre, 0 ≤ q → y.1 = q → y.2.2 = b) ∨
    (snStep s (p, q, b) = .error .valueError ∧ ∃ y ∈ pre, 0 ≤ q ∧ y.1 = q ∧ y.2.2 ≠ b) := by
  by_cases h0 : 0 ≤ q
  · cases hd : dictGet? s.dict q with
    | none =>
      left
      refine ⟨snFresh s p b, by simp only [snStep, snFresh, ge_iff_le, h0, if_true, hd], ?_, ?_⟩
      · exact snInv_fresh hv hrows inv (fun _ => Or.inl hd)
      · rintro ⟨y1, qy, yb⟩ hy _ rfl
        exact absurd hd (sn_partner_entry hv hrows inv hy h0).2.1
    | some g =>
      obtain ⟨_, q', b', hm, hf⟩ := inv.key q g hd
      have hagree : ∀ y ∈ pre, y.1 = q → y.2.2 = b' := by
        rintro ⟨y1, qy, yb⟩ hy rfl
        have := (sn_partner_entry hv hrows inv hy h0).2.2
        rw [hf] at this
        exact (Option.some.inj this).symm
      by_cases hbb : b = b'
      · subst hbb
        left
        by_cases hb : b = true
        · refine ⟨{ s with res := g :: s.res },
            by simp only [snStep, ge_iff_le, h0, if_true, hd, hf, hb]; simp, ?_, ?_⟩
          · exact snInv_join hv hrows inv h0 hd hb
          · intro y hy _ e; exact hagree y hy e
        · have hb' : b = false := by simpa using hb
          refine ⟨snFresh s p b,
            by simp only [snStep, snFresh, ge_iff_le, h0, if_true, hd, hf, hb']; simp, ?_, ?_⟩
          · exact snInv_fresh hv hrows inv (fun _ => Or.inr ⟨hb', by rw [hf, hb']⟩)
          · intro y hy _ e; exact hagree y hy e
      · right
        refine ⟨by simp only [snStep, ge_iff_le, h0, if_true, hd, hf]; simp [hbb], ?_⟩
        exact ⟨(q, q', b'), hm, h0, rfl, fun e => hbb e.symm⟩
  · left
    refine ⟨snFresh s p b, by simp only [snStep, snFresh, ge_iff_le, h0, if_false], ?_, ?_⟩
    · exact snInv_fresh hv hrows inv (fun h => absurd h h0)
    · intro y _ h; exact absurd h h0

end step

theorem snAgree_snoc {rows pre post : List (Int × Int × Bool)} {p q : Int} {b : Bool}
    (hv : ValidRows3 rows) (hrows : rows = pre ++ (p, q, b) :: post) (ha : SnAgree pre)
    (hs : ∀ y ∈ pre, 0 ≤ q → y.1 = q → y.2.2 = b) : SnAgree (pre ++ [(p, q, b)]) := by
  have hr_mem : (p, q, b) ∈ rows := by rw [hrows]; simp
  have hpre_mem : ∀ x ∈ pre, x ∈ rows := by intro x hx; rw [hrows]; simp [hx]
  intro x hx y hy h0 e
  simp only [List.mem_append, List.mem_singleton] at hx hy
  rcases hx with hx | rfl <;> rcases hy with hy | rfl
  · exact ha x hx y hy h0 e
  · -- x earlier, its spouse is the current row
    obtain ⟨x1, x2, xb⟩ := x
    simp only at h0 e ⊢
    subst e
    obtain ⟨b'', h1⟩ := hv.symm _ (hpre_mem _ hx) h0
    have h2 := nodup_fst_unique hv.nodup hr_mem h1
    simp only [Prod.mk.injEq] at h2
    obtain ⟨rfl, _⟩ := h2
    exact (hs _ hx (hv.nonneg _ (hpre_mem _ hx)) rfl).symm
  · exact hs y hy h0 e
  · exact absurd e.symm (hv.noself _ hr_mem)

theorem snInv_foldlM {rows : List (Int × Int × Bool)} (hv : ValidRows3 rows) :
    ∀ pre post, rows = pre ++ post →
      (∃ s, pre.foldlM snStep {} = .ok s ∧ SnInv pre s ∧ SnAgree pre) ∨
      (pre.foldlM snStep {} = .error .valueError ∧ ¬ SnAgree rows) := by
  intro pre
  induction pre using snoc_induction with
  | nil =>
    intro _ _
    left
    refine ⟨{}, rfl, ?_, ?_⟩
    · constructor <;> simp [dictGet?, snTag]
    · intro x hx; simp at hx
  | snoc pre x ih =>
    intro post h
    obtain ⟨p, q, b⟩ := x
    have h' : rows = pre ++ (p, q, b) :: post := by simpa using h
    rw [List.foldlM_append]
    rcases ih _ h' with ⟨s, hs, inv, ha⟩ | ⟨he, hna⟩
    · rw [hs]
      simp only [bind, Except.bind, List.foldlM_cons, List.foldlM_nil]
      rcases snInv_step hv h' inv with ⟨s', hs', inv', hag⟩ | ⟨he, y, hy, h0, e, hne⟩
      · left
        rw [hs']
        exact ⟨s', rfl, inv', snAgree_snoc hv h' ha hag⟩
      · right
        rw [he]
        refine ⟨rfl, fun hagree => hne ?_⟩
        exact hagree (p, q, b) (by rw [h']; simp) y (by rw [h']; simp [hy]) h0 e
    · right
      rw [he]
      exact ⟨rfl, hna⟩

/-- `snId` in terms of the fold -/
theorem snId_eq (pid partner : List Int) (gv : List Bool) :
    snId pid partner gv =
      match (pid.zip (partner.zip gv)).foldlM snStep {} with
      | .ok s => .ok s.res.reverse
      | .error e => .error e := by
  simp only [snId, bind, Except.bind, pure, Except.pure]
  split <;> simp_all

/-- Partition specification of `snId` in membership form. -/
theorem sn_spec_mem {rows : List (Int × Int × Bool)} (hv : ValidRows3 rows) {s : SnState}
    (inv : SnInv rows s) (ha : SnAgree rows)
    {p1 q1 g1 p2 q2 g2 : Int} {b1 b2 : Bool}
    (h1 : ((p1, q1, b1), g1) ∈ snTag rows s) (h2 : ((p2, q2, b2), g2) ∈ snTag rows s) :
    g1 = g2 ↔ (p1 = p2 ∨ (q1 = p2 ∧ b1 = true)) := by
  have m1 : (p1, q1, b1) ∈ rows := (List.of_mem_zip h1).1
  have m2 : (p2, q2, b2) ∈ rows := (List.of_mem_zip h2).1
  have r1 := inv.row _ _ _ _ h1
  have r2 := inv.row _ _ _ _ h2
  have uniq : ∀ {a c c' : Int} {d d' : Bool}, (a, c, d) ∈ rows → (a, c', d') ∈ rows →
      c = c' ∧ d = d' := by
    intro a c c' d d' h h'
    have := nodup_fst_unique hv.nodup h h'
    simpa using this
  constructor
  · intro e
    subst e
    rcases r1 with a | ⟨a1, a2, a3, a4⟩ <;> rcases r2 with b | ⟨c1, c2, c3, c4⟩
    · exact Or.inl (inv.inj _ _ _ a b)
    · have e : p1 = q2 := inv.inj _ _ _ a c4
      subst e
      obtain ⟨b', hs⟩ := hv.symm _ m2 c2
      obtain ⟨e1, e2⟩ := uniq m1 hs
      have := ha _ m2 _ m1 c2 rfl
      simp only at this
      exact Or.inr ⟨e1, by rw [this, c3]⟩
    · exact Or.inr ⟨inv.inj _ _ _ a4 b, a3⟩
    · have e : q1 = q2 := inv.inj _ _ _ a4 c4
      subst e
      obtain ⟨b', s1⟩ := hv.symm _ m1 a2
      obtain ⟨b'', s2⟩ := hv.symm _ m2 c2
      exact Or.inl (uniq s1 s2).1
  · rintro (e | ⟨e, hb⟩)
    · subst e
      obtain ⟨e1, e2⟩ := uniq m1 m2
      subst e1 e2
      rcases r1 with a | ⟨a1, a2, a3, a4⟩ <;> rcases r2 with b | ⟨c1, c2, c3, c4⟩
      · rw [a] at b; exact Option.some.inj b
      · rw [a] at c1; cases c1
      · rw [b] at a1; cases a1
      · rw [a4] at c4; exact Option.some.inj c4
    · subst e hb
      have hq : 0 ≤ q1 := hv.nonneg _ m2
      obtain ⟨b', hs⟩ := hv.symm _ m1 hq
      obtain ⟨e1, e2⟩ := uniq m2 hs
      subst e1
      rcases r1 with a | ⟨a1, a2, a3, a4⟩ <;> rcases r2 with b | ⟨c1, c2, c3, c4⟩
      · have := inv.own _ _ m1 hq (by rw [a]; simp)
        rw [b] at this; cases this
      · rw [a] at c4; exact Option.some.inj c4
      · rw [a4] at b; exact Option.some.inj b
      · rw [a4] at c1; cases c1

theorem mem_zip3_iff_index {pid partner : List Int} {gv : List Bool}
    (len : partner.length = pid.length) (len2 : gv.length = pid.length) (r : Int × Int × Bool) :
    r ∈ pid.zip (partner.zip gv) ↔
      ∃ i, ∃ h : i < pid.length, r = (pid[i], partner[i]'(len ▸ h), gv[i]'(len2 ▸ h)) := by
  constructor
  · intro h
    obtain ⟨i, hi, e⟩ := List.mem_iff_getElem.mp h
    have hi' : i < pid.length := by simp at hi; omega
    exact ⟨i, hi', by rw [← e]; simp⟩
  · rintro ⟨i, h, rfl⟩
    refine List.mem_iff_getElem.mpr ⟨i, by simp [len, len2]; exact h, ?_⟩
    simp

theorem ValidPairs.toRows3 {pid partner : List Int} (hv : ValidPairs pid partner)
    {gv : List Bool} (len2 : gv.length = pid.length) :
    ValidRows3 (pid.zip (partner.zip gv)) := by
  have hlen := hv.len
  constructor
  · rw [List.map_fst_zip (by simp; omega)]; exact hv.nodup
  · intro r hr
    exact hv.nonneg _ (List.of_mem_zip (a := r.1) (b := r.2) hr).1
  · intro r hr
    obtain ⟨i, h, rfl⟩ := (mem_zip3_iff_index hlen len2 r).mp hr
    exact hv.noself i h
  · intro r hr h0
    obtain ⟨i, h, rfl⟩ := (mem_zip3_iff_index hlen len2 r).mp hr
    rcases hv.ptr i h with hneg | ⟨j, hj, e⟩
    · simp only at h0; omega
    · have := hv.symm i h j hj e.symm
      refine ⟨gv[j], (mem_zip3_iff_index hlen len2 _).mpr ⟨j, hj, ?_⟩⟩
      simp only [e, this]

/-- spouses agree on the joint-assessment flag (index form) -/
def SpousesAgree (pid partner : List Int) (gv : List Bool) : Prop :=
  ∀ i (hi : i < pid.length) (hi' : i < partner.length) (hi'' : i < gv.length)
    j (hj : j < pid.length) (hj'' : j < gv.length), partner[i] = pid[j] → gv[i] = gv[j]

theorem snAgree_iff {pid partner : List Int} {gv : List Bool} (hv : ValidPairs pid partner)
    (len2 : gv.length = pid.length) :
    SnAgree (pid.zip (partner.zip gv)) ↔ SpousesAgree pid partner gv := by
  have hlen := hv.len
  constructor
  · intro h i hi hi' hi'' j hj hj'' e
    have := h (pid[i], partner[i], gv[i]) ((mem_zip3_iff_index hlen len2 _).mpr ⟨i, hi, rfl⟩)
      (pid[j], partner[j]'(by omega), gv[j]) ((mem_zip3_iff_index hlen len2 _).mpr ⟨j, hj, rfl⟩)
      (by simp only [e]; exact hv.nonneg _ (List.getElem_mem hj)) e.symm
    exact this.symm
  · intro h x hx y hy h0 e
    obtain ⟨i, hi, rfl⟩ := (mem_zip3_iff_index hlen len2 x).mp hx
    obtain ⟨j, hj, rfl⟩ := (mem_zip3_iff_index hlen len2 y).mp hy
    exact (h i hi (by omega) (by omega) j hj (by omega) e.symm).symm

theorem snTag_getElem {pid partner : List Int} {gv : List Bool}
    (len : partner.length = pid.length) (len2 : gv.length = pid.length) {s : SnState}
    (hs : s.res.length = (pid.zip (partner.zip gv)).length)
    {i : Nat} (h : i < pid.length) :
    ((pid[i], partner[i]'(len ▸ h), gv[i]'(len2 ▸ h)),
      s.res.reverse[i]'(by simp [hs, len, len2]; exact h)) ∈
      snTag (pid.zip (partner.zip gv)) s := by
  refine List.mem_iff_getElem.mpr ⟨i, ?_, ?_⟩
  · simp [snTag, hs, len, len2]; exact h
  · simp [snTag]

/-- index form of the sn_id specification -/
theorem snId_spec_idx {pid partner : List Int} {gv : List Bool} (hv : ValidPairs pid partner)
    (len2 : gv.length = pid.length) (hag : SpousesAgree pid partner gv) :
    ∃ res, snId pid partner gv = .ok res ∧ ∃ hlen : res.length = pid.length,
      ∀ i (hi : i < pid.length) j (hj : j < pid.length),
        res[i] = res[j] ↔
          (i = j ∨ (partner[i]'(hv.len ▸ hi) = pid[j] ∧ gv[i]'(len2 ▸ hi) = true)) := by
  have hv3 := hv.toRows3 len2
  rcases snInv_foldlM hv3 (pid.zip (partner.zip gv)) [] (by simp) with ⟨s, hs, inv, ha⟩ | ⟨_, hna⟩
  · have hl : s.res.reverse.length = pid.length := by
      simp [inv.len, hv.len, len2]
    refine ⟨s.res.reverse, by rw [snId_eq, hs], hl, ?_⟩
    intro i hi j hj
    rw [sn_spec_mem hv3 inv ha (snTag_getElem hv.len len2 inv.len hi)
      (snTag_getElem hv.len len2 inv.len hj)]
    rw [List.getElem_inj hv.nodup]
  · exact absurd ((snAgree_iff hv len2).mpr hag) hna

theorem snId_error_iff_idx {pid partner : List Int} {gv : List Bool} (hv : ValidPairs pid partner)
    (len2 : gv.length = pid.length) :
    snId pid partner gv = .error .valueError ↔ ¬ SpousesAgree pid partner gv := by
  have hv3 := hv.toRows3 len2
  rw [← snAgree_iff hv len2, snId_eq]
  rcases snInv_foldlM hv3 (pid.zip (partner.zip gv)) [] (by simp) with ⟨s, hs, inv, ha⟩ | ⟨he, hna⟩
  · rw [hs]; simp [ha]
  · rw [he]; simp [hna]

/-- under validity `snId` never raises anything but the ValueError -/
theorem snId_no_other_error {pid partner : List Int} {gv : List Bool} (hv : ValidPairs pid partner)
    (len2 : gv.length = pid.length) {e : Err} (h : snId pid partner gv = .error e) :
    e = .valueError := by
  have hv3 := hv.toRows3 len2
  rw [snId_eq] at h
  rcases snInv_foldlM hv3 (pid.zip (partner.zip gv)) [] (by simp) with ⟨s, hs, inv, ha⟩ | ⟨he, hna⟩
  · rw [hs] at h; cases h
  · rw [he] at h; cases h; rfl

/-! ### fg_id -/

/-- a sequence of dictionary writes -/
def dictWrites {α : Type} (d : List (Int × α)) (ws : List (Int × α)) : List (Int × α) :=
  ws.foldl (fun d w => dictSet d w.1 w.2) d

/-- After a sequence of writes the value at key `x` is that of the last write to `x`
(or the old value if nobody wrote to `x`). -/
theorem foldl_write_last {α : Type} (d : List (Int × α)) (ws : List (Int × α)) (x : Int) :
    dictGet? (dictWrites d ws) x =
      match ws.reverse.find? (fun w => w.1 == x) with
      | some w => some w.2
      | none => dictGet? d x := by
  induction ws using snoc_induction generalizing d with
  | nil => simp [dictWrites]
  | snoc ws w ih =>
    simp only [dictWrites, List.foldl_append, List.foldl_cons, List.foldl_nil,
      List.reverse_append, List.reverse_cons, List.reverse_nil, List.nil_append,
      List.cons_append, List.find?_cons]
    rw [dictGet?_dictSet]
    by_cases h : w.1 = x
    · simp [h]
    · have : (w.1 == x) = false := by simp [h]
      simp only [h, if_false, this]
      exact ih d

/-- writes of one constant value -/
theorem dictGet?_dictWrites_const {α : Type} (d : List (Int × α)) (ws : List (Int × α)) (g : α)
    (hg : ∀ w ∈ ws, w.2 = g) (x : Int) :
    dictGet? (dictWrites d ws) x = if x ∈ ws.map Prod.fst then some g else dictGet? d x := by
  induction ws using snoc_induction generalizing d with
  | nil => simp [dictWrites]
  | snoc ws w ih =>
    have hw : w.2 = g := hg w (by simp)
    have ih' := ih d (fun w' hw' => hg w' (by simp [hw']))
    simp only [dictWrites, List.foldl_append, List.foldl_cons, List.foldl_nil] at ih' ⊢
    rw [dictGet?_dictSet, ih']
    by_cases h : w.1 = x
    · simp [h, hw]
    · have : ¬ x = w.1 := fun e => h e.symm
      simp only [h, if_false, List.map_append, List.mem_append, List.map_cons, List.map_nil,
        List.mem_singleton, this, or_false]

theorem nodup_map_inj {α β : Type} {f : α → β} {l : List α} (hn : (l.map f).Nodup) {a b : α}
    (ha : a ∈ l) (hb : b ∈ l) (e : f a = f b) : a = b := by
  induction l with
  | nil => simp at ha
  | cons x l ih =>
    simp only [List.map_cons, List.nodup_cons, List.mem_map, not_exists, not_and] at hn
    simp only [List.mem_cons] at ha hb
    rcases ha with rfl | ha <;> rcases hb with rfl | hb
    · rfl
    · exact absurd e.symm (hn.1 b hb)
    · exact absurd e (hn.1 a ha)
    · exact ih hn.2 ha hb

theorem findPerson_eq_some {ps : List Person} {c : Int} {cr : Person}
    (h : findPerson ps c = some cr) : cr ∈ ps ∧ cr.pid = c := by
  unfold findPerson at h
  have : ∀ (l : List Person) (acc : Option Person),
      l.foldl (fun acc r => if r.pid = c then some r else acc) acc = some cr →
      (cr ∈ l ∧ cr.pid = c) ∨ acc = some cr := by
    intro l
    induction l with
    | nil => intro acc h; exact Or.inr h
    | cons r l ih =>
      intro acc h
      rw [List.foldl_cons] at h
      rcases ih _ h with ⟨h1, h2⟩ | h1
      · exact Or.inl ⟨List.mem_cons_of_mem _ h1, h2⟩
      · split at h1
        · rename_i hr
          cases h1
          exact Or.inl ⟨List.mem_cons_self, hr⟩
        · exact Or.inr h1
  rcases this ps none h with h | h
  · exact h
  · cases h

theorem findPerson_isSome {ps : List Person} {c : Int} (h : c ∈ ps.map (·.pid)) :
    ∃ cr, findPerson ps c = some cr := by
  unfold findPerson
  have : ∀ (l : List Person) (acc : Option Person), (c ∈ l.map (·.pid) ∨ acc.isSome) →
      (l.foldl (fun acc r => if r.pid = c then some r else acc) acc).isSome := by
    intro l
    induction l with
    | nil => intro acc h; simpa using h
    | cons r l ih =>
      intro acc h
      rw [List.foldl_cons]
      apply ih
      by_cases hr : r.pid = c
      · right; simp [hr]
      · simp only [List.map_cons, List.mem_cons] at h
        rcases h with (h | h) | h
        · exact absurd h.symm hr
        · exact Or.inl h
        · right; simp [hr, h]
  exact Option.isSome_iff_exists.mp (this ps none (Or.inl h))

/-- unique pids: `findPerson` returns the row itself -/
theorem findPerson_of_mem {ps : List Person} (hn : (ps.map (·.pid)).Nodup) {r : Person}
    (h : r ∈ ps) : findPerson ps r.pid = some r := by
  obtain ⟨cr, hcr⟩ := findPerson_isSome (List.mem_map.mpr ⟨r, h, rfl⟩)
  obtain ⟨h1, h2⟩ := findPerson_eq_some hcr
  rw [hcr, nodup_map_inj hn h1 h h2]

/-- `k` is a parent pointer of row `r` -/
def IsParentPtr (r : Person) (k : Int) : Prop := (r.e1 = k ∨ r.e2 = k) ∧ 0 ≤ k

theorem childrenMap_mem (ps : List Person) (k c : Int) :
    c ∈ (dictGet? (childrenMap ps) k).getD [] ↔ ∃ r ∈ ps, r.pid = c ∧ IsParentPtr r k := by
  unfold childrenMap
  induction ps using snoc_induction with
  | nil => simp [dictGet?]
  | snoc pre r ih =>
    rw [List.foldl_append]
    simp only [List.foldl_cons, List.foldl_nil]
    generalize List.foldl _ [] pre = d at ih ⊢
    have key : ∀ (d : List (Int × List Int)) (e : Int),
        c ∈ (dictGet? (if e ≥ 0 then dictSet d e ((dictGet? d e).getD [] ++ [r.pid]) else d) k).getD [] ↔
          c ∈ (dictGet? d k).getD [] ∨ (r.pid = c ∧ e = k ∧ 0 ≤ k) := by
      intro d e
      by_cases he : e ≥ 0
      · simp only [he, if_true, dictGet?_dictSet]
        by_cases hek : e = k
        · subst hek; simp [he]; grind
        · simp [hek]
      · simp only [he, if_false]
        constructor
        · exact Or.inl
        · rintro (h | ⟨_, rfl, h⟩)
          · exact h
          · exact absurd h he
    rw [key, key, ih]
    simp only [List.mem_append, List.mem_singleton, IsParentPtr]
    constructor
    · rintro ((⟨r', h1, h2⟩ | ⟨h1, h2, h3⟩) | ⟨h1, h2, h3⟩)
      · exact ⟨r', Or.inl h1, h2⟩
      · exact ⟨r, Or.inr rfl, h1, Or.inl h2, h3⟩
      · exact ⟨r, Or.inr rfl, h1, Or.inr h2, h3⟩
    · rintro ⟨r', h1 | rfl, h2, h3 | h3, h4⟩
      · exact Or.inl (Or.inl ⟨r', h1, h2, Or.inl h3, h4⟩)
      · exact Or.inl (Or.inl ⟨r', h1, h2, Or.inr h3, h4⟩)
      · exact Or.inl (Or.inr ⟨h2, h3, h4⟩)
      · exact Or.inr ⟨h2, h3, h4⟩

/-- the test of the loop body `Assign fg to children` -/
def fgKidOk (ps : List Person) (cm : List (Int × List Int)) (head : Person) (c : Int) : Bool :=
  match findPerson ps c with
  | some cr => cr.hh = head.hh && cr.alter < 25 && ((dictGet? cm c).getD []).isEmpty
  | none => false

theorem fgChildren_eq (ps : List Person) (cm : List (Int × List Int)) (head : Person)
    (kids : List Int) (hk : ∀ c ∈ kids, c ∈ ps.map (·.pid)) (d : List (Int × Int)) (g : Int) :
    fgChildren ps cm head kids d g =
      .ok (dictWrites d ((kids.filter (fgKidOk ps cm head)).map (fun c => (c, g)))) := by
  unfold fgChildren
  induction kids generalizing d with
  | nil => rfl
  | cons c kids ih =>
    obtain ⟨cr, hcr⟩ := findPerson_isSome (hk c (by simp))
    rw [List.foldlM_cons]
    simp only [hcr]
    have ih' := fun d => ih (fun c' hc' => hk c' (by simp [hc'])) d
    by_cases hok : (decide (cr.hh = head.hh) && decide (cr.alter < 25) &&
        ((dictGet? cm c).getD []).isEmpty) = true
    · have hf : fgKidOk ps cm head c = true := by simp only [fgKidOk, hcr]; exact hok
      simp only [hok, if_true, bind, Except.bind]
      rw [ih']
      simp [hf, dictWrites]
    · have hf : fgKidOk ps cm head c = false := by
        simp only [fgKidOk, hcr]; simpa using hok
      simp only [hok, Bool.false_eq_true, if_false, bind, Except.bind]
      rw [ih']
      simp [hf]

/-- the children visited by head `r` -/
def fgKids (repaired : Bool) (cm : List (Int × List Int)) (r : Person) : List Int :=
  let kids := (dictGet? cm r.pid).getD []
  if repaired && r.partner ≥ 0 then kids ++ (dictGet? cm r.partner).getD [] else kids

/-- the p_ids written by head `r` -/
def fgTargets (repaired : Bool) (ps : List Person) (cm : List (Int × List Int)) (r : Person) :
    List Int :=
  r.pid :: ((if r.partner ≥ 0 then [r.partner] else []) ++
    (fgKids repaired cm r).filter (fgKidOk ps cm r))

theorem fgKids_mem_pids (repaired : Bool) (ps : List Person) (r : Person) :
    ∀ c ∈ fgKids repaired (childrenMap ps) r, c ∈ ps.map (·.pid) := by
  intro c hc
  have : ∃ k, c ∈ (dictGet? (childrenMap ps) k).getD [] := by
    simp only [fgKids] at hc
    split at hc
    · rcases List.mem_append.mp hc with h | h
      · exact ⟨_, h⟩
      · exact ⟨_, h⟩
    · exact ⟨_, hc⟩
  obtain ⟨k, hk⟩ := this
  obtain ⟨r', h1, h2, _⟩ := (childrenMap_mem ps k c).mp hk
  exact List.mem_map.mpr ⟨r', h1, h2⟩

/-- Closed form of one step of the fg scan. -/
theorem fgStep_eq (repaired : Bool) (ps : List Person) (s : FgState) (r : Person) :
    ∃ s', fgStep repaired ps (childrenMap ps) s r = .ok s' ∧
      if dictGet? s.dict r.pid ≠ none then s' = s
      else s'.next = s.next + 1 ∧ ∀ x, dictGet? s'.dict x =
        if x ∈ fgTargets repaired ps (childrenMap ps) r then some s.next else dictGet? s.dict x := by
  unfold fgStep
  by_cases hh : dictHas s.dict r.pid = true
  · refine ⟨s, by simp [hh], ?_⟩
    have : dictGet? s.dict r.pid ≠ none := by
      simp only [dictHas] at hh
      intro e; rw [e] at hh; cases hh
    simp [this]
  · have hnone : dictGet? s.dict r.pid = none := by
      simp only [dictHas] at hh
      cases h : dictGet? s.dict r.pid with
      | none => rfl
      | some g => rw [h] at hh; simp at hh
    simp only [hh, Bool.false_eq_true, if_false]
    have hkids := fgKids_mem_pids repaired ps r
    simp only [fgKids] at hkids
    rw [fgChildren_eq _ _ _ _ hkids]
    refine ⟨_, rfl, ?_⟩
    simp only [hnone, ne_eq, not_true_eq_false, if_false, true_and]
    intro x
    have e : (if r.partner ≥ 0 then dictSet (dictSet s.dict r.pid s.next) r.partner s.next
        else dictSet s.dict r.pid s.next) =
        dictWrites s.dict ((r.pid, s.next) :: (if r.partner ≥ 0 then [(r.partner, s.next)] else [])) := by
      split <;> simp [dictWrites]
    rw [e]
    have e2 : ∀ (d : List (Int × Int)) (a b : List (Int × Int)),
        dictWrites (dictWrites d a) b = dictWrites d (a ++ b) := by
      intro d a b; simp [dictWrites]
    rw [e2, dictGet?_dictWrites_const _ _ s.next]
    · simp only [fgTargets, fgKids]
      congr 1
      split <;> simp [List.map_map, Function.comp_def] <;> grind
    · intro w hw
      simp only [List.mem_append, List.mem_cons, List.mem_map] at hw
      rcases hw with (rfl | hw) | ⟨c, _, rfl⟩
      · rfl
      · split at hw
        · simp at hw; rw [hw]
        · simp at hw
      · rfl

/-- generic prefix-invariant rule for `foldlM` in `Except` -/
theorem foldlM_inv {σ α : Type} (f : σ → α → Except Err σ) (I : List α → σ → Prop)
    (l : List α) (s0 : σ) (h0 : I [] s0)
    (hstep : ∀ pre x post s, l = pre ++ x :: post → I pre s →
      ∃ s', f s x = .ok s' ∧ I (pre ++ [x]) s') :
    ∃ s, l.foldlM f s0 = .ok s ∧ I l s := by
  have : ∀ pre post, l = pre ++ post → ∃ s, pre.foldlM f s0 = .ok s ∧ I pre s := by
    intro pre
    induction pre using snoc_induction with
    | nil => intro _ _; exact ⟨s0, rfl, h0⟩
    | snoc pre x ih =>
      intro post h
      have h' : l = pre ++ x :: post := by simpa using h
      obtain ⟨s, hs, hi⟩ := ih _ h'
      obtain ⟨s', hs', hi'⟩ := hstep pre x post s h' hi
      refine ⟨s', ?_, hi'⟩
      rw [List.foldlM_append, hs]
      simp only [bind, Except.bind, List.foldlM_cons, List.foldlM_nil]
      rw [hs']; rfl
  exact this l [] (by simp)

theorem fg_mapM_ok (d : List (Int × Int)) (l : List Person)
    (h : ∀ r ∈ l, dictGet? d r.pid ≠ none) :
    (l.mapM fun r => match dictGet? d r.pid with
      | some g => (Except.ok g : Except Err Int)
      | none => .error .keyError) = .ok (l.map fun r => (dictGet? d r.pid).getD 0) := by
  induction l with
  | nil => rfl
  | cons r l ih =>
    rw [List.mapM_cons, ih (fun r' hr' => h r' (by simp [hr']))]
    cases hr : dictGet? d r.pid with
    | none => exact absurd hr (h r (by simp))
    | some g => simp [bind, Except.bind, pure, Except.pure, hr]

/-- `fgId` from an invariant of the scan that contains "scanned rows have an entry". -/
theorem fgId_of_inv (repaired : Bool) (ps : List Person) (I : List Person → FgState → Prop)
    (h0 : I [] {})
    (hstep : ∀ pre x post s, ps = pre ++ x :: post → I pre s →
      ∀ s', fgStep repaired ps (childrenMap ps) s x = .ok s' → I (pre ++ [x]) s')
    (hkeys : ∀ s, I ps s → ∀ r ∈ ps, dictGet? s.dict r.pid ≠ none) :
    ∃ s, I ps s ∧ fgId repaired ps = .ok (ps.map fun r => (dictGet? s.dict r.pid).getD 0) := by
  obtain ⟨s, hs, hi⟩ := foldlM_inv (fgStep repaired ps (childrenMap ps)) I ps {} h0 (by
    intro pre x post s h hi
    obtain ⟨s', hs', _⟩ := fgStep_eq repaired ps s x
    exact ⟨s', hs', hstep pre x post s h hi s' hs'⟩)
  refine ⟨s, hi, ?_⟩
  unfold fgId
  simp only [bind, Except.bind]
  rw [hs]
  simp only
  exact fg_mapM_ok s.dict ps (hkeys s hi)

/-- one step keeps old keys and adds the key of the scanned row -/
theorem fgStep_keys {repaired : Bool} {ps : List Person} {s s' : FgState} {r : Person}
    (h : fgStep repaired ps (childrenMap ps) s r = .ok s') :
    dictGet? s'.dict r.pid ≠ none ∧ ∀ x, dictGet? s.dict x ≠ none → dictGet? s'.dict x ≠ none := by
  obtain ⟨s'', hs'', hcl⟩ := fgStep_eq repaired ps s r
  rw [h] at hs''
  cases hs''
  split at hcl
  · rename_i hr
    subst hcl
    exact ⟨hr, fun _ hx => hx⟩
  · obtain ⟨_, hget⟩ := hcl
    constructor
    · rw [hget]; simp [fgTargets]
    · intro x hx
      rw [hget]; split
      · simp
      · exact hx

theorem fgId_total_aux (repaired : Bool) (ps : List Person) :
    ∃ res, fgId repaired ps = .ok res ∧ res.length = ps.length := by
  obtain ⟨s, _, hs⟩ := fgId_of_inv repaired ps
    (fun pre s => ∀ r ∈ pre, dictGet? s.dict r.pid ≠ none)
    (by intro r hr; simp at hr)
    (by
      intro pre x post s _ hi s' hs' r hr
      have hk := fgStep_keys hs'
      simp only [List.mem_append, List.mem_singleton] at hr
      rcases hr with hr | rfl
      · exact hk.2 _ (hi r hr)
      · exact hk.1)
    (fun s hi => hi)
  exact ⟨_, hs, by simp⟩

/-- Validity of a person table for fg_id: unique non-negative p_ids; partner pointers are negative
("none") or point to an existing other person in the same household who points back. -/
structure ValidPersons (ps : List Person) : Prop where
  nodup : (ps.map (·.pid)).Nodup
  nonneg : ∀ r ∈ ps, 0 ≤ r.pid
  noself : ∀ r ∈ ps, r.partner ≠ r.pid
  partner : ∀ r ∈ ps, 0 ≤ r.partner →
    ∃ r' ∈ ps, r'.pid = r.partner ∧ r'.partner = r.pid ∧ r'.hh = r.hh

instance (r : Person) (k : Int) : Decidable (IsParentPtr r k) := by
  unfold IsParentPtr; infer_instance

/-- `c` has no own children in the table -/
def NoKids (ps : List Person) (c : Person) : Prop := ∀ r ∈ ps, ¬ IsParentPtr r c.pid

/-- dependent child: under 25, no own children, a parent living in the same household -/
def DependentChild (ps : List Person) (c : Person) : Prop :=
  c.alter < 25 ∧ NoKids ps c ∧ ∃ par ∈ ps, IsParentPtr c par.pid ∧ par.hh = c.hh

instance (ps : List Person) (c : Person) : Decidable (NoKids ps c) := by
  unfold NoKids; infer_instance

instance (ps : List Person) (c : Person) : Decidable (DependentChild ps c) := by
  unfold DependentChild; infer_instance

theorem mem_fgKids {repaired : Bool} {ps : List Person} {r : Person} {x : Int}
    (h : x ∈ fgKids repaired (childrenMap ps) r) :
    ∃ c ∈ ps, c.pid = x ∧ (IsParentPtr c r.pid ∨ (0 ≤ r.partner ∧ IsParentPtr c r.partner)) := by
  simp only [fgKids] at h
  split at h
  · rename_i hc
    simp only [Bool.and_eq_true, decide_eq_true_eq] at hc
    rcases List.mem_append.mp h with h | h
    · obtain ⟨c, h1, h2, h3⟩ := (childrenMap_mem ps _ x).mp h
      exact ⟨c, h1, h2, Or.inl h3⟩
    · obtain ⟨c, h1, h2, h3⟩ := (childrenMap_mem ps _ x).mp h
      exact ⟨c, h1, h2, Or.inr ⟨hc.2, h3⟩⟩
  · obtain ⟨c, h1, h2, h3⟩ := (childrenMap_mem ps _ x).mp h
    exact ⟨c, h1, h2, Or.inl h3⟩

/-- Who is written as a child by head `r`: dependent children of `r` or of its partner. -/
theorem fgKid_written {repaired : Bool} {ps : List Person} (hv : ValidPersons ps) {r : Person}
    (hr : r ∈ ps) {x : Int}
    (h : x ∈ (fgKids repaired (childrenMap ps) r).filter (fgKidOk ps (childrenMap ps) r)) :
    ∃ c ∈ ps, c.pid = x ∧ DependentChild ps c ∧ c.hh = r.hh ∧
      (IsParentPtr c r.pid ∨ (0 ≤ r.partner ∧ IsParentPtr c r.partner)) := by
  obtain ⟨hk, hok⟩ := List.mem_filter.mp h
  obtain ⟨c, hc, hcx, hpar⟩ := mem_fgKids hk
  subst hcx
  simp only [fgKidOk, findPerson_of_mem hv.nodup hc, Bool.and_eq_true, decide_eq_true_eq,
    List.isEmpty_iff] at hok
  obtain ⟨⟨hhh, halt⟩, hempty⟩ := hok
  have hnk : NoKids ps c := by
    intro r' hr' hp
    have : r'.pid ∈ (dictGet? (childrenMap ps) c.pid).getD [] :=
      (childrenMap_mem ps _ _).mpr ⟨r', hr', rfl, hp⟩
    rw [hempty] at this
    simp at this
  refine ⟨c, hc, rfl, ⟨halt, hnk, ?_⟩, hhh, hpar⟩
  rcases hpar with hp | ⟨h0, hp⟩
  · exact ⟨r, hr, hp, hhh.symm⟩
  · obtain ⟨r', hr', e1, _, e3⟩ := hv.partner r hr h0
    exact ⟨r', hr', by rw [e1]; exact hp, by rw [e3, hhh]⟩

/-- Members of a couple are only written by the couple itself (if dependent children have no
partner). -/
theorem fgTargets_couple {repaired : Bool} {ps : List Person} (hv : ValidPersons ps)
    (h7 : ∀ c ∈ ps, DependentChild ps c → c.partner < 0)
    {a b r : Person} (ha : a ∈ ps) (hb : b ∈ ps) (hr : r ∈ ps)
    (hab : a.partner = b.pid) (hba : b.partner = a.pid)
    (h : a.pid ∈ fgTargets repaired ps (childrenMap ps) r) :
    (r = a ∨ r = b) ∧ b.pid ∈ fgTargets repaired ps (childrenMap ps) r := by
  have ha0 := hv.nonneg a ha
  have hb0 := hv.nonneg b hb
  have hinj := @nodup_map_inj _ _ (·.pid) ps hv.nodup
  simp only [fgTargets, List.mem_cons, List.mem_append] at h
  rcases h with h | h | h
  · have e : a = r := hinj ha hr h
    subst e
    refine ⟨Or.inl rfl, ?_⟩
    simp only [fgTargets, List.mem_cons, List.mem_append]
    right; left
    have : a.partner ≥ 0 := by rw [hab]; exact hb0
    rw [if_pos this]
    simp [hab]
  · split at h
    · rename_i h0
      simp only [List.mem_singleton] at h
      obtain ⟨r', hr', e1, e2, _⟩ := hv.partner r hr h0
      have e : r' = a := hinj hr' ha (by rw [e1, h])
      subst e
      have e : r = b := hinj hr hb (by rw [← e2, hab])
      subst e
      exact ⟨Or.inr rfl, by simp [fgTargets]⟩
    · simp at h
  · obtain ⟨c, hc, hcx, hdep, _⟩ := fgKid_written hv hr h
    have e : c = a := hinj hc ha hcx
    subst e
    have := h7 c hc hdep
    rw [hab] at this
    omega

theorem fg_partner_same_aux (repaired : Bool) {ps : List Person} (hv : ValidPersons ps)
    (h7 : ∀ c ∈ ps, DependentChild ps c → c.partner < 0) :
    ∃ s : FgState, fgId repaired ps = .ok (ps.map fun r => (dictGet? s.dict r.pid).getD 0) ∧
      ∀ a ∈ ps, ∀ b ∈ ps, a.partner = b.pid → dictGet? s.dict a.pid = dictGet? s.dict b.pid := by
  obtain ⟨s, hi, hs⟩ := fgId_of_inv repaired ps
    (fun pre s => (∀ r ∈ pre, dictGet? s.dict r.pid ≠ none) ∧
      ∀ a ∈ ps, ∀ b ∈ ps, a.partner = b.pid → b.partner = a.pid →
        dictGet? s.dict a.pid = dictGet? s.dict b.pid)
    ⟨by intro r hr; simp at hr, by intros; rfl⟩
    (by
      intro pre x post s hps hi s' hs'
      have hx : x ∈ ps := by rw [hps]; simp
      constructor
      · intro r hr
        have hk := fgStep_keys hs'
        simp only [List.mem_append, List.mem_singleton] at hr
        rcases hr with hr | rfl
        · exact hk.2 _ (hi.1 r hr)
        · exact hk.1
      · intro a ha b hb hab hba
        obtain ⟨s'', hs'', hcl⟩ := fgStep_eq repaired ps s x
        rw [hs'] at hs''
        cases hs''
        split at hcl
        · subst hcl; exact hi.2 a ha b hb hab hba
        · obtain ⟨_, hget⟩ := hcl
          rw [hget, hget]
          by_cases hta : a.pid ∈ fgTargets repaired ps (childrenMap ps) x
          · have := (fgTargets_couple hv h7 ha hb hx hab hba hta).2
            simp [hta, this]
          · have htb : b.pid ∉ fgTargets repaired ps (childrenMap ps) x := fun h =>
              hta (fgTargets_couple hv h7 hb ha hx hba hab h).2
            simp only [hta, htb, if_false]
            exact hi.2 a ha b hb hab hba)
    (fun s hi => hi.1)
  refine ⟨s, hs, ?_⟩
  intro a ha b hb hab
  have h0 : 0 ≤ a.partner := by rw [hab]; exact hv.nonneg b hb
  obtain ⟨r', hr', e1, e2, _⟩ := hv.partner a ha h0
  have e : r' = b := nodup_map_inj hv.nodup hr' hb (by rw [e1, hab])
  subst e
  exact hi.2 a ha r' hb hab e2

/-! #### full characterisation of the repaired algorithm -/

/-- `c` is a dependent child of its co-resident parent `p` -/
def ChildOf (ps : List Person) (c p : Person) : Prop :=
  DependentChild ps c ∧ IsParentPtr c p.pid ∧ p.hh = c.hh

/-- same person or partners -/
def Coupled (x y : Person) : Prop := x = y ∨ x.partner = y.pid

instance (ps : List Person) (c p : Person) : Decidable (ChildOf ps c p) := by
  unfold ChildOf; infer_instance

instance (x y : Person) : Decidable (Coupled x y) := by
  unfold Coupled; infer_instance

/-- (V7) dependent children have no partner, and all co-resident parents of a dependent child
belong to one couple -/
structure ValidDependents (ps : List Person) : Prop where
  nopartner : ∀ c ∈ ps, DependentChild ps c → c.partner < 0
  onecouple : ∀ c ∈ ps, ∀ p ∈ ps, ∀ q ∈ ps, ChildOf ps c p → ChildOf ps c q → Coupled p q

structure FgInv (ps pre : List Person) (s : FgState) : Prop where
  keys : ∀ r ∈ pre, dictGet? s.dict r.pid ≠ none
  bnd : ∀ x g, dictGet? s.dict x = some g → g < s.next
  couple : ∀ a ∈ ps, ∀ b ∈ ps, a.partner = b.pid → b.partner = a.pid →
    dictGet? s.dict a.pid = dictGet? s.dict b.pid
  inj : ∀ x ∈ ps, ∀ y ∈ ps, ¬ DependentChild ps x → ¬ DependentChild ps y → ∀ g,
    dictGet? s.dict x.pid = some g → dictGet? s.dict y.pid = some g → Coupled x y
  child : ∀ c ∈ ps, ∀ p ∈ ps, ChildOf ps c p → ∀ g,
    dictGet? s.dict p.pid = some g → dictGet? s.dict c.pid = some g

theorem parent_not_dependent {ps : List Person} {c p : Person} (hc : c ∈ ps)
    (h : IsParentPtr c p.pid) : ¬ DependentChild ps p :=
  fun hd => hd.2.1 c hc h

/-- a non-dependent target of head `r` is `r` or its partner -/
theorem fgTargets_nondep {repaired : Bool} {ps : List Person} (hv : ValidPersons ps)
    {r x : Person} (hr : r ∈ ps) (hx : x ∈ ps) (hnd : ¬ DependentChild ps x)
    (h : x.pid ∈ fgTargets repaired ps (childrenMap ps) r) :
    x = r ∨ (0 ≤ r.partner ∧ r.partner = x.pid) := by
  have hinj := @nodup_map_inj _ _ (·.pid) ps hv.nodup
  simp only [fgTargets, List.mem_cons, List.mem_append] at h
  rcases h with h | h | h
  · exact Or.inl (hinj hx hr h)
  · split at h
    · rename_i h0
      simp only [List.mem_singleton] at h
      exact Or.inr ⟨h0, h.symm⟩
    · simp at h
  · obtain ⟨c, hc, hcx, hdep, _⟩ := fgKid_written hv hr h
    have e : c = x := hinj hc hx hcx
    subst e
    exact absurd hdep hnd

/-- the repaired head writes all dependent children of itself and of its partner -/
theorem fgTargets_child {ps : List Person} (hv : ValidPersons ps) {r c p : Person}
    (hr : r ∈ ps) (hc : c ∈ ps) (hcp : ChildOf ps c p)
    (hp : p = r ∨ (0 ≤ r.partner ∧ r.partner = p.pid)) (hhh : p.hh = r.hh) :
    c.pid ∈ fgTargets true ps (childrenMap ps) r := by
  obtain ⟨⟨halt, hnk, _⟩, hptr, hh⟩ := hcp
  simp only [fgTargets, List.mem_cons, List.mem_append, List.mem_filter]
  right; right
  constructor
  · simp only [fgKids, Bool.true_and, decide_eq_true_eq]
    rcases hp with rfl | ⟨h0, e⟩
    · have : c.pid ∈ (dictGet? (childrenMap ps) p.pid).getD [] :=
        (childrenMap_mem ps _ _).mpr ⟨c, hc, rfl, hptr⟩
      split
      · exact List.mem_append_left _ this
      · exact this
    · rw [if_pos h0, e]
      exact List.mem_append_right _ ((childrenMap_mem ps _ _).mpr ⟨c, hc, rfl, hptr⟩)
  · simp only [fgKidOk, findPerson_of_mem hv.nodup hc, Bool.and_eq_true, decide_eq_true_eq,
      List.isEmpty_iff]
    refine ⟨⟨by rw [← hh, hhh], halt⟩, ?_⟩
    cases hl : (dictGet? (childrenMap ps) c.pid).getD [] with
    | nil => rfl
    | cons k l =>
      have : k ∈ (dictGet? (childrenMap ps) c.pid).getD [] := by rw [hl]; simp
      obtain ⟨r', hr', _, hp'⟩ := (childrenMap_mem ps _ _).mp this
      exact absurd hp' (hnk r' hr')

theorem fgInv_step {ps pre post : List Person} {x : Person} (hv : ValidPersons ps)
    (h7 : ValidDependents ps) (hps : ps = pre ++ x :: post) {s s' : FgState}
    (inv : FgInv ps pre s) (hs' : fgStep true ps (childrenMap ps) s x = .ok s') :
    FgInv ps (pre ++ [x]) s' := by
  have hx : x ∈ ps := by rw [hps]; simp
  have hinj := @nodup_map_inj _ _ (·.pid) ps hv.nodup
  have hkeys : ∀ r ∈ pre ++ [x], dictGet? s'.dict r.pid ≠ none := by
    intro r hr
    have hk := fgStep_keys hs'
    simp only [List.mem_append, List.mem_singleton] at hr
    rcases hr with hr | rfl
    · exact hk.2 _ (inv.keys r hr)
    · exact hk.1
  obtain ⟨s'', hs'', hcl⟩ := fgStep_eq true ps s x
  rw [hs'] at hs''
  cases hs''
  split at hcl
  · subst hcl
    exact ⟨hkeys, inv.bnd, inv.couple, inv.inj, inv.child⟩
  · rename_i hxnone
    have hxnone : dictGet? s.dict x.pid = none := by
      cases h : dictGet? s.dict x.pid with
      | none => rfl
      | some g => exact absurd (by rw [h]; simp) hxnone
    obtain ⟨hnext, hget⟩ := hcl
    refine ⟨hkeys, ?_, ?_, ?_, ?_⟩
    · intro z g hz
      rw [hget] at hz
      split at hz
      · cases hz; omega
      · have := inv.bnd z g hz; omega
    · intro a ha b hb hab hba
      rw [hget, hget]
      by_cases hta : a.pid ∈ fgTargets true ps (childrenMap ps) x
      · have := (fgTargets_couple hv h7.nopartner ha hb hx hab hba hta).2
        simp [hta, this]
      · have htb : b.pid ∉ fgTargets true ps (childrenMap ps) x := fun h =>
          hta (fgTargets_couple hv h7.nopartner hb ha hx hba hab h).2
        simp only [hta, htb, if_false]
        exact inv.couple a ha b hb hab hba
    · intro a ha b hb hna hnb g h1 h2
      rw [hget] at h1 h2
      by_cases hta : a.pid ∈ fgTargets true ps (childrenMap ps) x <;>
        by_cases htb : b.pid ∈ fgTargets true ps (childrenMap ps) x
      · rcases fgTargets_nondep hv hx ha hna hta with rfl | ⟨h0, e⟩ <;>
          rcases fgTargets_nondep hv hx hb hnb htb with rfl | ⟨h0', e'⟩
        · exact Or.inl rfl
        · exact Or.inr e'
        · obtain ⟨r', hr', e1, e2, _⟩ := hv.partner b hb h0
          have : r' = a := hinj hr' ha (by rw [e1, e])
          subst this
          exact Or.inr e2
        · exact Or.inl (hinj ha hb (by rw [← e, ← e']))
      · simp only [hta, htb, if_true, if_false] at h1 h2
        cases h1
        have := inv.bnd _ _ h2; omega
      · simp only [hta, htb, if_true, if_false] at h1 h2
        cases h2
        have := inv.bnd _ _ h1; omega
      · simp only [hta, htb, if_false] at h1 h2
        exact inv.inj a ha b hb hna hnb g h1 h2
    · intro c hc p hp hcp g hg
      rw [hget] at hg ⊢
      have hpnd : ¬ DependentChild ps p := parent_not_dependent hc hcp.2.1
      by_cases htp : p.pid ∈ fgTargets true ps (childrenMap ps) x
      · simp only [htp, if_true] at hg
        have hpx := fgTargets_nondep hv hx hp hpnd htp
        have hhh : p.hh = x.hh := by
          rcases hpx with rfl | ⟨h0, e⟩
          · rfl
          · obtain ⟨r', hr', e1, _, e3⟩ := hv.partner x hx h0
            have : r' = p := hinj hr' hp (by rw [e1, e])
            subst this; exact e3
        have := fgTargets_child hv hx hc hcp hpx hhh
        simp only [this, if_true]
        exact hg
      · simp only [htp, if_false] at hg
        have hcg := inv.child c hc p hp hcp g hg
        have htc : c.pid ∉ fgTargets true ps (childrenMap ps) x := by
          intro htc
          simp only [fgTargets, List.mem_cons, List.mem_append] at htc
          rcases htc with h | h | h
          · rw [h, hxnone] at hcg; cases hcg
          · split at h
            · rename_i h0
              simp only [List.mem_singleton] at h
              obtain ⟨r', hr', e1, e2, _⟩ := hv.partner x hx h0
              have : r' = c := hinj hr' hc (by rw [e1, h])
              subst this
              have := h7.nopartner r' hc hcp.1
              have := hv.nonneg x hx
              omega
            · simp at h
          · obtain ⟨c', hc', hcx, hdep, hch, hpar⟩ := fgKid_written hv hx h
            have : c' = c := hinj hc' hc hcx
            subst this
            apply htp
            rcases hpar with hpar | ⟨h0, hpar⟩
            · -- x itself is a co-resident parent of c
              have hcx' : ChildOf ps c' x := ⟨hdep, hpar, hch.symm⟩
              rcases h7.onecouple c' hc p hp x hx hcp hcx' with rfl | e
              · simp [fgTargets]
              · have h0 : 0 ≤ p.partner := by rw [e]; exact hv.nonneg x hx
                obtain ⟨r', hr', e1, e2, _⟩ := hv.partner p hp h0
                have : r' = x := hinj hr' hx (by rw [e1, e])
                subst this
                have h0' : r'.partner ≥ 0 := by rw [e2]; exact hv.nonneg p hp
                simp only [fgTargets, List.mem_cons, List.mem_append]
                right; left; rw [if_pos h0']; simp [e2]
            · -- x's partner is a co-resident parent of c
              obtain ⟨r', hr', e1, e2, e3⟩ := hv.partner x hx h0
              have hcr : ChildOf ps c' r' := ⟨hdep, by rw [e1]; exact hpar, by rw [e3, hch]⟩
              rcases h7.onecouple c' hc p hp r' hr' hcp hcr with rfl | e
              · simp [fgTargets, h0, e1]
              · have h0' : 0 ≤ p.partner := by rw [e]; exact hv.nonneg r' hr'
                obtain ⟨r'', hr'', f1, f2, _⟩ := hv.partner p hp h0'
                have : r'' = r' := hinj hr'' hr' (by rw [f1, e])
                subst this
                have : p.pid = x.pid := by rw [← f2, e2]
                simp [fgTargets, this]
        simp only [htc, if_false]
        exact hcg

/-- the family-unit relation: same person, partners, dependent child of the other or of the other's
partner, or both dependent children of the same couple -/
def FgSame (ps : List Person) (x y : Person) : Prop :=
  Coupled x y ∨ (∃ p ∈ ps, ChildOf ps x p ∧ Coupled p y) ∨ (∃ p ∈ ps, ChildOf ps y p ∧ Coupled p x) ∨
    (∃ p ∈ ps, ∃ q ∈ ps, ChildOf ps x p ∧ ChildOf ps y q ∧ Coupled p q)

instance (ps : List Person) (x y : Person) : Decidable (FgSame ps x y) := by
  unfold FgSame; infer_instance

theorem coupled_symm {ps : List Person} (hv : ValidPersons ps) {x y : Person} (hx : x ∈ ps)
    (hy : y ∈ ps) (h : Coupled x y) : Coupled y x := by
  rcases h with rfl | h
  · exact Or.inl rfl
  · have h0 : 0 ≤ x.partner := by rw [h]; exact hv.nonneg y hy
    obtain ⟨r', hr', e1, e2, _⟩ := hv.partner x hx h0
    have : r' = y := nodup_map_inj hv.nodup hr' hy (by rw [e1, h])
    subst this
    exact Or.inr e2

theorem fg_scan_inv {ps : List Person} (hv : ValidPersons ps) (h7 : ValidDependents ps) :
    ∃ s : FgState, FgInv ps ps s ∧
      fgId true ps = .ok (ps.map fun r => (dictGet? s.dict r.pid).getD 0) :=
  fgId_of_inv true ps (FgInv ps)
    (by constructor <;> simp [dictGet?])
    (fun _ _ _ _ hps hi _ hs' => fgInv_step hv h7 hps hi hs')
    (fun _ hi => hi.keys)

theorem FgInv.coupled_eq {ps : List Person} (hv : ValidPersons ps) {s : FgState}
    (inv : FgInv ps ps s) {x y : Person} (hx : x ∈ ps) (hy : y ∈ ps) (h : Coupled x y) :
    dictGet? s.dict x.pid = dictGet? s.dict y.pid := by
  rcases h with rfl | h
  · rfl
  · rcases coupled_symm hv hx hy (Or.inr h) with rfl | h'
    · rfl
    · exact inv.couple x hx y hy h h'

theorem FgInv.child_eq {ps : List Person} {s : FgState}
    (inv : FgInv ps ps s) {c p : Person} (hc : c ∈ ps) (hp : p ∈ ps) (h : ChildOf ps c p) :
    dictGet? s.dict c.pid = dictGet? s.dict p.pid := by
  cases hg : dictGet? s.dict p.pid with
  | none => exact absurd hg (inv.keys p hp)
  | some g => exact inv.child c hc p hp h g hg

/-- every person has a non-dependent representative with the same id -/
theorem FgInv.rep {ps : List Person} {s : FgState} (inv : FgInv ps ps s) {x : Person}
    (hx : x ∈ ps) :
    ∃ p ∈ ps, ¬ DependentChild ps p ∧ dictGet? s.dict x.pid = dictGet? s.dict p.pid ∧
      (x = p ∨ ChildOf ps x p) := by
  by_cases hd : DependentChild ps x
  · obtain ⟨par, hpar, hptr, hhh⟩ := hd.2.2
    have hc : ChildOf ps x par := ⟨hd, hptr, hhh⟩
    exact ⟨par, hpar, parent_not_dependent hx hptr, inv.child_eq hx hpar hc, Or.inr hc⟩
  · exact ⟨x, hx, hd, rfl, Or.inl rfl⟩

theorem fg_dict_spec {ps : List Person} (hv : ValidPersons ps) {s : FgState}
    (inv : FgInv ps ps s) {x y : Person} (hx : x ∈ ps) (hy : y ∈ ps) :
    dictGet? s.dict x.pid = dictGet? s.dict y.pid ↔ FgSame ps x y := by
  constructor
  · intro h
    obtain ⟨p, hp, hpn, ep, hxp⟩ := inv.rep hx
    obtain ⟨q, hq, hqn, eq, hyq⟩ := inv.rep hy
    have hpq : Coupled p q := by
      cases hg : dictGet? s.dict p.pid with
      | none => exact absurd hg (inv.keys p hp)
      | some g => exact inv.inj p hp q hq hpn hqn g hg (by rw [← eq, ← h, ep, hg])
    rcases hxp with rfl | hxp <;> rcases hyq with rfl | hyq
    · exact Or.inl hpq
    · exact Or.inr (Or.inr (Or.inl ⟨q, hq, hyq, coupled_symm hv hp hq hpq⟩))
    · exact Or.inr (Or.inl ⟨p, hp, hxp, hpq⟩)
    · exact Or.inr (Or.inr (Or.inr ⟨p, hp, q, hq, hxp, hyq, hpq⟩))
  · rintro (h | ⟨p, hp, hc, h⟩ | ⟨p, hp, hc, h⟩ | ⟨p, hp, q, hq, hc, hc', h⟩)
    · exact inv.coupled_eq hv hx hy h
    · rw [inv.child_eq hx hp hc, inv.coupled_eq hv hp hy h]
    · rw [inv.child_eq hy hp hc, inv.coupled_eq hv hp hx h]
    · rw [inv.child_eq hx hp hc, inv.child_eq hy hq hc', inv.coupled_eq hv hp hq h]

theorem fg_spec_aux {ps : List Person} (hv : ValidPersons ps) (h7 : ValidDependents ps) :
    ∃ res, fgId true ps = .ok res ∧ ∃ hl : res.length = ps.length,
      ∀ i (hi : i < ps.length) j (hj : j < ps.length),
        res[i] = res[j] ↔ FgSame ps ps[i] ps[j] := by
  obtain ⟨s, inv, hs⟩ := fg_scan_inv hv h7
  refine ⟨_, hs, by simp, ?_⟩
  intro i hi j hj
  rw [← fg_dict_spec hv inv (List.getElem_mem hi) (List.getElem_mem hj)]
  simp only [List.getElem_map]
  have h1 := inv.keys _ (List.getElem_mem hi)
  have h2 := inv.keys _ (List.getElem_mem hj)
  cases e1 : dictGet? s.dict ps[i].pid with
  | none => exact absurd e1 h1
  | some g1 =>
    cases e2 : dictGet? s.dict ps[j].pid with
    | none => exact absurd e2 h2
    | some g2 => simp

/-! #### order independence -/

section perm
variable {ps ps' : List Person} (hm : ∀ r, r ∈ ps ↔ r ∈ ps')
include hm

theorem dependentChild_congr (c : Person) : DependentChild ps c ↔ DependentChild ps' c := by
  simp only [DependentChild, NoKids, hm]

theorem childOf_congr (c p : Person) : ChildOf ps c p ↔ ChildOf ps' c p := by
  simp only [ChildOf, dependentChild_congr hm]

theorem fgSame_congr (x y : Person) : FgSame ps x y ↔ FgSame ps' x y := by
  simp only [FgSame, childOf_congr hm, hm]

end perm

theorem ValidPersons.perm {ps ps' : List Person} (hp : ps.Perm ps') (hv : ValidPersons ps) :
    ValidPersons ps' := by
  have hm : ∀ r, r ∈ ps ↔ r ∈ ps' := fun r => hp.mem_iff
  constructor
  · exact (hp.map _).nodup_iff.mp hv.nodup
  · intro r hr; exact hv.nonneg r ((hm r).mpr hr)
  · intro r hr; exact hv.noself r ((hm r).mpr hr)
  · intro r hr h0
    obtain ⟨r', hr', h⟩ := hv.partner r ((hm r).mpr hr) h0
    exact ⟨r', (hm r').mp hr', h⟩

theorem ValidDependents.perm {ps ps' : List Person} (hp : ps.Perm ps') (h7 : ValidDependents ps) :
    ValidDependents ps' := by
  have hm : ∀ r, r ∈ ps ↔ r ∈ ps' := fun r => hp.mem_iff
  constructor
  · intro c hc hd
    exact h7.nopartner c ((hm c).mpr hc) ((dependentChild_congr hm c).mpr hd)
  · intro c hc p hp' q hq h1 h2
    exact h7.onecouple c ((hm c).mpr hc) p ((hm p).mpr hp') q ((hm q).mpr hq)
      ((childOf_congr hm c p).mpr h1) ((childOf_congr hm c q).mpr h2)

/-! #### witnesses used in `Props/C12.lean` -/

/-- patchwork family: A and B partners, C (aged 5) child of B only, one household -/
def fgA : Person := { pid := 10, hh := 1, alter := 40, partner := 20, e1 := -1, e2 := -1 }
def fgB : Person := { pid := 20, hh := 1, alter := 38, partner := 10, e1 := -1, e2 := -1 }
def fgC : Person := { pid := 30, hh := 1, alter := 5, partner := -1, e1 := 20, e2 := -1 }

/-- non-vacuity: sparse unsorted ids.  Household 1: couple 70/3, child 41 (aged 5) of 3 only,
child 12 of both; household 2: single 5 with adult child 9. -/
def fgExample : List Person :=
  [{ pid := 41, hh := 1, alter := 5, partner := -1, e1 := 3, e2 := -1 },
   { pid := 70, hh := 1, alter := 40, partner := 3, e1 := -1, e2 := -1 },
   { pid := 12, hh := 1, alter := 10, partner := -1, e1 := 70, e2 := 3 },
   { pid := 3, hh := 1, alter := 38, partner := 70, e1 := -1, e2 := -1 },
   { pid := 9, hh := 2, alter := 30, partner := -1, e1 := 5, e2 := -1 },
   { pid := 5, hh := 2, alter := 60, partner := -1, e1 := -1, e2 := -1 }]

end Groupings
end GV
