import GettsimVerif.Lemmas.SimAlone
import GettsimVerif.Lemmas.SimKahn
import GettsimVerif.Lemmas.DagFuel
/-
Helper lemmas for `simulate_subtargets_succeed` (`Props/C04Sim.lean`), DAG part: `plan` and `exec`
stay successful for a sub-dictionary of functions that is closed under arguments.
-/
namespace GV.Simulate
open GV.Lang (Val)

/-! ### the components of `plan` -/

def planG (fns : List Fn) : List (String × List String) := fns.map fun f => (f.name, f.args)
def planNN (fns : List Fn) (dc S : List String) : List String := pruneNames (planG fns) dc S
def planF (fns : List Fn) (dc S : List String) : List Fn :=
  fns.filter fun f => (planNN fns dc S).contains f.name
def planP (params : List (String × Val)) (fns : List Fn) (dc S : List String) : List (String × List String) :=
  (planF fns dc S).map fun f => (f.name, freeArgs params f)
def planPN (params : List (String × Val)) (fns : List Fn) (dc S : List String) : List String :=
  pruneNames (planP params fns dc S) dc S
def planP2 (params : List (String × Val)) (fns : List Fn) (dc S : List String) : List (String × List String) :=
  (planP params fns dc S).filter fun (n, _) => (planPN params fns dc S).contains n
def planParamsOnly (fns : List Fn) (dc S : List String) : List String :=
  ((planF fns dc S).filter fun f => f.args.all isParamArg).map (·.name)
def planMissing (params : List (String × Val)) (fns : List Fn) (dc S : List String) : List (String × List String) :=
  (graphOf (planP2 params fns dc S)).filter fun (n, ds) =>
    ds.isEmpty && !dc.contains n && !(planParamsOnly fns dc S).contains n
def planResult (params : List (String × Val)) (pr : Prep) (S : List String) (specs : List (String × RSpec)) : Plan :=
  { data := pr.data,
    sys := ((planF pr.fns pr.dataCols S).filter fun f => (planPN params pr.fns pr.dataCols S).contains f.name).map
      fun f => (f.name, nodeOf params specs f),
    order := (topoOrder (graphOf (planP2 params pr.fns pr.dataCols S))).filter (planPN params pr.fns pr.dataCols S).contains,
    nRows := (pr.data.head?.map (·.2.vals.length)).getD 0 }

theorem plan_eq_components (params : List (String × Val)) (S : List String) (pr : Prep) :
    plan params S pr =
      (if hasCycle (graphOf ((planG pr.fns).filter fun (n, _) => (planNN pr.fns pr.dataCols S).contains n)) then
        throw Err.other
      else do
        let specs ← (planF pr.fns pr.dataCols S).filterMapM (specStep params)
        if !(planMissing params pr.fns pr.dataCols S).isEmpty then throw Err.valueError
        else pure (planResult params pr S specs)) := rfl

theorem plan_full {params : List (String × Val)} {S : List String} {pr : Prep} {p : Plan}
    (h : plan params S pr = .ok p) :
    hasCycle (graphOf ((planG pr.fns).filter fun (n, _) => (planNN pr.fns pr.dataCols S).contains n)) = false ∧
    ∃ specs, (planF pr.fns pr.dataCols S).filterMapM (specStep params) = .ok specs ∧
      planMissing params pr.fns pr.dataCols S = [] ∧ p = planResult params pr S specs := by
  rw [plan_eq_components] at h
  split at h
  · cases h
  · rename_i hc
    refine ⟨by simpa using hc, ?_⟩
    obtain ⟨specs, hspecs, h⟩ := bind_ok h
    split at h
    · cases h
    · rename_i hm
      simp only [pure, Except.pure, Except.ok.injEq] at h
      exact ⟨specs, hspecs, by simpa using hm, h.symm⟩

theorem plan_intro {params : List (String × Val)} {S : List String} {pr : Prep} {specs : List (String × RSpec)}
    (hc : hasCycle (graphOf ((planG pr.fns).filter fun (n, _) => (planNN pr.fns pr.dataCols S).contains n)) = false)
    (hs : (planF pr.fns pr.dataCols S).filterMapM (specStep params) = .ok specs)
    (hm : planMissing params pr.fns pr.dataCols S = []) :
    plan params S pr = .ok (planResult params pr S specs) := by
  rw [plan_eq_components, hc, hs, hm]
  rfl

/-! ### the name-only systems of `pruneNames` -/

def U (g : List (String × List String)) : Dag.Sys Unit :=
  g.map fun (n, ds) => (n, { deps := ds, op := fun _ => .ok () })
def DU (dc : List String) : Dag.Data Unit := dc.map fun n => (n, ())

theorem pruneNames_eq (g : List (String × List String)) (dc S : List String) :
    pruneNames g dc S = (Dag.prune (U g) (DU dc) (g.length + 1) S).map (·.1) := by
  unfold pruneNames U DU
  simp only [List.length_map]

theorem find?_U (g : List (String × List String)) (x : String) :
    Dag.find? (U g) x = (Dag.find? g x).map fun ds => { deps := ds, op := fun _ => .ok () } := by
  unfold U
  induction g with
  | nil => rfl
  | cons e g ih =>
    obtain ⟨n, ds⟩ := e
    rw [List.map_cons, Dag.find?_cons, Dag.find?_cons, ih]
    split <;> rfl

theorem find?_DU_isSome (dc : List String) (x : String) : (Dag.find? (DU dc) x).isSome = dc.contains x := by
  unfold DU
  induction dc with
  | nil => rfl
  | cons c dc ih =>
    rw [List.map_cons, Dag.find?_cons, List.contains_cons]
    by_cases h : c = x
    · subst h; simp
    · have : (x == c) = false := by simpa using fun e => h e.symm
      simp [h, this, ih]

theorem find?_DU_none {dc : List String} {x : String} (h : x ∉ dc) : Dag.find? (DU dc) x = none := by
  have := find?_DU_isSome dc x
  cases hf : Dag.find? (DU dc) x with
  | none => rfl
  | some u => rw [hf] at this; simp at this; exact absurd this h

theorem mem_pruneNames (g : List (String × List String)) (dc S : List String) (x : String) :
    x ∈ pruneNames g dc S ↔
      x ∈ g.map (·.1) ∧ ∃ t ∈ S, x ∈ Dag.reach (U g) (DU dc) (g.length + 1) t := by
  rw [pruneNames_eq, List.mem_map]
  constructor
  · rintro ⟨e, he, rfl⟩
    obtain ⟨hm, t, ht, hr⟩ := (Dag.prune_spec _ _ _ _ e).1 he
    refine ⟨?_, t, ht, hr⟩
    unfold U at hm
    obtain ⟨e', he', rfl⟩ := List.mem_map.1 hm
    exact List.mem_map.2 ⟨e', he', rfl⟩
  · rintro ⟨hx, t, ht, hr⟩
    obtain ⟨e', he', rfl⟩ := List.mem_map.1 hx
    refine ⟨(e'.1, { deps := e'.2, op := fun _ => .ok () }), ?_, rfl⟩
    rw [Dag.prune_spec]
    exact ⟨List.mem_map.2 ⟨e', he', rfl⟩, t, ht, hr⟩


/-! ### `graphOf` -/

theorem mem_dedupFold (l : List String) : ∀ (acc : List String) (x : String),
    x ∈ l.foldl (fun acc r => if acc.contains r then acc else acc ++ [r]) acc ↔ x ∈ acc ∨ x ∈ l := by
  induction l with
  | nil => intro acc x; simp
  | cons a l ih =>
    intro acc x
    rw [List.foldl_cons, ih]
    split
    · rename_i h
      have : a ∈ acc := by simpa using h
      constructor
      · rintro (h | h)
        · exact Or.inl h
        · exact Or.inr (List.mem_cons_of_mem _ h)
      · rintro (h | h)
        · exact Or.inl h
        · rcases List.mem_cons.1 h with rfl | h
          · exact Or.inl this
          · exact Or.inr h
    · simp only [List.mem_append, List.mem_cons]
      tauto

theorem nodup_dedupFold (l : List String) : ∀ (acc : List String), acc.Nodup →
    (l.foldl (fun acc r => if acc.contains r then acc else acc ++ [r]) acc).Nodup := by
  induction l with
  | nil => intro acc h; exact h
  | cons a l ih =>
    intro acc h
    rw [List.foldl_cons]
    apply ih
    split
    · exact h
    · rename_i hc
      have : a ∉ acc := by simpa using hc
      rw [List.nodup_append]
      refine ⟨h, List.nodup_singleton a, ?_⟩
      intro x hx y hy
      simp only [List.mem_singleton] at hy
      subst hy
      exact fun e => this (e ▸ hx)

/-- the root nodes of `graphOf`: arguments that are no function names, without repetitions -/
def rootsOf (g : List (String × List String)) : List String :=
  ((g.flatMap (·.2)).filter fun a => !(g.map (·.1)).contains a).foldl
    (fun acc r => if acc.contains r then acc else acc ++ [r]) []

theorem graphOf_eq (g : List (String × List String)) :
    graphOf g = g ++ (rootsOf g).map fun r => (r, []) := rfl

theorem mem_rootsOf (g : List (String × List String)) (x : String) :
    x ∈ rootsOf g ↔ x ∈ g.flatMap (·.2) ∧ x ∉ g.map (·.1) := by
  unfold rootsOf
  rw [mem_dedupFold, List.mem_filter]
  simp only [List.not_mem_nil, false_or, Bool.not_eq_true', List.contains_eq_mem, decide_eq_false_iff_not]

theorem mem_graphOf (g : List (String × List String)) (e : String × List String) :
    e ∈ graphOf g ↔ e ∈ g ∨ (e.2 = [] ∧ e.1 ∈ g.flatMap (·.2) ∧ e.1 ∉ g.map (·.1)) := by
  rw [graphOf_eq, List.mem_append, List.mem_map]
  constructor
  · rintro (h | ⟨r, hr, rfl⟩)
    · exact Or.inl h
    · exact Or.inr ⟨rfl, (mem_rootsOf g r).1 hr⟩
  · rintro (h | ⟨h1, h2⟩)
    · exact Or.inl h
    · refine Or.inr ⟨e.1, (mem_rootsOf g e.1).2 h2, ?_⟩
      obtain ⟨n, ds⟩ := e
      simp only at h1
      subst h1; rfl

theorem mem_graphOf_names (g : List (String × List String)) (x : String) :
    x ∈ (graphOf g).map (·.1) ↔ x ∈ g.map (·.1) ∨ x ∈ g.flatMap (·.2) := by
  rw [List.mem_map]
  constructor
  · rintro ⟨e, he, rfl⟩
    rcases (mem_graphOf g e).1 he with h | ⟨_, h, _⟩
    · exact Or.inl (List.mem_map.2 ⟨e, h, rfl⟩)
    · exact Or.inr h
  · intro h
    by_cases hx : x ∈ g.map (·.1)
    · obtain ⟨e, he, rfl⟩ := List.mem_map.1 hx
      exact ⟨e, (mem_graphOf g e).2 (Or.inl he), rfl⟩
    · rcases h with h | h
      · exact absurd h hx
      · exact ⟨(x, []), (mem_graphOf g _).2 (Or.inr ⟨rfl, h, hx⟩), rfl⟩

theorem nodup_graphOf_names (g : List (String × List String)) (h : (g.map (·.1)).Nodup) :
    ((graphOf g).map (·.1)).Nodup := by
  rw [graphOf_eq, List.map_append, List.map_map]
  have : (List.map ((fun x => x.1) ∘ fun r => ((r, []) : String × List String)) (rootsOf g)) = rootsOf g := by
    have : ((fun x : String × List String => x.1) ∘ fun r => ((r, []) : String × List String)) = id := rfl
    rw [this, List.map_id]
  rw [this, List.nodup_append]
  refine ⟨h, nodup_dedupFold _ [] List.nodup_nil, ?_⟩
  intro x hx y hy e
  subst e
  exact ((mem_rootsOf g x).1 hy).2 hx



/-! ### name/dependency views of a list of functions -/

/-- the name-only system of the functions `L` with dependencies `h f` -/
def V (h : Fn → List String) (L : List Fn) : Dag.Sys Unit := U (L.map fun f => (f.name, h f))

theorem find?_V (h : Fn → List String) (L : List Fn) (x : String) :
    Dag.find? (V h L) x = (findFn? L x).map fun f => { deps := h f, op := fun _ => .ok () } := by
  unfold V
  rw [find?_U]
  have := find?_map_fns h L x
  unfold find? at this
  rw [this]
  cases findFn? L x <;> rfl

theorem V_length (h : Fn → List String) (L : List Fn) : (V h L).length = L.length := by
  simp [V, U]

theorem mem_of_findFn? {L : List Fn} {x : String} {f : Fn} (h : findFn? L x = some f) : f ∈ L :=
  (findFn?_some h).1

theorem findFn?_isSome_of_mem {L : List Fn} {f : Fn} (h : f ∈ L) : (findFn? L f.name).isSome = true := by
  rw [findFn?_isSome_iff]; exact List.mem_map.2 ⟨f, h, rfl⟩

/-- sub-dictionary closed under dependencies: same reachable names -/
theorem view_reach_sub (h : Fn → List String) (L L' : List Fn) (dc : List String)
    (hsub : ∀ x f, findFn? L' x = some f → findFn? L x = some f)
    (hclo : ∀ x f d, findFn? L' x = some f → d ∈ h f → (findFn? L d).isSome = true →
      (findFn? L' d).isSome = true) :
    ∀ (k : Nat) (n : String), ((findFn? L n).isSome = true → (findFn? L' n).isSome = true) →
      Dag.reach (V h L') (DU dc) k n = Dag.reach (V h L) (DU dc) k n := by
  intro k n hn
  apply Dag.reach_sub (V h L) (V h L') (DU dc) (DU dc) (fun _ => rfl)
  · intro x nd' hx
    rw [find?_V] at hx
    cases hf : findFn? L' x with
    | none => rw [hf] at hx; cases hx
    | some f =>
      rw [hf] at hx
      simp only [Option.map_some, Option.some.injEq] at hx
      subst hx
      exact ⟨_, by rw [find?_V, hsub x f hf]; rfl, rfl⟩
  · intro x nd' hx d hd _ hSd
    rw [find?_V] at hx hSd ⊢
    cases hf : findFn? L' x with
    | none => rw [hf] at hx; cases hx
    | some f =>
      rw [hf] at hx
      simp only [Option.map_some, Option.some.injEq] at hx
      subst hx
      have h1 : (findFn? L d).isSome = true := by
        cases hL : findFn? L d with
        | none => rw [hL] at hSd; exact absurd rfl hSd
        | some g => rfl
      have h2 := hclo x f d hf hd h1
      cases hL' : findFn? L' d with
      | none => rw [hL'] at h2; cases h2
      | some g => simp
  · intro _ hSn
    rw [find?_V] at hSn ⊢
    have h1 : (findFn? L n).isSome = true := by
      cases hL : findFn? L n with
      | none => rw [hL] at hSn; exact absurd rfl hSn
      | some g => rfl
    have h2 := hn h1
    cases hL' : findFn? L' n with
    | none => rw [hL'] at h2; cases h2
    | some g => simp

/-- with a rank function, the names reached with enough fuel are closed under dependencies -/
theorem view_dep_closed (h : Fn → List String) (L : List Fn) (dc : List String) (r : String → Nat)
    (hr : ∀ f ∈ L, ∀ d ∈ h f, r d < r f.name) (hdata : ∀ f ∈ L, f.name ∉ dc)
    (k : Nat) (hk : ∀ x, r x < k) {t x d : String} {f : Fn}
    (hx : x ∈ Dag.reach (V h L) (DU dc) k t) (hf : findFn? L x = some f) (hd : d ∈ h f) :
    d ∈ Dag.reach (V h L) (DU dc) k t := by
  have hrd : Dag.RankDecr (V h L) (DU dc) r := by
    intro y nd _ hy e he
    rw [find?_V] at hy
    cases hg : findFn? L y with
    | none => rw [hg] at hy; cases hy
    | some g =>
      rw [hg] at hy
      simp only [Option.map_some, Option.some.injEq] at hy
      subst hy
      have := hr g (mem_of_findFn? hg) e he
      rw [(findFn?_some hg).2] at this
      exact this
  rw [Dag.reach_sat _ _ r hrd k t (hk t)]
  have hxn : f.name = x := (findFn?_some hf).2
  refine Dag.reach_step _ _ k t x d _ hx ?_ (by rw [find?_V, hf]; rfl) hd
  apply find?_DU_none
  rw [← hxn]
  exact hdata f (mem_of_findFn? hf)

/-- the name/dependency graph of `L` as used by `plan` -/
def viewG (h : Fn → List String) (L : List Fn) : List (String × List String) := L.map fun f => (f.name, h f)

theorem viewG_names (h : Fn → List String) (L : List Fn) : (viewG h L).map (·.1) = L.map (·.name) := by
  simp [viewG, Function.comp]

theorem mem_pruneNames_view (h : Fn → List String) (L : List Fn) (dc S : List String) (x : String) :
    x ∈ pruneNames (viewG h L) dc S ↔
      (findFn? L x).isSome = true ∧ ∃ t ∈ S, x ∈ Dag.reach (V h L) (DU dc) (L.length + 1) t := by
  rw [mem_pruneNames, viewG_names, findFn?_isSome_iff]
  simp only [viewG, List.length_map, V]

theorem view_reach_filter (h : Fn → List String) (L : List Fn) (dc S : List String) {t : String}
    (ht : t ∈ S) :
    Dag.reach (V h L) (DU dc) (L.length + 1) t =
      Dag.reach (V h (L.filter fun f => (pruneNames (viewG h L) dc S).contains f.name)) (DU dc)
        (L.length + 1) t := by
  apply Dag.reach_congr
  intro x hx
  refine ⟨?_, rfl⟩
  cases hf : findFn? L x with
  | none =>
    rw [find?_V, find?_V, findFn?_filter_name (fun n => (pruneNames (viewG h L) dc S).contains n), hf]
    simp
  | some f =>
    have hc : (pruneNames (viewG h L) dc S).contains x = true := by
      rw [List.contains_eq_mem, decide_eq_true_eq, mem_pruneNames_view]
      exact ⟨by rw [hf]; rfl, t, ht, hx⟩
    rw [find?_V, find?_V, findFn?_filter_name (fun n => (pruneNames (viewG h L) dc S).contains n)]
    simp only [hc, if_true]

/-! ### rank functions for views -/

theorem rank_of_view (h : Fn → List String) (L : List Fn)
    (hc : hasCycle (graphOf (viewG h L)) = false) :
    ∃ r : String → Nat, (∀ x, r x ≤ L.length) ∧ ∀ f ∈ L, ∀ d ∈ h f, r d < r f.name := by
  obtain ⟨hgn, r, hb, hr⟩ := rank_of_acyclic (graphOf (viewG h L))
    (fun n => (L.map (·.name)).contains n) hc
  refine ⟨r, ?_, ?_⟩
  · intro x
    refine Nat.le_trans (hb x) ?_
    have h1 : (((graphOf (viewG h L)).map (·.1)).filter fun n => (L.map (·.name)).contains n).Nodup :=
      hgn.sublist List.filter_sublist
    have h2 := nodup_length_le h1 (m := L.map (·.name)) (by
      intro y hy
      have := (List.mem_filter.1 hy).2
      simpa using this)
    simpa using h2
  · intro f hf d hd
    apply hr f.name (h f) ?_ ?_ d hd
    · exact (mem_graphOf _ _).2 (Or.inl (List.mem_map.2 ⟨f, hf, rfl⟩))
    · simp only [List.contains_eq_mem, decide_eq_true_eq]
      exact List.mem_map.2 ⟨f, hf, rfl⟩

theorem acyclic_of_view_rank (h : Fn → List String) (L : List Fn) (hnd : (L.map (·.name)).Nodup)
    (r : String → Nat) (hr : ∀ f ∈ L, ∀ d ∈ h f, r d < r f.name) :
    hasCycle (graphOf (viewG h L)) = false := by
  apply acyclic_of_rank _ r
  · apply nodup_graphOf_names
    rw [viewG_names]; exact hnd
  · intro n ds he d hd
    rcases (mem_graphOf _ _).1 he with hg | ⟨hnil, _, _⟩
    · refine ⟨(mem_graphOf_names _ _).2 (Or.inr (List.mem_flatMap.2 ⟨(n, ds), hg, hd⟩)), ?_⟩
      obtain ⟨f, hf, hfe⟩ := List.mem_map.1 hg
      simp only [Prod.mk.injEq] at hfe
      obtain ⟨rfl, rfl⟩ := hfe
      exact hr f hf d hd
    · simp only at hnil
      subst hnil
      cases hd


/-! ### a sub-dictionary of functions that is closed under arguments -/

structure SubFns (fns fns' : List Fn) (dc S S' : List String) : Prop where
  nd : (fns.map (·.name)).Nodup
  nd' : (fns'.map (·.name)).Nodup
  sub : ∀ x f, findFn? fns' x = some f → findFn? fns x = some f
  clo : ∀ x f d, findFn? fns' x = some f → d ∈ f.args → (findFn? fns d).isSome = true →
    (findFn? fns' d).isSome = true
  notData : ∀ f ∈ fns, f.name ∉ dc
  tar : ∀ t ∈ S', (findFn? fns' t).isSome = true
  subS : ∀ t ∈ S', t ∈ S

abbrev aF : Fn → List String := fun f => f.args

theorem planG_eq (fns : List Fn) : planG fns = viewG aF fns := rfl
theorem planP_eq (params : List (String × Val)) (fns : List Fn) (dc S : List String) :
    planP params fns dc S = viewG (freeArgs params) (planF fns dc S) := rfl

theorem viewG_filter (h : Fn → List String) (L : List Fn) (p : String → Bool) :
    (viewG h L).filter (fun (n, _) => p n) = viewG h (L.filter fun f => p f.name) := by
  unfold viewG
  rw [List.filter_map]
  rfl

namespace SubFns
variable {fns fns' : List Fn} {dc S S' : List String}

theorem mem (H : SubFns fns fns' dc S S') {f : Fn} (hf : f ∈ fns') : f ∈ fns :=
  mem_of_findFn? (H.sub _ f (findFn?_of_mem_nodup H.nd' hf))

theorem notData' (H : SubFns fns fns' dc S S') : ∀ f ∈ fns', f.name ∉ dc :=
  fun f hf => H.notData f (H.mem hf)

theorem names_sub {L L' : List Fn} (hsub : ∀ f ∈ L', f ∈ L) : ∀ x ∈ L'.map (·.name), x ∈ L.map (·.name) := by
  intro x hx
  obtain ⟨f, hf, rfl⟩ := List.mem_map.1 hx
  exact List.mem_map.2 ⟨f, hsub f hf, rfl⟩

theorem len (H : SubFns fns fns' dc S S') : fns'.length ≤ fns.length := by
  have := nodup_length_le H.nd' (names_sub fun f hf => H.mem hf)
  simpa using this

/-- G1 -/
theorem nn_sub (H : SubFns fns fns' dc S S') : ∀ x ∈ planNN fns' dc S', x ∈ planNN fns dc S := by
  intro x hx
  unfold planNN at hx ⊢
  rw [planG_eq, mem_pruneNames_view] at hx ⊢
  obtain ⟨hs, t, ht, hr⟩ := hx
  refine ⟨?_, t, H.subS t ht, ?_⟩
  · cases hf : findFn? fns' x with
    | none => rw [hf] at hs; cases hs
    | some f => rw [H.sub x f hf]; rfl
  · rw [view_reach_sub aF fns fns' dc H.sub H.clo _ t (fun _ => H.tar t ht)] at hr
    exact Dag.reach_mono_le _ _ (by have := H.len; omega) t x hr

theorem findFn?_planF (fns : List Fn) (dc S : List String) (x : String) :
    findFn? (planF fns dc S) x = if (planNN fns dc S).contains x then findFn? fns x else none :=
  findFn?_filter_name (fun n => (planNN fns dc S).contains n) fns x

theorem planF_sub (H : SubFns fns fns' dc S S') :
    ∀ x f, findFn? (planF fns' dc S') x = some f → findFn? (planF fns dc S) x = some f := by
  intro x f hf
  rw [findFn?_planF] at hf ⊢
  split at hf
  · rename_i hc
    have : (planNN fns dc S).contains x = true := by
      simpa using H.nn_sub x (by simpa using hc)
    rw [if_pos this]
    exact H.sub x f hf
  · cases hf

theorem planF_nodup (fns : List Fn) (dc S : List String) (h : (fns.map (·.name)).Nodup) :
    ((planF fns dc S).map (·.name)).Nodup := nodup_filter_names _ _ h

theorem planF_mem (H : SubFns fns fns' dc S S') {f : Fn} (hf : f ∈ planF fns' dc S') : f ∈ planF fns dc S :=
  mem_of_findFn? (H.planF_sub _ f (findFn?_of_mem_nodup (planF_nodup _ _ _ H.nd') hf))

theorem planF_len (H : SubFns fns fns' dc S S') : (planF fns' dc S').length ≤ (planF fns dc S).length := by
  have := nodup_length_le (planF_nodup _ _ _ H.nd') (names_sub fun f hf => H.planF_mem hf)
  simpa using this

/-- G2 -/
theorem cycle_sub (H : SubFns fns fns' dc S S')
    (hc : hasCycle (graphOf ((planG fns).filter fun (n, _) => (planNN fns dc S).contains n)) = false) :
    hasCycle (graphOf ((planG fns').filter fun (n, _) => (planNN fns' dc S').contains n)) = false := by
  rw [planG_eq, viewG_filter] at hc ⊢
  obtain ⟨r, _, hr⟩ := rank_of_view aF _ hc
  exact acyclic_of_view_rank aF _ (planF_nodup _ _ _ H.nd') r (fun f hf => hr f (H.planF_mem hf))

/-- a rank function for the necessary functions of the smaller call -/
theorem rank' (H : SubFns fns fns' dc S S')
    (hc : hasCycle (graphOf ((planG fns).filter fun (n, _) => (planNN fns dc S).contains n)) = false) :
    ∃ r : String → Nat, (∀ x, r x ≤ (planF fns' dc S').length) ∧
      ∀ f ∈ planF fns' dc S', ∀ d ∈ f.args, r d < r f.name := by
  have := H.cycle_sub hc
  rw [planG_eq, viewG_filter] at this
  exact rank_of_view aF _ this

theorem tar_F (H : SubFns fns fns' dc S S') : ∀ t ∈ S', (findFn? (planF fns' dc S') t).isSome = true := by
  intro t ht
  rw [findFn?_planF]
  have : (planNN fns' dc S').contains t = true := by
    rw [List.contains_eq_mem, decide_eq_true_eq]
    unfold planNN
    rw [planG_eq, mem_pruneNames_view]
    exact ⟨H.tar t ht, t, ht, Dag.self_mem_reach _ _ _ t⟩
  rw [if_pos this]
  exact H.tar t ht

/-- G4: the necessary functions of the smaller call are closed under arguments -/
theorem planF_closed (H : SubFns fns fns' dc S S')
    (hc : hasCycle (graphOf ((planG fns).filter fun (n, _) => (planNN fns dc S).contains n)) = false)
    {x d : String} {f : Fn} (hf : findFn? (planF fns' dc S') x = some f) (hd : d ∈ f.args)
    (hdf : (findFn? fns d).isSome = true) : (findFn? (planF fns' dc S') d).isSome = true := by
  obtain ⟨r, hb, hr⟩ := H.rank' hc
  have hf0 := hf
  rw [findFn?_planF] at hf
  split at hf
  · rename_i hx
    have hx' : x ∈ planNN fns' dc S' := by simpa using hx
    unfold planNN at hx'
    rw [planG_eq, mem_pruneNames_view] at hx'
    obtain ⟨_, t, ht, hreach⟩ := hx'
    have hfilt : Dag.reach (V aF fns') (DU dc) (fns'.length + 1) t =
        Dag.reach (V aF (planF fns' dc S')) (DU dc) (fns'.length + 1) t :=
      view_reach_filter aF fns' dc S' ht
    rw [hfilt] at hreach
    have hFlen : (planF fns' dc S').length ≤ fns'.length := List.length_filter_le _ _
    have hd' := view_dep_closed aF (planF fns' dc S') dc r hr
      (fun g hg => H.notData' g (List.mem_filter.1 hg).1) (fns'.length + 1)
      (fun y => by have := hb y; omega) hreach hf0 hd
    rw [← hfilt] at hd'
    have hd1 := H.clo x f d hf hd hdf
    rw [findFn?_planF]
    have : (planNN fns' dc S').contains d = true := by
      rw [List.contains_eq_mem, decide_eq_true_eq]
      unfold planNN
      rw [planG_eq, mem_pruneNames_view]
      exact ⟨hd1, t, ht, hd'⟩
    rw [if_pos this]
    exact hd1
  · cases hf

end SubFns

def planL2 (params : List (String × Val)) (fns : List Fn) (dc S : List String) : List Fn :=
  (planF fns dc S).filter fun f => (planPN params fns dc S).contains f.name

theorem planP2_eq (params : List (String × Val)) (fns : List Fn) (dc S : List String) :
    planP2 params fns dc S = viewG (freeArgs params) (planL2 params fns dc S) := by
  unfold planP2 planL2
  rw [planP_eq, viewG_filter]

theorem freeArgs_sub (params : List (String × Val)) (f : Fn) : ∀ d ∈ freeArgs params f, d ∈ f.args :=
  fun _ hd => (List.mem_filter.1 hd).1

theorem mem_planPN (params : List (String × Val)) (fns : List Fn) (dc S : List String) (x : String) :
    x ∈ planPN params fns dc S ↔ (findFn? (planF fns dc S) x).isSome = true ∧
      ∃ t ∈ S, x ∈ Dag.reach (V (freeArgs params) (planF fns dc S)) (DU dc) ((planF fns dc S).length + 1) t := by
  unfold planPN
  rw [planP_eq, mem_pruneNames_view]

namespace SubFns
variable {fns fns' : List Fn} {dc S S' : List String}

theorem planF_isSome_fns {x : String} (h : (findFn? (planF fns dc S) x).isSome = true) :
    (findFn? fns x).isSome = true := by
  rw [findFn?_planF] at h
  split at h
  · exact h
  · cases h

/-- G5 -/
theorem pn_sub (H : SubFns fns fns' dc S S') (params : List (String × Val))
    (hc : hasCycle (graphOf ((planG fns).filter fun (n, _) => (planNN fns dc S).contains n)) = false) :
    ∀ x ∈ planPN params fns' dc S', x ∈ planPN params fns dc S := by
  intro x hx
  rw [mem_planPN] at hx ⊢
  obtain ⟨hs, t, ht, hr⟩ := hx
  refine ⟨?_, t, H.subS t ht, ?_⟩
  · cases hf : findFn? (planF fns' dc S') x with
    | none => rw [hf] at hs; cases hs
    | some f => rw [H.planF_sub x f hf]; rfl
  · rw [view_reach_sub (freeArgs params) (planF fns dc S) (planF fns' dc S') dc H.planF_sub
      (fun y f d hf hd hdF => H.planF_closed hc hf (freeArgs_sub params f d hd) (planF_isSome_fns hdF))
      _ t (fun _ => H.tar_F t ht)] at hr
    exact Dag.reach_mono_le _ _ (by have := H.planF_len; omega) t x hr

/-- G6 -/
theorem pn_closed (H : SubFns fns fns' dc S S') (params : List (String × Val))
    (hc : hasCycle (graphOf ((planG fns).filter fun (n, _) => (planNN fns dc S).contains n)) = false)
    {x d : String} {f : Fn} (hx : x ∈ planPN params fns' dc S')
    (hf : findFn? (planF fns' dc S') x = some f) (hd : d ∈ freeArgs params f)
    (hdF : (findFn? (planF fns' dc S') d).isSome = true) : d ∈ planPN params fns' dc S' := by
  obtain ⟨r, hb, hr⟩ := H.rank' hc
  rw [mem_planPN] at hx ⊢
  obtain ⟨_, t, ht, hreach⟩ := hx
  refine ⟨hdF, t, ht, ?_⟩
  exact view_dep_closed (freeArgs params) (planF fns' dc S') dc r
    (fun g hg e he => hr g hg e (freeArgs_sub params g e he))
    (fun g hg => H.notData' g (List.mem_filter.1 hg).1) _
    (fun y => by have := hb y; omega) hreach hf hd

theorem findFn?_planL2 (params : List (String × Val)) (fns : List Fn) (dc S : List String) (x : String) :
    findFn? (planL2 params fns dc S) x =
      if (planPN params fns dc S).contains x then findFn? (planF fns dc S) x else none :=
  findFn?_filter_name (fun n => (planPN params fns dc S).contains n) _ x

theorem planL2_sub (H : SubFns fns fns' dc S S') (params : List (String × Val))
    (hc : hasCycle (graphOf ((planG fns).filter fun (n, _) => (planNN fns dc S).contains n)) = false) :
    ∀ x f, findFn? (planL2 params fns' dc S') x = some f → findFn? (planL2 params fns dc S) x = some f := by
  intro x f hf
  rw [findFn?_planL2] at hf ⊢
  split at hf
  · rename_i hcx
    have : (planPN params fns dc S).contains x = true := by
      simpa using H.pn_sub params hc x (by simpa using hcx)
    rw [if_pos this]
    exact H.planF_sub x f hf
  · cases hf

/-- the functions of the final system of the smaller call are closed under free arguments -/
theorem planL2_closed (H : SubFns fns fns' dc S S') (params : List (String × Val))
    (hc : hasCycle (graphOf ((planG fns).filter fun (n, _) => (planNN fns dc S).contains n)) = false)
    {x d : String} {f : Fn} (hf : findFn? (planL2 params fns' dc S') x = some f)
    (hd : d ∈ freeArgs params f) (hdf : (findFn? fns d).isSome = true) :
    (findFn? (planL2 params fns' dc S') d).isSome = true := by
  rw [findFn?_planL2] at hf
  split at hf
  · rename_i hcx
    have hdF := H.planF_closed hc hf (freeArgs_sub params f d hd) hdf
    have := H.pn_closed params hc (by simpa using hcx) hf hd hdF
    rw [findFn?_planL2, if_pos (by simpa using this)]
    exact hdF
  · cases hf

theorem tar_L2 (H : SubFns fns fns' dc S S') (params : List (String × Val)) :
    ∀ t ∈ S', (findFn? (planL2 params fns' dc S') t).isSome = true := by
  intro t ht
  have hF := H.tar_F t ht
  have : t ∈ planPN params fns' dc S' := by
    rw [mem_planPN]
    exact ⟨hF, t, ht, Dag.self_mem_reach _ _ _ t⟩
  rw [findFn?_planL2, if_pos (by simpa using this)]
  exact hF

end SubFns

theorem filterMapM_ok_elem {A B : Type} {g : A → Except Err (Option B)} {l : List A} {out : List B}
    (h : l.filterMapM g = .ok out) : ∀ a ∈ l, ∃ o, g a = .ok o := by
  induction l generalizing out with
  | nil => intro a ha; cases ha
  | cons a l ih =>
    rw [List.filterMapM_cons] at h
    obtain ⟨o, ho, h⟩ := bind_ok h
    have hrest : ∃ out', l.filterMapM g = .ok out' := by
      cases o with
      | none => exact ⟨out, h⟩
      | some b =>
        simp only at h
        obtain ⟨rest, hrest, _⟩ := bind_ok h
        exact ⟨rest, hrest⟩
    obtain ⟨out', hout'⟩ := hrest
    intro x hx
    rcases List.mem_cons.1 hx with rfl | hx
    · exact ⟨o, ho⟩
    · exact ih hout' x hx

theorem filterMapM_ok_of_forall {A B : Type} {g : A → Except Err (Option B)} {l : List A}
    (h : ∀ a ∈ l, ∃ o, g a = .ok o) : ∃ out, l.filterMapM g = .ok out := by
  induction l with
  | nil => exact ⟨[], rfl⟩
  | cons a l ih =>
    obtain ⟨o, ho⟩ := h a List.mem_cons_self
    obtain ⟨out, hout⟩ := ih fun x hx => h x (List.mem_cons_of_mem _ hx)
    rw [List.filterMapM_cons, ho]
    cases o with
    | none => exact ⟨out, hout⟩
    | some b => exact ⟨b :: out, by simp only [bind, Except.bind, hout]; rfl⟩

theorem mem_planParamsOnly (fns : List Fn) (dc S : List String) (n : String) :
    n ∈ planParamsOnly fns dc S ↔ ∃ g ∈ planF fns dc S, g.args.all isParamArg = true ∧ g.name = n := by
  unfold planParamsOnly
  rw [List.mem_map]
  constructor
  · rintro ⟨g, hg, rfl⟩
    rw [List.mem_filter] at hg
    exact ⟨g, hg.1, hg.2, rfl⟩
  · rintro ⟨g, hg, hp, rfl⟩
    exact ⟨g, List.mem_filter.2 ⟨hg, hp⟩, rfl⟩

theorem planMissing_nil_iff (params : List (String × Val)) (fns : List Fn) (dc S : List String) :
    planMissing params fns dc S = [] ↔
      ∀ n, (n, []) ∈ graphOf (planP2 params fns dc S) → n ∈ dc ∨ n ∈ planParamsOnly fns dc S := by
  unfold planMissing
  rw [List.filter_eq_nil_iff]
  constructor
  · intro h n hn
    have := h (n, []) hn
    simp only [List.isEmpty_nil, Bool.true_and, Bool.and_eq_true, Bool.not_eq_true', List.contains_eq_mem,
      decide_eq_false_iff_not, not_and, Decidable.not_not] at this
    by_cases hdc : n ∈ dc
    · exact Or.inl hdc
    · exact Or.inr (this hdc)
  · rintro h ⟨n, ds⟩ he
    cases ds with
    | cons d ds => simp
    | nil =>
      simp only [List.isEmpty_nil, Bool.true_and, Bool.and_eq_true, Bool.not_eq_true', List.contains_eq_mem,
        decide_eq_false_iff_not, not_and, Decidable.not_not]
      intro hdc
      rcases h n he with h1 | h1
      · exact absurd h1 hdc
      · exact h1

namespace SubFns
variable {fns fns' : List Fn} {dc S S' : List String}

theorem paramsOnly_sub (H : SubFns fns fns' dc S S') {n : String} (hn : n ∈ planParamsOnly fns dc S)
    (hF : (findFn? (planF fns' dc S') n).isSome = true) : n ∈ planParamsOnly fns' dc S' := by
  rw [mem_planParamsOnly] at hn ⊢
  obtain ⟨g, hg, hp, rfl⟩ := hn
  cases hf : findFn? (planF fns' dc S') g.name with
  | none => rw [hf] at hF; cases hF
  | some g' =>
    have h1 := H.planF_sub _ g' hf
    rw [findFn?_of_mem_nodup (planF_nodup _ _ _ H.nd) hg] at h1
    cases h1
    exact ⟨g, mem_of_findFn? hf, hp, rfl⟩

theorem planL2_nodup (params : List (String × Val)) (fns : List Fn) (dc S : List String)
    (h : (fns.map (·.name)).Nodup) : ((planL2 params fns dc S).map (·.name)).Nodup :=
  nodup_filter_names _ _ (planF_nodup _ _ _ h)

theorem planL2_isSome_F {params : List (String × Val)} {x : String}
    (h : (findFn? (planL2 params fns dc S) x).isSome = true) :
    (findFn? (planF fns dc S) x).isSome = true := by
  rw [findFn?_planL2] at h
  split at h
  · exact h
  · cases h

/-- G7 -/
theorem missing_sub (H : SubFns fns fns' dc S S') (params : List (String × Val))
    (hc : hasCycle (graphOf ((planG fns).filter fun (n, _) => (planNN fns dc S).contains n)) = false)
    (hm : planMissing params fns dc S = []) : planMissing params fns' dc S' = [] := by
  rw [planMissing_nil_iff] at hm ⊢
  intro n hn
  rw [planP2_eq] at hn hm
  by_cases hdc : n ∈ dc
  · exact Or.inl hdc
  right
  rcases (mem_graphOf _ _).1 hn with he | ⟨_, hroot, hnot⟩
  · -- a function without free arguments
    obtain ⟨f, hf, hfe⟩ := List.mem_map.1 he
    simp only [Prod.mk.injEq] at hfe
    obtain ⟨rfl, hfr⟩ := hfe
    have hf' := findFn?_of_mem_nodup (planL2_nodup params _ _ _ H.nd') hf
    have hf2 := mem_of_findFn? (H.planL2_sub params hc _ f hf')
    have : (f.name, []) ∈ graphOf (viewG (freeArgs params) (planL2 params fns dc S)) :=
      (mem_graphOf _ _).2 (Or.inl (List.mem_map.2 ⟨f, hf2, by rw [hfr]⟩))
    rcases hm _ this with h1 | h1
    · exact absurd h1 hdc
    · exact H.paramsOnly_sub h1 (planL2_isSome_F (by rw [hf']; rfl))
  · -- a root: an argument of some function of the final system
    simp only at hroot hnot
    obtain ⟨e, he, hne⟩ := List.mem_flatMap.1 hroot
    obtain ⟨f, hf, rfl⟩ := List.mem_map.1 he
    simp only at hne
    have hf' := findFn?_of_mem_nodup (planL2_nodup params _ _ _ H.nd') hf
    have hf2 := mem_of_findFn? (H.planL2_sub params hc _ f hf')
    have hfF : findFn? (planF fns' dc S') f.name = some f := by
      rw [findFn?_planL2] at hf'
      split at hf'
      · exact hf'
      · cases hf'
    by_cases hn2 : n ∈ (viewG (freeArgs params) (planL2 params fns dc S)).map (·.1)
    · -- it is a function of the final system of the larger call, hence of the smaller one
      exfalso
      rw [viewG_names] at hn2 hnot
      have hfn : (findFn? fns n).isSome = true := by
        obtain ⟨g, hg, rfl⟩ := List.mem_map.1 hn2
        have := findFn?_isSome_of_mem hg
        exact planF_isSome_fns (planL2_isSome_F this)
      have := H.planL2_closed params hc hf' hne hfn
      rw [findFn?_isSome_iff] at this
      exact hnot this
    · have : (n, []) ∈ graphOf (viewG (freeArgs params) (planL2 params fns dc S)) := by
        refine (mem_graphOf _ _).2 (Or.inr ⟨rfl, ?_, hn2⟩)
        exact List.mem_flatMap.2 ⟨(f.name, freeArgs params f), List.mem_map.2 ⟨f, hf2, rfl⟩, hne⟩
      rcases hm _ this with h1 | h1
      · exact absurd h1 hdc
      · have hfn : (findFn? fns n).isSome = true := by
          obtain ⟨g, hg, _, rfl⟩ := (mem_planParamsOnly _ _ _ _).1 h1
          exact planF_isSome_fns (findFn?_isSome_of_mem hg)
        exact H.paramsOnly_sub h1 (H.planF_closed hc hfF (freeArgs_sub params f n hne) hfn)

/-- **plan** stays successful -/
theorem plan_sub (H : SubFns fns fns' dc S S') (params : List (String × Val)) {pr pr' : Prep} {p : Plan}
    (hfns : pr.fns = fns) (hfns' : pr'.fns = fns') (hdc : pr.dataCols = dc) (hdc' : pr'.dataCols = dc)
    (h : plan params S pr = .ok p) :
    hasCycle (graphOf ((planG fns).filter fun (n, _) => (planNN fns dc S).contains n)) = false ∧
    ∃ specs specs', p = planResult params pr S specs ∧
      plan params S' pr' = .ok (planResult params pr' S' specs') := by
  obtain ⟨hc, specs, hspecs, hm, hp⟩ := plan_full h
  rw [hfns, hdc] at hc hspecs hm
  refine ⟨hc, specs, ?_⟩
  obtain ⟨specs', hspecs'⟩ : ∃ specs', (planF fns' dc S').filterMapM (specStep params) = .ok specs' :=
    filterMapM_ok_of_forall fun f hf => filterMapM_ok_elem hspecs f (H.planF_mem hf)
  refine ⟨specs', hp, ?_⟩
  apply plan_intro
  · rw [hfns', hdc']; exact H.cycle_sub hc
  · rw [hfns', hdc']; exact hspecs'
  · rw [hfns', hdc']; exact H.missing_sub params hc hm

end SubFns

theorem exec_intro {p : Plan} {S : List String}
    (h1 : ∀ n ∈ p.order, ∃ v, Dag.eval (Dag.prune p.sys p.data (p.sys.length + 1) S) p.data (p.sys.length + 1) n = .ok v)
    (h2 : ∀ t ∈ S, ∃ v, Dag.eval (Dag.prune p.sys p.data (p.sys.length + 1) S) p.data (p.sys.length + 1) t = .ok v) :
    ∃ tbl, exec p S = .ok tbl := by
  unfold exec
  simp only
  obtain ⟨vs, hvs⟩ := mapM_ok_of_forall (g := fun n => Dag.eval (Dag.prune p.sys p.data (p.sys.length + 1) S) p.data
    (p.sys.length + 1) n) h1
  rw [hvs]
  simp only
  apply mapM_ok_of_forall
  intro t ht
  obtain ⟨v, hv⟩ := h2 t ht
  exact ⟨(t, render p.nRows v), by rw [hv]; rfl⟩

theorem exec_elim {p : Plan} {S : List String} {tbl : Table} (h : exec p S = .ok tbl) :
    ∀ t ∈ S, ∃ v, Dag.eval p.sys p.data (p.sys.length + 1) t = .ok v := by
  unfold exec at h
  simp only at h
  split at h
  · cases h
  · intro t ht
    obtain ⟨e, _, he⟩ := mapM_mem_in h t ht
    obtain ⟨v, hv, _⟩ := bind_ok he
    rw [Dag.prune_sound _ _ _ _ t ht] at hv
    exact ⟨v, hv⟩

theorem nodeLazy_deps (params : List (String × Val)) (f : Fn) :
    (nodeLazy params f).deps = freeArgs params f := rfl

/-- the system of a plan: one lazily rounded node per function of the final list -/
theorem sys_find {params : List (String × Val)} {fns : List Fn} {dc S : List String}
    {specs : List (String × RSpec)} (hnd : (fns.map (·.name)).Nodup)
    (hspecs : (planF fns dc S).filterMapM (specStep params) = .ok specs) (x : String) :
    Dag.find? ((planL2 params fns dc S).map fun f => (f.name, nodeOf params specs f)) x =
      (findFn? (planL2 params fns dc S) x).map (nodeLazy params) := by
  have := find?_map_fns (nodeOf params specs) (planL2 params fns dc S) x
  unfold find? at this
  rw [this]
  cases hf : findFn? (planL2 params fns dc S) x with
  | none => rfl
  | some f =>
    simp only [Option.map_some, Option.some.injEq]
    apply nodeOf_eq_lazy
    have hmem : f ∈ planF fns dc S := (List.mem_filter.1 (mem_of_findFn? hf)).1
    exact (filterMapM_specStep hspecs).2 (SubFns.planF_nodup _ _ _ hnd) f hmem


namespace SubFns
variable {fns fns' : List Fn} {dc S S' : List String}

/-- **exec** stays successful -/
theorem exec_sub (H : SubFns fns fns' dc S S') (params : List (String × Val)) {pr pr' : Prep}
    (hfns : pr.fns = fns) (hfns' : pr'.fns = fns') (hdc : pr.dataCols = dc) (hdc' : pr'.dataCols = dc)
    (hdata : pr'.data = pr.data) (hD : ∀ x, (Dag.find? pr.data x).isSome = dc.contains x)
    (hc : hasCycle (graphOf ((planG fns).filter fun (n, _) => (planNN fns dc S).contains n)) = false)
    {specs specs' : List (String × RSpec)}
    (hspecs : (planF fns dc S).filterMapM (specStep params) = .ok specs)
    (hspecs' : (planF fns' dc S').filterMapM (specStep params) = .ok specs')
    {tbl : Table} (h : exec (planResult params pr S specs) S = .ok tbl) :
    ∃ tbl', exec (planResult params pr' S' specs') S' = .ok tbl' := by
  have hval := exec_elim h
  -- the two systems
  have hsysdef : (planResult params pr S specs).sys =
      (planL2 params fns dc S).map fun f => (f.name, nodeOf params specs f) := by
    simp only [planResult, planL2, hfns, hdc]
  have hsysdef' : (planResult params pr' S' specs').sys =
      (planL2 params fns' dc S').map fun f => (f.name, nodeOf params specs' f) := by
    simp only [planResult, planL2, hfns', hdc']
  have hpd : (planResult params pr S specs).data = pr.data := rfl
  have hpd' : (planResult params pr' S' specs').data = pr.data := hdata
  generalize hSg : (planResult params pr S specs).sys = Sg at hval hsysdef
  generalize hSg' : (planResult params pr' S' specs').sys = Sg' at hsysdef'
  have hfind : ∀ x, Dag.find? Sg x = (findFn? (planL2 params fns dc S) x).map (nodeLazy params) := by
    intro x; rw [hsysdef]; exact sys_find H.nd hspecs x
  have hfind' : ∀ x, Dag.find? Sg' x = (findFn? (planL2 params fns' dc S') x).map (nodeLazy params) := by
    intro x; rw [hsysdef']; exact sys_find H.nd' hspecs' x
  have hlen' : Sg'.length = (planL2 params fns' dc S').length := by rw [hsysdef', List.length_map]
  rw [hpd] at hval
  -- rank function on the final system of the smaller call
  obtain ⟨r1, _, hr1⟩ := H.rank' hc
  have hL2F : ∀ f ∈ planL2 params fns' dc S', f ∈ planF fns' dc S' := fun f hf => (List.mem_filter.1 hf).1
  have hac : hasCycle (graphOf (viewG (freeArgs params) (planL2 params fns' dc S'))) = false :=
    acyclic_of_view_rank _ _ (planL2_nodup params _ _ _ H.nd') r1
      (fun f hf d hd => hr1 f (hL2F f hf) d (freeArgs_sub params f d hd))
  obtain ⟨r, hb, hr⟩ := rank_of_view (freeArgs params) _ hac
  have hrd : Dag.RankDecr Sg' pr.data r := by
    intro y nd _ hy e he
    rw [hfind'] at hy
    cases hg : findFn? (planL2 params fns' dc S') y with
    | none => rw [hg] at hy; cases hy
    | some g =>
      rw [hg] at hy
      simp only [Option.map_some, Option.some.injEq] at hy
      subst hy
      have := hr g (mem_of_findFn? hg) e he
      rw [(findFn?_some hg).2] at this
      exact this
  have hrk : ∀ y, r y < Sg'.length + 1 := fun y => by have := hb y; omega
  -- closure of Sg' inside Sg
  have hsubSg : ∀ x nd', Dag.find? Sg' x = some nd' → ∃ nd, Dag.find? Sg x = some nd ∧ nd.deps = nd'.deps ∧
      ∀ args, nd.op args = nd'.op args := by
    intro x nd' hx
    rw [hfind'] at hx
    cases hf : findFn? (planL2 params fns' dc S') x with
    | none => rw [hf] at hx; cases hx
    | some f =>
      rw [hf] at hx
      simp only [Option.map_some, Option.some.injEq] at hx
      subst hx
      exact ⟨_, by rw [hfind, H.planL2_sub params hc x f hf]; rfl, rfl, fun _ => rfl⟩
  have hcloSg : ∀ x nd', Dag.find? Sg' x = some nd' → ∀ d ∈ nd'.deps, Dag.find? pr.data d = none →
      Dag.find? Sg d ≠ none → Dag.find? Sg' d ≠ none := by
    intro x nd' hx d hd _ hSd
    rw [hfind'] at hx
    rw [hfind] at hSd
    rw [hfind']
    cases hf : findFn? (planL2 params fns' dc S') x with
    | none => rw [hf] at hx; cases hx
    | some f =>
      rw [hf] at hx
      simp only [Option.map_some, Option.some.injEq] at hx
      subst hx
      have hdf : (findFn? fns d).isSome = true := by
        cases hL : findFn? (planL2 params fns dc S) d with
        | none => rw [hL] at hSd; exact absurd rfl hSd
        | some g => exact planF_isSome_fns (planL2_isSome_F (by rw [hL]; rfl))
      have := H.planL2_closed params hc hf hd hdf
      cases hL' : findFn? (planL2 params fns' dc S') d with
      | none => rw [hL'] at this; cases this
      | some g => simp
  have htarSg : ∀ t ∈ S', Dag.find? Sg' t ≠ none := by
    intro t ht
    rw [hfind']
    have := H.tar_L2 params t ht
    cases hL' : findFn? (planL2 params fns' dc S') t with
    | none => rw [hL'] at this; cases this
    | some g => simp
  -- the targets evaluate in Sg' with its own fuel
  have hevalT : ∀ t ∈ S', ∃ v, Dag.eval Sg' pr.data (Sg'.length + 1) t = .ok v := by
    intro t ht
    obtain ⟨v, hv⟩ := hval t (H.subS t ht)
    have h1 := Dag.eval_restrict Sg Sg' pr.data hsubSg hcloSg _ t v hv (fun _ _ => htarSg t ht)
    exact ⟨v, Dag.eval_sat Sg' pr.data r hrd _ t (hrk t) _ v h1⟩
  -- every node reachable from a target evaluates
  have hevalR : ∀ t ∈ S', ∀ y ∈ Dag.reach Sg' pr.data (Sg'.length + 1) t,
      ∃ w, Dag.eval Sg' pr.data (Sg'.length + 1) y = .ok w := by
    intro t ht y hy
    obtain ⟨v, hv⟩ := hevalT t ht
    exact Dag.eval_sub_ok Sg' pr.data _ t v hv y hy
  -- … also in the pruned system
  have hprune : ∀ t ∈ S', ∀ y ∈ Dag.reach Sg' pr.data (Sg'.length + 1) t,
      Dag.eval (Dag.prune Sg' pr.data (Sg'.length + 1) S') pr.data (Sg'.length + 1) y =
        Dag.eval Sg' pr.data (Sg'.length + 1) y := by
    intro t ht y hy
    symm
    apply Dag.eval_congr_reach
    intro z hz
    refine ⟨?_, rfl⟩
    symm
    unfold Dag.prune
    apply Dag.find?_filter (fun n => (S'.flatMap (Dag.reach Sg' pr.data (Sg'.length + 1))).contains n)
    simp only [List.contains_eq_mem, List.mem_flatMap, decide_eq_true_eq]
    refine ⟨t, ht, ?_⟩
    have := Dag.reach_trans Sg' pr.data _ z _ t y hy hz
    rw [← Dag.reach_sat_le Sg' pr.data r hrd (by omega) t (hrk t)] at this
    exact this
  apply exec_intro
  · intro n hn
    rw [hSg', hpd']
    -- `n` is reachable from a target
    have hn' : n ∈ planPN params fns' dc S' := by
      have : n ∈ (planResult params pr' S' specs').order := hn
      simp only [planResult, hfns', hdc'] at this
      simpa using (List.mem_filter.1 this).2
    rw [mem_planPN] at hn'
    obtain ⟨_, t, ht, hreach⟩ := hn'
    have h1 : Dag.reach (V (freeArgs params) (planF fns' dc S')) (DU dc) ((planF fns' dc S').length + 1) t =
        Dag.reach (V (freeArgs params) (planL2 params fns' dc S')) (DU dc) ((planF fns' dc S').length + 1) t :=
      view_reach_filter (freeArgs params) (planF fns' dc S') dc S' ht
    rw [h1] at hreach
    have h2 : Dag.reach Sg' pr.data ((planF fns' dc S').length + 1) t =
        Dag.reach (V (freeArgs params) (planL2 params fns' dc S')) (DU dc) ((planF fns' dc S').length + 1) t := by
      apply Dag.reach_sub _ _ (DU dc) pr.data
      · intro x; rw [hD, find?_DU_isSome]
      · intro x nd' hx
        rw [hfind'] at hx
        rw [find?_V]
        cases hf : findFn? (planL2 params fns' dc S') x with
        | none => rw [hf] at hx; cases hx
        | some f =>
          rw [hf] at hx
          simp only [Option.map_some, Option.some.injEq] at hx
          subst hx
          exact ⟨_, rfl, rfl⟩
      · intro x nd' _ d _ _ hSd
        rw [find?_V] at hSd
        rw [hfind']
        cases hL' : findFn? (planL2 params fns' dc S') d with
        | none => rw [hL'] at hSd; exact absurd rfl hSd
        | some g => simp
      · intro _ _; exact htarSg t ht
    rw [← h2] at hreach
    have hle : Sg'.length + 1 ≤ (planF fns' dc S').length + 1 := by
      rw [hlen']; exact Nat.succ_le_succ (List.length_filter_le _ _)
    rw [← Dag.reach_sat_le Sg' pr.data r hrd hle t (hrk t)] at hreach
    obtain ⟨w, hw⟩ := hevalR t ht n hreach
    exact ⟨w, by rw [hprune t ht n hreach]; exact hw⟩
  · intro t ht
    rw [hSg', hpd']
    obtain ⟨v, hv⟩ := hevalT t ht
    exact ⟨v, by rw [Dag.prune_sound _ _ _ _ t ht]; exact hv⟩

end SubFns

theorem convertData_fst_names {raw conv : List (String × Col)} {ov : List Fn}
    (h : convertData raw ov = .ok conv) : conv.map (·.1) = raw.map (·.1) := by
  unfold convertData at h
  induction raw generalizing conv with
  | nil => simp only [List.mapM_nil, pure, Except.pure, Except.ok.injEq] at h; subst h; rfl
  | cons a l ih =>
    rw [List.mapM_cons] at h
    obtain ⟨b, hb, h⟩ := bind_ok h
    obtain ⟨rest, hrest, h⟩ := bind_ok h
    simp only [pure, Except.pure, Except.ok.injEq] at h
    subst h
    obtain ⟨n, c⟩ := a
    simp only at hb
    have hb1 : b.1 = n := by
      split at hb
      · simp only [Except.ok.injEq] at hb; rw [← hb]
      · obtain ⟨col, _, hb⟩ := bind_ok hb
        simp only [pure, Except.pure, Except.ok.injEq] at hb
        rw [← hb]
    simp only [List.map_cons, hb1, ih hrest]

/-- **Dropping targets keeps a call successful** (for `run`, i.e. on the components of the input). -/
theorem run_sub {ruleFns : List Fn} {params : List (String × Val)} {gs : List (String × GroupSpec)}
    {ps : List (String × PidSpec)} {data : List (String × Column)} {T T' : List String} {tbl : Table}
    (h : run ruleFns params gs ps data T = .ok tbl) (hsub : ∀ t ∈ T', t ∈ T)
    (hgrp : ∀ a ∈ ["wohngeld_vorrang_bg", "wohngeld_kinderzuschl_vorrang_bg"], a ∈ T → a ∈ T')
    (hp : ∀ p ∈ ps, p.1 ∉ ruleFns.map (·.name) ∧
      ∀ c ∈ data.map (·.1), p.1 ∉ (TimeConv.derivedOf c []).map (·.name)) :
    ∃ tbl', run ruleFns params gs ps data T' = .ok tbl' := by
  unfold run at h ⊢
  simp only at h ⊢
  obtain ⟨pr, hpr, h⟩ := bind_ok h
  obtain ⟨p, hplan, hexec⟩ := bind_ok h
  have hsub' : ∀ t ∈ sortDedup T', t ∈ sortDedup T :=
    fun t ht => (mem_sortDedup t T).2 (hsub t ((mem_sortDedup t T').1 ht))
  have hgrp' : ∀ a ∈ groupingFns.flatMap (·.args), (groupIdOf a).isSome = true →
      a ∈ sortDedup T → a ∈ sortDedup T' := by
    intro a ha hg hT
    have hmem : a ∈ (groupingFns.flatMap (·.args)).filter (fun a => (groupIdOf a).isSome) :=
      List.mem_filter.2 ⟨ha, hg⟩
    rw [groupingFns_agg_args] at hmem
    exact (mem_sortDedup a T').2 (hgrp a hmem ((mem_sortDedup a T).1 hT))
  obtain ⟨pr', hpr', hdata, hdc, hsubd, hclo⟩ := prepare_sub hpr hsub' hgrp' hp
  obtain ⟨raw, all, hraw, _, _, _, hconv, _, hdcraw, _⟩ := prepare_ok' hpr
  obtain ⟨_, _, _, _, _, _, _, _, _, htar'⟩ := prepare_ok' hpr'
  have hnames := typedData_names hraw
  have H : SubFns pr.fns pr'.fns pr.dataCols (sortDedup T) (sortDedup T') :=
    { nd := prepare_fns_nodup hpr
      nd' := prepare_fns_nodup hpr'
      sub := hsubd
      clo := hclo
      notData := by
        intro f hf
        rw [hdcraw, hnames]
        exact prepare_fns_not_data hpr f hf
      tar := by
        intro t ht
        exact List.all_eq_true.1 htar' t ht
      subS := hsub' }
  have hD : ∀ x, (Dag.find? pr.data x).isSome = pr.dataCols.contains x := by
    intro x
    have h1 := Dag.find?_isSome_iff pr.data x
    rw [convertData_fst_names hconv, ← hdcraw] at h1
    cases hc : pr.dataCols.contains x
    · cases hf : (Dag.find? pr.data x).isSome
      · rfl
      · exact absurd (h1.1 hf) (by simpa using hc)
    · exact h1.2 (by simpa using hc)
  obtain ⟨hc, specs, specs', hp1, hplan'⟩ := H.plan_sub params rfl rfl rfl hdc hplan
  obtain ⟨_, specs0, hspecs0, _, hp0⟩ := plan_full hplan
  obtain ⟨_, specs0', hspecs0', _, hp0'⟩ := plan_full hplan'
  rw [hp0] at hexec
  obtain ⟨tbl', hexec'⟩ := H.exec_sub params rfl rfl rfl hdc hdata hD hc hspecs0
    (by rw [hdc] at hspecs0'; exact hspecs0') hexec
  refine ⟨tbl', ?_⟩
  rw [hpr']
  simp only [bind, Except.bind]
  rw [hplan', hp0']
  exact hexec'


end GV.Simulate
