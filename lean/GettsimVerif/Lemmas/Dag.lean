import GettsimVerif.Core.Dag
import Mathlib.Data.List.Forall2
/-
Helper lemmas for the abstract DAG evaluation model `GV.Dag` (properties C01, C02, C04, C05, C06).
-/
namespace GV.Dag

variable {α : Type}

/-! ### `find?` -/

@[simp] theorem find?_nil {β : Type} (n : Name) : find? ([] : List (Name × β)) n = none := rfl

theorem find?_cons {β : Type} (k : Name) (v : β) (l : List (Name × β)) (n : Name) :
    find? ((k, v) :: l) n = if k = n then some v else find? l n := rfl

theorem find?_cons_ne {β : Type} {k n : Name} (v : β) (l : List (Name × β)) (h : k ≠ n) :
    find? ((k, v) :: l) n = find? l n := by
  simp [find?_cons, h]

theorem find?_cons_self {β : Type} (k : Name) (v : β) (l : List (Name × β)) :
    find? ((k, v) :: l) k = some v := by
  simp [find?_cons]

theorem find?_append {β : Type} (l l' : List (Name × β)) (n : Name) :
    find? (l ++ l') n = (find? l n).or (find? l' n) := by
  induction l with
  | nil => simp
  | cons hd tl ih =>
    obtain ⟨k, v⟩ := hd
    simp only [List.cons_append, find?_cons]
    split <;> simp [ih]

theorem find?_append_ne {β : Type} (l : List (Name × β)) {k n : Name} (v : β) (h : k ≠ n) :
    find? (l ++ [(k, v)]) n = find? l n := by
  rw [find?_append, find?_cons_ne v [] h]
  simp

/-- filtering on the name keeps the binding of every kept name -/
theorem find?_filter {β : Type} (p : Name → Bool) (l : List (Name × β)) (n : Name) (h : p n = true) :
    find? (l.filter fun (k, _) => p k) n = find? l n := by
  induction l with
  | nil => rfl
  | cons hd tl ih =>
    obtain ⟨k, v⟩ := hd
    by_cases hk : k = n
    · subst hk
      simp [h, find?_cons]
    · by_cases hp : p k = true
      · simp [hp, find?_cons, hk, ih]
      · simp [hp, find?_cons, hk, ih]

theorem find?_isSome_iff {β : Type} (l : List (Name × β)) (n : Name) :
    (find? l n).isSome ↔ n ∈ l.map (·.1) := by
  induction l with
  | nil => simp
  | cons hd tl ih =>
    obtain ⟨k, v⟩ := hd
    simp only [find?_cons, List.map_cons, List.mem_cons]
    by_cases hk : k = n
    · simp [hk]
    · have : ¬ n = k := fun h => hk h.symm
      simp [hk, this, ih]

theorem find?_eq_none_iff {β : Type} (l : List (Name × β)) (n : Name) :
    find? l n = none ↔ n ∉ l.map (·.1) := by
  rw [← find?_isSome_iff]
  cases find? l n <;> simp

theorem find?_mem {β : Type} (l : List (Name × β)) (n : Name) (v : β) (h : find? l n = some v) :
    (n, v) ∈ l := by
  induction l with
  | nil => simp at h
  | cons hd tl ih =>
    obtain ⟨k, w⟩ := hd
    rw [find?_cons] at h
    by_cases hk : k = n
    · simp only [hk, if_true, Option.some.injEq] at h
      subst h; subst hk; exact List.mem_cons_self
    · simp only [hk, if_false] at h
      exact List.mem_cons_of_mem _ (ih h)

/-! ### `evalAll` -/

@[simp] theorem evalAll_nil (ev : Name → Except Err α) : evalAll ev [] = .ok [] := rfl

theorem evalAll_cons (ev : Name → Except Err α) (n : Name) (ns : List Name) :
    evalAll ev (n :: ns) = (do let v ← ev n; let vs ← evalAll ev ns; pure (v :: vs)) := rfl

/-- L2 `evalAll` only looks at the listed names -/
theorem evalAll_congr {ev ev' : Name → Except Err α} {ns : List Name}
    (h : ∀ n ∈ ns, ev n = ev' n) : evalAll ev ns = evalAll ev' ns := by
  induction ns with
  | nil => rfl
  | cons n ns ih =>
    rw [evalAll_cons, evalAll_cons, h n List.mem_cons_self,
      ih (fun m hm => h m (List.mem_cons_of_mem _ hm))]

/-- L2 `evalAll` succeeds iff every listed name evaluates, and returns the values in order -/
theorem evalAll_ok_iff (ev : Name → Except Err α) (ns : List Name) (vs : List α) :
    evalAll ev ns = .ok vs ↔ List.Forall₂ (fun n v => ev n = .ok v) ns vs := by
  induction ns generalizing vs with
  | nil =>
    simp only [evalAll_nil, Except.ok.injEq, List.forall₂_nil_left_iff]
    exact eq_comm
  | cons n ns ih =>
    rw [evalAll_cons, List.forall₂_cons_left_iff]
    cases hn : ev n with
    | error e =>
      simp only [bind, Except.bind, reduceCtorEq, false_and, exists_false]
    | ok v =>
      cases hns : evalAll ev ns with
      | error e =>
        simp only [bind, Except.bind, reduceCtorEq, false_iff, not_exists, not_and]
        intro b u hb hu
        rw [← ih, hns] at hu
        cases hu
      | ok ws =>
        simp only [bind, Except.bind, pure, Except.pure, Except.ok.injEq]
        constructor
        · intro h
          exact ⟨v, ws, rfl, (ih ws).1 hns, h.symm⟩
        · rintro ⟨b, u, hb, hu, rfl⟩
          rw [← ih, hns] at hu
          cases hb; cases hu; rfl

theorem evalAll_cons_ok {ev : Name → Except Err α} {n : Name} {v : α} (ns : List Name)
    (h : ev n = .ok v) : evalAll ev (n :: ns) = (evalAll ev ns).map (v :: ·) := by
  rw [evalAll_cons, h]
  cases evalAll ev ns <;> rfl

theorem evalAll_cons_error {ev : Name → Except Err α} {n : Name} {e : Err} (ns : List Name)
    (h : ev n = .error e) : evalAll ev (n :: ns) = .error e := by
  rw [evalAll_cons, h]; rfl

/-- L2 monotonicity of `evalAll` in the evaluator (success direction) -/
theorem evalAll_ok_mono {ev ev' : Name → Except Err α} {ns : List Name} {vs : List α}
    (h : ∀ n ∈ ns, ∀ v, ev n = .ok v → ev' n = .ok v) (hv : evalAll ev ns = .ok vs) :
    evalAll ev' ns = .ok vs := by
  rw [evalAll_ok_iff] at hv ⊢
  induction hv with
  | nil => exact .nil
  | cons hab _ ih =>
    exact .cons (h _ List.mem_cons_self _ hab) (ih fun n hn => h n (List.mem_cons_of_mem _ hn))

theorem evalAll_length {ev : Name → Except Err α} {ns : List Name} {vs : List α}
    (hv : evalAll ev ns = .ok vs) : vs.length = ns.length :=
  ((evalAll_ok_iff ev ns vs).1 hv).length_eq.symm

/-! ### `Forall₂` -/

theorem forall₂_getElem?_left {A B : Type} {R : A → B → Prop} {l : List A} {l' : List B}
    (h : List.Forall₂ R l l') {i : Nat} {a : A} (hi : l[i]? = some a) :
    ∃ b, l'[i]? = some b ∧ R a b := by
  induction h generalizing i with
  | nil => simp at hi
  | cons hab _ ih =>
    cases i with
    | zero =>
      simp only [List.getElem?_cons_zero, Option.some.injEq] at hi
      subst hi
      exact ⟨_, by simp, hab⟩
    | succ i =>
      simp only [List.getElem?_cons_succ] at hi ⊢
      exact ih hi

/-! ### `mapM` in `Except` -/

theorem mapM_congr_mem {A B : Type} {g g' : A → Except Err B} {l : List A}
    (h : ∀ a ∈ l, g a = g' a) : l.mapM g = l.mapM g' := by
  induction l with
  | nil => rfl
  | cons a l ih =>
    rw [List.mapM_cons, List.mapM_cons, h a List.mem_cons_self,
      ih fun b hb => h b (List.mem_cons_of_mem _ hb)]

theorem mapM_ok_iff {A B : Type} (g : A → Except Err B) (l : List A) (out : List B) :
    l.mapM g = .ok out ↔ List.Forall₂ (fun a b => g a = .ok b) l out := by
  induction l generalizing out with
  | nil => simp [pure, Except.pure, eq_comm]
  | cons a l ih =>
    rw [List.mapM_cons, List.forall₂_cons_left_iff]
    cases ha : g a with
    | error e => simp [bind, Except.bind]
    | ok b =>
      cases hl : l.mapM g with
      | error e =>
        simp only [bind, Except.bind, reduceCtorEq, false_iff, not_exists, not_and]
        intro b' u hb hu
        rw [← ih, hl] at hu
        cases hu
      | ok bs =>
        simp only [bind, Except.bind, pure, Except.pure, Except.ok.injEq]
        constructor
        · rintro rfl
          exact ⟨b, bs, rfl, (ih bs).1 hl, rfl⟩
        · rintro ⟨b', u, hb, hu, rfl⟩
          rw [← ih, hl] at hu
          cases hb; cases hu; rfl

/-! ### fuel -/

/-- L1 more fuel never changes a successful result -/
theorem eval_fuel_mono (S : Sys α) (D : Data α) (k : Nat) (n : Name) (v : α)
    (h : eval S D k n = .ok v) : eval S D (k + 1) n = .ok v := by
  induction k generalizing n v with
  | zero => simp [eval] at h
  | succ k ih =>
    rw [eval] at h ⊢
    cases hD : find? D n with
    | some c => rw [hD] at h; exact h
    | none =>
      rw [hD] at h
      cases hS : find? S n with
      | none => rw [hS] at h; exact h
      | some node =>
        rw [hS] at h
        simp only at h ⊢
        cases hargs : evalAll (eval S D k) node.deps with
        | error e => rw [hargs] at h; cases h
        | ok args =>
          rw [hargs] at h
          rw [evalAll_ok_mono (fun m _ w hw => ih m w hw) hargs]
          exact h

/-- L1' … hence for any larger fuel -/
theorem eval_fuel_le (S : Sys α) (D : Data α) {k k' : Nat} (hk : k ≤ k') (n : Name) (v : α)
    (h : eval S D k n = .ok v) : eval S D k' n = .ok v := by
  induction hk with
  | refl => exact h
  | step _ ih => exact eval_fuel_mono S D _ n v ih

/-- successful results do not depend on the fuel -/
theorem eval_fuel_det (S : Sys α) (D : Data α) {k k' : Nat} {n : Name} {v w : α}
    (h : eval S D k n = .ok v) (h' : eval S D k' n = .ok w) : v = w := by
  have h1 := eval_fuel_le S D (Nat.le_max_left k k') n v h
  have h2 := eval_fuel_le S D (Nat.le_max_right k k') n w h'
  rw [h1] at h2
  cases h2; rfl

/-! ### `reach` -/

theorem self_mem_reach (S : Sys α) (D : Data α) (k : Nat) (n : Name) : n ∈ reach S D k n := by
  cases k with
  | zero => simp [reach]
  | succ k =>
    rw [reach]
    split
    · simp
    · split <;> simp

theorem reach_succ_of_node {S : Sys α} {D : Data α} {k : Nat} {n : Name} {node : Node α}
    (hD : find? D n = none) (hS : find? S n = some node) :
    reach S D (k + 1) n = n :: node.deps.flatMap (reach S D k) := by
  rw [reach, hD]; simp only; rw [hS]

theorem eval_succ_of_node {S : Sys α} {D : Data α} {k : Nat} {n : Name} {node : Node α}
    (hD : find? D n = none) (hS : find? S n = some node) :
    eval S D (k + 1) n = (do let args ← evalAll (eval S D k) node.deps; node.op args) := by
  rw [eval, hD]; simp only; rw [hS]

theorem eval_succ_of_data {S : Sys α} {D : Data α} {k : Nat} {n : Name} {c : α}
    (hD : find? D n = some c) : eval S D (k + 1) n = .ok c := by
  rw [eval, hD]

theorem eval_succ_of_missing {S : Sys α} {D : Data α} {k : Nat} {n : Name}
    (hD : find? D n = none) (hS : find? S n = none) : eval S D (k + 1) n = .error .keyError := by
  rw [eval, hD]; simp only; rw [hS]

theorem reach_dep_subset {S : Sys α} {D : Data α} {k : Nat} {n d : Name} {node : Node α}
    (hD : find? D n = none) (hS : find? S n = some node) (hd : d ∈ node.deps) :
    ∀ x ∈ reach S D k d, x ∈ reach S D (k + 1) n := by
  intro x hx
  rw [reach_succ_of_node hD hS]
  exact List.mem_cons_of_mem _ (List.mem_flatMap.2 ⟨d, hd, hx⟩)

/-- L3 (workhorse) the value of `n` only depends on the bindings (functions and data) of the
names reachable from `n`. -/
theorem eval_congr_reach (S S' : Sys α) (D D' : Data α) (k : Nat) (n : Name)
    (h : ∀ x ∈ reach S D k n, find? S x = find? S' x ∧ find? D x = find? D' x) :
    eval S D k n = eval S' D' k n := by
  induction k generalizing n with
  | zero => rfl
  | succ k ih =>
    obtain ⟨hSn, hDn⟩ := h n (self_mem_reach S D (k + 1) n)
    cases hD : find? D n with
    | some c => rw [eval_succ_of_data hD, eval_succ_of_data (hDn ▸ hD)]
    | none =>
      cases hS : find? S n with
      | none => rw [eval_succ_of_missing hD hS, eval_succ_of_missing (hDn ▸ hD) (hSn ▸ hS)]
      | some node =>
        rw [eval_succ_of_node hD hS, eval_succ_of_node (hDn ▸ hD) (hSn ▸ hS)]
        rw [evalAll_congr (ev' := eval S' D' k)]
        intro d hd
        exact ih d (fun x hx => h x (reach_dep_subset hD hS hd x hx))

/-- the reachable set itself only depends on the bindings of the reachable names -/
theorem reach_congr (S S' : Sys α) (D D' : Data α) (k : Nat) (n : Name)
    (h : ∀ x ∈ reach S D k n, find? S x = find? S' x ∧ find? D x = find? D' x) :
    reach S D k n = reach S' D' k n := by
  induction k generalizing n with
  | zero => rfl
  | succ k ih =>
    obtain ⟨hSn, hDn⟩ := h n (self_mem_reach S D (k + 1) n)
    cases hD : find? D n with
    | some c =>
      have hD' : find? D' n = some c := hDn ▸ hD
      rw [reach, reach, hD, hD']
    | none =>
      have hD' : find? D' n = none := hDn ▸ hD
      cases hS : find? S n with
      | none =>
        have hS' : find? S' n = none := hSn ▸ hS
        rw [reach, reach, hD, hD']; simp only; rw [hS, hS']
      | some node =>
        rw [reach_succ_of_node hD hS, reach_succ_of_node hD' (hSn ▸ hS)]
        congr 1
        apply List.flatMap_congr
        intro d hd
        exact ih d (fun x hx => h x (reach_dep_subset hD hS hd x hx))

/-! ### relational lifting (C01, C02)

`R x c c'` relates the value `c` of node/column `x` in one run to its value `c'` in another run
(e.g. "`c'` is `c` with the rows permuted"). The relation may depend on the name, so that
different columns can carry different invariants (id columns vs. value columns). -/

/-- argument lists related position-wise, each position by the relation of the dependency's name -/
inductive ArgsRel (R : Name → α → α → Prop) : List Name → List α → List α → Prop
  | nil : ArgsRel R [] [] []
  | cons {d : Name} {ds : List Name} {a a' : α} {as as' : List α} :
      R d a a' → ArgsRel R ds as as' → ArgsRel R (d :: ds) (a :: as) (a' :: as')

/-- same column names in the same order, related columns -/
def DataRel (R : Name → α → α → Prop) (D D' : Data α) : Prop :=
  List.Forall₂ (fun a b => a.1 = b.1 ∧ R a.1 a.2 b.2) D D'

/-- every operation maps related arguments to related results (success direction) -/
def OpsRespect (R : Name → α → α → Prop) (S : Sys α) : Prop :=
  ∀ n node, find? S n = some node → ∀ as as', ArgsRel R node.deps as as' →
    ∀ c, node.op as = .ok c → ∃ c', node.op as' = .ok c' ∧ R n c c'

/-- every operation maps related arguments to related errors -/
def OpsRespectErr (R : Name → α → α → Prop) (E : Err → Err → Prop) (S : Sys α) : Prop :=
  ∀ n node, find? S n = some node → ∀ as as', ArgsRel R node.deps as as' →
    ∀ e, node.op as = .error e → ∃ e', node.op as' = .error e' ∧ E e e'

theorem ArgsRel.forall₂ {R : α → α → Prop} {ds : List Name} {as as' : List α}
    (h : ArgsRel (fun _ => R) ds as as') : List.Forall₂ R as as' := by
  induction h with
  | nil => exact .nil
  | cons h _ ih => exact .cons h ih

theorem ArgsRel.forall₂_of_imp {R : Name → α → α → Prop} {Q : α → α → Prop}
    (himp : ∀ x a b, R x a b → Q a b) {ds : List Name} {as as' : List α}
    (h : ArgsRel R ds as as') : List.Forall₂ Q as as' := by
  induction h with
  | nil => exact .nil
  | cons h _ ih => exact .cons (himp _ _ _ h) ih

theorem ArgsRel.eq_of {R : Name → α → α → Prop} {ds : List Name} {as as' : List α}
    (h : ArgsRel R ds as as') (heq : ∀ d ∈ ds, ∀ a b, R d a b → b = a) : as' = as := by
  induction h with
  | nil => rfl
  | cons h _ ih =>
    rw [heq _ List.mem_cons_self _ _ h, ih fun d hd => heq d (List.mem_cons_of_mem _ hd)]

theorem ArgsRel.length_left {R : Name → α → α → Prop} {ds : List Name} {as as' : List α}
    (h : ArgsRel R ds as as') : as.length = ds.length := by
  induction h with
  | nil => rfl
  | cons _ _ ih => simp [ih]

theorem ArgsRel.length_right {R : Name → α → α → Prop} {ds : List Name} {as as' : List α}
    (h : ArgsRel R ds as as') : as'.length = ds.length := by
  induction h with
  | nil => rfl
  | cons _ _ ih => simp [ih]

theorem DataRel.find?_none {R : Name → α → α → Prop} {D D' : Data α} (h : DataRel R D D')
    (n : Name) : find? D n = none ↔ find? D' n = none := by
  unfold DataRel at h
  induction h with
  | nil => simp
  | @cons a b l l' hab _ ih =>
    obtain ⟨k, v⟩ := a
    obtain ⟨k', v'⟩ := b
    obtain ⟨hk, _⟩ := hab
    simp only at hk
    subst hk
    simp only [find?_cons]
    by_cases hkn : k = n
    · simp [hkn]
    · simp [hkn, ih]

theorem DataRel.find?_some {R : Name → α → α → Prop} {D D' : Data α} (h : DataRel R D D')
    {n : Name} {c : α} (hc : find? D n = some c) : ∃ c', find? D' n = some c' ∧ R n c c' := by
  unfold DataRel at h
  induction h with
  | nil => simp at hc
  | @cons a b l l' hab _ ih =>
    obtain ⟨k, v⟩ := a
    obtain ⟨k', v'⟩ := b
    obtain ⟨hk, hR⟩ := hab
    simp only at hk hR
    subst hk
    simp only [find?_cons] at hc ⊢
    by_cases hkn : k = n
    · subst hkn
      simp only [if_true, Option.some.injEq] at hc ⊢
      subst hc
      exact ⟨v', rfl, hR⟩
    · simp only [hkn, if_false] at hc ⊢
      exact ih hc

theorem evalAll_rel_ok {R : Name → α → α → Prop} {ev ev' : Name → Except Err α} {ds : List Name}
    (h : ∀ d ∈ ds, ∀ v, ev d = .ok v → ∃ v', ev' d = .ok v' ∧ R d v v') {vs : List α}
    (hv : evalAll ev ds = .ok vs) : ∃ vs', evalAll ev' ds = .ok vs' ∧ ArgsRel R ds vs vs' := by
  rw [evalAll_ok_iff] at hv
  induction hv with
  | nil => exact ⟨[], rfl, .nil⟩
  | @cons d v ds vs hd _ ih =>
    obtain ⟨v', hv', hR⟩ := h d List.mem_cons_self v hd
    obtain ⟨vs', hvs', hRs⟩ := ih (fun x hx => h x (List.mem_cons_of_mem _ hx))
    refine ⟨v' :: vs', ?_, .cons hR hRs⟩
    rw [evalAll_cons_ok ds hv', hvs']
    rfl

theorem evalAll_rel_err {R : Name → α → α → Prop} {E : Err → Err → Prop}
    {ev ev' : Name → Except Err α} {ds : List Name}
    (h : ∀ d ∈ ds, ∀ v, ev d = .ok v → ∃ v', ev' d = .ok v' ∧ R d v v')
    (hE : ∀ d ∈ ds, ∀ e, ev d = .error e → ∃ e', ev' d = .error e' ∧ E e e') {e : Err}
    (he : evalAll ev ds = .error e) : ∃ e', evalAll ev' ds = .error e' ∧ E e e' := by
  induction ds with
  | nil => cases he
  | cons d ds ih =>
    cases hd : ev d with
    | error e0 =>
      rw [evalAll_cons_error ds hd] at he
      cases he
      obtain ⟨e', he', hEe⟩ := hE d List.mem_cons_self e hd
      exact ⟨e', evalAll_cons_error ds he', hEe⟩
    | ok v =>
      obtain ⟨v', hv', _⟩ := h d List.mem_cons_self v hd
      rw [evalAll_cons_ok ds hd] at he
      cases hds : evalAll ev ds with
      | ok vs => rw [hds] at he; cases he
      | error e0 =>
        rw [hds] at he
        cases he
        obtain ⟨e', he', hEe⟩ := ih (fun x hx => h x (List.mem_cons_of_mem _ hx))
          (fun x hx => hE x (List.mem_cons_of_mem _ hx)) hds
        refine ⟨e', ?_, hEe⟩
        rw [evalAll_cons_ok ds hv', he']
        rfl

/-- master lifting theorem, success direction: if every operation respects the (name-indexed)
relation and the data columns are related, every computed value is related. -/
theorem eval_respects_named (R : Name → α → α → Prop) (S : Sys α) (D D' : Data α)
    (hops : OpsRespect R S) (hD : DataRel R D D') (k : Nat) (n : Name) (c : α)
    (h : eval S D k n = .ok c) : ∃ c', eval S D' k n = .ok c' ∧ R n c c' := by
  induction k generalizing n c with
  | zero => simp [eval] at h
  | succ k ih =>
    cases hDn : find? D n with
    | some c0 =>
      rw [eval_succ_of_data hDn] at h
      cases h
      obtain ⟨c', hc', hR⟩ := hD.find?_some hDn
      exact ⟨c', eval_succ_of_data hc', hR⟩
    | none =>
      have hDn' : find? D' n = none := (hD.find?_none n).1 hDn
      cases hS : find? S n with
      | none => rw [eval_succ_of_missing hDn hS] at h; cases h
      | some node =>
        rw [eval_succ_of_node hDn hS] at h
        rw [eval_succ_of_node hDn' hS]
        cases hargs : evalAll (eval S D k) node.deps with
        | error e => rw [hargs] at h; cases h
        | ok args =>
          rw [hargs] at h
          obtain ⟨args', hargs', hRel⟩ := evalAll_rel_ok (R := R) (fun d _ v hv => ih d v hv) hargs
          rw [hargs']
          exact hops n node hS args args' hRel c h

/-- master lifting theorem, error direction: if in addition every operation maps related
arguments to `E`-related errors (`E` reflexive), every error is reproduced up to `E`. -/
theorem eval_respects_err_named (R : Name → α → α → Prop) (E : Err → Err → Prop)
    (hE : ∀ e, E e e) (S : Sys α) (D D' : Data α)
    (hops : OpsRespect R S) (hopsE : OpsRespectErr R E S) (hD : DataRel R D D')
    (k : Nat) (n : Name) (e : Err)
    (h : eval S D k n = .error e) : ∃ e', eval S D' k n = .error e' ∧ E e e' := by
  induction k generalizing n e with
  | zero =>
    simp only [eval, Except.error.injEq] at h ⊢
    exact ⟨_, rfl, h ▸ hE _⟩
  | succ k ih =>
    cases hDn : find? D n with
    | some c0 => rw [eval_succ_of_data hDn] at h; cases h
    | none =>
      have hDn' : find? D' n = none := (hD.find?_none n).1 hDn
      cases hS : find? S n with
      | none =>
        rw [eval_succ_of_missing hDn hS] at h
        cases h
        exact ⟨_, eval_succ_of_missing hDn' hS, hE _⟩
      | some node =>
        rw [eval_succ_of_node hDn hS] at h
        rw [eval_succ_of_node hDn' hS]
        have hok : ∀ d ∈ node.deps, ∀ v, eval S D k d = .ok v →
            ∃ v', eval S D' k d = .ok v' ∧ R d v v' :=
          fun d _ v hv => eval_respects_named R S D D' hops hD k d v hv
        cases hargs : evalAll (eval S D k) node.deps with
        | error e0 =>
          rw [hargs] at h
          cases h
          obtain ⟨e', he', hEe⟩ := evalAll_rel_err (E := E) hok (fun d _ e1 he1 => ih d e1 he1) hargs
          exact ⟨e', by rw [he']; rfl, hEe⟩
        | ok args =>
          rw [hargs] at h
          obtain ⟨args', hargs', hRel⟩ := evalAll_rel_ok (R := R) hok hargs
          rw [hargs']
          exact hopsE n node hS args args' hRel e h

/-! ### reforms (C06) -/

/-- the bindings of `x` in two systems are both absent, or have the same dependencies and
extensionally equal operations -/
def SameBinding (a b : Option (Node α)) : Prop :=
  match a, b with
  | none, none => True
  | some nd, some nd' => nd.deps = nd'.deps ∧ ∀ args, nd.op args = nd'.op args
  | _, _ => False

/-- replace every binding of `n` by `node'` -/
def replaceNode (S : Sys α) (n : Name) (node' : Node α) : Sys α :=
  S.map fun (k, nd) => if k = n then (k, node') else (k, nd)

theorem find?_replaceNode (S : Sys α) (n : Name) (node' : Node α) (x : Name) :
    find? (replaceNode S n node') x =
      if x = n then (find? S n).map (fun _ => node') else find? S x := by
  induction S with
  | nil => simp [replaceNode]
  | cons hd tl ih =>
    obtain ⟨k, nd⟩ := hd
    unfold replaceNode at ih ⊢
    simp only [List.map_cons]
    by_cases hk : k = n
    · subst hk
      by_cases hx : x = k
      · subst hx; simp [find?_cons]
      · have : ¬ k = x := fun h => hx h.symm
        simp only [if_true, find?_cons, this, if_false, ih, hx]
    · simp only [hk, if_false, find?_cons]
      by_cases hx : k = x
      · subst hx; simp [hk]
      · simp only [hx, if_false, ih]

end GV.Dag
