import GettsimVerif.Lemmas.SimMisc
import GettsimVerif.Lemmas.SimAlone
import GettsimVerif.Lemmas.SimRows
import GettsimVerif.Props.C01Sim
/-
Helper lemmas for property C01 END TO END on the concrete model `Core/Simulate.lean`
(`Props/C01E2E.lean`): permuting the rows of the raw input table permutes the rows of the result
table of `simulate` identically. All helper names are prefixed `pe_`.

Stages: `typedData` / `checkData` / `convertData` (→ `pe_prepare_perm`), `plan`
(→ `pe_plan_perm`), `exec` (→ `pe_exec_perm`), `run`.
-/
namespace GV.Simulate
open GV.VecDtype (R DT numOf)
open GV.Lang (Val FunDef)

/-! ## definitions on the raw tables -/

/-- gather the rows of a raw data column by the index list `σ` (`col[σ]` in numpy) -/
def permColumn (σ : List Nat) (c : Column) : Column := σ.map fun i => c.getD i default

/-- all columns of a raw table (input data or result) gathered by `σ` -/
def permTable (σ : List Nat) (tbl : Table) : Table := tbl.map fun p => (p.1, permColumn σ p.2)

/-- the input with the rows of the data table gathered by `σ` -/
def permInput (σ : List Nat) (inp : Input) : Input := { inp with data := permTable σ inp.data }

theorem pe_permColumn_eq (σ : List Nat) (c : Column) : permColumn σ c = permList σ c := rfl

theorem pe_permTable_names (σ : List Nat) (tbl : Table) :
    (permTable σ tbl).map (·.1) = tbl.map (·.1) := by
  simp [permTable, List.map_map, Function.comp_def]

theorem pe_permData_names (σ : List Nat) (D : List (String × Col)) :
    (permData σ D).map (·.1) = D.map (·.1) := by
  simp [permData, List.map_map, Function.comp_def]

/-! ## generalities on `permList` -/

theorem pe_option_mapM_iff {A B : Type} (f : A → Option B) (l : List A) (out : List B) :
    l.mapM f = some out ↔ List.Forall₂ (fun a b => f a = some b) l out := by
  induction l generalizing out with
  | nil => simp [pure, eq_comm]
  | cons a l ih =>
    rw [List.mapM_cons, List.forall₂_cons_left_iff]
    cases ha : f a with
    | none => simp [bind, Option.bind]
    | some b =>
      cases hl : l.mapM f with
      | none =>
        simp only [bind, Option.bind, reduceCtorEq, false_iff, not_exists, not_and]
        intro b' u hb hu
        rw [← ih, hl] at hu
        cases hu
      | some bs =>
        simp only [bind, Option.bind, pure, Option.some.injEq]
        constructor
        · rintro rfl
          exact ⟨b, bs, rfl, (ih bs).1 hl, rfl⟩
        · rintro ⟨b', u, hb, hu, rfl⟩
          rw [← ih, hl] at hu
          cases hb; cases hu; rfl

theorem pe_option_mapM_permList {A B : Type} [Inhabited A] [Inhabited B] (f : A → Option B)
    (l : List A) (out : List B) (h : l.mapM f = some out) (σ : List Nat)
    (hσ : ∀ i ∈ σ, i < l.length) : (permList σ l).mapM f = some (permList σ out) := by
  have hlen : out.length = l.length := option_mapM_length f l out h
  rw [pe_option_mapM_iff] at h ⊢
  rw [List.forall₂_iff_get] at h
  simp only [permList, List.forall₂_map_left_iff, List.forall₂_map_right_iff, List.forall₂_same]
  intro i hi
  have hi' := hσ i hi
  rw [getD_of_lt l i hi', getD_of_lt out i (hlen ▸ hi')]
  exact h.2 i hi' (hlen ▸ hi')

theorem pe_all_permList {A : Type} [Inhabited A] {n : Nat} {σ : List Nat}
    (hσ : σ.Perm (List.range n)) (l : List A) (hl : l.length = n) (p : A → Bool) :
    (permList σ l).all p = l.all p :=
  (permList_perm σ l (hl ▸ hσ)).all_eq

theorem pe_mem_permList {A : Type} [Inhabited A] {n : Nat} {σ : List Nat}
    (hσ : σ.Perm (List.range n)) (l : List A) (hl : l.length = n) (x : A) :
    x ∈ permList σ l ↔ x ∈ l :=
  (permList_perm σ l (hl ▸ hσ)).mem_iff

theorem pe_zip_permList_mem {A B : Type} [Inhabited A] [Inhabited B] {n : Nat} {σ : List Nat}
    (hv : ∀ i ∈ σ, i < n) (a : List A) (b : List B) (ha : a.length = n) (hb : b.length = n)
    (p : A × B) (hp : p ∈ (permList σ a).zip (permList σ b)) : p ∈ a.zip b := by
  rw [List.zip_eq_zipWith, ← permList_zipWith Prod.mk σ a b (ha ▸ hv) (hb ▸ hv)] at hp
  rw [List.zip_eq_zipWith]
  refine permList_mem σ _ ?_ p hp
  simpa [ha, hb] using hv

/-! ## `typedData` -/

theorem pe_permute_mk (σ : List Nat) (dt : DT) (vals : List R) :
    Col.permute σ { dt := dt, vals := vals } = { dt := dt, vals := permList σ vals } := by
  simp [Col.permute, Col.scalar]

theorem pe_colOfData_perm {n : Nat} {σ : List Nat} (hσ : σ.Perm (List.range n)) {c : Column}
    {col : Col} (hc : c.length = n) (h : colOfData c = .ok col) :
    colOfData (permColumn σ c) = .ok (col.permute σ) := by
  unfold colOfData at h ⊢
  cases hm : c.mapM valToR with
  | none => rw [hm] at h; cases h
  | some rs =>
    have hl : rs.length = n := (option_mapM_length _ _ _ hm).trans hc
    have hm' : (permColumn σ c).mapM valToR = some (permList σ rs) :=
      pe_option_mapM_permList valToR c rs hm σ (hc ▸ perm_valid hσ)
    rw [hm] at h
    rw [hm']
    simp only at h ⊢
    rw [pe_all_permList hσ rs hl, pe_all_permList hσ rs hl, pe_all_permList hσ rs hl,
      (permList_perm σ rs (hl ▸ hσ)).isEmpty_eq]
    split at h
    · rename_i h1
      cases h; rw [pe_permute_mk, if_pos h1]
    · rename_i h1
      split at h
      · rename_i h2
        cases h; rw [pe_permute_mk, if_neg h1, if_pos h2]
      · rename_i h2
        split at h
        · rename_i h3
          cases h
          rw [pe_permute_mk, permList_map σ rs _ (hl ▸ perm_valid hσ), if_neg h1, if_neg h2, if_pos h3]
        · cases h

/-- the typed table of the permuted raw table is the permuted typed table -/
theorem pe_typedData_perm {n : Nat} {σ : List Nat} (hσ : σ.Perm (List.range n))
    {data : List (String × Column)} {typed : List (String × Col)}
    (hrows : ∀ c ∈ data, c.2.length = n) (h : typedData data = .ok typed) :
    typedData (permTable σ data) = .ok (permData σ typed) := by
  unfold typedData at h ⊢
  rw [Dag.mapM_ok_iff] at h ⊢
  simp only [permTable, permData, List.forall₂_map_left_iff, List.forall₂_map_right_iff]
  induction h with
  | nil => exact .nil
  | @cons a b l l' hab _ ih =>
    refine .cons ?_ (ih fun c hc => hrows c (List.mem_cons_of_mem _ hc))
    obtain ⟨col, hcol, hb⟩ := bind_ok hab
    simp only [pure, Except.pure, Except.ok.injEq] at hb
    subst hb
    simp only [pe_colOfData_perm hσ (hrows a List.mem_cons_self) hcol]
    rfl

/-- every column is a 1-d array with `n` rows -/
def pe_ArrN (n : Nat) (D : List (String × Col)) : Prop :=
  ∀ e ∈ D, e.2.scalar = false ∧ e.2.vals.length = n

theorem pe_typedData_arrN {n : Nat} {data : List (String × Column)} {typed : List (String × Col)}
    (hrows : ∀ c ∈ data, c.2.length = n) (h : typedData data = .ok typed) : pe_ArrN n typed := by
  intro e he
  unfold typedData at h
  obtain ⟨⟨an, ac⟩, ha, hae⟩ := mapM_mem_out h e he
  obtain ⟨col, hcol, hae⟩ := bind_ok hae
  simp only [pure, Except.pure, Except.ok.injEq] at hae
  subst hae
  obtain ⟨h1, h2⟩ := colOfData_length hcol
  exact ⟨by simp [Col.scalar, h2], h1.trans (hrows _ ha)⟩

theorem pe_arrN_colsOK {n : Nat} {D : List (String × Col)} (h : pe_ArrN n D) :
    ColsOK n (D.map (·.2)) := by
  intro c hc _
  obtain ⟨e, he, rfl⟩ := List.mem_map.1 hc
  exact (h e he).2

theorem pe_arrN_permData {n : Nat} {σ : List Nat} (hn : σ.length = n) {D : List (String × Col)}
    (h : pe_ArrN n D) : pe_ArrN n (permData σ D) := by
  intro e he
  obtain ⟨e0, he0, rfl⟩ := List.mem_map.1 he
  obtain ⟨h1, h2⟩ := h e0 he0
  refine ⟨by simpa using h1, ?_⟩
  rw [Col.vals_permute_of_arr h1, permList_length, hn]

/-! ## `checkData` -/

theorem pe_find?_permData_some {σ : List Nat} {D : List (String × Col)} {k : String} {c : Col}
    (h : find? D k = some c) : find? (permData σ D) k = some (c.permute σ) := by
  unfold find? at *
  rw [find?_permData, h]; rfl

theorem pe_find?_permData_inv {σ : List Nat} {D : List (String × Col)} {k : String} {c' : Col}
    (h : find? (permData σ D) k = some c') : ∃ c, find? D k = some c ∧ c' = c.permute σ := by
  unfold find? at *
  rw [find?_permData] at h
  cases hc : Dag.find? D k with
  | none => rw [hc] at h; cases h
  | some c => rw [hc] at h; cases h; exact ⟨c, rfl, rfl⟩

theorem pe_arrN_find {n : Nat} {D : List (String × Col)} {k : String} {c : Col} (hD : pe_ArrN n D)
    (h : find? D k = some c) : c.scalar = false ∧ c.vals.length = n :=
  hD (k, c) (Dag.find?_mem D k c h)

theorem pe_constWithin_perm {n : Nat} {σ : List Nat} (hv : ∀ i ∈ σ, i < n) (a b : List Rat)
    (ha : a.length = n) (hb : b.length = n) (h : mi_ConstWithin a b) :
    mi_ConstWithin (permList σ a) (permList σ b) := by
  intro p hp q hq hpq
  exact h p (pe_zip_permList_mem hv a b ha hb p hp) q (pe_zip_permList_mem hv a b ha hb q hq) hpq

/-- all checks of `_process_and_check_data` are invariant under a common permutation of the rows -/
theorem pe_checkB_perm {n : Nat} {σ : List Nat} (hσ : σ.Perm (List.range n))
    {D : List (String × Col)} (hD : pe_ArrN n D) (h : mi_checkB D = true) :
    mi_checkB (permData σ D) = true := by
  rw [mi_checkB_iff] at h ⊢
  obtain ⟨hnd, ⟨pid, hpid, hpnd, hfk⟩, hgrp⟩ := h
  have hv := perm_valid hσ
  obtain ⟨hps, hpl⟩ := pe_arrN_find hD hpid
  have hprats : (pid.permute σ).rats = permList σ pid.rats := Col.rats_permute hv hps hpl
  have hprl : pid.rats.length = n := by rw [Col.rats_length, hpl]
  refine ⟨by rw [pe_permData_names]; exact hnd,
    ⟨pid.permute σ, pe_find?_permData_some hpid, ?_, ?_⟩, ?_⟩
  · rw [hprats]; exact (permList_perm σ _ (hprl ▸ hσ)).nodup_iff.2 hpnd
  · intro fk hfkm c' hc'
    obtain ⟨c, hc, rfl⟩ := pe_find?_permData_inv hc'
    obtain ⟨hcs, hcl⟩ := pe_arrN_find hD hc
    obtain ⟨h1, h2⟩ := hfk fk hfkm c hc
    have hcrl : c.rats.length = n := by rw [Col.rats_length, hcl]
    rw [Col.rats_permute hv hcs hcl, hprats]
    refine ⟨fun k hk => ?_, fun p hp => ?_⟩
    · rw [pe_mem_permList hσ _ hcrl] at hk
      rw [pe_mem_permList hσ _ hprl]
      exact h1 k hk
    · exact h2 p (pe_zip_permList_mem hv _ _ hcrl hprl p hp)
  · intro g hg idc' hidc' nm c' hc' he
    obtain ⟨idc, hidc, rfl⟩ := pe_find?_permData_inv hidc'
    obtain ⟨e0, he0, heq⟩ := List.mem_map.1 hc'
    simp only [Prod.mk.injEq] at heq
    obtain ⟨rfl, rfl⟩ := heq
    obtain ⟨his, hil⟩ := pe_arrN_find hD hidc
    obtain ⟨hcs, hcl⟩ := hD e0 he0
    rw [Col.rats_permute hv his hil, Col.rats_permute hv hcs hcl]
    exact pe_constWithin_perm hv _ _ (by rw [Col.rats_length, hil]) (by rw [Col.rats_length, hcl])
      (hgrp g hg idc hidc e0.1 e0.2 he0 he)

theorem pe_checkData_perm {n : Nat} {σ : List Nat} (hσ : σ.Perm (List.range n))
    {D : List (String × Col)} (hD : pe_ArrN n D) (h : checkData D = .ok ()) :
    checkData (permData σ D) = .ok () := by
  rw [mi_checkData_ok_iff] at h ⊢
  exact pe_checkB_perm hσ hD h

/-! ## `convertData` -/

theorem pe_castTo_permute {n : Nat} {σ : List Nat} (hv : ∀ i ∈ σ, i < n) {c : Col}
    (hs : c.scalar = false) (hl : c.vals.length = n) (t : DT) :
    (c.permute σ).castTo t = (c.castTo t).permute σ := by
  have hs' : (c.castTo t).scalar = false := hs
  rw [Col.permute_of_arr hs, Col.permute_of_arr hs']
  simp only [Col.castTo]
  rw [permList_map σ c.vals _ (hl ▸ hv)]

theorem pe_convertCol_perm {n : Nat} {σ : List Nat} (hσ : σ.Perm (List.range n)) {t : Ty}
    {c c' : Col} (hs : c.scalar = false) (hl : c.vals.length = n) (h : convertCol t c = .ok c') :
    convertCol t (c.permute σ) = .ok (c'.permute σ) := by
  have hv := perm_valid hσ
  have key : ∀ p : Rat → Bool, (c.permute σ).rats.all p = c.rats.all p := fun p => by
    rw [Col.rats_permute hv hs hl]
    exact pe_all_permList hσ _ (by rw [Col.rats_length, hl]) p
  unfold convertCol at h ⊢
  rw [Col.dt_permute]
  by_cases hdt : c.dt = t.toDT
  · rw [if_pos hdt] at h ⊢
    cases h; rfl
  · rw [if_neg hdt] at h ⊢
    simp only [key, pe_castTo_permute hv hs hl]
    cases t <;> cases hc : c.dt <;> simp only [hc] at h ⊢
    all_goals first
      | (cases h; done)
      | (cases h; rfl)
      | (split at h
         · rename_i hall
           cases h; rw [if_pos hall]
         · cases h)

theorem pe_convEntry_perm {n : Nat} {σ : List Nat} (hσ : σ.Perm (List.range n)) (ov : List Fn)
    {e e' : String × Col} (hs : e.2.scalar = false) (hl : e.2.vals.length = n)
    (h : mi_ConvEntry ov e e') :
    mi_ConvEntry ov (e.1, e.2.permute σ) (e'.1, e'.2.permute σ) := by
  obtain ⟨h1, h2⟩ := h
  refine ⟨h1, ?_⟩
  simp only
  cases ht : mi_convType ov e.1 with
  | none => rw [ht] at h2; simp only at h2 ⊢; rw [h2]
  | some t => rw [ht] at h2; simp only at h2 ⊢; exact pe_convertCol_perm hσ hs hl h2

theorem pe_convertData_perm {n : Nat} {σ : List Nat} (hσ : σ.Perm (List.range n)) (ov : List Fn)
    {D out : List (String × Col)} (hD : pe_ArrN n D) (h : convertData D ov = .ok out) :
    convertData (permData σ D) ov = .ok (permData σ out) := by
  rw [mi_convertData_iff] at h ⊢
  simp only [permData, List.forall₂_map_left_iff, List.forall₂_map_right_iff]
  induction h with
  | nil => exact .nil
  | @cons a b l l' hab _ ih =>
    exact .cons (pe_convEntry_perm hσ ov (hD a List.mem_cons_self).1 (hD a List.mem_cons_self).2 hab)
      (ih fun e he => hD e (List.mem_cons_of_mem _ he))

theorem pe_convertData_arrN {n : Nat} {ov : List Fn} {D out : List (String × Col)}
    (hD : pe_ArrN n D) (h : convertData D ov = .ok out) : pe_ArrN n out := by
  intro e he
  unfold convertData at h
  obtain ⟨⟨an, ac⟩, ha, hae⟩ := mapM_mem_out h e he
  obtain ⟨hs, hl⟩ := hD _ ha
  simp only at hae
  split at hae
  · simp only [Except.ok.injEq] at hae
    subst hae
    exact ⟨hs, hl⟩
  · obtain ⟨col, hcol, hae⟩ := bind_ok hae
    simp only [pure, Except.pure, Except.ok.injEq] at hae
    subst hae
    obtain ⟨h1, h2⟩ := convertCol_length hcol
    refine ⟨?_, h1.trans hl⟩
    simp only [Col.scalar, h2] at hs ⊢
    exact hs

/-! ## `prepare` -/

/-- (1) The preparation of the permuted input succeeds like the original one, with the same
function set and column names; the converted data are permuted column-wise. -/
theorem pe_prepare_perm {n : Nat} {σ : List Nat} (hσ : σ.Perm (List.range n))
    {ruleFns : List Fn} {gs : List (String × GroupSpec)} {ps : List (String × PidSpec)}
    {data : List (String × Column)} {targets : List String} {pr : Prep}
    (hrows : ∀ c ∈ data, c.2.length = n) (h : prepare ruleFns gs ps data targets = .ok pr) :
    prepare ruleFns gs ps (permTable σ data) targets =
      .ok { pr with data := permData σ pr.data } := by
  obtain ⟨raw, all, h1, h2, h3, h4, h5, h6, h7, h8⟩ := prepare_ok' h
  have hraw := pe_typedData_arrN hrows h1
  have hnames := pe_permData_names σ raw
  rw [prepare_intro (raw := permData σ raw) (conv := permData σ pr.data) (all := all)
    (pe_typedData_perm hσ hrows h1) (pe_checkData_perm hσ hraw h2) (by rw [hnames]; exact h3) h4
    (by rw [hnames]; exact pe_convertData_perm hσ _ hraw h5) (by rw [hnames, ← h6]; exact h8)]
  rw [hnames, ← h6, ← h7]

theorem pe_prepare_arrN {n : Nat} {ruleFns : List Fn} {gs : List (String × GroupSpec)}
    {ps : List (String × PidSpec)} {data : List (String × Column)} {targets : List String} {pr : Prep}
    (hrows : ∀ c ∈ data, c.2.length = n) (h : prepare ruleFns gs ps data targets = .ok pr) :
    pe_ArrN n pr.data := by
  obtain ⟨raw, all, h1, _, _, _, h5, _, _, _⟩ := prepare_ok' h
  exact pe_convertData_arrN (pe_typedData_arrN hrows h1) h5

/-! ## `plan` -/

theorem pe_planWith_data {params : List (String × Val)} {targets : List String} {pr : Prep}
    {specs : List (String × RSpec)} {p : Plan} (D' : List (String × Col))
    (hn : (D'.head?.map (·.2.vals.length)).getD 0 = (pr.data.head?.map (·.2.vals.length)).getD 0)
    (h : planWith params targets pr specs = .ok p) :
    planWith params targets { pr with data := D' } specs = .ok { p with data := D' } := by
  unfold planWith at h ⊢
  simp only at h ⊢
  split at h
  · cases h
  · rename_i hc
    cases h
    rw [hn]
    exact if_neg hc

/-- `plan` looks at the data only through the column names and the number of rows -/
theorem pe_plan_data {params : List (String × Val)} {targets : List String} {pr : Prep} {p : Plan}
    (D' : List (String × Col))
    (hn : (D'.head?.map (·.2.vals.length)).getD 0 = (pr.data.head?.map (·.2.vals.length)).getD 0)
    (h : plan params targets pr = .ok p) :
    plan params targets { pr with data := D' } = .ok { p with data := D' } := by
  obtain ⟨hcyc, specs, hs, hp⟩ := rnd_plan_ok h
  rw [plan_eq]
  have h1 : planCyclic targets { pr with data := D' } = false := hcyc
  have h2 : rnd_specsOf params (rnd_necessaryFns targets { pr with data := D' }) = .ok specs := hs
  rw [h1, h2]
  exact pe_planWith_data D' hn hp

theorem pe_nRows_permData {n : Nat} {σ : List Nat} (hn : σ.length = n) {D : List (String × Col)}
    (hD : pe_ArrN n D) :
    ((permData σ D).head?.map (·.2.vals.length)).getD 0 = (D.head?.map (·.2.vals.length)).getD 0 := by
  cases D with
  | nil => rfl
  | cons e rest =>
    obtain ⟨h1, h2⟩ := hD e List.mem_cons_self
    simp only [permData, List.map_cons, List.head?_cons, Option.map_some, Option.getD_some]
    rw [Col.vals_permute_of_arr h1, permList_length, hn, h2]

theorem pe_nRows_eq {n : Nat} {D : List (String × Col)} (hD : pe_ArrN n D) (hne : D ≠ []) :
    (D.head?.map (·.2.vals.length)).getD 0 = n := by
  cases D with
  | nil => exact absurd rfl hne
  | cons e rest => exact (hD e List.mem_cons_self).2

/-- (2) the plan of the permuted preparation is the original plan with permuted data -/
theorem pe_plan_perm {n : Nat} {σ : List Nat} (hn : σ.length = n) {params : List (String × Val)}
    {targets : List String} {pr : Prep} {p : Plan} (hD : pe_ArrN n pr.data)
    (h : plan params targets pr = .ok p) :
    plan params targets { pr with data := permData σ pr.data } =
      .ok { p with data := permData σ pr.data } :=
  pe_plan_data _ (pe_nRows_permData hn hD) h

theorem pe_plan_data_eq {params : List (String × Val)} {targets : List String} {pr : Prep} {p : Plan}
    (h : plan params targets pr = .ok p) :
    p.data = pr.data ∧ p.nRows = (pr.data.head?.map (·.2.vals.length)).getD 0 := by
  obtain ⟨_, specs, _, hp⟩ := rnd_plan_ok h
  unfold planWith at hp
  simp only at hp
  split at hp
  · cases hp
  · cases hp; exact ⟨rfl, rfl⟩

/-! ## `exec` -/

theorem pe_render_perm {n : Nat} {σ : List Nat} (hσ : σ.Perm (List.range n)) {v : Col}
    (hv : ColOK n v) : render n (v.permute σ) = permColumn σ (render n v) := by
  unfold render
  rw [Col.scalar_permute]
  cases hs : v.scalar with
  | true =>
    rw [Col.permute_of_scalar hs]
    simp only [if_true, permColumn]
    rw [List.map_congr_left (g := fun _ => rToVal (v.at 0))]
    · rw [List.map_const', perm_length hσ]
    · intro i hi
      have := perm_valid hσ i hi
      simp [List.getD_eq_getElem?_getD, this]
  | false =>
    simp only [Bool.false_eq_true, if_false]
    rw [Col.vals_permute_of_arr hs, pe_permColumn_eq,
      permList_map σ v.vals rToVal (by rw [hv hs]; exact perm_valid hσ)]

/-- (3) the execution of a plan all of whose nodes are admissible, on permuted data -/
theorem pe_exec_perm {n : Nat} {σ : List Nat} (hσ : σ.Perm (List.range n))
    {params : List (String × Val)} {specs : List (String × RSpec)} {fns : List Fn} {p : Plan}
    {targets : List String} {tbl : Table}
    (hsys : ∀ e ∈ p.sys, e ∈ sysOf params specs fns)
    (hfns : ∀ f ∈ fns, f.kind.permOK = true ∧ (f.kind.isPidSum = true →
      ∀ d, (freeArgs params f)[2]? = some d → ∃ c, Dag.find? p.data d = some c ∧ c.ints.Nodup))
    (hD : ColsOK n (p.data.map (·.2))) (hn : p.nRows = n) (h : exec p targets = .ok tbl) :
    exec { p with data := permData σ p.data } targets = .ok (permTable σ tbl) := by
  unfold exec at h ⊢
  simp only at h ⊢
  rw [prune_permData]
  generalize hS : Dag.prune p.sys p.data (p.sys.length + 1) targets = S at h ⊢
  have good : ∀ x node, Dag.find? S x = some node → GoodNodeData params specs p.data node :=
    subsys_goodNodeData params specs fns p.data S
      (fun e he => hsys e (by rw [← hS] at he; exact prune_sub _ _ _ _ e he)) hfns
  have ev : ∀ t v, Dag.eval S p.data (p.sys.length + 1) t = .ok v →
      Dag.eval S (permData σ p.data) (p.sys.length + 1) t = .ok (v.permute σ) ∧ ColOK n v :=
    fun t v hv => ⟨sys_eval_perm_pid_data hσ params specs S p.data good hD _ t v hv,
      sys_eval_rows params specs S p.data (fun x node hx => (good x node hx).good S) hD _ t v hv⟩
  cases hm : p.order.mapM (fun n => Dag.eval S p.data (p.sys.length + 1) n) with
  | error e => rw [hm] at h; cases h
  | ok vs =>
    rw [hm] at h
    have hm' : p.order.mapM (fun n => Dag.eval S (permData σ p.data) (p.sys.length + 1) n) =
        .ok (vs.map (Col.permute σ)) := by
      rw [Dag.mapM_ok_iff] at hm ⊢
      rw [List.forall₂_map_right_iff]
      exact hm.imp fun t v hv => (ev t v hv).1
    rw [hm']
    simp only at h ⊢
    rw [Dag.mapM_ok_iff] at h ⊢
    simp only [permTable, List.forall₂_map_right_iff]
    refine h.imp fun t e he => ?_
    obtain ⟨v, hv, he⟩ := bind_ok he
    simp only [pure, Except.pure, Except.ok.injEq] at he
    subst he
    rw [(ev t v hv).1]
    simp only [bind, Except.bind, pure, Except.pure, hn]
    rw [pe_render_perm hσ (ev t v hv).2]

/-! ## the third argument of every `sum_by_p_id` node is the data column `p_id` -/

theorem pe_filter3 {p : String → Bool} {a b c d : String}
    (h : ([a, b, c].filter p)[2]? = some d) : d = c := by
  cases ha : p a <;> cases hb : p b <;> cases hc : p c <;>
    simp [List.filter, ha, hb, hc] at h
  exact h.symm

/-- the signature `rename_arguments` gives to a `sum_by_p_id` wrapper -/
def pe_PidArgs (f : Fn) : Prop := f.kind.isPidSum = true → ∃ a b, f.args = [a, b, "p_id"]

theorem pe_pidFns_args {rules : List Fn} {dataCols : List String} {specs : List (String × PidSpec)}
    {fs : List Fn} (h : pidFns rules dataCols specs = .ok fs) : ∀ f ∈ fs, pe_PidArgs f := by
  unfold pidFns at h
  obtain ⟨l, hl, h⟩ := bind_ok h
  cases h
  intro f hf
  rcases rnd_mem_merge hf with hf | hf
  · cases hf
  · obtain ⟨⟨n, s⟩, _, hg⟩ := filterMapM_ok_mem _ _ _ hl f hf
    simp only at hg
    split at hg
    · split at hg
      · cases hg
      · cases hg
        exact fun _ => ⟨_, _, rfl⟩
    · cases hg

theorem pe_groupAggFn_args {fns : List Fn} {name : String} {s : GroupSpec} {f : Fn}
    (h : groupAggFn fns name s = .ok f) : pe_PidArgs f := by
  unfold groupAggFn at h
  split at h
  · cases h
  · split at h
    · cases h; intro hk; cases hk
    · split at h
      · cases h
      · cases h; intro hk; cases hk
    · cases h

theorem pe_groupAggFns_args {fns : List Fn} {targets dataCols : List String}
    {us : List (String × GroupSpec)} {fs : List Fn}
    (h : groupAggFns fns targets dataCols us = .ok fs) : ∀ f ∈ fs, pe_PidArgs f := by
  unfold groupAggFns at h
  simp only at h
  split at h
  · cases h
  · intro f hf
    obtain ⟨⟨n, s⟩, _, hg⟩ := mapM_ok_mem _ _ _ h f hf
    exact pe_groupAggFn_args hg

theorem pe_buildFunctions_args {ruleFns : List Fn} {gs : List (String × GroupSpec)}
    {ps : List (String × PidSpec)} {targets dataCols : List String} {all : List Fn}
    (hr : ∀ f ∈ ruleFns, Fn.isRule f)
    (h : buildFunctions ruleFns gs ps targets dataCols = .ok all) : ∀ f ∈ all, pe_PidArgs f := by
  unfold buildFunctions at h
  obtain ⟨pid, hpid, h⟩ := bind_ok h
  obtain ⟨grp, hgrp, h⟩ := bind_ok h
  cases h
  intro f hf
  rcases rnd_mem_merge hf with hf | hf
  · rcases rnd_mem_merge hf with hf | hf
    · rcases rnd_mem_merge hf with hf | hf
      · rcases rnd_mem_merge hf with hf | hf
        · exact pe_pidFns_args hpid f hf
        · unfold timeConvFns at hf
          obtain ⟨d, _, rfl⟩ := List.mem_map.mp hf
          intro hk; cases hk
      · rcases rnd_mem_merge hf with hf | hf
        · cases hf
        · obtain ⟨fn, ret, key, hk⟩ := hr f hf
          intro hp; rw [hk] at hp; cases hp
    · exact pe_groupAggFns_args hgrp f hf
  · simp only [groupingFns, List.mem_cons, List.not_mem_nil, or_false] at hf
    rcases hf with rfl | rfl | rfl | rfl | rfl | rfl <;> (intro hk; cases hk)

theorem pe_prepare_args {rules : List Rule} {rounding : Bool} {gs : List (String × GroupSpec)}
    {ps : List (String × PidSpec)} {data : List (String × Column)} {targets : List String} {pr : Prep}
    (h : prepare (rules.map (ruleFn rounding)) gs ps data targets = .ok pr) :
    ∀ f ∈ pr.fns, pe_PidArgs f := by
  obtain ⟨raw, all, _, hall, _, hfns, _⟩ := prepare_ok h
  intro f hf
  rw [hfns] at hf
  refine pe_buildFunctions_args ?_ hall f (List.mem_filter.1 hf).1
  intro g hg
  obtain ⟨r, _, rfl⟩ := List.mem_map.1 hg
  exact ⟨_, _, _, rfl⟩

/-! ## the converted `p_id` column has no duplicates -/

theorem pe_convEntry_find {ov : List Fn} {D out : List (String × Col)} {k : String} {c : Col}
    (h : List.Forall₂ (mi_ConvEntry ov) D out) (hf : find? D k = some c) :
    ∃ c', find? out k = some c' ∧ mi_ConvEntry ov (k, c) (k, c') := by
  unfold find? at *
  induction h with
  | nil => cases hf
  | @cons a b l l' hab _ ih =>
    obtain ⟨ka, ca⟩ := a
    obtain ⟨kb, cb⟩ := b
    have hk : kb = ka := hab.1
    subst hk
    rw [Dag.find?_cons] at hf ⊢
    by_cases hkk : kb = k
    · rw [if_pos hkk] at hf ⊢
      cases hf
      subst hkk
      exact ⟨cb, rfl, hab⟩
    · rw [if_neg hkk] at hf ⊢
      exact ih hf

theorem pe_convertCol_wellTyped {t : Ty} {c c' : Col} (hw : mi_WellTyped c)
    (h : convertCol t c = .ok c') : mi_WellTyped c' := by
  have hcast : ∀ d, mi_WellTyped (c.castTo d) := fun d r hr => by
    obtain ⟨r0, _, rfl⟩ := List.mem_map.1 hr
    exact mi_dtypeOf_cast _ _
  unfold convertCol at h
  repeat' split at h
  all_goals first | (cases h; done) | (cases h; first | exact hw | exact hcast _)

theorem pe_ints_nodup {c : Col} (hw : mi_WellTyped c) (hdt : c.dt = .int) (hnd : c.rats.Nodup) :
    c.ints.Nodup := by
  have hi : c.ints = c.rats.map ratToInt := by simp [Col.ints, Col.rats, List.map_map, Function.comp_def]
  rw [hi]
  have hint : ∀ x ∈ c.rats, x = ((ratToInt x : Int) : Rat) := by
    intro x hx
    obtain ⟨r, hr, rfl⟩ := List.mem_map.1 hx
    have := hw r hr
    rw [hdt] at this
    cases r with
    | i k => simp [numOf, ratToInt, Rat.floor_intCast]
    | b v => cases this
    | f q => cases this
  refine List.Nodup.map_on (fun x hx y hy hxy => ?_) hnd
  rw [hint x hx, hint y hy, hxy]

theorem pe_prepare_pid {ruleFns : List Fn} {gs : List (String × GroupSpec)}
    {ps : List (String × PidSpec)} {data : List (String × Column)} {targets : List String} {pr : Prep}
    (h : prepare ruleFns gs ps data targets = .ok pr) :
    ∃ c, Dag.find? pr.data "p_id" = some c ∧ c.ints.Nodup := by
  obtain ⟨raw, all, h1, h2, _, _, h5, _, _, _⟩ := prepare_ok' h
  rw [mi_checkData_ok_iff, mi_checkB_iff] at h2
  obtain ⟨_, ⟨pid, hpid, hpnd, _⟩, _⟩ := h2
  rw [mi_convertData_iff] at h5
  obtain ⟨c', hc', _, hconv⟩ := pe_convEntry_find h5 hpid
  have ht : mi_convType (all.filter fun f => (raw.map (·.1)).contains f.name) "p_id" = some .int := by
    unfold mi_convType
    have : find? typesInputVariables "p_id" = some Ty.int := by decide
    rw [this]
  simp only [ht] at hconv
  have hwp : mi_WellTyped pid := mi_typedData_wellTyped h1 _ (Dag.find?_mem raw "p_id" pid hpid)
  obtain ⟨hlen, hnum, hdt⟩ := mi_convertCol_lossless (fun hb r hr => (hwp r hr).trans hb) hconv
  refine ⟨c', hc', pe_ints_nodup (pe_convertCol_wellTyped hwp hconv) hdt ?_⟩
  have : c'.rats = pid.rats := by
    apply List.ext_getElem?
    intro i
    simp only [Col.rats, List.getElem?_map]
    exact hnum i
  rw [this]
  exact hpnd

/-! ## the whole computation -/

/-- after a successful preparation and planning of an input all of whose needed functions are
admissible, the hypotheses of `pe_exec_perm` hold -/
theorem pe_exec_hyps {n : Nat} {rules : List Rule}
    {rounding : Bool} {params : List (String × Val)} {gs : List (String × GroupSpec)}
    {ps : List (String × PidSpec)} {data : List (String × Column)} {targets : List String}
    {pr : Prep} {p : Plan} (hrows : ∀ c ∈ data, c.2.length = n)
    (hpr : prepare (rules.map (ruleFn rounding)) gs ps data targets = .ok pr)
    (hneeded : ∀ f ∈ rnd_necessaryFns targets pr, f.kind.permOK = true)
    (hp : plan params targets pr = .ok p) :
    ∃ specs, (∀ e ∈ p.sys, e ∈ sysOf params specs (rnd_necessaryFns targets pr)) ∧
      (∀ f ∈ rnd_necessaryFns targets pr, f.kind.permOK = true ∧ (f.kind.isPidSum = true →
        ∀ d, (freeArgs params f)[2]? = some d → ∃ c, Dag.find? p.data d = some c ∧ c.ints.Nodup)) ∧
      ColsOK n (p.data.map (·.2)) ∧ p.nRows = n := by
  have hD := pe_prepare_arrN hrows hpr
  obtain ⟨hpd, hpn⟩ := pe_plan_data_eq hp
  obtain ⟨_, specs, _, hpw⟩ := rnd_plan_ok hp
  obtain ⟨cpid, hcpid, hcnd⟩ := pe_prepare_pid hpr
  have hne : pr.data ≠ [] := by
    intro hnil; rw [hnil] at hcpid; cases hcpid
  refine ⟨specs, fun e he => ?_, fun f hf => ⟨hneeded f hf, fun hk d hd => ?_⟩, ?_, ?_⟩
  · obtain ⟨f, hf, rfl⟩ := planWith_sys hpw e he
    exact List.mem_map.2 ⟨f, hf, rfl⟩
  · obtain ⟨a, b, hab⟩ := pe_prepare_args hpr f (mem_necessaryFns hf) hk
    unfold freeArgs at hd
    rw [hab] at hd
    rw [pe_filter3 hd, hpd]
    exact ⟨cpid, hcpid, hcnd⟩
  · rw [hpd]; exact pe_arrN_colsOK hD
  · rw [hpn]; exact pe_nRows_eq hD hne

/-- (4) `run` on the permuted table: if every function `dags.create_dag` keeps is of an
admissible kind (`Kind.permOK`), the result table is permuted identically. -/
theorem pe_run_perm {n : Nat} {σ : List Nat} (hσ : σ.Perm (List.range n)) {rules : List Rule}
    {rounding : Bool} {params : List (String × Val)} {gs : List (String × GroupSpec)}
    {ps : List (String × PidSpec)} {data : List (String × Column)} {targets : List String}
    {tbl : Table} (hrows : ∀ c ∈ data, c.2.length = n)
    (hneeded : ∀ pr, prepare (rules.map (ruleFn rounding)) gs ps data (sortDedup targets) = .ok pr →
      ∀ f ∈ rnd_necessaryFns (sortDedup targets) pr, f.kind.permOK = true)
    (h : run (rules.map (ruleFn rounding)) params gs ps data targets = .ok tbl) :
    run (rules.map (ruleFn rounding)) params gs ps (permTable σ data) targets =
      .ok (permTable σ tbl) := by
  unfold run at h ⊢
  simp only at h ⊢
  obtain ⟨pr, hpr, h⟩ := bind_ok h
  obtain ⟨p, hp, h⟩ := bind_ok h
  have hD := pe_prepare_arrN hrows hpr
  rw [pe_prepare_perm hσ hrows hpr]
  simp only [bind, Except.bind]
  rw [pe_plan_perm (perm_length hσ) hD hp]
  simp only
  obtain ⟨specs, h1, h2, h3, h4⟩ := pe_exec_hyps hrows hpr (hneeded pr hpr) hp
  have hex := pe_exec_perm hσ h1 h2 h3 h4 h
  rw [(pe_plan_data_eq hp).1] at hex
  exact hex

/-! ## a decidable form of the side condition (it looks at the NAMES of the data columns only) -/

def Kind.isGrouping : Kind → Bool
  | .grouping _ => true
  | _ => false

/-- The functions `dags.create_dag(functions_not_overridden, targets)` keeps (the ancestors of the
targets), computed from the rules, the aggregation specifications, the targets and the NAMES of
the data columns — no data value is inspected. -/
def neededFns (inp : Input) : Except Err (List Fn) := do
  let targets := sortDedup inp.targets
  let dataCols := inp.data.map (·.1)
  let all ← buildFunctions (inp.rules.map (ruleFn inp.rounding)) inp.groupSpecs inp.pidSpecs targets dataCols
  let fns := all.filter fun f => !dataCols.contains f.name
  pure (fns.filter fun f => (pruneNames (fns.map fun f => (f.name, f.args)) dataCols targets).contains f.name)

/-- every needed function is of a kind whose operation commutes with row permutations: a
vectorized rule WITH declared return type, `sum_by_p_id`, a time conversion, a grouped aggregation -/
def neededPermOK (inp : Input) : Bool :=
  match neededFns inp with
  | .ok fs => fs.all fun f => f.kind.permOK
  | .error _ => true

/-- none of the id constructors of `groupings.py` (`wthh_id`, `fg_id`, `bg_id`, `eg_id`, `ehe_id`,
`sn_id`) is an ancestor of a target (an id column supplied as DATA is fine) -/
def noGroupingNeeded (inp : Input) : Bool :=
  match neededFns inp with
  | .ok fs => fs.all fun f => !f.kind.isGrouping
  | .error _ => true

theorem pe_neededFns_of_prepare {inp : Input} {pr : Prep}
    (h : prepare (inp.rules.map (ruleFn inp.rounding)) inp.groupSpecs inp.pidSpecs inp.data
      (sortDedup inp.targets) = .ok pr) :
    neededFns inp = .ok (rnd_necessaryFns (sortDedup inp.targets) pr) := by
  obtain ⟨raw, all, hraw, hall, _, hfns, hdc⟩ := prepare_ok h
  have hnames := typedData_names hraw
  rw [hnames] at hall hfns hdc
  unfold neededFns rnd_necessaryFns
  simp only [hall, hfns, hdc, bind, Except.bind, pure, Except.pure]

theorem pe_neededFns_permInput (σ : List Nat) (inp : Input) :
    neededFns (permInput σ inp) = neededFns inp := by
  unfold neededFns permInput
  simp only [pe_permTable_names]

theorem pe_permTable_inv {n : Nat} {σ : List Nat} (hσ : σ.Perm (List.range n)) (tbl : Table)
    (hrows : ∀ c ∈ tbl, c.2.length = n) : permTable (invPerm σ) (permTable σ tbl) = tbl := by
  simp only [permTable, List.map_map]
  conv => rhs; rw [← List.map_id tbl]
  apply List.map_congr_left
  intro p hp
  simp only [Function.comp, id, pe_permColumn_eq]
  rw [permList_invPerm hσ p.2 (hrows p hp)]

theorem pe_permInput_inv {n : Nat} {σ : List Nat} (hσ : σ.Perm (List.range n)) (inp : Input)
    (hrows : ∀ c ∈ inp.data, c.2.length = n) : permInput (invPerm σ) (permInput σ inp) = inp := by
  unfold permInput
  simp only [pe_permTable_inv hσ inp.data hrows]

theorem pe_permTable_rows {n : Nat} {σ : List Nat} (hn : σ.length = n) (tbl : Table) :
    ∀ c ∈ permTable σ tbl, c.2.length = n := by
  intro c hc
  obtain ⟨c0, _, rfl⟩ := List.mem_map.1 hc
  simp [permColumn, hn]

/-- declared return types + no id constructor needed ⟹ all needed functions are admissible -/
theorem pe_needed_of_decl {inp : Input} (hdecl : ∀ r ∈ inp.rules, r.ret.isSome = true)
    (hnogrp : noGroupingNeeded inp = true) : neededPermOK inp = true := by
  unfold neededPermOK noGroupingNeeded at *
  cases hn : neededFns inp with
  | error e => rfl
  | ok fs =>
    rw [hn] at hnogrp
    simp only [List.all_eq_true] at hnogrp ⊢
    intro f hf
    have hg := hnogrp f hf
    unfold neededFns at hn
    obtain ⟨all, hall, hn⟩ := bind_ok hn
    simp only [pure, Except.pure, Except.ok.injEq] at hn
    subst hn
    have hfa : f ∈ all := (List.mem_filter.1 (List.mem_filter.1 hf).1).1
    cases hk : f.kind with
    | rule fn ret key =>
      have := buildFunctions_rules hall f hfa ⟨fn, ret, key, hk⟩
      obtain ⟨r, hr, rfl⟩ := List.mem_map.1 this
      simp only [ruleFn, Kind.rule.injEq] at hk
      obtain ⟨_, rfl, _⟩ := hk
      have := hdecl r hr
      cases hret : r.ret with
      | none => rw [hret] at this; cases this
      | some t => rfl
    | grouping g => rw [hk] at hg; cases hg
    | pidSum _ _ => rfl
    | timeConv _ _ _ => rfl
    | groupAgg _ _ _ => rfl

/-- (4') `simulate` on the permuted input -/
theorem pe_simulate_perm {n : Nat} {σ : List Nat} (hσ : σ.Perm (List.range n)) (inp : Input)
    (hrows : ∀ c ∈ inp.data, c.2.length = n) (hneeded : neededPermOK inp = true)
    (tbl : Table) (h : simulate inp = .ok tbl) :
    simulate (permInput σ inp) = .ok (permTable σ tbl) := by
  unfold simulate at h ⊢
  refine pe_run_perm hσ hrows (fun pr hpr f hf => ?_) h
  unfold neededPermOK at hneeded
  rw [pe_neededFns_of_prepare hpr] at hneeded
  exact List.all_eq_true.1 hneeded f hf

theorem pe_simulate_fails_iff {n : Nat} {σ : List Nat} (hσ : σ.Perm (List.range n)) (inp : Input)
    (hrows : ∀ c ∈ inp.data, c.2.length = n) (hneeded : neededPermOK inp = true) :
    (∃ e, simulate (permInput σ inp) = .error e) ↔ (∃ e, simulate inp = .error e) := by
  constructor
  · rintro ⟨e, he⟩
    cases h : simulate inp with
    | error e' => exact ⟨e', rfl⟩
    | ok tbl => rw [pe_simulate_perm hσ inp hrows hneeded tbl h] at he; cases he
  · rintro ⟨e, he⟩
    cases h : simulate (permInput σ inp) with
    | error e' => exact ⟨e', rfl⟩
    | ok tbl =>
      have hneeded' : neededPermOK (permInput σ inp) = true := by
        unfold neededPermOK at hneeded ⊢
        rw [pe_neededFns_permInput]; exact hneeded
      have := pe_simulate_perm (invPerm_perm hσ) (permInput σ inp)
        (pe_permTable_rows (perm_length hσ) inp.data) hneeded' tbl h
      rw [pe_permInput_inv hσ inp hrows, he] at this
      cases this

/-- the preparation fails on the permuted table iff it fails on the original one -/
theorem pe_prepare_fails_iff {n : Nat} {σ : List Nat} (hσ : σ.Perm (List.range n))
    {ruleFns : List Fn} {gs : List (String × GroupSpec)} {ps : List (String × PidSpec)}
    {data : List (String × Column)} {targets : List String}
    (hrows : ∀ c ∈ data, c.2.length = n) :
    (∃ e, prepare ruleFns gs ps (permTable σ data) targets = .error e) ↔
      (∃ e, prepare ruleFns gs ps data targets = .error e) := by
  constructor
  · rintro ⟨e, he⟩
    cases h : prepare ruleFns gs ps data targets with
    | error e' => exact ⟨e', rfl⟩
    | ok pr => rw [pe_prepare_perm hσ hrows h] at he; cases he
  · rintro ⟨e, he⟩
    cases h : prepare ruleFns gs ps (permTable σ data) targets with
    | error e' => exact ⟨e', rfl⟩
    | ok pr =>
      have := pe_prepare_perm (invPerm_perm hσ) (pe_permTable_rows (perm_length hσ) data) h
      rw [pe_permTable_inv hσ data hrows, he] at this
      cases this

/-! ## Boolean comparison of result tables (`Val` has no `DecidableEq`: it contains parameter
trees; result tables only hold ints, floats and Booleans) -/

def pe_valBeq : Val → Val → Bool
  | .int a, .int b => a == b
  | .flt a, .flt b => a == b
  | .bool a, .bool b => a == b
  | _, _ => false

theorem pe_valBeq_eq {a b : Val} (h : pe_valBeq a b = true) : a = b := by
  cases a <;> cases b <;> simp [pe_valBeq] at h <;> simp [h]

def pe_colBeq : Column → Column → Bool
  | [], [] => true
  | a :: as, b :: bs => pe_valBeq a b && pe_colBeq as bs
  | _, _ => false

theorem pe_colBeq_eq : ∀ {a b : Column}, pe_colBeq a b = true → a = b
  | [], [], _ => rfl
  | a :: as, b :: bs, h => by
    simp only [pe_colBeq, Bool.and_eq_true] at h
    rw [pe_valBeq_eq h.1, pe_colBeq_eq h.2]
  | [], _ :: _, h => by simp [pe_colBeq] at h
  | _ :: _, [], h => by simp [pe_colBeq] at h

def pe_tblBeq : Table → Table → Bool
  | [], [] => true
  | a :: as, b :: bs => a.1 == b.1 && pe_colBeq a.2 b.2 && pe_tblBeq as bs
  | _, _ => false

theorem pe_tblBeq_eq : ∀ {a b : Table}, pe_tblBeq a b = true → a = b
  | [], [], _ => rfl
  | (n, c) :: as, (n', c') :: bs, h => by
    simp only [pe_tblBeq, Bool.and_eq_true, beq_iff_eq] at h
    obtain ⟨⟨h1, h2⟩, h3⟩ := h
    subst h1
    rw [pe_colBeq_eq h2, pe_tblBeq_eq h3]
  | [], _ :: _, h => by simp [pe_tblBeq] at h
  | _ :: _, [], h => by simp [pe_tblBeq] at h

/-- `x = .ok tbl`, as a Boolean -/
def pe_isOk (x : Except Err Table) (tbl : Table) : Bool :=
  match x with
  | .ok t => pe_tblBeq t tbl
  | .error _ => false

theorem pe_isOk_eq {x : Except Err Table} {tbl : Table} (h : pe_isOk x tbl = true) : x = .ok tbl := by
  cases x with
  | error e => cases h
  | ok t => rw [pe_tblBeq_eq (a := t) h]

/-- `x = .error e`, as a Boolean -/
def pe_isErr (x : Except Err Table) (e : Err) : Bool :=
  match x with
  | .ok _ => false
  | .error e' => e' == e

theorem pe_isErr_eq {x : Except Err Table} {e : Err} (h : pe_isErr x e = true) : x = .error e := by
  cases x with
  | ok t => cases h
  | error e' =>
    simp only [pe_isErr, beq_iff_eq] at h
    rw [h]

end GV.Simulate
