import GettsimVerif.Lemmas.Simulate
import GettsimVerif.Lemmas.Round
import GettsimVerif.Lemmas.TimeConv
import GettsimVerif.Lemmas.Agg
/-!
Helper definitions and lemmas that connect the abstract theorems on rounding (C10), time-unit
conversion (C13) and aggregation (C11) to the CONCRETE end-to-end model `Core/Simulate.lean`
(used by `Props/C10Sim.lean`).
-/
namespace GV.Simulate
open GV.Lang (Val FunDef)
open GV.VecDtype (R DT numOf)
open GV.TimeConv (TUnit)
open GV.Yaml (Y Key)

/-! ## 1. the rounding wrapper is a post-processing step of `ruleOp` -/

def nearestGuard (fn : FunDef) (s : RSpec) : Bool :=
  fn.args.isEmpty && (match s.base, s.off, s.direction with
        | .num _, none, .str "nearest" => true
        | .num _, some (.num _), .str "nearest" => true
        | _, _, _ => false)

def applySpec (fn : FunDef) (s : RSpec) (out : Col) : Except Err Col := do
  if nearestGuard fn s then throw Err.other
  let vals ← out.vals.mapM fun r => do pure (R.f (← roundWith s (numOf r)))
  pure { out with dt := .float, vals, shape := if out.scalar then .npScalar else .arr }

def ruleOpK (params : List (String × Val)) (fn : FunDef) (ret : Option Ty) 
    (k : Col → Except Err Col)
    (free : List String) (cols : List Col) : Except Err Col := do
  let n? ← broadcastLen cols
  let rows := List.range (n?.getD 1)
  let probed : Option DT ←
    if ret.isSome || fn.args.isEmpty then pure none
    else if rows.isEmpty then throw Err.valueError
    else
      let args0 := (rowArgs params free 0 fn.args cols).zip (fn.args.map free.contains) |>.map
        fun (v, isCol) => ({ v, np := isCol } : PV)
      match probeDtype fn args0 with
      | .ok dt => pure (some dt)
      | .error (.err e) => throw e
      | .error .nan => pure none
  let npArgs := npFlags free fn.args cols
  let raw ← rows.mapM fun i =>
    let args := rowArgs params free i fn.args cols
    if npArgs.any id then
      match runNumpy fn (args.zip npArgs |>.map fun (v, np) => ({ v, np } : PV)) with
      | .ok v => .ok v
      | .error (.err e) => .error e
      | .error .nan => .error .other
    else Lang.runFun fn args
  let rs ← raw.mapM resultToR
  let out : Col ←
    if fn.args.isEmpty then
      match rs with
      | r :: _ => pure { dt := VecDtype.dtypeOf r, vals := [r], shape := .pyScalar }
      | [] => throw Err.other
    else
      match VecDtype.vectorize ((ret.map Ty.toDT).orElse fun _ => probed) rs with
      | some (dt, vals) => pure { dt, vals, shape := if n?.isNone then .arr0 else .arr }
      | none => throw Err.valueError
  k out

def tailOf (fn : FunDef) : Option RSpec → Col → Except Err Col
  | none => pure
  | some s => applySpec fn s

theorem ruleOp_eq_K (params : List (String × Val)) (fn : FunDef) (ret : Option Ty)
    (s : Option RSpec) (free : List String) (cols : List Col) :
    ruleOp params fn ret s free cols = ruleOpK params fn ret (tailOf fn s) free cols := by
  cases s <;> rfl

theorem ruleOpK_bind (params : List (String × Val)) (fn : FunDef) (ret : Option Ty)
    (k : Col → Except Err Col) (free : List String) (cols : List Col) :
    ruleOpK params fn ret k free cols = ruleOpK params fn ret pure free cols >>= k := by
  unfold ruleOpK
  cases broadcastLen cols with
  | error e => rfl
  | ok n? =>
    simp only [bind, Except.bind, pure, Except.pure, throw, throwThe, MonadExceptOf.throw]
    repeat' split
    all_goals try rfl
    all_goals (rename_i h; cases h; try rfl)

/-! ## 2. `roundWith` on well-formed and ill-formed specifications -/

/-- the offset a specification denotes: absent = 0, a number = that number, anything else = invalid -/
def offVal : Option Y → Option Rat
  | none => some 0
  | some (.num o) => some o
  | some _ => none

/-- a specification the rounding wrapper accepts: numeric non-zero base, one of the three
direction strings, offset absent or numeric -/
def SpecIs (s : RSpec) (b : Rat) (dir : Round.Dir) (off : Rat) : Prop :=
  ∃ d, s.base = .num b ∧ b ≠ 0 ∧ s.direction = .str d ∧ Round.parseDir d = some dir ∧ offVal s.off = some off

theorem roundWith_unfold (s : RSpec) (x : Rat) :
    roundWith s x =
      match s.base with
      | .num b =>
        match offVal s.off with
        | none => .error .valueError
        | some off =>
          match s.direction with
          | .str d =>
            if b = 0 then (if (Round.parseDir d).isSome then .error .other else .error .valueError)
            else Round.applyRounding true true
              (some { base := some b, direction := some d, off := some off }) x
          | _ => .error .valueError
      | _ => .error .valueError := rfl

theorem roundWith_of_specIs {s : RSpec} {b off : Rat} {dir : Round.Dir} (h : SpecIs s b dir off) (x : Rat) :
    roundWith s x = .ok (Round.roundTo b dir off x) := by
  obtain ⟨d, hb, hb0, hd, hp, ho⟩ := h
  rw [roundWith_unfold, hb]
  simp only [ho, hd, hb0, if_false, Round.applyRounding, hp]
  simp

theorem roundWith_ok_iff (s : RSpec) (x y : Rat) :
    roundWith s x = .ok y ↔ ∃ b dir off, SpecIs s b dir off ∧ y = Round.roundTo b dir off x := by
  constructor
  · intro h
    obtain ⟨sb, sd, so⟩ := s
    rw [roundWith_unfold] at h
    simp only at h
    split at h
    · rename_i b
      split at h
      · cases h
      · rename_i off hoff
        split at h
        · rename_i d
          split at h
          · split at h <;> cases h
          · rename_i hb0
            cases hp : Round.parseDir d with
            | none => simp [Round.applyRounding, hp] at h
            | some dir =>
              simp [Round.applyRounding, hp] at h
              exact ⟨b, dir, off, ⟨d, rfl, hb0, rfl, hp, hoff⟩, h.symm⟩
        · cases h
    · cases h
  · rintro ⟨b, dir, off, hs, rfl⟩
    exact roundWith_of_specIs hs x

/-! ## 3. the rounding loop `applySpec` -/

/-- every specification that is not well-formed makes the wrapper fail, for every value -/
theorem roundWith_error_of_not_specIs (s : RSpec) (h : ¬ ∃ b dir off, SpecIs s b dir off) (x : Rat) :
    ∃ e, roundWith s x = .error e := by
  cases hr : roundWith s x with
  | error e => exact ⟨e, rfl⟩
  | ok y =>
    obtain ⟨b, dir, off, hs, _⟩ := (roundWith_ok_iff s x y).mp hr
    exact absurd ⟨b, dir, off, hs⟩ h

theorem mapM_ok_map {α β : Type} (g : α → β) (l : List α) :
    l.mapM (fun a => (Except.ok (g a) : Except Err β)) = .ok (l.map g) := by
  induction l with
  | nil => rfl
  | cons a l ih => rw [List.mapM_cons, ih]; rfl

/-- the rounding loop on a well-formed specification -/
theorem applySpec_of_specIs {fn : FunDef} {s : RSpec} {b off : Rat} {dir : Round.Dir}
    (h : SpecIs s b dir off) (c : Col) :
    applySpec fn s c =
      if nearestGuard fn s then .error .other
      else .ok { dt := .float, vals := c.vals.map fun r => R.f (Round.roundTo b dir off (numOf r)),
                 shape := if c.scalar then .npScalar else .arr } := by
  unfold applySpec
  have : (fun r => do pure (R.f (← roundWith s (numOf r)))) =
      fun r => (Except.ok (R.f (Round.roundTo b dir off (numOf r))) : Except Err R) := by
    funext r; rw [roundWith_of_specIs h]; rfl
  rw [this, mapM_ok_map]
  split <;> rfl

/-- if the rounding loop succeeds at all, the specification is well-formed or the column is empty -/
theorem applySpec_ok {fn : FunDef} {s : RSpec} {c out : Col} (h : applySpec fn s c = .ok out) :
    nearestGuard fn s = false ∧ out.dt = .float ∧ out.vals.length = c.vals.length ∧
    (c.vals = [] ∨ ∃ b dir off, SpecIs s b dir off) := by
  have hg : nearestGuard fn s = false := by
    cases hg : nearestGuard fn s with
    | false => rfl
    | true => unfold applySpec at h; simp [hg, bind, Except.bind, throw, throwThe, MonadExceptOf.throw] at h
  have hw : c.vals = [] ∨ ∃ b dir off, SpecIs s b dir off := by
    cases hv : c.vals with
    | nil => exact .inl rfl
    | cons r rs =>
      right
      unfold applySpec at h
      simp only [hg, Bool.false_eq_true, if_false, hv, List.mapM_cons] at h
      obtain ⟨_, h, _⟩ := bind_ok h
      obtain ⟨vals, h, _⟩ := bind_ok h
      obtain ⟨y, h, _⟩ := bind_ok h
      obtain ⟨b, dir, off, hs, _⟩ := (roundWith_ok_iff s _ y).mp h
      exact ⟨b, dir, off, hs⟩
  refine ⟨hg, ?_, ?_, hw⟩
  · rcases hw with hv | ⟨b, dir, off, hs⟩
    · unfold applySpec at h
      simp only [hg, Bool.false_eq_true, if_false, hv, List.mapM_nil] at h
      cases h; rfl
    · rw [applySpec_of_specIs hs, hg] at h
      cases h; rfl
  · rcases hw with hv | ⟨b, dir, off, hs⟩
    · unfold applySpec at h
      simp only [hg, Bool.false_eq_true, if_false, hv, List.mapM_nil] at h
      cases h; simp [hv]
    · rw [applySpec_of_specIs hs, hg] at h
      cases h; simp

/-! ## 4. which nodes carry a rounding wrapper -/

/-- the functions `dags.create_dag(functions_not_overridden, targets)` keeps -/
def rnd_necessaryFns (targets : List String) (pr : Prep) : List Fn :=
  pr.fns.filter fun f =>
    (pruneNames (pr.fns.map fun f => (f.name, f.args)) pr.dataCols targets).contains f.name

/-- the look-up `_add_rounding_to_functions` performs for ONE function -/
def specEntry (params : List (String × Val)) (f : Fn) : Except Err (Option (String × RSpec)) :=
  match f.kind with
  | .rule _ _ (some key) => do pure (some (f.name, ← roundingSpecOf params key f.name))
  | _ => pure none

/-- `_add_rounding_to_functions(necessary_functions, params)`: the table name ↦ specification -/
def rnd_specsOf (params : List (String × Val)) (fns : List Fn) : Except Err (List (String × RSpec)) :=
  fns.filterMapM (specEntry params)

/-- everything `plan` does once the specifications have been found -/
def planWith (params : List (String × Val)) (targets : List String) (pr : Prep)
    (specs : List (String × RSpec)) : Except Err Plan := do
  let dataCols := pr.dataCols
  let necessary := rnd_necessaryFns targets pr
  let proc := necessary.map fun f => (f.name, freeArgs params f)
  let procNames := pruneNames proc dataCols targets
  let proc := proc.filter fun (n, _) => procNames.contains n
  let graph := graphOf proc
  let paramsOnly := (necessary.filter fun f => f.args.all isParamArg).map (·.name)
  let missing := graph.filter fun (n, ds) => ds.isEmpty && !dataCols.contains n && !paramsOnly.contains n
  if !missing.isEmpty then throw Err.valueError
  let sys : Dag.Sys Col := (necessary.filter fun f => procNames.contains f.name).map fun f =>
    (f.name, nodeOf params specs f)
  pure { data := pr.data, sys, order := (topoOrder graph).filter procNames.contains,
         nRows := (pr.data.head?.map (·.2.vals.length)).getD 0 }

def planCyclic (targets : List String) (pr : Prep) : Bool :=
  let full := pr.fns.map fun f => (f.name, f.args)
  hasCycle (graphOf (full.filter fun (n, _) => (pruneNames full pr.dataCols targets).contains n))

/-- `plan` = cycle check, then the rounding specifications of the necessary functions, then the rest -/
theorem plan_eq (params : List (String × Val)) (targets : List String) (pr : Prep) :
    plan params targets pr =
      if planCyclic targets pr then .error .other
      else rnd_specsOf params (rnd_necessaryFns targets pr) >>= planWith params targets pr := by
  unfold plan planCyclic
  simp only
  split
  · rfl
  · rfl


/-- `Kind` of a rule that is marked for rounding -/
def Fn.keyed (f : Fn) (key : String) : Prop := ∃ fn ret, f.kind = .rule fn ret (some key)

theorem specEntry_keyed {params : List (String × Val)} {f : Fn} {key : String} (h : Fn.keyed f key) :
    specEntry params f = (roundingSpecOf params key f.name >>= fun s => pure (some (f.name, s))) := by
  obtain ⟨fn, ret, h⟩ := h
  unfold specEntry; rw [h]

theorem specEntry_not_keyed {params : List (String × Val)} {f : Fn} (h : ∀ key, ¬ Fn.keyed f key) :
    specEntry params f = .ok none := by
  unfold specEntry
  split
  · rename_i fn ret key hk; exact absurd ⟨fn, ret, hk⟩ (h key)
  · rfl

theorem specEntry_some {params : List (String × Val)} {f : Fn} {e : String × RSpec}
    (h : specEntry params f = .ok (some e)) :
    ∃ key, Fn.keyed f key ∧ e.1 = f.name ∧ roundingSpecOf params key f.name = .ok e.2 := by
  unfold specEntry at h
  split at h
  · rename_i fn ret key hk
    obtain ⟨s, hs, h⟩ := bind_ok h
    cases h
    exact ⟨key, ⟨fn, ret, hk⟩, rfl, hs⟩
  · cases h

/-- every failure of the look-up is a `KeyError` -/
theorem roundingSpecOf_error {params : List (String × Val)} {key name : String} {e : Err}
    (h : roundingSpecOf params key name = .error e) : e = .keyError := by
  unfold roundingSpecOf at h
  repeat' split at h
  all_goals first | (cases h; rfl) | cases h

theorem specEntry_error {params : List (String × Val)} {f : Fn} {e : Err}
    (h : specEntry params f = .error e) : e = .keyError := by
  unfold specEntry at h
  split at h
  · cases hr : roundingSpecOf params ‹String› f.name with
    | error e' => rw [hr] at h; cases h; exact roundingSpecOf_error hr
    | ok s => rw [hr] at h; cases h
  · cases h

theorem specsOf_nil (params : List (String × Val)) : rnd_specsOf params [] = .ok [] := rfl

theorem specsOf_cons (params : List (String × Val)) (f : Fn) (fns : List Fn) :
    rnd_specsOf params (f :: fns) =
      match specEntry params f with
      | .error e => .error e
      | .ok none => rnd_specsOf params fns
      | .ok (some e) => match rnd_specsOf params fns with
        | .error e' => .error e'
        | .ok rest => .ok (e :: rest) := by
  unfold rnd_specsOf
  rw [List.filterMapM_cons]
  cases specEntry params f with
  | error e => rfl
  | ok o =>
    cases o with
    | none => rfl
    | some e => cases List.filterMapM (specEntry params) fns <;> rfl

/-- the table of specifications is exactly the list of successful look-ups of the keyed rules -/
theorem specsOf_ok_mem {params : List (String × Val)} {fns : List Fn} {specs : List (String × RSpec)}
    (h : rnd_specsOf params fns = .ok specs) :
    ∀ e ∈ specs, ∃ f ∈ fns, ∃ key, Fn.keyed f key ∧ e.1 = f.name ∧
      roundingSpecOf params key f.name = .ok e.2 := by
  induction fns generalizing specs with
  | nil => cases h; intro e he; cases he
  | cons f fns ih =>
    rw [specsOf_cons] at h
    split at h
    · cases h
    · intro e he
      obtain ⟨g, hg, r⟩ := ih h e he
      exact ⟨g, List.mem_cons_of_mem _ hg, r⟩
    · rename_i e0 he0
      split at h
      · cases h
      · rename_i rest hrest
        cases h
        intro e he
        rcases List.mem_cons.mp he with rfl | he
        · obtain ⟨key, hk, h1, h2⟩ := specEntry_some he0
          exact ⟨f, List.mem_cons_self, key, hk, h1, h2⟩
        · obtain ⟨g, hg, r⟩ := ih hrest e he
          exact ⟨g, List.mem_cons_of_mem _ hg, r⟩

/-- all failures are `KeyError`s -/
theorem specsOf_error {params : List (String × Val)} {fns : List Fn} {e : Err}
    (h : rnd_specsOf params fns = .error e) : e = .keyError := by
  induction fns with
  | nil => cases h
  | cons f fns ih =>
    rw [specsOf_cons] at h
    split at h
    · rename_i e' he'; cases h; exact specEntry_error he'
    · exact ih h
    · split at h
      · rename_i e' he'; cases h; exact ih he'
      · cases h

/-- one keyed rule without a specification makes the whole table fail -/
theorem specsOf_missing {params : List (String × Val)} {fns : List Fn} {f : Fn} {key : String} {e : Err}
    (hf : f ∈ fns) (hk : Fn.keyed f key) (he : roundingSpecOf params key f.name = .error e) :
    rnd_specsOf params fns = .error .keyError := by
  induction fns with
  | nil => cases hf
  | cons g fns ih =>
    cases hs : rnd_specsOf params (g :: fns) with
    | error e' => rw [specsOf_error hs]
    | ok specs =>
      exfalso
      rw [specsOf_cons] at hs
      rcases List.mem_cons.mp hf with rfl | hf
      · rw [specEntry_keyed hk, he] at hs
        cases hs
      · have := ih hf
        rw [this] at hs
        split at hs
        · cases hs
        · cases hs
        · cases hs

/-- without keyed rules nothing is looked up -/
theorem specsOf_no_key {params : List (String × Val)} {fns : List Fn}
    (h : ∀ f ∈ fns, ∀ key, ¬ Fn.keyed f key) : rnd_specsOf params fns = .ok [] := by
  induction fns with
  | nil => rfl
  | cons f fns ih =>
    rw [specsOf_cons, specEntry_not_keyed (h f List.mem_cons_self)]
    exact ih fun g hg => h g (List.mem_cons_of_mem _ hg)

theorem find?_some_mem {β : Type} {l : List (String × β)} {n : String} {v : β}
    (h : find? l n = some v) : (n, v) ∈ l := by
  induction l with
  | nil => cases h
  | cons a l ih =>
    obtain ⟨k, w⟩ := a
    unfold find? Dag.find? at h
    split at h
    · rename_i hk; cases h; subst hk; exact List.mem_cons_self
    · exact List.mem_cons_of_mem _ (ih h)


/-! ## 6. the look-up of a specification -/

theorem roundingSpecOf_ok_iff_aux (params : List (String × Val)) (key name : String) (s : RSpec) :
    roundingSpecOf params key name = .ok s ↔
      ∃ p r spec b d, find? params key = some (.tree p) ∧ p.get? (.s "rounding") = some r ∧
        r.get? (.s name) = some spec ∧ spec.get? (.s "base") = some b ∧
        spec.get? (.s "direction") = some d ∧
        s = { base := b, direction := d, off := spec.get? (.s "to_add_after_rounding") } := by
  constructor
  · intro h
    unfold roundingSpecOf at h
    split at h
    · rename_i p hp
      split at h
      · rename_i spec hspec
        split at h
        · rename_i b d hb hd
          cases h
          cases hr : p.get? (.s "rounding") with
          | none => rw [hr] at hspec; cases hspec
          | some r =>
            rw [hr] at hspec
            exact ⟨p, r, spec, b, d, hp, hr, hspec, hb, hd, rfl⟩
        · cases h
      · cases h
    · cases h
  · rintro ⟨p, r, spec, b, d, hp, hr, hspec, hb, hd, rfl⟩
    unfold roundingSpecOf
    simp only [hp, hr, Option.bind_some, hspec, hb, hd]

/-! ## 7. time-unit conversion and group sums on concrete columns -/

/-- a float array -/
def FloatArr (c : Col) : Prop := c.dt = .float ∧ c.shape = .arr

/-- a float array all of whose values are floats (the invariant of every float column) -/
def FloatCol (c : Col) : Prop := c.dt = .float ∧ c.shape = .arr ∧ ∀ r ∈ c.vals, ∃ q, r = .f q

/-- the well-formed id column of a group aggregation: an int array -/
def IntArr (c : Col) : Prop := c.dt = .int ∧ c.shape = .arr

/-- the column `timeConvOp u v` produces from a float column -/
def convCol (u v : TUnit) (c : Col) : Col :=
  { dt := .float, vals := c.vals.map (fun r => .f (TimeConv.conv u v (numOf r))),
    shape := if c.shape == .arr0 then Shape.npScalar else c.shape }

theorem timeConvOp_float (u v : TUnit) (c : Col) (h : c.dt = .float) :
    timeConvOp u v [c] = .ok (convCol u v c) := by
  unfold timeConvOp convCol
  simp [h]

theorem convCol_floatCol {u v : TUnit} {c : Col} (h : FloatArr c) : FloatCol (convCol u v c) := by
  refine ⟨rfl, ?_, ?_⟩
  · simp [convCol, h.2]
  · intro r hr
    simp only [convCol, List.mem_map] at hr
    obtain ⟨a, _, rfl⟩ := hr
    exact ⟨_, rfl⟩

theorem convCol_rats (u v : TUnit) (c : Col) : (convCol u v c).rats = c.rats.map (TimeConv.conv u v) := by
  simp [convCol, Col.rats, numOf, List.map_map, Function.comp_def]


theorem conv_round_trip' (u v : TUnit) (x : Rat) : TimeConv.conv v u (TimeConv.conv u v x) = x := by
  have hu := TimeConv.perYear_ne_zero u
  have hv := TimeConv.perYear_ne_zero v
  simp only [TimeConv.conv_eq_mul]
  field_simp

theorem conv_list_sum' (u v : TUnit) (l : List Rat) :
    TimeConv.conv u v l.sum = (l.map (TimeConv.conv u v)).sum := by
  induction l with
  | nil => exact TimeConv.conv_zero u v
  | cons a l ih => simp only [List.sum_cons, List.map_cons, TimeConv.conv_add', ih]

/-- converting there and back restores the values (as floats) -/
theorem convCol_round_trip_vals (u v : TUnit) (c : Col) :
    (convCol v u (convCol u v c)).vals = c.vals.map fun r => R.f (numOf r) := by
  simp only [convCol, List.map_map]
  apply List.map_congr_left
  intro r _
  simp only [Function.comp, numOf, conv_round_trip']

theorem map_f_numOf_of_floatCol {c : Col} (h : ∀ r ∈ c.vals, ∃ q, r = R.f q) :
    (c.vals.map fun r => R.f (numOf r)) = c.vals := by
  conv => rhs; rw [← List.map_id c.vals]
  apply List.map_congr_left
  intro r hr
  obtain ⟨q, rfl⟩ := h r hr
  rfl

/-- the group sum of the converted values = the converted group sums; the guard (equal lengths,
no negative id) does not look at the values, so this holds for failures as well -/
theorem groupedSum_conv (u v : TUnit) (l : List Rat) (gid : List Int) :
    Agg.groupedSum (l.map (TimeConv.conv u v)) gid
      = (Agg.groupedSum l gid >>= fun r => pure (r.map (TimeConv.conv u v))) := by
  unfold Agg.groupedSum Agg.grouped
  rw [List.length_map]
  cases Agg.guard gid l.length with
  | error e => rfl
  | ok _ =>
    show Except.ok _ = Except.ok _
    rw [Agg.gather_scatter, Agg.gather_scatter, List.map_map]
    congr 1
    apply List.map_congr_left
    intro g _
    simp only [Function.comp, Agg.groupVal_add, Agg.members_map, conv_list_sum']

/-- `grouped_sum` on a float array: the dtype/shape guards concern the id column only -/
theorem groupAggOp_sum_floatArr (col gid : Col) (h : FloatArr col) :
    groupAggOp .sum [col, gid] =
      if gid.shape == .pyScalar then .error .other
      else if gid.dt != .int then .error .typeError
      else if gid.scalar then .error .other
      else (Agg.groupedSum col.rats gid.ints >>= fun r =>
        pure ({ dt := .float, vals := r.map R.f } : Col)) := by
  obtain ⟨hdt, hsh⟩ := h
  unfold groupAggOp
  have hs : col.scalar = false := by simp [Col.scalar, hsh]
  by_cases h1 : (gid.shape == Shape.pyScalar) = true
  · simp only [h1, if_true]
  by_cases h2 : (gid.dt != DT.int) = true
  · simp only [h1, h2, if_true]
  by_cases h3 : gid.scalar = true
  · simp [h1, h2, h3, hsh]
  · simp only [h1, h2, h3, hsh, hs, hdt]
    simp only [Bool.false_eq_true, if_false, hdt]
    rfl

theorem timeConvOp_groupSum_commute' (u v : TUnit) (col gid : Col) (h : FloatArr col) :
    (timeConvOp u v [col] >>= fun c => groupAggOp .sum [c, gid])
      = (groupAggOp .sum [col, gid] >>= fun a => timeConvOp u v [a]) := by
  rw [timeConvOp_float u v col h.1]
  show groupAggOp .sum [convCol u v col, gid] = _
  have h' : FloatArr (convCol u v col) := ⟨(convCol_floatCol h).1, (convCol_floatCol h).2.1⟩
  rw [groupAggOp_sum_floatArr _ gid h', groupAggOp_sum_floatArr col gid h]
  by_cases h1 : (gid.shape == Shape.pyScalar) = true
  · simp only [h1, if_true]; rfl
  by_cases h2 : (gid.dt != DT.int) = true
  · simp only [h1, h2, if_true]; rfl
  by_cases h3 : gid.scalar = true
  · simp only [h1, h2, h3, if_true]; rfl
  · simp only [h1, h2, h3, convCol_rats, groupedSum_conv]
    cases Agg.groupedSum col.rats gid.ints with
    | error e => rfl
    | ok r =>
      show Except.ok _ = timeConvOp u v [_]
      rw [timeConvOp_float _ _ _ rfl]
      simp [convCol, numOf, List.map_map, Function.comp_def]


/-! ## 8. nodes of the DAG -/

theorem rnd_nodeOf_congr (params : List (String × Val)) (specs specs' : List (String × RSpec)) (f : Fn)
    (h : (∃ fn ret key, f.kind = .rule fn ret key) → find? specs f.name = find? specs' f.name) :
    nodeOf params specs f = nodeOf params specs' f := by
  unfold nodeOf
  cases hk : f.kind with
  | rule fn ret key => simp only [h ⟨fn, ret, key, hk⟩]
  | _ => rfl

theorem specsOf_find_none {params : List (String × Val)} {fns : List Fn} {specs : List (String × RSpec)}
    (h : rnd_specsOf params fns = .ok specs) (n : String)
    (hn : ∀ f ∈ fns, f.name = n → ∀ key, ¬ Fn.keyed f key) : find? specs n = none := by
  cases hf : find? specs n with
  | none => rfl
  | some s =>
    obtain ⟨f, hfm, key, hk, h1, _⟩ := specsOf_ok_mem h _ (find?_some_mem hf)
    exact absurd hk (hn f hfm h1.symm key)

theorem planWith_sys {params : List (String × Val)} {targets : List String} {pr : Prep}
    {specs : List (String × RSpec)} {p : Plan} (h : planWith params targets pr specs = .ok p) :
    ∀ e ∈ p.sys, ∃ f ∈ rnd_necessaryFns targets pr, e = (f.name, nodeOf params specs f) := by
  unfold planWith at h
  simp only at h
  split at h
  · cases h
  · cases h
    intro e he
    simp only [List.mem_map, List.mem_filter] at he
    obtain ⟨f, ⟨hf, _⟩, rfl⟩ := he
    exact ⟨f, hf, rfl⟩

theorem rnd_plan_ok {params : List (String × Val)} {targets : List String} {pr : Prep} {p : Plan}
    (h : plan params targets pr = .ok p) :
    planCyclic targets pr = false ∧
    ∃ specs, rnd_specsOf params (rnd_necessaryFns targets pr) = .ok specs ∧
      planWith params targets pr specs = .ok p := by
  rw [plan_eq] at h
  split at h
  · cases h
  · rename_i hc
    obtain ⟨specs, hs, hp⟩ := bind_ok h
    exact ⟨by simpa using hc, specs, hs, hp⟩


/-! ## 9. where the rules of the function set come from -/

theorem rnd_mem_dictUpdate {d : List Fn} {g f : Fn} (h : f ∈ dictUpdate d g) : f ∈ d ∨ f = g := by
  induction d with
  | nil => simp [dictUpdate] at h; exact .inr h
  | cons a d ih =>
    unfold dictUpdate at h
    split at h
    · rcases List.mem_cons.mp h with rfl | h
      · exact .inr rfl
      · exact .inl (List.mem_cons_of_mem _ h)
    · rcases List.mem_cons.mp h with rfl | h
      · exact .inl List.mem_cons_self
      · rcases ih h with h | h
        · exact .inl (List.mem_cons_of_mem _ h)
        · exact .inr h

theorem rnd_mem_merge {a b : List Fn} {f : Fn} (h : f ∈ merge a b) : f ∈ a ∨ f ∈ b := by
  unfold merge at h
  induction b generalizing a with
  | nil => exact .inl h
  | cons g b ih =>
    rw [List.foldl_cons] at h
    rcases ih h with h | h
    · rcases rnd_mem_dictUpdate h with h | rfl
      · exact .inl h
      · exact .inr List.mem_cons_self
    · exact .inr (List.mem_cons_of_mem _ h)

theorem filterMapM_ok_mem {α β : Type} (g : α → Except Err (Option β)) :
    ∀ (l : List α) (out : List β), l.filterMapM g = .ok out → ∀ b ∈ out, ∃ a ∈ l, g a = .ok (some b) := by
  intro l
  induction l with
  | nil => intro out h b hb; cases h; cases hb
  | cons a l ih =>
    intro out h b hb
    rw [List.filterMapM_cons] at h
    obtain ⟨o, ho, h⟩ := bind_ok h
    cases o with
    | none =>
      obtain ⟨x, hx, r⟩ := ih out h b hb
      exact ⟨x, List.mem_cons_of_mem _ hx, r⟩
    | some b0 =>
      obtain ⟨rest, hrest, h⟩ := bind_ok h
      cases h
      rcases List.mem_cons.mp hb with rfl | hb
      · exact ⟨a, List.mem_cons_self, ho⟩
      · obtain ⟨x, hx, r⟩ := ih rest hrest b hb
        exact ⟨x, List.mem_cons_of_mem _ hx, r⟩

theorem mapM_ok_mem {α β : Type} (g : α → Except Err β) :
    ∀ (l : List α) (out : List β), l.mapM g = .ok out → ∀ b ∈ out, ∃ a ∈ l, g a = .ok b := by
  intro l
  induction l with
  | nil => intro out h b hb; simp [List.mapM_nil, pure, Except.pure] at h; subst h; cases hb
  | cons a l ih =>
    intro out h b hb
    rw [List.mapM_cons] at h
    obtain ⟨b0, ho, h⟩ := bind_ok h
    obtain ⟨rest, hrest, h⟩ := bind_ok h
    cases h
    rcases List.mem_cons.mp hb with rfl | hb
    · exact ⟨a, List.mem_cons_self, ho⟩
    · obtain ⟨x, hx, r⟩ := ih rest hrest b hb
      exact ⟨x, List.mem_cons_of_mem _ hx, r⟩

def Fn.isRule (f : Fn) : Prop := ∃ fn ret key, f.kind = .rule fn ret key

theorem pidFns_not_rule {rules : List Fn} {dataCols : List String} {specs : List (String × PidSpec)}
    {fs : List Fn} (h : pidFns rules dataCols specs = .ok fs) : ∀ f ∈ fs, ¬ Fn.isRule f := by
  unfold pidFns at h
  obtain ⟨l, hl, h⟩ := bind_ok h
  cases h
  intro f hf
  rcases rnd_mem_merge hf with hf | hf
  · cases hf
  · obtain ⟨⟨n, s⟩, _, hg⟩ := filterMapM_ok_mem _ _ _ hl f hf
    simp only at hg
    split at hg
    · split at hg
      · cases hg
      · cases hg
        rintro ⟨_, _, _, hk⟩; cases hk
    · cases hg

theorem timeConvFns_not_rule (fns : List Fn) (dataCols : List String) :
    ∀ f ∈ timeConvFns fns dataCols, ¬ Fn.isRule f := by
  intro f hf
  unfold timeConvFns at hf
  obtain ⟨d, _, rfl⟩ := List.mem_map.mp hf
  rintro ⟨_, _, _, hk⟩; cases hk

theorem groupAggFn_not_rule {fns : List Fn} {name : String} {s : GroupSpec} {f : Fn}
    (h : groupAggFn fns name s = .ok f) : ¬ Fn.isRule f := by
  unfold groupAggFn at h
  split at h
  · cases h
  · split at h
    · cases h; rintro ⟨_, _, _, hk⟩; cases hk
    · split at h
      · cases h
      · cases h; rintro ⟨_, _, _, hk⟩; cases hk
    · cases h

theorem groupAggFns_not_rule {fns : List Fn} {targets dataCols : List String}
    {us : List (String × GroupSpec)} {fs : List Fn}
    (h : groupAggFns fns targets dataCols us = .ok fs) : ∀ f ∈ fs, ¬ Fn.isRule f := by
  unfold groupAggFns at h
  simp only at h
  split at h
  · cases h
  · intro f hf
    obtain ⟨⟨n, s⟩, _, hg⟩ := mapM_ok_mem _ _ _ h f hf
    exact groupAggFn_not_rule hg

theorem groupingFns_not_rule : ∀ f ∈ groupingFns, ¬ Fn.isRule f := by
  intro f hf
  simp only [groupingFns, List.mem_cons, List.not_mem_nil, or_false] at hf
  rcases hf with rfl | rfl | rfl | rfl | rfl | rfl <;> (rintro ⟨_, _, _, hk⟩; cases hk)

/-- every rule of the function set is one of the vectorised user rules -/
theorem buildFunctions_rules {ruleFns : List Fn} {gs : List (String × GroupSpec)}
    {ps : List (String × PidSpec)} {targets dataCols : List String} {all : List Fn}
    (h : buildFunctions ruleFns gs ps targets dataCols = .ok all) :
    ∀ f ∈ all, Fn.isRule f → f ∈ ruleFns := by
  unfold buildFunctions at h
  obtain ⟨pid, hpid, h⟩ := bind_ok h
  obtain ⟨grp, hgrp, h⟩ := bind_ok h
  cases h
  intro f hf hr
  have hrules : f ∈ merge [] ruleFns → f ∈ ruleFns := fun h => by
    rcases rnd_mem_merge h with h | h
    · cases h
    · exact h
  rcases rnd_mem_merge hf with hf | hf
  · rcases rnd_mem_merge hf with hf | hf
    · rcases rnd_mem_merge hf with hf | hf
      · rcases rnd_mem_merge hf with hf | hf
        · exact absurd hr (pidFns_not_rule hpid f hf)
        · exact absurd hr (timeConvFns_not_rule _ _ f hf)
      · exact hrules hf
    · exact absurd hr (groupAggFns_not_rule hgrp f hf)
  · exact absurd hr (groupingFns_not_rule f hf)

theorem prepare_rules {ruleFns : List Fn} {gs : List (String × GroupSpec)}
    {ps : List (String × PidSpec)} {data : List (String × Column)} {targets : List String} {pr : Prep}
    (h : prepare ruleFns gs ps data targets = .ok pr) :
    ∀ f ∈ pr.fns, Fn.isRule f → f ∈ ruleFns := by
  unfold prepare at h
  obtain ⟨typed, _, h⟩ := bind_ok h
  obtain ⟨_, _, h⟩ := bind_ok h
  obtain ⟨all, hall, h⟩ := bind_ok h
  split at h
  · obtain ⟨_, h', _⟩ := bind_ok h
    cases h'
  · obtain ⟨conv, _, h⟩ := bind_ok h
    split at h
    · obtain ⟨_, h', _⟩ := bind_ok h
      cases h'
    · simp only [pure, Except.pure, Except.ok.injEq] at h
      subst h
      intro f hf hr
      exact buildFunctions_rules hall f (List.mem_filter.mp hf).1 hr


theorem mem_necessaryFns {targets : List String} {pr : Prep} {f : Fn} (h : f ∈ rnd_necessaryFns targets pr) :
    f ∈ pr.fns := (List.mem_filter.mp h).1

/-- with `rounding = False` no necessary function is keyed -/
theorem prepare_rounding_off_not_keyed {rules : List Rule} {gs : List (String × GroupSpec)}
    {ps : List (String × PidSpec)} {data : List (String × Column)} {targets : List String} {pr : Prep}
    (h : prepare (rules.map (ruleFn false)) gs ps data targets = .ok pr) :
    ∀ f ∈ pr.fns, ∀ key, ¬ Fn.keyed f key := by
  intro f hf key hk
  obtain ⟨fn, ret, hk⟩ := hk
  have := prepare_rules h f hf ⟨fn, ret, some key, hk⟩
  obtain ⟨r, _, rfl⟩ := List.mem_map.mp this
  cases hk

end GV.Simulate
