import GettsimVerif.Core.ParamsByDate
/-
Helper lemmas for the parameter-loader model `GV.Params` (property C07).
-/
namespace GV.Params
open GV.Yaml GV.Dates

/-! ## 1. `maxOf` / `latest` -/

/-- the step function of `maxOf` -/
def maxStep (a : Option Int) (x : Int) : Option Int :=
  match a with | none => some x | some m => some (max m x)

theorem maxOf_eq_foldl (l : List Int) : maxOf l = l.foldl maxStep none := rfl

theorem foldl_maxStep_some (l : List Int) (m e : Int) :
    l.foldl maxStep (some m) = some e ↔
      (e = m ∨ e ∈ l) ∧ m ≤ e ∧ ∀ x ∈ l, x ≤ e := by
  induction l generalizing m with
  | nil => simp only [List.foldl_nil, Option.some.injEq, List.not_mem_nil, or_false, false_imp_iff,
      implies_true, and_true]; omega
  | cons a t ih =>
    simp only [List.foldl_cons, maxStep, ih, List.mem_cons, forall_eq_or_imp]
    constructor
    · rintro ⟨h1, h2, h3⟩
      refine ⟨?_, by omega, by omega, h3⟩
      rcases h1 with h | h
      · rcases Int.le_total m a with hma | hma
        · right; left; omega
        · left; omega
      · right; right; exact h
    · rintro ⟨h1, h2, h3, h4⟩
      refine ⟨?_, by omega, h4⟩
      rcases h1 with h | h | h
      · left; omega
      · left; omega
      · right; exact h

theorem maxOf_eq_some_iff (l : List Int) (e : Int) :
    maxOf l = some e ↔ e ∈ l ∧ ∀ x ∈ l, x ≤ e := by
  cases l with
  | nil => simp [maxOf]
  | cons a t =>
    rw [maxOf_eq_foldl, List.foldl_cons]
    show t.foldl maxStep (some a) = some e ↔ _
    rw [foldl_maxStep_some]
    simp only [List.mem_cons, forall_eq_or_imp]

theorem maxOf_eq_none_iff (l : List Int) : maxOf l = none ↔ l = [] := by
  cases l with
  | nil => simp [maxOf]
  | cons a t =>
    rw [maxOf_eq_foldl, List.foldl_cons]
    show t.foldl maxStep (some a) = none ↔ _
    have : ∀ (t : List Int) (m : Int), ∃ e, t.foldl maxStep (some m) = some e := by
      intro t
      induction t with
      | nil => intro m; exact ⟨m, rfl⟩
      | cons b t ih => intro m; exact ih _
    obtain ⟨e, he⟩ := this t a
    simp [he]

theorem latest_eq_some_iff (dates : List Int) (d e : Int) :
    latest dates d = some e ↔ e ∈ dates ∧ e ≤ d ∧ ∀ e' ∈ dates, e' ≤ d → e' ≤ e := by
  unfold latest
  rw [maxOf_eq_some_iff]
  simp only [List.mem_filter, decide_eq_true_eq, and_imp, and_assoc]

theorem latest_eq_none_iff (dates : List Int) (d : Int) :
    latest dates d = none ↔ ∀ e ∈ dates, d < e := by
  unfold latest
  rw [maxOf_eq_none_iff, List.filter_eq_nil_iff]
  simp only [decide_eq_true_eq, Int.not_le]

theorem latest_no_entry_between_aux (dates : List Int) (d e : Int) (h : latest dates d = some e) :
    ¬ ∃ e' ∈ dates, e < e' ∧ e' ≤ d := by
  rintro ⟨e', hm, h1, h2⟩
  have := ((latest_eq_some_iff dates d e).1 h).2.2 e' hm h2
  omega

theorem latest_congr_iff (dates : List Int) (d d' : Int) (h : ∀ e ∈ dates, (e ≤ d ↔ e ≤ d')) :
    latest dates d = latest dates d' := by
  unfold latest
  congr 1
  apply List.filter_congr
  intro x hx
  simp only [decide_eq_decide]
  exact h x hx

theorem latest_stable_between_aux (dates : List Int) (d d' e : Int) (h : latest dates d = some e)
    (hdd : d ≤ d') (hno : ∀ e' ∈ dates, ¬ (d < e' ∧ e' ≤ d')) : latest dates d' = some e := by
  rw [← h]
  symm
  apply latest_congr_iff
  intro x hx
  have := hno x hx
  omega

/-! ## 5. `conflictTest` -/

theorem conflictTest_iff_overlap_aux (s e fs fe : Int) (h1 : s ≤ e) (h2 : fs ≤ fe) :
    conflictTest s e fs fe = true ↔ max s fs ≤ min e fe := by
  simp only [conflictTest, Bool.or_eq_true, Bool.and_eq_true, decide_eq_true_eq]
  omega

theorem conflictTest_iff_exists (s e fs fe : Int) (h1 : s ≤ e) (h2 : fs ≤ fe) :
    conflictTest s e fs fe = true ↔ ∃ x, s ≤ x ∧ x ≤ e ∧ fs ≤ x ∧ x ≤ fe := by
  rw [conflictTest_iff_overlap_aux s e fs fe h1 h2]
  constructor
  · intro h; exact ⟨max s fs, by omega, by omega, by omega, by omega⟩
  · rintro ⟨x, hx⟩; omega

/-! ## 6./7. `functionsFor` -/

/-- the name under which an entry is registered in the DAG -/
def nameOf (e : FnEntry) : String := if e.timeDependent then e.dagName else e.fname

/-- the entry is selected at `date` -/
def inclAt (e : FnEntry) (date : Int) : Bool := !e.timeDependent || activeAt e date

/-- the step function of `functionsFor` -/
def fnStep (date : Int) (acc : List (String × FnEntry)) (e : FnEntry) : List (String × FnEntry) :=
  if inclAt e date then
    if acc.any (·.1 = nameOf e) then
      acc.map fun (n, x) => if n = nameOf e then (n, e) else (n, x)
    else acc ++ [(nameOf e, e)]
  else acc

theorem functionsFor_eq_foldl (reg : List FnEntry) (date : Int) :
    functionsFor reg date = reg.foldl (fnStep date) [] := rfl

/-- two entries can never be selected under the same name at the same date: different names, or
both time-dependent with disjoint `[start, stop]` -/
def compatible (a b : FnEntry) : Bool :=
  if a.timeDependent then
    if b.timeDependent then
      decide (a.stop < b.start) || decide (b.stop < a.start) || a.dagName != b.dagName
    else a.dagName != b.fname
  else
    if b.timeDependent then a.fname != b.dagName
    else a.fname != b.fname

/-- an injective numeric key of a string (cheap to compare in the kernel) -/
def strKey (s : String) : Nat := s.toByteArray.data.toList.foldl (fun h b => h * 256 + b.toNat) 1

/-- all pairs `i < j` are compatible; the string comparison is only made for equal keys -/
def pairOK : List (Nat × FnEntry) → Bool
  | [] => true
  | (k, a) :: t => t.all (fun kb => k != kb.1 || compatible a kb.2) && pairOK t

/-- registry well-formedness, in a form that `decide +kernel` evaluates in ≈ 25 s for 400
entries: any two entries at different positions are `compatible` (see `RegOK_iff`). -/
def RegOK (reg : List FnEntry) : Bool := pairOK (reg.map fun e => (strKey (nameOf e), e))

theorem compatible_of_name_ne (a b : FnEntry) (h : nameOf a ≠ nameOf b) : compatible a b = true := by
  unfold nameOf at h
  unfold compatible
  cases hat : a.timeDependent <;> cases hbt : b.timeDependent <;>
    simp only [hat, hbt, Bool.false_eq_true, if_false, if_true, bne_iff_ne, ne_eq,
      Bool.or_eq_true] at h ⊢
  · exact h
  · exact h
  · exact h
  · right; exact h

theorem compatible_symm (a b : FnEntry) (h : compatible a b = true) : compatible b a = true := by
  unfold compatible at h ⊢
  cases hat : a.timeDependent <;> cases hbt : b.timeDependent <;>
    simp only [hat, hbt, Bool.false_eq_true, if_false, if_true, bne_iff_ne, ne_eq,
      Bool.or_eq_true, decide_eq_true_eq] at h ⊢
  · exact fun e => h e.symm
  · exact fun e => h e.symm
  · exact fun e => h e.symm
  · rcases h with (h | h) | h
    · left; right; exact h
    · left; left; exact h
    · right; exact fun e => h e.symm

theorem pairOK_map_iff (reg : List FnEntry) :
    pairOK (reg.map fun e => (strKey (nameOf e), e)) = true ↔
      reg.Pairwise (fun a b => compatible a b = true) := by
  induction reg with
  | nil => simp [pairOK]
  | cons a t ih =>
    simp only [List.map_cons, pairOK, Bool.and_eq_true, ih, List.pairwise_cons, List.all_eq_true,
      List.mem_map, forall_exists_index, and_imp, forall_apply_eq_imp_iff₂, Bool.or_eq_true,
      bne_iff_ne, ne_eq]
    constructor
    · rintro ⟨h1, h2⟩
      refine ⟨fun b hb => ?_, h2⟩
      rcases h1 b hb with h | h
      · exact compatible_of_name_ne a b (fun e => h (congrArg strKey e))
      · exact h
    · rintro ⟨h1, h2⟩
      exact ⟨fun b hb => Or.inr (h1 b hb), h2⟩

theorem RegOK_iff (reg : List FnEntry) :
    RegOK reg = true ↔ reg.Pairwise (fun a b => compatible a b = true) := pairOK_map_iff reg

theorem pairwise_mem_or {α : Type} (R : α → α → Prop) (hs : ∀ a b, R a b → R b a) (l : List α)
    (h : l.Pairwise R) : ∀ a ∈ l, ∀ b ∈ l, a = b ∨ R a b := by
  induction l with
  | nil => intro a ha; cases ha
  | cons x t ih =>
    rw [List.pairwise_cons] at h
    intro a ha b hb
    rw [List.mem_cons] at ha hb
    rcases ha with ha | ha <;> rcases hb with hb | hb
    · left; rw [ha, hb]
    · right; rw [ha]; exact h.1 b hb
    · right; rw [hb]; exact hs _ _ (h.1 a ha)
    · exact ih h.2 a ha b hb

theorem compatible_spec (a b : FnEntry) (d : Int) (hc : compatible a b = true)
    (ha : inclAt a d = true) (hb : inclAt b d = true) : nameOf a ≠ nameOf b := by
  unfold compatible at hc
  unfold inclAt activeAt at ha hb
  unfold nameOf
  cases hat : a.timeDependent <;> cases hbt : b.timeDependent <;>
    simp only [hat, hbt, Bool.false_eq_true, if_false, if_true, bne_iff_ne, ne_eq, Bool.or_eq_true,
      decide_eq_true_eq, Bool.not_true, Bool.not_false, Bool.false_or, Bool.true_or,
      Bool.and_eq_true] at hc ha hb ⊢
  · exact hc
  · exact hc
  · exact hc
  · intro h
    rcases hc with (hc | hc) | hc
    · omega
    · omega
    · exact hc h

theorem RegOK_spec (reg : List FnEntry) (h : RegOK reg = true) (d : Int) :
    ∀ a ∈ reg, ∀ b ∈ reg, inclAt a d = true → inclAt b d = true → nameOf a = nameOf b → a = b := by
  intro a ha b hb hia hib hn
  rcases pairwise_mem_or _ compatible_symm reg ((RegOK_iff reg).1 h) a ha b hb with h2 | h2
  · exact h2
  · exact absurd hn (compatible_spec a b d h2 hia hib)

/-- invariant of the fold: `acc` is exactly the set of selected entries of `pre`, keyed by name,
with pairwise different names -/
def FnInv (d : Int) (pre : List FnEntry) (acc : List (String × FnEntry)) : Prop :=
  (acc.map (·.1)).Nodup ∧ ∀ n e, (n, e) ∈ acc ↔ e ∈ pre ∧ inclAt e d = true ∧ nameOf e = n

theorem fnStep_inv (d : Int) (reg pre : List FnEntry) (e : FnEntry) (acc : List (String × FnEntry))
    (hc : ∀ a ∈ reg, ∀ b ∈ reg, inclAt a d = true → inclAt b d = true → nameOf a = nameOf b → a = b)
    (hpre : ∀ x ∈ pre, x ∈ reg) (he : e ∈ reg) (hinv : FnInv d pre acc) :
    FnInv d (pre ++ [e]) (fnStep d acc e) := by
  obtain ⟨hnd, hiff⟩ := hinv
  unfold fnStep
  by_cases hi : inclAt e d = true
  · simp only [hi, if_true]
    by_cases hany : acc.any (·.1 = nameOf e) = true
    · simp only [hany, if_true]
      rw [List.any_eq_true] at hany
      obtain ⟨⟨n, x⟩, hmem, hn⟩ := hany
      simp only [decide_eq_true_eq] at hn
      subst hn
      have hx := (hiff _ _).1 hmem
      have hxe : x = e := hc x (hpre x hx.1) e he hx.2.1 hi hx.2.2
      subst hxe
      have hmap : (acc.map fun (p : String × FnEntry) =>
          if p.1 = nameOf x then (p.1, x) else (p.1, p.2)) = acc := by
        conv => rhs; rw [← List.map_id acc]
        apply List.map_congr_left
        rintro ⟨n, y⟩ hy
        by_cases hny : n = nameOf x
        · simp only [hny, if_true, id]
          have hy' := (hiff _ _).1 hy
          have : y = x := hc y (hpre y hy'.1) x he hy'.2.1 hi (hy'.2.2.trans hny)
          rw [this]
        · simp only [hny, if_false, id]
      rw [hmap]
      refine ⟨hnd, fun n e' => ?_⟩
      rw [hiff, List.mem_append, List.mem_singleton]
      constructor
      · rintro ⟨h1, h2⟩; exact ⟨Or.inl h1, h2⟩
      · rintro ⟨h1 | h1, h2⟩
        · exact ⟨h1, h2⟩
        · subst h1; exact ⟨hx.1, h2⟩
    · rw [if_neg hany]
      rw [Bool.not_eq_true, List.any_eq_false] at hany
      refine ⟨?_, fun n e' => ?_⟩
      · rw [List.map_append, List.nodup_append]
        refine ⟨hnd, by simp, ?_⟩
        intro a ha b hb
        simp only [List.map_cons, List.map_nil, List.mem_singleton] at hb
        subst hb
        rw [List.mem_map] at ha
        obtain ⟨p, hp, hpa⟩ := ha
        have := hany p hp
        simp only [decide_eq_true_eq] at this
        rw [← hpa]; exact this
      · rw [List.mem_append, List.mem_singleton, hiff, List.mem_append, List.mem_singleton]
        constructor
        · rintro (⟨h1, h2⟩ | h)
          · exact ⟨Or.inl h1, h2⟩
          · injection h with h1 h2
            subst h2; exact ⟨Or.inr rfl, hi, h1.symm⟩
        · rintro ⟨h1 | h1, h2, h3⟩
          · exact Or.inl ⟨h1, h2, h3⟩
          · subst h1; right; rw [h3]
  · rw [if_neg hi]
    refine ⟨hnd, fun n e' => ?_⟩
    rw [hiff, List.mem_append, List.mem_singleton]
    constructor
    · rintro ⟨h1, h2⟩; exact ⟨Or.inl h1, h2⟩
    · rintro ⟨h1 | h1, h2⟩
      · exact ⟨h1, h2⟩
      · subst h1; exact absurd h2.1 hi

theorem foldl_fnStep_inv (d : Int) (reg : List FnEntry)
    (hc : ∀ a ∈ reg, ∀ b ∈ reg, inclAt a d = true → inclAt b d = true → nameOf a = nameOf b → a = b) :
    ∀ (rest pre : List FnEntry) (acc : List (String × FnEntry)),
      pre ++ rest = reg → FnInv d pre acc → FnInv d reg (rest.foldl (fnStep d) acc) := by
  intro rest
  induction rest with
  | nil => intro pre acc h hinv; rw [List.append_nil] at h; subst h; exact hinv
  | cons e t ih =>
    intro pre acc h hinv
    rw [List.foldl_cons]
    apply ih (pre ++ [e])
    · rw [List.append_assoc]; exact h
    · apply fnStep_inv d reg pre e acc hc _ _ hinv
      · intro x hx; rw [← h]; exact List.mem_append_left _ hx
      · rw [← h]; exact List.mem_append_right _ (List.mem_cons_self ..)

theorem functionsFor_inv (reg : List FnEntry) (h : RegOK reg = true) (d : Int) :
    FnInv d reg (functionsFor reg d) := by
  rw [functionsFor_eq_foldl]
  apply foldl_fnStep_inv d reg (RegOK_spec reg h d) reg [] [] (List.nil_append _)
  exact ⟨List.nodup_nil, fun n e => by simp⟩

theorem foldl_congr_mem {α β : Type} (f g : β → α → β) (l : List α)
    (h : ∀ a ∈ l, ∀ b, f b a = g b a) : ∀ b, l.foldl f b = l.foldl g b := by
  induction l with
  | nil => intro b; rfl
  | cons a t ih =>
    intro b
    rw [List.foldl_cons, List.foldl_cons, h a (List.mem_cons_self ..) b]
    exact ih (fun x hx => h x (List.mem_cons_of_mem _ hx)) _

theorem functionsFor_congr (reg : List FnEntry) (d d' : Int)
    (h : ∀ e ∈ reg, activeAt e d = activeAt e d') : functionsFor reg d = functionsFor reg d' := by
  rw [functionsFor_eq_foldl, functionsFor_eq_foldl]
  apply foldl_congr_mem
  intro e he acc
  unfold fnStep inclAt
  rw [h e he]


/-- the names in the result are pairwise different (no hypothesis on the registry needed) -/
theorem functionsFor_names_nodup (reg : List FnEntry) (d : Int) :
    ((functionsFor reg d).map (·.1)).Nodup := by
  rw [functionsFor_eq_foldl]
  have : ∀ (l : List FnEntry) (acc : List (String × FnEntry)), (acc.map (·.1)).Nodup →
      ((l.foldl (fnStep d) acc).map (·.1)).Nodup := by
    intro l
    induction l with
    | nil => intro acc h; exact h
    | cons e t ih =>
      intro acc h
      rw [List.foldl_cons]
      apply ih
      unfold fnStep
      split
      · split
        · rename_i hany
          have : (acc.map fun (p : String × FnEntry) =>
              if p.1 = nameOf e then (p.1, e) else (p.1, p.2)).map (·.1) = acc.map (·.1) := by
            rw [List.map_map]
            apply List.map_congr_left
            intro p _
            simp only [Function.comp]
            split <;> rfl
          rw [this]; exact h
        · rename_i hany
          rw [Bool.not_eq_true, List.any_eq_false] at hany
          rw [List.map_append, List.nodup_append]
          refine ⟨h, by simp, ?_⟩
          intro a ha b hb
          simp only [List.map_cons, List.map_nil, List.mem_singleton] at hb
          subst hb
          rw [List.mem_map] at ha
          obtain ⟨p, hp, hpa⟩ := ha
          have := hany p hp
          simp only [decide_eq_true_eq] at this
          rw [← hpa]; exact this
      · exact h
  exact this reg [] List.nodup_nil

theorem assoc_unique {α β : Type} (l : List (α × β)) (h : (l.map (·.1)).Nodup) (k : α) (a b : β)
    (ha : (k, a) ∈ l) (hb : (k, b) ∈ l) : a = b := by
  induction l with
  | nil => cases ha
  | cons hd t ih =>
    rw [List.map_cons, List.nodup_cons] at h
    rw [List.mem_cons] at ha hb
    rcases ha with ha | ha <;> rcases hb with hb | hb
    · rw [← ha] at hb; injection hb with _ hb; exact hb.symm
    · exact absurd (List.mem_map.2 ⟨(k, b), hb, rfl⟩) (by rw [← ha] at h; exact h.1)
    · exact absurd (List.mem_map.2 ⟨(k, a), ha, rfl⟩) (by rw [← hb] at h; exact h.1)
    · exact ih h.2 ha hb

/-! ## 3. the cut theorem -/

mutual
/-- every `Key.d o` key occurring at any depth of a YAML tree -/
def entryDates : Y → List Int
  | .list xs => entryDatesL xs
  | .dict kvs => entryDatesKV kvs
  | _ => []
def entryDatesL : List Y → List Int
  | [] => []
  | x :: xs => entryDates x ++ entryDatesL xs
def entryDatesKV : List (Key × Y) → List Int
  | [] => []
  | (k, v) :: rest => (match k with | .d o => [o] | _ => []) ++ (entryDates v ++ entryDatesKV rest)
end

def allEntryDates : Raw → List Int
  | [] => []
  | (_, y) :: rest => entryDates y ++ allEntryDates rest


theorem entryDatesKV_of_get (kvs : List (Key × Y)) (k : Key) (v : Y) (h : kvGet? kvs k = some v) :
    ∀ o ∈ entryDates v, o ∈ entryDatesKV kvs := by
  induction kvs with
  | nil => simp [kvGet?] at h
  | cons hd t ih =>
    obtain ⟨k', v'⟩ := hd
    intro o ho
    simp only [kvGet?] at h
    simp only [entryDatesKV, List.mem_append]
    split at h
    · injection h with h; subst h; right; left; exact ho
    · right; right; exact ih h o ho

theorem policyDates_sub_entryDates (p : Y) : ∀ o ∈ policyDates p, o ∈ entryDates p := by
  cases p with
  | dict kvs =>
    simp only [policyDates, Y.keys, entryDates]
    induction kvs with
    | nil => simp
    | cons hd t ih =>
      obtain ⟨k, v⟩ := hd
      intro o ho
      simp only [List.map_cons, List.filterMap_cons] at ho
      simp only [entryDatesKV, List.mem_append]
      cases k with
      | d x =>
        simp only [List.mem_cons] at ho
        rcases ho with ho | ho
        · left; simp [ho]
        · right; right; exact ih o ho
      | s x => right; right; exact ih o ho
      | i x => right; right; exact ih o ho
  | _ => simp [policyDates, Y.keys]

theorem entryDates_of_get (g : Y) (k : Key) (v : Y) (h : g.get? k = some v) :
    ∀ o ∈ entryDates v, o ∈ entryDates g := by
  cases g with
  | dict kvs => simp only [Y.get?] at h; simp only [entryDates]; exact entryDatesKV_of_get kvs k v h
  | _ => simp [Y.get?] at h

theorem allEntryDates_of_group (raw : Raw) (g : String) (y : Y) (h : raw.group? g = some y) :
    ∀ o ∈ entryDates y, o ∈ allEntryDates raw := by
  induction raw with
  | nil => simp [Raw.group?] at h
  | cons hd t ih =>
    obtain ⟨n, y'⟩ := hd
    intro o ho
    simp only [Raw.group?] at h
    simp only [allEntryDates, List.mem_append]
    split at h
    · injection h with h; subst h; left; exact ho
    · right; exact ih h o ho

theorem entryDatesKV_of_mem (kvs : List (Key × Y)) (kv : Key × Y) (h : kv ∈ kvs) :
    ∀ o ∈ entryDates kv.2, o ∈ entryDatesKV kvs := by
  induction kvs with
  | nil => cases h
  | cons hd t ih =>
    obtain ⟨k', v'⟩ := hd
    intro o ho
    simp only [entryDatesKV, List.mem_append]
    rw [List.mem_cons] at h
    rcases h with h | h
    · subst h; right; left; exact ho
    · right; right; exact ih h o ho

/-! ### cells -/

/-- `d` and `d'` are on the same side of every date in `E` -/
def sameCutAt (E : List Int) (d d' : Int) : Prop := ∀ e ∈ E, (e ≤ d ↔ e ≤ d')

instance (E : List Int) (d d' : Int) : Decidable (sameCutAt E d d') := by
  unfold sameCutAt; infer_instance

/-- `d` and `d'` are in the same cell w.r.t. everything the loader probes within `fuel` levels
of recursion: the cut itself, the test `jan1 date = date`, and recursively the dates
`subYear date` and `jan1 date`. -/
def Similar (E : List Int) : Nat → Int → Int → Prop
  | 0, _, _ => True
  | n + 1, d, d' => sameCutAt E d d' ∧ (jan1 d = d ↔ jan1 d' = d') ∧
      Similar E n (subYear d) (subYear d') ∧ Similar E n (jan1 d) (jan1 d')

instance Similar.dec (E : List Int) : (n : Nat) → (d d' : Int) → Decidable (Similar E n d d')
  | 0, _, _ => isTrue trivial
  | n + 1, d, d' =>
    have := Similar.dec E n (subYear d) (subYear d')
    have := Similar.dec E n (jan1 d) (jan1 d')
    by unfold Similar; infer_instance

theorem Similar_mono (E : List Int) (n : Nat) : ∀ d d', Similar E (n + 1) d d' → Similar E n d d' := by
  induction n with
  | zero => intro d d' _; trivial
  | succ n ih =>
    intro d d' h
    obtain ⟨h1, h2, h3, h4⟩ := h
    exact ⟨h1, h2, ih _ _ h3, ih _ _ h4⟩

theorem Similar_refl (E : List Int) (n : Nat) : ∀ d, Similar E n d d := by
  induction n with
  | zero => intro d; trivial
  | succ n ih => intro d; exact ⟨fun _ _ => Iff.rfl, Iff.rfl, ih _, ih _⟩

theorem latest_of_sameCut (E : List Int) (d d' : Int) (h : sameCutAt E d d') (dates : List Int)
    (hs : ∀ o ∈ dates, o ∈ E) : latest dates d = latest dates d' :=
  latest_congr_iff dates d d' fun e he => h e (hs e he)

/-! ### `loadRounding` -/

theorem foldlM_congr_mem {α β : Type} (f g : β → α → Except Err β) (l : List α)
    (h : ∀ a ∈ l, ∀ b, f b a = g b a) : ∀ b, l.foldlM f b = l.foldlM g b := by
  induction l with
  | nil => intro b; rfl
  | cons a t ih =>
    intro b
    rw [List.foldlM_cons, List.foldlM_cons, h a (List.mem_cons_self ..) b]
    congr 1
    funext b'
    exact ih (fun x hx => h x (List.mem_cons_of_mem _ hx)) _

theorem loadRounding_congr (copied : List String) (spec : Y) (d d' : Int)
    (h : sameCutAt (entryDates spec) d d') :
    loadRounding copied d spec = loadRounding copied d' spec := by
  cases spec with
  | dict kvs =>
    simp only [loadRounding]
    rw [foldlM_congr_mem (roundingStep copied d) (roundingStep copied d') kvs]
    intro kv hkv out
    unfold roundingStep
    rw [latest_of_sameCut _ d d' h]
    intro o ho
    simp only [entryDates]
    exact entryDatesKV_of_mem kvs kv hkv o (policyDates_sub_entryDates _ o ho)
  | _ => rfl

/-! ### stripping `datum` -/

def datumKey : Key := .s "datum"

/-- remove the `datum` entry of a loaded group -/
def stripDatum (kvs : List (Key × Y)) : List (Key × Y) := kvs.filter fun kv => kv.1 != datumKey

theorem stripDatum_kvSet_datum (l : List (Key × Y)) (v : Y) :
    stripDatum (kvSet l datumKey v) = stripDatum l := by
  induction l with
  | nil => simp [kvSet, stripDatum]
  | cons hd t ih =>
    obtain ⟨k, w⟩ := hd
    simp only [kvSet]
    by_cases hk : k = datumKey
    · simp [hk, stripDatum]
    · simp only [hk, if_false]
      unfold stripDatum at ih ⊢
      rw [List.filter_cons, List.filter_cons, ih]

theorem stripDatum_kvSet_ne (l : List (Key × Y)) (k : Key) (v : Y) (hk : k ≠ datumKey) :
    stripDatum (kvSet l k v) = kvSet (stripDatum l) k v := by
  induction l with
  | nil => simp [kvSet, stripDatum, hk]
  | cons hd t ih =>
    obtain ⟨k', w⟩ := hd
    simp only [kvSet]
    by_cases hkk : k' = k
    · subst hkk
      simp [stripDatum, hk, kvSet]
    · simp only [hkk, if_false]
      unfold stripDatum at ih ⊢
      rw [List.filter_cons, List.filter_cons, ih]
      by_cases hd : k' = datumKey
      · simp [hd]
      · simp [hd, kvSet, hkk]

theorem kvGet?_stripDatum (l : List (Key × Y)) (k : Key) (hk : k ≠ datumKey) :
    kvGet? (stripDatum l) k = kvGet? l k := by
  induction l with
  | nil => rfl
  | cons hd t ih =>
    obtain ⟨k', w⟩ := hd
    unfold stripDatum at ih ⊢
    rw [List.filter_cons]
    by_cases hd : k' = datumKey
    · subst hd
      have : ¬ datumKey = k := fun e => hk e.symm
      simp [kvGet?, this, ih]
    · simp only [bne_iff_ne, ne_eq, hd, not_false_eq_true, if_true, kvGet?, ih]

/-- equality of two loader results up to the `datum` entry -/
def EqUpToDatum (r r' : Except Err (List (Key × Y))) : Prop :=
  r.map stripDatum = r'.map stripDatum

theorem eqUpToDatum_cases (r r' : Except Err (List (Key × Y))) (h : EqUpToDatum r r') :
    (∃ e, r = .error e ∧ r' = .error e) ∨
    (∃ a b, r = .ok a ∧ r' = .ok b ∧ stripDatum a = stripDatum b) := by
  unfold EqUpToDatum at h
  cases r <;> cases r' <;> simp only [Except.map] at h
  · left; injection h with h; exact ⟨_, rfl, by rw [h]⟩
  · cases h
  · cases h
  · right; injection h with h; exact ⟨_, _, rfl, rfl, h⟩

/-- two entries are equal, or both are a `datum ↦ date` entry -/
def DatumEqE (a b : Key × Y) : Prop := a = b ∨ ∃ x y, a = (datumKey, .date x) ∧ b = (datumKey, .date y)

/-- two loaded groups agree entry by entry, except for the dates stored under `datum` -/
def DatumEq : List (Key × Y) → List (Key × Y) → Prop
  | [], [] => True
  | a :: t, b :: t' => DatumEqE a b ∧ DatumEq t t'
  | _, _ => False

theorem DatumEqE.fst {a b : Key × Y} (h : DatumEqE a b) : a.1 = b.1 := by
  rcases h with h | ⟨x, y, h1, h2⟩
  · rw [h]
  · rw [h1, h2]

theorem DatumEq_refl : ∀ l, DatumEq l l
  | [] => trivial
  | _ :: t => ⟨Or.inl rfl, DatumEq_refl t⟩

theorem DatumEq_kvSet_datum (l : List (Key × Y)) (x y : Int) :
    DatumEq (kvSet l datumKey (.date x)) (kvSet l datumKey (.date y)) := by
  induction l with
  | nil => exact ⟨Or.inr ⟨x, y, rfl, rfl⟩, trivial⟩
  | cons hd t ih =>
    obtain ⟨k, w⟩ := hd
    simp only [kvSet]
    by_cases hk : k = datumKey
    · simp only [hk, if_true]; exact ⟨Or.inr ⟨x, y, rfl, rfl⟩, DatumEq_refl t⟩
    · simp only [hk, if_false]; exact ⟨Or.inl rfl, ih⟩

theorem DatumEq_kvSet : ∀ (l l' : List (Key × Y)) (k : Key) (v : Y), DatumEq l l' →
    DatumEq (kvSet l k v) (kvSet l' k v)
  | [], [], k, v, _ => ⟨Or.inl rfl, trivial⟩
  | [], _ :: _, _, _, h => h.elim
  | _ :: _, [], _, _, h => h.elim
  | (k1, v1) :: t, (k2, v2) :: t', k, v, h => by
    have hk : k1 = k2 := h.1.fst
    subst hk
    simp only [kvSet]
    by_cases hk : k1 = k
    · simp only [hk, if_true]; exact ⟨Or.inl rfl, h.2⟩
    · simp only [hk, if_false]; exact ⟨h.1, DatumEq_kvSet t t' k v h.2⟩

theorem DatumEq_strip : ∀ (l l' : List (Key × Y)), DatumEq l l' → stripDatum l = stripDatum l'
  | [], [], _ => rfl
  | [], _ :: _, h => h.elim
  | _ :: _, [], h => h.elim
  | a :: t, b :: t', h => by
    have ih := DatumEq_strip t t' h.2
    unfold stripDatum at ih ⊢
    rw [List.filter_cons, List.filter_cons, ih]
    rcases h.1 with h1 | ⟨x, y, h1, h2⟩
    · rw [h1]
    · rw [h1, h2]; simp

/-- lifting of a relation to `Except Err`: same error, or related values -/
def ERel {α β : Type} (R : α → β → Prop) (r : Except Err α) (r' : Except Err β) : Prop :=
  match r, r' with
  | .error e, .error e' => e = e'
  | .ok a, .ok b => R a b
  | _, _ => False

theorem ERel.bind {α β γ δ : Type} {R : α → β → Prop} {S : γ → δ → Prop}
    {r : Except Err α} {r' : Except Err β} {f : α → Except Err γ} {g : β → Except Err δ}
    (h : ERel R r r') (hf : ∀ a b, R a b → ERel S (f a) (g b)) : ERel S (r >>= f) (r' >>= g) := by
  cases r <;> cases r'
  · exact h
  · exact h.elim
  · exact h.elim
  · exact hf _ _ h

theorem ERel.bind_same {α γ δ : Type} {S : γ → δ → Prop}
    (r : Except Err α) {f : α → Except Err γ} {g : α → Except Err δ}
    (hf : ∀ a, ERel S (f a) (g a)) : ERel S (r >>= f) (r >>= g) := by
  cases r
  · exact rfl
  · exact hf _

theorem ERel.map_eq {α β γ : Type} {R : α → β → Prop} {r : Except Err α} {r' : Except Err β}
    (h : ERel R r r') (φ : α → γ) (ψ : β → γ) (hφ : ∀ a b, R a b → φ a = ψ b) :
    r.map φ = r'.map ψ := by
  cases r <;> cases r'
  · have h : _ = _ := h
    rw [h]; rfl
  · exact h.elim
  · exact h.elim
  · simp only [Except.map, hφ _ _ h]

/-- equality of two loader results up to the date stored under `datum` (same error, or
`DatumEq` values) -/
abbrev RelUpToDatum (r r' : Except Err (List (Key × Y))) : Prop := ERel DatumEq r r'

theorem RelUpToDatum.eqUpToDatum {r r' : Except Err (List (Key × Y))} (h : RelUpToDatum r r') :
    EqUpToDatum r r' := by
  unfold EqUpToDatum
  cases r <;> cases r'
  · have h : _ = _ := h
    rw [h]
  · exact h.elim
  · exact h.elim
  · have h : DatumEq _ _ := h
    simp only [Except.map, DatumEq_strip _ _ h]

/-! ### the loop body depends on the date only through its probes -/

theorem paramBody_congr (look : Look) (p : Y) (d d' : Int) (group param : String) (pk : Key)
    (out : List (Key × Y))
    (hl : latest (policyDates p) d = latest (policyDates p) d')
    (hk : look d = look d') (hv : look (subYear d) = look (subYear d'))
    (hj : look (jan1 d) = look (jan1 d')) (hjj : jan1 d = d ↔ jan1 d' = d') :
    paramBody look p d group param pk out = paramBody look p d' group param pk out := by
  unfold paramBody futureStep entryValue devBase accessStep
  rw [hl, hk, hv, hj]
  by_cases h : jan1 d = d
  · simp only [h, hjj.1 h, if_true]
  · have h' : ¬ jan1 d' = d' := fun e => h (hjj.2 e)
    simp only [h, h', if_false]

theorem paramStep_congr (look : Look) (g : Y) (d d' : Int) (group : String)
    (hl : ∀ pk p, g.get? pk = some p → latest (policyDates p) d = latest (policyDates p) d')
    (hk : look d = look d') (hv : look (subYear d) = look (subYear d'))
    (hj : look (jan1 d) = look (jan1 d')) (hjj : jan1 d = d ↔ jan1 d' = d') :
    paramStep look g d group = paramStep look g d' group := by
  funext out pk
  unfold paramStep
  cases pk with
  | s n =>
    cases g with
    | dict kvs =>
      simp only [sub]
      cases hg : kvGet? kvs (.s n) with
      | none => rfl
      | some p =>
        show paramBody look p d group n (.s n) out = paramBody look p d' group n (.s n) out
        exact paramBody_congr look p d d' group n _ out (hl (.s n) p hg) hk hv hj hjj
    | _ => rfl
  | _ => rfl

/-! ### the cut theorem -/

/-- the recursive call of `loadGroup` as a `Look` -/
def lookOf (copied : List String) (raw : Raw) (fuel : Nat) : Look := fun date' group' param' => do
  let tmp ← loadGroup copied raw fuel date' group' (some [param'])
  pure (kvGet? tmp (.s param'))

theorem loadGroup_succ (copied : List String) (raw : Raw) (fuel : Nat) (date : Int) (group : String)
    (parameters : Option (List String)) :
    loadGroup copied raw (fuel + 1) date group parameters =
      (match raw.group? group with
       | none => .error Err.other
       | some g =>
         (((match parameters with
            | some ps => ps.map Key.s
            | none => g.keys.filter (· ≠ Key.s "rounding")).foldlM
              (paramStep (lookOf copied raw fuel) g date group) []) >>=
          finishGroup copied g date)) := by
  cases h : raw.group? group <;> simp only [loadGroup, h] <;> rfl

/-- no group has a top-level key `datum` (a parameter of that name would be shadowed by, and
its recursive lookups would leak, the `datum` entry the loader adds) -/
def NoDatum (raw : Raw) : Bool := raw.all fun ny => !ny.2.keys.contains datumKey

theorem NoDatum_group (raw : Raw) (h : NoDatum raw = true) (g : String) (y : Y)
    (hg : raw.group? g = some y) : y.get? datumKey = none := by
  induction raw with
  | nil => simp [Raw.group?] at hg
  | cons hd t ih =>
    obtain ⟨n, y'⟩ := hd
    simp only [NoDatum, List.all_cons, Bool.and_eq_true] at h
    simp only [Raw.group?] at hg
    split at hg
    · injection hg with hg; subst hg
      have h1 := h.1
      cases y' with
      | dict kvs =>
        simp only [Y.keys, Bool.not_eq_true', List.contains_eq_mem, List.mem_map,
          decide_eq_false_iff_not, not_exists, not_and] at h1
        simp only [Y.get?]
        clear h ih
        induction kvs with
        | nil => rfl
        | cons kv kvs ih2 =>
          obtain ⟨k, v⟩ := kv
          simp only [kvGet?]
          have := h1 (k, v) (List.mem_cons_self ..)
          simp only at this
          rw [if_neg this]
          exact ih2 fun x hx => h1 x (List.mem_cons_of_mem _ hx)
      | _ => rfl
    · exact ih h.2 hg

theorem sub_none (g : Y) (k : Key) (h : g.get? k = none) : ∃ e, sub g k = .error e := by
  cases g with
  | dict kvs => simp only [Y.get?] at h; simp only [sub, h]; exact ⟨_, rfl⟩
  | _ => exact ⟨_, rfl⟩

theorem lookOf_datum (copied : List String) (raw : Raw) (hnd : NoDatum raw = true) (fuel : Nat)
    (x x' : Int) (g : String) :
    lookOf copied raw fuel x g "datum" = lookOf copied raw fuel x' g "datum" := by
  unfold lookOf
  cases fuel with
  | zero => rfl
  | succ n =>
    rw [loadGroup_succ, loadGroup_succ]
    cases hg : raw.group? g with
    | none => rfl
    | some gy =>
      obtain ⟨e, he⟩ := sub_none gy datumKey (NoDatum_group raw hnd g gy hg)
      simp only [List.map_cons, List.map_nil, List.foldlM_cons, paramStep]
      have he' : sub gy (Key.s "datum") = .error e := he
      simp only [he']
      rfl

theorem lookOf_cut (copied : List String) (raw : Raw) (hnd : NoDatum raw = true) (fuel : Nat)
    (x x' : Int)
    (h : ∀ g ps, EqUpToDatum (loadGroup copied raw fuel x g ps) (loadGroup copied raw fuel x' g ps)) :
    lookOf copied raw fuel x = lookOf copied raw fuel x' := by
  funext g q
  by_cases hq : q = "datum"
  · subst hq; exact lookOf_datum copied raw hnd fuel x x' g
  · have hk : Key.s q ≠ datumKey := fun e => hq (by injection e)
    unfold lookOf
    rcases eqUpToDatum_cases _ _ (h g (some [q])) with ⟨e, h1, h2⟩ | ⟨a, b, h1, h2, h3⟩
    · rw [h1, h2]
    · rw [h1, h2]
      show Except.ok (kvGet? a (.s q)) = Except.ok (kvGet? b (.s q))
      rw [← kvGet?_stripDatum a _ hk, ← kvGet?_stripDatum b _ hk, h3]

theorem finishGroup_cut (copied : List String) (g : Y) (d d' : Int) (out : List (Key × Y))
    (h : sameCutAt (entryDates g) d d') :
    RelUpToDatum (finishGroup copied g d out) (finishGroup copied g d' out) := by
  unfold finishGroup
  cases hg : g.get? (.s "rounding") with
  | none => exact DatumEq_kvSet_datum out d d'
  | some r =>
    simp only
    rw [loadRounding_congr copied r d d' fun e he => h e (entryDates_of_get g _ r hg e he)]
    cases loadRounding copied d' r with
    | error e => exact rfl
    | ok rr => exact DatumEq_kvSet _ _ _ _ (DatumEq_kvSet_datum out d d')

theorem loadGroup_cut_aux (copied : List String) (raw : Raw) (hnd : NoDatum raw = true) (fuel : Nat) :
    ∀ x x', Similar (allEntryDates raw) fuel x x' → ∀ g ps,
      RelUpToDatum (loadGroup copied raw fuel x g ps) (loadGroup copied raw fuel x' g ps) := by
  induction fuel with
  | zero => intro x x' _ g ps; exact rfl
  | succ n ih =>
    intro x x' hs g ps
    have hs' := Similar_mono _ _ _ _ hs
    obtain ⟨h1, h2, h3, h4⟩ := hs
    have hk := lookOf_cut copied raw hnd n x x' fun g ps => (ih x x' hs' g ps).eqUpToDatum
    have hv := lookOf_cut copied raw hnd n _ _ fun g ps => (ih _ _ h3 g ps).eqUpToDatum
    have hj := lookOf_cut copied raw hnd n _ _ fun g ps => (ih _ _ h4 g ps).eqUpToDatum
    rw [loadGroup_succ, loadGroup_succ]
    cases hg : raw.group? g with
    | none => exact rfl
    | some gy =>
      have hE : ∀ o ∈ entryDates gy, o ∈ allEntryDates raw := allEntryDates_of_group raw g gy hg
      simp only
      rw [paramStep_congr (lookOf copied raw n) gy x x' g _ hk hv hj h2]
      · cases (List.foldlM (paramStep (lookOf copied raw n) gy x' g) []
          (match ps with
            | some ps => ps.map Key.s
            | none => gy.keys.filter (· ≠ Key.s "rounding"))) with
        | error e => exact rfl
        | ok out => exact finishGroup_cut copied gy x x' out fun e he => h1 e (hE e he)
      · intro pk p hp
        apply latest_of_sameCut _ x x' h1
        intro o ho
        exact hE o (entryDates_of_get gy pk p hp o (policyDates_sub_entryDates p o ho))


/-! ## 4. `env` -/

theorem parseGroup_rel : ∀ (l l' : List (Key × Y)), DatumEq l l' →
    RelUpToDatum (parseGroup l) (parseGroup l')
  | [], [], _ => by exact (trivial : DatumEq [] [])
  | [], _ :: _, h => h.elim
  | _ :: _, [], h => h.elim
  | a :: t, b :: t', h => by
    have ih := parseGroup_rel t t' h.2
    unfold parseGroup at ih ⊢
    rw [List.mapM_cons, List.mapM_cons]
    rcases h.1 with h1 | ⟨x, y, h1, h2⟩
    · subst h1
      apply ERel.bind_same
      intro kv
      apply ERel.bind ih
      intro u u' huu
      exact ⟨Or.inl rfl, huu⟩
    · subst h1; subst h2
      show ERel DatumEq (pure (datumKey, Y.date x) >>= _) (pure (datumKey, Y.date y) >>= _)
      apply ERel.bind (R := DatumEqE)
      · exact Or.inr ⟨x, y, rfl, rfl⟩
      · intro a b hab
        apply ERel.bind ih
        intro u u' huu
        exact ⟨hab, huu⟩

/-- strip `datum` from one loaded group -/
def stripG : Y → Y
  | .dict kvs => .dict (stripDatum kvs)
  | o => o

/-- strip `datum` from every group of the loaded list -/
def stripEnvL (loaded : List (Key × Y)) : List (Key × Y) := loaded.map fun kv => (kv.1, stripG kv.2)

/-- strip `datum` from every group of the environment -/
def stripEnv : Y → Y
  | .dict l => .dict (stripEnvL l)
  | o => o

theorem envLoad_cut (copied : List String) (groups : List String) (raw : Raw)
    (hnd : NoDatum raw = true) (fuel : Nat) (d d' : Int)
    (h : Similar (allEntryDates raw) fuel d d') :
    (envLoad copied groups raw fuel d).map stripEnvL = (envLoad copied groups raw fuel d').map stripEnvL := by
  apply ERel.map_eq (R := fun l l' => stripEnvL l = stripEnvL l') _ _ _ (fun _ _ h => h)
  unfold envLoad
  induction groups with
  | nil => exact (rfl : stripEnvL [] = stripEnvL [])
  | cons g t ih =>
    rw [List.mapM_cons, List.mapM_cons]
    apply ERel.bind (R := fun kv kv' => (kv.1, stripG kv.2) = (kv'.1, stripG kv'.2))
    · apply ERel.bind (loadGroup_cut_aux copied raw hnd fuel d d' h g none)
      intro a b hab
      apply ERel.bind (parseGroup_rel a b hab)
      intro u u' huu
      show (Key.s g, stripG (.dict u)) = (Key.s g, stripG (.dict u'))
      simp only [stripG, DatumEq_strip u u' huu]
    · intro kv kv' hkv
      apply ERel.bind ih
      intro u u' huu
      show stripEnvL (kv :: u) = stripEnvL (kv' :: u')
      unfold stripEnvL at huu ⊢
      rw [List.map_cons, List.map_cons, hkv, huu]

theorem kvGet?_stripEnvL (l : List (Key × Y)) (k : Key) :
    kvGet? (stripEnvL l) k = (kvGet? l k).map stripG := by
  induction l with
  | nil => rfl
  | cons hd t ih =>
    obtain ⟨k', v⟩ := hd
    unfold stripEnvL at ih ⊢
    simp only [List.map_cons, kvGet?]
    split
    · rfl
    · exact ih

theorem kvSet_stripEnvL (l : List (Key × Y)) (k : Key) (v : Y) :
    kvSet (stripEnvL l) k (stripG v) = stripEnvL (kvSet l k v) := by
  induction l with
  | nil => rfl
  | cons hd t ih =>
    obtain ⟨k', w⟩ := hd
    unfold stripEnvL at ih ⊢
    simp only [List.map_cons, kvSet]
    split
    · rfl
    · rw [ih]; rfl

theorem sub_stripEnv (P : Y) (k : Key) : sub (stripEnv P) k = (sub P k).map stripG := by
  cases P with
  | dict l =>
    simp only [stripEnv, sub, kvGet?_stripEnvL]
    cases kvGet? l k <;> rfl
  | _ => rfl

theorem sub_stripG (kz : Y) (k : Key) (hk : k ≠ datumKey) : sub (stripG kz) k = sub kz k := by
  cases kz with
  | dict l => simp only [stripG, sub, kvGet?_stripDatum l k hk]
  | _ => rfl

theorem setItem_stripG (kz : Y) (k : Key) (v : Y) (hk : k ≠ datumKey) :
    setItem (stripG kz) k v = (setItem kz k v).map stripG := by
  cases kz with
  | dict l =>
    simp only [stripG, setItem, Except.map, stripDatum_kvSet_ne l k v hk]
  | _ => rfl

theorem setItem_stripEnv (P : Y) (k : Key) (v : Y) :
    setItem (stripEnv P) k (stripG v) = (setItem P k v).map stripEnv := by
  cases P with
  | dict l => simp only [stripEnv, setItem, Except.map, kvSet_stripEnvL]
  | _ => rfl

theorem getPath_stripEnv (P : Y) (k1 k2 : Key) (rest : List Key) (hk : k2 ≠ datumKey) :
    getPath (stripEnv P) (k1 :: k2 :: rest) = getPath P (k1 :: k2 :: rest) := by
  unfold getPath
  rw [List.foldlM_cons, List.foldlM_cons, sub_stripEnv]
  cases sub P k1 with
  | error e => rfl
  | ok g =>
    show (sub (stripG g) k2 >>= _) = (sub g k2 >>= _)
    rw [sub_stripG g k2 hk]

theorem bind_map_comm {α β γ : Type} (x : Except Err α) (f : α → Except Err β)
    (g : α → Except Err γ) (φ : γ → β) (h : ∀ a, f a = (g a).map φ) :
    x >>= f = (x >>= g).map φ := by
  cases x with
  | error e => rfl
  | ok a => exact h a

theorem deriveKinderzuschl_strip (yr : Int) (P : Y) :
    deriveKinderzuschl yr (stripEnv P) = (deriveKinderzuschl yr P).map stripEnv := by
  unfold deriveKinderzuschl
  split
  · rw [sub_stripEnv, getPath_stripEnv _ _ _ _ (by decide)]
    cases sub P (.s "kinderzuschl") with
    | error e => rfl
    | ok kz =>
      show (sub (stripG kz) _ >>= _) = Except.map stripEnv (sub kz _ >>= _)
      rw [sub_stripG _ _ (by decide)]
      refine bind_map_comm _ _ _ _ fun ex => ?_
      refine bind_map_comm _ _ _ _ fun t1 => ?_
      refine bind_map_comm _ _ _ _ fun a => ?_
      refine bind_map_comm _ _ _ _ fun t2 => ?_
      refine bind_map_comm _ _ _ _ fun b => ?_
      refine bind_map_comm _ _ _ _ fun t3 => ?_
      refine bind_map_comm _ _ _ _ fun c => ?_
      refine bind_map_comm _ _ _ _ fun t4 => ?_
      refine bind_map_comm _ _ _ _ fun kg => ?_
      rw [setItem_stripG _ _ _ (by decide)]
      cases setItem kz (.s "maximum") (.num ((a + b + c) / 12 - kg)) with
      | error e => rfl
      | ok kz' => exact setItem_stripEnv P _ kz'
  · rfl

theorem deriveEinkSt_strip (yr : Int) (P : Y) :
    deriveEinkSt yr (stripEnv P) = (deriveEinkSt yr P).map stripEnv := by
  unfold deriveEinkSt
  split
  · rw [sub_stripEnv]
    cases sub P (.s "eink_st_abzuege") with
    | error e => rfl
    | ok ab =>
      show (sub (stripG ab) _ >>= _) = Except.map stripEnv (sub ab _ >>= _)
      rw [sub_stripG _ _ (by decide)]
      refine bind_map_comm _ _ _ _ fun t1 => ?_
      refine bind_map_comm _ _ _ _ fun s1 => ?_
      rw [setItem_stripG _ _ _ (by decide)]
      cases setItem ab (.s "einführungsfaktor_vorsorgeaufw_alter_ab_2005")
          (.num (Piecewise.eval s1 (yr : Rat))) with
      | error e => rfl
      | ok ab2 =>
        show (sub (stripG ab2) _ >>= _) = Except.map stripEnv (sub ab2 _ >>= _)
        rw [sub_stripG _ _ (by decide)]
        refine bind_map_comm _ _ _ _ fun t2 => ?_
        refine bind_map_comm _ _ _ _ fun s2 => ?_
        rw [setItem_stripG _ _ _ (by decide)]
        cases setItem ab2 (.s "vorsorgepauschale_rentenv_anteil")
            (.num (Piecewise.eval s2 (yr : Rat))) with
        | error e => rfl
        | ok ab3 => exact setItem_stripEnv P _ ab3
  · rfl

theorem envDerive_strip (yr : Int) (loaded : List (Key × Y)) :
    envDerive yr (stripEnvL loaded) = (envDerive yr loaded).map stripEnv := by
  unfold envDerive
  rw [show Y.dict (stripEnvL loaded) = stripEnv (.dict loaded) from rfl, deriveKinderzuschl_strip]
  cases deriveKinderzuschl yr (.dict loaded) with
  | error e => rfl
  | ok P => exact deriveEinkSt_strip yr P

theorem env_cut_aux (copied : List String) (groups : List String) (raw : Raw)
    (hnd : NoDatum raw = true) (fuel : Nat) (d d' : Int)
    (h : Similar (allEntryDates raw) fuel d d') (hy : year d = year d') :
    (env copied groups raw fuel d).map stripEnv = (env copied groups raw fuel d').map stripEnv := by
  have hl := envLoad_cut copied groups raw hnd fuel d d' h
  unfold env
  rw [hy]
  cases h1 : envLoad copied groups raw fuel d <;> cases h2 : envLoad copied groups raw fuel d' <;>
    rw [h1, h2] at hl <;> simp only [Except.map] at hl
  · injection hl with hl; rw [hl]
  · cases hl
  · cases hl
  · injection hl with hl
    show (envDerive (year d') _).map stripEnv = (envDerive (year d') _).map stripEnv
    rw [← envDerive_strip, ← envDerive_strip, hl]


/-! ## 8. calendar checks -/

/-- the dates checked per year: every first of a month, the last day of February, 31 December -/
def calDatesOfYear (y : Int) : List (Int × Int × Int) :=
  ((List.range 12).map fun (m : Nat) => (y, (m : Int) + 1, (1 : Int))) ++
    [(y, 2, daysInMonth y 2), (y, 12, 31)]

/-- round trip, `jan1 ≤`, `jan1` idempotent, `jan1` is 1 January, `subYear <`, and `subYear`
lands on the same month/day of the previous year (29 Feb ↦ 28 Feb) -/
def calCheck (ymd : Int × Int × Int) : Bool :=
  let (y, m, d) := ymd
  let o := ofYMD y m d
  validYMD y m d &&
  (match toYMD o with | (y', m', d') => y' == y && m' == m && d' == d) &&
  decide (jan1 o ≤ o) && decide (jan1 (jan1 o) = jan1 o) && decide (jan1 o = ofYMD y 1 1) &&
  decide (subYear o < o) &&
  decide (subYear o = ofYMD (y - 1) m (if m = 2 ∧ d = 29 then 28 else d))

/-! ## Boolean equality on YAML trees (for `decide`-checked examples) -/

mutual
def beqY : Y → Y → Bool
  | .num a, .num b => a == b
  | .pinf, .pinf => true
  | .ninf, .ninf => true
  | .str a, .str b => a == b
  | .bool a, .bool b => a == b
  | .null, .null => true
  | .date a, .date b => a == b
  | .list a, .list b => beqYL a b
  | .dict a, .dict b => beqKV a b
  | _, _ => false
def beqYL : List Y → List Y → Bool
  | [], [] => true
  | x :: xs, y :: ys => beqY x y && beqYL xs ys
  | _, _ => false
def beqKV : List (Key × Y) → List (Key × Y) → Bool
  | [], [] => true
  | (k, x) :: xs, (k', y) :: ys => k == k' && beqY x y && beqKV xs ys
  | _, _ => false
end

/-- the result is `ok` and equals the expected value -/
def okKV (r : Except Err (List (Key × Y))) (expected : List (Key × Y)) : Bool :=
  match r with | .ok kvs => beqKV kvs expected | .error _ => false

def okY (r : Except Err Y) (expected : Y) : Bool :=
  match r with | .ok y => beqY y expected | .error _ => false

end GV.Params
