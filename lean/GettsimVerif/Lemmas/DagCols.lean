import GettsimVerif.Lemmas.Dag
import GettsimVerif.Lemmas.Agg
/-
Column-level instances for the abstract DAG model: columns are lists (`α := List β`), row
permutations / gathers, row-wise operations, grouped aggregation as a node operation
(properties C01, C02).
-/
namespace GV.Dag

variable {β : Type} [Inhabited β]

/-! ### gathering rows by index -/

/-- gather the rows of a column by a list of row indices (`c[σ]` in numpy) -/
def permute (σ : List Nat) (c : List β) : List β := σ.map fun i => c.getD i default

/-- `c` has `N` rows and `c'` is `c` gathered by `σ` -/
def GatherRel (N : Nat) (σ : List Nat) (c c' : List β) : Prop := c.length = N ∧ c' = permute σ c

/-- `c'` is `c` with the rows permuted by `σ` (a list of `σ.length` indices) -/
def PermRel (σ : List Nat) (c c' : List β) : Prop := GatherRel σ.length σ c c'

/-- row `i` of a list of argument columns -/
def rowAt (args : List (List β)) (i : Nat) : List β := args.map fun c => c.getD i default

/-- a row-wise operation: all argument columns must have the same length (at least one
argument), the per-row function `f` is applied to every row, first error wins -/
def rowwise (f : List β → Except Err β) (args : List (List β)) : Except Err (List β) :=
  match args with
  | [] => .error .typeError
  | a :: as =>
    if as.all (fun c => c.length == a.length) then
      (List.range a.length).mapM fun i => f (rowAt (a :: as) i)
    else .error .shape

theorem rowwise_cons (f : List β → Except Err β) (a : List β) (as : List (List β)) :
    rowwise f (a :: as) =
      if as.all (fun c => c.length == a.length) then
        (List.range a.length).mapM fun i => f (rowAt (a :: as) i)
      else .error .shape := rfl

@[simp] theorem permute_length (σ : List Nat) (c : List β) : (permute σ c).length = σ.length := by
  simp [permute]

theorem permute_getD (σ : List Nat) (c : List β) (j : Nat) (hj : j < σ.length) :
    (permute σ c).getD j default = c.getD σ[j] default := by
  simp [permute, List.getD_eq_getElem?_getD, hj]

theorem permute_map {γ : Type} [Inhabited γ] (σ : List Nat) (l : List β) (g : β → γ)
    (h : ∀ i ∈ σ, i < l.length) : permute σ (l.map g) = (permute σ l).map g := by
  simp only [permute, List.map_map]
  apply List.map_congr_left
  intro i hi
  have := h i hi
  simp [List.getD_eq_getElem?_getD, this]

theorem map_range_getD (l : List β) : (List.range l.length).map (fun i => l.getD i default) = l := by
  apply List.ext_getElem
  · simp
  · intro i h1 h2
    simp [List.getD_eq_getElem?_getD, h2]

theorem permute_perm (σ : List Nat) (l : List β) (hσ : σ.Perm (List.range l.length)) :
    (permute σ l).Perm l := by
  have := hσ.map (fun i => l.getD i default)
  rw [map_range_getD] at this
  exact this

theorem permute_range_take (n : Nat) (l : List β) (h : n ≤ l.length) :
    permute (List.range n) l = l.take n := by
  apply List.ext_getElem
  · simp [h]
  · intro i h1 h2
    simp only [permute_length, List.length_range] at h1
    simp [permute, List.getD_eq_getElem?_getD, (by omega : i < l.length)]

theorem permute_mem (σ : List Nat) (l : List β) (h : ∀ i ∈ σ, i < l.length) :
    ∀ x ∈ permute σ l, x ∈ l := by
  intro x hx
  simp only [permute, List.mem_map] at hx
  obtain ⟨i, hi, rfl⟩ := hx
  have := h i hi
  simp [List.getD_eq_getElem?_getD, this]

theorem forall₂_gatherRel_iff (N : Nat) (σ : List Nat) (args args' : List (List β)) :
    List.Forall₂ (GatherRel N σ) args args' ↔
      args' = args.map (permute σ) ∧ ∀ c ∈ args, c.length = N := by
  constructor
  · intro h
    induction h with
    | nil => simp
    | cons hab _ ih =>
      obtain ⟨h1, h2⟩ := hab
      obtain ⟨ih1, ih2⟩ := ih
      refine ⟨by simp [h2, ih1], ?_⟩
      intro c hc
      rcases List.mem_cons.1 hc with rfl | hc
      · exact h1
      · exact ih2 c hc
  · rintro ⟨rfl, h⟩
    induction args with
    | nil => exact .nil
    | cons a as ih =>
      exact .cons ⟨h a List.mem_cons_self, rfl⟩ (ih fun c hc => h c (List.mem_cons_of_mem _ hc))

/-! ### row-wise operations -/

theorem range_mapM_ok_iff (g : Nat → Except Err β) (n : Nat) (out : List β) :
    (List.range n).mapM g = .ok out ↔ out.length = n ∧ ∀ i, i < n → g i = .ok (out.getD i default) := by
  rw [mapM_ok_iff, List.forall₂_iff_get]
  simp only [List.length_range, List.get_eq_getElem, List.getElem_range]
  constructor
  · rintro ⟨h1, h2⟩
    refine ⟨h1.symm, fun i hi => ?_⟩
    rw [h2 i hi (h1 ▸ hi)]
    simp [List.getD_eq_getElem?_getD, h1 ▸ hi]
  · rintro ⟨h1, h2⟩
    refine ⟨h1.symm, fun i hi hi' => ?_⟩
    rw [h2 i hi]
    simp [List.getD_eq_getElem?_getD, hi']

/-- characterisation of a successful row-wise operation -/
theorem rowwise_ok_iff (f : List β → Except Err β) (args : List (List β)) (out : List β) :
    rowwise f args = .ok out ↔
      args ≠ [] ∧ (∀ c ∈ args, c.length = out.length) ∧
        ∀ i, i < out.length → f (rowAt args i) = .ok (out.getD i default) := by
  cases args with
  | nil => simp [rowwise]
  | cons a as =>
    rw [rowwise_cons]
    by_cases hall : as.all (fun c => c.length == a.length) = true
    · rw [if_pos hall, range_mapM_ok_iff]
      simp only [List.all_eq_true, beq_iff_eq] at hall
      constructor
      · rintro ⟨h1, h2⟩
        refine ⟨by simp, ?_, fun i hi => h2 i (h1 ▸ hi)⟩
        intro c hc
        rcases List.mem_cons.1 hc with rfl | hc
        · exact h1.symm
        · rw [hall c hc, h1]
      · rintro ⟨_, h1, h2⟩
        have ha := h1 a List.mem_cons_self
        exact ⟨ha.symm, fun i hi => h2 i (ha ▸ hi)⟩
    · rw [if_neg hall]
      simp only [reduceCtorEq, ne_eq, false_iff, not_and]
      intro _ h1
      exfalso
      apply hall
      simp only [List.all_eq_true, beq_iff_eq]
      intro c hc
      rw [h1 c (List.mem_cons_of_mem _ hc), h1 a List.mem_cons_self]

theorem rowAt_map_permute (σ : List Nat) (args : List (List β)) (j : Nat) (hj : j < σ.length) :
    rowAt (args.map (permute σ)) j = rowAt args σ[j] := by
  simp only [rowAt, List.map_map]
  apply List.map_congr_left
  intro c _
  exact permute_getD σ c j hj

/-- a row-wise operation commutes with any gather of the rows by valid indices (permutation,
selection of a subset, resampling) -/
theorem rowwise_respects_gather (f : List β → Except Err β) (N : Nat) (σ : List Nat)
    (hσ : ∀ i ∈ σ, i < N) (args args' : List (List β))
    (h : List.Forall₂ (GatherRel N σ) args args') (c : List β) (hc : rowwise f args = .ok c) :
    ∃ c', rowwise f args' = .ok c' ∧ GatherRel N σ c c' := by
  rw [forall₂_gatherRel_iff] at h
  obtain ⟨rfl, hN⟩ := h
  rw [rowwise_ok_iff] at hc
  obtain ⟨hne, hlen, hrows⟩ := hc
  have hcN : c.length = N := by
    cases args with
    | nil => exact absurd rfl hne
    | cons a as => rw [← hlen a List.mem_cons_self, hN a List.mem_cons_self]
  refine ⟨permute σ c, ?_, hcN, rfl⟩
  rw [rowwise_ok_iff]
  refine ⟨by simpa using hne, ?_, ?_⟩
  · intro c' hc'
    obtain ⟨c0, _, rfl⟩ := List.mem_map.1 hc'
    simp
  · intro j hj
    simp only [permute_length] at hj
    rw [rowAt_map_permute σ args j hj, permute_getD σ c j hj]
    exact hrows _ (hcN ▸ hσ _ (List.getElem_mem hj))

/-- error direction for permutations: if some row fails, some row of the permuted table fails
(which error is reported first may differ) -/
theorem rowwise_respects_perm_err (f : List β → Except Err β) (σ : List Nat)
    (hσ : σ.Perm (List.range σ.length)) (args args' : List (List β))
    (h : List.Forall₂ (PermRel σ) args args') (e : Err) (he : rowwise f args = .error e) :
    ∃ e', rowwise f args' = .error e' := by
  unfold PermRel at h
  rw [forall₂_gatherRel_iff] at h
  obtain ⟨rfl, hN⟩ := h
  cases hr : rowwise f (args.map (permute σ)) with
  | error e' => exact ⟨e', rfl⟩
  | ok c' =>
    exfalso
    rw [rowwise_ok_iff] at hr
    obtain ⟨hne, hlen, hrows⟩ := hr
    have hne' : args ≠ [] := by simpa using hne
    have hc' : c'.length = σ.length := by
      cases args with
      | nil => exact absurd rfl hne'
      | cons a as =>
        rw [← hlen (permute σ a) (by simp)]
        simp
    -- build the un-permuted result: row i gets the value of a position j with σ[j] = i
    have hrow : ∀ i, i < σ.length → ∃ v, f (rowAt args i) = .ok v := by
      intro i hi
      have hi' : i ∈ σ := hσ.mem_iff.2 (List.mem_range.2 hi)
      obtain ⟨j, hj, hji⟩ := List.getElem_of_mem hi'
      have := hrows j (hc' ▸ hj)
      rw [rowAt_map_permute σ args j hj, hji] at this
      exact ⟨_, this⟩
    have : ∃ out, rowwise f args = .ok out := by
      cases args with
      | nil => exact absurd rfl hne'
      | cons a as =>
        have ha : a.length = σ.length := hN a List.mem_cons_self
        rw [rowwise_cons]
        have hall : as.all (fun c => c.length == a.length) = true := by
          simp only [List.all_eq_true, beq_iff_eq]
          intro c hc
          rw [hN c (List.mem_cons_of_mem _ hc), ha]
        rw [if_pos hall]
        cases hm : (List.range a.length).mapM fun i => f (rowAt (a :: as) i) with
        | ok out => exact ⟨out, rfl⟩
        | error e0 =>
          exfalso
          -- every row succeeds, so mapM succeeds
          have : ∀ n, n ≤ a.length → ∃ out, (List.range' 0 n).mapM
              (fun i => f (rowAt (a :: as) i)) = .ok out := by
            intro n
            induction n with
            | zero => intro _; exact ⟨[], rfl⟩
            | succ n ih =>
              intro hn
              obtain ⟨out, hout⟩ := ih (by omega)
              obtain ⟨v, hv⟩ := hrow n (by omega)
              refine ⟨out ++ [v], ?_⟩
              rw [List.range'_1_concat, List.mapM_append, hout]
              simp [hv, bind, Except.bind, pure, Except.pure]
          obtain ⟨out, hout⟩ := this a.length (le_refl _)
          rw [List.range_eq_range', hout] at hm
          cases hm
    obtain ⟨out, hout⟩ := this
    rw [hout] at he
    cases he

/-! ### grouped aggregation as a node operation -/

/-- node operation "aggregate column `col` by group id `gid`"; `key` decodes a group id from a
cell (columns are untyped lists of cells in this model) -/
def groupedOp (key : β → Int) (f : β → β → β) (dflt : β) : List (List β) → Except Err (List β)
  | [col, gid] => Agg.grouped f dflt col (gid.map key)
  | _ => .error .typeError

theorem grouped_ok_wf {γ : Type} (f : γ → γ → γ) (dflt : γ) (col : List γ) (gid : List Int)
    (res : List γ) (h : Agg.grouped f dflt col gid = .ok res) : Agg.WF gid col := by
  unfold Agg.grouped Agg.guard at h
  by_cases h1 : gid.length ≠ col.length
  · simp [h1, bind, Except.bind] at h
  · by_cases h2 : gid.any (· < 0) = true
    · simp [h1, h2, bind, Except.bind] at h
    · refine ⟨not_not.1 h1, ?_⟩
      intro g hg
      simp only [List.any_eq_true, decide_eq_true_eq, not_exists, not_and, not_lt] at h2
      exact h2 g hg

omit [Inhabited β] in
theorem groupedOp_ok_iff (key : β → Int) (f : β → β → β) (dflt : β) (args : List (List β))
    (res : List β) : groupedOp key f dflt args = .ok res ↔
      ∃ col gid, args = [col, gid] ∧ Agg.grouped f dflt col (gid.map key) = .ok res := by
  unfold groupedOp
  split
  · rename_i col gid
    constructor
    · intro h; exact ⟨col, gid, rfl, h⟩
    · rintro ⟨col', gid', h, h'⟩
      cases h; exact h'
  · rename_i hne
    constructor
    · intro h; cases h
    · rintro ⟨col, gid, h, _⟩
      exact absurd h (hne col gid)

/-- grouped aggregation with a commutative, associative `f` commutes with a permutation of the
rows: permuted inputs give the identically permuted output -/
theorem grouped_permute (key : β → Int) (f : β → β → β) (dflt : β)
    (hc : ∀ a b, f a b = f b a) (ha : ∀ a b c, f (f a b) c = f a (f b c))
    (σ : List Nat) (hσ : σ.Perm (List.range σ.length)) (col gid res : List β)
    (hcol : col.length = σ.length) (hgid : gid.length = σ.length)
    (h : Agg.grouped f dflt col (gid.map key) = .ok res) :
    Agg.grouped f dflt (permute σ col) ((permute σ gid).map key) = .ok (permute σ res) := by
  have hwf := grouped_ok_wf f dflt col _ res h
  have hres := Agg.grouped_ok_eq f dflt col _ res h
  have hvalid : ∀ i ∈ σ, i < σ.length := fun i hi => List.mem_range.1 (hσ.mem_iff.1 hi)
  have hwf' : Agg.WF ((permute σ gid).map key) (permute σ col) := by
    refine ⟨by simp, ?_⟩
    intro g hg
    obtain ⟨x, hx, rfl⟩ := List.mem_map.1 hg
    exact hwf.2 _ (List.mem_map.2 ⟨x, permute_mem σ gid (hgid ▸ hvalid) x hx, rfl⟩)
  rw [Agg.grouped_eq f dflt _ _ hwf']
  congr 1
  -- the rows of the permuted table are a permutation of the rows
  let rows : List (Int × β) := (gid.map key).zip col
  have hrl : rows.length = σ.length := by simp [rows, hcol, hgid]
  have hfst : rows.map (·.1) = gid.map key := by
    simp only [rows]
    rw [← List.unzip_fst, List.unzip_zip (by simp [hcol, hgid])]
  have hsnd : rows.map (·.2) = col := by
    simp only [rows]
    rw [← List.unzip_snd, List.unzip_zip (by simp [hcol, hgid])]
  have hperm : (permute σ rows).Perm rows := permute_perm σ rows (hrl ▸ hσ)
  have hfst' : (permute σ rows).map (·.1) = (permute σ gid).map key := by
    rw [← permute_map σ rows _ (hrl ▸ hvalid), hfst, permute_map σ gid key (hgid ▸ hvalid)]
  have hsnd' : (permute σ rows).map (·.2) = permute σ col := by
    rw [← permute_map σ rows _ (hrl ▸ hvalid), hsnd]
  have hG : ∀ g, Agg.groupVal f dflt (Agg.members ((permute σ gid).map key) (permute σ col) g) =
      Agg.groupVal f dflt (Agg.members (gid.map key) col g) := by
    intro g
    have := Agg.groupVal_perm f dflt hc ha (Agg.members_perm hperm g)
    rw [hfst', hsnd', hfst, hsnd] at this
    exact this
  simp only [hG]
  rw [hres, ← permute_map σ gid key (hgid ▸ hvalid),
    ← permute_map σ (gid.map key) _ (by simpa [hgid] using hvalid)]

/-- the grouped node operation respects row permutations -/
theorem grouped_respects_perm_lemma (key : β → Int) (f : β → β → β) (dflt : β)
    (hc : ∀ a b, f a b = f b a) (ha : ∀ a b c, f (f a b) c = f a (f b c))
    (σ : List Nat) (hσ : σ.Perm (List.range σ.length)) (args args' : List (List β))
    (h : List.Forall₂ (PermRel σ) args args') (c : List β)
    (hc' : groupedOp key f dflt args = .ok c) :
    ∃ c', groupedOp key f dflt args' = .ok c' ∧ PermRel σ c c' := by
  unfold PermRel at h ⊢
  rw [forall₂_gatherRel_iff] at h
  obtain ⟨rfl, hN⟩ := h
  rw [groupedOp_ok_iff] at hc'
  obtain ⟨col, gid, rfl, hg⟩ := hc'
  have hcol : col.length = σ.length := hN col (by simp)
  have hgid : gid.length = σ.length := hN gid (by simp)
  refine ⟨permute σ c, ?_, ?_, rfl⟩
  · exact grouped_permute key f dflt hc ha σ hσ col gid c hcol hgid hg
  · have := Agg.grouped_ok_eq f dflt col _ c hg
    rw [this]; simp [hgid]

/-! ### union of two tables -/

theorem members_append {γ : Type} (gidA gidB : List Int) (colA colB : List γ) (g : Int)
    (h : gidA.length = colA.length) :
    Agg.members (gidA ++ gidB) (colA ++ colB) g = Agg.members gidA colA g ++ Agg.members gidB colB g := by
  simp only [Agg.members]
  rw [List.zip_append h, List.filter_append, List.map_append]

theorem members_not_mem {γ : Type} (gid : List Int) (col : List γ) (g : Int) (h : g ∉ gid) :
    Agg.members gid col g = [] := by
  simp only [Agg.members, List.map_eq_nil_iff, List.filter_eq_nil_iff, decide_eq_true_eq]
  intro r hr hrg
  exact h (hrg ▸ (List.of_mem_zip hr).1)

/-- grouped aggregation on the union of two tables with disjoint group ids, restricted to the
first table, is the aggregation on the first table -/
theorem grouped_union_take {γ : Type} (f : γ → γ → γ) (dflt : γ) (colA colB : List γ)
    (gidA gidB : List Int) (hA : Agg.WF gidA colA) (hB : Agg.WF gidB colB)
    (hdisj : ∀ g ∈ gidA, g ∉ gidB) :
    (Agg.grouped f dflt (colA ++ colB) (gidA ++ gidB)).map (·.take gidA.length) =
      Agg.grouped f dflt colA gidA := by
  have hAB : Agg.WF (gidA ++ gidB) (colA ++ colB) := by
    refine ⟨by simp [hA.1, hB.1], ?_⟩
    intro g hg
    rcases List.mem_append.1 hg with h | h
    · exact hA.2 g h
    · exact hB.2 g h
  rw [Agg.grouped_eq f dflt _ _ hAB, Agg.grouped_eq f dflt _ _ hA]
  simp only [Except.map, List.map_append]
  congr 1
  rw [List.take_append_of_le_length (by simp), List.take_of_length_le (by simp)]
  apply List.map_congr_left
  intro g hg
  rw [members_append gidA gidB colA colB g hA.1, members_not_mem gidB colB g (hdisj g hg),
    List.append_nil]

/-- … and restricted to the second table it is the aggregation on the second table -/
theorem grouped_union_drop {γ : Type} (f : γ → γ → γ) (dflt : γ) (colA colB : List γ)
    (gidA gidB : List Int) (hA : Agg.WF gidA colA) (hB : Agg.WF gidB colB)
    (hdisj : ∀ g ∈ gidA, g ∉ gidB) :
    (Agg.grouped f dflt (colA ++ colB) (gidA ++ gidB)).map (·.drop gidA.length) =
      Agg.grouped f dflt colB gidB := by
  have hAB : Agg.WF (gidA ++ gidB) (colA ++ colB) := by
    refine ⟨by simp [hA.1, hB.1], ?_⟩
    intro g hg
    rcases List.mem_append.1 hg with h | h
    · exact hA.2 g h
    · exact hB.2 g h
  rw [Agg.grouped_eq f dflt _ _ hAB, Agg.grouped_eq f dflt _ _ hB]
  simp only [Except.map, List.map_append]
  congr 1
  rw [List.drop_append_of_le_length (by simp), List.drop_of_length_le (by simp), List.nil_append]
  apply List.map_congr_left
  intro g hg
  have : g ∉ gidA := fun h => hdisj g h hg
  rw [members_append gidA gidB colA colB g hA.1, members_not_mem gidA colA g this,
    List.nil_append]

/-! ### kinds of nodes -/

/-- the node applies a per-row function to its argument columns -/
def IsRowwise (node : Node (List β)) : Prop := ∃ f, node.op = rowwise f

/-- the node aggregates its first dependency by its second dependency with a commutative,
associative reduction -/
def IsGroupedCA (key : β → Int) (node : Node (List β)) : Prop :=
  ∃ f dflt, (∀ a b, f a b = f b a) ∧ (∀ a b c, f (f a b) c = f a (f b c)) ∧
    node.op = groupedOp key f dflt

/-- the node aggregates a value column (name not in `G`) by an id column (name in `G`) -/
def IsGroupedBy (key : β → Int) (G : List Name) (node : Node (List β)) : Prop :=
  ∃ f dflt dc dg, node.deps = [dc, dg] ∧ dc ∉ G ∧ dg ∈ G ∧ node.op = groupedOp key f dflt

/-! ### restriction to the first `n` rows -/

/-- `c` has `N` rows and `c'` consists of its first `n` rows -/
def TakeRel (N n : Nat) (c c' : List β) : Prop := c.length = N ∧ c' = c.take n

/-- an operation is local w.r.t. the cut after row `n` (of `N`): on columns of `N` rows it
returns `N` rows, and restricting all inputs to the first `n` rows restricts the output -/
def LocalOp (N n : Nat) (op : List (List β) → Except Err (List β)) : Prop :=
  ∀ args, (∀ a ∈ args, a.length = N) → ∀ c, op args = .ok c →
    c.length = N ∧ op (args.map (·.take n)) = .ok (c.take n)

omit [Inhabited β] in
theorem forall₂_takeRel_iff (N n : Nat) (args args' : List (List β)) :
    List.Forall₂ (TakeRel N n) args args' ↔
      args' = args.map (·.take n) ∧ ∀ c ∈ args, c.length = N := by
  constructor
  · intro h
    induction h with
    | nil => simp
    | cons hab _ ih =>
      obtain ⟨h1, h2⟩ := hab
      obtain ⟨ih1, ih2⟩ := ih
      refine ⟨by simp [h2, ih1], ?_⟩
      intro c hc
      rcases List.mem_cons.1 hc with rfl | hc
      · exact h1
      · exact ih2 c hc
  · rintro ⟨rfl, h⟩
    induction args with
    | nil => exact .nil
    | cons a as ih =>
      exact .cons ⟨h a List.mem_cons_self, rfl⟩ (ih fun c hc => h c (List.mem_cons_of_mem _ hc))

theorem takeRel_iff_gatherRel (N n : Nat) (hn : n ≤ N) (c c' : List β) :
    TakeRel N n c c' ↔ GatherRel N (List.range n) c c' := by
  unfold TakeRel GatherRel
  constructor
  · rintro ⟨h1, h2⟩; exact ⟨h1, by rw [h2, permute_range_take n c (h1 ▸ hn)]⟩
  · rintro ⟨h1, h2⟩; exact ⟨h1, by rw [h2, permute_range_take n c (h1 ▸ hn)]⟩

/-- row-wise operations are local -/
theorem rowwise_local (f : List β → Except Err β) (N n : Nat) (hn : n ≤ N) :
    LocalOp N n (rowwise f) := by
  intro args hargs c hc
  have hF : List.Forall₂ (GatherRel N (List.range n)) args (args.map (·.take n)) := by
    have : List.Forall₂ (TakeRel N n) args (args.map (·.take n)) :=
      (forall₂_takeRel_iff N n args _).2 ⟨rfl, hargs⟩
    exact this.imp fun a b hab => (takeRel_iff_gatherRel N n hn a b).1 hab
  obtain ⟨c', hc', hrel⟩ := rowwise_respects_gather f N (List.range n)
    (fun i hi => Nat.lt_of_lt_of_le (List.mem_range.1 hi) hn) args _ hF c hc
  obtain ⟨h1, h2⟩ := (takeRel_iff_gatherRel N n hn c c').2 hrel
  exact ⟨h1, h2 ▸ hc'⟩

/-- name-indexed version of `TakeRel`: the id columns (names in `G`) in addition have no group
id on both sides of the cut -/
def UnionRel (N n : Nat) (key : β → Int) (G : List Name) (x : Name) (c c' : List β) : Prop :=
  c.length = N ∧ c' = c.take n ∧ (x ∈ G → ∀ a ∈ c.take n, ∀ b ∈ c.drop n, key a ≠ key b)

omit [Inhabited β] in
/-- grouped aggregation by a separated id column is local -/
theorem groupedOp_union (key : β → Int) (f : β → β → β) (dflt : β) (N n : Nat) (hn : n ≤ N)
    (col gid c : List β) (hcol : col.length = N) (hgid : gid.length = N)
    (hsep : ∀ a ∈ gid.take n, ∀ b ∈ gid.drop n, key a ≠ key b)
    (hc : groupedOp key f dflt [col, gid] = .ok c) :
    c.length = N ∧ groupedOp key f dflt [col.take n, gid.take n] = .ok (c.take n) := by
  have hc' : Agg.grouped f dflt col (gid.map key) = .ok c := hc
  have hwf := grouped_ok_wf f dflt col _ c hc'
  have hlen : c.length = N := by
    rw [Agg.grouped_ok_eq f dflt col _ c hc']; simp [hgid]
  refine ⟨hlen, ?_⟩
  show Agg.grouped f dflt (col.take n) ((gid.take n).map key) = .ok (c.take n)
  have hA : Agg.WF ((gid.take n).map key) (col.take n) := by
    refine ⟨by simp [hcol, hgid], ?_⟩
    intro g hg
    obtain ⟨x, hx, rfl⟩ := List.mem_map.1 hg
    exact hwf.2 _ (List.mem_map.2 ⟨x, List.mem_of_mem_take hx, rfl⟩)
  have hB : Agg.WF ((gid.drop n).map key) (col.drop n) := by
    refine ⟨by simp [hcol, hgid], ?_⟩
    intro g hg
    obtain ⟨x, hx, rfl⟩ := List.mem_map.1 hg
    exact hwf.2 _ (List.mem_map.2 ⟨x, List.mem_of_mem_drop hx, rfl⟩)
  have hdisj : ∀ g ∈ (gid.take n).map key, g ∉ (gid.drop n).map key := by
    intro g hg hg'
    obtain ⟨a, ha, rfl⟩ := List.mem_map.1 hg
    obtain ⟨b, hb, hab⟩ := List.mem_map.1 hg'
    exact hsep a ha b hb hab.symm
  have := grouped_union_take f dflt (col.take n) (col.drop n) _ _ hA hB hdisj
  rw [← List.map_append, List.take_append_drop, List.take_append_drop, hc'] at this
  simp only [Except.map, List.length_map, List.length_take, hgid, Nat.min_eq_left hn] at this
  exact this.symm

/-! ### restriction to the rows after the first `n` -/

theorem permute_range'_drop (n N : Nat) (l : List β) (h : l.length = N) :
    permute (List.range' n (N - n)) l = l.drop n := by
  apply List.ext_getElem
  · simp [h]
  · intro i h1 h2
    simp only [List.length_drop] at h2
    simp [permute, List.getD_eq_getElem?_getD, (by omega : n + i < l.length)]

/-- `c` has `N` rows and `c'` consists of the rows after the first `n` -/
def DropRel (N n : Nat) (c c' : List β) : Prop := c.length = N ∧ c' = c.drop n

omit [Inhabited β] in
theorem forall₂_dropRel_iff (N n : Nat) (args args' : List (List β)) :
    List.Forall₂ (DropRel N n) args args' ↔
      args' = args.map (·.drop n) ∧ ∀ c ∈ args, c.length = N := by
  constructor
  · intro h
    induction h with
    | nil => simp
    | cons hab _ ih =>
      obtain ⟨h1, h2⟩ := hab
      obtain ⟨ih1, ih2⟩ := ih
      refine ⟨by simp [h2, ih1], ?_⟩
      intro c hc
      rcases List.mem_cons.1 hc with rfl | hc
      · exact h1
      · exact ih2 c hc
  · rintro ⟨rfl, h⟩
    induction args with
    | nil => exact .nil
    | cons a as ih =>
      exact .cons ⟨h a List.mem_cons_self, rfl⟩ (ih fun c hc => h c (List.mem_cons_of_mem _ hc))

/-- name-indexed version of `DropRel`, id columns separated as in `UnionRel` -/
def UnionRelSnd (N n : Nat) (key : β → Int) (G : List Name) (x : Name) (c c' : List β) : Prop :=
  c.length = N ∧ c' = c.drop n ∧ (x ∈ G → ∀ a ∈ c.take n, ∀ b ∈ c.drop n, key a ≠ key b)

/-- row-wise operations are local also w.r.t. the second part -/
theorem rowwise_local_snd (f : List β → Except Err β) (N n : Nat) (args : List (List β))
    (hargs : ∀ a ∈ args, a.length = N) (c : List β) (hc : rowwise f args = .ok c) :
    c.length = N ∧ rowwise f (args.map (·.drop n)) = .ok (c.drop n) := by
  have hF : List.Forall₂ (GatherRel N (List.range' n (N - n))) args (args.map (·.drop n)) := by
    rw [forall₂_gatherRel_iff]
    refine ⟨?_, hargs⟩
    apply List.map_congr_left
    intro a ha
    exact (permute_range'_drop n N a (hargs a ha)).symm
  obtain ⟨c', hc', hlen, rfl⟩ := rowwise_respects_gather f N (List.range' n (N - n))
    (fun i hi => by have := List.mem_range'_1.1 hi; omega) args _ hF c hc
  rw [permute_range'_drop n N c hlen] at hc'
  exact ⟨hlen, hc'⟩

omit [Inhabited β] in
/-- grouped aggregation by a separated id column, second part -/
theorem groupedOp_union_snd (key : β → Int) (f : β → β → β) (dflt : β) (N n : Nat) (hn : n ≤ N)
    (col gid c : List β) (hcol : col.length = N) (hgid : gid.length = N)
    (hsep : ∀ a ∈ gid.take n, ∀ b ∈ gid.drop n, key a ≠ key b)
    (hc : groupedOp key f dflt [col, gid] = .ok c) :
    c.length = N ∧ groupedOp key f dflt [col.drop n, gid.drop n] = .ok (c.drop n) := by
  have hc' : Agg.grouped f dflt col (gid.map key) = .ok c := hc
  have hwf := grouped_ok_wf f dflt col _ c hc'
  have hlen : c.length = N := by
    rw [Agg.grouped_ok_eq f dflt col _ c hc']; simp [hgid]
  refine ⟨hlen, ?_⟩
  show Agg.grouped f dflt (col.drop n) ((gid.drop n).map key) = .ok (c.drop n)
  have hA : Agg.WF ((gid.take n).map key) (col.take n) := by
    refine ⟨by simp [hcol, hgid], ?_⟩
    intro g hg
    obtain ⟨x, hx, rfl⟩ := List.mem_map.1 hg
    exact hwf.2 _ (List.mem_map.2 ⟨x, List.mem_of_mem_take hx, rfl⟩)
  have hB : Agg.WF ((gid.drop n).map key) (col.drop n) := by
    refine ⟨by simp [hcol, hgid], ?_⟩
    intro g hg
    obtain ⟨x, hx, rfl⟩ := List.mem_map.1 hg
    exact hwf.2 _ (List.mem_map.2 ⟨x, List.mem_of_mem_drop hx, rfl⟩)
  have hdisj : ∀ g ∈ (gid.take n).map key, g ∉ (gid.drop n).map key := by
    intro g hg hg'
    obtain ⟨a, ha, rfl⟩ := List.mem_map.1 hg
    obtain ⟨b, hb, hab⟩ := List.mem_map.1 hg'
    exact hsep a ha b hb hab.symm
  have := grouped_union_drop f dflt (col.take n) (col.drop n) _ _ hA hB hdisj
  rw [← List.map_append, List.take_append_drop, List.take_append_drop, hc'] at this
  simp only [Except.map, List.length_map, List.length_take, hgid, Nat.min_eq_left hn] at this
  exact this.symm

/-! ### relabelling of group ids -/

/-- value columns are equal, id columns (names in `G`) are relabelled cell-wise by `relab` -/
def RelabelRel (relab : β → β) (G : List Name) (x : Name) (c c' : List β) : Prop :=
  if x ∈ G then c' = c.map relab else c' = c


end GV.Dag
