import GettsimVerif.Lemmas.Simulate
import GettsimVerif.Lemmas.Dag
import GettsimVerif.Props.C04
/-
Helper lemmas for `Props/C06Sim.lean`: reform locality (property C06) for the CONCRETE end-to-end
model `GV.Simulate.simulate`.

Contents: (a) generic facts about `Dag.reach`/`Dag.eval` (monotonicity in the fuel, sub-systems,
replaying a successful evaluation in another system); (b) the definitions `usesGroup`, `coneNames`;
(c) what a node reads of `params` (`loc_nodeOf_congr`, …); (d) structure of `prepare`/`plan`/`exec`.
-/
namespace GV.Dag
variable {α β : Type}

/-- more fuel reaches more -/
theorem reach_fuel_mono (S : Sys α) (D : Data α) (k : Nat) (n : Name) :
    ∀ x ∈ reach S D k n, x ∈ reach S D (k + 1) n := by
  induction k generalizing n with
  | zero =>
    intro x hx
    simp only [reach, List.mem_singleton] at hx
    subst hx
    exact self_mem_reach S D 1 x
  | succ k ih =>
    intro x hx
    cases hD : find? D n with
    | some c =>
      rw [reach, hD] at hx
      rw [reach, hD]; exact hx
    | none =>
      cases hS : find? S n with
      | none =>
        rw [reach, hD] at hx; simp only [hS] at hx
        rw [reach, hD]; simp only [hS]; exact hx
      | some node =>
        rw [reach_succ_of_node hD hS] at hx
        rw [reach_succ_of_node hD hS]
        rcases List.mem_cons.1 hx with rfl | hx
        · exact List.mem_cons_self
        · obtain ⟨d, hd, hx⟩ := List.mem_flatMap.1 hx
          exact List.mem_cons_of_mem _ (List.mem_flatMap.2 ⟨d, hd, ih d x hx⟩)

theorem reach_fuel_le (S : Sys α) (D : Data α) {k k' : Nat} (hk : k ≤ k') (n : Name) :
    ∀ x ∈ reach S D k n, x ∈ reach S D k' n := by
  induction hk with
  | refl => exact fun _ h => h
  | step _ ih => exact fun x hx => reach_fuel_mono S D _ n x (ih x hx)

/-- a system with fewer functions and fewer dependencies (over possibly more data) reaches less -/
theorem reach_subset_of_sub (S : Sys α) (D : Data α) (S' : Sys β) (D' : Data β)
    (hD : ∀ x, find? D x = none → find? D' x = none)
    (hS : ∀ x node, find? D x = none → find? S x = some node →
      ∃ node', find? S' x = some node' ∧ ∀ d ∈ node.deps, d ∈ node'.deps)
    (k : Nat) (n : Name) : ∀ x ∈ reach S D k n, x ∈ reach S' D' k n := by
  induction k generalizing n with
  | zero => exact fun _ h => h
  | succ k ih =>
    intro x hx
    cases hDn : find? D n with
    | some c =>
      rw [reach, hDn] at hx
      simp only [List.mem_singleton] at hx
      subst hx
      exact self_mem_reach S' D' (k + 1) x
    | none =>
      cases hSn : find? S n with
      | none =>
        rw [reach, hDn] at hx; simp only [hSn, List.mem_singleton] at hx
        subst hx
        exact self_mem_reach S' D' (k + 1) x
      | some node =>
        obtain ⟨node', hS', hsub⟩ := hS n node hDn hSn
        rw [reach_succ_of_node hDn hSn] at hx
        rw [reach_succ_of_node (hD n hDn) hS']
        rcases List.mem_cons.1 hx with rfl | hx
        · exact List.mem_cons_self
        · obtain ⟨d, hd, hx⟩ := List.mem_flatMap.1 hx
          exact List.mem_cons_of_mem _ (List.mem_flatMap.2 ⟨d, hsub d hd, ih d x hx⟩)

/-- a successful evaluation can be replayed in any system that has the same bindings for the
function nodes it visits -/
theorem eval_ok_transfer (S S' : Sys α) (D : Data α) (k : Nat) (n : Name) (v : α)
    (h : eval S D k n = .ok v)
    (hb : ∀ x ∈ reach S D k n, ∀ node, find? D x = none → find? S x = some node →
      find? S' x = some node) :
    eval S' D k n = .ok v := by
  induction k generalizing n v with
  | zero => simp [eval] at h
  | succ k ih =>
    cases hD : find? D n with
    | some c => rw [eval_succ_of_data hD] at h ⊢; exact h
    | none =>
      cases hS : find? S n with
      | none => rw [eval_succ_of_missing hD hS] at h; cases h
      | some node =>
        have hS' := hb n (self_mem_reach S D (k + 1) n) node hD hS
        rw [eval_succ_of_node hD hS] at h
        rw [eval_succ_of_node hD hS']
        cases hargs : evalAll (eval S D k) node.deps with
        | error e => rw [hargs] at h; cases h
        | ok args =>
          rw [hargs] at h
          rw [evalAll_ok_mono (ev' := eval S' D k) (fun d hd w hw => ih d w hw
            (fun x hx => hb x (reach_dep_subset hD hS hd x hx))) hargs]
          exact h

/-- a binding found in a name-filtered list is the binding of the whole list -/
theorem find?_filter_some {γ : Type} (p : Name → Bool) (l : List (Name × γ)) (n : Name) (v : γ)
    (h : find? (l.filter fun (k, _) => p k) n = some v) : find? l n = some v := by
  have hmem := find?_mem _ n v h
  have hp : p n = true := by
    have := (List.mem_filter.1 hmem).2
    simpa using this
  rw [← find?_filter p l n hp]; exact h

end GV.Dag

namespace GV.Simulate
open GV.Lang (Val)

def usesGroup (g : String) (f : Fn) : Bool :=
  f.args.contains (g ++ "_params") ||
    (match f.kind with
     | .rule _ _ (some key) => key == g
     | _ => false)

def nameSys (fns : List Fn) : Dag.Sys Unit :=
  fns.map fun f => (f.name, { deps := f.args, op := fun _ => .ok () })

def coneNames (pr : Prep) (t : String) : List String :=
  Dag.reach (nameSys pr.fns) (pr.dataCols.map fun n => (n, ())) (pr.fns.length + 1) t

/-! ### strings -/

theorem isParamArg_eq (a : String) (h : isParamArg a = true) : a = paramGroup a ++ "_params" := by
  unfold isParamArg endsWith TimeConv.stripSuffix? at h
  unfold paramGroup
  split at h
  · rename_i hc
    obtain ⟨h1, h2⟩ := hc
    apply String.toList_injective
    rw [String.toList_append, String.toList_ofList]
    have hl : "_params".toList.length = 7 := by decide
    rw [hl] at h1 h2
    rw [← String.length_toList]
    conv => lhs; rw [← List.take_append_drop (a.toList.length - 7) a.toList]
    rw [h2]
  · simp at h

theorem paramGroup_append (g : String) : paramGroup (g ++ "_params") = g := by
  unfold paramGroup
  rw [← String.length_toList, String.toList_append]
  have hl : "_params".toList.length = 7 := by decide
  rw [List.length_append, hl, Nat.add_sub_cancel, List.take_left' rfl, String.ofList_toList]

theorem isParamArg_append (g : String) : isParamArg (g ++ "_params") = true := by
  unfold isParamArg endsWith TimeConv.stripSuffix?
  rw [String.toList_append]
  simp

theorem paramGroup_ne {a g : String} (h : isParamArg a = true) (hne : a ≠ g ++ "_params") :
    paramGroup a ≠ g := by
  intro hg
  apply hne
  rw [isParamArg_eq a h, hg]

/-! ### what a function reads of `params` -/

theorem usesGroup_false_args {g : String} {f : Fn} (h : usesGroup g f = false) :
    ∀ a ∈ f.args, isParamArg a = true → paramGroup a ≠ g := by
  intro a ha hpa
  apply paramGroup_ne hpa
  rintro rfl
  unfold usesGroup at h
  simp only [Bool.or_eq_false_iff] at h
  have := h.1
  simp [ha] at this

theorem usesGroup_false_key {g : String} {f : Fn} (h : usesGroup g f = false) {fn ret key}
    (hk : f.kind = .rule fn ret (some key)) : key ≠ g := by
  unfold usesGroup at h
  simp only [Bool.or_eq_false_iff, hk] at h
  simpa using h.2

variable {params params' : List (String × Val)}

theorem freeArgs_congr (f : Fn)
    (h : ∀ a ∈ f.args, isParamArg a = true → find? params (paramGroup a) = find? params' (paramGroup a)) :
    freeArgs params f = freeArgs params' f := by
  unfold freeArgs
  apply List.filter_congr
  intro a ha
  cases hpa : isParamArg a with
  | false => rfl
  | true => rw [h a ha hpa]

theorem rowArgs_congr (free : List String) (i : Nat) (as : List String)
    (h : ∀ a ∈ as, free.contains a = false → find? params (paramGroup a) = find? params' (paramGroup a))
    (cols : List Col) : rowArgs params free i as cols = rowArgs params' free i as cols := by
  induction as generalizing cols with
  | nil => rfl
  | cons a as ih =>
    have ih' := ih (fun b hb => h b (List.mem_cons_of_mem _ hb))
    unfold rowArgs
    cases hc : free.contains a with
    | true =>
      simp only [if_true]
      cases cols with
      | nil => simp only [ih']
      | cons c cs => simp only [ih']
    | false =>
      simp only [Bool.false_eq_true, if_false, ih', h a List.mem_cons_self hc]

theorem ruleOp_congr (fn : Lang.FunDef) (ret : Option Ty) (spec : Option RSpec) (free : List String)
    (h : ∀ a ∈ fn.args, free.contains a = false → find? params (paramGroup a) = find? params' (paramGroup a)) :
    ruleOp params fn ret spec free = ruleOp params' fn ret spec free := by
  funext cols
  have hr : ∀ i cols, rowArgs params free i fn.args cols = rowArgs params' free i fn.args cols :=
    fun i cols => rowArgs_congr free i fn.args h cols
  unfold ruleOp
  simp only [hr]

theorem roundingSpecOf_congr (key name : String) (h : find? params key = find? params' key) :
    roundingSpecOf params key name = roundingSpecOf params' key name := by
  unfold roundingSpecOf
  rw [h]

/-- the `args` of a vectorized rule are those of its definition -/
def Fn.WF (f : Fn) : Prop :=
  match f.kind with
  | .rule fn _ _ => f.args = fn.args
  | _ => True

theorem loc_nodeOf_congr (g : String) (specs specs' : List (String × RSpec)) (f : Fn) (hwf : f.WF)
    (hp : ∀ k, k ≠ g → find? params k = find? params' k)
    (hu : usesGroup g f = false)
    (hs : find? specs f.name = find? specs' f.name) :
    nodeOf params specs f = nodeOf params' specs' f := by
  have hargs := usesGroup_false_args hu
  have hfree : freeArgs params f = freeArgs params' f :=
    freeArgs_congr f fun a ha hpa => hp _ (hargs a ha hpa)
  unfold nodeOf
  simp only [← hfree, hs]
  congr 1
  cases hk : f.kind with
  | rule fn ret key =>
    simp only
    apply ruleOp_congr
    intro a ha hc
    unfold Fn.WF at hwf
    rw [hk] at hwf
    simp only at hwf
    rw [← hwf] at ha
    -- `a` is not free, so it is a partialled parameter argument
    have : isParamArg a = true := by
      unfold freeArgs at hc
      cases hpa : isParamArg a with
      | true => rfl
      | false =>
        have hm : a ∈ f.args.filter fun a => !(isParamArg a && (find? params (paramGroup a)).isSome) :=
          List.mem_filter.2 ⟨ha, by simp [hpa]⟩
        rw [List.contains_eq_mem, decide_eq_false_iff_not] at hc
        exact absurd hm hc
    exact hp _ (hargs a ha this)
  | _ => rfl



/-! ### association lists built from the function list -/

theorem loc_find?_map_fns {β : Type} (m : Fn → β) (l : List Fn) (x : String) :
    find? (l.map fun f => (f.name, m f)) x = (findFn? l x).map m := by
  unfold find? findFn?
  induction l with
  | nil => rfl
  | cons f l ih =>
    simp only [List.map_cons, Dag.find?_cons, List.find?_cons]
    by_cases h : f.name = x
    · simp [h]
    · simp [h, ih]

theorem loc_findFn?_some {l : List Fn} {x : String} {f : Fn} (h : findFn? l x = some f) :
    f ∈ l ∧ f.name = x := by
  unfold findFn? at h
  exact ⟨List.mem_of_find?_eq_some h, by simpa using List.find?_some h⟩

theorem findFn?_filter_some (p : String → Bool) {l : List Fn} {x : String} {f : Fn}
    (h : findFn? (l.filter fun f => p f.name) x = some f) : findFn? l x = some f := by
  unfold findFn? at h ⊢
  induction l with
  | nil => simp at h
  | cons a l ih =>
    rw [List.filter_cons] at h
    by_cases hp : p a.name = true
    · rw [if_pos hp, List.find?_cons] at h
      rw [List.find?_cons]
      split
      · rename_i hx; rw [hx] at h; exact h
      · rename_i hx; rw [hx] at h; exact ih h
    · rw [if_neg hp] at h
      have hf := ih h
      rw [List.find?_cons]
      split
      · rename_i hx
        simp only [decide_eq_true_eq] at hx
        -- then `x = a.name` would be kept
        obtain ⟨hm, hn⟩ := loc_findFn?_some (l := l.filter fun f => p f.name) (x := x) h
        have := (List.mem_filter.1 hm).2
        rw [hn, ← hx] at this
        exact absurd this hp
      · exact hf

/-! ### the rounding specs -/

/-- `_add_rounding_to_functions` as a function of the necessary functions -/
def loc_specsOf (params : List (String × Val)) (necessary : List Fn) : Except Err (List (String × RSpec)) :=
  necessary.filterMapM fun f =>
    match f.kind with
    | .rule _ _ (some key) => do pure (some (f.name, ← roundingSpecOf params key f.name))
    | _ => pure none

theorem specsOf_find_congr {params params' : List (String × Val)} (g x : String)
    (hp : ∀ k, k ≠ g → find? params k = find? params' k) (N : List Fn)
    (hN : ∀ f ∈ N, f.name = x → usesGroup g f = false)
    (specs specs' : List (String × RSpec))
    (h : loc_specsOf params N = .ok specs) (h' : loc_specsOf params' N = .ok specs') :
    find? specs x = find? specs' x := by
  induction N generalizing specs specs' with
  | nil =>
    simp only [loc_specsOf, List.filterMapM_nil, pure, Except.pure, Except.ok.injEq] at h h'
    subst h; subst h'; rfl
  | cons f N ih =>
    have ihN := ih (fun f' hf' => hN f' (List.mem_cons_of_mem _ hf'))
    unfold loc_specsOf at h h'
    rw [List.filterMapM_cons] at h h'
    obtain ⟨o, ho, h⟩ := bind_ok h
    obtain ⟨o', ho', h'⟩ := bind_ok h'
    cases hk : f.kind with
    | rule fn ret key =>
      cases key with
      | none =>
        simp only [hk, pure, Except.pure, Except.ok.injEq] at ho ho'
        subst ho; subst ho'
        exact ihN specs specs' h h'
      | some key =>
        simp only [hk] at ho ho'
        obtain ⟨s, hs, ho⟩ := bind_ok ho
        obtain ⟨s', hs', ho'⟩ := bind_ok ho'
        simp only [pure, Except.pure, Except.ok.injEq] at ho ho'
        subst ho; subst ho'
        simp only at h h'
        obtain ⟨r, hr, h⟩ := bind_ok h
        obtain ⟨r', hr', h'⟩ := bind_ok h'
        simp only [pure, Except.pure, Except.ok.injEq] at h h'
        subst h; subst h'
        unfold find?
        rw [Dag.find?_cons, Dag.find?_cons]
        by_cases hx : f.name = x
        · have hkey : key ≠ g := usesGroup_false_key (hN f List.mem_cons_self hx) hk
          rw [roundingSpecOf_congr key f.name (hp key hkey), hs'] at hs
          cases hs
          simp [hx]
        · simp only [hx, if_false]
          exact ihN r r' hr hr'
    | _ =>
      simp only [hk, pure, Except.pure, Except.ok.injEq] at ho ho'
      subst ho; subst ho'
      exact ihN specs specs' h h'

/-! ### `exec` -/

theorem loc_mapM_pair_find {β : Type} (g : String → Except Err β) :
    ∀ (l : List String) (out : List (String × β)),
      l.mapM (fun t => do pure (t, ← g t)) = .ok out → ∀ t ∈ l, ∃ v, g t = .ok v ∧ find? out t = some v := by
  intro l
  induction l with
  | nil => intro out _ t ht; cases ht
  | cons a l ih =>
    intro out h t ht
    rw [List.mapM_cons] at h
    obtain ⟨p, hp, h⟩ := bind_ok h
    obtain ⟨rest, hrest, h⟩ := bind_ok h
    obtain ⟨v, hv, hp⟩ := bind_ok hp
    simp only [pure, Except.pure, Except.ok.injEq] at h hp
    subst h; subst hp
    unfold find?
    rw [Dag.find?_cons]
    by_cases hat : a = t
    · subst hat; exact ⟨v, hv, by simp⟩
    · simp only [hat, if_false]
      rcases List.mem_cons.1 ht with rfl | ht
      · exact absurd rfl hat
      · exact ih rest hrest t ht

/-- the column `exec` reports for a target is the rendered value of the target in the UNPRUNED
system of the plan -/
theorem loc_exec_value {p : Plan} {T : List String} {tbl : Table} (h : exec p T = .ok tbl)
    {t : String} (ht : t ∈ T) :
    ∃ v, Dag.eval p.sys p.data (p.sys.length + 1) t = .ok v ∧ find? tbl t = some (render p.nRows v) := by
  unfold exec at h
  simp only at h
  split at h
  · cases h
  · obtain ⟨c, hc, hf⟩ := loc_mapM_pair_find
      (fun t => do pure (render p.nRows (← Dag.eval (Dag.prune p.sys p.data (p.sys.length + 1) T)
        p.data (p.sys.length + 1) t))) T tbl (by simpa [bind_assoc] using h) t ht
    obtain ⟨v, hv, hc⟩ := bind_ok hc
    simp only [pure, Except.pure, Except.ok.injEq] at hc
    subst hc
    rw [Dag.prune_sound _ _ _ _ _ ht] at hv
    exact ⟨v, hv, hf⟩

/-! ### `plan` -/

/-- the functions that survive the first pruning -/
def loc_necessaryFns (pr : Prep) (T : List String) : List Fn :=
  pr.fns.filter fun f => (pruneNames (pr.fns.map fun f => (f.name, f.args)) pr.dataCols T).contains f.name

theorem loc_plan_ok {params : List (String × Val)} {T : List String} {pr : Prep} {p : Plan}
    (h : plan params T pr = .ok p) :
    ∃ (specs : List (String × RSpec)) (procNames : List String), loc_specsOf params (loc_necessaryFns pr T) = .ok specs ∧
      p.sys = ((loc_necessaryFns pr T).filter fun f => procNames.contains f.name).map
        (fun f => (f.name, nodeOf params specs f)) ∧
      p.data = pr.data ∧ p.nRows = (pr.data.head?.map (·.2.vals.length)).getD 0 := by
  unfold plan at h
  simp only at h
  split at h
  · obtain ⟨_, h', _⟩ := bind_ok h
    cases h'
  · obtain ⟨specs, hspecs, h⟩ := bind_ok h
    split at h
    · obtain ⟨_, h', _⟩ := bind_ok h
      cases h'
    · simp only [pure, Except.pure, Except.ok.injEq] at h
      subst h
      exact ⟨specs, _, hspecs, rfl, rfl, rfl⟩



/-! ### invariants of `prepare` -/

theorem loc_mem_dictUpdate {d : List Fn} {g f : Fn} (h : f ∈ dictUpdate d g) : f ∈ d ∨ f = g := by
  induction d with
  | nil => simp only [dictUpdate, List.mem_singleton] at h; exact .inr h
  | cons a d ih =>
    unfold dictUpdate at h
    split at h
    · rcases List.mem_cons.1 h with rfl | h
      · exact .inr rfl
      · exact .inl (List.mem_cons_of_mem _ h)
    · rcases List.mem_cons.1 h with rfl | h
      · exact .inl List.mem_cons_self
      · rcases ih h with h | h
        · exact .inl (List.mem_cons_of_mem _ h)
        · exact .inr h

theorem loc_mem_merge {a b : List Fn} {f : Fn} (h : f ∈ merge a b) : f ∈ a ∨ f ∈ b := by
  unfold merge at h
  induction b generalizing a with
  | nil => exact .inl h
  | cons g b ih =>
    rw [List.foldl_cons] at h
    rcases ih h with h | h
    · rcases loc_mem_dictUpdate h with h | rfl
      · exact .inl h
      · exact .inr List.mem_cons_self
    · exact .inr (List.mem_cons_of_mem _ h)

theorem filterMapM_mem {A B : Type} (g : A → Except Err (Option B)) (l : List A) (out : List B)
    (h : l.filterMapM g = .ok out) : ∀ b ∈ out, ∃ a ∈ l, g a = .ok (some b) := by
  induction l generalizing out with
  | nil =>
    simp only [List.filterMapM_nil, pure, Except.pure, Except.ok.injEq] at h
    subst h; intro b hb; cases hb
  | cons a l ih =>
    rw [List.filterMapM_cons] at h
    obtain ⟨o, ho, h⟩ := bind_ok h
    cases o with
    | none =>
      intro b hb
      obtain ⟨a', ha', hg⟩ := ih out h b hb
      exact ⟨a', List.mem_cons_of_mem _ ha', hg⟩
    | some b0 =>
      simp only at h
      obtain ⟨r, hr, h⟩ := bind_ok h
      simp only [pure, Except.pure, Except.ok.injEq] at h
      subst h
      intro b hb
      rcases List.mem_cons.1 hb with rfl | hb
      · exact ⟨a, List.mem_cons_self, ho⟩
      · obtain ⟨a', ha', hg⟩ := ih r hr b hb
        exact ⟨a', List.mem_cons_of_mem _ ha', hg⟩

theorem mapM_mem {A B : Type} (g : A → Except Err B) (l : List A) (out : List B)
    (h : l.mapM g = .ok out) : ∀ b ∈ out, ∃ a ∈ l, g a = .ok b := by
  rw [Dag.mapM_ok_iff] at h
  induction h with
  | nil => intro b hb; cases hb
  | cons hab _ ih =>
    intro b hb
    rcases List.mem_cons.1 hb with rfl | hb
    · exact ⟨_, List.mem_cons_self, hab⟩
    · obtain ⟨a', ha', hg⟩ := ih b hb
      exact ⟨a', List.mem_cons_of_mem _ ha', hg⟩

/-- not a vectorized rule -/
def Fn.notRule (f : Fn) : Prop :=
  match f.kind with
  | .rule _ _ _ => False
  | _ => True

theorem Fn.notRule.wf {f : Fn} (h : f.notRule) : f.WF := by
  unfold Fn.notRule at h
  unfold Fn.WF
  split
  · rename_i hk; rw [hk] at h; exact h.elim
  · trivial

theorem ruleFn_wf (rounding : Bool) (r : Rule) : (ruleFn rounding r).WF := by
  unfold Fn.WF ruleFn; rfl

theorem pidFns_wf {rules : List Fn} {dataCols : List String} {specs : List (String × PidSpec)}
    {out : List Fn} (h : pidFns rules dataCols specs = .ok out) : ∀ f ∈ out, f.WF := by
  unfold pidFns at h
  obtain ⟨fs, hfs, h⟩ := bind_ok h
  simp only [pure, Except.pure, Except.ok.injEq] at h
  subst h
  intro f hf
  rcases loc_mem_merge hf with hf | hf
  · cases hf
  · obtain ⟨⟨n, s⟩, _, hg⟩ := filterMapM_mem _ _ _ hfs f hf
    simp only at hg
    split at hg
    · split at hg
      · cases hg
      · simp only [pure, Except.pure, Except.ok.injEq, Option.some.injEq] at hg
        subst hg
        exact Fn.notRule.wf (by unfold Fn.notRule; trivial)
    · cases hg

theorem timeConvFns_wf (l : List Fn) (dataCols : List String) : ∀ f ∈ timeConvFns l dataCols, f.WF := by
  intro f hf
  unfold timeConvFns at hf
  obtain ⟨d, _, rfl⟩ := List.mem_map.1 hf
  exact Fn.notRule.wf (by unfold Fn.notRule; trivial)

theorem groupAggFn_wf {fns : List Fn} {name : String} {s : GroupSpec} {f : Fn}
    (h : groupAggFn fns name s = .ok f) : f.WF := by
  unfold groupAggFn at h
  split at h
  · cases h
  · split at h
    · cases h; exact Fn.notRule.wf (by unfold Fn.notRule; trivial)
    · split at h
      · cases h
      · cases h; exact Fn.notRule.wf (by unfold Fn.notRule; trivial)
    · cases h

theorem groupAggFns_wf {fns : List Fn} {targets dataCols : List String}
    {userSpecs : List (String × GroupSpec)} {out : List Fn}
    (h : groupAggFns fns targets dataCols userSpecs = .ok out) : ∀ f ∈ out, f.WF := by
  unfold groupAggFns at h
  simp only at h
  split at h
  · obtain ⟨_, h', _⟩ := bind_ok h
    cases h'
  · intro f hf
    obtain ⟨⟨n, s⟩, _, hg⟩ := mapM_mem _ _ _ h f hf
    exact groupAggFn_wf hg

theorem groupingFns_wf : ∀ f ∈ groupingFns, f.WF := by
  intro f hf
  simp only [groupingFns, List.mem_cons, List.not_mem_nil, or_false] at hf
  rcases hf with rfl | rfl | rfl | rfl | rfl | rfl <;>
    exact Fn.notRule.wf (by unfold Fn.notRule; trivial)

theorem buildFunctions_wf {ruleFns : List Fn} {gs : List (String × GroupSpec)}
    {ps : List (String × PidSpec)} {targets dataCols : List String} {all : List Fn}
    (hr : ∀ f ∈ ruleFns, f.WF)
    (h : buildFunctions ruleFns gs ps targets dataCols = .ok all) : ∀ f ∈ all, f.WF := by
  unfold buildFunctions at h
  obtain ⟨pid, hpid, h⟩ := bind_ok h
  obtain ⟨grp, hgrp, h⟩ := bind_ok h
  simp only [pure, Except.pure, Except.ok.injEq] at h
  subst h
  have hrules : ∀ f ∈ merge [] ruleFns, f.WF := by
    intro f hf
    rcases loc_mem_merge hf with hf | hf
    · cases hf
    · exact hr f hf
  intro f hf
  rcases loc_mem_merge hf with hf | hf
  · rcases loc_mem_merge hf with hf | hf
    · rcases loc_mem_merge hf with hf | hf
      · rcases loc_mem_merge hf with hf | hf
        · exact pidFns_wf hpid f hf
        · exact timeConvFns_wf _ _ f hf
      · exact hrules f hf
    · exact groupAggFns_wf hgrp f hf
  · exact groupingFns_wf f hf

theorem mapM_fst {A B C : Type} (g : A × B → Except Err (A × C)) (hg : ∀ a b, g a = .ok b → b.1 = a.1)
    (l : List (A × B)) (out : List (A × C)) (h : l.mapM g = .ok out) :
    out.map (·.1) = l.map (·.1) := by
  rw [Dag.mapM_ok_iff] at h
  induction h with
  | nil => rfl
  | cons hab _ ih => simp only [List.map_cons, ih, hg _ _ hab]

theorem convertData_names {data out : List (String × Col)} {ov : List Fn}
    (h : convertData data ov = .ok out) : out.map (·.1) = data.map (·.1) := by
  unfold convertData at h
  refine mapM_fst _ ?_ _ _ h
  rintro ⟨n, c⟩ b hb
  simp only at hb
  split at hb
  · cases hb; rfl
  · obtain ⟨c', _, hb⟩ := bind_ok hb
    simp only [pure, Except.pure, Except.ok.injEq] at hb
    subst hb; rfl

/-- what a successful `prepare` returns -/
theorem loc_prepare_ok {ruleFns : List Fn} {gs : List (String × GroupSpec)}
    {ps : List (String × PidSpec)} {data : List (String × Column)} {targets : List String} {pr : Prep}
    (hr : ∀ f ∈ ruleFns, f.WF)
    (h : prepare ruleFns gs ps data targets = .ok pr) :
    pr.dataCols = pr.data.map (·.1) ∧ ∀ f ∈ pr.fns, f.WF := by
  unfold prepare at h
  obtain ⟨typed, htyped, h⟩ := bind_ok h
  obtain ⟨_, _, h⟩ := bind_ok h
  obtain ⟨all, hall, h⟩ := bind_ok h
  split at h
  · obtain ⟨_, h', _⟩ := bind_ok h
    cases h'
  · obtain ⟨conv, hconv, h⟩ := bind_ok h
    split at h
    · obtain ⟨_, h', _⟩ := bind_ok h
      cases h'
    · simp only [pure, Except.pure, Except.ok.injEq] at h
      subst h
      refine ⟨(convertData_names hconv).symm, ?_⟩
      intro f hf
      exact buildFunctions_wf hr hall f (List.mem_filter.1 hf).1




/-- the system of ALL necessary functions (before the second pruning) -/
def sysN (params : List (String × Val)) (specs : List (String × RSpec)) (N : List Fn) : Dag.Sys Col :=
  N.map fun f => (f.name, nodeOf params specs f)

theorem find?_sysN_some {params specs N x node} (h : Dag.find? (sysN params specs N) x = some node) :
    ∃ f, findFn? N x = some f ∧ node = nodeOf params specs f := by
  have := loc_find?_map_fns (nodeOf params specs) N x
  unfold find? at this
  unfold sysN at h
  rw [this] at h
  cases hf : findFn? N x with
  | none => rw [hf] at h; cases h
  | some f => rw [hf] at h; cases h; exact ⟨f, rfl, rfl⟩

/-- the plan's system is a name-filter of `sysN` -/
theorem find?_planSys_some {params specs} {N : List Fn} {q : String → Bool} {x node}
    (h : Dag.find? ((N.filter fun f => q f.name).map fun f => (f.name, nodeOf params specs f)) x = some node) :
    Dag.find? (sysN params specs N) x = some node := by
  apply Dag.find?_filter_some q
  unfold sysN
  rw [List.filter_map]
  exact h

theorem freeArgs_subset (params : List (String × Val)) (f : Fn) : ∀ a ∈ freeArgs params f, a ∈ f.args :=
  fun _ ha => (List.mem_filter.1 ha).1

/-- the dependency cone of `t` in `sysN` lies inside `coneNames` -/
theorem reach_sysN_subset_cone (params specs) (pr : Prep) (T : List String) (hdc : pr.dataCols = pr.data.map (·.1))
    (k : Nat) (hk : k ≤ pr.fns.length + 1) (t : String) :
    ∀ x ∈ Dag.reach (sysN params specs (loc_necessaryFns pr T)) pr.data k t, x ∈ coneNames pr t := by
  intro x hx
  unfold coneNames
  apply Dag.reach_fuel_le _ _ hk
  refine Dag.reach_subset_of_sub _ _ _ _ ?_ ?_ k t x hx
  · intro y hy
    rw [Dag.find?_eq_none_iff] at hy ⊢
    rw [List.map_map]
    simpa [hdc] using hy
  · intro y node _ hy
    obtain ⟨f, hf, rfl⟩ := find?_sysN_some hy
    have hf' : findFn? pr.fns y = some f := findFn?_filter_some _ hf
    refine ⟨{ deps := f.args, op := fun _ => .ok () }, ?_, freeArgs_subset params f⟩
    have := loc_find?_map_fns (fun f => ({ deps := f.args, op := fun _ => .ok () } : Dag.Node Unit)) pr.fns y
    unfold find? at this
    unfold nameSys
    rw [this, hf']
    rfl

theorem plan_sys_length_le {params : List (String × Val)} {T : List String} {pr : Prep} {p : Plan}
    (h : plan params T pr = .ok p) : p.sys.length ≤ pr.fns.length := by
  obtain ⟨specs, q, _, hsys, _, _⟩ := loc_plan_ok h
  rw [hsys, List.length_map]
  exact Nat.le_trans (List.length_filter_le _ _) (List.length_filter_le _ _)

/-- **core of reform locality**: the value of `t` in two plans for parameters that agree off `g` -/
theorem plan_value_congr {params params' : List (String × Val)} {T : List String} {pr : Prep} {p p' : Plan}
    (g t : String) (hdc : pr.dataCols = pr.data.map (·.1)) (hwf : ∀ f ∈ pr.fns, f.WF)
    (hp : ∀ k, k ≠ g → find? params k = find? params' k)
    (h : plan params T pr = .ok p) (h' : plan params' T pr = .ok p')
    (hcone : ∀ f ∈ pr.fns, f.name ∈ coneNames pr t → usesGroup g f = false)
    {v v' : Col}
    (hv : Dag.eval p.sys p.data (p.sys.length + 1) t = .ok v)
    (hv' : Dag.eval p'.sys p'.data (p'.sys.length + 1) t = .ok v') : v = v' := by
  have hlen := plan_sys_length_le h
  obtain ⟨specs, q, hspecs, hsys, hdata, _⟩ := loc_plan_ok h
  obtain ⟨specs', q', hspecs', hsys', hdata', _⟩ := loc_plan_ok h'
  rw [hdata] at hv
  rw [hdata'] at hv'
  have hk : p.sys.length + 1 ≤ pr.fns.length + 1 := by omega
  generalize p.sys.length + 1 = k at hv hk
  generalize p'.sys.length + 1 = k' at hv'
  -- both evaluations can be replayed in the unpruned systems
  have h1 : Dag.eval (sysN params specs (loc_necessaryFns pr T)) pr.data k t = .ok v := by
    apply Dag.eval_ok_transfer _ _ _ _ _ _ hv
    intro x _ node _ hx
    rw [hsys] at hx
    exact find?_planSys_some hx
  have h1' : Dag.eval (sysN params' specs' (loc_necessaryFns pr T)) pr.data k' t = .ok v' := by
    apply Dag.eval_ok_transfer _ _ _ _ _ _ hv'
    intro x _ node _ hx
    rw [hsys'] at hx
    exact find?_planSys_some hx
  -- inside the cone the two unpruned systems have the same nodes
  have h2 : Dag.eval (sysN params' specs' (loc_necessaryFns pr T)) pr.data k t = .ok v := by
    apply Dag.eval_ok_transfer _ _ _ _ _ _ h1
    intro x hx node _ hnode
    have hxc := reach_sysN_subset_cone params specs pr T hdc k hk t x hx
    obtain ⟨f, hf, rfl⟩ := find?_sysN_some hnode
    obtain ⟨hfN, hfx⟩ := loc_findFn?_some hf
    have hfns : f ∈ pr.fns := (List.mem_filter.1 hfN).1
    have := loc_find?_map_fns (nodeOf params' specs') (loc_necessaryFns pr T) x
    unfold find? at this
    unfold sysN
    rw [this, hf, Option.map_some]
    congr 1
    symm
    apply loc_nodeOf_congr g specs specs' f (hwf f hfns) hp (hcone f hfns (hfx ▸ hxc))
    rw [hfx]
    apply specsOf_find_congr g x hp (loc_necessaryFns pr T) _ specs specs' hspecs hspecs'
    intro f' hf' hx'
    exact hcone f' (List.mem_filter.1 hf').1 (hx' ▸ hxc)
  exact Dag.eval_fuel_det _ _ h2 h1'



/-! ### parameters are read through `find?` only -/

section copy
variable {params params' : List (String × Val)} (hp : ∀ k, find? params k = find? params' k)
include hp

theorem freeArgs_copy : freeArgs params = freeArgs params' := by
  funext f
  exact freeArgs_congr f fun a _ _ => hp _

theorem roundingSpecOf_copy : roundingSpecOf params = roundingSpecOf params' := by
  funext key name
  exact roundingSpecOf_congr key name (hp key)

theorem nodeOf_copy : nodeOf params = nodeOf params' := by
  funext specs f
  unfold nodeOf
  simp only [← freeArgs_copy hp]
  congr 1
  cases f.kind with
  | rule fn ret key => exact ruleOp_congr fn ret _ _ fun a _ _ => hp _
  | _ => rfl

theorem plan_copy (T : List String) (pr : Prep) : plan params T pr = plan params' T pr := by
  unfold plan
  simp only [← freeArgs_copy hp, ← roundingSpecOf_copy hp, ← nodeOf_copy hp]

end copy

end GV.Simulate
