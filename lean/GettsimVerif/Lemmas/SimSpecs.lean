import GettsimVerif.Lemmas.SimOverride
import GettsimVerif.Props.C03Sim
import GettsimVerif.Props.C10Sim
import GettsimVerif.Props.C13Sim
/-
Helper lemmas for `Props/SimSpecs.lean`: table-level specifications of `simulate` (what the result
table of a successful call contains for a time-conversion variant, an automatic group sum, a
vectorized rule, a rounded rule), read off the one-step unfolding of `Dag.eval`.
-/
namespace GV.Simulate
open GV.Lang (Val FunDef)
open GV.VecDtype (R DT numOf dtypeOf)
open GV.TimeConv (TUnit)
open GV.Yaml (Y Key)

/-! ## 0. one step of the evaluation -/

/-- the preparation stage of the call `simulate inp` -/
abbrev sp_prep (inp : Input) : Except Err Prep :=
  prepare (inp.rules.map (ruleFn inp.rounding)) inp.groupSpecs inp.pidSpecs inp.data (sortDedup inp.targets)

/-- the number of rows of the result frame: the length of the first (converted) data column -/
def sp_nRows (pr : Prep) : Nat := (pr.data.head?.map (·.2.vals.length)).getD 0

theorem sp_value_eq {inp : Input} {pr : Prep} (hpr : sp_prep inp = .ok pr) (x : String) :
    ov_value inp x = Dag.eval (fullSys inp.params pr.fns) pr.data (pr.fns.length + 1) x := by
  unfold ov_value
  have : prepare (inp.rules.map (ruleFn inp.rounding)) inp.groupSpecs inp.pidSpecs inp.data
      (sortDedup inp.targets) = .ok pr := hpr
  rw [this]
  rfl

/-- what a successful call delivers: the preparation succeeds, and every requested target has a
value whose rendering is the reported column -/
theorem sp_simulate_ok {inp : Input} {tbl : Table} (h : simulate inp = .ok tbl) :
    ∃ pr, sp_prep inp = .ok pr ∧ ∀ t ∈ inp.targets, ∃ v, ov_value inp t = .ok v ∧
      find? tbl t = some (render (sp_nRows pr) v) := by
  have h0 := h
  unfold simulate run at h
  simp only at h
  obtain ⟨pr, hpr, _⟩ := bind_ok h
  refine ⟨pr, hpr, ?_⟩
  intro t ht
  obtain ⟨pr', v, hpr', hv, hf⟩ := simulate_value_unpruned inp tbl t h0 ht
  rw [hpr] at hpr'
  cases hpr'
  exact ⟨v, by rw [sp_value_eq hpr]; exact hv, hf⟩

/-- the column of a requested target is the rendering of ITS value (whatever name the value has
been given) -/
theorem sp_col_of_value {inp : Input} {tbl : Table} {pr : Prep} (h : simulate inp = .ok tbl)
    (hpr : sp_prep inp = .ok pr) {t : String} (ht : t ∈ inp.targets) {v : Col}
    (hv : ov_value inp t = .ok v) : find? tbl t = some (render (sp_nRows pr) v) := by
  obtain ⟨pr', hpr', hall⟩ := sp_simulate_ok h
  rw [hpr] at hpr'
  cases hpr'
  obtain ⟨v', hv', hf⟩ := hall t ht
  rw [hv] at hv'
  cases hv'
  exact hf

/-- **one step of `Dag.eval`**: a value is a data column, or the operation of the function of that
name applied to the values of its free arguments -/
theorem sp_value_unfold {inp : Input} {pr : Prep} (hpr : sp_prep inp = .ok pr) {x : String} {v : Col}
    (hv : ov_value inp x = .ok v) :
    Dag.find? pr.data x = some v ∨
    (Dag.find? pr.data x = none ∧ ∃ f args, findFn? pr.fns x = some f ∧
      List.Forall₂ (fun a c => ov_value inp a = .ok c) (freeArgs inp.params f) args ∧
      (nodeLazy inp.params f).op args = .ok v) := by
  rw [sp_value_eq hpr] at hv
  cases hD : Dag.find? pr.data x with
  | some c =>
    rw [Dag.eval_succ_of_data hD] at hv
    cases hv
    exact Or.inl rfl
  | none =>
    right
    refine ⟨rfl, ?_⟩
    cases hS : Dag.find? (fullSys inp.params pr.fns) x with
    | none => rw [Dag.eval_succ_of_missing hD hS] at hv; cases hv
    | some nd =>
      rw [Dag.eval_succ_of_node hD hS] at hv
      obtain ⟨args, hargs, hop⟩ := bind_ok hv
      rw [ov_find?_fullSys] at hS
      cases hf : findFn? pr.fns x with
      | none => rw [hf] at hS; cases hS
      | some f =>
        rw [hf] at hS
        simp only [Option.map_some, Option.some.injEq] at hS
        subst hS
        refine ⟨f, args, rfl, ?_, hop⟩
        rw [Dag.evalAll_ok_iff] at hargs
        refine hargs.imp ?_
        intro a c hac
        rw [sp_value_eq hpr]
        exact Dag.eval_fuel_mono _ _ _ a c hac

/-- a value is either a data column or belongs to a function (never both: data win) -/
theorem sp_value_source {inp : Input} {pr : Prep} (hpr : sp_prep inp = .ok pr) {x : String} {v : Col}
    (hv : ov_value inp x = .ok v) :
    Dag.find? pr.data x = some v ∨ (Dag.find? pr.data x = none ∧ (findFn? pr.fns x).isSome = true) := by
  rcases sp_value_unfold hpr hv with h | ⟨h, f, _, hf, _⟩
  · exact Or.inl h
  · exact Or.inr ⟨h, by rw [hf]; rfl⟩

/-- a requested target of a successful call is a function that is not overridden by data -/
theorem sp_target_fn {inp : Input} {pr : Prep} (hpr : sp_prep inp = .ok pr) {t : String}
    (ht : t ∈ inp.targets) : Dag.find? pr.data t = none ∧ ∃ f, findFn? pr.fns t = some f := by
  obtain ⟨raw, all, hraw, _, _, _, hconv, hfns, hdc, htar⟩ := prepare_ok' hpr
  have hT := List.all_eq_true.1 htar t ((mem_sortDedup t _).2 ht)
  unfold hasFn at hT
  cases hf : findFn? pr.fns t with
  | none => rw [hf] at hT; cases hT
  | some f =>
    refine ⟨?_, f, rfl⟩
    rw [Dag.find?_eq_none_iff, convertData_fst_names hconv]
    have hmem := (findFn?_some hf).1
    have hname := (findFn?_some hf).2
    rw [hfns, List.mem_filter] at hmem
    have := hmem.2
    rw [hname] at this
    simpa using this

/-! ## the kinds of the function set are well-formed -/

/-- the arguments of a derived function are the ones its kind names -/
def sp_WFKind (f : Fn) : Prop :=
  (∀ src u v, f.kind = .timeConv src u v → f.args = [src]) ∧
  (∀ a s gid, f.kind = .groupAgg a (some s) gid → f.args = [s, gid] ∧ s ≠ gid) ∧
  (∀ a gid, f.kind = .groupAgg a none gid → f.args = [gid] ∧ a = .count)

theorem sp_WFKind_of_other {f : Fn} (h1 : ∀ src u v, f.kind ≠ .timeConv src u v)
    (h2 : ∀ a s gid, f.kind ≠ .groupAgg a s gid) : sp_WFKind f :=
  ⟨fun src u v h => absurd h (h1 src u v), fun a s gid h => absurd h (h2 a (some s) gid),
   fun a gid h => absurd h (h2 a none gid)⟩

theorem sp_pidFns_kinds {rules : List Fn} {dataCols : List String} {specs : List (String × PidSpec)}
    {fs : List Fn} (h : pidFns rules dataCols specs = .ok fs) : ∀ f ∈ fs, sp_WFKind f := by
  unfold pidFns at h
  obtain ⟨l, hl, h⟩ := bind_ok h
  cases h
  intro f hf
  rcases rnd_mem_merge hf with hf | hf
  · cases hf
  · obtain ⟨⟨n, s⟩, _, hg⟩ := filterMapM_ok_mem _ _ _ hl f hf
    simp only at hg
    split at hg
    · split at hg
      · cases hg
      · cases hg
        exact sp_WFKind_of_other (fun _ _ _ hk => by cases hk) (fun _ _ _ hk => by cases hk)
    · cases hg

theorem sp_timeConvFns_kinds (fns : List Fn) (dataCols : List String) :
    ∀ f ∈ timeConvFns fns dataCols, sp_WFKind f := by
  intro f hf
  unfold timeConvFns at hf
  obtain ⟨d, _, rfl⟩ := List.mem_map.mp hf
  refine ⟨?_, ?_, ?_⟩
  · intro src u v hk
    simp only at hk
    cases hk
    rfl
  · intro a s gid hk; cases hk
  · intro a gid hk; cases hk

theorem sp_groupAggFn_kinds {fns : List Fn} {name : String} {s : GroupSpec} {f : Fn}
    (h : groupAggFn fns name s = .ok f) : sp_WFKind f := by
  unfold groupAggFn at h
  split at h
  · cases h
  · split at h
    · cases h
      refine ⟨fun _ _ _ hk => (by cases hk), fun _ _ _ hk => (by cases hk), ?_⟩
      intro a gid hk
      cases hk
      exact ⟨rfl, rfl⟩
    · split at h
      · cases h
      · rename_i hne
        cases h
        refine ⟨fun _ _ _ hk => (by cases hk), ?_, fun _ _ hk => (by cases hk)⟩
        intro a s gid hk
        cases hk
        exact ⟨rfl, hne⟩
    · cases h

theorem sp_groupAggFns_kinds {fns : List Fn} {targets dataCols : List String}
    {us : List (String × GroupSpec)} {fs : List Fn}
    (h : groupAggFns fns targets dataCols us = .ok fs) : ∀ f ∈ fs, sp_WFKind f := by
  unfold groupAggFns at h
  simp only at h
  split at h
  · cases h
  · intro f hf
    obtain ⟨⟨n, s⟩, _, hg⟩ := mapM_ok_mem _ _ _ h f hf
    exact sp_groupAggFn_kinds hg

theorem sp_groupingFns_kinds : ∀ f ∈ groupingFns, sp_WFKind f := by
  intro f hf
  simp only [groupingFns, List.mem_cons, List.not_mem_nil, or_false] at hf
  rcases hf with rfl | rfl | rfl | rfl | rfl | rfl <;>
    exact sp_WFKind_of_other (fun _ _ _ hk => by cases hk) (fun _ _ _ hk => by cases hk)

theorem sp_buildFunctions_kinds {ruleFns : List Fn} {gs : List (String × GroupSpec)}
    {ps : List (String × PidSpec)} {targets dataCols : List String} {all : List Fn}
    (hr : ∀ f ∈ ruleFns, sp_WFKind f)
    (h : buildFunctions ruleFns gs ps targets dataCols = .ok all) : ∀ f ∈ all, sp_WFKind f := by
  unfold buildFunctions at h
  obtain ⟨pid, hpid, h⟩ := bind_ok h
  obtain ⟨grp, hgrp, h⟩ := bind_ok h
  cases h
  intro f hf
  have hrules : f ∈ merge [] ruleFns → sp_WFKind f := fun h => by
    rcases rnd_mem_merge h with h | h
    · cases h
    · exact hr f h
  rcases rnd_mem_merge hf with hf | hf
  · rcases rnd_mem_merge hf with hf | hf
    · rcases rnd_mem_merge hf with hf | hf
      · rcases rnd_mem_merge hf with hf | hf
        · exact sp_pidFns_kinds hpid f hf
        · exact sp_timeConvFns_kinds _ _ f hf
      · exact hrules hf
    · exact sp_groupAggFns_kinds hgrp f hf
  · exact sp_groupingFns_kinds f hf

/-- every function of a prepared call has the arguments its kind names -/
theorem sp_prepare_kinds {inp : Input} {pr : Prep} (hpr : sp_prep inp = .ok pr) :
    ∀ f ∈ pr.fns, sp_WFKind f := by
  obtain ⟨raw, all, _, hall, _, hfns, _⟩ := prepare_ok hpr
  intro f hf
  rw [hfns] at hf
  refine sp_buildFunctions_kinds ?_ hall f (List.mem_filter.1 hf).1
  intro g hg
  obtain ⟨r, _, rfl⟩ := List.mem_map.1 hg
  exact sp_WFKind_of_other (fun _ _ _ hk => by cases hk) (fun _ _ _ hk => by cases hk)

/-- the rules of a prepared call are the vectorized user rules -/
theorem sp_prepare_rule {inp : Input} {pr : Prep} (hpr : sp_prep inp = .ok pr) {f : Fn} (hf : f ∈ pr.fns)
    {fn : FunDef} {ret : Option Ty} {key : Option String} (hk : f.kind = .rule fn ret key) :
    ∃ r ∈ inp.rules, f = ruleFn inp.rounding r ∧ fn = r.fn ∧ ret = r.ret ∧
      key = (if inp.rounding then r.roundingKey else none) ∧ f.args = fn.args ∧ f.name = r.name := by
  have := prepare_rules hpr f hf ⟨fn, ret, key, hk⟩
  obtain ⟨r, hr, rfl⟩ := List.mem_map.1 this
  simp only [ruleFn] at hk
  cases hk
  exact ⟨r, hr, rfl, rfl, rfl, rfl, rfl, rfl⟩

/-! ## rendering -/

/-- the entries behind the rendered column: a scalar is repeated `n` times -/
def sp_expand (n : Nat) (c : Col) : List R := if c.scalar then List.replicate n (c.at 0) else c.vals

theorem sp_render_eq (n : Nat) (c : Col) : render n c = (sp_expand n c).map rToVal := by
  unfold render sp_expand
  split <;> simp

theorem sp_map_rToVal_flt : ∀ (l : List R) (qs : List Rat), l.map rToVal = qs.map Val.flt → l = qs.map R.f := by
  intro l
  induction l with
  | nil => intro qs h; cases qs with
    | nil => rfl
    | cons q qs => simp at h
  | cons r l ih =>
    intro qs h
    cases qs with
    | nil => simp at h
    | cons q qs =>
      simp only [List.map_cons, List.cons.injEq] at h ⊢
      refine ⟨?_, ih qs h.2⟩
      cases r <;> simp [rToVal] at h ⊢
      exact h.1

theorem sp_map_rToVal_int : ∀ (l : List R) (ks : List Int), l.map rToVal = ks.map Val.int → l = ks.map R.i := by
  intro l
  induction l with
  | nil => intro qs h; cases qs with
    | nil => rfl
    | cons q qs => simp at h
  | cons r l ih =>
    intro qs h
    cases qs with
    | nil => simp at h
    | cons q qs =>
      simp only [List.map_cons, List.cons.injEq] at h ⊢
      refine ⟨?_, ih qs h.2⟩
      cases r <;> simp [rToVal] at h ⊢
      exact h.1

theorem sp_at_zero_scalar {c : Col} (hs : c.scalar = true) : c.at 0 = c.vals.headD default := by
  unfold Col.at
  rw [if_pos hs]

/-- a scalar whose rendering shows floats (ints) has a value — or there are no rows -/
theorem sp_scalar_ne {n : Nat} {c : Col} {l : List R} (hq : sp_expand n c = l)
    (hl : ∀ r ∈ l, r ≠ default) (hs : c.scalar = true) : c.vals ≠ [] ∨ n = 0 := by
  cases n with
  | zero => exact Or.inr rfl
  | succ n =>
    left
    intro hnil
    unfold sp_expand at hq
    rw [if_pos hs, sp_at_zero_scalar hs, hnil] at hq
    subst hq
    exact hl default (by simp) rfl

/-- an operation that works value by value and keeps scalars scalar commutes with the rendering -/
theorem sp_expand_map {n : Nat} {c out : Col} (g : R → R) (hs : out.scalar = c.scalar)
    (hv : out.vals = c.vals.map g) (hne : c.scalar = true → c.vals ≠ [] ∨ n = 0) :
    sp_expand n out = (sp_expand n c).map g := by
  unfold sp_expand
  rw [hs]
  cases hsc : c.scalar with
  | false => simp [hv]
  | true =>
    simp only [if_true, List.map_replicate]
    rcases hne hsc with h | h
    · have hso : out.scalar = true := by rw [hs, hsc]
      rw [sp_at_zero_scalar hso, sp_at_zero_scalar hsc, hv]
      cases hc : c.vals with
      | nil => exact absurd hc h
      | cons r rs => rfl
    · subst h; rfl

theorem sp_expand_map' {n : Nat} {c : Col} (g : R → R) (dt : DT) (sh : Shape) (hs : (sh != Shape.arr) = c.scalar)
    (hne : c.scalar = true → c.vals ≠ [] ∨ n = 0) :
    sp_expand n { dt := dt, vals := c.vals.map g, shape := sh } = (sp_expand n c).map g :=
  sp_expand_map g hs rfl hne

/-- a typed column whose rendering shows at least one float has dtype float -/
theorem sp_dt_of_expand {n : Nat} {c : Col} (ht : ov_Typed c) {r : R} {l : List R}
    (hq : sp_expand n c = r :: l) (hr : r ≠ default) : c.dt = dtypeOf r := by
  unfold sp_expand at hq
  cases hsc : c.scalar with
  | false =>
    rw [hsc] at hq
    simp only [Bool.false_eq_true, if_false] at hq
    exact (ht r (by rw [hq]; exact List.mem_cons_self)).symm
  | true =>
    rw [hsc] at hq
    simp only [if_true] at hq
    cases n with
    | zero => cases hq
    | succ n =>
      rw [List.replicate_succ, sp_at_zero_scalar hsc] at hq
      cases hc : c.vals with
      | nil => rw [hc] at hq; simp only [List.headD_nil, List.cons.injEq] at hq; exact absurd hq.1.symm hr
      | cons r' rs =>
        rw [hc] at hq
        simp only [List.headD_cons, List.cons.injEq] at hq
        rw [← hq.1]
        exact (ht r' (by rw [hc]; exact List.mem_cons_self)).symm

/-! ## 1. time conversion -/

theorem sp_timeConvOp_args {u v : TUnit} {args : List Col} {out : Col} (h : timeConvOp u v args = .ok out) :
    ∃ c, args = [c] := by
  unfold timeConvOp at h
  split at h
  · exact ⟨_, rfl⟩
  · cases h

theorem sp_tc_scalar (c : Col) :
    ((if c.shape == .arr0 then Shape.npScalar else c.shape) != Shape.arr) = c.scalar := by
  unfold Col.scalar
  cases c.shape <;> rfl

/-- the converter on a column whose rendering shows floats only -/
theorem sp_timeConv_expand {u v : TUnit} {c out : Col} {n : Nat} {qs : List Rat} (ht : ov_Typed c)
    (h : timeConvOp u v [c] = .ok out) (hq : sp_expand n c = qs.map R.f) :
    sp_expand n out = qs.map fun q => R.f (TimeConv.conv u v q) := by
  have hne : c.scalar = true → c.vals ≠ [] ∨ n = 0 := by
    refine sp_scalar_ne hq ?_
    intro r hr
    obtain ⟨q, _, rfl⟩ := List.mem_map.1 hr
    intro hd; cases hd
  unfold timeConvOp at h
  simp only at h
  split at h
  · rename_i hcond
    cases h
    cases qs with
    | nil =>
      rw [sp_expand_map' (fun r => R.i (ratToInt (numOf r) * 12)) _ _ (sp_tc_scalar c) hne, hq]
      rfl
    | cons q qs =>
      have := sp_dt_of_expand ht hq (by intro hd; cases hd)
      exact absurd this hcond.2.2
  · cases h
    rw [sp_expand_map' (fun r => R.f (TimeConv.conv u v (numOf r))) _ _ (sp_tc_scalar c) hne, hq, List.map_map]
    rfl

/-! ## 2. group sums -/

/-- the conversion of a group sum back to the dtype of the result (`ofRat` inside `groupAggOp`) -/
def sp_ofRat (dt : DT) (q : Rat) : R := match dt with | .float => .f q | _ => .i (ratToInt q)

theorem sp_groupedSum_len {col : List Rat} {gid : List Int} {r : List Rat}
    (h : Agg.groupedSum col gid = .ok r) : gid.length = col.length := by
  unfold Agg.groupedSum Agg.grouped Agg.guard at h
  split at h
  · obtain ⟨_, h', _⟩ := bind_ok h; cases h'
  · rename_i hne
    exact Decidable.of_not_not hne

theorem sp_groupAggOp_sum_args {args : List Col} {out : Col} (h : groupAggOp .sum args = .ok out) :
    ∃ col gid, args = [col, gid] := by
  unfold groupAggOp at h
  split at h
  · simp at h
  · exact ⟨_, _, rfl⟩
  · cases h

/-- the group sum, value by value: the (broadcast) source values are summed over the rows with the
same id; int and bool sources give an int column, float sources a float column -/
theorem sp_groupAggOp_sum {col gid out : Col} (h : groupAggOp .sum [col, gid] = .ok out) :
    gid.scalar = false ∧ gid.dt = .int ∧ out.shape = .arr ∧
    out.dt = (if col.dt == .bool then DT.int else col.dt) ∧
    (sp_expand gid.vals.length col).length = gid.vals.length ∧
    out.vals = gid.ints.map fun g =>
      sp_ofRat out.dt (Agg.members gid.ints ((sp_expand gid.vals.length col).map numOf) g).sum := by
  unfold groupAggOp at h
  simp only at h
  split at h
  · cases h
  split at h
  · cases h
  split at h
  · cases h
  split at h
  · cases h
  split at h
  · cases h
  split at h
  · cases h
  rename_i h1 h2 _ _ h5 _
  obtain ⟨r, hr, h⟩ := bind_ok h
  have hr' := Agg.grouped_ok_eq _ _ _ _ r hr
  have hlen := sp_groupedSum_len hr
  simp only [Agg.groupVal_add] at hr'
  simp only [pure, Except.pure, Except.ok.injEq] at h
  subst h
  refine ⟨by simpa using h5, by simpa using h2, rfl, ?_, ?_, ?_⟩
  · cases hsc : col.scalar <;> simp
  · cases hsc : col.scalar with
    | false =>
      rw [hsc] at hlen
      simp only [Bool.false_eq_true, if_false, Col.rats, Col.ints, List.length_map] at hlen
      simp only [sp_expand, hsc, Bool.false_eq_true, if_false]
      exact hlen.symm
    | true => simp [sp_expand, hsc]
  · subst hr'
    simp only [List.map_map]
    apply List.map_congr_left
    intro g _
    simp only [Function.comp]
    cases hsc : col.scalar with
    | false =>
      simp only [Bool.false_eq_true, if_false, sp_expand, hsc, Col.rats]
      rfl
    | true =>
      simp only [if_true, sp_expand, hsc, Col.rats, List.map_map, Col.ints]
      have : List.map (numOf ∘ fun x => col.at 0) gid.vals = List.map numOf (List.replicate gid.vals.length (col.at 0)) := by
        rw [List.map_replicate]
        clear hr hlen
        induction gid.vals with
        | nil => rfl
        | cons a l ih => simp [List.replicate_succ, ih]
      rw [this]
      rfl

theorem sp_filter_full {α : Type} (p : α → Bool) : ∀ (l : List α), (l.filter p).length = l.length → l.filter p = l := by
  intro l
  induction l with
  | nil => intro _; rfl
  | cons a l ih =>
    intro h
    rw [List.filter_cons] at h ⊢
    split at h
    · rename_i hp
      rw [if_pos hp]
      simp only [List.length_cons, Nat.add_right_cancel_iff] at h
      rw [ih h]
    · have := List.length_filter_le p l
      simp only [List.length_cons] at h
      omega

/-- if as many values arrive as the function has arguments, no argument was partialled -/
theorem sp_freeArgs_full {params : List (String × Val)} {f : Fn}
    (h : (freeArgs params f).length = f.args.length) : freeArgs params f = f.args :=
  sp_filter_full _ _ h

/-- the value of a name that is a data column is that column -/
theorem sp_value_data {inp : Input} {pr : Prep} (hpr : sp_prep inp = .ok pr) {x : String} {v g : Col}
    (hv : ov_value inp x = .ok v) (hg : Dag.find? pr.data x = some g) : v = g := by
  rcases sp_value_unfold hpr hv with h | ⟨h, _⟩
  · rw [hg] at h; exact (Option.some.inj h).symm
  · rw [hg] at h; cases h

theorem sp_value_typed {inp : Input} {pr : Prep} (hpr : sp_prep inp = .ok pr) {x : String} {v : Col}
    (hv : ov_value inp x = .ok v) : ov_Typed v := by
  rw [sp_value_eq hpr] at hv
  exact ov_eval_typed hpr inp.params _ _ v hv

/-- with data columns of equal length, every converted data column has the number of rows of the frame -/
theorem sp_data_len {inp : Input} {pr : Prep} (hpr : sp_prep inp = .ok pr)
    (hlen : ∀ c ∈ inp.data, c.2.length = nRowsOf inp) :
    sp_nRows pr = nRowsOf inp ∧ ∀ x c, Dag.find? pr.data x = some c → c.vals.length = nRowsOf inp := by
  obtain ⟨hl, hcols⟩ := prepare_data_lengths hpr
  have hgoodD : ∀ e ∈ pr.data, e.2.vals.length = nRowsOf inp := by
    intro e he
    obtain ⟨a, ha, hea⟩ := hcols e he
    rw [hea]; exact hlen a ha
  refine ⟨?_, fun x c hx => hgoodD (x, c) (Dag.find?_mem _ _ _ hx)⟩
  unfold sp_nRows
  cases hd : pr.data with
  | nil =>
    rw [hd] at hl
    have : inp.data = [] := List.length_eq_zero_iff.1 hl.symm
    simp [nRowsOf, this]
  | cons e rest =>
    simp only [List.head?_cons, Option.map_some, Option.getD_some]
    exact hgoodD e (by rw [hd]; exact List.mem_cons_self)

theorem sp_sum_cast (l : List Int) : (l.map (Int.cast : Int → Rat)).sum = ((l.sum : Int) : Rat) := by
  induction l with
  | nil => simp
  | cons a l ih => simp [ih]

/-- the unfolding of a requested target (`simulate_node_unfold`) -/
theorem sp_target_unfold {inp : Input} {tbl : Table} {t : String}
    (h : simulate inp = .ok tbl) (ht : t ∈ inp.targets) :
    ∃ pr v f args, sp_prep inp = .ok pr ∧ ov_value inp t = .ok v ∧
      find? tbl t = some (render (sp_nRows pr) v) ∧
      Dag.find? pr.data t = none ∧ findFn? pr.fns t = some f ∧
      List.Forall₂ (fun a c => ov_value inp a = .ok c ∧
          (Dag.find? pr.data a = some c ∨
            (Dag.find? pr.data a = none ∧ (findFn? pr.fns a).isSome = true)))
        (freeArgs inp.params f) args ∧
      (nodeLazy inp.params f).op args = .ok v := by
  obtain ⟨pr, hpr, hall⟩ := sp_simulate_ok h
  obtain ⟨v, hv, hcol⟩ := hall t ht
  obtain ⟨hD, _⟩ := sp_target_fn hpr ht
  rcases sp_value_unfold hpr hv with hd | ⟨_, f, args, hf, hargs, hop⟩
  · rw [hD] at hd; cases hd
  · refine ⟨pr, v, f, args, hpr, hv, hcol, hD, hf, ?_, hop⟩
    exact hargs.imp fun a c hac => ⟨hac, sp_value_source hpr hac⟩

/-- the same with the preparation and the function given -/
theorem sp_target_unfold' {inp : Input} {tbl : Table} {t : String} {pr : Prep} {f : Fn}
    (h : simulate inp = .ok tbl) (ht : t ∈ inp.targets) (hpr : sp_prep inp = .ok pr)
    (hf : findFn? pr.fns t = some f) :
    ∃ v args, ov_value inp t = .ok v ∧ find? tbl t = some (render (sp_nRows pr) v) ∧
      List.Forall₂ (fun a c => ov_value inp a = .ok c) (freeArgs inp.params f) args ∧
      (nodeLazy inp.params f).op args = .ok v := by
  obtain ⟨pr', v, f', args, hpr', hv, hcol, _, hf', hargs, hop⟩ := sp_target_unfold h ht
  rw [hpr] at hpr'; cases hpr'
  rw [hf] at hf'; cases hf'
  exact ⟨v, args, hv, hcol, hargs.imp fun _ _ hh => hh.1, hop⟩

/-- the table-level content of a requested automatic group sum whose id column is a data column -/
theorem sp_group_sum_core {inp : Input} {tbl : Table} {pr : Prep} {f : Fn} {s x gid : String} {g : Col}
    (h : simulate inp = .ok tbl) (hs : s ∈ inp.targets) (hx : x ∈ inp.targets)
    (hpr : sp_prep inp = .ok pr) (hf : findFn? pr.fns x = some f)
    (hk : f.kind = .groupAgg .sum (some s) gid) (hg : Dag.find? pr.data gid = some g)
    (hlen : ∀ c ∈ inp.data, c.2.length = nRowsOf inp) :
    ∃ col dt, ov_value inp s = .ok col ∧ ov_Typed col ∧
      find? tbl s = some ((sp_expand (sp_nRows pr) col).map rToVal) ∧
      (sp_expand (sp_nRows pr) col).length = g.ints.length ∧
      dt = (if col.dt == .bool then DT.int else col.dt) ∧
      find? tbl x = some (g.ints.map fun k =>
        rToVal (sp_ofRat dt (Agg.members g.ints ((sp_expand (sp_nRows pr) col).map numOf) k).sum)) := by
  obtain ⟨out, args, _, hcx, hargs, hop⟩ := sp_target_unfold' h hx hpr hf
  have hop' : groupAggOp .sum args = .ok out := by
    rw [← (nodeOf_ops inp.params _ f).2.1 .sum (some s) gid hk]; exact hop
  obtain ⟨col, gidc, rfl⟩ := sp_groupAggOp_sum_args hop'
  have hargs_f : f.args = [s, gid] := ((sp_prepare_kinds hpr f (findFn?_some hf).1).2.1 .sum s gid hk).1
  have hfree : freeArgs inp.params f = [s, gid] := by
    rw [← hargs_f]
    apply sp_freeArgs_full
    rw [hargs.length_eq, hargs_f]
    rfl
  rw [hfree] at hargs
  cases hargs with
  | cons hcol hrest =>
    cases hrest with
    | cons hgid _ =>
      have := sp_value_data hpr hgid hg
      subst this
      obtain ⟨_, _, hshape, hdt, hl, hvals⟩ := sp_groupAggOp_sum hop'
      obtain ⟨hn, hdl⟩ := sp_data_len hpr hlen
      have hn' : sp_nRows pr = gidc.vals.length := by rw [hn, hdl gid gidc hg]
      rw [← hn'] at hl hvals
      refine ⟨col, out.dt, hcol, sp_value_typed hpr hcol, ?_, ?_, hdt, ?_⟩
      · rw [sp_col_of_value h hpr hs hcol, sp_render_eq]
      · rw [hl, hn', Col.ints_length]
      · rw [hcx, ov_render_arr _ _ hshape, hvals, List.map_map]
        rfl

/-! ## 4. rounded rules -/

/-- a scalar result of a vectorized rule has exactly one value -/
theorem sp_ruleOp_scalar {params : List (String × Val)} {fn : FunDef} {ret : Option Ty} {free : List String}
    {cols : List Col} {raw : Col} (h : ruleOp params fn ret none free cols = .ok raw)
    (hs : raw.scalar = true) : raw.vals.length = 1 := by
  rw [ruleOp_eq_K] at h
  unfold ruleOpK at h
  obtain ⟨n?, hn, h⟩ := bind_ok h
  extract_lets rows npArgs jpF jpB args0 at h
  have hB : ∀ probed, jpB probed = .ok raw → raw.vals.length = 1 := by
    intro probed hb
    simp only [jpB] at hb
    obtain ⟨rawv, hraw, hb⟩ := bind_ok hb
    obtain ⟨rs, hrs, hb⟩ := bind_ok hb
    split at hb
    · split at hb
      · simp only [jpF, tailOf, pure, Except.pure, bind, Except.bind, Except.ok.injEq] at hb
        subst hb; rfl
      · exact absurd hb throw_bind_ne_ok
    · split at hb
      · rename_i dt vals hvec
        simp only [jpF, tailOf, pure, Except.pure, bind, Except.bind, Except.ok.injEq] at hb
        subst hb
        simp only
        rw [vectorize_length hvec, ((Dag.mapM_ok_iff _ _ _).1 hrs).length_eq.symm,
          ((Dag.mapM_ok_iff _ _ _).1 hraw).length_eq.symm]
        cases n? with
        | none => simp [rows]
        | some m => simp [Col.scalar] at hs
      · exact absurd hb throw_bind_ne_ok
  split at h
  · exact hB _ h
  · split at h
    · exact absurd h throw_bind_ne_ok
    · split at h
      · exact hB _ h
      · exact absurd h throw_bind_ne_ok
      · exact hB _ h

theorem sp_ruleOp_scalar_ne {params : List (String × Val)} {fn : FunDef} {ret : Option Ty} {free : List String}
    {cols : List Col} {raw : Col} (h : ruleOp params fn ret none free cols = .ok raw) (n : Nat) :
    raw.scalar = true → raw.vals ≠ [] ∨ n = 0 := by
  intro hs
  left
  intro hnil
  have := sp_ruleOp_scalar h hs
  rw [hnil] at this
  cases this

/-- the rendered entries of a rounded rule are `roundTo` of the rendered entries of the bare rule -/
theorem sp_rounded_expand {params : List (String × Val)} {fn : FunDef} {ret : Option Ty} {s : RSpec}
    {free : List String} {cols : List Col} {out : Col} {b off : Rat} {dir : Round.Dir} (n : Nat)
    (hout : ruleOp params fn ret (some s) free cols = .ok out) (hs : SpecIs s b dir off) :
    ∃ raw, ruleOp params fn ret none free cols = .ok raw ∧
      sp_expand n out = (sp_expand n raw).map fun r => R.f (Round.roundTo b dir off (numOf r)) := by
  rw [ruleOp_rounding_factor] at hout
  obtain ⟨raw, hraw, ha⟩ := bind_ok hout
  refine ⟨raw, hraw, ?_⟩
  rw [applySpec_of_specIs hs] at ha
  split at ha
  · cases ha
  · cases ha
    apply sp_expand_map'
    · cases raw.scalar <;> rfl
    · exact sp_ruleOp_scalar_ne hraw n

/-- the node of a rule: the vectorized rule with the rounding spec looked up on demand -/
theorem sp_nodeLazy_rule {params : List (String × Val)} {f : Fn} {fn : FunDef} {ret : Option Ty}
    {key : Option String} (hk : f.kind = .rule fn ret key) :
    (nodeLazy params f).op = ruleOp params fn ret (lazySpec params f) (freeArgs params f) := by
  unfold nodeLazy
  rw [(nodeOf_ops params _ f).2.2.2.2 fn ret key hk]
  congr 1
  cases lazySpec params f with
  | none => rfl
  | some s => simp [find?, Dag.find?_cons_self]

theorem sp_lazySpec_keyed {params : List (String × Val)} {f : Fn} {fn : FunDef} {ret : Option Ty}
    {key : String} {s : RSpec} (hk : f.kind = .rule fn ret (some key))
    (hs : roundingSpecOf params key f.name = .ok s) : lazySpec params f = some s := by
  unfold lazySpec
  rw [hk]
  simp only [hs]
  rfl

theorem sp_lazySpec_unkeyed {params : List (String × Val)} {f : Fn} {fn : FunDef} {ret : Option Ty}
    (hk : f.kind = .rule fn ret none) : lazySpec params f = none := by
  unfold lazySpec
  rw [hk]

/-! ## the function set only looks at names, parameters and annotations of the rules

(the generalisation of `ov_buildFunctions_blank` to an arbitrary map of the functions that keeps
name, arguments and return annotation and leaves all derived functions alone) -/
section neutral
variable (m : Fn → Fn) (hn : ∀ f, (m f).name = f.name) (ha : ∀ f, (m f).args = f.args)
  (hann : ∀ f, (m f).ann = f.ann) (hfix : ∀ f, f.notRule → m f = f)
include hn

theorem sp_dictUpdate_map (d : List Fn) (f : Fn) :
    dictUpdate (d.map m) (m f) = (dictUpdate d f).map m := by
  induction d with
  | nil => rfl
  | cons g d ih =>
    simp only [List.map_cons, dictUpdate, hn]
    split
    · rfl
    · rw [List.map_cons, ih]

theorem sp_merge_map (a b : List Fn) : merge (a.map m) (b.map m) = (merge a b).map m := by
  unfold merge
  induction b generalizing a with
  | nil => rfl
  | cons f b ih =>
    rw [List.map_cons, List.foldl_cons, List.foldl_cons, sp_dictUpdate_map m hn, ih]

theorem sp_findFn?_map (d : List Fn) (x : String) : findFn? (d.map m) x = (findFn? d x).map m := by
  induction d with
  | nil => rfl
  | cons g d ih =>
    rw [List.map_cons, findFn?_cons, findFn?_cons, hn, ih]
    split <;> rfl

theorem sp_hasFn_map (d : List Fn) (x : String) : hasFn (d.map m) x = hasFn d x := by
  unfold hasFn
  rw [sp_findFn?_map m hn]
  cases findFn? d x <;> rfl

theorem sp_names_map (d : List Fn) : (d.map m).map (·.name) = d.map (·.name) := by
  rw [List.map_map]
  apply List.map_congr_left
  intro f _
  exact hn f

include hann in
theorem sp_aggAnn_map (a : Aggr) (src : Option String) (d : List Fn) :
    aggAnn a src (d.map m) = aggAnn a src d := by
  unfold aggAnn
  cases a <;> cases src <;> simp only [sp_findFn?_map m hn] <;>
    (rename_i s; cases findFn? d s <;> simp [hann])

omit hn in
include ha in
theorem sp_args_map (d : List Fn) : (d.map m).flatMap (·.args) = d.flatMap (·.args) := by
  induction d with
  | nil => rfl
  | cons f d ih => rw [List.map_cons, List.flatMap_cons, List.flatMap_cons, ih, ha]

omit hn in
include hfix in
theorem sp_map_fix {l : List Fn} (h : ∀ f ∈ l, f.notRule) : l.map m = l := by
  rw [List.map_congr_left (g := id)]
  · simp
  · intro f hf; exact hfix f (h f hf)

include hann in
theorem sp_pidFns_map (rules : List Fn) (dc : List String) (ps : List (String × PidSpec)) :
    pidFns (rules.map m) dc ps = pidFns rules dc ps := by
  unfold pidFns
  simp only [sp_hasFn_map m hn, sp_aggAnn_map m hn hann]

include ha in
theorem sp_timeConvFns_map (l : List Fn) (dc : List String) :
    timeConvFns (l.map m) dc = timeConvFns l dc := by
  unfold timeConvFns
  congr 2
  rw [List.map_map]
  apply List.map_congr_left
  intro f _
  simp only [Function.comp, hn, ha]

include ha hann in
theorem sp_groupAggFns_map (fns : List Fn) (T dc : List String) (gs : List (String × GroupSpec)) :
    groupAggFns (fns.map m) T dc gs = groupAggFns fns T dc gs := by
  have hauto : autoOk (fns.map m) dc = autoOk fns dc := by
    funext col
    unfold autoOk
    rw [sp_hasFn_map m hn, sp_names_map m hn]
  have hspecs : allSpecs (fns.map m) T dc gs = allSpecs fns T dc gs := by
    unfold allSpecs
    rw [sp_args_map m ha, hauto]
  have hfn : ∀ name s, groupAggFn (fns.map m) name s = groupAggFn fns name s := by
    intro name s
    unfold groupAggFn
    simp only [sp_aggAnn_map m hn hann]
  rw [groupAggFns_eq, groupAggFns_eq, hspecs]
  simp only [hfn]

include hfix in
theorem sp_merge_map_right (a b : List Fn) (hb : ∀ f ∈ b, f.notRule) :
    merge (a.map m) b = (merge a b).map m := by
  rw [← sp_merge_map m hn, sp_map_fix m hfix hb]

include hfix in
theorem sp_merge_map_left (a b : List Fn) (ha' : ∀ f ∈ a, f.notRule) :
    merge a (b.map m) = (merge a b).map m := by
  rw [← sp_merge_map m hn, sp_map_fix m hfix ha']

include ha hann hfix in
theorem sp_buildFunctions_map (rf : List Fn) (gs : List (String × GroupSpec))
    (ps : List (String × PidSpec)) (T dc : List String) :
    buildFunctions (rf.map m) gs ps T dc =
      (match buildFunctions rf gs ps T dc with
       | .ok all => .ok (all.map m)
       | .error e => .error e) := by
  unfold buildFunctions
  simp only
  have hrules : merge [] (rf.map m) = (merge [] rf).map m := sp_merge_map m hn [] rf
  rw [hrules, sp_pidFns_map m hn hann]
  cases hpid : pidFns (merge [] rf) dc ps with
  | error e => rfl
  | ok pid =>
    have hp := ov_pidFns_notRule hpid
    simp only [bind, Except.bind]
    rw [sp_merge_map_right m hn hfix _ _ hp, sp_timeConvFns_map m hn ha]
    have ht := ov_timeConvFns_notRule (merge (merge [] rf) pid) dc
    rw [sp_merge_map_left m hn hfix _ _ ht, sp_merge_map_right m hn hfix _ _ hp,
      sp_groupAggFns_map m hn ha hann]
    cases hgrp : groupAggFns (merge (merge (timeConvFns (merge (merge [] rf) pid) dc) (merge [] rf)) pid) T dc gs with
    | error e => rfl
    | ok grp =>
      have hg := ov_groupAggFns_notRule hgrp
      simp only [pure, Except.pure]
      rw [sp_merge_map_left m hn hfix _ _ (ov_merge_notRule hp ht), sp_merge_map_right m hn hfix _ _ hg,
        sp_merge_map_right m hn hfix _ _ ov_groupingFns_notRule]

include ha hann hfix in
/-- the preparation commutes with such a map: same data, mapped functions -/
theorem sp_prepare_map (rf : List Fn) (gs : List (String × GroupSpec))
    (ps : List (String × PidSpec)) (data : List (String × Column)) (T : List String) :
    prepare (rf.map m) gs ps data T =
      (match prepare rf gs ps data T with
       | .ok pr => .ok { pr with fns := pr.fns.map m }
       | .error e => .error e) := by
  unfold prepare
  cases hraw : typedData data with
  | error e => rfl
  | ok raw =>
    simp only [bind, Except.bind]
    cases checkData raw with
    | error e => rfl
    | ok _ =>
      simp only
      rw [sp_buildFunctions_map m hn ha hann hfix]
      cases buildFunctions rf gs ps T (raw.map (·.1)) with
      | error e => rfl
      | ok all =>
        simp only
        have h1 : T.all (hasFn (all.map m)) = T.all (hasFn all) := by
          congr 1; funext x; exact sp_hasFn_map m hn all x
        have h2 : (all.map m).filter (fun f => !(raw.map (·.1)).contains f.name) =
            (all.filter (fun f => !(raw.map (·.1)).contains f.name)).map m := by
          rw [List.filter_map]
          congr 2
          funext f
          simp only [Function.comp, hn]
        have h3 : convertData raw ((all.map m).filter fun f => (raw.map (·.1)).contains f.name) =
            convertData raw (all.filter fun f => (raw.map (·.1)).contains f.name) := by
          apply convertData_congr
          intro x _
          rw [findFn?_filter_name (fun x => (raw.map (·.1)).contains x),
            findFn?_filter_name (fun x => (raw.map (·.1)).contains x), sp_findFn?_map m hn]
          split
          · cases findFn? all x <;> simp [hann]
          · rfl
        rw [h1, h2, h3]
        split
        · rfl
        · cases convertData raw (all.filter fun f => (raw.map (·.1)).contains f.name) with
          | error e => rfl
          | ok conv =>
            simp only
            have h4 : T.all (hasFn ((all.filter fun f => !(raw.map (·.1)).contains f.name).map m)) =
                T.all (hasFn (all.filter fun f => !(raw.map (·.1)).contains f.name)) := by
              congr 1; funext x; exact sp_hasFn_map m hn _ x
            rw [h4]
            split <;> rfl

end neutral

/-- erase the rounding key of a rule (what `rounding=False` does) -/
def sp_strip (f : Fn) : Fn :=
  match f.kind with
  | .rule fn ret _ => { f with kind := .rule fn ret none }
  | _ => f

theorem sp_strip_name (f : Fn) : (sp_strip f).name = f.name := by unfold sp_strip; split <;> rfl
theorem sp_strip_args (f : Fn) : (sp_strip f).args = f.args := by unfold sp_strip; split <;> rfl
theorem sp_strip_ann (f : Fn) : (sp_strip f).ann = f.ann := by unfold sp_strip; split <;> rfl
theorem sp_strip_fix (f : Fn) (h : f.notRule) : sp_strip f = f := by
  unfold Fn.notRule at h
  unfold sp_strip
  split
  · rename_i hk; rw [hk] at h; exact h.elim
  · rfl

theorem sp_strip_ruleFn (b : Bool) (r : Rule) : sp_strip (ruleFn b r) = ruleFn false r := rfl

/-- the preparation of the call with `rounding := false`: the same data, the same functions without
rounding keys -/
theorem sp_prep_rounding_off {inp : Input} {pr : Prep} (hpr : sp_prep inp = .ok pr) :
    sp_prep { inp with rounding := false } = .ok { pr with fns := pr.fns.map sp_strip } := by
  have : (inp.rules.map (ruleFn inp.rounding)).map sp_strip = inp.rules.map (ruleFn false) := by
    rw [List.map_map]; rfl
  show prepare (inp.rules.map (ruleFn false)) inp.groupSpecs inp.pidSpecs inp.data (sortDedup inp.targets) = _
  rw [← this, sp_prepare_map sp_strip sp_strip_name sp_strip_args sp_strip_ann sp_strip_fix]
  have : prepare (inp.rules.map (ruleFn inp.rounding)) inp.groupSpecs inp.pidSpecs inp.data
      (sortDedup inp.targets) = .ok pr := hpr
  rw [this]

theorem sp_freeArgs_strip (params : List (String × Val)) (f : Fn) :
    freeArgs params (sp_strip f) = freeArgs params f := by
  unfold freeArgs
  rw [sp_strip_args]

theorem sp_forall₂_unique {A B : Type} {R R' : A → B → Prop} {l : List A} {bs bs' : List B}
    (h : List.Forall₂ R l bs) (h' : List.Forall₂ R' l bs')
    (hu : ∀ a ∈ l, ∀ b b', R a b → R' a b' → b = b') : bs = bs' := by
  induction h generalizing bs' with
  | nil => cases h'; rfl
  | cons hab _ ih =>
    cases h' with
    | cons hab' hrest' =>
      rw [hu _ List.mem_cons_self _ _ hab hab', ih hrest' fun a ha => hu a (List.mem_cons_of_mem _ ha)]

/-- numeric value of a reported entry (`True` = 1) -/
def sp_numVal : Val → Rat
  | .int i => (i : Rat)
  | .flt q => q
  | .bool b => if b then 1 else 0
  | _ => 0

theorem sp_numVal_rToVal (r : R) : sp_numVal (rToVal r) = numOf r := by cases r <;> rfl

/-! ## 3. vectorized rules, row by row -/

theorem sp_npFlags_arr (free : List String) (args : List String) :
    ∀ (cols : List Col), (∀ c ∈ cols, c.shape = .arr) → (npFlags free args cols).any id = false := by
  induction args with
  | nil => intro cols _; simp [npFlags]
  | cons a as ih =>
    intro cols h
    unfold npFlags
    split
    · cases cols with
      | nil => simp only [List.any_cons, id, Bool.false_or]; exact ih [] (by simp)
      | cons c cs =>
        simp only [List.any_cons, id]
        rw [ih cs fun x hx => h x (List.mem_cons_of_mem _ hx), h c List.mem_cons_self]
        rfl
    · simp only [List.any_cons, id, Bool.false_or]; exact ih cols h

theorem sp_broadcastLen_arr {cols : List Col} {n? : Option Nat} (hne : cols ≠ [])
    (h : ∀ c ∈ cols, c.shape = .arr) (hb : broadcastLen cols = .ok n?) :
    ∃ n, n? = some n ∧ ∀ c ∈ cols, c.vals.length = n := by
  have hfil : cols.filter (!·.scalar) = cols := by
    rw [List.filter_eq_self]
    intro c hc
    simp [Col.scalar, h c hc]
  unfold broadcastLen at hb
  rw [hfil] at hb
  cases cols with
  | nil => exact absurd rfl hne
  | cons c rest =>
    simp only at hb
    split at hb
    · rename_i hall
      cases hb
      refine ⟨_, rfl, ?_⟩
      intro x hx
      rcases List.mem_cons.1 hx with rfl | hx
      · rfl
      · have := List.all_eq_true.1 hall x hx
        simpa using this
    · cases hb

/-- a declared, unrounded rule on non-scalar inputs: the rendered column row by row -/
theorem sp_rule_rows {params : List (String × Val)} {fn : FunDef} {ty : Ty} {free : List String}
    {cols : List Col} {out : Col} (N : Nat) (hargs : fn.args ≠ []) (hne : cols ≠ [])
    (hsh : ∀ c ∈ cols, c.shape = .arr)
    (h : ruleOp params fn (some ty) none free cols = .ok out) :
    ∃ n, (∀ c ∈ cols, c.vals.length = n) ∧ (render N out).length = n ∧
      ∀ i, i < n → ∃ v r, Lang.runFun fn (rowArgs params free i fn.args cols) = .ok v ∧
        valToR v = some r ∧ (render N out)[i]? = some (rToVal (VecDtype.cast ty.toDT r)) := by
  obtain ⟨n?, hb, _, hshape, hlen, hrows⟩ := mi_ruleOp_rowwise hargs h
  obtain ⟨n, rfl, hn⟩ := sp_broadcastLen_arr hne hsh hb
  simp only [Option.isNone_some, Bool.false_eq_true, if_false, Option.getD_some] at hshape hlen hrows
  refine ⟨n, hn, ?_, ?_⟩
  · rw [ov_render_arr _ _ hshape, List.length_map, hlen]
  · intro i hi
    obtain ⟨v, r, hv, hr, ho⟩ := hrows i hi
    rw [mi_rowFn_plain (sp_npFlags_arr free fn.args cols hsh)] at hv
    refine ⟨v, r, hv, hr, ?_⟩
    rw [ov_render_arr _ _ hshape, List.getElem?_map, ho]
    rfl

/-- the `i`-th entry of the rendering of a non-scalar value is `rToVal (c.at i)` -/
theorem sp_render_at {N : Nat} {c : Col} (hs : c.shape = .arr) {i : Nat} (hi : i < c.vals.length) :
    (render N c)[i]? = some (rToVal (c.at i)) := by
  rw [ov_render_arr _ _ hs, List.getElem?_map]
  unfold Col.at
  have : c.scalar = false := by simp [Col.scalar, hs]
  rw [this]
  simp [hi, List.getD_eq_getElem?_getD]

/-- the converted data columns are 1-d arrays -/
theorem sp_prepare_data_arr {inp : Input} {pr : Prep} (hpr : sp_prep inp = .ok pr) :
    ∀ e ∈ pr.data, e.2.shape = .arr := by
  obtain ⟨raw, all, hraw, _, hconv, _, _⟩ := prepare_ok hpr
  intro e he
  unfold convertData at hconv
  obtain ⟨⟨an, ac⟩, ha, hae⟩ := mapM_mem_out hconv e he
  have hac : ac.shape = .arr := by
    unfold typedData at hraw
    obtain ⟨⟨bn, bc⟩, _, hb⟩ := mapM_mem_out hraw (an, ac) ha
    simp only at hb
    obtain ⟨col, hcol, hb⟩ := bind_ok hb
    simp only [pure, Except.pure, Except.ok.injEq, Prod.mk.injEq] at hb
    rw [← hb.2]
    exact (colOfData_length hcol).2
  simp only at hae
  split at hae
  · simp only [Except.ok.injEq] at hae
    subst hae
    exact hac
  · obtain ⟨col, hcol, hae⟩ := bind_ok hae
    simp only [pure, Except.pure, Except.ok.injEq] at hae
    subst hae
    rw [(convertCol_length hcol).2]; exact hac

theorem sp_forall₂_mem_right {A B : Type} {R : A → B → Prop} {l : List A} {bs : List B}
    (h : List.Forall₂ R l bs) : ∀ b ∈ bs, ∃ a ∈ l, R a b := by
  induction h with
  | nil => intro b hb; cases hb
  | cons hab _ ih =>
    intro b hb
    rcases List.mem_cons.1 hb with rfl | hb
    · exact ⟨_, List.mem_cons_self, hab⟩
    · obtain ⟨a, ha, hr⟩ := ih b hb
      exact ⟨a, List.mem_cons_of_mem _ ha, hr⟩

theorem sp_map_rToVal_bool : ∀ (l : List R) (bs : List Bool), l.map rToVal = bs.map Val.bool → l = bs.map R.b := by
  intro l
  induction l with
  | nil => intro qs h; cases qs with
    | nil => rfl
    | cons q qs => simp at h
  | cons r l ih =>
    intro qs h
    cases qs with
    | nil => simp at h
    | cons q qs =>
      simp only [List.map_cons, List.cons.injEq] at h ⊢
      refine ⟨?_, ih qs h.2⟩
      cases r <;> simp [rToVal] at h ⊢
      exact h.1

/-- the sum of the numeric values of Booleans counts the `true`s -/
theorem sp_sum_bools (l : List Bool) :
    (l.map (numOf ∘ R.b)).sum = (((l.filter id).length : Int) : Rat) := by
  induction l with
  | nil => simp
  | cons a l ih =>
    cases a
    · simp only [List.map_cons, List.sum_cons, ih, Function.comp, numOf]
      simp
    · simp only [List.map_cons, List.sum_cons, ih, Function.comp, numOf]
      simp
      ring

end GV.Simulate
