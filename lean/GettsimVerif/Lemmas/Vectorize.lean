import GettsimVerif.Core.ArrSem
/-
Helper lemmas for C09 (soundness of the vectorising rewrite on the typed fragment).
-/
namespace GV.VecLemmas
open GV GV.Lang GV.Vectorize GV.ArrSem GV.VecTy

/-! ### `Except` plumbing -/

theorem bind_ok {ε α β : Type} {x : Except ε α} {f : α → Except ε β} {b : β}
    (h : (x >>= f) = .ok b) : ∃ a, x = .ok a ∧ f a = .ok b := by
  cases x with
  | error e => cases h
  | ok a => exact ⟨a, rfl, h⟩

@[simp] theorem ok_bind {ε α β : Type} (a : α) (f : α → Except ε β) :
    ((Except.ok a : Except ε α) >>= f) = f a := rfl

@[simp] theorem error_bind {ε α β : Type} (e : ε) (f : α → Except ε β) :
    ((Except.error e : Except ε α) >>= f) = .error e := rfl

@[simp] theorem pure_eq_ok {ε α : Type} (a : α) : (pure a : Except ε α) = .ok a := rfl

theorem ok_inj {ε α : Type} {a b : α} (h : (Except.ok a : Except ε α) = .ok b) : a = b := by
  cases h; rfl

/-! ### pointwise list relation -/

def RelL {α β : Type} (R : α → β → Prop) : List α → List β → Prop
  | [], [] => True
  | a :: as, b :: bs => R a b ∧ RelL R as bs
  | _, _ => False

/-! ### environments -/

theorem env_get_set (σ : Env) (x y : String) (v : Val) :
    (σ.set x v).get? y = if x = y then some v else σ.get? y := by
  induction σ with
  | nil => simp [Env.set, Env.get?]
  | cons p rest ih =>
    obtain ⟨k, w⟩ := p
    by_cases hk : k = x
    · subst hk
      by_cases hy : k = y <;> simp [Env.set, Env.get?, hy]
    · by_cases hy : k = y
      · subst hy
        have : ¬ x = k := fun h => hk h.symm
        simp [Env.set, Env.get?, hk, this]
      · simp [Env.set, Env.get?, hk, hy, ih]

theorem aenv_get_set (ρ : AEnv) (x y : String) (v : AVal) :
    (ρ.set x v).get? y = if x = y then some v else ρ.get? y := by
  induction ρ with
  | nil => simp [AEnv.set, AEnv.get?]
  | cons p rest ih =>
    obtain ⟨k, w⟩ := p
    by_cases hk : k = x
    · subst hk
      by_cases hy : k = y <;> simp [AEnv.set, AEnv.get?, hy]
    · by_cases hy : k = y
      · subst hy
        have : ¬ x = k := fun h => hk h.symm
        simp [AEnv.set, AEnv.get?, hk, this]
      · simp [AEnv.set, AEnv.get?, hk, hy, ih]

/-- row `i` of the array environment `ρ` agrees with the scalar environment `σ` on every
name bound in `σ` (in particular these elements are not poison) -/
def RowRel (σ : Env) (ρ : AEnv) (i : Nat) : Prop :=
  ∀ x v, σ.get? x = some v → ∃ a, ρ.get? x = some a ∧ a.get i = some v

/-- every name of the context is bound in `σ` to a value of its type -/
def EnvTyped (Γ : Ctx) (σ : Env) : Prop :=
  ∀ x t, Γ.get? x = some t → ∃ v, σ.get? x = some v ∧ hasTy v t = true

theorem RowRel.set {σ : Env} {ρ : AEnv} {i : Nat} (h : RowRel σ ρ i) (x : String) {v : Val}
    {a : AVal} (ha : a.get i = some v) : RowRel (σ.set x v) (ρ.set x a) i := by
  intro y w hy
  rw [env_get_set] at hy
  rw [aenv_get_set]
  by_cases hxy : x = y
  · simp only [hxy, if_true] at hy ⊢
    cases hy
    exact ⟨a, rfl, ha⟩
  · simp only [hxy, if_false] at hy ⊢
    exact h y w hy

theorem EnvTyped.set {Γ : Ctx} {σ : Env} (h : EnvTyped Γ σ) (x : String) {v : Val} {t : Ty}
    (hv : hasTy v t = true) : EnvTyped ((x, t) :: Γ) (σ.set x v) := by
  intro y s hy
  rw [env_get_set]
  by_cases hxy : x = y
  · simp only [Ctx.get?, hxy, if_true] at hy ⊢
    cases hy
    exact ⟨v, rfl, hv⟩
  · simp only [Ctx.get?, hxy, if_false] at hy ⊢
    exact h y s hy

theorem rowEnv_rel : ∀ {ρ : AEnv} {i : Nat} {σ : Env}, rowEnv ρ i = some σ → RowRel σ ρ i := by
  intro ρ
  induction ρ with
  | nil =>
    intro i σ h x v hx
    simp only [rowEnv, Option.some.injEq] at h
    subst h
    simp [Env.get?] at hx
  | cons p rest ih =>
    intro i σ h x v hx
    obtain ⟨k, a⟩ := p
    simp only [rowEnv] at h
    split at h
    · rename_i w σ' hw hσ'
      simp only [Option.some.injEq] at h
      subst h
      simp only [Env.get?] at hx
      simp only [AEnv.get?]
      by_cases hk : k = x
      · simp only [hk, if_true, Option.some.injEq] at hx ⊢
        subst hx
        exact ⟨a, rfl, hw⟩
      · simp only [hk, if_false] at hx ⊢
        exact ih hσ' x v hx
    · cases h

/-! ### tabulation -/

theorem mapME_get {α β : Type} {f : α → Except Err β} :
    ∀ {l : List α} {r : List β}, mapME f l = .ok r →
      ∀ (i : Nat) (x : α), l[i]? = some x → ∃ y, r[i]? = some y ∧ f x = .ok y := by
  intro l
  induction l with
  | nil => intro r _ i x hx; simp at hx
  | cons a as ih =>
    intro r h i x hx
    simp only [mapME] at h
    obtain ⟨y, hy, h⟩ := bind_ok h
    obtain ⟨ys, hys, h⟩ := bind_ok h
    have h := ok_inj h
    subst h
    cases i with
    | zero =>
      simp only [List.getElem?_cons_zero, Option.some.injEq] at hx
      subst hx
      exact ⟨y, by simp, hy⟩
    | succ j =>
      simp only [List.getElem?_cons_succ] at hx ⊢
      exact ih hys j x hx

theorem tab_get {n i : Nat} {f : Nat → Except Err PVal} {l : List PVal}
    (h : tab n f = .ok l) (hi : i < n) : f i = .ok (l.getD i none) := by
  obtain ⟨y, hy, hf⟩ := mapME_get h i i (List.getElem?_range hi)
  rw [List.getD_eq_getElem?_getD, hy]
  exact hf

/-! ### element-wise operations at row `i` -/

theorem map1_get {n i : Nat} {fs : Val → Except Err Val} {fe : PVal → Except Err PVal}
    (hc : ∀ x v w, fs x = .ok v → fe (some x) = .ok w → w = some v)
    {a r : AVal} {x v : Val} (h : map1 n fs fe a = .ok r) (hi : i < n)
    (ha : a.get i = some x) (hv : fs x = .ok v) : r.get i = some v := by
  cases a with
  | scalar x' =>
    simp only [AVal.get, Option.some.injEq] at ha
    subst ha
    simp only [map1, hv, ok_bind, pure_eq_ok] at h
    cases h
    rfl
  | col vs =>
    simp only [map1] at h
    obtain ⟨l, hl, h⟩ := bind_ok h
    cases h
    have := tab_get hl hi
    rw [ha] at this
    exact hc x v _ hv this

theorem zip2_get {n i : Nat} {fs : Val → Val → Except Err Val}
    {fe : PVal → PVal → Except Err PVal}
    (hc : ∀ x y v w, fs x y = .ok v → fe (some x) (some y) = .ok w → w = some v)
    {a b r : AVal} {x y v : Val} (h : zip2 n fs fe a b = .ok r) (hi : i < n)
    (ha : a.get i = some x) (hb : b.get i = some y) (hv : fs x y = .ok v) :
    r.get i = some v := by
  have key : ∀ l, tab n (fun i => fe (a.get i) (b.get i)) = .ok l →
      (AVal.col l).get i = some v := by
    intro l hl
    have := tab_get hl hi
    simp only [ha, hb] at this
    exact hc x y v _ hv this
  cases a with
  | scalar x' =>
    cases b with
    | scalar y' =>
      simp only [AVal.get, Option.some.injEq] at ha hb
      subst ha; subst hb
      simp only [zip2, hv, ok_bind, pure_eq_ok] at h
      cases h
      rfl
    | col ws =>
      simp only [zip2] at h
      obtain ⟨l, hl, h⟩ := bind_ok h
      cases h
      exact key l hl
  | col vs =>
    cases b with
    | scalar y' =>
      simp only [zip2] at h
      obtain ⟨l, hl, h⟩ := bind_ok h
      cases h
      exact key l hl
    | col ws =>
      simp only [zip2] at h
      obtain ⟨l, hl, h⟩ := bind_ok h
      cases h
      exact key l hl

theorem elem1_compat (f : Val → Except Err Val) :
    ∀ x v w, f x = .ok v → elem1 f (some x) = .ok w → w = some v := by
  intro x v w hv hw
  simp only [elem1, hv, ok_bind, pure_eq_ok] at hw
  cases hw; rfl

theorem elem2_compat (f : Val → Val → Except Err Val) :
    ∀ x y v w, f x y = .ok v → elem2 f (some x) (some y) = .ok w → w = some v := by
  intro x y v w hv hw
  simp only [elem2, hv, ok_bind, pure_eq_ok] at hw
  cases hw; rfl

theorem elemBin_compat (op : BinOp) :
    ∀ x y v w, evalBin op x y = .ok v → elemBin op (some x) (some y) = .ok w → w = some v := by
  intro x y v w hv hw
  simp only [elemBin, hv] at hw
  cases hw; rfl

theorem binA_get {n i : Nat} {op : BinOp} {a b r : AVal} {x y v : Val}
    (h : binA n op a b = .ok r) (hi : i < n) (ha : a.get i = some x) (hb : b.get i = some y)
    (hv : evalBin op x y = .ok v) : r.get i = some v :=
  zip2_get (elemBin_compat op) h hi ha hb hv

theorem cmpA_get {n i : Nat} {op : CmpOp} {a b r : AVal} {x y v : Val}
    (h : cmpA n op a b = .ok r) (hi : i < n) (ha : a.get i = some x) (hb : b.get i = some y)
    (hv : cmpVal op x y = .ok v) : r.get i = some v :=
  zip2_get (elem2_compat _) h hi ha hb hv

theorem extA_get {n i : Nat} {isMax : Bool} {a b r : AVal} {x y v : Val}
    (h : extA n isMax a b = .ok r) (hi : i < n) (ha : a.get i = some x) (hb : b.get i = some y)
    (hv : extVal isMax x y = .ok v) : r.get i = some v :=
  zip2_get (elem2_compat _) h hi ha hb hv

theorem negA_get {n i : Nat} {a r : AVal} {x v : Val}
    (h : negA n a = .ok r) (hi : i < n) (ha : a.get i = some x) (hv : negVal x = .ok v) :
    r.get i = some v :=
  map1_get (elem1_compat _) h hi ha hv

theorem notA_get {n i : Nat} {a r : AVal} {x : Val}
    (h : notA n a = .ok r) (hi : i < n) (ha : a.get i = some x) :
    r.get i = some (.bool (!truthy x)) :=
  map1_get (elem1_compat _) h hi ha rfl

/-- `logical_and` / `logical_or` at row `i`: a `bool` or poison, by Kleene's tables -/
theorem logicA_get {n i : Nat} {isAnd : Bool} {a b r : AVal}
    (h : logicA n isAnd a b = .ok r) (hi : i < n) :
    r.get i = (klop isAnd (pTruth (a.get i)) (pTruth (b.get i))).map Val.bool := by
  have key : ∀ l, tab n (fun i => logicElem isAnd (a.get i) (b.get i)) = .ok l →
      (AVal.col l).get i = (klop isAnd (pTruth (a.get i)) (pTruth (b.get i))).map Val.bool := by
    intro l hl
    have := tab_get hl hi
    simp only [logicElem] at this
    have := ok_inj this
    show l.getD i none = _
    rw [← this]
  unfold logicA at h
  cases a with
  | scalar x' =>
    cases b with
    | scalar y' =>
      simp only [zip2, logicVal, ok_bind, pure_eq_ok] at h
      cases h
      rfl
    | col ws =>
      simp only [zip2] at h
      obtain ⟨l, hl, h⟩ := bind_ok h
      cases h
      exact key l hl
  | col vs =>
    cases b with
    | scalar y' =>
      simp only [zip2] at h
      obtain ⟨l, hl, h⟩ := bind_ok h
      cases h
      exact key l hl
    | col ws =>
      simp only [zip2] at h
      obtain ⟨l, hl, h⟩ := bind_ok h
      cases h
      exact key l hl

theorem whereA_get {n i : Nat} (c a b : AVal) {t : Val} (hi : i < n) (hc : c.get i = some t) :
    (whereA n c a b).get i = if truthy t then a.get i else b.get i := by
  have key : (AVal.col ((List.range n).map fun i =>
      match c.get i with
      | some t => if truthy t then a.get i else b.get i
      | none => none)).get i = if truthy t then a.get i else b.get i := by
    show (List.map _ (List.range n)).getD i none = _
    rw [List.getD_eq_getElem?_getD, List.getElem?_map, List.getElem?_range hi]
    simp only [Option.map_some, Option.getD_some, hc]
  cases c <;> cases a <;> cases b <;> first
    | exact key
    | (simp only [AVal.get, Option.some.injEq] at hc
       subst hc
       simp only [whereA, AVal.get]
       split <;> rfl)

theorem truthA_sound {a : AVal} {t : Bool} {i : Nat} {v : Val}
    (h : truthA a = .ok t) (ha : a.get i = some v) : t = truthy v := by
  cases a with
  | scalar x =>
    simp only [AVal.get, Option.some.injEq] at ha
    subst ha
    simp only [truthA] at h
    cases h; rfl
  | col vs =>
    match vs, h, ha with
    | [some w], h, ha =>
      simp only [truthA] at h
      cases i with
      | zero =>
        simp only [AVal.get, List.getD_cons_zero, Option.some.injEq] at ha
        subst ha
        cases h; rfl
      | succ j => simp [AVal.get] at ha
    | [], h, _ => simp [truthA] at h
    | [none], h, _ => simp [truthA] at h
    | _ :: _ :: _, h, _ => simp [truthA] at h

/-! ### scalar-side facts -/

theorem evalExpr_neg (σ : Env) (a : Expr) :
    evalExpr σ (.neg a) = (do let x ← evalExpr σ a; negVal x) := by
  rw [evalExpr]; rfl

theorem evalChain_single (σ : Env) (x : Val) (op : CmpOp) (b : Expr) :
    evalChain σ x [(op, b)] = (do let r ← evalExpr σ b; cmpVal op x r) := by
  simp only [evalChain, cmpVal]
  cases evalExpr σ b with
  | error e => rfl
  | ok r =>
    simp only [ok_bind]
    cases evalCmp op x r with
    | error e => rfl
    | ok c => cases c <;> rfl

theorem evalChainA_single (n : Nat) (ρ : AEnv) (x : AVal) (op : CmpOp) (b : Expr) :
    evalChainA n ρ x [(op, b)] = (do let r ← evalA n ρ b; cmpA n op x r) := by
  simp only [evalChainA]
  cases evalA n ρ b with
  | error e => rfl
  | ok r =>
    simp only [ok_bind]
    cases cmpA n op x r <;> rfl

theorem hasTy_bool {v : Val} (h : hasTy v .bool = true) : ∃ b, v = .bool b := by
  cases v <;> simp [hasTy] at h
  exact ⟨_, rfl⟩

theorem evalBin_num {op : BinOp} {x y v : Val} (h : evalBin op x y = .ok v) :
    hasTy v .num = true := by
  unfold evalBin at h
  split at h
  · rename_i a fa b fb _ _
    cases op <;> simp only [binNum] at h
    · cases h; unfold mkNum; split <;> rfl
    · cases h; unfold mkNum; split <;> rfl
    · cases h; unfold mkNum; split <;> rfl
    · split at h
      · cases h
      · cases h; rfl
  · split at h <;> (try split at h) <;> (try split at h) <;> first | (cases h; rfl) | cases h

theorem mkNum_num (q : Rat) (fl : Bool) : hasTy (mkNum q fl) .num = true := by
  unfold mkNum; split <;> rfl

theorem negVal_num {x v : Val} (h : negVal x = .ok v) : hasTy v .num = true := by
  unfold negVal at h
  split at h
  · cases h; rfl
  · split at h
    · cases h; exact mkNum_num _ _
    · cases h

theorem cmpVal_bool {op : CmpOp} {x y v : Val} (h : cmpVal op x y = .ok v) :
    ∃ b, v = .bool b := by
  unfold cmpVal at h
  obtain ⟨b, _, h⟩ := bind_ok h
  cases h
  exact ⟨b, rfl⟩

theorem extVal_cases {isMax : Bool} {x y v : Val} (h : extVal isMax x y = .ok v) :
    v = x ∨ v = y := by
  simp only [extVal, pickExt, ok_bind] at h
  cases isMax <;> simp only [if_true, if_false, Bool.false_eq_true] at h <;>
  · obtain ⟨b, _, h⟩ := bind_ok h
    cases h
    cases b <;> simp

theorem evalCall_max (x y : Val) : evalCall "max" [x, y] = extVal true x y := by
  simp [evalCall, extVal]
theorem evalCall_min (x y : Val) : evalCall "min" [x, y] = extVal false x y := by
  simp [evalCall, extVal]

theorem evalCall_float_num {x v : Val} (h : evalCall "float" [x] = .ok v) :
    hasTy v .num = true := by
  simp only [evalCall] at h
  split at h
  · cases h; rfl
  · split at h
    · cases h; rfl
    · cases h

theorem evalCall_abs_num {x v : Val} (h : evalCall "abs" [x] = .ok v) :
    hasTy v .num = true := by
  simp only [evalCall] at h
  split at h
  · cases h; exact mkNum_num _ _
  · cases h

/-! ### typing: result types of calls, type preservation -/

theorem obind_some {α β : Type} {x : Option α} {f : α → Option β} {b : β}
    (h : (x >>= f) = some b) : ∃ a, x = some a ∧ f a = some b := by
  cases x with
  | none => cases h
  | some a => exact ⟨a, rfl, h⟩

theorem ite_some {α : Type} {c : Prop} [Decidable c] {x y : α}
    (h : (if c then some x else none) = some y) : c ∧ x = y := by
  split at h
  · cases h; exact ⟨‹c›, rfl⟩
  · cases h

theorem callTy_ext {f : String} (hf : f = "max" ∨ f = "min") {ts : List Ty} {t : Ty}
    (ht : callTy f ts = some t) : ∃ ta tb, ts = [ta, tb] ∧
      t = (if ta = .num ∧ tb = .num then .num else .dyn) := by
  simp only [callTy, hf, if_true] at ht
  match ts, ht with
  | [ta, tb], ht =>
    refine ⟨ta, tb, rfl, ?_⟩
    by_cases h2 : ta = .num ∧ tb = .num
    · simp only [h2, and_self, if_true, Option.some.injEq] at ht ⊢; exact ht.symm
    · simp only [h2, if_false, Option.some.injEq] at ht ⊢; exact ht.symm
  | [], ht => cases ht
  | [_], ht => cases ht
  | _ :: _ :: _ :: _, ht => cases ht

theorem callTy_conv {f : String} (hf : f = "float" ∨ f = "abs") {ts : List Ty} {t : Ty}
    (ht : callTy f ts = some t) : ∃ ta, ts = [ta] ∧ t = .num := by
  have h1 : ¬ (f = "max" ∨ f = "min") := by rcases hf with h | h <;> subst h <;> decide
  have h2 : ¬ (f = "sum" ∨ f = "any" ∨ f = "all") := by rcases hf with h | h <;> subst h <;> decide
  simp only [callTy, h1, h2, hf, if_true, if_false] at ht
  match ts, ht with
  | [ta], ht =>
    simp only [Option.some.injEq] at ht
    exact ⟨ta, rfl, ht.symm⟩
  | [], ht => cases ht
  | _ :: _ :: _, ht => cases ht

theorem hasTy_dyn (v : Val) : hasTy v .dyn = true := rfl

theorem hasTy_le {v : Val} {t' t : Ty} (h : hasTy v t' = true) (hle : t'.le t = true) :
    hasTy v t = true := by
  simp only [Ty.le, Bool.or_eq_true, beq_iff_eq] at hle
  rcases hle with rfl | rfl
  · exact h
  · rfl

theorem hasTy_join_left {v : Val} {a b : Ty} (h : hasTy v a = true) :
    hasTy v (a.join b) = true := by
  unfold Ty.join; split
  · exact h
  · rfl

theorem hasTy_join_right {v : Val} {a b : Ty} (h : hasTy v b = true) :
    hasTy v (a.join b) = true := by
  unfold Ty.join; split
  · rename_i hab; rw [hab]; exact h
  · rfl

theorem callTy_other {f : String} (h1 : ¬ (f = "max" ∨ f = "min"))
    (h3 : ¬ (f = "float" ∨ f = "abs")) {ts : List Ty} {t : Ty}
    (ht : callTy f ts = some t) : ¬ (f = "sum" ∨ f = "any" ∨ f = "all") ∧ t = .dyn := by
  by_cases h2 : f = "sum" ∨ f = "any" ∨ f = "all"
  · simp only [callTy, h1, h2, if_true, if_false] at ht; cases ht
  · simp only [callTy, h1, h2, h3, if_false, Option.some.injEq] at ht; exact ⟨h2, ht.symm⟩

theorem callTy_sound {f : String} {ts : List Ty} {t : Ty} {vs : List Val} {v : Val}
    (ht : callTy f ts = some t) (hvs : RelL (fun v t => hasTy v t = true) vs ts)
    (hv : evalCall f vs = .ok v) : hasTy v t = true := by
  by_cases h1 : f = "max" ∨ f = "min"
  · obtain ⟨ta, tb, rfl, rfl⟩ := callTy_ext h1 ht
    match vs, hvs with
    | [x, y], hvs =>
      simp only [RelL] at hvs
      have hxy : v = x ∨ v = y := by
        rcases h1 with hf | hf <;> subst hf
        · rw [evalCall_max] at hv; exact extVal_cases hv
        · rw [evalCall_min] at hv; exact extVal_cases hv
      by_cases h2 : ta = .num ∧ tb = .num
      · simp only [h2, and_self, if_true]
        rcases hxy with h | h <;> subst h
        · rw [← h2.1]; exact hvs.1
        · rw [← h2.2]; exact hvs.2.1
      · simp only [h2, if_false]; rfl
    | [], hvs => cases hvs
    | [_], hvs => simp [RelL] at hvs
    | _ :: _ :: _ :: _, hvs => simp [RelL] at hvs
  · by_cases h3 : f = "float" ∨ f = "abs"
    · obtain ⟨ta, rfl, rfl⟩ := callTy_conv h3 ht
      match vs, hvs with
      | [x], _ =>
        rcases h3 with hf | hf <;> subst hf
        · exact evalCall_float_num hv
        · exact evalCall_abs_num hv
      | [], hvs => cases hvs
      | _ :: _ :: _, hvs => simp [RelL] at hvs
    · obtain ⟨_, rfl⟩ := callTy_other h1 h3 ht
      rfl

mutual
/-- type preservation of the scalar semantics on F -/
theorem pres_expr {Γ : Ctx} {σ : Env} (hΓ : EnvTyped Γ σ) :
    ∀ (e : Expr) (t : Ty) (v : Val), typeOf Γ e = some t → evalExpr σ e = .ok v →
      hasTy v t = true
  | .const c, t, v, ht, hv => by
    simp only [typeOf, Option.some.injEq] at ht
    simp only [evalExpr] at hv
    cases hv; subst ht
    cases c <;> rfl
  | .name x, t, v, ht, hv => by
    simp only [typeOf] at ht
    obtain ⟨w, hw, hty⟩ := hΓ x t ht
    simp only [evalExpr, hw] at hv
    cases hv; exact hty
  | .bin op a b, t, v, ht, hv => by
    simp only [typeOf] at ht
    obtain ⟨ta, _, ht⟩ := obind_some ht
    obtain ⟨tb, _, ht⟩ := obind_some ht
    cases ht
    simp only [evalExpr] at hv
    obtain ⟨x, _, hv⟩ := bind_ok hv
    obtain ⟨y, _, hv⟩ := bind_ok hv
    exact evalBin_num hv
  | .neg a, t, v, ht, hv => by
    simp only [typeOf] at ht
    obtain ⟨ta, _, ht⟩ := obind_some ht
    cases ht
    rw [evalExpr_neg] at hv
    obtain ⟨x, _, hv⟩ := bind_ok hv
    exact negVal_num hv
  | .cmp a rest, t, v, ht, hv => by
    simp only [typeOf] at ht
    obtain ⟨ta, _, ht⟩ := obind_some ht
    match rest, ht with
    | [(op, b)], ht =>
      simp only [typeCmp] at ht
      obtain ⟨tb, _, ht⟩ := obind_some ht
      cases ht
      simp only [evalExpr] at hv
      obtain ⟨x, _, hv⟩ := bind_ok hv
      rw [evalChain_single] at hv
      obtain ⟨y, _, hv⟩ := bind_ok hv
      obtain ⟨b, rfl⟩ := cmpVal_bool hv
      rfl
    | [], ht => simp [typeCmp] at ht
    | _ :: _ :: _, ht => simp [typeCmp] at ht
  | .boolop isAnd args, t, v, ht, hv => by
    simp only [typeOf] at ht
    obtain ⟨hb, rfl⟩ := ite_some ht
    simp only [evalExpr] at hv
    exact pres_bools hΓ isAnd args v hb hv
  | .not a, t, v, ht, hv => by
    simp only [typeOf] at ht
    obtain ⟨ta, _, ht⟩ := obind_some ht
    cases ht
    simp only [evalExpr] at hv
    obtain ⟨x, _, hv⟩ := bind_ok hv
    cases hv; rfl
  | .ifexp c a b, t, v, ht, hv => by
    simp only [typeOf] at ht
    obtain ⟨tc, _, ht⟩ := obind_some ht
    obtain ⟨ta, hta, ht⟩ := obind_some ht
    obtain ⟨tb, htb, ht⟩ := obind_some ht
    cases ht
    simp only [evalExpr] at hv
    obtain ⟨x, _, hv⟩ := bind_ok hv
    split at hv
    · exact hasTy_join_left (pres_expr hΓ a _ v hta hv)
    · exact hasTy_join_right (pres_expr hΓ b _ v htb hv)
  | .call f args, t, v, ht, hv => by
    simp only [typeOf] at ht
    obtain ⟨ts, hts, ht⟩ := obind_some ht
    simp only [evalExpr] at hv
    obtain ⟨vs, hvs, hv⟩ := bind_ok hv
    exact callTy_sound ht (pres_args hΓ args ts vs hts hvs) hv
  | .sub e idx, t, v, ht, hv => by
    simp only [typeOf] at ht
    obtain ⟨_, _, ht⟩ := obind_some ht
    obtain ⟨_, _, ht⟩ := obind_some ht
    cases ht; rfl
  | .mcall _ _, t, v, ht, hv => by simp [typeOf] at ht
  | .isIn _ _ _, t, v, ht, hv => by simp [typeOf] at ht
  | .opaque _, t, v, ht, hv => by simp [typeOf] at ht
theorem pres_bools {Γ : Ctx} {σ : Env} (hΓ : EnvTyped Γ σ) (isAnd : Bool) :
    ∀ (es : List Expr) (v : Val), allBool Γ es = true → evalBool σ isAnd es = .ok v →
      hasTy v .bool = true
  | [], v, _, hv => by
    simp only [evalBool] at hv
    cases hv; rfl
  | [e], v, ht, hv => by
    simp only [allBool, Bool.and_true, beq_iff_eq] at ht
    simp only [evalBool] at hv
    exact pres_expr hΓ e _ v ht hv
  | e :: e2 :: rest, v, ht, hv => by
    rw [allBool, Bool.and_eq_true, beq_iff_eq] at ht
    rw [evalBool] at hv
    · obtain ⟨x, hx, hv⟩ := bind_ok hv
      split at hv
      · exact pres_bools hΓ isAnd (e2 :: rest) v ht.2 hv
      · cases hv; exact pres_expr hΓ e _ _ ht.1 hx
    · simp
theorem pres_args {Γ : Ctx} {σ : Env} (hΓ : EnvTyped Γ σ) :
    ∀ (es : List Expr) (ts : List Ty) (vs : List Val), typeArgs Γ es = some ts →
      evalArgs σ es = .ok vs → RelL (fun v t => hasTy v t = true) vs ts
  | [], ts, vs, ht, hv => by
    simp only [typeArgs, Option.some.injEq] at ht
    simp only [evalArgs] at hv
    cases hv; subst ht; trivial
  | e :: rest, ts, vs, ht, hv => by
    simp only [typeArgs] at ht
    obtain ⟨t, hte, ht⟩ := obind_some ht
    obtain ⟨ts', hts, ht⟩ := obind_some ht
    cases ht
    simp only [evalArgs] at hv
    obtain ⟨v, hve, hv⟩ := bind_ok hv
    obtain ⟨vs', hvs, hv⟩ := bind_ok hv
    cases hv
    exact ⟨pres_expr hΓ e t v hte hve, pres_args hΓ rest ts' vs' hts hvs⟩
end

/-! ### the array semantics of UNtransformed code agrees with the scalar semantics whenever
it is not loud (needed for the operands of `not` / unary minus, which the rewriter skips) -/

/-- element `i` of `a` is the (non-poison) value `v` -/
def RowVal (i : Nat) (a : AVal) (v : Val) : Prop := a.get i = some v

theorem allScalar_rel {i : Nat} : ∀ {as : List AVal} {vs' vs : List Val},
    allScalar? as = some vs' → RelL (RowVal i) as vs → vs' = vs
  | [], vs', vs, h, hr => by
    cases vs with
    | nil => simp only [allScalar?, Option.some.injEq] at h; exact h.symm
    | cons _ _ => cases hr
  | .col _ :: _, _, _, h, _ => by simp [allScalar?] at h
  | .scalar x :: rest, vs', vs, h, hr => by
    cases vs with
    | nil => cases hr
    | cons w ws =>
      simp only [allScalar?, Option.map_eq_some_iff] at h
      obtain ⟨us, hus, rfl⟩ := h
      obtain ⟨h1, h2⟩ := hr
      simp only [RowVal, AVal.get, Option.some.injEq] at h1
      rw [h1, allScalar_rel hus h2]

theorem callA_sound {n i : Nat} {f : String} {as : List AVal} {vs : List Val} {v : Val}
    {a : AVal} (hi : i < n) (hr : RelL (RowVal i) as vs) (hv : evalCall f vs = .ok v)
    (ha : callA n f as = .ok a) : a.get i = some v := by
  unfold callA at ha
  split at ha
  · rename_i vs' hs
    have := allScalar_rel hs hr
    subst this
    rw [hv] at ha
    cases ha; rfl
  · split at ha
    · rename_i a1
      match vs, hr with
      | [x], hr => exact map1_get (elem1_compat _) ha hi hr.1 hv
      | [], hr => cases hr
      | _ :: _ :: _, hr => simp [RelL] at hr
    · cases ha
    · cases ha
    · cases ha

theorem subA_sound {i : Nat} {c idx a : AVal} {cv iv v : Val} (hc : c.get i = some cv)
    (hidx : idx.get i = some iv) (hv : evalSub cv iv = .ok v) (ha : subA c idx = .ok a) :
    a.get i = some v := by
  unfold subA at ha
  split at ha
  · simp only [AVal.get, Option.some.injEq] at hc hidx
    subst hc; subst hidx
    rw [hv] at ha
    cases ha; rfl
  · cases ha
  · cases ha

mutual
theorem id_expr {n i : Nat} {σ : Env} {ρ : AEnv} (hr : RowRel σ ρ i) (hi : i < n) :
    ∀ (e : Expr) (Γ : Ctx) (t : Ty) (v : Val) (a : AVal), typeOf Γ e = some t →
      evalExpr σ e = .ok v → evalA n ρ e = .ok a → a.get i = some v
  | .const c, Γ, t, v, a, ht, hv, ha => by
    simp only [evalExpr] at hv
    simp only [evalA] at ha
    cases hv; cases ha; rfl
  | .name x, Γ, t, v, a, ht, hv, ha => by
    simp only [evalExpr] at hv
    split at hv
    · rename_i w hw
      cases hv
      obtain ⟨a', ha', hg⟩ := hr x _ hw
      simp only [evalA, ha'] at ha
      cases ha; exact hg
    · cases hv
  | .bin op e1 e2, Γ, t, v, a, ht, hv, ha => by
    simp only [typeOf] at ht
    obtain ⟨ta, hta, ht⟩ := obind_some ht
    obtain ⟨tb, htb, ht⟩ := obind_some ht
    simp only [evalExpr] at hv
    obtain ⟨x, hx, hv⟩ := bind_ok hv
    obtain ⟨y, hy, hv⟩ := bind_ok hv
    simp only [evalA] at ha
    obtain ⟨ax, hax, ha⟩ := bind_ok ha
    obtain ⟨ay, hay, ha⟩ := bind_ok ha
    exact binA_get ha hi (id_expr hr hi e1 Γ ta x ax hta hx hax)
      (id_expr hr hi e2 Γ tb y ay htb hy hay) hv
  | .neg e1, Γ, t, v, a, ht, hv, ha => by
    simp only [typeOf] at ht
    obtain ⟨ta, hta, ht⟩ := obind_some ht
    rw [evalExpr_neg] at hv
    obtain ⟨x, hx, hv⟩ := bind_ok hv
    simp only [evalA] at ha
    obtain ⟨ax, hax, ha⟩ := bind_ok ha
    exact negA_get ha hi (id_expr hr hi e1 Γ ta x ax hta hx hax) hv
  | .cmp e1 rest, Γ, t, v, a, ht, hv, ha => by
    simp only [typeOf] at ht
    obtain ⟨ta, hta, ht⟩ := obind_some ht
    · match rest, ht, hv, ha with
      | [(op, e2)], ht, hv, ha =>
        simp only [typeCmp] at ht
        obtain ⟨tb, htb, ht⟩ := obind_some ht
        simp only [evalExpr] at hv
        obtain ⟨x, hx, hv⟩ := bind_ok hv
        rw [evalChain_single] at hv
        obtain ⟨y, hy, hv⟩ := bind_ok hv
        simp only [evalA] at ha
        obtain ⟨ax, hax, ha⟩ := bind_ok ha
        rw [evalChainA_single] at ha
        obtain ⟨ay, hay, ha⟩ := bind_ok ha
        exact cmpA_get ha hi (id_expr hr hi e1 Γ ta x ax hta hx hax)
          (id_expr hr hi e2 Γ tb y ay htb hy hay) hv
      | [], ht, _, _ => simp [typeCmp] at ht
      | _ :: _ :: _, ht, _, _ => simp [typeCmp] at ht
  | .boolop isAnd args, Γ, t, v, a, ht, hv, ha => by
    simp only [typeOf] at ht
    obtain ⟨hb, _⟩ := ite_some ht
    simp only [evalExpr] at hv
    simp only [evalA] at ha
    exact id_bools hr hi isAnd args Γ v a hb hv ha
  | .not e1, Γ, t, v, a, ht, hv, ha => by
    simp only [typeOf] at ht
    obtain ⟨ta, hta, ht⟩ := obind_some ht
    simp only [evalExpr] at hv
    obtain ⟨x, hx, hv⟩ := bind_ok hv
    simp only [evalA] at ha
    obtain ⟨ax, hax, ha⟩ := bind_ok ha
    obtain ⟨tb, htb, ha⟩ := bind_ok ha
    have := truthA_sound htb (id_expr hr hi e1 Γ ta x ax hta hx hax)
    subst this
    cases hv; cases ha; rfl
  | .ifexp c e1 e2, Γ, t, v, a, ht, hv, ha => by
    simp only [typeOf] at ht
    obtain ⟨tc, htc, ht⟩ := obind_some ht
    obtain ⟨ta, hta, ht⟩ := obind_some ht
    obtain ⟨tb, htb, ht⟩ := obind_some ht
    simp only [evalExpr] at hv
    obtain ⟨x, hx, hv⟩ := bind_ok hv
    simp only [evalA] at ha
    obtain ⟨ax, hax, ha⟩ := bind_ok ha
    obtain ⟨b, hb, ha⟩ := bind_ok ha
    have := truthA_sound hb (id_expr hr hi c Γ tc x ax htc hx hax)
    subst this
    split at hv
    · rename_i h; simp only [h, if_true] at ha
      exact id_expr hr hi e1 Γ ta v a hta hv ha
    · rename_i h; simp only [h] at ha
      exact id_expr hr hi e2 Γ tb v a htb hv ha
  | .call f args, Γ, t, v, a, ht, hv, ha => by
    simp only [typeOf] at ht
    obtain ⟨ts, hts, ht⟩ := obind_some ht
    simp only [evalExpr] at hv
    obtain ⟨vs, hvs, hv⟩ := bind_ok hv
    simp only [evalA] at ha
    obtain ⟨as, has, ha⟩ := bind_ok ha
    exact callA_sound hi (id_args hr hi args Γ ts vs as hts hvs has) hv ha
  | .sub e1 e2, Γ, t, v, a, ht, hv, ha => by
    simp only [typeOf] at ht
    obtain ⟨ta, hta, ht⟩ := obind_some ht
    obtain ⟨tb, htb, ht⟩ := obind_some ht
    simp only [evalExpr] at hv
    obtain ⟨x, hx, hv⟩ := bind_ok hv
    obtain ⟨y, hy, hv⟩ := bind_ok hv
    simp only [evalA] at ha
    obtain ⟨ax, hax, ha⟩ := bind_ok ha
    obtain ⟨ay, hay, ha⟩ := bind_ok ha
    exact subA_sound (id_expr hr hi e1 Γ ta x ax hta hx hax)
      (id_expr hr hi e2 Γ tb y ay htb hy hay) hv ha
  | .mcall _ _, Γ, t, v, a, ht, hv, ha => by simp [typeOf] at ht
  | .isIn _ _ _, Γ, t, v, a, ht, hv, ha => by simp [typeOf] at ht
  | .opaque _, Γ, t, v, a, ht, hv, ha => by simp [typeOf] at ht
theorem id_bools {n i : Nat} {σ : Env} {ρ : AEnv} (hr : RowRel σ ρ i) (hi : i < n)
    (isAnd : Bool) :
    ∀ (es : List Expr) (Γ : Ctx) (v : Val) (a : AVal), allBool Γ es = true →
      evalBool σ isAnd es = .ok v → evalBoolA n ρ isAnd es = .ok a → a.get i = some v
  | [], Γ, v, a, _, hv, ha => by
    simp only [evalBool] at hv
    simp only [evalBoolA] at ha
    cases hv; cases ha; rfl
  | [e], Γ, v, a, ht, hv, ha => by
    simp only [allBool, Bool.and_true, beq_iff_eq] at ht
    simp only [evalBool] at hv
    simp only [evalBoolA] at ha
    exact id_expr hr hi e Γ _ v a ht hv ha
  | e :: e2 :: rest, Γ, v, a, ht, hv, ha => by
    rw [allBool, Bool.and_eq_true, beq_iff_eq] at ht
    rw [evalBool] at hv
    · rw [evalBoolA] at ha
      · obtain ⟨x, hx, hv⟩ := bind_ok hv
        obtain ⟨ax, hax, ha⟩ := bind_ok ha
        obtain ⟨b, hb, ha⟩ := bind_ok ha
        have hxa := id_expr hr hi e Γ _ x ax ht.1 hx hax
        have := truthA_sound hb hxa
        subst this
        split at hv
        · rename_i h; simp only [h, if_true] at ha
          exact id_bools hr hi isAnd (e2 :: rest) Γ v a ht.2 hv ha
        · rename_i h; simp only [h] at ha
          cases hv; cases ha; exact hxa
      · simp
    · simp
theorem id_args {n i : Nat} {σ : Env} {ρ : AEnv} (hr : RowRel σ ρ i) (hi : i < n) :
    ∀ (es : List Expr) (Γ : Ctx) (ts : List Ty) (vs : List Val) (as : List AVal),
      typeArgs Γ es = some ts → evalArgs σ es = .ok vs → evalArgsA n ρ es = .ok as →
      RelL (RowVal i) as vs
  | [], Γ, ts, vs, as, _, hv, ha => by
    simp only [evalArgs] at hv
    simp only [evalArgsA] at ha
    cases hv; cases ha; trivial
  | e :: rest, Γ, ts, vs, as, ht, hv, ha => by
    simp only [typeArgs] at ht
    obtain ⟨t, hte, ht⟩ := obind_some ht
    obtain ⟨ts', hts, ht⟩ := obind_some ht
    simp only [evalArgs] at hv
    obtain ⟨v, hve, hv⟩ := bind_ok hv
    obtain ⟨vs', hvs, hv⟩ := bind_ok hv
    cases hv
    simp only [evalArgsA] at ha
    obtain ⟨a, hae, ha⟩ := bind_ok ha
    obtain ⟨as', has, ha⟩ := bind_ok ha
    cases ha
    exact ⟨id_expr hr hi e Γ t v a hte hve hae, id_args hr hi rest Γ ts' vs' as' hts hvs has⟩
end

/-! ### `and` / `or` chains: `reduceBool` against short-circuit evaluation -/

/-- three-valued `b₁ ∧ … ∧ bₖ` resp. `b₁ ∨ … ∨ bₖ` (left fold, as `reduceBool` builds it) -/
def combine (isAnd : Bool) (bs : List (Option Bool)) : Option Bool :=
  bs.foldl (klop isAnd) (some isAnd)

theorem klop_unit (isAnd : Bool) (b : Option Bool) : klop isAnd (some isAnd) b = b := by
  cases isAnd <;> cases b <;> simp [klop]

theorem pTruth_bool (ob : Option Bool) : pTruth (ob.map Val.bool) = ob := by
  cases ob <;> rfl

theorem foldl_absorb (isAnd : Bool) {b : Bool} (hb : ¬ b = isAnd) :
    ∀ bs : List (Option Bool), bs.foldl (klop isAnd) (some b) = some b
  | [] => rfl
  | x :: xs => by
    have : klop isAnd (some b) x = some b := by
      cases isAnd <;> cases b <;> cases x <;> simp_all [klop]
    rw [List.foldl_cons, this]
    exact foldl_absorb isAnd hb xs

theorem combine_nil (isAnd : Bool) : combine isAnd [] = some isAnd := rfl

theorem combine_cons_unit (isAnd : Bool) (bs : List (Option Bool)) :
    combine isAnd (some isAnd :: bs) = combine isAnd bs := by
  simp only [combine, List.foldl_cons, klop_unit]

theorem combine_cons_absorb (isAnd : Bool) {b : Bool} (hb : ¬ b = isAnd)
    (bs : List (Option Bool)) : combine isAnd (some b :: bs) = some b := by
  simp only [combine, List.foldl_cons, klop_unit]
  exact foldl_absorb isAnd hb bs

theorem mcallA_logic (n : Nat) (isAnd : Bool) (a b : AVal) :
    mcallA n (if isAnd then "logical_and" else "logical_or") [a, b] = logicA n isAnd a b := by
  cases isAnd <;> rfl

theorem evalA_logic {n i : Nat} {ρ : AEnv} {isAnd : Bool} {p q : Expr} {r : AVal} (hi : i < n)
    (h : evalA n ρ (.mcall (if isAnd then "logical_and" else "logical_or") [p, q]) = .ok r) :
    ∃ rp rq, evalA n ρ p = .ok rp ∧ evalA n ρ q = .ok rq ∧
      r.get i = (klop isAnd (pTruth (rp.get i)) (pTruth (rq.get i))).map Val.bool := by
  simp only [evalA, evalArgsA] at h
  obtain ⟨as, has, h⟩ := bind_ok h
  obtain ⟨rp, hp, has⟩ := bind_ok has
  obtain ⟨as', has', has⟩ := bind_ok has
  obtain ⟨rq, hq, has'⟩ := bind_ok has'
  simp only [ok_bind, pure_eq_ok] at has'
  cases has'; cases has
  rw [mcallA_logic] at h
  exact ⟨rp, rq, hp, hq, logicA_get h hi⟩

theorem fold_logic {n i : Nat} {ρ : AEnv} (isAnd : Bool) (hi : i < n) :
    ∀ (es : List Expr) (acc : Expr) (r : AVal),
      (∀ r0, evalA n ρ acc = .ok r0 → ∃ ob : Option Bool, r0.get i = ob.map Val.bool) →
      evalA n ρ (es.foldl (fun acc e =>
        Expr.mcall (if isAnd then "logical_and" else "logical_or") [acc, e]) acc) = .ok r →
      ∃ r0 rs ob0, evalA n ρ acc = .ok r0 ∧ evalArgsA n ρ es = .ok rs ∧
        r0.get i = Option.map Val.bool ob0 ∧
        r.get i = ((rs.map fun a => pTruth (a.get i)).foldl (klop isAnd) ob0).map Val.bool
  | [], acc, r, hacc, h => by
    obtain ⟨b, hb⟩ := hacc r h
    exact ⟨r, [], b, h, rfl, hb, hb⟩
  | e :: es, acc, r, hacc, h => by
    rw [List.foldl_cons] at h
    have hacc' : ∀ r0, evalA n ρ (Expr.mcall (if isAnd then "logical_and" else "logical_or")
        [acc, e]) = .ok r0 → ∃ ob : Option Bool, r0.get i = ob.map Val.bool := by
      intro r0 h0
      obtain ⟨_, _, _, _, hg⟩ := evalA_logic hi h0
      exact ⟨_, hg⟩
    obtain ⟨r1, rs, b1, h1, hrs, hb1, hr⟩ := fold_logic isAnd hi es _ r hacc' h
    obtain ⟨rp, rq, hp, hq, hg⟩ := evalA_logic hi h1
    obtain ⟨b0, hb0⟩ := hacc rp hp
    refine ⟨rp, rq :: rs, b0, hp, ?_, hb0, ?_⟩
    · simp only [evalArgsA, hq, hrs, ok_bind, pure_eq_ok]
    · rw [hr]
      have : b1 = klop isAnd b0 (pTruth (rq.get i)) := by
        rw [hb1, hb0, pTruth_bool] at hg
        cases b1 <;> cases hk : klop isAnd b0 (pTruth (rq.get i)) <;> simp_all
      simp only [List.map_cons, List.foldl_cons, this]

/-! ### soundness of `tExpr` at row `i` -/

theorem contains_builtins (f : String) :
    builtinsToModule.contains f = true ↔
      (f = "max" ∨ f = "min") ∨ (f = "sum" ∨ f = "any" ∨ f = "all") := by
  simp only [builtinsToModule, List.contains_cons, List.contains_nil, Bool.or_false,
    Bool.or_eq_true, beq_iff_eq]
  constructor
  · rintro (h | h | h | h | h) <;> simp [h]
  · rintro ((h | h) | (h | h | h)) <;> simp [h]

theorem evalArgsA_two {n : Nat} {ρ : AEnv} {p q : Expr} {as : List AVal}
    (h : evalArgsA n ρ [p, q] = .ok as) :
    ∃ rp rq, evalA n ρ p = .ok rp ∧ evalA n ρ q = .ok rq ∧ as = [rp, rq] := by
  simp only [evalArgsA] at h
  obtain ⟨rp, hp, h⟩ := bind_ok h
  obtain ⟨as', has', h⟩ := bind_ok h
  obtain ⟨rq, hq, has'⟩ := bind_ok has'
  simp only [ok_bind, pure_eq_ok] at has'
  cases has'; cases h
  exact ⟨rp, rq, hp, hq, rfl⟩

mutual
theorem t_expr {n i : Nat} {σ : Env} {ρ : AEnv} {Γ : Ctx} (hr : RowRel σ ρ i) (hi : i < n)
    (hΓ : EnvTyped Γ σ) :
    ∀ (e : Expr) (t : Ty) (e' : Expr) (v : Val) (a : AVal), typeOf Γ e = some t →
      tExpr e = .ok e' → evalExpr σ e = .ok v → evalA n ρ e' = .ok a → a.get i = some v
  | .const c, t, e', v, a, ht, he, hv, ha => by
    simp only [tExpr] at he; cases he
    exact id_expr hr hi _ Γ t v a ht hv ha
  | .name x, t, e', v, a, ht, he, hv, ha => by
    simp only [tExpr] at he; cases he
    exact id_expr hr hi _ Γ t v a ht hv ha
  | .bin op e1 e2, t, e', v, a, ht, he, hv, ha => by
    simp only [typeOf] at ht
    obtain ⟨ta, hta, ht⟩ := obind_some ht
    obtain ⟨tb, htb, ht⟩ := obind_some ht
    simp only [tExpr] at he
    obtain ⟨e1', he1, he⟩ := bind_ok he
    obtain ⟨e2', he2, he⟩ := bind_ok he
    cases he
    simp only [evalExpr] at hv
    obtain ⟨x, hx, hv⟩ := bind_ok hv
    obtain ⟨y, hy, hv⟩ := bind_ok hv
    simp only [evalA] at ha
    obtain ⟨ax, hax, ha⟩ := bind_ok ha
    obtain ⟨ay, hay, ha⟩ := bind_ok ha
    exact binA_get ha hi (t_expr hr hi hΓ e1 ta e1' x ax hta he1 hx hax)
      (t_expr hr hi hΓ e2 tb e2' y ay htb he2 hy hay) hv
  | .neg e1, t, e', v, a, ht, he, hv, ha => by
    simp only [tExpr] at he; cases he
    exact id_expr hr hi _ Γ t v a ht hv ha
  | .cmp e1 rest, t, e', v, a, ht, he, hv, ha => by
    simp only [typeOf] at ht
    obtain ⟨ta, hta, ht⟩ := obind_some ht
    · match rest, ht, he, hv with
      | [(op, e2)], ht, he, hv =>
        simp only [typeCmp] at ht
        obtain ⟨tb, htb, ht⟩ := obind_some ht
        simp only [tExpr, tPairs] at he
        obtain ⟨e1', he1, he⟩ := bind_ok he
        obtain ⟨ps, hps, he⟩ := bind_ok he
        obtain ⟨e2', he2, hps⟩ := bind_ok hps
        simp only [ok_bind, pure_eq_ok] at hps
        cases hps; cases he
        simp only [evalExpr] at hv
        obtain ⟨x, hx, hv⟩ := bind_ok hv
        rw [evalChain_single] at hv
        obtain ⟨y, hy, hv⟩ := bind_ok hv
        simp only [evalA] at ha
        obtain ⟨ax, hax, ha⟩ := bind_ok ha
        rw [evalChainA_single] at ha
        obtain ⟨ay, hay, ha⟩ := bind_ok ha
        exact cmpA_get ha hi (t_expr hr hi hΓ e1 ta e1' x ax hta he1 hx hax)
          (t_expr hr hi hΓ e2 tb e2' y ay htb he2 hy hay) hv
      | [], ht, _, _ => simp [typeCmp] at ht
      | _ :: _ :: _, ht, _, _ => simp [typeCmp] at ht
  | .boolop isAnd [], t, e', v, a, ht, he, hv, ha => by
    simp only [tExpr, tList, ok_bind, pure_eq_ok, reduceBool] at he
    cases he
    simp only [evalExpr, evalBool] at hv
    simp only [evalA] at ha
    cases hv; cases ha; rfl
  | .boolop isAnd [e1], t, e', v, a, ht, he, hv, ha => by
    simp only [typeOf] at ht
    obtain ⟨hb, _⟩ := ite_some ht
    simp only [allBool, Bool.and_true, beq_iff_eq] at hb
    simp only [tExpr, tList] at he
    obtain ⟨es', hes', he⟩ := bind_ok he
    obtain ⟨e1', he1, hes'⟩ := bind_ok hes'
    simp only [ok_bind, pure_eq_ok] at hes'
    cases hes'
    simp only [pure_eq_ok, reduceBool] at he
    cases he
    simp only [evalExpr, evalBool] at hv
    exact t_expr hr hi hΓ e1 _ e' v a hb he1 hv ha
  | .boolop isAnd (e1 :: e2 :: rest), t, e', v, a, ht, he, hv, ha => by
    simp only [typeOf] at ht
    obtain ⟨hb, _⟩ := ite_some ht
    simp only [tExpr] at he
    obtain ⟨es', hes', he⟩ := bind_ok he
    simp only [pure_eq_ok] at he
    cases he
    simp only [evalExpr] at hv
    -- shape of the rewritten argument list
    have hes'' := hes'
    simp only [tList] at hes''
    obtain ⟨p, _, hes''⟩ := bind_ok hes''
    obtain ⟨ps, hps, hes''⟩ := bind_ok hes''
    obtain ⟨q, _, hps⟩ := bind_ok hps
    obtain ⟨qs, _, hps⟩ := bind_ok hps
    simp only [pure_eq_ok] at hps hes''
    cases hps; cases hes''
    simp only [reduceBool] at ha
    obtain ⟨r0, rs, b0, h0, hrs, hb0, hg⟩ := fold_logic isAnd hi qs _ a
      (fun r0 h0 => by
        obtain ⟨_, _, _, _, hg⟩ := evalA_logic hi h0
        exact ⟨_, hg⟩) ha
    obtain ⟨rp, rq, hp, hq, hg0⟩ := evalA_logic hi h0
    have hall : evalArgsA n ρ (p :: q :: qs) = .ok (rp :: rq :: rs) := by
      simp only [evalArgsA, hp, hq, hrs, ok_bind, pure_eq_ok]
    obtain ⟨b, rfl, hcomb⟩ := t_bools hr hi hΓ isAnd (e1 :: e2 :: rest) _ v _ hb hes' hv hall
    rw [hg]
    rw [hb0] at hg0
    have hob : b0 = klop isAnd (pTruth (rp.get i)) (pTruth (rq.get i)) := by
      cases b0 <;> cases hk : klop isAnd (pTruth (rp.get i)) (pTruth (rq.get i)) <;> simp_all
    simp only [combine, List.map_cons, List.foldl_cons, klop_unit] at hcomb
    rw [hob, hcomb]
    rfl
  | .not e1, t, e', v, a, ht, he, hv, ha => by
    simp only [typeOf] at ht
    obtain ⟨ta, hta, ht⟩ := obind_some ht
    simp only [tExpr] at he; cases he
    simp only [evalExpr] at hv
    obtain ⟨x, hx, hv⟩ := bind_ok hv
    simp only [evalA, evalArgsA] at ha
    obtain ⟨as, has, ha⟩ := bind_ok ha
    obtain ⟨ax, hax, has⟩ := bind_ok has
    simp only [ok_bind, pure_eq_ok] at has
    cases has
    have h1 := id_expr hr hi e1 Γ ta x ax hta hx hax
    have : mcallA n "logical_not" [ax] = notA n ax := rfl
    rw [this] at ha
    cases hv
    exact notA_get ha hi h1
  | .ifexp c e1 e2, t, e', v, a, ht, he, hv, ha => by
    simp only [typeOf] at ht
    obtain ⟨tc, htc, ht⟩ := obind_some ht
    obtain ⟨ta, hta, ht⟩ := obind_some ht
    obtain ⟨tb, htb, ht⟩ := obind_some ht
    simp only [tExpr] at he
    obtain ⟨c', hc', he⟩ := bind_ok he
    obtain ⟨e1', he1, he⟩ := bind_ok he
    obtain ⟨e2', he2, he⟩ := bind_ok he
    cases he
    simp only [evalExpr] at hv
    obtain ⟨x, hx, hv⟩ := bind_ok hv
    simp only [evalA, evalArgsA] at ha
    obtain ⟨as, has, ha⟩ := bind_ok ha
    obtain ⟨rc, hrc, has⟩ := bind_ok has
    obtain ⟨as1, has1, has⟩ := bind_ok has
    obtain ⟨r1, hr1, has1⟩ := bind_ok has1
    obtain ⟨as2, has2, has1⟩ := bind_ok has1
    obtain ⟨r2, hr2, has2⟩ := bind_ok has2
    simp only [ok_bind, pure_eq_ok] at has2
    cases has2; cases has1; cases has
    have : mcallA n "where" [rc, r1, r2] = .ok (whereA n rc r1 r2) := rfl
    rw [this] at ha
    cases ha
    rw [whereA_get rc r1 r2 hi (t_expr hr hi hΓ c tc c' x rc htc hc' hx hrc)]
    split at hv
    · rename_i h; simp only [h, if_true]
      exact t_expr hr hi hΓ e1 ta e1' v r1 hta he1 hv hr1
    · rename_i h; simp only [h]
      exact t_expr hr hi hΓ e2 tb e2' v r2 htb he2 hv hr2
  | .call f args, t, e', v, a, ht, he, hv, ha => by
    simp only [typeOf] at ht
    obtain ⟨ts, hts, ht⟩ := obind_some ht
    simp only [tExpr] at he
    obtain ⟨args', hargs', he⟩ := bind_ok he
    simp only [evalExpr] at hv
    obtain ⟨vs, hvs, hv⟩ := bind_ok hv
    have hrel := fun as has => t_args hr hi hΓ args ts args' vs as hts hargs' hvs has
    by_cases h1 : f = "max" ∨ f = "min"
    · have hc : builtinsToModule.contains f = true := (contains_builtins f).2 (Or.inl h1)
      simp only [callToModule, hc, if_true] at he
      split at he
      · cases he
        simp only [evalA] at ha
        obtain ⟨as, _, ha⟩ := bind_ok ha
        rename_i hlen
        match args', hlen, as, ha with
        | [_], _, as, ha =>
          rcases h1 with h | h <;> subst h <;> simp [mcallA] at ha
      · split at he
        · cases he
          rename_i hlen
          match args', hlen.2, hrel, ha with
          | [p, q], _, hrel, ha =>
            simp only [evalA] at ha
            obtain ⟨as, has, ha⟩ := bind_ok ha
            obtain ⟨rp, rq, _, _, rfl⟩ := evalArgsA_two has
            have hrel := hrel _ has
            match vs, hrel, hv with
            | [x, y], hrel, hv =>
              rcases h1 with h | h <;> subst h
              · rw [evalCall_max] at hv
                exact extA_get (isMax := true) ha hi hrel.1 hrel.2.1 hv
              · rw [evalCall_min] at hv
                exact extA_get (isMax := false) ha hi hrel.1 hrel.2.1 hv
            | [], hrel, _ => cases hrel
            | [_], hrel, _ => simp [RelL] at hrel
            | _ :: _ :: _ :: _, hrel, _ => simp [RelL] at hrel
        · cases he
    · have h2 : ¬ (f = "sum" ∨ f = "any" ∨ f = "all") := by
        intro h2
        simp only [callTy, h1, h2, if_true, if_false] at ht
        cases ht
      have hc : ¬ builtinsToModule.contains f = true := by
        rw [contains_builtins]; intro h; rcases h with h | h
        · exact h1 h
        · exact h2 h
      simp only [callToModule, hc] at he
      cases he
      simp only [evalA] at ha
      obtain ⟨as, has, ha⟩ := bind_ok ha
      exact callA_sound hi (hrel as has) hv ha
  | .sub e1 e2, t, e', v, a, ht, he, hv, ha => by
    simp only [typeOf] at ht
    obtain ⟨ta, hta, ht⟩ := obind_some ht
    obtain ⟨tb, htb, ht⟩ := obind_some ht
    simp only [tExpr] at he
    obtain ⟨e1', he1, he⟩ := bind_ok he
    obtain ⟨e2', he2, he⟩ := bind_ok he
    cases he
    simp only [evalExpr] at hv
    obtain ⟨x, hx, hv⟩ := bind_ok hv
    obtain ⟨y, hy, hv⟩ := bind_ok hv
    simp only [evalA] at ha
    obtain ⟨ax, hax, ha⟩ := bind_ok ha
    obtain ⟨ay, hay, ha⟩ := bind_ok ha
    exact subA_sound (t_expr hr hi hΓ e1 ta e1' x ax hta he1 hx hax)
      (t_expr hr hi hΓ e2 tb e2' y ay htb he2 hy hay) hv ha
  | .mcall _ _, t, e', v, a, ht, he, hv, ha => by simp [typeOf] at ht
  | .isIn _ _ _, t, e', v, a, ht, he, hv, ha => by simp [typeOf] at ht
  | .opaque _, t, e', v, a, ht, he, hv, ha => by simp [typeOf] at ht
theorem t_bools {n i : Nat} {σ : Env} {ρ : AEnv} {Γ : Ctx} (hr : RowRel σ ρ i) (hi : i < n)
    (hΓ : EnvTyped Γ σ) (isAnd : Bool) :
    ∀ (es es' : List Expr) (v : Val) (as : List AVal), allBool Γ es = true →
      tList es = .ok es' → evalBool σ isAnd es = .ok v → evalArgsA n ρ es' = .ok as →
      ∃ b, v = .bool b ∧ combine isAnd (as.map fun a => pTruth (a.get i)) = some b
  | [], es', v, as, _, he, hv, ha => by
    simp only [tList] at he; cases he
    simp only [evalBool] at hv
    simp only [evalArgsA] at ha
    cases hv; cases ha
    exact ⟨isAnd, rfl, rfl⟩
  | [e], es', v, as, ht, he, hv, ha => by
    simp only [allBool, Bool.and_true, beq_iff_eq] at ht
    simp only [tList] at he
    obtain ⟨e', he', he⟩ := bind_ok he
    simp only [ok_bind, pure_eq_ok] at he
    cases he
    simp only [evalBool] at hv
    simp only [evalArgsA] at ha
    obtain ⟨a, hae, ha⟩ := bind_ok ha
    simp only [ok_bind, pure_eq_ok] at ha
    cases ha
    have hg := t_expr hr hi hΓ e _ e' v a ht he' hv hae
    obtain ⟨b, rfl⟩ := hasTy_bool (pres_expr hΓ e _ v ht hv)
    refine ⟨b, rfl, ?_⟩
    simp only [List.map_cons, List.map_nil, hg, pTruth, truthy, combine, List.foldl_cons,
      List.foldl_nil, klop_unit]
  | e :: e2 :: rest, es', v, as, ht, he, hv, ha => by
    rw [allBool, Bool.and_eq_true, beq_iff_eq] at ht
    rw [tList] at he
    obtain ⟨e', he', he⟩ := bind_ok he
    obtain ⟨rest', hrest', he⟩ := bind_ok he
    cases he
    rw [evalArgsA] at ha
    obtain ⟨a, hae, ha⟩ := bind_ok ha
    obtain ⟨as', has', ha⟩ := bind_ok ha
    cases ha
    rw [evalBool] at hv
    · obtain ⟨x, hx, hv⟩ := bind_ok hv
      have hg := t_expr hr hi hΓ e _ e' x a ht.1 he' hx hae
      obtain ⟨b, rfl⟩ := hasTy_bool (pres_expr hΓ e _ x ht.1 hx)
      simp only [List.map_cons, hg, pTruth, truthy]
      split at hv
      · rename_i h
        simp only [truthy] at h
        subst h
        rw [combine_cons_unit]
        exact t_bools hr hi hΓ b (e2 :: rest) rest' v as' ht.2 hrest' hv has'
      · rename_i h
        simp only [truthy] at h
        cases hv
        exact ⟨b, rfl, combine_cons_absorb isAnd h _⟩
    · simp
theorem t_args {n i : Nat} {σ : Env} {ρ : AEnv} {Γ : Ctx} (hr : RowRel σ ρ i) (hi : i < n)
    (hΓ : EnvTyped Γ σ) :
    ∀ (es : List Expr) (ts : List Ty) (es' : List Expr) (vs : List Val) (as : List AVal),
      typeArgs Γ es = some ts → tList es = .ok es' → evalArgs σ es = .ok vs →
      evalArgsA n ρ es' = .ok as → RelL (RowVal i) as vs
  | [], ts, es', vs, as, _, he, hv, ha => by
    simp only [tList] at he; cases he
    simp only [evalArgs] at hv
    simp only [evalArgsA] at ha
    cases hv; cases ha; trivial
  | e :: rest, ts, es', vs, as, ht, he, hv, ha => by
    simp only [typeArgs] at ht
    obtain ⟨t, hte, ht⟩ := obind_some ht
    obtain ⟨ts', hts, ht⟩ := obind_some ht
    simp only [tList] at he
    obtain ⟨e', he', he⟩ := bind_ok he
    obtain ⟨rest', hrest', he⟩ := bind_ok he
    cases he
    simp only [evalArgs] at hv
    obtain ⟨v, hve, hv⟩ := bind_ok hv
    obtain ⟨vs', hvs, hv⟩ := bind_ok hv
    cases hv
    simp only [evalArgsA] at ha
    obtain ⟨a, hae, ha⟩ := bind_ok ha
    obtain ⟨as', has, ha⟩ := bind_ok ha
    cases ha
    exact ⟨t_expr hr hi hΓ e t e' v a hte he' hve hae,
      t_args hr hi hΓ rest ts' rest' vs' as' hts hrest' hvs has⟩
end

/-! ### statements: the sound `if` shapes -/

theorem env_set_self : ∀ (σ : Env) (x : String) (w : Val), σ.get? x = some w → σ.set x w = σ
  | [], x, w, h => by simp [Env.get?] at h
  | (k, u) :: rest, x, w, h => by
    simp only [Env.get?] at h
    by_cases hk : k = x
    · simp only [hk, if_true, Option.some.injEq] at h
      subst h
      simp only [Env.set, hk, if_true]
    · simp only [hk, if_false] at h
      simp only [Env.set, hk, if_false, env_set_self rest x w h]

/-- the statement an `if` chain of kind `k` is rewritten to -/
def mkStmt : Kind → Expr → Stmt
  | .ret, E => .ret E
  | .asg x _, E => .assign x E

/-- what the scalar execution of a chain of kind `k` does, given the value `v` it selects -/
def Outcome (k : Kind) (σ σ' : Env) (r : Option Val) (v : Val) : Prop :=
  match k with
  | .ret => σ' = σ ∧ r = some v
  | .asg x t => σ' = σ.set x v ∧ r = none ∧ hasTy v t = true

/-- semantic content of a chain expression `E` -/
def ChainSem (n i : Nat) (σ : Env) (ρ : AEnv) (k : Kind)
    (run : Except Err (Env × Option Val)) (E : Expr) : Prop :=
  ∀ σ' r a, run = .ok (σ', r) → evalA n ρ E = .ok a → ∃ v, a.get i = some v ∧ Outcome k σ σ' r v

theorem execBlock_single (σ : Env) (s : Stmt) : execBlock σ [s] = execStmt σ s := by
  simp only [execBlock]
  cases execStmt σ s with
  | error e => rfl
  | ok p =>
    obtain ⟨σ', r⟩ := p
    cases r <;> rfl

theorem ifToStmt_else (k : Kind) (c' E1 E2 : Expr) :
    ifToStmt c' [mkStmt k E1] [mkStmt k E2] = .ok (mkStmt k (.mcall "where" [c', E1, E2])) := by
  cases k <;> rfl

theorem ifToStmt_noelse (x : String) (t : Ty) (c' E1 : Expr) :
    ifToStmt c' [mkStmt (Kind.asg x t) E1] [] =
      .ok (mkStmt (Kind.asg x t) (.mcall "where" [c', E1, .name x])) := rfl

theorem evalA_where {n : Nat} {ρ : AEnv} {c p q : Expr} {a : AVal}
    (h : evalA n ρ (.mcall "where" [c, p, q]) = .ok a) :
    ∃ rc rp rq, evalA n ρ c = .ok rc ∧ evalA n ρ p = .ok rp ∧ evalA n ρ q = .ok rq ∧
      a = whereA n rc rp rq := by
  simp only [evalA, evalArgsA] at h
  obtain ⟨as, has, h⟩ := bind_ok h
  obtain ⟨rc, hrc, has⟩ := bind_ok has
  obtain ⟨as1, has1, has⟩ := bind_ok has
  obtain ⟨r1, hr1, has1⟩ := bind_ok has1
  obtain ⟨as2, has2, has1⟩ := bind_ok has1
  obtain ⟨r2, hr2, has2⟩ := bind_ok has2
  simp only [ok_bind, pure_eq_ok] at has2
  cases has2; cases has1; cases has
  have : mcallA n "where" [rc, r1, r2] = .ok (whereA n rc r1 r2) := rfl
  rw [this] at h
  cases h
  exact ⟨rc, r1, r2, hrc, hr1, hr2, rfl⟩

mutual
theorem chain_stmt {n i : Nat} {σ : Env} {ρ : AEnv} {Γ : Ctx} (hr : RowRel σ ρ i) (hi : i < n)
    (hΓ : EnvTyped Γ σ) (k : Kind) :
    ∀ (s s' : Stmt), chainOK Γ k s = true → tStmt s = .ok s' →
      ∃ E, s' = mkStmt k E ∧ ChainSem n i σ ρ k (execStmt σ s) E
  | .ite c body orelse, s', hk, hs => by
    simp only [chainOK, Bool.and_eq_true, Option.isSome_iff_exists] at hk
    obtain ⟨⟨⟨tc, hc⟩, hbody⟩, helse⟩ := hk
    simp only [tStmt] at hs
    obtain ⟨c', hc', hs⟩ := bind_ok hs
    obtain ⟨body', hbody', hs⟩ := bind_ok hs
    obtain ⟨orelse', horelse', hs⟩ := bind_ok hs
    obtain ⟨E1, rfl, sem1⟩ := chain_body hr hi hΓ k body body' hbody hbody'
    obtain ⟨E3, heq, sem3⟩ := chain_else hr hi hΓ k orelse orelse' helse horelse'
    rw [heq c' E1] at hs
    cases hs
    refine ⟨_, rfl, ?_⟩
    intro σ' r a hrun ha
    obtain ⟨rc, r1, r3, hrc, hr1, hr3, rfl⟩ := evalA_where ha
    simp only [execStmt] at hrun
    obtain ⟨tv, htv, hrun⟩ := bind_ok hrun
    rw [whereA_get rc r1 r3 hi (t_expr hr hi hΓ c _ c' tv rc hc hc' htv hrc)]
    split at hrun
    · rename_i h; simp only [h, if_true]
      exact sem1 σ' r r1 hrun hr1
    · rename_i h; simp only [h]
      exact sem3 σ' r r3 hrun hr3
  | .ret e, s', hk, hs => by
    cases k with
    | asg x t => simp [chainOK] at hk
    | ret =>
      simp only [chainOK, Option.isSome_iff_exists] at hk
      obtain ⟨t, ht⟩ := hk
      simp only [tStmt] at hs
      obtain ⟨e', he', hs⟩ := bind_ok hs
      cases hs
      refine ⟨e', rfl, ?_⟩
      intro σ' r a hrun ha
      simp only [execStmt] at hrun
      obtain ⟨v, hv, hrun⟩ := bind_ok hrun
      cases hrun
      exact ⟨v, t_expr hr hi hΓ e t e' v a ht he' hv ha, rfl, rfl⟩
  | .assign y e, s', hk, hs => by
    cases k with
    | ret => simp [chainOK] at hk
    | asg x t =>
      simp only [chainOK, Bool.and_eq_true, beq_iff_eq] at hk
      obtain ⟨rfl, hle⟩ := hk
      cases ht : typeOf Γ e with
      | none => simp [ht] at hle
      | some t' =>
        simp only [ht] at hle
        simp only [tStmt] at hs
        obtain ⟨e', he', hs⟩ := bind_ok hs
        cases hs
        refine ⟨e', rfl, ?_⟩
        intro σ' r a hrun ha
        simp only [execStmt] at hrun
        obtain ⟨v, hv, hrun⟩ := bind_ok hrun
        cases hrun
        exact ⟨v, t_expr hr hi hΓ e t' e' v a ht he' hv ha, rfl, rfl,
          hasTy_le (pres_expr hΓ e t' v ht hv) hle⟩
  | .aug _ _ _, _, hk, _ => by simp [chainOK] at hk
  | .expr _, _, hk, _ => by simp [chainOK] at hk
  | .other _, _, hk, _ => by simp [chainOK] at hk
theorem chain_body {n i : Nat} {σ : Env} {ρ : AEnv} {Γ : Ctx} (hr : RowRel σ ρ i) (hi : i < n)
    (hΓ : EnvTyped Γ σ) (k : Kind) :
    ∀ (body body' : List Stmt), bodyOK Γ k body = true → tBlock body = .ok body' →
      ∃ E, body' = [mkStmt k E] ∧ ChainSem n i σ ρ k (execBlock σ body) E
  | [], _, hk, _ => by simp [bodyOK] at hk
  | [s], body', hk, hs => by
    simp only [bodyOK] at hk
    simp only [tBlock] at hs
    obtain ⟨s', hs', hs⟩ := bind_ok hs
    simp only [ok_bind, pure_eq_ok] at hs
    cases hs
    obtain ⟨E, rfl, sem⟩ := chain_stmt hr hi hΓ k s s' hk hs'
    refine ⟨E, rfl, ?_⟩
    rw [execBlock_single]
    exact sem
  | _ :: _ :: _, _, hk, _ => by simp [bodyOK] at hk
theorem chain_else {n i : Nat} {σ : Env} {ρ : AEnv} {Γ : Ctx} (hr : RowRel σ ρ i) (hi : i < n)
    (hΓ : EnvTyped Γ σ) (k : Kind) :
    ∀ (orelse orelse' : List Stmt), elseOK Γ k orelse = true → tBlock orelse = .ok orelse' →
      ∃ E3, (∀ c' E1, ifToStmt c' [mkStmt k E1] orelse' = .ok (mkStmt k (.mcall "where" [c', E1, E3]))) ∧
        ChainSem n i σ ρ k (execBlock σ orelse) E3
  | [], orelse', hk, hs => by
    simp only [tBlock] at hs
    cases hs
    cases k with
    | ret => simp [elseOK] at hk
    | asg x t =>
      simp only [elseOK] at hk
      cases hx : Γ.get? x with
      | none => simp [hx] at hk
      | some t' =>
        simp only [hx] at hk
        refine ⟨.name x, fun c' E1 => ifToStmt_noelse x t c' E1, ?_⟩
        intro σ' r a hrun ha
        simp only [execBlock] at hrun
        cases hrun
        obtain ⟨w, hw, hty⟩ := hΓ x t' hx
        obtain ⟨a', ha', hg⟩ := hr x w hw
        simp only [evalA, ha'] at ha
        cases ha
        exact ⟨w, hg, (env_set_self σ x w hw).symm, rfl, hasTy_le hty hk⟩
  | [s], orelse', hk, hs => by
    simp only [elseOK] at hk
    simp only [tBlock] at hs
    obtain ⟨s', hs', hs⟩ := bind_ok hs
    simp only [ok_bind, pure_eq_ok] at hs
    cases hs
    obtain ⟨E, rfl, sem⟩ := chain_stmt hr hi hΓ k s s' hk hs'
    refine ⟨E, fun c' E1 => ifToStmt_else k c' E1 E, ?_⟩
    rw [execBlock_single]
    exact sem
  | _ :: _ :: _, _, hk, _ => by simp [elseOK] at hk
end

/-! ### statements and blocks: simulation at row `i` -/

/-- outcome of running a statement / block on both sides -/
def Sim (Γ' : Ctx) (i : Nat) (σ' : Env) (r : Option Val) (ρ' : AEnv) (ra : Option AVal) : Prop :=
  match r, ra with
  | none, none => EnvTyped Γ' σ' ∧ RowRel σ' ρ' i
  | some v, some a => a.get i = some v
  | _, _ => False

theorem typeStmt_ite {Γ Γ' : Ctx} {c : Expr} {body orelse : List Stmt}
    (h : typeStmt Γ (.ite c body orelse) = some Γ') :
    ∃ k, chainOK Γ k (.ite c body orelse) = true ∧ Γ' = k.after Γ := by
  simp only [typeStmt] at h
  split at h
  · rename_i k _
    split at h
    · rename_i hk
      cases h
      exact ⟨k, hk, rfl⟩
    · split at h
      · cases h
      · split at h
        · rename_i hk
          cases h
          exact ⟨_, hk, rfl⟩
        · cases h
  · cases h

theorem stmt_sound {n i : Nat} {σ σ' : Env} {ρ ρ' : AEnv} {Γ Γ' : Ctx} {s s' : Stmt}
    {r : Option Val} {ra : Option AVal} (hr : RowRel σ ρ i) (hi : i < n) (hΓ : EnvTyped Γ σ)
    (ht : typeStmt Γ s = some Γ') (hs : tStmt s = .ok s')
    (hrun : execStmt σ s = .ok (σ', r)) (hrunA : execStmtA n ρ s' = .ok (ρ', ra)) :
    Sim Γ' i σ' r ρ' ra := by
  cases s with
  | assign x e =>
    simp only [typeStmt, Option.map_eq_some_iff] at ht
    obtain ⟨t, hte, rfl⟩ := ht
    simp only [tStmt] at hs
    obtain ⟨e', he', hs⟩ := bind_ok hs
    cases hs
    simp only [execStmt] at hrun
    obtain ⟨v, hv, hrun⟩ := bind_ok hrun
    cases hrun
    simp only [execStmtA] at hrunA
    obtain ⟨a, ha, hrunA⟩ := bind_ok hrunA
    cases hrunA
    have hg := t_expr hr hi hΓ e t e' v a hte he' hv ha
    exact ⟨hΓ.set x (pres_expr hΓ e t v hte hv), hr.set x hg⟩
  | aug x op e =>
    simp only [typeStmt] at ht
    split at ht
    · rename_i tx te htx hte
      cases ht
      simp only [tStmt] at hs
      obtain ⟨e', he', hs⟩ := bind_ok hs
      cases hs
      obtain ⟨old, hold, _⟩ := hΓ x tx htx
      obtain ⟨aold, haold, hgold⟩ := hr x old hold
      simp only [execStmt] at hrun
      rw [hold] at hrun
      simp only [pure_eq_ok, ok_bind] at hrun
      obtain ⟨v, hv, hrun⟩ := bind_ok hrun
      obtain ⟨w, hw, hrun⟩ := bind_ok hrun
      cases hrun
      simp only [execStmtA] at hrunA
      rw [haold] at hrunA
      simp only [pure_eq_ok, ok_bind] at hrunA
      obtain ⟨a, ha, hrunA⟩ := bind_ok hrunA
      obtain ⟨aw, haw, hrunA⟩ := bind_ok hrunA
      cases hrunA
      have hg := t_expr hr hi hΓ e te e' v a hte he' hv ha
      exact ⟨hΓ.set x (evalBin_num hw), hr.set x (binA_get haw hi hgold hg hw)⟩
    · cases ht
  | ret e =>
    simp only [typeStmt, Option.map_eq_some_iff] at ht
    obtain ⟨t, hte, rfl⟩ := ht
    simp only [tStmt] at hs
    obtain ⟨e', he', hs⟩ := bind_ok hs
    cases hs
    simp only [execStmt] at hrun
    obtain ⟨v, hv, hrun⟩ := bind_ok hrun
    cases hrun
    simp only [execStmtA] at hrunA
    obtain ⟨a, ha, hrunA⟩ := bind_ok hrunA
    cases hrunA
    exact t_expr hr hi hΓ e t e' v a hte he' hv ha
  | expr e =>
    simp only [typeStmt, Option.some.injEq] at ht
    subst ht
    simp only [tStmt] at hs
    obtain ⟨e', he', hs⟩ := bind_ok hs
    cases hs
    simp only [execStmt] at hrun
    simp only [execStmtA] at hrunA
    cases hrun; cases hrunA
    exact ⟨hΓ, hr⟩
  | other w => simp [typeStmt] at ht
  | ite c body orelse =>
    obtain ⟨k, hk, rfl⟩ := typeStmt_ite ht
    obtain ⟨E, rfl, sem⟩ := chain_stmt hr hi hΓ k _ s' hk hs
    cases k with
    | ret =>
      simp only [mkStmt, execStmtA] at hrunA
      obtain ⟨a, ha, hrunA⟩ := bind_ok hrunA
      cases hrunA
      obtain ⟨v, hg, rfl, rfl⟩ := sem σ' r a hrun ha
      exact hg
    | asg x t =>
      simp only [mkStmt, execStmtA] at hrunA
      obtain ⟨a, ha, hrunA⟩ := bind_ok hrunA
      cases hrunA
      obtain ⟨v, hg, rfl, rfl, hty⟩ := sem σ' r a hrun ha
      exact ⟨hΓ.set x hty, hr.set x hg⟩

theorem block_sound {n i : Nat} (hi : i < n) :
    ∀ (ss ss' : List Stmt) (Γ Γ' : Ctx) (σ σ' : Env) (ρ ρ' : AEnv) (r : Option Val)
      (ra : Option AVal), RowRel σ ρ i → EnvTyped Γ σ → typeBlock Γ ss = some Γ' →
      tBlock ss = .ok ss' → execBlock σ ss = .ok (σ', r) → execBlockA n ρ ss' = .ok (ρ', ra) →
      Sim Γ' i σ' r ρ' ra
  | [], ss', Γ, Γ', σ, σ', ρ, ρ', r, ra, hr, hΓ, ht, hs, hrun, hrunA => by
    simp only [typeBlock, Option.some.injEq] at ht
    subst ht
    simp only [tBlock] at hs
    cases hs
    simp only [execBlock] at hrun
    simp only [execBlockA] at hrunA
    cases hrun; cases hrunA
    exact ⟨hΓ, hr⟩
  | s :: rest, ss', Γ, Γ', σ, σ', ρ, ρ', r, ra, hr, hΓ, ht, hs, hrun, hrunA => by
    simp only [typeBlock] at ht
    split at ht
    · rename_i Γ1 hΓ1
      simp only [tBlock] at hs
      obtain ⟨s', hs', hs⟩ := bind_ok hs
      obtain ⟨rest', hrest', hs⟩ := bind_ok hs
      cases hs
      simp only [execBlock] at hrun
      obtain ⟨p, hp, hrun⟩ := bind_ok hrun
      obtain ⟨σ1, r1⟩ := p
      simp only [execBlockA] at hrunA
      obtain ⟨q, hq, hrunA⟩ := bind_ok hrunA
      obtain ⟨ρ1, ra1⟩ := q
      have hsim := stmt_sound hr hi hΓ hΓ1 hs' hp hq
      cases r1 with
      | none =>
        cases ra1 with
        | none =>
          simp only at hrun hrunA
          exact block_sound hi rest rest' Γ1 Γ' σ1 σ' ρ1 ρ' r ra hsim.2 hsim.1 ht hrest' hrun hrunA
        | some a => exact hsim.elim
      | some v =>
        cases ra1 with
        | none => exact hsim.elim
        | some a =>
          simp only [pure_eq_ok] at hrun hrunA
          cases hrun; cases hrunA
          exact hsim
    · cases ht

/-! ### function level -/

theorem zip_typed : ∀ (names : List String) (tys : List Ty) (vs : List Val),
    argsTyped vs tys = true → EnvTyped (names.zip tys) (names.zip vs)
  | [], _, _, _ => by intro x t h; simp [Ctx.get?] at h
  | _ :: _, [], _, _ => by intro x t h; simp [Ctx.get?] at h
  | _ :: _, _ :: _, [], h => by simp [argsTyped] at h
  | k :: names, t :: tys, v :: vs, h => by
    simp only [argsTyped, Bool.and_eq_true] at h
    intro x s hx
    simp only [List.zip_cons_cons, Ctx.get?] at hx
    simp only [List.zip_cons_cons, Env.get?]
    by_cases hk : k = x
    · simp only [hk, if_true, Option.some.injEq] at hx ⊢
      subst hx
      exact ⟨v, rfl, h.1⟩
    · simp only [hk, if_false] at hx ⊢
      exact zip_typed names tys vs h.2 x s hx

theorem zip_rowrel {i : Nat} : ∀ (names : List String) (args : List AVal) (vs : List Val),
    rowArgs args i = some vs → RowRel (names.zip vs) (names.zip args) i
  | [], _, _, _ => by intro x v h; simp [Env.get?] at h
  | _ :: _, [], vs, h => by
    simp only [rowArgs, Option.some.injEq] at h
    subst h
    intro x v h; simp [Env.get?] at h
  | k :: names, a :: args, vs, h => by
    simp only [rowArgs] at h
    split at h
    · rename_i w ws hw hws
      cases h
      intro x v hx
      simp only [List.zip_cons_cons, Env.get?] at hx
      simp only [List.zip_cons_cons, AEnv.get?]
      by_cases hk : k = x
      · simp only [hk, if_true, Option.some.injEq] at hx ⊢
        subst hx
        exact ⟨a, rfl, hw⟩
      · simp only [hk, if_false] at hx ⊢
        exact zip_rowrel names args ws hws x v hx
    · cases h

theorem fun_sound {f f' : FunDef} {tys : List Ty} {args : List AVal} {n i : Nat}
    {vs : List Val} {v : Val} {out : AVal}
    (hf : funOK tys f = true) (ht : transform f = .ok f') (hi : i < n)
    (hrow : rowArgs args i = some vs) (hty : argsTyped vs tys = true)
    (hrun : runFun f vs = .ok v) (hrunA : runFunA f' args n = .ok out) :
    out.get i = some v := by
  simp only [funOK, Bool.and_eq_true, Option.isSome_iff_exists] at hf
  obtain ⟨⟨_, Γ', hΓ'⟩, _⟩ := hf
  simp only [transform] at ht
  obtain ⟨body', hbody', ht⟩ := bind_ok ht
  cases ht
  simp only [runFun] at hrun
  split at hrun
  · cases hrun
  · simp only [pure_eq_ok] at hrun
    obtain ⟨p, hp, hrun⟩ := bind_ok hrun
    obtain ⟨σ', r⟩ := p
    simp only [runFunA] at hrunA
    split at hrunA
    · cases hrunA
    · simp only [pure_eq_ok] at hrunA
      split at hrunA
      · cases hrunA
      · obtain ⟨q, hq, hrunA⟩ := bind_ok hrunA
        obtain ⟨ρ', ra⟩ := q
        have hsim := block_sound hi f.body body' _ Γ' _ σ' _ ρ' r ra
          (zip_rowrel f.args args vs hrow) (zip_typed f.args tys vs hty) hΓ' hbody' hp hq
        cases r with
        | none =>
          cases ra with
          | none => cases hrun; cases hrunA; rfl
          | some a => exact hsim.elim
        | some w =>
          cases ra with
          | none => exact hsim.elim
          | some a => cases hrun; cases hrunA; exact hsim

/-! ### rejections -/

@[simp] theorem throw_eq_error {ε α : Type} (e : ε) : (throw e : Except ε α) = .error e := rfl


theorem tBlock_length : ∀ {ss ss' : List Stmt}, tBlock ss = .ok ss' → ss'.length = ss.length
  | [], ss', h => by simp only [tBlock] at h; cases h; rfl
  | s :: rest, ss', h => by
    simp only [tBlock] at h
    obtain ⟨s', _, h⟩ := bind_ok h
    obtain ⟨rest', hrest, h⟩ := bind_ok h
    cases h
    simp only [List.length_cons, tBlock_length hrest]

theorem tList_length : ∀ {es es' : List Expr}, tList es = .ok es' → es'.length = es.length
  | [], es', h => by simp only [tList] at h; cases h; rfl
  | e :: rest, es', h => by
    simp only [tList] at h
    obtain ⟨e', _, h⟩ := bind_ok h
    obtain ⟨rest', hrest, h⟩ := bind_ok h
    cases h
    simp only [List.length_cons, tList_length hrest]

theorem tStmt_ite_inv {c : Expr} {body orelse : List Stmt} {s' : Stmt}
    (h : tStmt (.ite c body orelse) = .ok s') :
    ∃ c' body' orelse', tExpr c = .ok c' ∧ tBlock body = .ok body' ∧
      tBlock orelse = .ok orelse' ∧ ifToStmt c' body' orelse' = .ok s' := by
  simp only [tStmt] at h
  obtain ⟨c', hc', h⟩ := bind_ok h
  obtain ⟨body', hbody', h⟩ := bind_ok h
  obtain ⟨orelse', horelse', h⟩ := bind_ok h
  exact ⟨c', body', orelse', hc', hbody', horelse', h⟩

/-- `_if_to_call` with more than one statement in a branch: `tooManyOperations` (or the
rewriter crashes on the first body statement); never a tree -/
theorem ifToStmt_tooMany (c' : Expr) (body' orelse' : List Stmt)
    (h : body'.length > 1 ∨ orelse'.length > 1) :
    ifToStmt c' body' orelse' = .error .tooManyOperations ∨
      ifToStmt c' body' orelse' = .error .crash := by
  have h' : orelse'.length > 1 ∨ body'.length > 1 := h.symm
  cases body' with
  | nil => right; rfl
  | cons b0 rest =>
    cases hv : stmtValue? b0 with
    | none => right; simp [ifToStmt, hv]
    | some v0 =>
      left
      simp [ifToStmt, hv]
      intro h1 h2
      exfalso
      subst h2
      simp only [List.length_cons, List.length_nil] at h'
      omega

theorem tStmt_ret_inv {e : Expr} {s' : Stmt} (h : tStmt (.ret e) = .ok s') :
    ∃ e', tExpr e = .ok e' ∧ s' = .ret e' := by
  simp only [tStmt] at h
  obtain ⟨e', he', h⟩ := bind_ok h
  cases h
  exact ⟨e', he', rfl⟩

theorem tStmt_expr_inv {e : Expr} {s' : Stmt} (h : tStmt (.expr e) = .ok s') :
    ∃ e', tExpr e = .ok e' ∧ s' = .expr e' := by
  simp only [tStmt] at h
  obtain ⟨e', he', h⟩ := bind_ok h
  cases h
  exact ⟨e', he', rfl⟩

theorem tBlock_cons_inv {s : Stmt} {rest ss' : List Stmt} (h : tBlock (s :: rest) = .ok ss') :
    ∃ s' rest', tStmt s = .ok s' ∧ tBlock rest = .ok rest' ∧ ss' = s' :: rest' := by
  simp only [tBlock] at h
  obtain ⟨s', hs', h⟩ := bind_ok h
  obtain ⟨rest', hrest', h⟩ := bind_ok h
  cases h
  exact ⟨s', rest', hs', hrest', rfl⟩

/-- `if c: return e` without `else`: never a tree -/
theorem ifToStmt_ret_noelse (c' e' : Expr) (rest' : List Stmt) (s' : Stmt) :
    ifToStmt c' (.ret e' :: rest') [] ≠ .ok s' := by
  cases rest' with
  | nil => intro h; cases h
  | cons b rest =>
    rcases ifToStmt_tooMany c' (.ret e' :: b :: rest) [] (Or.inl (by simp)) with h | h <;>
      rw [h] <;> intro h' <;> cases h'

/-- an `else` branch that is neither `return`, assignment nor (rewritten) `if`: never a tree -/
theorem ifToStmt_else_unallowed (c' : Expr) (body' : List Stmt) (o : Stmt)
    (ho : (∃ w, o = .other w) ∨ (∃ e, o = .expr e)) (s' : Stmt) :
    ifToStmt c' body' [o] ≠ .ok s' := by
  cases body' with
  | nil => intro h; cases h
  | cons b0 rest =>
    cases rest with
    | cons b1 rest =>
      rcases ifToStmt_tooMany c' (b0 :: b1 :: rest) [o] (Or.inl (by simp)) with h | h <;>
        rw [h] <;> intro h' <;> cases h'
    | nil =>
      rcases ho with ⟨w, rfl⟩ | ⟨e, rfl⟩ <;> cases b0 <;> intro h <;> cases h

theorem ifToStmt_unallowed_exact (c' : Expr) (b0 o : Stmt) (v0 : Expr)
    (hv : stmtValue? b0 = some v0) (ho : (∃ w, o = .other w) ∨ (∃ e, o = .expr e)) :
    ifToStmt c' [b0] [o] = .error .unallowedOperation := by
  rcases ho with ⟨w, rfl⟩ | ⟨e, rfl⟩ <;> cases b0 <;> first | rfl | cases hv

/-- `max`/`min`/`sum`/`any`/`all` with an unsupported number of arguments -/
theorem callToModule_tooMany (f : String) (args' : List Expr)
    (hf : builtinsToModule.contains f = true) (h1 : args'.length ≠ 1)
    (h2 : ¬ ((f = "max" ∨ f = "min") ∧ args'.length = 2)) :
    callToModule f args' = .error .tooManyArguments := by
  simp only [callToModule, hf, if_true, h1, if_false, h2]

end GV.VecLemmas
