import GettsimVerif.Lemmas.Simulate
import GettsimVerif.Lemmas.Dag
import GettsimVerif.Props.C04
/-
Helper lemmas for `Props/C04Sim.lean`: in the CONCRETE end-to-end model `GV.Simulate` the column
reported for a target does not depend on the other targets.
-/
namespace GV.Dag

variable {α : Type}

/-! ### two systems that agree on the names they both define -/

/-- the bindings of every name defined in BOTH systems have the same dependencies and
extensionally equal operations -/
def AgreeOnCommon (S S' : Sys α) : Prop :=
  ∀ x nd nd', find? S x = some nd → find? S' x = some nd' →
    nd.deps = nd'.deps ∧ ∀ args, nd.op args = nd'.op args

/-- every binding of `S` is a binding of `S'` (up to extensional equality of the operation) -/
def SubSys (S S' : Sys α) : Prop :=
  ∀ x nd, find? S x = some nd → ∃ nd', find? S' x = some nd' ∧
    nd.deps = nd'.deps ∧ ∀ args, nd.op args = nd'.op args

theorem forall₂_eval_agree {ev ev' : Name → Except Err α} {ds : List Name} {vs vs' : List α}
    (h : ∀ d ∈ ds, ∀ v v', ev d = .ok v → ev' d = .ok v' → v = v')
    (hv : List.Forall₂ (fun n v => ev n = .ok v) ds vs)
    (hv' : List.Forall₂ (fun n v => ev' n = .ok v) ds vs') : vs = vs' := by
  induction hv generalizing vs' with
  | nil => cases hv'; rfl
  | cons hab _ ih =>
    cases hv' with
    | cons hab' htl' =>
      rw [h _ List.mem_cons_self _ _ hab hab', ih (fun d hd => h d (List.mem_cons_of_mem _ hd)) htl']

/-- If two systems agree on the names they both define and `t` evaluates SUCCESSFULLY in both
(over the same data), the two values are equal: a name defined in only one of them cannot have been
used by the other, successful, evaluation. The fuels may differ. -/
theorem eval_ok_agree (S S' : Sys α) (D : Data α) (hS : AgreeOnCommon S S') :
    ∀ (k k' : Nat) (t : Name) (v v' : α), eval S D k t = .ok v → eval S' D k' t = .ok v' → v = v' := by
  intro k
  induction k with
  | zero => intro k' t v v' h; simp [eval] at h
  | succ k ih =>
    intro k' t v v' h h'
    cases k' with
    | zero => simp [eval] at h'
    | succ k' =>
      cases hD : find? D t with
      | some c =>
        rw [eval_succ_of_data hD] at h h'
        cases h; cases h'; rfl
      | none =>
        cases hSt : find? S t with
        | none => rw [eval_succ_of_missing hD hSt] at h; cases h
        | some nd =>
          cases hSt' : find? S' t with
          | none => rw [eval_succ_of_missing hD hSt'] at h'; cases h'
          | some nd' =>
            obtain ⟨hdeps, hop⟩ := hS t nd nd' hSt hSt'
            rw [eval_succ_of_node hD hSt] at h
            rw [eval_succ_of_node hD hSt'] at h'
            cases hargs : evalAll (eval S D k) nd.deps with
            | error e => rw [hargs] at h; cases h
            | ok args =>
              cases hargs' : evalAll (eval S' D k') nd'.deps with
              | error e => rw [hargs'] at h'; cases h'
              | ok args' =>
                rw [hargs] at h
                rw [hargs'] at h'
                rw [← hdeps] at hargs'
                have : args = args' :=
                  forall₂_eval_agree (fun d _ w w' hw hw' => ih k' d w w' hw hw')
                    ((evalAll_ok_iff _ _ _).1 hargs) ((evalAll_ok_iff _ _ _).1 hargs')
                subst this
                have h1 : nd.op args = .ok v := h
                have h2 : nd'.op args = .ok v' := h'
                rw [hop args, h2] at h1
                cases h1; rfl

/-- a successful evaluation stays valid in any larger system -/
theorem eval_ok_sub (S S' : Sys α) (D : Data α) (hS : SubSys S S') :
    ∀ (k : Nat) (t : Name) (v : α), eval S D k t = .ok v → eval S' D k t = .ok v := by
  intro k
  induction k with
  | zero => intro t v h; simp [eval] at h
  | succ k ih =>
    intro t v h
    cases hD : find? D t with
    | some c => rw [eval_succ_of_data hD] at h ⊢; exact h
    | none =>
      cases hSt : find? S t with
      | none => rw [eval_succ_of_missing hD hSt] at h; cases h
      | some nd =>
        obtain ⟨nd', hSt', hdeps, hop⟩ := hS t nd hSt
        rw [eval_succ_of_node hD hSt] at h
        rw [eval_succ_of_node hD hSt']
        cases hargs : evalAll (eval S D k) nd.deps with
        | error e => rw [hargs] at h; cases h
        | ok args =>
          rw [hargs] at h
          rw [← hdeps, evalAll_ok_mono (fun m _ w hw => ih m w hw) hargs]
          have h1 : nd.op args = .ok v := h
          show nd'.op args = .ok v
          rw [← hop args, h1]

end GV.Dag

namespace GV.Simulate
open GV.Lang (Val)

/-! ### dictionaries of functions -/

theorem findFn?_nil (n : String) : findFn? [] n = none := rfl

theorem findFn?_cons (g : Fn) (d : List Fn) (n : String) :
    findFn? (g :: d) n = if g.name = n then some g else findFn? d n := by
  unfold findFn?
  rw [List.find?_cons]
  by_cases h : g.name = n <;> simp [h]

theorem findFn?_append (a b : List Fn) (n : String) :
    findFn? (a ++ b) n = (findFn? a n).or (findFn? b n) := by
  unfold findFn?
  rw [List.find?_append]

theorem findFn?_some {d : List Fn} {n : String} {f : Fn} (h : findFn? d n = some f) :
    f ∈ d ∧ f.name = n := by
  unfold findFn? at h
  exact ⟨List.mem_of_find?_eq_some h, by simpa using List.find?_some h⟩

theorem findFn?_isSome_iff (d : List Fn) (n : String) :
    (findFn? d n).isSome ↔ n ∈ d.map (·.name) := by
  unfold findFn?
  rw [List.find?_isSome]
  simp only [decide_eq_true_eq, List.mem_map]

theorem findFn?_eq_none_iff (d : List Fn) (n : String) :
    findFn? d n = none ↔ n ∉ d.map (·.name) := by
  rw [← findFn?_isSome_iff]
  cases findFn? d n <;> simp

theorem hasFn_iff (d : List Fn) (n : String) : hasFn d n = true ↔ n ∈ d.map (·.name) := by
  unfold hasFn
  exact findFn?_isSome_iff d n

theorem findFn?_of_mem_nodup {d : List Fn} (hd : (d.map (·.name)).Nodup) {f : Fn} (hf : f ∈ d) :
    findFn? d f.name = some f := by
  induction d with
  | nil => cases hf
  | cons g d ih =>
    rw [List.map_cons, List.nodup_cons] at hd
    rw [findFn?_cons]
    rcases List.mem_cons.1 hf with rfl | hf
    · simp
    · have : g.name ≠ f.name := fun h => hd.1 (h ▸ List.mem_map.2 ⟨f, hf, rfl⟩)
      rw [if_neg this]
      exact ih hd.2 hf

theorem findFn?_dictUpdate (d : List Fn) (f : Fn) (n : String) :
    findFn? (dictUpdate d f) n = if f.name = n then some f else findFn? d n := by
  induction d with
  | nil => simp [dictUpdate, findFn?_cons, findFn?_nil]
  | cons g d ih =>
    unfold dictUpdate
    by_cases hg : g.name = f.name
    · rw [if_pos hg, findFn?_cons, findFn?_cons]
      by_cases hn : f.name = n
      · simp [hn]
      · have : g.name ≠ n := hg ▸ hn
        simp [hn, this]
    · rw [if_neg hg, findFn?_cons, findFn?_cons, ih]
      by_cases hn : g.name = n
      · have : f.name ≠ n := fun h => hg (hn.trans h.symm)
        simp [hn, this]
      · simp [hn]

theorem findFn?_merge (a b : List Fn) (n : String) :
    findFn? (merge a b) n = (findFn? b.reverse n).or (findFn? a n) := by
  unfold merge
  induction b generalizing a with
  | nil => simp [findFn?_nil]
  | cons f b ih =>
    rw [List.foldl_cons, ih, findFn?_dictUpdate, List.reverse_cons, findFn?_append, findFn?_cons,
      findFn?_nil]
    cases findFn? b.reverse n with
    | some g => simp
    | none => by_cases hn : f.name = n <;> simp [hn]

theorem mem_names_merge (a b : List Fn) (n : String) :
    n ∈ (merge a b).map (·.name) ↔ n ∈ a.map (·.name) ∨ n ∈ b.map (·.name) := by
  rw [← findFn?_isSome_iff, findFn?_merge, Option.isSome_or, Bool.or_eq_true, findFn?_isSome_iff,
    findFn?_isSome_iff, List.map_reverse, List.mem_reverse]
  exact Or.comm

theorem mem_names_dictUpdate (d : List Fn) (f : Fn) (n : String) :
    n ∈ (dictUpdate d f).map (·.name) ↔ n = f.name ∨ n ∈ d.map (·.name) := by
  rw [← findFn?_isSome_iff, findFn?_dictUpdate, ← findFn?_isSome_iff]
  by_cases h : f.name = n
  · simp [h]
  · have : ¬ n = f.name := fun h' => h h'.symm
    simp [h, this]

theorem nodup_dictUpdate (d : List Fn) (f : Fn) (hd : (d.map (·.name)).Nodup) :
    ((dictUpdate d f).map (·.name)).Nodup := by
  induction d with
  | nil => simp [dictUpdate]
  | cons g d ih =>
    rw [List.map_cons, List.nodup_cons] at hd
    unfold dictUpdate
    by_cases hg : g.name = f.name
    · rw [if_pos hg, List.map_cons, List.nodup_cons, ← hg]
      exact hd
    · rw [if_neg hg, List.map_cons, List.nodup_cons]
      refine ⟨?_, ih hd.2⟩
      rw [mem_names_dictUpdate]
      rintro (h | h)
      · exact hg h
      · exact hd.1 h

theorem nodup_merge (a b : List Fn) (ha : (a.map (·.name)).Nodup) :
    ((merge a b).map (·.name)).Nodup := by
  unfold merge
  induction b generalizing a with
  | nil => exact ha
  | cons f b ih => exact ih _ (nodup_dictUpdate a f ha)

theorem findFn?_filter_name (p : String → Bool) (d : List Fn) (n : String) :
    findFn? (d.filter fun f => p f.name) n = if p n then findFn? d n else none := by
  induction d with
  | nil => simp [findFn?_nil]
  | cons g d ih =>
    rw [List.filter_cons]
    by_cases hp : p g.name = true
    · rw [if_pos hp, findFn?_cons, findFn?_cons, ih]
      by_cases hn : g.name = n
      · subst hn; simp [hp]
      · simp [hn]
    · rw [if_neg hp, ih, findFn?_cons]
      by_cases hn : g.name = n
      · subst hn; simp [hp]
      · simp [hn]

theorem nodup_filter_names (p : Fn → Bool) (d : List Fn) (hd : (d.map (·.name)).Nodup) :
    ((d.filter p).map (·.name)).Nodup :=
  hd.sublist ((List.filter_sublist (p := p) (l := d)).map _)

/-! ### the dictionary of aggregation specs (`{**automated, **user}`) -/

/-- one step of `{**automated, **user}` (the local `upd` of `groupAggFns`) -/
def specUpd (d : List (String × GroupSpec)) (e : String × GroupSpec) : List (String × GroupSpec) :=
  if d.any (·.1 = e.1) then d.map fun x => if x.1 = e.1 then e else x else d ++ [e]

/-- the filter that decides whether an automatic group sum is created for `col` -/
def autoOk (fns : List Fn) (dataCols : List String) (col : String) : Bool :=
  !hasFn fns col && (groupIdOf col).isSome &&
    (fns.map (·.name) ++ dataCols).contains (removeGroupSuffix col)

/-- the automatic spec for `col` -/
def sumSpec (col : String) : String × GroupSpec :=
  (col, { aggr := .sum, source := some (removeGroupSuffix col) })

/-- all aggregation specs, as built inside `groupAggFns` -/
def allSpecs (fns : List Fn) (targets dataCols : List String) (userSpecs : List (String × GroupSpec)) :
    List (String × GroupSpec) :=
  ((((fns.flatMap (·.args) ++ targets ++ userSpecs.filterMap (fun (_, s) => s.source)).filter
    (autoOk fns dataCols)).map sumSpec) ++ userSpecs).foldl specUpd []

theorem groupAggFns_eq (fns : List Fn) (targets dataCols : List String)
    (userSpecs : List (String × GroupSpec)) :
    groupAggFns fns targets dataCols userSpecs =
      if (allSpecs fns targets dataCols userSpecs).any fun (_, s) => s.aggr != .count && s.source.isNone
      then throw Err.keyError
      else (allSpecs fns targets dataCols userSpecs).mapM fun (n, s) => groupAggFn fns n s := rfl

/-- the LAST entry for `n` (Python dictionary semantics of repeated updates) -/
def lookupLast {β : Type} : List (String × β) → String → Option β
  | [], _ => none
  | e :: l, n =>
    match lookupLast l n with
    | some s => some s
    | none => if e.1 = n then some e.2 else none

theorem lookupLast_append {β : Type} (a b : List (String × β)) (n : String) :
    lookupLast (a ++ b) n = (lookupLast b n).or (lookupLast a n) := by
  induction a with
  | nil => simp [lookupLast]
  | cons e a ih =>
    rw [List.cons_append, lookupLast, ih, lookupLast]
    cases lookupLast b n with
    | some s => simp
    | none => simp

theorem lookupLast_map_sumSpec (l : List String) (n : String) :
    lookupLast (l.map sumSpec) n = if n ∈ l then some (sumSpec n).2 else none := by
  induction l with
  | nil => simp [lookupLast]
  | cons c l ih =>
    rw [List.map_cons, lookupLast, ih]
    by_cases hn : n ∈ l
    · simp [hn]
    · by_cases hc : c = n
      · subst hc; simp [hn, sumSpec]
      · have : ¬ n = c := fun h => hc h.symm
        simp [hn, this, sumSpec, hc]

theorem mem_specUpd (d : List (String × GroupSpec)) (e : String × GroupSpec) (n : String) (s : GroupSpec) :
    (n, s) ∈ specUpd d e ↔ (n, s) = e ∨ (n ≠ e.1 ∧ (n, s) ∈ d) := by
  unfold specUpd
  by_cases hany : d.any (·.1 = e.1) = true
  · rw [if_pos hany, List.mem_map]
    simp only [List.any_eq_true, decide_eq_true_eq] at hany
    constructor
    · rintro ⟨x, hx, hxe⟩
      by_cases h1 : x.1 = e.1
      · rw [if_pos h1] at hxe; exact Or.inl hxe.symm
      · rw [if_neg h1] at hxe; subst hxe; exact Or.inr ⟨h1, hx⟩
    · rintro (h | ⟨h1, h2⟩)
      · obtain ⟨x, hx, hxe⟩ := hany
        exact ⟨x, hx, by rw [if_pos hxe, h]⟩
      · exact ⟨(n, s), h2, by rw [if_neg h1]⟩
  · rw [if_neg hany, List.mem_append, List.mem_singleton]
    simp only [List.any_eq_true, decide_eq_true_eq, not_exists, not_and] at hany
    constructor
    · rintro (h | h)
      · exact Or.inr ⟨hany _ h, h⟩
      · exact Or.inl h
    · rintro (h | ⟨_, h2⟩)
      · exact Or.inr h
      · exact Or.inl h2

theorem mem_foldl_specUpd (l d : List (String × GroupSpec)) (n : String) (s : GroupSpec) :
    (n, s) ∈ l.foldl specUpd d ↔
      lookupLast l n = some s ∨ (lookupLast l n = none ∧ (n, s) ∈ d) := by
  induction l generalizing d with
  | nil => simp [lookupLast]
  | cons e l ih =>
    rw [List.foldl_cons, ih, mem_specUpd, lookupLast]
    cases hl : lookupLast l n with
    | some s0 => simp
    | none =>
      obtain ⟨en, es⟩ := e
      by_cases hn : en = n
      · subst hn
        simp only [true_and, reduceCtorEq, false_or, if_true, Option.some.injEq, false_and, or_false,
          Prod.mk.injEq, ne_eq, not_true_eq_false]
        exact eq_comm
      · have : ¬ n = en := fun h => hn h.symm
        simp [hn, this]

/-- the spec registered under the name `n`: the user's (last) one, else the automatic sum if `n`
is an argument of a function, a target or the source column of a user spec and passes the filter -/
def specOfName (fns : List Fn) (targets dataCols : List String) (userSpecs : List (String × GroupSpec))
    (n : String) : Option GroupSpec :=
  (lookupLast userSpecs n).or
    (if n ∈ (fns.flatMap (·.args) ++ targets ++ userSpecs.filterMap (fun (_, s) => s.source)).filter
        (autoOk fns dataCols) then some (sumSpec n).2 else none)

theorem mem_allSpecs (fns : List Fn) (targets dataCols : List String)
    (userSpecs : List (String × GroupSpec)) (n : String) (s : GroupSpec) :
    (n, s) ∈ allSpecs fns targets dataCols userSpecs ↔
      specOfName fns targets dataCols userSpecs n = some s := by
  unfold allSpecs specOfName
  rw [mem_foldl_specUpd, lookupLast_append, lookupLast_map_sumSpec]
  simp only [List.not_mem_nil, and_false, or_false]

theorem groupAggFn_name {fns : List Fn} {n : String} {s : GroupSpec} {f : Fn}
    (h : groupAggFn fns n s = .ok f) : f.name = n := by
  unfold groupAggFn at h
  split at h
  · cases h
  · split at h
    · cases h; rfl
    · split at h
      · cases h
      · cases h; rfl
    · cases h

/-! ### `mapM` in `Except`: membership -/

theorem mapM_mem_out {A B : Type} {g : A → Except Err B} {l : List A} {out : List B}
    (h : l.mapM g = .ok out) : ∀ b ∈ out, ∃ a ∈ l, g a = .ok b := by
  rw [Dag.mapM_ok_iff] at h
  induction h with
  | nil => intro b hb; cases hb
  | cons hab _ ih =>
    intro b hb
    rcases List.mem_cons.1 hb with rfl | hb
    · exact ⟨_, List.mem_cons_self, hab⟩
    · obtain ⟨a, ha, hga⟩ := ih b hb
      exact ⟨a, List.mem_cons_of_mem _ ha, hga⟩

theorem mapM_mem_in {A B : Type} {g : A → Except Err B} {l : List A} {out : List B}
    (h : l.mapM g = .ok out) : ∀ a ∈ l, ∃ b ∈ out, g a = .ok b := by
  rw [Dag.mapM_ok_iff] at h
  induction h with
  | nil => intro a ha; cases ha
  | cons hab _ ih =>
    intro a ha
    rcases List.mem_cons.1 ha with rfl | ha
    · exact ⟨_, List.mem_cons_self, hab⟩
    · obtain ⟨b, hb, hgb⟩ := ih a ha
      exact ⟨b, List.mem_cons_of_mem _ hb, hgb⟩

theorem mapM_length {A B : Type} {g : A → Except Err B} {l : List A} {out : List B}
    (h : l.mapM g = .ok out) : out.length = l.length := by
  rw [Dag.mapM_ok_iff] at h
  exact h.length_eq.symm

/-! ### the aggregation functions created for a list of targets -/

theorem groupAggFns_spec {fns : List Fn} {targets dataCols : List String}
    {userSpecs : List (String × GroupSpec)} {grp : List Fn}
    (h : groupAggFns fns targets dataCols userSpecs = .ok grp) :
    (∀ f ∈ grp, ∃ s, specOfName fns targets dataCols userSpecs f.name = some s ∧
        groupAggFn fns f.name s = .ok f) ∧
    (∀ n s, specOfName fns targets dataCols userSpecs n = some s → n ∈ grp.map (·.name)) := by
  rw [groupAggFns_eq] at h
  split at h
  · cases h
  · constructor
    · intro f hf
      obtain ⟨⟨n, s⟩, hns, hg⟩ := mapM_mem_out h f hf
      simp only at hg
      have hn := groupAggFn_name hg
      subst hn
      exact ⟨s, (mem_allSpecs ..).1 hns, hg⟩
    · intro n s hs
      obtain ⟨f, hf, hg⟩ := mapM_mem_in h (n, s) ((mem_allSpecs ..).2 hs)
      simp only at hg
      exact List.mem_map.2 ⟨f, hf, groupAggFn_name hg⟩

/-- the spec registered under a name for two target lists: equal if registered for both -/
theorem specOfName_agree {fns : List Fn} {T T' dataCols : List String}
    {userSpecs : List (String × GroupSpec)} {n : String} {s s' : GroupSpec}
    (h : specOfName fns T dataCols userSpecs n = some s)
    (h' : specOfName fns T' dataCols userSpecs n = some s') : s = s' := by
  unfold specOfName at h h'
  cases hu : lookupLast userSpecs n with
  | some s0 =>
    rw [hu] at h h'
    simp only [Option.some_or, Option.some.injEq] at h h'
    rw [← h, ← h']
  | none =>
    rw [hu] at h h'
    simp only [Option.none_or] at h h'
    split at h
    · split at h'
      · cases h; cases h'; rfl
      · cases h'
    · cases h

/-- … and a name registered for `T` but not for `T'` is an automatic sum requested as a target of
`T` which is no argument of any function and no source column of a user spec -/
theorem specOfName_only {fns : List Fn} {T T' dataCols : List String}
    {userSpecs : List (String × GroupSpec)} {n : String} {s : GroupSpec}
    (h : specOfName fns T dataCols userSpecs n = some s)
    (h' : specOfName fns T' dataCols userSpecs n = none) :
    n ∈ T ∧ n ∉ fns.flatMap (·.args) ∧ n ∉ userSpecs.filterMap (fun (_, s) => s.source) ∧
      autoOk fns dataCols n = true ∧ n ∉ T' := by
  unfold specOfName at h h'
  cases hu : lookupLast userSpecs n with
  | some s0 => rw [hu] at h'; simp at h'
  | none =>
    rw [hu] at h h'
    simp only [Option.none_or] at h h'
    split at h
    · rename_i hm
      split at h'
      · cases h'
      · rename_i hm'
        rw [List.mem_filter, List.mem_append, List.mem_append] at hm hm'
        have hargs : n ∉ fns.flatMap (·.args) := fun ha => hm' ⟨Or.inl (Or.inl ha), hm.2⟩
        have hsrc : n ∉ userSpecs.filterMap (fun (_, s) => s.source) := fun ha => hm' ⟨Or.inr ha, hm.2⟩
        have hT' : n ∉ T' := fun ha => hm' ⟨Or.inl (Or.inr ha), hm.2⟩
        refine ⟨?_, hargs, hsrc, hm.2, hT'⟩
        rcases hm.1 with (ha | ht) | hs
        · exact absurd ha hargs
        · exact ht
        · exact absurd hs hsrc
    · cases h

theorem buildFunctions_ok {ruleFns : List Fn} {gs : List (String × GroupSpec)}
    {ps : List (String × PidSpec)} {targets dataCols : List String} {all : List Fn}
    (h : buildFunctions ruleFns gs ps targets dataCols = .ok all) :
    ∃ pid grp, pidFns (merge [] ruleFns) dataCols ps = .ok pid ∧
      groupAggFns (merge (merge (timeConvFns (merge (merge [] ruleFns) pid) dataCols) (merge [] ruleFns)) pid)
        targets dataCols gs = .ok grp ∧
      all = merge (merge (merge (merge pid (timeConvFns (merge (merge [] ruleFns) pid) dataCols))
        (merge [] ruleFns)) grp) groupingFns := by
  unfold buildFunctions at h
  obtain ⟨pid, hpid, h⟩ := bind_ok h
  obtain ⟨grp, hgrp, h⟩ := bind_ok h
  simp only [pure, Except.pure, Except.ok.injEq] at h
  exact ⟨pid, grp, hpid, hgrp, h.symm⟩

theorem nodup_merge_nil (b : List Fn) : ((merge [] b).map (·.name)).Nodup :=
  nodup_merge [] b (by simp)

theorem pidFns_nodup {rules : List Fn} {dataCols : List String} {ps : List (String × PidSpec)}
    {pid : List Fn} (h : pidFns rules dataCols ps = .ok pid) : (pid.map (·.name)).Nodup := by
  unfold pidFns at h
  obtain ⟨fs, _, h⟩ := bind_ok h
  simp only [pure, Except.pure, Except.ok.injEq] at h
  subst h
  exact nodup_merge_nil fs

/-- the names of `all_functions` are distinct (it is a dictionary) -/
theorem buildFunctions_nodup {ruleFns : List Fn} {gs : List (String × GroupSpec)}
    {ps : List (String × PidSpec)} {targets dataCols : List String} {all : List Fn}
    (h : buildFunctions ruleFns gs ps targets dataCols = .ok all) : (all.map (·.name)).Nodup := by
  obtain ⟨pid, grp, hpid, _, rfl⟩ := buildFunctions_ok h
  exact nodup_merge _ _ (nodup_merge _ _ (nodup_merge _ _ (nodup_merge _ _ (pidFns_nodup hpid))))

/-- Step 3 (both parts). The function sets built for two target lists (all other inputs equal)
agree on every name they both define; a name defined for `T` only is an automatic group sum that
was requested as a target of `T` and is neither an argument of a rule / p_id aggregation / time
conversion nor the source column of an aggregation spec. -/
theorem buildFunctions_targets {ruleFns : List Fn} {gs : List (String × GroupSpec)}
    {ps : List (String × PidSpec)} {T T' dataCols : List String} {all all' : List Fn}
    (h : buildFunctions ruleFns gs ps T dataCols = .ok all)
    (h' : buildFunctions ruleFns gs ps T' dataCols = .ok all') (n : String) (f : Fn)
    (hf : findFn? all n = some f) :
    (∀ f', findFn? all' n = some f' → f = f') ∧
    (findFn? all' n = none → n ∈ T ∧ n ∉ T' ∧ n ∉ gs.filterMap (fun (_, s) => s.source) ∧
      ∃ pid, pidFns (merge [] ruleFns) dataCols ps = .ok pid ∧
        n ∉ (merge (merge (timeConvFns (merge (merge [] ruleFns) pid) dataCols) (merge [] ruleFns)) pid).flatMap
          (·.args) ∧
        autoOk (merge (merge (timeConvFns (merge (merge [] ruleFns) pid) dataCols) (merge [] ruleFns)) pid)
          dataCols n = true) := by
  obtain ⟨pid, grp, hpid, hgrp, rfl⟩ := buildFunctions_ok h
  obtain ⟨pid', grp', hpid', hgrp', rfl⟩ := buildFunctions_ok h'
  rw [hpid] at hpid'
  cases hpid'
  generalize htc : timeConvFns (merge (merge [] ruleFns) pid) dataCols = tc at *
  generalize hrules : merge [] ruleFns = rules at *
  obtain ⟨hg1, hg2⟩ := groupAggFns_spec hgrp
  obtain ⟨hg1', hg2'⟩ := groupAggFns_spec hgrp'
  rw [findFn?_merge, findFn?_merge] at hf ⊢
  -- the part that does not depend on the targets
  have hbase : ∀ s, specOfName (merge (merge tc rules) pid) T dataCols gs n = some s ∨
      specOfName (merge (merge tc rules) pid) T' dataCols gs n = some s →
      lookupLast gs n = none → findFn? (merge (merge pid tc) rules) n = none := by
    intro s hs hu
    have hok : autoOk (merge (merge tc rules) pid) dataCols n = true := by
      rcases hs with hs | hs <;>
      · unfold specOfName at hs
        rw [hu] at hs
        simp only [Option.none_or] at hs
        split at hs
        · rename_i hm; exact (List.mem_filter.1 hm).2
        · cases hs
    unfold autoOk at hok
    simp only [Bool.and_eq_true, Bool.not_eq_true'] at hok
    have hno : ¬ n ∈ (merge (merge tc rules) pid).map (·.name) := by
      rw [← hasFn_iff]; simp [hok.1.1]
    rw [findFn?_eq_none_iff]
    intro hmem
    apply hno
    simp only [mem_names_merge] at hmem ⊢
    tauto
  cases hG : findFn? groupingFns.reverse n with
  | some g =>
    rw [hG] at hf
    simp only [Option.some_or, Option.some.injEq, reduceCtorEq, false_imp_iff, and_true] at hf ⊢
    intro f' hf'; rw [← hf, ← hf']
  | none =>
    rw [hG] at hf
    simp only [Option.none_or] at hf ⊢
    cases hA : findFn? grp.reverse n with
    | some fa =>
      rw [hA] at hf
      simp only [Option.some_or, Option.some.injEq] at hf
      subst hf
      obtain ⟨hmem, hname⟩ := findFn?_some hA
      rw [List.mem_reverse] at hmem
      obtain ⟨s, hs, hfa⟩ := hg1 fa hmem
      rw [hname] at hs hfa
      cases hA' : findFn? grp'.reverse n with
      | some fa' =>
        simp only [Option.some_or, Option.some.injEq, reduceCtorEq, false_imp_iff, and_true]
        rintro f' rfl
        obtain ⟨hmem', hname'⟩ := findFn?_some hA'
        rw [List.mem_reverse] at hmem'
        obtain ⟨s', hs', hfa'⟩ := hg1' fa' hmem'
        rw [hname'] at hs' hfa'
        have := specOfName_agree hs hs'
        subst this
        rw [hfa] at hfa'
        cases hfa'; rfl
      | none =>
        simp only [Option.none_or]
        have hnone : specOfName (merge (merge tc rules) pid) T' dataCols gs n = none := by
          cases hs' : specOfName (merge (merge tc rules) pid) T' dataCols gs n with
          | none => rfl
          | some s' =>
            have := hg2' n s' hs'
            rw [findFn?_eq_none_iff, List.map_reverse, List.mem_reverse] at hA'
            exact absurd this hA'
        have honly := specOfName_only hs hnone
        have hu : lookupLast gs n = none := by
          cases hu : lookupLast gs n with
          | none => rfl
          | some s0 => unfold specOfName at hnone; rw [hu] at hnone; simp at hnone
        have hb := hbase s (Or.inl hs) hu
        rw [hb]
        simp only [reduceCtorEq, false_imp_iff, implies_true, true_and, forall_const]
        exact ⟨honly.1, honly.2.2.2.2, honly.2.2.1, pid, hpid, htc ▸ honly.2.1, htc ▸ honly.2.2.2.1⟩
    | none =>
      rw [hA] at hf
      simp only [Option.none_or] at hf
      cases hA' : findFn? grp'.reverse n with
      | some fa' =>
        exfalso
        obtain ⟨hmem', hname'⟩ := findFn?_some hA'
        rw [List.mem_reverse] at hmem'
        obtain ⟨s', hs', _⟩ := hg1' fa' hmem'
        rw [hname'] at hs'
        have hnone : specOfName (merge (merge tc rules) pid) T dataCols gs n = none := by
          cases hs : specOfName (merge (merge tc rules) pid) T dataCols gs n with
          | none => rfl
          | some s =>
            have := hg2 n s hs
            rw [findFn?_eq_none_iff, List.map_reverse, List.mem_reverse] at hA
            exact absurd this hA
        have hu : lookupLast gs n = none := by
          cases hu : lookupLast gs n with
          | none => rfl
          | some s0 => unfold specOfName at hnone; rw [hu] at hnone; simp at hnone
        have hb := hbase s' (Or.inr hs') hu
        rw [hb] at hf
        cases hf
      | none =>
        simp only [Option.none_or, hf, Option.some.injEq, reduceCtorEq, false_imp_iff, and_true]
        intro f' hf'; exact hf'

/-! ### `prepare` -/

theorem prepare_ok {ruleFns : List Fn} {gs : List (String × GroupSpec)}
    {ps : List (String × PidSpec)} {data : List (String × Column)} {targets : List String} {pr : Prep}
    (h : prepare ruleFns gs ps data targets = .ok pr) :
    ∃ raw all, typedData data = .ok raw ∧
      buildFunctions ruleFns gs ps targets (raw.map (·.1)) = .ok all ∧
      convertData raw (all.filter fun f => (raw.map (·.1)).contains f.name) = .ok pr.data ∧
      pr.fns = all.filter (fun f => !(raw.map (·.1)).contains f.name) ∧
      pr.dataCols = raw.map (·.1) := by
  unfold prepare at h
  obtain ⟨typed, htyped, h⟩ := bind_ok h
  obtain ⟨_, _, h⟩ := bind_ok h
  obtain ⟨all, hall, h⟩ := bind_ok h
  split at h
  · obtain ⟨_, h', _⟩ := bind_ok h
    cases h'
  · obtain ⟨conv, hconv, h⟩ := bind_ok h
    split at h
    · obtain ⟨_, h', _⟩ := bind_ok h
      cases h'
    · simp only [pure, Except.pure, Except.ok.injEq] at h
      subst h
      exact ⟨typed, all, htyped, hall, hconv, rfl, rfl⟩

theorem convertData_congr (data : List (String × Col)) (ov ov' : List Fn)
    (h : ∀ n ∈ data.map (·.1), (findFn? ov n).bind (·.ann) = (findFn? ov' n).bind (·.ann)) :
    convertData data ov = convertData data ov' := by
  unfold convertData
  apply Dag.mapM_congr_mem
  rintro ⟨n, c⟩ hnc
  have := h n (List.mem_map.2 ⟨(n, c), hnc, rfl⟩)
  simp only [this]

/-- Two successful preparations that differ only in the targets: same converted data, and the
functions taking part in the evaluation agree on every name they both define. -/
theorem prepare_targets {ruleFns : List Fn} {gs : List (String × GroupSpec)}
    {ps : List (String × PidSpec)} {data : List (String × Column)} {T T' : List String} {pr pr' : Prep}
    (h : prepare ruleFns gs ps data T = .ok pr) (h' : prepare ruleFns gs ps data T' = .ok pr') :
    pr.data = pr'.data ∧ pr.dataCols = pr'.dataCols ∧
    ∀ n f f', findFn? pr.fns n = some f → findFn? pr'.fns n = some f' → f = f' := by
  have hnd := prepare_targets_not_data h
  have hnd' := prepare_targets_not_data h'
  obtain ⟨raw, all, hraw, hall, hconv, hfns, hdc⟩ := prepare_ok h
  obtain ⟨raw', all', hraw', hall', hconv', hfns', hdc'⟩ := prepare_ok h'
  rw [hraw] at hraw'
  cases hraw'
  have hnames := typedData_names hraw
  refine ⟨?_, by rw [hdc, hdc'], ?_⟩
  · rw [convertData_congr raw _ (all'.filter fun f => (raw.map (·.1)).contains f.name)] at hconv
    · exact Except.ok.inj (hconv.symm.trans hconv')
    · intro n hn
      rw [findFn?_filter_name (fun m => (raw.map (·.1)).contains m),
        findFn?_filter_name (fun m => (raw.map (·.1)).contains m)]
      have hc : (raw.map (·.1)).contains n = true := by simpa using hn
      simp only [hc, if_true]
      cases hf : findFn? all n with
      | some f =>
        obtain ⟨h1, h2⟩ := buildFunctions_targets hall hall' n f hf
        cases hf' : findFn? all' n with
        | some f' => rw [h1 f' hf']
        | none => exact absurd (hnames ▸ hn) (hnd n (h2 hf').1)
      | none =>
        cases hf' : findFn? all' n with
        | some f' =>
          obtain ⟨_, h2⟩ := buildFunctions_targets hall' hall n f' hf'
          exact absurd (hnames ▸ hn) (hnd' n (h2 hf).1)
        | none => rfl
  · intro n f f' hf hf'
    rw [hfns, findFn?_filter_name (fun m => !(raw.map (·.1)).contains m)] at hf
    rw [hfns', findFn?_filter_name (fun m => !(raw.map (·.1)).contains m)] at hf'
    cases hc : (!(raw.map (·.1)).contains n) with
    | false => rw [hc] at hf; simp at hf
    | true =>
      rw [hc] at hf hf'
      simp only [if_true] at hf hf'
      exact (buildFunctions_targets hall hall' n f hf).1 f' hf'

theorem prepare_fns_nodup {ruleFns : List Fn} {gs : List (String × GroupSpec)}
    {ps : List (String × PidSpec)} {data : List (String × Column)} {targets : List String} {pr : Prep}
    (h : prepare ruleFns gs ps data targets = .ok pr) : (pr.fns.map (·.name)).Nodup := by
  obtain ⟨raw, all, _, hall, _, hfns, _⟩ := prepare_ok h
  rw [hfns]
  exact nodup_filter_names _ _ (buildFunctions_nodup hall)

/-! ### `plan` -/

/-- the step function of `_add_rounding_to_functions` -/
def specStep (params : List (String × Val)) (f : Fn) : Except Err (Option (String × RSpec)) :=
  match f.kind with
  | .rule _ _ (some key) => do pure (some (f.name, ← roundingSpecOf params key f.name))
  | _ => pure none

theorem plan_ok {params : List (String × Val)} {targets : List String} {pr : Prep} {p : Plan}
    (h : plan params targets pr = .ok p) :
    ∃ (nn pn : List String) (specs : List (String × RSpec)),
      (pr.fns.filter fun f => nn.contains f.name).filterMapM (specStep params) = .ok specs ∧
      p.sys = ((pr.fns.filter fun f => nn.contains f.name).filter fun f => pn.contains f.name).map
        (fun f => (f.name, nodeOf params specs f)) ∧
      p.data = pr.data ∧ p.nRows = (pr.data.head?.map (·.2.vals.length)).getD 0 := by
  unfold plan at h
  simp only at h
  split at h
  · obtain ⟨_, h', _⟩ := bind_ok h
    cases h'
  · obtain ⟨specs, hspecs, h⟩ := bind_ok h
    split at h
    · obtain ⟨_, h', _⟩ := bind_ok h
      cases h'
    · simp only [pure, Except.pure, Except.ok.injEq] at h
      subst h
      exact ⟨_, _, specs, hspecs, rfl, rfl, rfl⟩

/-- the rounding spec of a function, looked up on demand (`none` also when the look-up fails) -/
def lazySpec (params : List (String × Val)) (f : Fn) : Option RSpec :=
  match f.kind with
  | .rule _ _ (some key) => (roundingSpecOf params key f.name).toOption
  | _ => none

theorem specStep_ok {params : List (String × Val)} {f : Fn} {o : Option (String × RSpec)}
    (h : specStep params f = .ok o) :
    o.map (·.2) = lazySpec params f ∧ ∀ e, o = some e → e.1 = f.name := by
  unfold specStep at h
  unfold lazySpec
  split at h
  · obtain ⟨s, hs, h⟩ := bind_ok h
    simp only [pure, Except.pure, Except.ok.injEq] at h
    subst h
    rw [hs]
    simp [Except.toOption]
  · simp only [pure, Except.pure, Except.ok.injEq] at h
    subst h
    simp

theorem filterMapM_specStep {params : List (String × Val)} {L : List Fn} {specs : List (String × RSpec)}
    (h : L.filterMapM (specStep params) = .ok specs) :
    (∀ x ∈ specs.map (·.1), x ∈ L.map (·.name)) ∧
    ((L.map (·.name)).Nodup → ∀ f ∈ L, find? specs f.name = lazySpec params f) := by
  induction L generalizing specs with
  | nil =>
    simp only [List.filterMapM_nil, pure, Except.pure, Except.ok.injEq] at h
    subst h
    simp
  | cons g L ih =>
    rw [List.filterMapM_cons] at h
    obtain ⟨o, ho, h⟩ := bind_ok h
    obtain ⟨hlazy, hname⟩ := specStep_ok ho
    cases o with
    | none =>
      simp only at h
      obtain ⟨ih1, ih2⟩ := ih h
      refine ⟨fun x hx => List.mem_cons_of_mem _ (ih1 x hx), ?_⟩
      intro hnd f hf
      rw [List.map_cons, List.nodup_cons] at hnd
      rcases List.mem_cons.1 hf with rfl | hf
      · rw [← hlazy]
        simp only [Option.map_none]
        unfold find?
        rw [Dag.find?_eq_none_iff]
        exact fun hx => hnd.1 (ih1 _ hx)
      · exact ih2 hnd.2 f hf
    | some e =>
      simp only at h
      obtain ⟨rest, hrest, h⟩ := bind_ok h
      simp only [pure, Except.pure, Except.ok.injEq] at h
      subst h
      obtain ⟨ih1, ih2⟩ := ih hrest
      have he := hname e rfl
      obtain ⟨en, es⟩ := e
      simp only at he
      subst he
      refine ⟨?_, ?_⟩
      · intro x hx
        rcases List.mem_cons.1 hx with rfl | hx
        · exact List.mem_cons_self
        · exact List.mem_cons_of_mem _ (ih1 x hx)
      · intro hnd f hf
        rw [List.map_cons, List.nodup_cons] at hnd
        rcases List.mem_cons.1 hf with rfl | hf
        · rw [← hlazy]
          unfold find?
          rw [Dag.find?_cons_self]
          rfl
        · have hne : g.name ≠ f.name := fun h => hnd.1 (h ▸ List.mem_map.2 ⟨f, hf, rfl⟩)
          unfold find?
          rw [Dag.find?_cons_ne _ _ hne]
          exact ih2 hnd.2 f hf


/-- the DAG node of a function with its rounding spec looked up on demand -/
def nodeLazy (params : List (String × Val)) (f : Fn) : Dag.Node Col :=
  nodeOf params (match lazySpec params f with | some s => [(f.name, s)] | none => []) f

/-- the UNPRUNED concrete system: one node for every function that is not overridden by data -/
def fullSys (params : List (String × Val)) (fns : List Fn) : Dag.Sys Col :=
  fns.map fun f => (f.name, nodeLazy params f)

theorem nodeOf_congr {params : List (String × Val)} {specs specs' : List (String × RSpec)} {f : Fn}
    (h : find? specs f.name = find? specs' f.name) : nodeOf params specs f = nodeOf params specs' f := by
  unfold nodeOf
  rw [h]

theorem nodeOf_eq_lazy {params : List (String × Val)} {specs : List (String × RSpec)} {f : Fn}
    (h : find? specs f.name = lazySpec params f) : nodeOf params specs f = nodeLazy params f := by
  unfold nodeLazy
  apply nodeOf_congr
  rw [h]
  cases lazySpec params f with
  | none => rfl
  | some s => simp [find?, Dag.find?_cons_self]

theorem find?_map_fns {β : Type} (g : Fn → β) (L : List Fn) (x : String) :
    find? (L.map fun f => (f.name, g f)) x = (findFn? L x).map g := by
  unfold find?
  induction L with
  | nil => rfl
  | cons a L ih =>
    rw [List.map_cons, Dag.find?_cons, findFn?_cons, ih]
    by_cases h : a.name = x <;> simp [h]

theorem plan_sys_find {params : List (String × Val)} {targets : List String} {pr : Prep} {p : Plan}
    (hnd : (pr.fns.map (·.name)).Nodup) (h : plan params targets pr = .ok p) {x : String}
    {nd : Dag.Node Col} (hx : find? p.sys x = some nd) :
    ∃ f, findFn? pr.fns x = some f ∧ nd = nodeLazy params f := by
  obtain ⟨nn, pn, specs, hspecs, hsys, _, _⟩ := plan_ok h
  rw [hsys, find?_map_fns] at hx
  cases hf : findFn? ((pr.fns.filter fun f => nn.contains f.name).filter fun f => pn.contains f.name) x with
  | none => rw [hf] at hx; cases hx
  | some f =>
    rw [hf] at hx
    simp only [Option.map_some, Option.some.injEq] at hx
    rw [findFn?_filter_name (fun m => pn.contains m)] at hf
    cases hpn : pn.contains x with
    | false => rw [hpn] at hf; simp at hf
    | true =>
      rw [hpn] at hf
      simp only [if_true] at hf
      have hmem := (findFn?_some hf).1
      have hname := (findFn?_some hf).2
      rw [findFn?_filter_name (fun m => nn.contains m)] at hf
      cases hnn : nn.contains x with
      | false => rw [hnn] at hf; simp at hf
      | true =>
        rw [hnn] at hf
        simp only [if_true] at hf
        refine ⟨f, hf, ?_⟩
        rw [← hx]
        apply nodeOf_eq_lazy
        exact (filterMapM_specStep hspecs).2 (nodup_filter_names _ _ hnd) f hmem

theorem plan_sub_full {params : List (String × Val)} {targets : List String} {pr : Prep} {p : Plan}
    (hnd : (pr.fns.map (·.name)).Nodup) (h : plan params targets pr = .ok p) :
    Dag.SubSys p.sys (fullSys params pr.fns) := by
  intro x nd hx
  obtain ⟨f, hf, rfl⟩ := plan_sys_find hnd h hx
  refine ⟨nodeLazy params f, ?_, rfl, fun _ => rfl⟩
  have := find?_map_fns (nodeLazy params) pr.fns x
  unfold find? at this
  unfold fullSys
  rw [this, hf]
  rfl

/-! ### `exec` -/

theorem mapM_pair_find {β : Type} (g : String → Except Err β) :
    ∀ (l : List String) (out : List (String × β)),
      l.mapM (fun t => do pure (t, ← g t)) = .ok out → ∀ t ∈ l, ∃ v, g t = .ok v ∧ find? out t = some v := by
  intro l
  induction l with
  | nil => intro out _ t ht; cases ht
  | cons a l ih =>
    intro out h t ht
    rw [List.mapM_cons] at h
    obtain ⟨p, hp, h⟩ := bind_ok h
    obtain ⟨rest, hrest, h⟩ := bind_ok h
    obtain ⟨v, hv, hp⟩ := bind_ok hp
    simp only [pure, Except.pure, Except.ok.injEq] at h hp
    subst h; subst hp
    by_cases hat : a = t
    · subst hat
      exact ⟨v, hv, by unfold find?; rw [Dag.find?_cons_self]⟩
    · have ht' : t ∈ l := by
        rcases List.mem_cons.1 ht with h | h
        · exact absurd h.symm hat
        · exact h
      obtain ⟨w, hw, hfind⟩ := ih rest hrest t ht'
      exact ⟨w, hw, by unfold find? at hfind ⊢; rw [Dag.find?_cons_ne _ _ hat]; exact hfind⟩


end GV.Simulate
