import GettsimVerif.Lemmas.TypeInfer
import GettsimVerif.Props.C03
import GettsimVerif.Core.Simulate
import GettsimVerif.Core.ArrSem
/-
C03 (types) — a verified result-KIND analysis for the rule language: "the column's data type
follows the rule's declared result type … so no value is truncated or coerced".

Every rule has a declared result type (`float`, `int` or `bool`); the vectorising wrapper
`numpy.vectorize(f, otypes=[declared])` casts every returned scalar to it (`VecDtype.cast`).
`tyFun argKinds f` (defined in `Core/TypeInfer.lean`) computes a set of kinds
(`int`, `flt`, `bool`, `inf`, `str`, `tree`, `none`) that contains the kind of EVERY value the
rule `f` can return for arguments of the kinds `argKinds`; `losslessFor declared kinds` checks
that the cast to the declared type leaves every value of these kinds unchanged
(`float` ← int, float, bool, ±inf;  `int` ← int, bool;  `bool` ← bool).

All statements are of the partial-correctness kind: IF the evaluation in the model succeeds with
value `v`, THEN `kindOf v` is in the computed set.  Constructs the model cannot evaluate
(`mcall`, `opaque`, unknown builtins, `other` statements) always raise there and therefore
contribute no kind; `unmodelledB f.body = false` says that a rule contains none of them.
-/
namespace GV.TypeInfer
open GV.Lang

/-! ### 1: expressions, blocks, functions -/

/-- Expression soundness.  `EnvOK Γ env`: every value bound in the environment `env` has one of
the kinds `Γ` lists for its name.  Then the value of any expression of the rule language (Python
arithmetic incl. `True + True = 2`, `/` always float, `±inf`, `and`/`or` returning an operand,
`max`/`min`/`float`/`abs`/`piecewise_polynomial`, subscripts into parameter trees, …) has one
of the kinds `tyExpr Γ e`. -/
theorem tyExpr_sound {Γ : TEnv} {env : Env} {e : Expr} {v : Val}
    (h : EnvOK Γ env) (he : evalExpr env e = .ok v) : kindOf v ∈ tyExpr Γ e :=
  tyExpr_ok e Γ env v h (kOK_nil env) he

/-- The same with KNOWN parameter trees: `KOK K env` says that the names listed in `K` are bound
in `env` to exactly the listed values (the parameter dictionaries of one policy date).  A
subscript chain `params["a"]["b"]` into a known tree is then looked up instead of being
approximated by "whatever a parameter can be", and `params["staffel"][n]` with an unknown `n`
by the kinds of the components of `params["staffel"]` (`kSet`). -/
theorem tyExprK_sound {K : Env} {Γ : TEnv} {env : Env} {e : Expr} {v : Val}
    (h : EnvOK Γ env) (hK : KOK K env) (he : evalExpr env e = .ok v) :
    kindOf v ∈ tyExprK K Γ e :=
  tyExpr_ok e Γ env v h hK he

/-- Block soundness: a value returned by a `return` inside the block has one of the kinds
`(tyBlock Γ b).ret`; if the block ends without `return`, the analysis says so (`falls`) and
its final kind environment describes the final environment (assignments, augmented
assignments, `if`/`else` with the union of both branches). -/
theorem tyBlock_sound {Γ : TEnv} {b : List Stmt} {env env' : Env} {r : Option Val}
    (h : EnvOK Γ env) (hb : execBlock env b = .ok (env', r)) :
    match r with
    | some v => kindOf v ∈ (tyBlock Γ b).ret
    | none => (tyBlock Γ b).falls = true ∧ EnvOK (tyBlock Γ b).env env' := by
  cases r <;> exact tyBlock_ok b Γ env env' _ h (kOK_nil env) (fun n v hn => by cases hn) hb

/-- Block soundness with known parameter trees; the block must not assign to a name listed in
`K` (`NoAssignB`, checked by `tyFunK` via `assignedB`). -/
theorem tyBlockK_sound {K : Env} {Γ : TEnv} {b : List Stmt} {env env' : Env} {r : Option Val}
    (h : EnvOK Γ env) (hK : KOK K env) (hna : NoAssignB K b)
    (hb : execBlock env b = .ok (env', r)) :
    match r with
    | some v => kindOf v ∈ (tyBlockK K Γ b).ret
    | none => (tyBlockK K Γ b).falls = true ∧ EnvOK (tyBlockK K Γ b).env env' := by
  cases r <;> exact tyBlock_ok b Γ env env' _ h hK hna hb

/-- Function soundness.  `ArgsOK argKinds args`: there is one kind set per argument and the
`i`-th argument value has one of the kinds `argKinds[i]`.  Then whatever the rule returns
(including `None` when it falls off its end) has one of the kinds `tyFun argKinds f`. -/
theorem tyFun_sound {argKinds : List KindSet} {f : FunDef} {args : List Val} {v : Val}
    (ha : ArgsOK argKinds args) (h : runFun f args = .ok v) : kindOf v ∈ tyFun argKinds f :=
  tyFun_ok ha (kOK_nil _) h

/-- Function soundness with known parameter trees: the arguments named in `K` are passed
exactly the values listed in `K` (hypothesis `KOK K (f.args.zip args)`). -/
theorem tyFunK_sound {K : Env} {argKinds : List KindSet} {f : FunDef} {args : List Val} {v : Val}
    (ha : ArgsOK argKinds args) (hK : KOK K (f.args.zip args)) (h : runFun f args = .ok v) :
    kindOf v ∈ tyFunK K argKinds f :=
  tyFun_ok ha hK h

/-- If the analysis reports `falls_off = false`, every successful run of the rule ended in an
explicit `return` (the rule never returns `None` by running off its end). -/
theorem falls_off_sound {K : Env} {argKinds : List KindSet} {f : FunDef} {args : List Val}
    {env' : Env} {r : Option Val} (ha : ArgsOK argKinds args) (hK : KOK K (f.args.zip args))
    (hf : (tyFunResK K argKinds f).falls = false)
    (h : execBlock (f.args.zip args) f.body = .ok (env', r)) : ∃ v, r = some v := by
  cases r with
  | some v => exact ⟨v, rfl⟩
  | none =>
    rw [tyFunRes_falls ha hK h] at hf
    cases hf

/-- A statement changes only the names it assigns to (this is why the known parameter values
stay valid throughout a body that never assigns to them). -/
theorem execBlock_frame_sound {n : String} {b : List Stmt} {env env' : Env} {r : Option Val}
    (h : execBlock env b = .ok (env', r)) (hn : assignedB n b = false) :
    env'.get? n = env.get? n :=
  execBlock_frame n b env env' r h hn

/-! ### 2: the declared result type -/

/-- `losslessFor` is exactly "every possible result kind is accepted by the declared type". -/
theorem losslessFor_iff {d : Kind} {s : KindSet} :
    losslessFor d s = true ↔ ∀ k, k ∈ s → k ∈ accepted d :=
  ⟨fun h _ hk => KindSet.subset_sound h hk, KindSet.subset_complete⟩

/-- our `toR?` is the conversion the end-to-end model uses for rule results -/
theorem toR?_eq_valToR (v : Val) : toR? v = GV.Simulate.valToR v := by
  cases v <;> rfl

/-- A value of an accepted kind survives the cast: it is either `±inf` in a float column (numpy
keeps `±inf` in `float64`; outside `Core/VecDtype`, which has exact rationals only), or it is a
`bool`/`int`/`float` result `r` and the numpy cast to the declared dtype keeps its numeric value
(`VecDtype.losslessFor`: `numOf (cast t r) = numOf r`). -/
theorem accepted_cast_lossless {d : Kind} {v : Val} (h : kindOf v ∈ accepted d) :
    (d = .flt ∧ ∃ n, v = .inf n) ∨
    ∃ t r, d.toDT? = some t ∧ toR? v = some r ∧ VecDtype.losslessFor t r = true := by
  have hib : ∀ b : Bool, VecDtype.losslessFor .int (.b b) = true := by decide +kernel
  cases d <;> cases v <;> first
    | exact Or.inl ⟨rfl, _, rfl⟩
    | exact Or.inr ⟨_, _, rfl, rfl, VecDtype.lossless_float _⟩
    | exact Or.inr ⟨_, _, rfl, rfl, VecDtype.lossless_of_typed _ _ rfl⟩
    | exact Or.inr ⟨_, _, rfl, rfl, hib _⟩
    | cases h

/-- … and a value of an accepted kind that already has the declared type is not touched at
all. -/
theorem accepted_cast_id {d : Kind} {v : Val} {t : VecDtype.DT} {r : VecDtype.R}
    (hd : d.toDT? = some t) (hr : toR? v = some r) (hk : kindOf v = d) :
    VecDtype.cast t r = r := by
  subst hk
  cases v <;> cases hd <;> cases hr <;> rfl

/-- C03 for one rule, for ALL inputs: if `losslessFor d (tyFun argKinds f)` holds for the
declared type `d`, then for every argument tuple of the kinds `argKinds` the value `v` the rule
returns is `±inf` in a float column or a `bool`/`int`/`float` whose cast to the declared dtype
has the same numeric value — no value is truncated or coerced. -/
theorem declared_cast_lossless {d : Kind} {argKinds : List KindSet} {f : FunDef}
    {args : List Val} {v : Val} (hl : losslessFor d (tyFun argKinds f) = true)
    (ha : ArgsOK argKinds args) (h : runFun f args = .ok v) :
    (d = .flt ∧ ∃ n, v = .inf n) ∨
    ∃ t r, d.toDT? = some t ∧ toR? v = some r ∧ VecDtype.losslessFor t r = true :=
  accepted_cast_lossless (KindSet.subset_sound hl (tyFun_sound ha h))

/-- The same for one policy date: the parameter arguments have the known values `K`, all other
arguments are arbitrary values of the kinds `argKinds`. -/
theorem declared_cast_losslessK {K : Env} {d : Kind} {argKinds : List KindSet} {f : FunDef}
    {args : List Val} {v : Val} (hl : losslessFor d (tyFunK K argKinds f) = true)
    (ha : ArgsOK argKinds args) (hK : KOK K (f.args.zip args)) (h : runFun f args = .ok v) :
    (d = .flt ∧ ∃ n, v = .inf n) ∨
    ∃ t r, d.toDT? = some t ∧ toR? v = some r ∧ VecDtype.losslessFor t r = true :=
  accepted_cast_lossless (KindSet.subset_sound hl (tyFunK_sound ha hK h))

/-- The column form, connected with `VecDtype.vecDeclared` (= `numpy.vectorize(f, otypes=[t])`,
`Props/C03.lean`): if the rule passes the check, then for every data set (`rows` = the argument
tuples, `rs` = the rule's finite results) the numeric values of the output column are exactly
the numeric values the rule returned. -/
theorem declared_column_lossless {K : Env} {d : Kind} {t : VecDtype.DT}
    {argKinds : List KindSet} {f : FunDef} (hl : losslessFor d (tyFunK K argKinds f) = true)
    (hd : d.toDT? = some t) {rows : List (List Val)} {rs : List VecDtype.R}
    (h : List.Forall₂ (fun args r => ArgsOK argKinds args ∧ KOK K (f.args.zip args) ∧
      ∃ v, runFun f args = .ok v ∧ toR? v = some r) rows rs) :
    (VecDtype.vecDeclared t rs).2.map VecDtype.numOf = rs.map VecDtype.numOf := by
  refine VecDtype.declared_lossless t rs (fun r hr => ?_)
  obtain ⟨args, _, ha, hK, v, hv, hvr⟩ := GV.Sign.forall₂_mem_left h.flip r hr
  rcases declared_cast_losslessK hl ha hK hv with ⟨_, n, rfl⟩ | ⟨t', r', ht', hr', hll⟩
  · cases hvr
  · rw [hd] at ht'
    rw [hvr] at hr'
    cases ht'
    cases hr'
    exact hll

/-! ### 3: examples (non-vacuity) -/

open Mini

-- a float rule returning an `int` literal in one branch: kinds {int, flt}, accepted
example : (tyFun [.single .flt] floatRule).toList = [.int, .flt] := by decide
example : losslessFor .flt (tyFun [.single .flt] floatRule) = true := by decide
example : ArgsOK [.single .flt] [.flt 3] := .cons (by decide) .nil
example : runFun floatRule [.flt 3] = .ok (.int 0) := by decide +kernel
example : runFun floatRule [.flt (-3)] = .ok (.flt (-3 / 2)) := by decide +kernel
-- … the conclusion of `declared_cast_lossless` for that run, obtained from the theorem
example : ∃ t r, Kind.flt.toDT? = some t ∧ toR? (.int 0) = some r ∧
    VecDtype.losslessFor t r = true := by
  have h := declared_cast_lossless (d := .flt) (argKinds := [.single .flt]) (f := floatRule)
    (args := [.flt 3]) (v := .int 0) (by decide) (.cons (by decide) .nil) (by decide +kernel)
  rcases h with ⟨_, n, hn⟩ | h
  · cases hn
  · exact h
-- for `int` arguments as well (`x * 0.5` is a float whatever `x` is)
example : losslessFor .flt (tyFun [.ofList [.int, .flt, .bool]] floatRule) = true := by decide

-- an int rule returning `x / 2`: kinds {flt}, rejected — and rightly so: for `x = 3` the rule
-- returns `1.5`, the cast to `int` gives `1`
example : (tyFun [.single .int] intRule).toList = [.flt] := by decide
example : losslessFor .int (tyFun [.single .int] intRule) = false := by decide
example : runFun intRule [.int 3] = .ok (.flt (3 / 2)) := by decide +kernel
example : VecDtype.cast .int (.f (3 / 2)) = .i 1 ∧ VecDtype.losslessFor .int (.f (3 / 2)) = false := by
  decide +kernel
-- (declared `float` it would be fine)
example : losslessFor .flt (tyFun [.single .int] intRule) = true := by decide

-- a bool rule returning `a and b`: a bool for bool arguments, accepted …
example : (tyFun [.single .bool, .single .bool] boolRule).toList = [.bool] := by decide
example : losslessFor .bool (tyFun [.single .bool, .single .bool] boolRule) = true := by decide
example : runFun boolRule [.bool true, .bool false] = .ok (.bool false) := by decide +kernel
-- … but `a and b` returns an OPERAND: with a float `b` the rule returns a float
example : losslessFor .bool (tyFun [.single .bool, .single .flt] boolRule) = false := by decide
example : runFun boolRule [.bool true, .flt (1 / 2)] = .ok (.flt (1 / 2)) := by decide +kernel

-- a rule that falls off its end returns `None`: reported, never lossless
example : (tyFunRes [.single .flt, .single .tree] fallRule).falls = true := by decide
example : (tyFun [.single .flt, .single .tree] fallRule).toList = [.none] := by decide
example : losslessFor .flt (tyFun [.single .flt, .single .tree] fallRule) = false := by decide
example : (tyFunRes [.single .flt] floatRule).falls = false := by decide

-- arithmetic filters what a parameter subscript can be; a bare subscript does not
example : (tyExpr [("x", .single .flt), ("p", .single .tree)]
    (.bin .mul (.name "x") (.sub (.name "p") (.const (.str "satz"))))).toList = [.flt, .inf] := by
  decide
example : (tyExpr [("p", .single .tree)] (.sub (.name "p") (.const (.str "satz")))).toList =
    [.flt, .bool, .inf, .str, .tree, .none] := by decide
example : EnvOK [("x", .single .flt)] [("x", .flt 2)] := by
  intro n v h
  simp only [Env.get?] at h
  split at h
  · cases h; rename_i hn; subst hn; decide
  · cases h

-- `True + True` is the int `2`
example : (tyExpr [] (.bin .add (.const (.bool true)) (.const (.bool true)))).toList = [.int] := by
  decide
example : evalExpr [] (.bin .add (.const (.bool true)) (.const (.bool true))) = .ok (.int 2) := by
  decide +kernel

-- `declared_column_lossless`: a two-row data set for the float rule
example : List.Forall₂ (fun args r => ArgsOK [.single .flt] args ∧
    KOK [] (floatRule.args.zip args) ∧ ∃ v, runFun floatRule args = .ok v ∧ toR? v = some r)
    [[.flt 3], [.flt (-3)]] [.i 0, .f (-3 / 2)] :=
  .cons ⟨.cons (by decide) .nil, kOK_nil _, .int 0, by decide +kernel, rfl⟩
    (.cons ⟨.cons (by decide) .nil, kOK_nil _, .flt (-3 / 2), by decide +kernel, rfl⟩ .nil)

-- known parameter trees: a bare parameter is a float for THIS tree (not known in general) …
example : losslessFor .flt (tyFun [.single .flt, .single .tree] paramRule) = false := by decide
example : (tyFunK [("params", .tree params)] [.single .flt, .single .tree] paramRule).toList =
    [.flt] := by decide +kernel
example : losslessFor .flt
    (tyFunK [("params", .tree params)] [.single .flt, .single .tree] paramRule) = true := by
  decide +kernel
example : KOK [("params", .tree params)] (paramRule.args.zip [.flt 1, .tree params]) := by
  intro n v h
  simp only [Env.get?] at h
  split at h
  · cases h; rename_i hn; subst hn; rfl
  · cases h
example : runFun paramRule [.flt 1, .tree params] = .ok (.flt (146 / 1000)) := by decide +kernel
-- … a component selected by the data: any component of `params["staffel"]`
example : (tyFunK [("params", .tree params)] [.single .int, .single .tree] staffelRule).toList =
    [.flt] := by decide +kernel
example : runFun staffelRule [.int 2, .tree params] = .ok (.flt 500) := by decide +kernel
-- … two data-dependent subscripts: any component of any component of `params["tabelle"]`
example : (tyFunK [("params", .tree params)] [.single .int, .single .int, .single .tree]
    tabelleRule).toList = [.flt] := by decide +kernel
example : runFun tabelleRule [.int 1950, .int 2, .tree params] = .ok (.flt (721 / 12)) := by
  decide +kernel
example : kSet [("params", .tree params)]
    (.sub (.sub (.name "params") (.const (.str "tabelle"))) (.name "j")) =
    some [.tree (.dict [(.i 1, .num 60), (.i 2, .num (721 / 12))]),
          .tree (.dict [(.i 1, .num 61)])] := by decide +kernel
-- … and a rule that assigns to the parameter name loses the knowledge
example : usableK [("params", .tree params)] [.assign "params" (.const (.int 1))] = [] := by
  decide

-- constructs outside the model are flagged
example : unmodelledB floatRule.body = false := by decide
example : unmodelledB [.ret (.mcall "numpy.ceil" [.name "x"])] = true := by decide

end GV.TypeInfer
