import GettsimVerif.Lemmas.SimOverride
/-
Property C05 for the CONCRETE end-to-end model `GV.Simulate.simulate`
(`compute_taxes_and_transfers` for toy systems):

  "Any computable column may be supplied in the data instead; the supplied column is then used in
   place of its computation, and if its values equal what the system would have computed, every
   other result is unchanged."

The abstract version (`Props/C05.lean`, `Dag.override_equiv`) holds without side conditions. In the
concrete model (= in the Python code) the second half needs side conditions, because supplying a
column `n` changes more than the binding of `n`:

 (S) SHAPE. A result that is a scalar (0-d array of a rule with parameters only, numpy scalar after
     a time conversion / rounding of such a rule, Python number of a rule without arguments) comes
     back from the result frame as an ordinary column; a consumer that receives a numpy scalar
     computes with numpy semantics (`True + True` is `True`), with a column it computes with
     Python semantics (`True + True == 2`): `FeedBack.cexScalar`.
 (T) TYPE. `_convert_data_to_correct_types` converts the supplied column to
     `TYPES_INPUT_VARIABLES[n]` or to the return annotation of the function it overrides; if this is
     not the dtype the function really produced (an `int` rule with rounding returns floats, a rule
     without arguments is not cast at all, a rule named like an input variable of another type),
     consumers see another dtype: `FeedBack.cexRounded`, `cexZeroArg`, `cexInputVar`.
     (A rule WITHOUT annotation is harmless: pandas infers the dtype back, `FeedBack.okNoAnn`.)
 (F) FUNCTION SET. `load_and_check_functions` derives functions from the NAMES of the data columns:
     time conversions of a data column are created last and win over those derived from
     functions (`cexLastSource`), even over a p_id aggregation of that name (`cexPidShadow`); a
     p_id aggregation whose source is neither a rule, a data column nor a time conversion of a
     data column is silently dropped and appears when the source (`cexPidAppears`) or the column
     its source is converted from (`cexPidDerived`) is supplied; an automatic group sum of the supplied
     column appears and, if a data column of that name exists, changes the conversion of THAT
     column (`cexGroupSum`).
 (E) EMPTY TABLE (convenience only): an empty int/bool column comes back as an empty float column.

`simulate_feed_back_gen` proves the property under (S), (T), (F), (E) stated semantically;
`simulate_feed_back_checked` bundles them into one computable check; `simulate_feed_back_compat`
weakens (F) to agreement of the two function sets on their common names; each of (S), (T), (F) is shown
to be indispensable by a counterexample in which all the other conditions hold.
`simulate_supplied_is_used` is the first half: the body of an overridden rule is irrelevant.
-/
namespace GV.Simulate
open GV.Lang (Val)

/-- **Feeding a computed column back as data does not change another target (general form).**
Run the system for the targets `n` and `t`, take the reported column `c` of `n`, add it to the
data under the name `n` and run again for `t`: the column of `t` is exactly the same, provided
* (S) the value `v` of `n` in the first run (`ov_value`: the typed column before it is put into the
  result frame) is a 1-d array, not a scalar,
* (E) the table is not empty,
* (T) the internal type to which the second run converts the supplied column (`ov_convTy`:
  `TYPES_INPUT_VARIABLES[n]`, else the return annotation of the function `n`), if there is one, is
  the dtype of `v`,
* (F) the set of functions built by `load_and_check_functions` for the target `t` is the same with
  and without a data column called `n` (`ov_fnsStable`, a computable check).
`n` may be ANY function (rule, time conversion, aggregation, group id), with or without return
annotation. No assumption `n ≠ t` or `n ∉ data` is needed: in these cases one of the two runs fails
(`simulate_target_in_data_errors`). -/
theorem simulate_feed_back_gen (inp : Input) (n t : String) (tbl tbl' : Table) (c : Column) (v : Col)
    (h : simulate { inp with targets := [n, t] } = .ok tbl) (hc : find? tbl n = some c)
    (h' : simulate { inp with targets := [t], data := inp.data ++ [(n, c)] } = .ok tbl')
    (hv : ov_value { inp with targets := [n, t] } n = .ok v)
    (hshape : v.shape = .arr) (hne : c ≠ [])
    (hty : ∀ ty, ov_convTy { inp with targets := [t], data := inp.data ++ [(n, c)] } n = some ty →
      ty.toDT = v.dt)
    (hfs : ov_fnsStable { inp with targets := [t] } n = true) :
    find? tbl' t = find? tbl t :=
  ov_feed_back inp n t tbl tbl' c v h hc h' hv hshape (Or.inl hne) hty hfs

/-- **The same with all side conditions bundled into one computable check** `ov_feedHyps inp n t`
(value of `n` is a non-empty 1-d array whose dtype is the conversion type, if any, and the function
set is stable). -/
theorem simulate_feed_back_checked (inp : Input) (n t : String) (tbl tbl' : Table) (c : Column)
    (hyps : ov_feedHyps inp n t = true)
    (h : simulate { inp with targets := [n, t] } = .ok tbl) (hc : find? tbl n = some c)
    (h' : simulate { inp with targets := [t], data := inp.data ++ [(n, c)] } = .ok tbl') :
    find? tbl' t = find? tbl t :=
  ov_feed_back_checked inp n t tbl tbl' c hyps h hc h'

/-- **Feeding back with a weaker condition on the function set.** The same conclusion if (F) is
replaced by the weaker computable condition `ov_fnsCompat inp n t`: with and without the data
column `n` (target `t`) `load_and_check_functions` succeeds, `t` is a function, every function
that exists in both sets and is not overridden has the same name, parameters, annotation and kind,
and the functions overridden by the OLD data columns have the same annotations. New functions may
appear (e.g. the time conversions `a_y_hh`, … of a supplied `a_m_hh`). -/
theorem simulate_feed_back_compat (inp : Input) (n t : String) (tbl tbl' : Table) (c : Column) (v : Col)
    (h : simulate { inp with targets := [n, t] } = .ok tbl) (hc : find? tbl n = some c)
    (h' : simulate { inp with targets := [t], data := inp.data ++ [(n, c)] } = .ok tbl')
    (hv : ov_value { inp with targets := [n, t] } n = .ok v)
    (hshape : v.shape = .arr) (hne : c ≠ [])
    (hty : ∀ ty, ov_convTy { inp with targets := [t], data := inp.data ++ [(n, c)] } n = some ty →
      ty.toDT = v.dt)
    (hfs : ov_fnsCompat inp n t = true) :
    find? tbl' t = find? tbl t :=
  ov_feed_back' inp n t tbl tbl' c v h hc h' hv hshape (Or.inl hne) hty hfs

/-- … bundled into one computable check `ov_feedHyps'` -/
theorem simulate_feed_back_compat_checked (inp : Input) (n t : String) (tbl tbl' : Table) (c : Column)
    (hyps : ov_feedHyps' inp n t = true)
    (h : simulate { inp with targets := [n, t] } = .ok tbl) (hc : find? tbl n = some c)
    (h' : simulate { inp with targets := [t], data := inp.data ++ [(n, c)] } = .ok tbl') :
    find? tbl' t = find? tbl t :=
  ov_feed_back_checked' inp n t tbl tbl' c hyps h hc h'

/- The requested full-strength statement

    theorem simulate_feed_back (inp : Input) (n t : String) (tbl tbl' : Table) (c : Column)
        (hn : n ≠ t) (hnd : n ∉ inp.data.map (·.1))
        (h  : simulate { inp with targets := [n, t] } = .ok tbl) (hc : find? tbl n = some c)
        (h' : simulate { inp with targets := [t], data := inp.data ++ [(n, c)] } = .ok tbl') :
        find? tbl' t = find? tbl t

is FALSE in the model: see `FeedBack.simulate_feed_back_false` below. -/

/-- **A supplied column is used in place of the computation.** If the data contain a column `n`,
the result (table or error) does not depend on the rules called `n` beyond their name, parameter
names and return annotation: replacing them by ANY other rules with the same name, parameters and
annotation (other body, other rounding key, other argument annotations) gives literally the same
outcome. (The parameter names and the annotation of an overridden rule DO matter in the real code:
automatic group sums and time conversions are created for / suppressed by its parameter names, and
the supplied column is converted to its return annotation.) -/
theorem simulate_supplied_is_used (inp : Input) (rules' : List Rule) (n : String)
    (hn : n ∈ inp.data.map (·.1))
    (hrel : List.Forall₂ (ov_sameButBody n) inp.rules rules') :
    simulate { inp with rules := rules' } = simulate inp := by
  unfold simulate
  simp only
  rw [← ov_run_blank n (rules'.map _) _ _ _ _ _ hn, ← ov_run_blank n (inp.rules.map _) _ _ _ _ _ hn,
    ov_blank_rules n inp.rounding hrel]

/-- **Every value of the concrete DAG is homogeneous**: all entries of a computed (or converted
data) column have the dtype of the column, whatever the kind of node. (This is why the dtype pandas
infers for a fed-back column is the dtype of the computed column.) -/
theorem simulate_values_typed (inp : Input) (x : String) (v : Col) (h : ov_value inp x = .ok v) :
    ∀ r ∈ v.vals, VecDtype.dtypeOf r = v.dt := by
  unfold ov_value at h
  obtain ⟨pr, hpr, h⟩ := bind_ok h
  exact ov_eval_typed hpr _ _ _ _ h

/-- **Reading a rendered column back.** A homogeneous, non-empty 1-d column that is written into
the result frame (`render`) and read back as a data column (`colOfData`: pandas' dtype inference)
is the same typed column; converting it to its own dtype is the identity. -/
theorem colOfData_render (k : Nat) (v : Col) (ht : ∀ r ∈ v.vals, VecDtype.dtypeOf r = v.dt)
    (hs : v.shape = .arr) (hne : v.vals ≠ []) (t : Ty) (hdt : t.toDT = v.dt) :
    colOfData (render k v) = .ok v ∧ convertCol t v = .ok v :=
  ⟨ov_colOfData_render ht hs (Or.inl hne), ov_convertCol_id hdt⟩

/-- **The computable stability check is sound**: if it succeeds, `load_and_check_functions`
returns the same `all_functions` (or the same error) with and without the data column `n`. -/
theorem fnsStable_sound (inp : Input) (n : String) (h : ov_fnsStable inp n = true) :
    buildFunctions (inp.rules.map (ruleFn inp.rounding)) inp.groupSpecs inp.pidSpecs
        (sortDedup inp.targets) (inp.data.map (·.1) ++ [n]) =
      buildFunctions (inp.rules.map (ruleFn inp.rounding)) inp.groupSpecs inp.pidSpecs
        (sortDedup inp.targets) (inp.data.map (·.1)) :=
  ov_fnsStable_spec inp n h

/-! ### non-vacuity and counterexamples -/

namespace FeedBack
open GV.Lang Examples

def d3 : List (String × Column) := [("p_id", I [0,1,2]), ("hh_id", I [0,0,1]), ("x", F [1, 5/2, 4])]

def mk (rules : List Rule) (params : List (String × Val) := []) (data := d3)
    (ps : List (String × PidSpec) := []) (gs : List (String × GroupSpec) := []) : Input :=
  { rules, params, data, targets := [], pidSpecs := ps, groupSpecs := gs }

/-- `a_m(x) = 2x`, `b(a_m) = a_m + 1` -/
def okSys : Input := mk [a_m, b]

/-- The hypotheses of `simulate_feed_back_checked` (hence of `simulate_feed_back_gen`) hold for
`n = a_m`, `t = b`, and also for the derived targets `t = a_y` (time conversion of the SUPPLIED
column in the second run) -/
example : ov_feedHyps okSys "a_m" "b" = true := by decide +kernel
example : ov_feedHyps okSys "a_m" "a_y" = true := by decide +kernel
/-- … both runs succeed and report `b = [3, 6, 9]` -/
example : (match ov_feedReport okSys "a_m" "b", simulate { okSys with targets := ["a_m", "b"] } with
    | some r, .ok tbl => r.sameResult && ov_shown tbl "b" == some ("float", ["3.000000", "6.000000", "9.000000"])
    | _, _ => false) = true := by decide +kernel

/-- a rule WITHOUT return annotation can be fed back: the dtype is inferred back from the values -/
def okNoAnn : Input :=
  mk [rule "na" ["x"] (mul (nm "x") (it 2)) none, rule "tna" ["na"] (nm "na") none]
example : ov_feedHyps okNoAnn "na" "tna" = true := by decide +kernel

/-- group ids can be fed back: `fg_id` as data, `bg_id` / `a_m_fg` recomputed from it -/
def okIds : Input := { rules := [a_m], data := d9, targets := [] }
example : ov_feedHyps okIds "fg_id" "bg_id" = true := by decide +kernel
example : ov_feedHyps okIds "fg_id" "a_m_fg" = true := by decide +kernel

/-- **(F) is necessary, 1**: rules `s_m(x) = x`, `s_y(x) = 100 x`. `s_w` is derived from the LAST
source (`s_y`); when `s_m` is supplied as data, the conversions of data columns are created after
those of functions, so `s_w` is now derived from `s_m`: shape, type, non-emptiness hold, the
function set changes, and the result differs. -/
def cexLastSource : Input :=
  mk [rule "s_m" ["x"] (nm "x") (some .float), rule "s_y" ["x"] (mul (nm "x") (it 100)) (some .float)]
example : ov_feedReport cexLastSource "s_m" "s_w" =
    some { shapeArr := true, nonEmpty := true, typeOk := true, fnsStable := false, sameResult := false } := by
  decide +kernel

/-- **(F) is necessary, 2**: a p_id aggregation called `a_y` and a rule `a_m`. The time conversion
`a_y` of a DATA column `a_m` is created although a function `a_y` exists, and wins over it. -/
def cexPidShadow : Input :=
  mk [a_m] [] (d3 ++ [("p_id_recv", I [-1, 0, 0])]) [("a_y", ⟨"p_id_recv", "x"⟩)]
example : ov_feedReport cexPidShadow "a_m" "a_y" =
    some { shapeArr := true, nonEmpty := true, typeOk := true, fnsStable := false, sameResult := false } := by
  decide +kernel

/-- **(F) is necessary, 3**: the p_id aggregation `b_y` of the automatic group sum `a_m_hh` is
silently dropped (its source is neither a rule, a data column nor derived from one), so `b_y` is the time conversion
of the rule `b_m`; with `a_m_hh` supplied, the aggregation exists and `b_y` is the aggregation. -/
def cexPidAppears : Input :=
  mk [a_m, rule "b_m" ["x"] (nm "x") (some .float)] [] (d3 ++ [("p_id_recv", I [-1, 0, 0])])
    [("b_y", ⟨"p_id_recv", "a_m_hh"⟩)]
example : ov_feedReport cexPidAppears "a_m_hh" "b_y" =
    some { shapeArr := true, nonEmpty := true, typeOk := true, fnsStable := false, sameResult := false } := by
  decide +kernel

/-- **(F) is necessary, 3b** (a consequence of the repaired rule "person-pointer aggregations accept
source columns that time conversions derive from DATA columns"): the source `a_y` of the p_id
aggregation `b_y` is the time conversion of the RULE `a_m`, so the spec is dropped and `b_y` is the
time conversion of `b_m`; with `a_m` supplied, `a_y` is derived from a data column, the spec is kept
and `b_y` is the aggregation. -/
def cexPidDerived : Input :=
  mk [a_m, rule "b_m" ["x"] (nm "x") (some .float)] [] (d3 ++ [("p_id_recv", I [-1, 0, 0])])
    [("b_y", ⟨"p_id_recv", "a_y"⟩)]
example : ov_feedReport cexPidDerived "a_m" "b_y" =
    some { shapeArr := true, nonEmpty := true, typeOk := true, fnsStable := false, sameResult := false } := by
  decide +kernel
example : ov_fnsCompat cexPidDerived "a_m" "b_y" = false := by decide +kernel

/-- regression examples for the two repaired defects. (1) An aggregation spec over an automatic
group sum (`mx_hh = max(a_m_hh)`) now works without requesting `a_m_hh`, and `a_m_hh` can be fed
back (hypotheses of `simulate_feed_back_compat_checked`). (2) A p_id aggregation whose source `a_y`
is derived from the data column `a_m` is created. -/
def okSpecSource : Input := { okSys with groupSpecs := [("mx_hh", ⟨.max, some "a_m_hh"⟩)] }
example : ((simulate { okSpecSource with targets := ["mx_hh"] }).toOption.bind (ov_shown · "mx_hh")) =
    some ("float", ["7.000000", "7.000000", "8.000000"]) := by decide +kernel
example : ov_feedHyps' okSpecSource "a_m_hh" "mx_hh" = true := by decide +kernel
def okPidDerived : Input :=
  { mk [] [] (d3 ++ [("p_id_recv", I [-1, 0, 0]), ("a_m", F [1, 2, 3])]) [("g", ⟨"p_id_recv", "a_y"⟩)] with
    targets := ["g"] }
example : ((simulate okPidDerived).toOption.bind (ov_shown · "g")) =
    some ("float", ["60.000000", "0.000000", "0.000000"]) := by decide +kernel

/-- **(F) is necessary, 4**: `bewohnt_eigentum_hh` (a user aggregation `any`) is supplied; the data
column `bewohnt_eigentum_hh_fg` now overrides a NEW automatic group sum of it and is therefore
converted from `bool` to `int` (the sum of the `bool` input variable `bewohnt_eigentum_hh`). -/
def cexGroupSum : Input :=
  mk [rule "beh" ["bewohnt_eigentum_hh_fg"] (nm "bewohnt_eigentum_hh_fg") none,
      rule "be" ["x"] (gt (nm "x") (it 2)) (some .bool)] []
    (d3 ++ [("fg_id", I [0,0,1]), ("bewohnt_eigentum_hh_fg", B [true, true, false])]) []
    [("bewohnt_eigentum_hh", ⟨.any, some "be"⟩)]
example : ov_feedReport cexGroupSum "bewohnt_eigentum_hh" "beh" =
    some { shapeArr := true, nonEmpty := true, typeOk := true, fnsStable := false, sameResult := false } := by
  decide +kernel

/-- **(T) is necessary, 1**: `ri(x) -> int` with a rounding key returns FLOATS (`base * ceil(…)`);
the supplied column is converted to the annotation `int`; a consumer without annotation then
returns ints instead of floats. -/
def cexRounded : Input :=
  mk [rule "ri" ["x"] (it 7) (some .int) (some "grp"), rule "tri" ["ri"] (nm "ri") none]
    (prmR [("ri", dict [("base", .num 2), ("direction", .str "up")])])
example : ov_feedReport cexRounded "ri" "tri" =
    some { shapeArr := true, nonEmpty := true, typeOk := false, fnsStable := true, sameResult := false } := by
  decide +kernel

/-- **(T) is necessary, 2**: a rule called like the input variable `alter` (`int`) that returns
floats: the supplied column is converted to `int`. -/
def cexInputVar : Input :=
  mk [rule "alter" ["x"] (mul (nm "x") (it 2)) (some .float), rule "talt" ["alter"] (nm "alter") none] []
    [("p_id", I [0,1,2]), ("hh_id", I [0,0,1]), ("x", F [1, 2, 4])]
example : ov_feedReport cexInputVar "alter" "talt" =
    some { shapeArr := true, nonEmpty := true, typeOk := false, fnsStable := true, sameResult := false } := by
  decide +kernel

/-- **(S) is necessary**: `pm_m` depends on parameters only (0-d array), `pm_y = pm_m * 12` is a
NUMPY scalar; the consumer `(pm_y > 1) + (pm_y > 2)` adds two `np.bool_` (= `or`, result 1); with
`pm_y` supplied as a column it adds two Python `bool`s (result 2). Type is fine. (The function set
also changes here, because `pm_y` has a time-unit name; see `cexScalarOnly`.) -/
def cexScalar : Input :=
  mk [pm_m, rule "tnp" ["pm_y"] (add (gt (nm "pm_y") (it 1)) (gt (nm "pm_y") (it 2))) (some .int)] p6
example : ov_feedReport cexScalar "pm_y" "tnp" =
    some { shapeArr := false, nonEmpty := true, typeOk := true, fnsStable := false, sameResult := false } := by
  decide +kernel

/-- **(S) is necessary, with ALL other conditions true**: the same with a rounded parameter-only
rule `pr` (no time-unit name): `base * ceil(out / base)` on a 0-d array is a numpy scalar. -/
def cexScalarOnly : Input :=
  mk [rule "pr" ["grp_params"] (idx (nm "grp_params") "c") (some .float) (some "grp"),
      rule "tnq" ["pr"] (add (gt (nm "pr") (it 1)) (gt (nm "pr") (it 2))) (some .int)]
    [("grp", .tree (dict [("c", .num (5/2)),
      ("rounding", dict [("pr", dict [("base", .num 1), ("direction", .str "up")])])]))]
example : ov_feedReport cexScalarOnly "pr" "tnq" =
    some { shapeArr := false, nonEmpty := true, typeOk := true, fnsStable := true, sameResult := false } := by
  decide +kernel

/-- a 0-d array (parameter-only rule WITHOUT rounding) is broadcast consistently in this example;
(S) is violated but the result is the same (no counterexample found for `arr0` with matching
dtype; the theorem nevertheless requires a 1-d array) -/
def scalarArr0 : Input := mk [const, rule "tc0" ["const"] (add (nm "const") (it 1)) none] p6
example : ov_feedReport scalarArr0 "const" "tc0" =
    some { shapeArr := false, nonEmpty := true, typeOk := true, fnsStable := true, sameResult := true } := by
  decide +kernel

/-- (S)+(T): a rule without arguments is not cast at all (`za() -> int` returns the float 3.0) -/
def cexZeroArg : Input := mk [rule "za" [] (fl 3) (some .int), rule "tza" ["za"] (nm "za") none] p6
example : ov_feedReport cexZeroArg "za" "tza" =
    some { shapeArr := false, nonEmpty := true, typeOk := false, fnsStable := true, sameResult := false } := by
  decide +kernel

/-- the stability check `ov_fnsStable` is SUFFICIENT, not necessary: supplying the automatic group
sum `a_m_hh` creates the additional (unused) time conversions `a_y_hh`, …, so the check fails
although the result is the same … -/
example : ov_feedReport okSys "a_m_hh" "a_y" =
    some { shapeArr := true, nonEmpty := true, typeOk := true, fnsStable := false, sameResult := true } := by
  decide +kernel
/-- … this case is covered by the weaker check of `simulate_feed_back_compat(_checked)`; so are the
earlier examples -/
example : ov_feedHyps' okSys "a_m_hh" "a_y" = true := by decide +kernel
example : ov_feedHyps' okSys "a_m" "b" = true := by decide +kernel
example : ov_feedHyps' okIds "a_m_fg" "a_m_hh" = true := by decide +kernel
/-- the weaker check is not necessary either: supplying the time conversion `a_y` re-derives `a_w`
from the data column `a_y` instead of the rule `a_m` (irrelevant for the target `a_m_hh`) -/
example : ov_feedHyps' okSys "a_y" "a_m_hh" = false ∧ (ov_feedReport okSys "a_y" "a_m_hh").map (·.sameResult) = some true := by
  decide +kernel
/-- in all four (F)-counterexamples the weaker check fails as well -/
example : ov_fnsCompat cexLastSource "s_m" "s_w" = false ∧ ov_fnsCompat cexPidShadow "a_m" "a_y" = false ∧
    ov_fnsCompat cexPidAppears "a_m_hh" "b_y" = false ∧
    ov_fnsCompat cexGroupSum "bewohnt_eigentum_hh" "beh" = false := by decide +kernel

/-- **The unconditional statement is false in the model.** -/
theorem simulate_feed_back_false :
    ¬ ∀ (inp : Input) (n t : String) (tbl tbl' : Table) (c : Column),
      n ≠ t → n ∉ inp.data.map (·.1) →
      simulate { inp with targets := [n, t] } = .ok tbl → find? tbl n = some c →
      simulate { inp with targets := [t], data := inp.data ++ [(n, c)] } = .ok tbl' →
      find? tbl' t = find? tbl t := by
  intro hall
  have hrep : ov_feedReport cexLastSource "s_m" "s_w" =
      some { shapeArr := true, nonEmpty := true, typeOk := true, fnsStable := false, sameResult := false } := by
    decide +kernel
  obtain ⟨tbl, tbl', c, h, hc, h', hne⟩ := ov_feedReport_differs hrep rfl
  exact hne (hall cexLastSource "s_m" "s_w" tbl tbl' c (by decide) (by decide) h hc h')

/-! #### `simulate_supplied_is_used` -/

/-- `a_m` is supplied; the rule `a_m(x) = 2x` is replaced by `a_m(x) = x / (x - x)` (which would
raise `ZeroDivisionError`) with another rounding key: hypotheses of the theorem -/
def a_m' : Rule := rule "a_m" ["x"] (dv (nm "x") (sub (nm "x") (nm "x"))) (some .float) (some "nokey")
def usedSys : Input :=
  { okSys with data := d3 ++ [("a_m", F [10, 20, 30])], targets := ["b", "a_y"] }
example : "a_m" ∈ usedSys.data.map (·.1) ∧ List.Forall₂ (ov_sameButBody "a_m") usedSys.rules [a_m', b] := by
  refine ⟨by decide, ?_⟩
  refine .cons ⟨rfl, rfl, rfl, fun h => absurd rfl h⟩ (.cons ⟨rfl, rfl, rfl, fun _ => rfl⟩ .nil)
/-- … and the supplied values are what the consumers see: `b = a_m + 1`, `a_y = 12 a_m` -/
example : (match simulate { usedSys with rules := [a_m', b] } with
    | .ok tbl => ov_shown tbl "b" == some ("float", ["11.000000", "21.000000", "31.000000"]) &&
        ov_shown tbl "a_y" == some ("float", ["120.000000", "240.000000", "360.000000"])
    | _ => false) = true := by decide +kernel
/-- the PARAMETER NAMES of an overridden rule matter (so "same parameters" cannot be dropped):
`hh_id_hh` as a parameter of the overridden rule makes `load_and_check_functions` create the
automatic group sum `hh_id_hh` of `hh_id` by `hh_id`, which is rejected (duplicate parameter) -/
example : (match simulate usedSys,
      simulate { usedSys with rules := [rule "a_m" ["hh_id_hh"] (nm "hh_id_hh") (some .float), b] } with
    | .ok _, .error .valueError => true
    | _, _ => false) = true := by decide +kernel
/-- the RETURN ANNOTATION of an overridden rule matters: the supplied floats are converted to it -/
example : (match simulate { usedSys with rules := [rule "a_m" ["x"] (nm "x") (some .int),
        rule "b" ["a_m"] (nm "a_m") none], targets := ["b"] },
      simulate { usedSys with rules := [rule "a_m" ["x"] (nm "x") (some .float),
        rule "b" ["a_m"] (nm "a_m") none], targets := ["b"] } with
    | .ok t1, .ok t2 => ov_shown t1 "b" == some ("int", ["10", "20", "30"]) &&
        ov_shown t2 "b" == some ("float", ["10.000000", "20.000000", "30.000000"])
    | _, _ => false) = true := by decide +kernel

/-! #### `simulate_values_typed`, `colOfData_render`, `fnsStable_sound` -/

example : (match ov_value { okSys with targets := ["b"] } "a_m" with
    | .ok v => v.dt == .float && v.shape == .arr && v.vals.length == 3
    | _ => false) = true := by decide +kernel
example : ov_fnsStable { okSys with targets := ["b"] } "a_m" = true := by decide +kernel
example : let v : Col := { dt := .int, vals := [.i 1, .i 2] }
    (∀ r ∈ v.vals, VecDtype.dtypeOf r = v.dt) ∧ v.shape = .arr ∧ v.vals ≠ [] ∧ Ty.int.toDT = v.dt := by
  decide

end FeedBack

end GV.Simulate
