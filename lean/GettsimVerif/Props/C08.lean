import GettsimVerif.Lemmas.Graph
/-
C08 — the dependency graph of the policy environment is acyclic, evaluation by need
terminates with fuel `n`, and every root of the graph is a declared input.

The driver exports the interned graph `g` and the topological order computed by the real
code; `certOK g order` is checked by `decide +kernel`.  Everything below is core-only.

The specification predicates are defined in `Lemmas/Graph.lean`:
  `Reads g a b := b ∈ g.depsOf a`                      node `a` reads node `b`
  `Path g a b`     non-empty directed path (transitive closure of `Reads`)
  `Acyclic g := ∀ a, ¬ Path g a a`
  `IsChain g l`    every element of the list `l` reads its successor
  `ReachIn g k a b`  at most `k` dependency steps lead from `a` to `b`
-/
namespace GV.Graph

/-! ### what a passing certificate check gives -/

/-- **C08.1a** a passing certificate yields a rank function that strictly decreases along
every edge and is bounded by `n` on the graph (this makes evaluation by need terminate). -/
theorem cert_rank {g : G} {order : List Nat} (h : certOK g order = true) :
    ∃ r : Nat → Nat, (∀ a b, Reads g a b → r b < r a) ∧ (∀ a, r a < g.n ∨ r a = 0) :=
  ⟨rank g order, fun _ _ hr => (cert_edge h hr).2.2, fun a => by
    by_cases ha : a < g.n
    · exact Or.inl (rank_lt h ha)
    · exact Or.inr (by simp only [rank, ha, if_false])⟩

/-- **C08.1b** soundness of the certificate check: the graph has no directed cycle. -/
theorem cert_sound {g : G} {order : List Nat} (h : certOK g order = true) : Acyclic g :=
  fun _ p => Nat.lt_irrefl _ (path_rank h p)

/-- **C08.1c** the list formulation of acyclicity: no chain of length ≥ 2 returns to its
starting node. -/
theorem cert_sound_list {g : G} {order : List Nat} (h : certOK g order = true) :
    ¬ ∃ path : List Nat, path.length ≥ 2 ∧ path.head? = path.getLast? ∧ IsChain g path := by
  rintro ⟨path, hlen, hhl, hc⟩
  match path, hlen, hhl, hc with
  | a :: b :: rest, _, hhl, hc =>
    have hmem : (a :: b :: rest).getLast? = some ((b :: rest).getLast (by simp)) := by
      rw [List.getLast?_cons_cons, List.getLast?_eq_some_getLast (by simp)]
    rw [hmem] at hhl
    simp only [List.head?_cons, Option.some.injEq] at hhl
    have := (chain_rank h (b :: rest) a hc).1 _ (List.getLast_mem (l := b :: rest) (by simp))
    rw [← hhl] at this
    exact Nat.lt_irrefl _ this

/-- **C08.2a** with a passing certificate every dependency chain inside the graph has at
most `n` nodes, so depth `n` (fuel `n`) suffices for evaluation by need. -/
theorem eval_terminates_with_fuel_n {g : G} {order : List Nat} (h : certOK g order = true) :
    ∀ path : List Nat, IsChain g path → (∀ v ∈ path, v < g.n) → path.length ≤ g.n := by
  intro path hc hin
  match path, hc, hin with
  | [], _, _ => simp
  | a :: rest, hc, hin =>
    have h1 := (chain_rank h rest a hc).2
    have h2 := rank_lt h (hin a (by simp))
    simp only [List.length_cons]; omega

/-- **C08.2c** a chain with at least two nodes lies inside the graph anyway (so the range
hypothesis of C08.2a only matters for one-element chains). -/
theorem chain_in_graph {g : G} {order : List Nat} (h : certOK g order = true) :
    ∀ (path : List Nat), IsChain g path → path.length ≥ 2 → ∀ v ∈ path, v < g.n := by
  intro path
  induction path with
  | nil => intro _ hl; simp at hl
  | cons a rest ih =>
    intro hc _ v hv
    match rest, hc, ih, hv with
    | [], _, _, _ => simp at *
    | b :: rest', hc, ih, hv =>
      obtain ⟨hab, hc'⟩ := hc
      have he := cert_edge h hab
      rcases List.mem_cons.1 hv with rfl | hv
      · exact he.1
      · match rest', hc', ih, hv with
        | [], _, _, hv =>
          have : v = b := by simpa using hv
          subst this; exact he.2.1
        | c :: r, hc', ih, hv => exact ih hc' (by simp) v hv

/-- **C08.1d** the certificate is a permutation of the nodes in topological order: it has
`n` entries, all `< n`, none twice, every node occurs, and every node occurs strictly after
each of its dependencies. -/
theorem cert_topo {g : G} {order : List Nat} (h : certOK g order = true) :
    order.length = g.n ∧ (∀ v ∈ order, v < g.n) ∧ (∀ a, a < g.n → a ∈ order) ∧
    (∀ (i j v : Nat), order[i]? = some v → order[j]? = some v → i = j) ∧
    (∀ a b, Reads g a b → ∃ i j : Nat, order[i]? = some a ∧ order[j]? = some b ∧ j < i) := by
  have h0 := h
  simp only [certOK, Bool.and_eq_true, beq_iff_eq] at h
  obtain ⟨⟨⟨⟨_, hlen⟩, hmask⟩, hback⟩, _⟩ := h
  have hb := backLoop_spec _ _ _ order 0 hback
  refine ⟨hlen, ?_, fun a ha => mem_of_mask hmask ha, ?_, ?_⟩
  · intro v hv
    obtain ⟨k, hk⟩ := List.mem_iff_getElem?.1 hv
    exact (hb k v hk).1
  · intro i j v hi hj
    have := (hb i v hi).2; have := (hb j v hj).2; omega
  · intro a b hr
    obtain ⟨ha, hbn, hlt⟩ := cert_edge h0 hr
    obtain ⟨i, hi⟩ := List.mem_iff_getElem?.1 (mem_of_mask hmask ha)
    obtain ⟨j, hj⟩ := List.mem_iff_getElem?.1 (mem_of_mask hmask hbn)
    refine ⟨i, j, hi, hj, ?_⟩
    have := (hb i a hi).2; have := (hb j b hj).2
    simp only [rank, ha, hbn, if_true] at hlt
    omega

/-! ### connection to evaluation by need (`GV.Dag.eval`) -/

open GV.Dag in
/-- **C08.2d** evaluation by need never runs out of fuel when the fuel exceeds a rank that decreases
along the dependencies of the functions that are actually evaluated (not overridden by data),
provided no operation raises the fuel error itself -/
theorem eval_not_other_of_rank {α : Type} (S : Sys α) (D : Data α) (r : Name → Nat)
    (hop : ∀ n node args, find? S n = some node → node.op args ≠ .error .other)
    (hr : ∀ n node, find? D n = none → find? S n = some node → ∀ d ∈ node.deps, r d < r n) :
    ∀ (k : Nat) (n : Name), r n < k → eval S D k n ≠ .error .other := by
  intro k
  induction k with
  | zero => intro n h; omega
  | succ k ih =>
    intro n hn
    simp only [eval]
    cases hD : find? D n with
    | some c => simp
    | none =>
      cases hS : find? S n with
      | none => simp
      | some node =>
        simp only [bind, Except.bind]
        have hargs := evalAll_not_other (eval S D k) node.deps
          (fun d hd => ih d (by have := hr n node hD hS d hd; omega))
        cases ha : evalAll (eval S D k) node.deps with
        | error e =>
          simp only [ne_eq, Except.error.injEq]; intro he; exact hargs (by rw [ha, he])
        | ok args => exact hop n node args hS

open GV.Dag in
/-- **C08.2b** if the dependency structure of the system `S` is (contained in) the graph `g`
under an interning `idx` of the names, and `g` has a passing certificate, then `Dag.eval`
with fuel `n + 1` never returns the fuel-exhausted error `.other` (unless an operation itself
raises it). -/
theorem eval_fuel_suffices {α : Type} {g : G} {order : List Nat} (h : certOK g order = true)
    (S : Sys α) (D : Data α) (idx : Name → Nat)
    (hop : ∀ n node args, find? S n = some node → node.op args ≠ .error .other)
    (hg : ∀ n node, find? S n = some node → ∀ d ∈ node.deps, Reads g (idx n) (idx d))
    (n : Name) : eval S D (g.n + 1) n ≠ .error .other := by
  apply eval_not_other_of_rank S D (fun x => rank g order (idx x)) hop
  · intro m node _ hS d hd
    exact (cert_edge h (hg m node hS d hd)).2.2
  · show rank g order (idx n) < g.n + 1
    by_cases hn : idx n < g.n
    · have := rank_lt h hn; omega
    · simp only [rank, hn, if_false]; omega

/-! ### roots and reachability -/

/-- **C08.3** `rootsAllowed` holds exactly when every node of the graph that reads nothing
is one of the allowed inputs. -/
theorem rootsAllowed_spec (g : G) (allowed : List Nat) :
    rootsAllowed g allowed = true ↔ ∀ i, i < g.n → g.deps.getD i [] = [] → i ∈ allowed := by
  simp only [rootsAllowed, List.all_eq_true, List.contains_iff_mem, mem_roots, G.depsOf]
  constructor
  · intro h i hi hd; exact h i ⟨hi, hd⟩
  · intro h i hi; exact h i hi.1 hi.2

/-- **C08.5** `reachable g fuel targets` is exactly the set of nodes that some target reaches
through at most `fuel` dependency steps. -/
theorem mem_reachable (g : G) :
    ∀ (fuel : Nat) (targets : List Nat) (v : Nat),
      v ∈ reachable g fuel targets ↔ ∃ t ∈ targets, ReachIn g fuel t v := by
  intro fuel
  induction fuel with
  | zero =>
    intro targets v
    simp only [reachable]
    constructor
    · intro h; exact ⟨v, h, .refl⟩
    · rintro ⟨t, ht, p⟩; cases p; exact ht
  | succ k ih =>
    intro targets v
    simp only [reachable, ih, mem_expand]
    constructor
    · rintro ⟨t, ht | ⟨s, hs, hst⟩, p⟩
      · exact ⟨t, ht, reachIn_mono p⟩
      · exact ⟨s, hs, .step hst p⟩
    · rintro ⟨t, ht, p⟩
      cases p with
      | refl => exact ⟨v, Or.inl ht, .refl⟩
      | step hab q => exact ⟨_, Or.inr ⟨t, ht, hab⟩, q⟩

/-! ### non-vacuity and performance -/

-- 450 nodes, 2 245 edges, identity order: checked by the kernel in ≈ 1.5 s
example : edgeCount (synth 450) = 2245 := by decide +kernel

set_option maxRecDepth 100000 in
example : certOK (synth 450) (List.range 450) = true := by decide +kernel

-- the same graph with reversed numbering and the reversed order (far from the identity)
set_option maxRecDepth 100000 in
example : certOK (synthRev 450) (List.range 450).reverse = true := by decide +kernel

-- … for which the identity order is rejected
set_option maxRecDepth 100000 in
example : certOK (synthRev 450) (List.range 450) = false := by decide +kernel

/-- hence the conclusions hold for a concrete large graph -/
example : Acyclic (synth 450) :=
  cert_sound (order := List.range 450) (by set_option maxRecDepth 100000 in decide +kernel)

/-- a small graph with a non-identity order: 0 reads 2, 2 reads 1 -/
def small : G := ⟨3, [[2], [], [1]]⟩
example : certOK small [1, 2, 0] = true := by decide
example : certOK small [0, 1, 2] = false := by decide
example : certOK small [1, 2] = false := by decide          -- node missing
example : certOK small [1, 2, 0, 0] = false := by decide    -- node twice
example : certOK small [1, 2, 1] = false := by decide       -- not a permutation
example : certOK small [1, 2, 3] = false := by decide       -- node out of range
example : certOK ⟨3, [[2], []]⟩ [1, 2, 0] = false := by decide   -- row missing
example : certOK ⟨3, [[2], [], [5]]⟩ [1, 2, 0] = false := by decide   -- edge leaves the graph
example : roots small = [1] := by decide
example : rootsAllowed small [1, 7] = true := by decide
example : rootsAllowed small [0, 2] = false := by decide
example : reachable small 3 [2] = [2, 1] := by decide
example : reachable small 3 [0] = [0, 2, 1] := by decide
example : position [1, 2, 0] 3 = [2, 0, 1] := by decide

/-- a cyclic graph (0 → 1 → 2 → 0, and 3 reads 0): every candidate order is rejected -/
def cyc : G := ⟨4, [[1], [2], [0], [0]]⟩
example : certOK cyc [0, 1, 2, 3] = false := by decide
example : certOK cyc [2, 1, 0, 3] = false := by decide
example : certOK cyc [1, 2, 0, 3] = false := by decide
example : certOK cyc [3, 0, 2, 1] = false := by decide
example : Path cyc 0 0 := .cons (b := 1) (by decide) (.cons (b := 2) (by decide) (.single (by decide)))
example : ¬ Acyclic cyc := fun h => h 0
  (.cons (b := 1) (by decide) (.cons (b := 2) (by decide) (.single (by decide))))
/-- hence no order at all can pass for `cyc` -/
example (order : List Nat) : certOK cyc order = false := by
  cases hc : certOK cyc order with
  | false => rfl
  | true =>
    exact absurd (cert_sound hc) (fun h => h 0
      (.cons (b := 1) (by decide) (.cons (b := 2) (by decide) (.single (by decide)))))
/-- a self-loop is a cycle -/
example : certOK ⟨1, [[0]]⟩ [0] = false := by decide

/-- non-vacuity of `eval_terminates_with_fuel_n`: a chain of length `n` exists in `small` -/
example : IsChain small [0, 2, 1] ∧ (∀ v ∈ [0, 2, 1], v < small.n) := by
  refine ⟨⟨by decide, by decide, trivial⟩, by decide⟩

/-! non-vacuity of `eval_fuel_suffices`: a two-node system whose structure is the graph `g2` -/
section
open GV.Dag
def S2 : Sys Nat := [("x", ⟨["y"], fun args => .ok args.sum⟩), ("y", ⟨[], fun _ => .ok 1⟩)]
def idx2 (s : String) : Nat := if s = "x" then 1 else 0
def g2 : G := ⟨2, [[], [0]]⟩
theorem S2_ops : ∀ n node args, find? S2 n = some node → node.op args ≠ .error .other := by
  intro n node args h
  simp only [S2, find?] at h
  split at h
  · cases h; simp
  · split at h
    · cases h; simp
    · cases h
theorem S2_struct :
    ∀ n node, find? S2 n = some node → ∀ d ∈ node.deps, Reads g2 (idx2 n) (idx2 d) := by
  intro n node h
  simp only [S2, find?] at h
  split at h
  · cases h; rename_i hx; subst hx; decide
  · split at h
    · cases h; intro d hd; cases hd
    · cases h
example (D : Data Nat) (n : Name) : eval S2 D 3 n ≠ .error .other :=
  eval_fuel_suffices (g := g2) (order := [0, 1]) (by decide) S2 D idx2 S2_ops S2_struct n
example : eval S2 [] 3 "x" = .ok 1 := by rfl
example : eval S2 [] 1 "x" = .error .other := by rfl   -- too little fuel does give `.other`
end

end GV.Graph
