import GettsimVerif.Lemmas.PEval
import GettsimVerif.Props.C16
/-
C16 with a verified pre-pass — partial evaluation of the rules w.r.t. the parameter trees.

The sign analysis of `Props/C16.lean` sees a parameter group `<group>_params` as ONE abstract
value: `pnn` if no leaf of the whole group is negative, else `any`.  A rule such as
`return arbeitsl_geld_2_params["regelsatz"][1] * x` is therefore not classified as soon as an
unrelated leaf of the group is negative or `-inf` (every schedule starts at `-inf`).
`PEval.peGraph consts nodes` (defined in `Core/PEval.lean`, executable, used by the driver op
`sign_table_pe`) specialises every rule to the constant nodes among its arguments BEFORE the
(unchanged) analysis runs:
  * a name bound to a known value becomes a constant;
  * every sub-expression that can be evaluated without looking at a name is replaced by its value
    (`p["a"]["b"]`, `p["a"] * p["b"]`, `max(p["a"], p["b"])`, `p["x"][1] / 2`, comparisons, …);
    nothing is folded if the evaluation raises;
  * `a if c else b` with a constant test becomes the selected branch;
  * `piecewise_polynomial(x, T, R, C)` over a constant schedule whose intercepts and rates are all
    non-negative (`pwNonnegChk`) becomes `max(piecewise_polynomial(x, T, R, C), 0.0)`, which is the
    same value and is understood by the analysis.
The theorems say: the specialised rule computes EXACTLY the same result (value or exception) as
the original one; hence the sign table / the `≤`-facts computed for the specialised graph are
sound for the ORIGINAL graph.
-/
namespace GV.PEval
open GV.Lang GV.Sign

/-! ### expressions, blocks, functions -/

/-- Expression soundness: in every environment `env` that contains the known bindings `ρ`, the
specialised expression evaluates to exactly the same result as the original one — the same value
or the same exception. -/
theorem peExpr_sound {ρ env : Env} {e : Expr}
    (h : ∀ n v, ρ.get? n = some v → env.get? n = some v) :
    evalExpr env (peExpr ρ e) = evalExpr env e :=
  peExpr_ok h e

/-- Block soundness: same final environment and returned value, or same exception.  (A name that
is assigned in the block is forgotten from `ρ` for the statements after the assignment.) -/
theorem peBlock_sound {ρ env : Env} {b : List Stmt}
    (h : ∀ n v, ρ.get? n = some v → env.get? n = some v) :
    execBlock env (peBlock ρ b) = execBlock env b :=
  peBlock_ok b ρ env h

/-- a statement changes only the names listed by `assignedStmt` -/
theorem assigned_frame {s : Stmt} {env env' : Env} {r : Option Val}
    (h : execStmt env s = .ok (env', r)) {n : String} (hn : n ∉ assignedStmt s) :
    env'.get? n = env.get? n :=
  execStmt_frame s env env' r h n hn

/-- The specialised rule has the same name and the same argument list. -/
theorem peFun_sig (ρ : Env) (f : FunDef) : (peFun ρ f).name = f.name ∧ (peFun ρ f).args = f.args :=
  ⟨rfl, rfl⟩

/-- Function soundness: if every binding `n ↦ v` of `ρ` is the binding of the formal parameter
`n` in the call (`runFun` binds `f.args.zip args`, first occurrence wins), the specialised rule
returns exactly what the original rule returns (value or exception). -/
theorem peFun_sound {ρ : Env} {f : FunDef} {args : List Val}
    (h : ∀ n v, ρ.get? n = some v → Env.get? (f.args.zip args) n = some v) :
    runFun (peFun ρ f) args = runFun f args :=
  peFun_ok h

theorem zip_get?_of_index : ∀ {fs : List String} {as : List Val} {i : Nat} {n : String} {v : Val},
    fs.Nodup → fs[i]? = some n → as[i]? = some v → Env.get? (fs.zip as) n = some v
  | [], _, i, n, v, _, hf, _ => by simp at hf
  | f :: fs, [], i, n, v, _, _, ha => by simp at ha
  | f :: fs, a :: as, 0, n, v, _, hf, ha => by
    simp only [List.getElem?_cons_zero, Option.some.injEq] at hf ha
    simp only [List.zip_cons_cons, Env.get?, hf, ha, if_true]
  | f :: fs, a :: as, i + 1, n, v, hnd, hf, ha => by
    simp only [List.getElem?_cons_succ] at hf ha
    have hne : f ≠ n := fun e => (List.nodup_cons.1 hnd).1 (e ▸ List.mem_of_getElem? hf)
    simp only [List.zip_cons_cons, Env.get?, hne, if_false]
    exact zip_get?_of_index (List.nodup_cons.1 hnd).2 hf ha

/-- … in the "positional" form: the formal parameters are distinct and every binding `n ↦ v` of
`ρ` names a position `i` with `f.args[i] = n` and `args[i] = v`. -/
theorem peFun_sound_nodup {ρ : Env} {f : FunDef} {args : List Val} (hnd : f.args.Nodup)
    (h : ∀ n v, ρ.get? n = some v → ∃ i : Nat, f.args[i]? = some n ∧ args[i]? = some v) :
    runFun (peFun ρ f) args = runFun f args :=
  peFun_ok fun n v hn => by
    obtain ⟨i, hf, ha⟩ := h n v hn
    exact zip_get?_of_index hnd hf ha

/-- A schedule passing `pwNonnegChk` (normal form, all intercepts and rates `≥ 0`) is
non-negative at EVERY argument — the justification of the rewriting
`piecewise_polynomial(…) ↦ max(piecewise_polynomial(…), 0.0)`. -/
theorem pwNonnegChk_sound {s : Piecewise.Schedule} (h : pwNonnegChk s = true) (x : Rat) :
    0 ≤ Piecewise.eval s x :=
  pw_eval_nonneg h x

/-! ### graphs -/

/-- The specialised graph has the same nodes (names, order); only rule bodies differ. -/
theorem peGraph_names (consts : Env) (nodes : List GNode) :
    (peGraph consts nodes).map (·.name) = nodes.map (·.name) := by
  simp only [peGraph, List.map_map]
  refine List.map_congr_left fun n _ => ?_
  obtain ⟨name, kind⟩ := n
  cases kind <;> rfl

/-- Graph soundness.  `consts` lists constant nodes with their values: node `c` has the value
`v` in every row (this is what a parameter group `<group>_params` is; the same hypothesis as in
`input_const_sem`).  Then a data set satisfying the node semantics of the ORIGINAL graph
satisfies the node semantics of the specialised graph (and conversely, `peGraph_sem_iff`). -/
theorem peGraph_sem {ρ : Type} {val : ρ → String → Val} {consts : Env} {nodes : List GNode}
    (hc : ∀ c v, (c, v) ∈ consts → ∀ r, val r c = v) (hall : ∀ n ∈ nodes, NodeSem val n) :
    ∀ n ∈ peGraph consts nodes, NodeSem val n :=
  (peGraph_sem_iff hc nodes).2 hall

/-- Table soundness with the pre-pass: every entry of the sign table computed for the
SPECIALISED graph describes the node's value in every row of every data set satisfying the
semantics of the ORIGINAL graph. -/
theorem signTablePE_sound {ρ : Type} {val : ρ → String → Val} {consts : Env} {nodes : List GNode}
    (hc : ∀ c v, (c, v) ∈ consts → ∀ r, val r c = v) (hall : ∀ n ∈ nodes, NodeSem val n) :
    ∀ r x a, (x, a) ∈ signTable (peGraph consts nodes) → a.holds (val r x) :=
  signTable_sound (peGraph_sem hc hall)

/-- … and so does every look-up in that table. -/
theorem signTablePE_sound_get {ρ : Type} {val : ρ → String → Val} {consts : Env}
    {nodes : List GNode} (hc : ∀ c v, (c, v) ∈ consts → ∀ r, val r c = v)
    (hall : ∀ n ∈ nodes, NodeSem val n) (r : ρ) (x : String) :
    (tblGet (signTable (peGraph consts nodes)) x).holds (val r x) :=
  signTable_sound_get (peGraph_sem hc hall) r x

/-- "All targets are non-negative" with the pre-pass: if `allNonneg` succeeds on the table of the
specialised graph, every target is a non-negative number (or `+inf`) in every row of every data
set of the ORIGINAL graph. -/
theorem allNonnegPE_sound {ρ : Type} {val : ρ → String → Val} {consts : Env} {nodes : List GNode}
    (hc : ∀ c v, (c, v) ∈ consts → ∀ r, val r c = v) (hall : ∀ n ∈ nodes, NodeSem val n)
    {targets : List String} (hchk : allNonneg (signTable (peGraph consts nodes)) targets = true) :
    ∀ x ∈ targets, ∀ r,
      (∃ q fl, num? (val r x) = some (q, fl) ∧ 0 ≤ q) ∨ val r x = .inf false :=
  allNonneg_sound (peGraph_sem hc hall) hchk

/-- Every pair `(x, y)` listed by `leFacts` for the specialised graph satisfies `x ≤ y` in every
row of every data set of the ORIGINAL graph. -/
theorem leFactsPE_sound {ρ : Type} {val : ρ → String → Val} {consts : Env} {nodes : List GNode}
    (hc : ∀ c v, (c, v) ∈ consts → ∀ r, val r c = v) (hall : ∀ n ∈ nodes, NodeSem val n)
    {x y : String} (hm : (x, y) ∈ leFacts (peGraph consts nodes)) :
    ∀ r, numLe (val r x) (val r y) :=
  leFacts_sound (peGraph_sem hc hall) hm

/-! ### non-vacuity on the miniature rules and graph of `GV.PEval.Demo` -/

section NonVacuity
open Demo

-- the group has a negative leaf and a `-inf` threshold next to the rate that is read
example : absConst (.tree group) = .any := by decide +kernel

-- `return p["beitr_satz"]["ges_rentenv"] * lohn`: not classified without, `nonneg` with the pre-pass
example : absFun [.nonneg, absConst (.tree group)] beitrag = .any := by decide +kernel
example : absFun [.nonneg, absConst (.tree group)] (peFun [("p", .tree group)] beitrag) = .nonneg := by
  decide +kernel
example : absFun [.pos, .any] (peFun [("p", .tree group)] beitrag) = .pos := by decide +kernel
-- folding `+` of two leaves and the conditional expression with a constant test
example : absFun [.nonneg, .any] summe = .any := by decide +kernel
example : absFun [.nonneg, .any] (peFun [("p", .tree group)] summe) = .nonneg := by decide +kernel
-- the specialised rules compute the same values (and the same exception)
example : runFun beitrag [.flt 1000, .tree group] = .ok (.flt 93) := by decide +kernel
example : runFun (peFun [("p", .tree group)] beitrag) [.flt 1000, .tree group] = .ok (.flt 93) := by
  decide +kernel
example : runFun (peFun [("p", .tree group)] summe) [.flt 1000, .tree group] = .ok (.flt 102) := by
  decide +kernel
example : runFun beitrag [.str "x", .tree group] = .error .typeError := by decide +kernel
example : runFun (peFun [("p", .tree group)] beitrag) [.str "x", .tree group] = .error .typeError := by
  decide +kernel
-- a reassigned parameter argument is not propagated past the assignment
example : runFun (peFun [("p", .tree group)] shadow) [.flt 5, .tree group] = .ok (.flt 5) := by
  decide +kernel
-- a look-up that raises is left alone (same `KeyError` at run time)
example : runFun (peFun [("p", .tree group)]
    ⟨"g", ["p"], [.ret (.sub (.name "p") (.const (.str "fehlt")))]⟩) [.tree group] = .error .keyError := by
  decide +kernel

-- the hypotheses of `peFun_sound` / `peFun_sound_nodup` are satisfiable
example : ∀ lohn : Val, runFun (peFun [("p", .tree group)] beitrag) [lohn, .tree group] =
    runFun beitrag [lohn, .tree group] := fun lohn =>
  peFun_sound_nodup (by decide) (fun n v h => by
    simp only [Env.get?] at h
    split at h
    · rename_i hn
      cases h
      exact ⟨1, by simp [beitrag, ← hn], rfl⟩
    · cases h)

/-- instantiated soundness: the contribution is non-negative for EVERY non-negative wage, although
the group contains a negative leaf -/
example : ∀ (lohn v : Val), IsNonneg lohn → runFun beitrag [lohn, .tree group] = .ok v → IsNonneg v := by
  intro lohn v hl h
  have e : runFun (peFun [("p", .tree group)] beitrag) [lohn, .tree group] = .ok v := by
    rw [peFun_sound (f := beitrag) (args := [lohn, .tree group])]
    · exact h
    · intro n w hn
      simp only [Env.get?] at hn
      split at hn
      · rename_i hp
        cases hn
        subst hp
        simp [beitrag, Env.get?]
      · cases hn
  exact absFun_nonneg (argAbs := [.nonneg, .any]) (by decide +kernel)
    (argsHold_of_forall₂ (.cons hl (.cons trivial .nil))) e

-- schedules: the check, and a schedule that fails it
def tarif : Piecewise.Schedule :=
  { thresholds := [.negInf, .fin 10000, .fin 60000, .posInf],
    rates := [[0, 14 / 100, 42 / 100], [0, 1 / 500000, 0]],
    intercepts := [0, 0, 12000] }
example : pwNonnegChk tarif = true := by decide +kernel
example : pwNonnegChk { tarif with intercepts := [0, -1, 12000] } = false := by decide +kernel
example : 0 ≤ Piecewise.eval tarif 30000 := pwNonnegChk_sound (by decide +kernel) 30000
example : Piecewise.eval tarif 30000 = 3600 := by decide +kernel

/-- `def steuer(x, p): return piecewise_polynomial(x, p["t"], p["r"], p["c"])` -/
def steuer : FunDef :=
  ⟨"steuer", ["x", "p"],
    [.ret (.call "piecewise_polynomial" [.name "x", .sub (.name "p") (.const (.str "t")),
      .sub (.name "p") (.const (.str "r")), .sub (.name "p") (.const (.str "c"))])]⟩
def tarifTree : GV.Yaml.Y :=
  .dict [(.s "t", .list [.ninf, .num 10000, .num 60000, .pinf]),
         (.s "r", .list [.list [.num 0, .num (14 / 100), .num (42 / 100)],
                         .list [.num 0, .num (1 / 500000), .num 0]]),
         (.s "c", .list [.num 0, .num 0, .num 12000])]
example : absFun [.nonneg, .any] steuer = .any := by decide +kernel
example : absFun [.any, .any] (peFun [("p", .tree tarifTree)] steuer) = .nonneg := by decide +kernel
example : runFun (peFun [("p", .tree tarifTree)] steuer) [.flt 30000, .tree tarifTree] = .ok (.flt 3600) := by
  decide +kernel

-- the miniature graph: tables without and with the pre-pass
example : signTable graph =
    [("lohn_m", .nonneg), ("sozialv_params", .any), ("beitrag_m", .any), ("summe_m", .any),
     ("beitrag_m_hh", .any)] := by decide +kernel
example : signTable (peGraph consts graph) =
    [("lohn_m", .nonneg), ("sozialv_params", .any), ("beitrag_m", .nonneg), ("summe_m", .nonneg),
     ("beitrag_m_hh", .nonneg)] := by decide +kernel
example : allNonneg (signTable graph) ["beitrag_m", "summe_m", "beitrag_m_hh"] = false := by
  decide +kernel
example : (peGraph consts graph).map (·.name) = graph.map (·.name) := peGraph_names _ _

theorem mini_consts : ∀ c v, (c, v) ∈ consts → ∀ r, val r c = v := by
  intro c v h r
  simp only [consts, List.mem_cons, Prod.mk.injEq, List.not_mem_nil, or_false] at h
  obtain ⟨rfl, rfl⟩ := h
  rfl

theorem mini_sem : ∀ n ∈ graph, NodeSem val n := by
  intro n hn
  simp only [graph, List.mem_cons, List.not_mem_nil, or_false] at hn
  rcases hn with rfl | rfl | rfl | rfl | rfl
  · intro r
    cases r
    · exact Or.inl ⟨1000, true, rfl, by decide⟩
    · exact Or.inl ⟨2000, true, rfl, by decide⟩
  · exact input_const_sem (fun _ => rfl)
  · intro r
    cases r <;> decide +kernel
  · intro r
    cases r <;> decide +kernel
  · intro r
    exact ⟨[false, true], by simp, by cases r <;> decide +kernel⟩

/-- instantiated `allNonnegPE_sound` on the concrete data set -/
example : ∀ r, IsNonneg (val r "beitrag_m_hh") :=
  allNonnegPE_sound mini_consts mini_sem (targets := ["beitrag_m_hh"]) (by decide +kernel) _
    List.mem_cons_self

/-- instantiated `signTablePE_sound` for EVERY data set of the miniature graph in which the
parameter node is the constant group -/
example {ρ : Type} (w : ρ → String → Val) (hc : ∀ r, w r "sozialv_params" = .tree group)
    (h : ∀ n ∈ graph, NodeSem w n) : ∀ r, IsNonneg (w r "summe_m") := fun r => by
  have := signTablePE_sound_get (consts := consts) (fun c v hm r => by
    simp only [consts, List.mem_cons, Prod.mk.injEq, List.not_mem_nil, or_false] at hm
    obtain ⟨rfl, rfl⟩ := hm
    exact hc r) h r "summe_m"
  have e : tblGet (signTable (peGraph consts graph)) "summe_m" = .nonneg := by decide +kernel
  rw [e] at this
  exact this

/-- a cap rule whose cap is a parameter: `def kappe(x, p): return min(x, p["grenze"])` -/
def kappe : FunDef :=
  ⟨"kappe", ["x", "p"], [.ret (.call "min" [.name "x", .sub (.name "p") (.const (.str "grenze"))])]⟩
def graphLe : List GNode :=
  [⟨"x_m", .input .nonneg⟩, ⟨"k_params", .input (absConst (.tree (.dict [(.s "grenze", .num 500), (.s "alt", .num (-1))])))⟩,
   ⟨"kappe_m", .rule kappe ["x_m", "k_params"]⟩]
def constsLe : Env := [("k_params", .tree (.dict [(.s "grenze", .num 500), (.s "alt", .num (-1))]))]
example : leFacts (peGraph constsLe graphLe) = [("kappe_m", "x_m")] := by decide +kernel

/-- instantiated `leFactsPE_sound` -/
example {ρ : Type} (w : ρ → String → Val)
    (hc : ∀ c v, (c, v) ∈ constsLe → ∀ r, w r c = v) (h : ∀ n ∈ graphLe, NodeSem w n) :
    ∀ r, numLe (w r "kappe_m") (w r "x_m") :=
  leFactsPE_sound hc h (by decide +kernel)

end NonVacuity

end GV.PEval
