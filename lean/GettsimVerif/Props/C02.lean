import GettsimVerif.Lemmas.DagCols
import GettsimVerif.Props.C11
/-
Property C02: separability (the result for a sub-population does not depend on the other rows
of the table, as long as no group is cut) and invariance under relabelling of group ids —
abstractly.

Model: `GV.Dag` (`Core/Dag.lean`), columns are lists of cells `β`; `key : β → Int` decodes the
group id of a cell; `G` is the list of the names of the id columns. Node kinds and relations
(`rowwise`, `groupedOp`, `IsRowwise`, `IsGroupedBy`, `TakeRel`, `UnionRel`, `RelabelRel`,
`LocalOp`) are defined in `Lemmas/DagCols.lean`. System-level theorems are instances of the
name-indexed lifting theorem `eval_respects_named` (`Lemmas/Dag.lean`, induction on the fuel).
-/
namespace GV.Dag

variable {β : Type}

/-! ## 1. relabelling of group ids -/

/-- C02.1 Node-level form of `Agg.grouped_relabel`: if the id cells are relabelled by `relab`,
which acts on the decoded ids as an injective, non-negativity preserving map `ρ`, the
aggregation node returns the same column. -/
theorem grouped_relabel_node (key : β → Int) (relab : β → β) (ρ : Int → Int)
    (hkey : ∀ b, key (relab b) = ρ (key b))
    (hinj : ∀ a b, ρ a = ρ b → a = b) (hnn : ∀ a, 0 ≤ a → 0 ≤ ρ a)
    (f : β → β → β) (dflt : β) (col gid c : List β)
    (hc : groupedOp key f dflt [col, gid] = .ok c) :
    groupedOp key f dflt [col, gid.map relab] = .ok c := by
  have hc' : Agg.grouped f dflt col (gid.map key) = .ok c := hc
  have hwf := grouped_ok_wf f dflt col _ c hc'
  show Agg.grouped f dflt col ((gid.map relab).map key) = .ok c
  have : (gid.map relab).map key = (gid.map key).map ρ := by
    simp only [List.map_map]
    apply List.map_congr_left
    intro b _
    exact hkey b
  rw [this, Agg.grouped_relabel f dflt col (gid.map key) ρ hwf
    (fun a _ b _ h => hinj a b h) (fun a ha => hnn a (hwf.2 a ha))]
  exact hc'

/-- C02.2 Relabelling invariance of a whole system. Let `G` be the id columns. If every node is
a value column (name not in `G`) that either does not read id columns at all (arbitrary
operation) or aggregates a value column by an id column, then relabelling the id columns of the
data (value columns unchanged) leaves every computed column unchanged. -/
theorem relabel_invariance (key : β → Int) (relab : β → β) (ρ : Int → Int)
    (hkey : ∀ b, key (relab b) = ρ (key b))
    (hinj : ∀ a b, ρ a = ρ b → a = b) (hnn : ∀ a, 0 ≤ a → 0 ≤ ρ a)
    (G : List Name) (S : Sys (List β)) (D D' : Data (List β))
    (hS : ∀ x node, find? S x = some node →
      x ∉ G ∧ ((∀ d ∈ node.deps, d ∉ G) ∨ IsGroupedBy key G node))
    (hD : DataRel (RelabelRel relab G) D D')
    (k : Nat) (x : Name) (c : List β) (h : eval S D k x = .ok c) :
    ∃ c', eval S D' k x = .ok c' ∧ RelabelRel relab G x c c' ∧ (x ∉ G → c' = c) := by
  obtain ⟨c', hc', hrel⟩ := eval_respects_named (RelabelRel relab G) S D D' (by
    intro n node hn as as' hargs c hc
    obtain ⟨hnG, hkind⟩ := hS n node hn
    refine ⟨c, ?_, by simp [RelabelRel, hnG]⟩
    rcases hkind with hdeps | ⟨f, dflt, dc, dg, hds, hdc, hdg, hop⟩
    · have : as' = as := hargs.eq_of (fun d hd a b hab => by
        simpa [RelabelRel, hdeps d hd] using hab)
      rw [this]; exact hc
    · rw [hds] at hargs
      rw [hop] at hc ⊢
      cases hargs with
      | cons h1 hrest =>
        cases hrest with
        | cons h2 hnil =>
          cases hnil
          simp only [RelabelRel, hdc, hdg, if_false, if_true] at h1 h2
          subst h1; subst h2
          exact grouped_relabel_node key relab ρ hkey hinj hnn f dflt _ _ c hc) hD k x c h
  refine ⟨c', hc', hrel, fun hx => ?_⟩
  simpa [RelabelRel, hx] using hrel

/-! ## 2. union of two tables: operations -/

variable [Inhabited β]

/-- C02.3 Row-wise operations are separable: evaluating on the union `A ++ B` (column by
column) and keeping the first `|A|` rows is evaluating on `A`. -/
theorem union_separable_rowwise (f : List β → Except Err β) (argsA argsB : List (List β))
    (n : Nat) (hlen : argsA.length = argsB.length) (hA : ∀ a ∈ argsA, a.length = n)
    (out : List β) (h : rowwise f (List.zipWith (· ++ ·) argsA argsB) = .ok out) :
    rowwise f argsA = .ok (out.take n) := by
  have hok := (rowwise_ok_iff f _ out).1 h
  obtain ⟨hne, hall, _⟩ := hok
  have htake : ∀ (as bs : List (List β)), as.length = bs.length → (∀ a ∈ as, a.length = n) →
      (List.zipWith (· ++ ·) as bs).map (·.take n) = as := by
    intro as
    induction as with
    | nil => intro bs _ _; simp
    | cons a as ih =>
      intro bs hl ha
      cases bs with
      | nil => simp at hl
      | cons b bs =>
        simp only [List.length_cons, Nat.add_right_cancel_iff] at hl
        simp only [List.zipWith_cons_cons, List.map_cons, List.cons.injEq]
        refine ⟨?_, ih bs hl fun x hx => ha x (List.mem_cons_of_mem _ hx)⟩
        rw [← ha a List.mem_cons_self]
        exact List.take_left
  have hn : n ≤ out.length := by
    cases argsA with
    | nil => simp at hne
    | cons a as =>
      cases argsB with
      | nil => simp at hlen
      | cons b bs =>
        have := hall (a ++ b) (by simp)
        rw [← this, List.length_append, hA a List.mem_cons_self]
        omega
  have := (rowwise_local f out.length n hn) _ hall out h
  rw [htake argsA argsB hlen hA] at this
  exact this.2

/-- C02.4 Grouped aggregation is separable when no group id occurs in both parts: aggregating
the union and keeping the first `|A|` rows is aggregating `A`. -/
theorem union_separable_grouped {γ : Type} (f : γ → γ → γ) (dflt : γ) (colA colB : List γ)
    (gidA gidB : List Int) (hA : Agg.WF gidA colA) (hB : Agg.WF gidB colB)
    (hdisj : ∀ g ∈ gidA, g ∉ gidB) :
    (Agg.grouped f dflt (colA ++ colB) (gidA ++ gidB)).map (·.take colA.length) =
      Agg.grouped f dflt colA gidA := by
  rw [← hA.1]
  exact grouped_union_take f dflt colA colB gidA gidB hA hB hdisj

/-- C02.4' … and dropping the first `|A|` rows is aggregating `B`. -/
theorem union_separable_grouped_snd {γ : Type} (f : γ → γ → γ) (dflt : γ) (colA colB : List γ)
    (gidA gidB : List Int) (hA : Agg.WF gidA colA) (hB : Agg.WF gidB colB)
    (hdisj : ∀ g ∈ gidA, g ∉ gidB) :
    (Agg.grouped f dflt (colA ++ colB) (gidA ++ gidB)).map (·.drop colA.length) =
      Agg.grouped f dflt colB gidB := by
  rw [← hA.1]
  exact grouped_union_drop f dflt colA colB gidA gidB hA hB hdisj

omit [Inhabited β] in
/-- C02.4'' the aggregation node is local for every cut that does not separate a group -/
theorem union_separable_grouped_node (key : β → Int) (f : β → β → β) (dflt : β) (N n : Nat)
    (hn : n ≤ N) (col gid c : List β) (hcol : col.length = N) (hgid : gid.length = N)
    (hsep : ∀ a ∈ gid.take n, ∀ b ∈ gid.drop n, key a ≠ key b)
    (hc : groupedOp key f dflt [col, gid] = .ok c) :
    c.length = N ∧ groupedOp key f dflt [col.take n, gid.take n] = .ok (c.take n) :=
  groupedOp_union key f dflt N n hn col gid c hcol hgid hsep hc

/-! ## 3. union of two tables: systems -/

omit [Inhabited β] in
/-- C02.5 Lifting for local operations: if every operation of the system is `LocalOp N n`
(restricting the inputs to the first `n` of `N` rows restricts the output) and all data columns
have `N` rows, then running the system on the first `n` rows of the data gives the first `n`
rows of every computed column. -/
theorem simulate_union_local (N n : Nat) (S : Sys (List β)) (D : Data (List β))
    (hS : ∀ x node, find? S x = some node → LocalOp N n node.op)
    (hD : ∀ p ∈ D, p.2.length = N)
    (k : Nat) (x : Name) (c : List β) (h : eval S D k x = .ok c) :
    c.length = N ∧ eval S (D.map fun p => (p.1, p.2.take n)) k x = .ok (c.take n) := by
  have hDrel : DataRel (fun _ => TakeRel N n) D (D.map fun p => (p.1, p.2.take n)) := by
    clear h
    unfold DataRel
    induction D with
    | nil => exact .nil
    | cons p D ih =>
      exact .cons ⟨rfl, hD p List.mem_cons_self, rfl⟩
        (ih fun q hq => hD q (List.mem_cons_of_mem _ hq))
  obtain ⟨c', hc', hlen, rfl⟩ := eval_respects_named (fun _ => TakeRel N n) S D _ (by
    intro y node hy as as' hargs c hc
    obtain ⟨rfl, hN⟩ := (forall₂_takeRel_iff N n as as').1 hargs.forall₂
    obtain ⟨h1, h2⟩ := hS y node hy as hN c hc
    exact ⟨_, h2, h1, rfl⟩) hDrel k x c h
  exact ⟨hlen, hc'⟩

/-- C02.6 Separability of a system of row-wise nodes and aggregations. `G` are the id columns
(data), every function node is a value column that is row-wise or aggregates a value column by
an id column. If in the data `D` (all columns `N` rows) no id column has a group id on both
sides of the cut after row `n` (that is `DataRel (UnionRel …) D D'` with `D'` the first `n` rows),
then the run on the sub-population `D'` returns the first `n` rows of the run on `D`. -/
theorem simulate_union (key : β → Int) (G : List Name) (N n : Nat) (hn : n ≤ N)
    (S : Sys (List β)) (D D' : Data (List β))
    (hS : ∀ x node, find? S x = some node →
      x ∉ G ∧ (IsRowwise node ∨ IsGroupedBy key G node))
    (hD : DataRel (UnionRel N n key G) D D')
    (k : Nat) (x : Name) (c : List β) (h : eval S D k x = .ok c) :
    c.length = N ∧ eval S D' k x = .ok (c.take n) := by
  obtain ⟨c', hc', hlen, rfl, _⟩ := eval_respects_named (UnionRel N n key G) S D D' (by
    intro y node hy as as' hargs c hc
    obtain ⟨hyG, hkind⟩ := hS y node hy
    rcases hkind with ⟨f, hop⟩ | ⟨f, dflt, dc, dg, hds, _, hdg, hop⟩
    · have hF : List.Forall₂ (TakeRel N n) as as' :=
        hargs.forall₂_of_imp (fun _ a b hab => ⟨hab.1, hab.2.1⟩)
      obtain ⟨rfl, hN⟩ := (forall₂_takeRel_iff N n as as').1 hF
      rw [hop] at hc ⊢
      obtain ⟨h1, h2⟩ := rowwise_local f N n hn as hN c hc
      exact ⟨_, h2, h1, rfl, fun hx => absurd hx hyG⟩
    · rw [hds] at hargs
      rw [hop] at hc ⊢
      cases hargs with
      | cons h1 hrest =>
        cases hrest with
        | cons h2 hnil =>
          cases hnil
          obtain ⟨hcol, rfl, _⟩ := h1
          obtain ⟨hgid, rfl, hsep⟩ := h2
          obtain ⟨h1, h2⟩ := groupedOp_union key f dflt N n hn _ _ c hcol hgid (hsep hdg) hc
          exact ⟨_, h2, h1, rfl, fun hx => absurd hx hyG⟩) hD k x c h
  exact ⟨hlen, hc'⟩

omit [Inhabited β] in
/-- C02.6' explicit form of the data hypothesis of `simulate_union`: all columns have `N` rows
and no id column has an id on both sides of the cut; `D'` is `D` cut after row `n`. -/
theorem union_data_rel (key : β → Int) (G : List Name) (N n : Nat) (D : Data (List β))
    (hD : ∀ p ∈ D, p.2.length = N)
    (hsep : ∀ p ∈ D, p.1 ∈ G → ∀ a ∈ p.2.take n, ∀ b ∈ p.2.drop n, key a ≠ key b) :
    DataRel (UnionRel N n key G) D (D.map fun p => (p.1, p.2.take n)) := by
  unfold DataRel
  induction D with
  | nil => exact .nil
  | cons p D ih =>
    exact .cons ⟨rfl, hD p List.mem_cons_self, rfl, hsep p List.mem_cons_self⟩
      (ih (fun q hq => hD q (List.mem_cons_of_mem _ hq))
        (fun q hq => hsep q (List.mem_cons_of_mem _ hq)))

/-- C02.7 The same for the second part of the table (the rows after the first `n`). -/
theorem simulate_union_snd (key : β → Int) (G : List Name) (N n : Nat) (hn : n ≤ N)
    (S : Sys (List β)) (D D' : Data (List β))
    (hS : ∀ x node, find? S x = some node →
      x ∉ G ∧ (IsRowwise node ∨ IsGroupedBy key G node))
    (hD : DataRel (UnionRelSnd N n key G) D D')
    (k : Nat) (x : Name) (c : List β) (h : eval S D k x = .ok c) :
    c.length = N ∧ eval S D' k x = .ok (c.drop n) := by
  obtain ⟨c', hc', hlen, rfl, _⟩ := eval_respects_named (UnionRelSnd N n key G) S D D' (by
    intro y node hy as as' hargs c hc
    obtain ⟨hyG, hkind⟩ := hS y node hy
    rcases hkind with ⟨f, hop⟩ | ⟨f, dflt, dc, dg, hds, _, hdg, hop⟩
    · have hF' : List.Forall₂ (DropRel N n) as as' :=
        hargs.forall₂_of_imp (fun _ a b hab => ⟨hab.1, hab.2.1⟩)
      obtain ⟨rfl, hN⟩ := (forall₂_dropRel_iff N n as as').1 hF'
      rw [hop] at hc ⊢
      obtain ⟨h1, h2⟩ := rowwise_local_snd f N n as hN c hc
      exact ⟨_, h2, h1, rfl, fun hx => absurd hx hyG⟩
    · rw [hds] at hargs
      rw [hop] at hc ⊢
      cases hargs with
      | cons h1 hrest =>
        cases hrest with
        | cons h2 hnil =>
          cases hnil
          obtain ⟨hcol, rfl, _⟩ := h1
          obtain ⟨hgid, rfl, hsep⟩ := h2
          obtain ⟨h1, h2⟩ := groupedOp_union_snd key f dflt N n hn _ _ c hcol hgid (hsep hdg) hc
          exact ⟨_, h2, h1, rfl, fun hx => absurd hx hyG⟩) hD k x c h
  exact ⟨hlen, hc'⟩

omit [Inhabited β] in
/-- C02.7' explicit data for the second part -/
theorem union_data_rel_snd (key : β → Int) (G : List Name) (N n : Nat) (D : Data (List β))
    (hD : ∀ p ∈ D, p.2.length = N)
    (hsep : ∀ p ∈ D, p.1 ∈ G → ∀ a ∈ p.2.take n, ∀ b ∈ p.2.drop n, key a ≠ key b) :
    DataRel (UnionRelSnd N n key G) D (D.map fun p => (p.1, p.2.drop n)) := by
  unfold DataRel
  induction D with
  | nil => exact .nil
  | cons p D ih =>
    exact .cons ⟨rfl, hD p List.mem_cons_self, rfl, hsep p List.mem_cons_self⟩
      (ih (fun q hq => hD q (List.mem_cons_of_mem _ hq))
        (fun q hq => hsep q (List.mem_cons_of_mem _ hq)))

/-- C02.8 Separability, both parts together: if the table `D` (all columns `N` rows) is cut
after row `n` without cutting a group, every column computed on `D` is the column computed on
the first part followed by the column computed on the second part. -/
theorem simulate_union_both (key : β → Int) (G : List Name) (N n : Nat) (hn : n ≤ N)
    (S : Sys (List β)) (D : Data (List β))
    (hS : ∀ x node, find? S x = some node →
      x ∉ G ∧ (IsRowwise node ∨ IsGroupedBy key G node))
    (hD : ∀ p ∈ D, p.2.length = N)
    (hsep : ∀ p ∈ D, p.1 ∈ G → ∀ a ∈ p.2.take n, ∀ b ∈ p.2.drop n, key a ≠ key b)
    (k : Nat) (x : Name) (c : List β) (h : eval S D k x = .ok c) :
    ∃ cA cB, eval S (D.map fun p => (p.1, p.2.take n)) k x = .ok cA ∧
      eval S (D.map fun p => (p.1, p.2.drop n)) k x = .ok cB ∧ c = cA ++ cB :=
  ⟨c.take n, c.drop n,
    (simulate_union key G N n hn S D _ hS (union_data_rel key G N n D hD hsep) k x c h).2,
    (simulate_union_snd key G N n hn S D _ hS (union_data_rel_snd key G N n D hD hsep) k x c h).2,
    (List.take_append_drop n c).symm⟩

/-! ### non-vacuity: 4 rows = households {7} (rows 0,1) and {3} (rows 2,3) -/

private def sub2 : List Rat → Except Err Rat
  | [a, b] => .ok (a - b)
  | _ => .error .typeError
private def quarter : List Rat → Except Err Rat
  | [a] => .ok (a / 4)
  | _ => .error .typeError

private def S0 : Sys (List Rat) :=
  [("tax", ⟨["inc"], rowwise quarter⟩),
   ("net", ⟨["inc", "tax"], rowwise sub2⟩),
   ("hh_net", ⟨["net", "hh"], groupedOp Rat.num (· + ·) 0⟩),
   ("rest", ⟨["hh_net", "net"], rowwise sub2⟩)]
private def D0 : Data (List Rat) :=
  [("inc", [100, 40, 60, 8]), ("hh", [7, 7, 3, 3]), ("tax", [10, 4, 6, 0])]
private def DA : Data (List Rat) := D0.map fun p => (p.1, p.2.take 2)

example : eval S0 D0 4 "rest" = .ok [36, 90, 8, 54] := by decide +kernel
example : eval S0 DA 4 "rest" = .ok [36, 90] := by decide +kernel
example : eval S0 (D0.map fun p => (p.1, p.2.drop 2)) 4 "rest" = .ok [8, 54] := by decide +kernel
/-- the hypotheses of `union_data_rel` hold for the cut after row 2 -/
example : (∀ p ∈ D0, p.2.length = 4) ∧
    ∀ p ∈ D0, p.1 ∈ ["hh"] → ∀ a ∈ p.2.take 2, ∀ b ∈ p.2.drop 2, Rat.num a ≠ Rat.num b := by
  decide +kernel
/-- … and fail for the cut after row 1, where indeed the sub-population result differs -/
example : eval S0 (D0.map fun p => (p.1, p.2.take 1)) 4 "rest" = .ok [0] := by decide +kernel
/-- node hypothesis of `simulate_union` / `relabel_invariance` for `S0` with `G = ["hh"]` -/
private theorem S0_kinds : ∀ x node, find? S0 x = some node →
    x ∉ ["hh"] ∧ (IsRowwise node ∨ IsGroupedBy Rat.num ["hh"] node) := by
  intro n node h
  have hm := find?_mem S0 n node h
  simp only [S0, List.mem_cons, Prod.mk.injEq, List.not_mem_nil, or_false] at hm
  rcases hm with ⟨rfl, rfl⟩ | ⟨rfl, rfl⟩ | ⟨rfl, rfl⟩ | ⟨rfl, rfl⟩
  · exact ⟨by decide, Or.inl ⟨_, rfl⟩⟩
  · exact ⟨by decide, Or.inl ⟨_, rfl⟩⟩
  · exact ⟨by decide, Or.inr ⟨(· + ·), 0, "net", "hh", rfl, by decide, by decide, rfl⟩⟩
  · exact ⟨by decide, Or.inl ⟨_, rfl⟩⟩
/-- relabelling 7 ↦ 107, 3 ↦ 103 (`ρ g = g + 100`, on cells `q ↦ q + 100`) -/
example : eval S0 [("inc", [100, 40, 60, 8]), ("hh", [107, 107, 103, 103]), ("tax", [10, 4, 6, 0])]
    4 "rest" = .ok [36, 90, 8, 54] := by decide +kernel
/-- all hypotheses of `simulate_union_both` hold together for `S0`, `D0`, cut after row 2 -/
example : ∃ cA cB, eval S0 (D0.map fun p => (p.1, p.2.take 2)) 4 "rest" = .ok cA ∧
    eval S0 (D0.map fun p => (p.1, p.2.drop 2)) 4 "rest" = .ok cB ∧ [36, 90, 8, 54] = cA ++ cB :=
  simulate_union_both Rat.num ["hh"] 4 2 (by decide) S0 D0 S0_kinds (by decide) (by decide +kernel)
    4 "rest" _ (by decide +kernel)
/-- all hypotheses of `relabel_invariance` hold together (`ρ g = g + 100`, on cells
`relab q = ↑(q.num + 100)`) -/
example : ∃ c', eval S0 (D0.map fun p =>
      (p.1, if p.1 = "hh" then p.2.map (fun q => ((q.num + 100 : Int) : Rat)) else p.2))
    4 "rest" = .ok c' ∧
      RelabelRel (fun q => ((q.num + 100 : Int) : Rat)) ["hh"] "rest" [36, 90, 8, 54] c' ∧
      ("rest" ∉ ["hh"] → c' = [36, 90, 8, 54]) :=
  relabel_invariance Rat.num (fun q => ((q.num + 100 : Int) : Rat)) (· + 100)
    (fun b => Rat.num_intCast _)
    (fun a b h => by omega) (fun a h => by omega) ["hh"] S0 D0 _
    (fun x node h => by
      have hm := find?_mem S0 x node h
      simp only [S0, List.mem_cons, Prod.mk.injEq, List.not_mem_nil, or_false] at hm
      rcases hm with ⟨rfl, rfl⟩ | ⟨rfl, rfl⟩ | ⟨rfl, rfl⟩ | ⟨rfl, rfl⟩
      · exact ⟨by decide, Or.inl (by decide)⟩
      · exact ⟨by decide, Or.inl (by decide)⟩
      · exact ⟨by decide, Or.inr ⟨(· + ·), 0, "net", "hh", rfl, by decide, by decide, rfl⟩⟩
      · exact ⟨by decide, Or.inl (by decide)⟩)
    (by unfold DataRel RelabelRel D0; simp)
    4 "rest" _ (by decide +kernel)

end GV.Dag
