import GettsimVerif.Lemmas.SimRound
import GettsimVerif.Props.C10
import GettsimVerif.Props.T3
/-!
C10 / C13 on the CONCRETE model of `compute_taxes_and_transfers` (`Core/Simulate.lean`).

`Props/C10.lean` and `Props/C13.lean` are theorems about the abstract functions `Round.roundTo`,
`Round.applyRounding`, `TimeConv.conv`. This file shows that the node operations of the end-to-end
model (`ruleOp`, `timeConvOp`, `groupAggOp`, `nodeOf`, `plan`) use exactly these functions, in
exactly the places the properties talk about:

* C10 "statutory rounding is applied exactly once, on the right grid": §1–§3;
* C10 "columns derived from a rounded column by time-unit conversion or aggregation are not
  rounded again": §4;
* C10 "a rule marked for rounding without a specification is an error": §5; `rounding=False`: §6;
* C13 "time-unit variants differ exactly by the fixed factors; conversion commutes with group
  summation": `Props/C13Sim.lean`.

Vocabulary (defined in `Lemmas/SimRound.lean`):
* `applySpec fn s c`      : the tail of `ruleOp` — the rounding wrapper applied to the column `c`;
* `offVal o`              : the offset denoted by `to_add_after_rounding` (absent = 0);
* `SpecIs s b dir off`    : `s` is a well-formed specification with base `b ≠ 0`, direction `dir`
                            and offset `off`;
* `rnd_necessaryFns targets pr`, `rnd_specsOf params fns`, `planWith`, `planCyclic`: the pieces of `plan`
  (`plan_eq`: `plan` = cycle check, then `rnd_specsOf` on the necessary functions, then `planWith`);
* `Fn.keyed f key`        : `f` is a rule with `params_key_for_rounding = key` (rounding on);
* `FloatArr c`, `FloatCol c`, `convCol u v c`: float arrays and their converted column.
-/
namespace GV.Simulate
open GV.Lang (Val FunDef)
open GV.VecDtype (R DT numOf)
open GV.TimeConv (TUnit)
open GV.Yaml (Y Key)

/-! ## §1 rounding is a post-processing step of the vectorised rule -/

/-- **Rounding happens once, after the rule, never inside.** The column a rule with a rounding
specification `s` produces is `applySpec fn s` applied to the column the SAME rule produces without
any specification: the rounded column is a function of the unrounded column only (and errors of
the rule itself come first). In Python: `_add_rounding_to_one_function` wraps the vectorised
function; it never changes what the function computes. -/
theorem ruleOp_rounding_factor (params : List (String × Val)) (fn : FunDef) (ret : Option Ty)
    (s : RSpec) (free : List String) (cols : List Col) :
    ruleOp params fn ret (some s) free cols
      = (ruleOp params fn ret none free cols) >>= applySpec fn s := by
  rw [ruleOp_eq_K, ruleOp_eq_K, ruleOpK_bind]; rfl

/-- `applySpec` is literally the tail of `ruleOp`: the guard for zero-argument rules with direction
"nearest" (a Python float has no `.round()`), then `roundWith s` on every value, dtype float. -/
theorem applySpec_def (fn : FunDef) (s : RSpec) (c : Col) :
    applySpec fn s c = (do
      if fn.args.isEmpty && (match s.base, s.off, s.direction with
          | .num _, none, .str "nearest" => true
          | .num _, some (.num _), .str "nearest" => true
          | _, _, _ => false) then throw Err.other
      let vals ← c.vals.mapM fun r => do pure (R.f (← roundWith s (numOf r)))
      pure { c with dt := .float, vals, shape := if c.scalar then .npScalar else .arr }) := rfl

/-! ## §2 the wrapper computes `Round.roundTo` or fails -/

/-- **On a well-formed specification the wrapper is `roundTo`**: numeric base `b ≠ 0`, direction
string `d` that parses to `dir`, offset absent (`off = 0`) or numeric. -/
theorem roundWith_eq_roundTo (b : Rat) (d : String) (dir : Round.Dir) (o : Option Y) (off x : Rat)
    (hb : b ≠ 0) (hd : Round.parseDir d = some dir) (ho : offVal o = some off) :
    roundWith { base := .num b, direction := .str d, off := o } x
      = .ok (Round.roundTo b dir off x) :=
  roundWith_of_specIs ⟨d, rfl, hb, rfl, hd, ho⟩ x

/-- the two admissible forms of the offset -/
theorem offVal_cases : offVal none = some 0 ∧ ∀ q, offVal (some (.num q)) = some q := ⟨rfl, fun _ => rfl⟩

example : roundWith { base := .num 5, direction := .str "up", off := none } 17 = .ok 20 ∧
    roundWith { base := .num 5, direction := .str "down", off := some (.num (1/4)) } 17 = .ok (61/4) := by
  decide +kernel
example : (5 : Rat) ≠ 0 ∧ Round.parseDir "up" = some .up ∧ offVal none = some 0 := by decide +kernel

/-- **The wrapper never returns an unrounded value**: whenever `roundWith s x` succeeds, `s` is
well-formed and the result is `roundTo` on its base, direction and offset. -/
theorem roundWith_ok_iff_roundTo (s : RSpec) (x y : Rat) :
    roundWith s x = .ok y ↔ ∃ b dir off, SpecIs s b dir off ∧ y = Round.roundTo b dir off x :=
  roundWith_ok_iff s x y

/-- **Ill-formed specifications are errors** (for every value): a non-numeric base, a base of 0
(the model of the division by zero: `.other` with a valid direction), a direction that is not one
of "up" / "down" / "nearest" (or not a string), a non-numeric offset. -/
theorem roundWith_bad_is_error (s : RSpec) (x : Rat) :
    ((∀ b, s.base ≠ .num b) → roundWith s x = .error .valueError) ∧
    (s.base = .num 0 → ∃ e, roundWith s x = .error e) ∧
    ((∀ d, s.direction ≠ .str d) → ∃ e, roundWith s x = .error e) ∧
    (∀ d, s.direction = .str d → Round.parseDir d = none → ∃ e, roundWith s x = .error e) ∧
    (offVal s.off = none → ∃ e, roundWith s x = .error e) := by
  refine ⟨?_, ?_, ?_, ?_, ?_⟩
  · intro h
    rw [roundWith_unfold]
    split
    · rename_i b hb; exact absurd hb (h b)
    · rfl
  all_goals
    intro h
    try intro h2
    try intro h3
    apply roundWith_error_of_not_specIs
    rintro ⟨b, dir, off, d', hb, hb0, hd, hp, ho⟩
  · rw [hb] at h; cases h; exact hb0 rfl
  · exact h d' hd
  · rw [h2] at hd; cases hd; rw [h3] at hp; cases hp
  · rw [h] at ho; cases ho

example : roundWith { base := .num 0, direction := .str "up", off := none } 17 = .error .other ∧
    roundWith { base := .str "5", direction := .str "up", off := none } 17 = .error .valueError ∧
    roundWith { base := .num 5, direction := .str "Up", off := none } 17 = .error .valueError ∧
    roundWith { base := .num 5, direction := .str "up", off := some (.str "1") } 17 = .error .valueError := by
  decide +kernel

/-! ## §3 the values of a rounded column -/

/-- **The rounded column, value by value.** Let the rule produce `raw` without and `out` with the
well-formed specification `s` (base `b > 0`, direction `dir`, offset `off`). Then `out` is a float
column with as many values as `raw`, its `i`-th value is `roundTo b dir off` of the `i`-th raw
value `x`, and therefore (theorems of `Props/C10.lean`): `y - off` is an integer multiple of `b`,
`|y - off - x| < b`, and `x ≤ y - off < x + b` (up), `x - b < y - off ≤ x` (down),
`|y - off - x| ≤ b/2` (nearest). -/
theorem ruleOp_rounded_values {params : List (String × Val)} {fn : FunDef} {ret : Option Ty}
    {s : RSpec} {free : List String} {cols : List Col} {raw out : Col}
    {b off : Rat} {dir : Round.Dir}
    (hraw : ruleOp params fn ret none free cols = .ok raw)
    (hout : ruleOp params fn ret (some s) free cols = .ok out)
    (hs : SpecIs s b dir off) (hb : 0 < b) :
    out.dt = .float ∧ out.vals.length = raw.vals.length ∧
    out.vals = raw.vals.map (fun r => R.f (Round.roundTo b dir off (numOf r))) ∧
    ∀ i (hi : i < raw.vals.length), ∃ y, out.vals[i]? = some (R.f y) ∧
      (∃ k : Int, y = b * (k : Rat) + off) ∧
      |y - off - numOf raw.vals[i]| < b ∧
      (dir = .up → numOf raw.vals[i] ≤ y - off ∧ y - off < numOf raw.vals[i] + b) ∧
      (dir = .down → numOf raw.vals[i] - b < y - off ∧ y - off ≤ numOf raw.vals[i]) ∧
      (dir = .nearest → |y - off - numOf raw.vals[i]| ≤ b / 2) := by
  rw [ruleOp_rounding_factor, hraw] at hout
  have hout : applySpec fn s raw = .ok out := hout
  rw [applySpec_of_specIs hs] at hout
  split at hout
  · cases hout
  · cases hout
    refine ⟨rfl, by simp, rfl, ?_⟩
    intro i hi
    refine ⟨Round.roundTo b dir off (numOf raw.vals[i]), by simp [hi], ?_, ?_, ?_, ?_, ?_⟩
    · obtain ⟨k, hk⟩ := Round.roundTo_on_grid b off (numOf raw.vals[i]) dir
      exact ⟨k, by linarith⟩
    · exact Round.roundTo_error_lt_step b off _ dir hb
    · rintro rfl; exact Round.roundTo_up_bounds b off _ hb
    · rintro rfl; exact Round.roundTo_down_bounds b off _ hb
    · rintro rfl; exact Round.roundTo_nearest_bounds b off _ hb

/-- **No silently unrounded column**: if a rule with a specification returns a non-empty column at
all, the specification is well-formed (so the theorem above applies) and the "nearest" guard for
zero-argument rules did not fire. -/
theorem ruleOp_rounded_ok_spec {params : List (String × Val)} {fn : FunDef} {ret : Option Ty}
    {s : RSpec} {free : List String} {cols : List Col} {out : Col}
    (hout : ruleOp params fn ret (some s) free cols = .ok out) :
    ∃ raw, ruleOp params fn ret none free cols = .ok raw ∧ applySpec fn s raw = .ok out ∧
      out.dt = .float ∧ out.vals.length = raw.vals.length ∧
      (raw.vals = [] ∨ ∃ b dir off, SpecIs s b dir off) := by
  rw [ruleOp_rounding_factor] at hout
  obtain ⟨raw, hraw, ha⟩ := bind_ok hout
  obtain ⟨_, h1, h2, h3⟩ := applySpec_ok ha
  exact ⟨raw, hraw, ha, h1, h2, h3⟩

namespace C10SimExamples
open T3Examples

def xCol : Col := { dt := .float, vals := [.f 1, .f (5/2), .f (-3)] }
def up5 : RSpec := { base := .num 5, direction := .str "up", off := none }
def near2 : RSpec := { base := .num 2, direction := .str "nearest", off := some (.num (1/4)) }

/-- the hypotheses of `ruleOp_rounded_values` hold for `a_m(x) = x * 2` rounded up to multiples of 5
(and to the nearest multiple of 2, plus 1/4) -/
example : SpecIs up5 5 .up 0 ∧ SpecIs near2 2 .nearest (1/4) ∧ (0 : Rat) < 5 :=
  ⟨⟨"up", rfl, by decide, rfl, by decide, rfl⟩, ⟨"nearest", rfl, by decide, rfl, by decide, rfl⟩, by decide⟩
example : (match ruleOp [] amFn (some .float) none ["x"] [xCol],
      ruleOp [] amFn (some .float) (some up5) ["x"] [xCol],
      ruleOp [] amFn (some .float) (some near2) ["x"] [xCol] with
    | .ok raw, .ok out, .ok out2 =>
      raw.vals == [.f 2, .f 5, .f (-6)] && out.vals == [.f 5, .f 5, .f (-5)] &&
      out2.vals == [.f (9/4), .f (17/4), .f (-23/4)]
    | _, _, _ => false) = true := by decide +kernel

end C10SimExamples
/-! ## §4 only rules carry a rounding wrapper -/

/-- **Derived columns are never rounded again.** The node of a function that is not a rule — a
time-unit conversion, a group aggregation, a `p_id` aggregation, an id constructor — does not
depend on the table of rounding specifications at all; and the node of a rule depends on it only
through the entry under the rule's own name. -/
theorem nodeOf_rounding_only_rules (params : List (String × Val)) (specs specs' : List (String × RSpec))
    (f : Fn) :
    ((∀ fn ret key, f.kind ≠ .rule fn ret key) → nodeOf params specs f = nodeOf params specs' f) ∧
    (find? specs f.name = find? specs' f.name → nodeOf params specs f = nodeOf params specs' f) :=
  ⟨fun h => rnd_nodeOf_congr params specs specs' f fun ⟨fn, ret, key, hk⟩ => absurd hk (h fn ret key),
   fun h => rnd_nodeOf_congr params specs specs' f fun _ => h⟩

/-- The operations of the derived nodes are the bare converters / aggregations (whatever the
source column is — rounded or not), those of a rule are the rule with the wrapper for the entry
found under its name (`ruleOp_rounding_factor`: that is the unrounded rule followed by
`applySpec`), or the bare rule if there is no entry. -/
theorem nodeOf_ops (params : List (String × Val)) (specs : List (String × RSpec)) (f : Fn) :
    (∀ src u v, f.kind = .timeConv src u v → (nodeOf params specs f).op = timeConvOp u v) ∧
    (∀ a src gid, f.kind = .groupAgg a src gid → (nodeOf params specs f).op = groupAggOp a) ∧
    (∀ src ptr, f.kind = .pidSum src ptr → (nodeOf params specs f).op = pidSumOp) ∧
    (∀ g, f.kind = .grouping g → (nodeOf params specs f).op = groupingOp g) ∧
    (∀ fn ret key, f.kind = .rule fn ret key →
      (nodeOf params specs f).op = ruleOp params fn ret (find? specs f.name) (freeArgs params f)) := by
  unfold nodeOf
  refine ⟨?_, ?_, ?_, ?_, ?_⟩ <;> intros <;> simp only [*]

/-- **`plan` looks up specifications for keyed rules only.** If `plan` succeeds, it used a table
`specs` (`rnd_specsOf` of the necessary functions) such that
* every node of the system is `nodeOf params specs f` for a necessary function `f`;
* every entry `(n, s)` of `specs` belongs to a necessary function called `n` that is a rule with
  a rounding key `key`, and `s` is what `roundingSpecOf params key n` delivers;
* consequently a name under which no necessary keyed rule is registered has no entry: the node of
  an un-keyed rule `f` (and of every derived function) is the bare operation. -/
theorem plan_specs_only_keyed_rules {params : List (String × Val)} {targets : List String}
    {pr : Prep} {p : Plan} (h : plan params targets pr = .ok p) :
    ∃ specs, rnd_specsOf params (rnd_necessaryFns targets pr) = .ok specs ∧
      (∀ e ∈ p.sys, ∃ f ∈ rnd_necessaryFns targets pr, e = (f.name, nodeOf params specs f)) ∧
      (∀ e ∈ specs, ∃ f ∈ rnd_necessaryFns targets pr, ∃ key, Fn.keyed f key ∧ e.1 = f.name ∧
        roundingSpecOf params key f.name = .ok e.2) ∧
      (∀ n, (∀ f ∈ rnd_necessaryFns targets pr, f.name = n → ∀ key, ¬ Fn.keyed f key) →
        find? specs n = none) := by
  obtain ⟨_, specs, hs, hp⟩ := rnd_plan_ok h
  exact ⟨specs, hs, planWith_sys hp, specsOf_ok_mem hs, specsOf_find_none hs⟩

/-- `rnd_necessaryFns` is the list `necessary` of `plan`: the functions that are not overridden by data
and that `dags.create_dag` keeps for the targets; `plan` is the cycle check, the look-up of the
specifications of these functions, and the rest (`planWith`). -/
theorem plan_decomposition (params : List (String × Val)) (targets : List String) (pr : Prep) :
    plan params targets pr =
      if planCyclic targets pr then .error .other
      else rnd_specsOf params (rnd_necessaryFns targets pr) >>= planWith params targets pr :=
  plan_eq params targets pr

/-! ## §5 a keyed rule without a specification is an error -/

/-- **`params[key]["rounding"][name]` must exist and contain `base` and `direction`.** The look-up
succeeds exactly if `params[key]` is a tree with these entries; the offset is optional. -/
theorem roundingSpecOf_ok_iff (params : List (String × Val)) (key name : String) (s : RSpec) :
    roundingSpecOf params key name = .ok s ↔
      ∃ p r spec b d, find? params key = some (.tree p) ∧ p.get? (.s "rounding") = some r ∧
        r.get? (.s name) = some spec ∧ spec.get? (.s "base") = some b ∧
        spec.get? (.s "direction") = some d ∧
        s = { base := b, direction := d, off := spec.get? (.s "to_add_after_rounding") } :=
  roundingSpecOf_ok_iff_aux params key name s

/-- … and every failure is a `KeyError`. -/
theorem roundingSpecOf_error_is_keyError {params : List (String × Val)} {key name : String} {e : Err}
    (h : roundingSpecOf params key name = .error e) : e = .keyError :=
  roundingSpecOf_error h

/-- **A rule marked for rounding without a specification is an error, not a silent no-op.** If a
necessary function is a rule with rounding key `key` and the look-up of its specification fails,
`plan` fails — with `KeyError`, unless the cycle check (which comes first) already failed. -/
theorem plan_missing_spec_is_error {params : List (String × Val)} {targets : List String} {pr : Prep}
    {f : Fn} {fn : FunDef} {ret : Option Ty} {key : String} {e : Err}
    (hf : f ∈ rnd_necessaryFns targets pr) (hk : f.kind = .rule fn ret (some key))
    (he : roundingSpecOf params key f.name = .error e) :
    plan params targets pr = .error (if planCyclic targets pr then .other else .keyError) := by
  rw [plan_eq, specsOf_missing hf ⟨fn, ret, hk⟩ he]
  split <;> rfl

/-! ## §6 `rounding = False` -/

/-- **With `rounding=False` no rule is keyed**: `_vectorize_func` result carries no rounding key,
whatever `params_key_for_rounding` says … -/
theorem ruleFn_rounding_off (r : Rule) :
    (ruleFn false r).kind = .rule r.fn r.ret none ∧ ∀ key, ¬ Fn.keyed (ruleFn false r) key :=
  ⟨rfl, fun key ⟨_, _, h⟩ => by cases h⟩

/-- … and with rounding on it carries exactly the rule's key. -/
theorem ruleFn_rounding_on (r : Rule) : (ruleFn true r).kind = .rule r.fn r.ret r.roundingKey := rfl

/-- … so that a set of functions without keyed rules gets the EMPTY table of specifications: no
look-up (hence no `KeyError`), and by `nodeOf_ops` every rule node is the bare `ruleOp … none`. -/
theorem specsOf_rounding_off {params : List (String × Val)} {fns : List Fn}
    (h : ∀ f ∈ fns, ∀ key, ¬ Fn.keyed f key) : rnd_specsOf params fns = .ok [] :=
  specsOf_no_key h


/-- **`rounding=False` end to end.** For the function set built from the rules vectorised with
`rounding=False` (`simulate` with `inp.rounding = false`), `plan` looks up nothing — it cannot fail
with the `KeyError` of a missing specification — and builds every node from the EMPTY table: each
rule node is the bare rule, `ruleOp params fn ret none` (no `applySpec`). Together with
`simulate_rounding_off_eq` (`Props/T3.lean`: the keys can be erased without changing the result)
this is the whole content of the switch. -/
theorem plan_rounding_off {rules : List Rule} {gs : List (String × GroupSpec)}
    {ps : List (String × PidSpec)} {data : List (String × Column)} {targets : List String} {pr : Prep}
    (params : List (String × Val))
    (h : prepare (rules.map (ruleFn false)) gs ps data targets = .ok pr) :
    rnd_specsOf params (rnd_necessaryFns targets pr) = .ok [] ∧
    plan params targets pr =
      (if planCyclic targets pr then .error .other else planWith params targets pr []) ∧
    ∀ p, plan params targets pr = .ok p → ∀ e ∈ p.sys, ∃ f ∈ rnd_necessaryFns targets pr,
      e = (f.name, nodeOf params [] f) ∧
      ∀ fn ret key, f.kind = .rule fn ret key →
        (nodeOf params [] f).op = ruleOp params fn ret none (freeArgs params f) := by
  have hs : rnd_specsOf params (rnd_necessaryFns targets pr) = .ok [] :=
    specsOf_no_key fun f hf => prepare_rounding_off_not_keyed h f (mem_necessaryFns hf)
  have hp : plan params targets pr =
      (if planCyclic targets pr then .error .other else planWith params targets pr []) := by
    rw [plan_eq, hs]; rfl
  refine ⟨hs, hp, ?_⟩
  intro p hpl e he
  rw [hp] at hpl
  split at hpl
  · cases hpl
  · obtain ⟨f, hf, rfl⟩ := planWith_sys hpl e he
    exact ⟨f, hf, rfl, fun fn ret key hk => (nodeOf_ops params [] f).2.2.2.2 fn ret key hk⟩

/-! ### non-vacuity of §4–§6: the toy system `T3Examples.okSys`
(`a_m(x) = x * 2` with key "grp", rounded up to multiples of 5; targets `a_y`, `a_m_hh`) -/
namespace C10SimExamples
open T3Examples

def tg : List String := sortDedup okSys.targets

/-- a derived function is not a rule (hypothesis of `nodeOf_rounding_only_rules`) -/
example : ∀ fn ret key, ({ name := "a_y", args := ["a_m"], ann := none, kind := .timeConv "a_m" .m .y } : Fn).kind
    ≠ .rule fn ret key := by intro _ _ _ h; cases h

/-- `plan` succeeds on `okSys` (hypothesis of `plan_specs_only_keyed_rules`); the necessary functions
are the rule `a_m` and the derived `a_m_hh`, `a_y`, and the table of specifications has the single
entry `a_m`: the derived columns get no wrapper although they are computed from a rounded column -/
example : (match prepare (okSys.rules.map (ruleFn true)) [] [] okSys.data tg with
    | .ok pr =>
      (plan okSys.params tg pr).toBool &&
      (rnd_necessaryFns tg pr).map (·.name) == ["a_y", "a_m", "a_m_hh"] &&
      (match rnd_specsOf okSys.params (rnd_necessaryFns tg pr) with
       | .ok specs => specs.map (·.1) == ["a_m"]
       | .error _ => false)
    | .error _ => false) = true := by decide +kernel

/-- hypotheses of `plan_missing_spec_is_error`: without the parameter group "grp" the necessary keyed
rule `a_m` has no specification; `plan` fails with `KeyError` -/
example : (match prepare (okSys.rules.map (ruleFn true)) [] [] okSys.data tg with
    | .ok pr =>
      (rnd_necessaryFns tg pr).any (fun f => match f.kind with
        | .rule _ _ (some key) => !(roundingSpecOf [] key f.name).toBool
        | _ => false) &&
      (match plan [] tg pr with | .error .keyError => true | _ => false)
    | .error _ => false) = true := by decide +kernel

/-- … and also if the group exists but the entry lacks `direction` -/
example : (roundingSpecOf [("grp", .tree (.dict [(.s "rounding",
      .dict [(.s "a_m", .dict [(.s "base", .num 5)])])]))] "grp" "a_m").toBool = false := by decide +kernel
example : (roundingSpecOf okSys.params "grp" "a_m").toBool = true := by decide +kernel

/-- hypothesis of `plan_rounding_off`: the preparation with `rounding=False` succeeds, and so does
`plan` even WITHOUT any parameters (no look-up happens) -/
example : (match prepare (okSys.rules.map (ruleFn false)) [] [] okSys.data tg with
    | .ok pr => (plan [] tg pr).toBool
    | .error _ => false) = true := by decide +kernel

end C10SimExamples
end GV.Simulate
