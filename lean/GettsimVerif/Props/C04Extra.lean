import GettsimVerif.Lemmas.SimExtraCol
/-
Property C04, second half, for the CONCRETE end-to-end model `GV.Simulate.simulate`
(`compute_taxes_and_transfers` for toy systems):

  "The value of any computable column does not depend … on additional unused columns in the data."

The abstract version (`Props/C04.lean`, `Dag.extra_data_irrelevant`) holds for every column that is
not reachable from the target. In the concrete model (= in the Python code) an additional data
column `n` enters in FIVE places besides the evaluation of the DAG, and "unused" has to exclude each:

 (D) DATA CHECKS (`_process_and_check_data`): duplicate column names are rejected; `p_id` must be
     present and unique; the four foreign keys are validated; every column called `…_hh`, `…_bg`, …
     must be constant within the groups if the id column `hh_id`, `bg_id`, … is supplied.
 (T) TYPES: every column must be a homogeneous `bool` / `int` / `float` column, and a column called
     like a documented input variable (`TYPES_INPUT_VARIABLES`) is converted to its internal type;
     both fail for ANY supplied column, used or not.
 (F) FUNCTION SET (`load_and_check_functions`) — derived from the NAMES of the data columns:
     a function called `n` is overridden; time conversions `n_y`, `n_w`, … of a data column `n_m`
     are created last and win over those derived from functions; an automatic group sum `n_hh` is
     created for every argument / target / spec source `n_hh` whose base `n` is a data column; a
     p_id aggregation whose source is neither a rule, a data column nor derived from one is
     silently dropped and appears when its source is supplied; the columns that override functions
     are converted to the return annotation of these functions.
 (G) GRAPH (`dags.create_dag`, `_fail_if_root_nodes_are_missing`): a column that a needed function
     reads is a root of the DAG; without it the call fails.
 (O) ORDER: the dictionaries are filled in the order of the data columns (last one wins).

`simulate_extra_column` proves that the WHOLE result (table or error) is unchanged when a column is
added whose name passes the computable check `xc_unused` ((D), (F), (G)) and whose values pass
`xc_colOk` ((T)). Every conjunct of the two checks is shown to be indispensable by a
`decide +kernel` counterexample in which all the other conjuncts hold (`ExtraCol.cex…`).
`simulate_extra_column_stable` uses the simpler (stronger) check "`all_functions` is literally the
same"; `simulate_extra_columns` adds several columns; `simulate_column_order_false` shows that the
ORDER of the data columns does matter (O).
-/
namespace GV.Simulate
open GV.Lang (Val)

/-- **An unused additional data column changes nothing.** Let `c` be a column that the type
inference accepts and whose conversion to the internal type (only if `n` is one of
`TYPES_INPUT_VARIABLES`) succeeds (`xc_colOk n c`), and let `n` be an unused name for `inp`
(`xc_unused inp n`, a computable check on the NAMES only), i.e.
* (D1) `n` is not yet a data column (`xc_fresh`),
* (D2) `n` is none of `p_id`, the four foreign keys `p_id_ehepartner`, `p_id_einstandspartner`,
  `p_id_elternteil_1/2`, and the group ids `hh_id`, `wthh_id`, `fg_id`, … (`xc_notReserved`),
* (D3) `n` does not end in a group suffix `_hh`, `_bg`, … whose id column `hh_id`, `bg_id`, … is
  among the data (`xc_noGroupCheck`),
* (F/G) with and without a data column called `n`, `load_and_check_functions` fails with the same
  error or succeeds both times, and then: no function is called `n`; all targets are functions in
  the one case iff they are in the other; the functions overridden by the OLD data columns carry
  the same return annotations; the functions that survive the pruning of `dags.create_dag` are the
  same (names, parameters, annotations, kinds, order); none of them has a parameter `n`
  (`xc_sameFns`).
Then the call with the additional column `(n, c)` returns LITERALLY the same as the call without:
the same table, or the same error class. Functions that are NOT needed for the targets may change
freely (an unused `noise_m` creates `noise_y`, `noise_w`, `noise_d`; an unused `alter` is read by
the unneeded `fg_id`). No assumption on the length of `c` is needed: the number of result rows
is taken from the FIRST data column and the new column is appended. -/
theorem simulate_extra_column (inp : Input) (n : String) (c : Column)
    (hty : xc_colOk n c = true) (hunused : xc_unused inp n = true) :
    simulate { inp with data := inp.data ++ [(n, c)] } = simulate inp :=
  xc_simulate inp n c hty hunused

/-- **The same with a simpler sufficient condition on the function set.** `xc_unusedStable inp n`
requires (D1)–(D3) as before and, instead of (F/G): `all_functions` of `load_and_check_functions`
is literally the same with and without the data column `n` (`ov_fnsStable` of property C05: every
p_id aggregation spec is kept / dropped as before, `create_time_conversion_functions` returns the
same functions, no argument / target / spec source becomes an automatic group sum because of `n`),
no function is called `n`, and no function needed for the targets has a parameter `n`
(`xc_notNeeded`). -/
theorem simulate_extra_column_stable (inp : Input) (n : String) (c : Column)
    (hty : xc_colOk n c = true) (hunused : xc_unusedStable inp n = true) :
    simulate { inp with data := inp.data ++ [(n, c)] } = simulate inp :=
  xc_simulate inp n c hty (xc_unused_of_stable hunused)

/-- **The same with purely name-based conditions.** `xc_unusedPlain inp n` requires (D1)–(D3) and
* (P1) `n` carries no time-unit suffix (`parse_name n = None`: not `…_y`, `…_m`, `…_w`, `…_d`, nor one
  of these followed by `_hh`, `_bg`, …), so no time conversion is derived from the new column and no
  existing conversion is called `n`;
* (P2) `n` is not the `source_col` of an `aggregate_by_p_id` specification (which would have been
  silently dropped so far);
* (P3) `n` is not what `remove_group_suffix` leaves of a parameter of a function (rule, p_id
  aggregation, time conversion), of a target or of the `source_col` of an aggregation specification,
  so no automatic group sum of `n` appears;
* (G) no function is called `n` and no function needed for the targets has a parameter `n`.
(P1)–(P3) imply that `all_functions` is literally unchanged (`xc_fnsStable_of_plain`). -/
theorem simulate_extra_column_plain (inp : Input) (n : String) (c : Column)
    (hty : xc_colOk n c = true) (hunused : xc_unusedPlain inp n = true) :
    simulate { inp with data := inp.data ++ [(n, c)] } = simulate inp :=
  xc_simulate inp n c hty (xc_unused_of_stable (xc_unusedStable_of_plain hunused))

/-- **A data column without time-unit suffix does not influence the time conversions**:
`create_time_conversion_functions(functions, data_cols + [n]) = create_time_conversion_functions(functions, data_cols)`
whenever `parse_name n = None`; in particular no created function is ever called like such a column
(every created name parses: `TimeConv.xc_derived_parses`). -/
theorem create_extra_plain_column (fs : List (String × List String)) (dc : List String) (n : String)
    (hn : TimeConv.parseName n = none) : TimeConv.create fs (dc ++ [n]) = TimeConv.create fs dc :=
  TimeConv.xc_create_append fs dc n hn

/-- **Float columns always pass (T).** A column of floats (of any length) whose name is not a
documented input variable is accepted by the type inference and is not converted, so for such a
column `xc_unused inp n` alone guarantees that the result is unchanged. -/
theorem simulate_extra_float_column (inp : Input) (n : String) (xs : List Rat)
    (hn : find? typesInputVariables n = none) (hunused : xc_unused inp n = true) :
    simulate { inp with data := inp.data ++ [(n, xs.map Val.flt)] } = simulate inp :=
  xc_simulate inp n _ (xc_colOk_float n xs hn) hunused

/-- **Several unused columns.** If the columns `cols` can be added one after the other, each one
passing the two checks for the data extended by its predecessors (`xc_unusedAll`), the call with
all of them returns literally the same as the call without them. -/
theorem simulate_extra_columns (inp : Input) (cols : List (String × Column))
    (h : xc_unusedAll inp cols = true) :
    simulate { inp with data := inp.data ++ cols } = simulate inp :=
  xc_simulate_all inp cols h

/-- **What the check (F/G) means**: if `xc_sameFns` holds and `load_and_check_functions` succeeds
without the column (`A`), it succeeds with it (`A'`), no function is called `n`, and the functions
needed for the targets (those that survive the pruning of `dags.create_dag`, in dictionary order)
are EQUAL — including the bodies of the rules — and do not read `n`. -/
theorem sameFns_spec {rf : List Fn} {gs : List (String × GroupSpec)} {ps : List (String × PidSpec)}
    {T dc : List String} {n : String} {A : List Fn}
    (h : xc_sameFns rf gs ps T dc n = true) (hA : buildFunctions rf gs ps T dc = .ok A) :
    ∃ A', buildFunctions rf gs ps T (dc ++ [n]) = .ok A' ∧ hasFn A' n = false ∧
      planF (A'.filter fun f => !(dc ++ [n]).contains f.name) (dc ++ [n]) T =
        planF (A.filter fun f => !dc.contains f.name) dc T ∧
      ∀ f ∈ planF (A.filter fun f => !dc.contains f.name) dc T, n ∉ f.args := by
  unfold xc_sameFns at h
  rw [hA] at h
  cases hA' : buildFunctions rf gs ps T (dc ++ [n]) with
  | error e => rw [hA'] at h; cases h
  | ok A' =>
    rw [hA'] at h
    simp only [Bool.and_eq_true, Bool.not_eq_true', beq_iff_eq, List.all_eq_true] at h
    obtain ⟨⟨⟨⟨hn, _⟩, _⟩, hsig⟩, hargs⟩ := h
    refine ⟨A', rfl, hn, ?_, fun f hf => by simpa using hargs f hf⟩
    exact xc_map_sig_eq hA hA' _ _ (fun f hf => (List.mem_filter.1 (xc_planF_sub _ _ _ f hf)).1)
      (fun f hf => (List.mem_filter.1 (xc_planF_sub _ _ _ f hf)).1) hsig

/-! ### non-vacuity and counterexamples -/

namespace ExtraCol
open GV.Lang Examples

def d3 : List (String × Column) := [("p_id", I [0,1,2]), ("hh_id", I [0,0,1]), ("x", F [1, 5/2, 4])]

/-- `a_m(x) = 2x`, `bb(a_m_hh, a_y) = a_m_hh + a_y`: a rule, an automatic group sum (`a_m_hh`) and
a time conversion (`a_y`); targets `bb` and `a_m_hh` -/
def okSys : Input :=
  { rules := [a_m, rule "bb" ["a_m_hh", "a_y"] (add (nm "a_m_hh") (nm "a_y")) (some .float)],
    data := d3, targets := ["bb", "a_m_hh"] }

/-- the hypotheses of `simulate_extra_column` (and of `simulate_extra_column_stable`) hold for the
additional column `noise = [7, 8, 9]` … -/
example : xc_colOk "noise" (F [7, 8, 9]) = true ∧ xc_unused okSys "noise" = true ∧
    xc_unusedStable okSys "noise" = true ∧ xc_unusedPlain okSys "noise" = true := by decide +kernel
example : TimeConv.parseName "noise" = none := by decide +kernel
/-- hypotheses of `simulate_extra_float_column` and of `sameFns_spec` -/
example : find? typesInputVariables "noise" = none := by decide +kernel
example : xc_sameFns (okSys.rules.map (ruleFn okSys.rounding)) [] [] (sortDedup okSys.targets)
      (okSys.data.map (·.1)) "noise" = true ∧
    (match buildFunctions (okSys.rules.map (ruleFn okSys.rounding)) [] [] (sortDedup okSys.targets)
        (okSys.data.map (·.1)) with
      | .ok A => A.map (·.name) == ["a_y", "a_w", "a_d", "a_m", "bb", "a_m_hh", "wthh_id", "fg_id", "bg_id",
          "eg_id", "ehe_id", "sn_id"]
      | .error _ => false) = true := by decide +kernel
/-- … and both calls return `a_m_hh = [7, 7, 8]`, `bb = [31, 67, 104]` -/
example : xc_shown (simulate okSys) = (none, [("a_m_hh", "float", ["7.000000", "7.000000", "8.000000"]),
      ("bb", "float", ["31.000000", "67.000000", "104.000000"])]) ∧
    xc_shown (simulate { okSys with data := okSys.data ++ [("noise", F [7, 8, 9])] }) = xc_shown (simulate okSys) := by
  decide +kernel
example : xc_report okSys "noise" (F [7, 8, 9]) = ⟨true, true, true, true, true, true⟩ := by decide +kernel

/-- `xc_unused` also accepts names that CHANGE the function set as long as the needed functions stay
the same: `noise_m` creates the (unneeded) conversions `noise_y`, …; `alter` is a parameter of the
(unneeded) group id `fg_id` and a documented input variable (converted to `int`: `[20, 30, 40]`
given as floats is fine). The simpler check `xc_unusedStable` rejects `noise_m`. -/
example : xc_report okSys "noise_m" (F [7, 8, 9]) = ⟨true, true, true, true, true, true⟩ ∧
    xc_unusedStable okSys "noise_m" = false ∧
    xc_report okSys "alter" (F [20, 30, 40]) = ⟨true, true, true, true, true, true⟩ := by decide +kernel

/-- several columns at once: hypotheses of `simulate_extra_columns` -/
example : xc_unusedAll okSys [("noise", F [7, 8, 9]), ("noise_m", I [1, 2, 3]), ("alter", I [20, 30, 40])] = true := by
  decide +kernel

/-- an error is preserved as well: `bb` needs `x`; without `x` both calls fail with `ValueError` -/
example : xc_report { okSys with data := [("p_id", I [0,1,2]), ("hh_id", I [0,0,1])] } "noise" (F [7, 8, 9]) =
      ⟨true, true, true, true, true, true⟩ ∧
    xc_shown (simulate { okSys with data := [("p_id", I [0,1,2]), ("hh_id", I [0,0,1])] }) = (some .valueError, []) := by
  decide +kernel

/-! #### (T) `xc_colOk` is necessary -/

/-- a column that mixes `bool` and `int` is rejected (`TypeError`) although nobody reads it -/
example : xc_report okSys "noise" [.int 1, .bool true, .int 3] = ⟨false, true, true, true, true, false⟩ := by
  decide +kernel
/-- the documented input variable `alter` (`int`) supplied with a non-integral float is rejected
(`ValueError`) although nobody needs it -/
example : xc_report okSys "alter" (F [1/2, 30, 40]) = ⟨false, true, true, true, true, false⟩ ∧
    xc_shown (simulate { okSys with data := okSys.data ++ [("alter", F [1/2, 30, 40])] }) = (some .valueError, []) := by
  decide +kernel

/-! #### (D1) `xc_fresh` is necessary -/

/-- a second column called `u` (`u` is not read by anything): duplicate column names are rejected -/
def cexFresh : Input := { rules := [a_m], data := d3 ++ [("u", I [1, 2, 3])], targets := ["a_m"] }
example : xc_report cexFresh "u" (I [1, 2, 3]) = ⟨true, false, true, true, true, false⟩ := by decide +kernel

/-! #### (D2) `xc_notReserved` is necessary -/

/-- `p_id`: the call without `p_id` fails (`ValueError`), with it it succeeds; no needed function reads `p_id` -/
def cexPid : Input := { rules := [a_m], data := [("hh_id", I [0,0,1]), ("x", F [1, 5/2, 4])], targets := ["a_m"] }
example : xc_report cexPid "p_id" (I [0, 1, 2]) = ⟨true, true, false, true, true, false⟩ := by decide +kernel
/-- a foreign key with invalid pointers makes the call fail although nobody reads it -/
example : xc_report okSys "p_id_ehepartner" (I [5, 5, 5]) = ⟨true, true, false, true, true, false⟩ := by
  decide +kernel
/-- `hh_id`: the data contain `z_hh`, which is not checked as long as `hh_id` is absent; supplying
`hh_id` (read by no needed function) switches the check on and the call fails -/
def cexHhId : Input :=
  { rules := [a_m], data := [("p_id", I [0,1,2]), ("x", F [1, 5/2, 4]), ("z_hh", F [1, 2, 3])], targets := ["a_m"] }
example : xc_report cexHhId "hh_id" (I [0, 0, 1]) = ⟨true, true, false, true, true, false⟩ := by decide +kernel

/-! #### (D3) `xc_noGroupCheck` is necessary (and only sufficient) -/

/-- an unused `z_hh` that varies within a household makes the call fail … -/
example : xc_report okSys "z_hh" (F [1, 2, 3]) = ⟨true, true, true, false, true, false⟩ := by decide +kernel
/-- … a constant one does not (the check is sufficient, not necessary) -/
example : xc_report okSys "z_hh" (F [1, 1, 3]) = ⟨true, true, true, false, true, true⟩ := by decide +kernel

/-! #### (F/G) every part of `xc_sameFns` is necessary -/

/-- `sameOutcome`: the p_id aggregation `g` with source = pointer = `k` is silently dropped as
long as `k` does not exist; with an (unused) column `k` it is created and rejected (`ValueError`:
duplicate parameter name) -/
def cexOutcome : Input := { rules := [a_m], data := d3, targets := ["a_m"], pidSpecs := [("g", ⟨"k", "k"⟩)] }
example : xc_report cexOutcome "k" (I [1, 1, 3]) = ⟨true, true, true, true, false, false⟩ ∧
    xc_fnsReport cexOutcome "k" = { sameOutcome := false } := by decide +kernel

/-- `notFn` (the subject of C05): the unneeded rule `ci(x) -> int` is overridden by a column `ci`,
which is converted to the annotation `int` — and rejected if it is not integral; all other parts hold -/
def cexNotFn : Input := { rules := [a_m, rule "ci" ["x"] (it 7) (some .int)], data := d3, targets := ["a_m"] }
example : xc_report cexNotFn "ci" (F [3/2, 1, 3]) = ⟨true, true, true, true, false, false⟩ ∧
    xc_fnsReport cexNotFn "ci" = { sameOutcome := true, notFn := false } := by decide +kernel
/-- … with integral values the result is the same (the check is sufficient, not necessary) -/
example : xc_report cexNotFn "ci" (F [2, 1, 3]) = ⟨true, true, true, true, false, true⟩ := by decide +kernel

/-- `sameTargets`: the p_id aggregation `got` of the non-existing column `k` is silently dropped,
so the target `got` is rejected (`ValueError`); with a column `k` it is computed -/
def cexTargets : Input :=
  { rules := [a_m], data := d3 ++ [("p_id_recv", I [-1, 0, 0])], targets := ["got"],
    pidSpecs := [("got", ⟨"p_id_recv", "k"⟩)] }
example : xc_report cexTargets "k" (F [1, 1, 3]) = ⟨true, true, true, true, false, false⟩ ∧
    xc_fnsReport cexTargets "k" = { sameOutcome := true, sameTargets := false, sameNeeded := false } := by
  decide +kernel

/-- `sameAnn`: the data contain `kind_fg` (and `fg_id`), read by `t(kind_fg)`. With an additional
column `kind` the automatic group sum `kind_fg` (an `int`: sum of the `bool` input variable `kind`)
is created, the OLD column `kind_fg` overrides it and is therefore converted from `bool` to `int`:
`t` returns `[1, 1, 0]` instead of `[True, True, False]`. All other parts hold: the needed functions
are the same and `kind` is read by nothing. -/
def cexAnn : Input :=
  { rules := [rule "t" ["kind_fg"] (nm "kind_fg") none],
    data := d3 ++ [("fg_id", I [0, 0, 1]), ("kind_fg", B [true, true, false])], targets := ["t"] }
example : xc_report cexAnn "kind" (B [true, false, false]) = ⟨true, true, true, true, false, false⟩ ∧
    xc_fnsReport cexAnn "kind" = { sameOutcome := true, sameAnn := false } ∧
    xc_shown (simulate cexAnn) = (none, [("t", "bool", ["True", "True", "False"])]) ∧
    xc_shown (simulate { cexAnn with data := cexAnn.data ++ [("kind", B [true, false, false])] }) =
      (none, [("t", "int", ["1", "1", "0"])]) := by decide +kernel

/-- `sameNeeded`, time conversions: `a_y` (in `okSys` the conversion of the RULE `a_m`) is derived
from an additional data column `a_w`, because the conversions of data columns are created last -/
example : xc_report okSys "a_w" (F [1, 1, 3]) = ⟨true, true, true, true, false, false⟩ ∧
    xc_fnsReport okSys "a_w" = { sameOutcome := true, sameNeeded := false } := by decide +kernel

/-- `sameNeeded`, automatic group sums: `t(k_hh)` fails (`k_hh` is a missing root) as long as there is
no column `k`; with a column `k` (read by no function of the first call!) the automatic sum `k_hh` appears -/
def cexAuto : Input := { rules := [rule "t" ["k_hh"] (nm "k_hh") (some .float)], data := d3, targets := ["t"] }
example : xc_report cexAuto "k" (F [1, 1, 3]) = ⟨true, true, true, true, false, false⟩ ∧
    xc_fnsReport cexAuto "k" = { sameOutcome := true, sameNeeded := false } := by decide +kernel

/-- `notRead` (G): `a_m(x)` without a column `x` fails (`ValueError`, missing root); all other parts hold -/
def cexRead : Input := { rules := [a_m], data := [("p_id", I [0,1,2]), ("hh_id", I [0,0,1])], targets := ["a_m"] }
example : xc_report cexRead "x" (F [1, 1, 3]) = ⟨true, true, true, true, false, false⟩ ∧
    xc_fnsReport cexRead "x" = { sameOutcome := true, notRead := false } := by decide +kernel

/-! #### the name-based conditions (P1)–(P3) of `simulate_extra_column_plain` -/

/-- (P1): the target `k_y` does not exist (`ValueError`) until a column `k_w` is supplied, from which
`k_y` is converted; `k_w` is not a function, is read by nothing, (P2), (P3) and (D) hold -/
def cexUnit : Input := { rules := [a_m], data := d3, targets := ["k_y"] }
example : xc_plainParts cexUnit "k_w" = (false, true, true) ∧
    xc_report cexUnit "k_w" (F [1, 1, 3]) = ⟨true, true, true, true, false, false⟩ ∧
    xc_notNeeded (cexUnit.rules.map (ruleFn cexUnit.rounding)) [] [] (sortDedup cexUnit.targets)
      (cexUnit.data.map (·.1)) "k_w" = true := by decide +kernel
/-- (P2) fails alone for `k` in `cexTargets`, (P3) alone for `k` in `cexAuto`; in both the result differs
(see above) and (D), (G) hold -/
example : xc_plainParts cexTargets "k" = (true, false, true) ∧ xc_plainParts cexAuto "k" = (true, true, false) ∧
    xc_notNeeded (cexTargets.rules.map (ruleFn cexTargets.rounding)) [] cexTargets.pidSpecs
      (sortDedup cexTargets.targets) (cexTargets.data.map (·.1)) "k" = true ∧
    xc_notNeeded (cexAuto.rules.map (ruleFn cexAuto.rounding)) [] [] (sortDedup cexAuto.targets)
      (cexAuto.data.map (·.1)) "k" = true := by decide +kernel
/-- (P1)–(P3) are sufficient, not necessary: `noise_m` violates (P1) but is unused (`xc_unused`) -/
example : xc_plainParts okSys "noise_m" = (false, true, true) ∧ xc_unused okSys "noise_m" = true := by
  decide +kernel

/-- each of these reports is a genuine counterexample to the conclusion of `simulate_extra_column`, e.g. -/
example : simulate { cexAnn with data := cexAnn.data ++ [("kind", B [true, false, false])] } ≠ simulate cexAnn :=
  xc_report_differs (by decide +kernel)

/-! #### (O) the order of the data columns matters -/

def ord1 : Input :=
  { rules := [], data := [("p_id", I [0,1,2]), ("hh_id", I [0,0,1]), ("a_m", F [1, 2, 3]), ("a_w", F [10, 20, 30])],
    targets := ["a_y"] }
def ord2 : Input :=
  { ord1 with data := [("p_id", I [0,1,2]), ("hh_id", I [0,0,1]), ("a_w", F [10, 20, 30]), ("a_m", F [1, 2, 3])] }

/-- with the columns `a_m` and `a_w` both supplied, `a_y` is converted from whichever comes LAST -/
example : xc_shown (simulate ord1) = (none, [("a_y", "float", ["521.785714", "1043.571429", "1565.357143"])]) ∧
    xc_shown (simulate ord2) = (none, [("a_y", "float", ["12.000000", "24.000000", "36.000000"])]) := by
  decide +kernel

end ExtraCol

/- The requested stretch statement

    theorem simulate_column_order (inp : Input) (data' : List (String × Column))
        (h : data'.Perm inp.data) : simulate { inp with data := data' } = simulate inp

is FALSE in the model (and in the Python code): -/

/-- **The order of the data columns matters**: `create_time_conversion_functions` loops over the data
columns and a later column overwrites the conversion derived from an earlier one, so with `a_m` and
`a_w` both in the data the column `a_y` is computed from the one that comes last. -/
theorem simulate_column_order_false :
    ¬ ∀ (inp : Input) (data' : List (String × Column)), data'.Perm inp.data →
      simulate { inp with data := data' } = simulate inp := by
  intro hall
  have h := hall ExtraCol.ord1 ExtraCol.ord2.data
    (List.Perm.cons _ (List.Perm.cons _ (List.Perm.swap _ _ _)))
  have hne : xc_shown (simulate ExtraCol.ord2) ≠ xc_shown (simulate ExtraCol.ord1) := by decide +kernel
  exact hne (xc_shown_congr h)

end GV.Simulate
