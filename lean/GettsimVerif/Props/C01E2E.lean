import GettsimVerif.Lemmas.SimPermE2E
/-
Property C01 END TO END on the executable model `simulate` of `compute_taxes_and_transfers`
(`Core/Simulate.lean`): permuting the rows of the input table permutes the rows of the result
table identically and changes no value.

Vocabulary (`Lemmas/SimPermE2E.lean`, `Lemmas/SimPerm.lean`):
* a row permutation is an index list `σ` with `σ.Perm (List.range n)`; row `k` of the permuted
  table is row `σ[k]` of the original one (`df.iloc[σ]`);
* `permColumn σ c = σ.map (c.getD · default)` on raw columns, `permTable σ tbl` on raw tables
  (input data and result), `permInput σ inp` = `inp` with `data := permTable σ inp.data`;
* `permData σ D` on typed tables (`Col.permute σ` on every column);
* `neededFns inp`: the functions `dags.create_dag` keeps (ancestors of the targets), computed from
  the rules, aggregation specifications, targets and the NAMES of the data columns only;
* `neededPermOK inp`: all of them are vectorized rules WITH a declared return type, `sum_by_p_id`
  wrappers, time conversions or grouped aggregations;
* `noGroupingNeeded inp`: none of them is an id constructor of `groupings.py`.

WHY THIS FORM OF THE SIDE CONDITION. It is a `Bool` computed by running `buildFunctions` and the
name-only pruning `pruneNames` — exactly what `prepare`/`plan` do — on the column NAMES. So (a) it
is closed by `decide +kernel` on a concrete input, (b) it is literally the same for the permuted
input (`pe_neededFns_permInput`), which is what the "fails iff fails" direction needs (the
theorem is applied to the permuted input with the inverse permutation), and (c) it is implied by
and weaker than "every rule is annotated and no id constructor is reachable": rules that are not
ancestors of a target may lack a return annotation, and an id column supplied as data is allowed.
When `prepare` succeeds, `neededFns inp = rnd_necessaryFns (sortDedup inp.targets) pr`
(`pe_neededFns_of_prepare`), so the condition is the one on the prepared function set.

DEVIATIONS from the requested statement: the hypothesis `0 < n` is not needed (dropped); no
hypothesis on the dtype of `p_id` is needed (the `Nodup` hypothesis of `pruned_eval_perm` is
DERIVED from `checkData` + `convertData`: `pe_prepare_pid`).
-/
namespace GV.Simulate
open GV.Lang (Val FunDef)

/-! ## the stages -/

/-- C01-E2E.1 `_process_and_check_data` + `load_and_check_functions` +
`_convert_data_to_correct_types` on the permuted table: if the preparation of the original table
(all columns with `n` rows) succeeds, the preparation of the permuted one succeeds with the SAME
function set and column names; the converted data are the original converted data, permuted column
by column. (Dtype inference, the duplicate / foreign-key / constant-within-group checks and the
type conversions do not depend on the order of the rows.) -/
theorem prepare_perm {n : Nat} {σ : List Nat} (hσ : σ.Perm (List.range n))
    (ruleFns : List Fn) (gs : List (String × GroupSpec)) (ps : List (String × PidSpec))
    (data : List (String × Column)) (targets : List String) (pr : Prep)
    (hrows : ∀ c ∈ data, c.2.length = n) (h : prepare ruleFns gs ps data targets = .ok pr) :
    prepare ruleFns gs ps (permTable σ data) targets =
      .ok { dataCols := pr.dataCols, data := permData σ pr.data, fns := pr.fns } :=
  pe_prepare_perm hσ hrows h

/-- C01-E2E.1a … and it fails on the permuted table iff it fails on the original one. -/
theorem prepare_perm_fails_iff {n : Nat} {σ : List Nat} (hσ : σ.Perm (List.range n))
    (ruleFns : List Fn) (gs : List (String × GroupSpec)) (ps : List (String × PidSpec))
    (data : List (String × Column)) (targets : List String) (hrows : ∀ c ∈ data, c.2.length = n) :
    (∃ e, prepare ruleFns gs ps (permTable σ data) targets = .error e) ↔
      (∃ e, prepare ruleFns gs ps data targets = .error e) :=
  pe_prepare_fails_iff hσ hrows

/-- C01-E2E.2 `set_up_dag`, `_add_rounding_to_functions`, `_partial_parameters_to_functions`,
`_fail_if_root_nodes_are_missing` see the data only through the column names and the number of
rows: the plan for the permuted data (all columns 1-d with `n` rows, `σ` of length `n`) is the
original plan — same system, same execution order, same `nRows` — with permuted data. -/
theorem plan_perm {n : Nat} {σ : List Nat} (hn : σ.length = n) (params : List (String × Val))
    (targets : List String) (pr : Prep) (p : Plan)
    (hD : ∀ e ∈ pr.data, e.2.scalar = false ∧ e.2.vals.length = n)
    (h : plan params targets pr = .ok p) :
    plan params targets { dataCols := pr.dataCols, data := permData σ pr.data, fns := pr.fns } =
      .ok { data := permData σ pr.data, sys := p.sys, order := p.order, nRows := p.nRows } :=
  pe_plan_perm hn hD h

/-- C01-E2E.3 The call of the concatenated function. Let the nodes of the plan be built by `nodeOf`
from functions `fns` of admissible kinds, the third argument of every `sum_by_p_id` node being a
duplicate-free data column, and let the data have `n = p.nRows` rows. If the execution succeeds
with table `tbl`, the execution on the permuted data succeeds (every node of the DAG, in the same
order) with the permuted table; 0-d results are broadcast to the same constant columns. -/
theorem exec_perm {n : Nat} {σ : List Nat} (hσ : σ.Perm (List.range n))
    (params : List (String × Val)) (specs : List (String × RSpec)) (fns : List Fn) (p : Plan)
    (targets : List String) (tbl : Table)
    (hsys : ∀ e ∈ p.sys, e ∈ sysOf params specs fns)
    (hfns : ∀ f ∈ fns, f.kind.permOK = true ∧ (f.kind.isPidSum = true →
      ∀ d, (freeArgs params f)[2]? = some d → ∃ c, Dag.find? p.data d = some c ∧ c.ints.Nodup))
    (hD : ColsOK n (p.data.map (·.2))) (hn : p.nRows = n) (h : exec p targets = .ok tbl) :
    exec { data := permData σ p.data, sys := p.sys, order := p.order, nRows := p.nRows } targets =
      .ok (permTable σ tbl) :=
  pe_exec_perm hσ hsys hfns hD hn h

/-! ## the whole computation -/

/-- C01-E2E.4 (strongest form) `compute_taxes_and_transfers` is equivariant under row
permutations: let all data columns have `n` rows, `σ` be a permutation of the rows, and let every
function needed for the targets be a rule with a declared return type, a `sum_by_p_id` wrapper, a
time conversion or a grouped aggregation (`neededPermOK`). If the call succeeds with result `tbl`,
the call on the permuted data succeeds and returns `tbl` with its rows permuted by the same `σ`. -/
theorem simulate_perm_needed (inp : Input) (n : Nat) (σ : List Nat) (hσ : σ.Perm (List.range n))
    (hrows : ∀ c ∈ inp.data, c.2.length = n) (hneeded : neededPermOK inp = true)
    (tbl : Table) (h : simulate inp = .ok tbl) :
    simulate (permInput σ inp) = .ok (permTable σ tbl) :=
  pe_simulate_perm hσ inp hrows hneeded tbl h

/-- C01-E2E.5 (requested form) The same under the hypotheses "every rule has a declared return
type" and "no id constructor of `groupings.py` is an ancestor of a target". -/
theorem simulate_perm (inp : Input) (n : Nat) (σ : List Nat) (hσ : σ.Perm (List.range n))
    (hrows : ∀ c ∈ inp.data, c.2.length = n)
    (hdecl : ∀ r ∈ inp.rules, r.ret.isSome = true)
    (hnogrp : noGroupingNeeded inp = true)
    (tbl : Table) (h : simulate inp = .ok tbl) :
    simulate (permInput σ inp) = .ok (permTable σ tbl) :=
  pe_simulate_perm hσ inp hrows (pe_needed_of_decl hdecl hnogrp) tbl h

/-- C01-E2E.6 Under the same hypotheses the call fails on the permuted data iff it fails on the
original data. (Not necessarily with the same exception: inside a vectorized rule another ROW
may be the first one to raise.) -/
theorem simulate_perm_fails_iff (inp : Input) (n : Nat) (σ : List Nat)
    (hσ : σ.Perm (List.range n)) (hrows : ∀ c ∈ inp.data, c.2.length = n)
    (hdecl : ∀ r ∈ inp.rules, r.ret.isSome = true) (hnogrp : noGroupingNeeded inp = true) :
    (∃ e, simulate (permInput σ inp) = .error e) ↔ (∃ e, simulate inp = .error e) :=
  pe_simulate_fails_iff hσ inp hrows (pe_needed_of_decl hdecl hnogrp)

/-- C01-E2E.6a … and in the strongest form. -/
theorem simulate_perm_needed_fails_iff (inp : Input) (n : Nat) (σ : List Nat)
    (hσ : σ.Perm (List.range n)) (hrows : ∀ c ∈ inp.data, c.2.length = n)
    (hneeded : neededPermOK inp = true) :
    (∃ e, simulate (permInput σ inp) = .error e) ↔ (∃ e, simulate inp = .error e) :=
  pe_simulate_fails_iff hσ inp hrows hneeded

/-- C01-E2E.7 When the preparation succeeds, the decidable side condition speaks about the
prepared function set: `neededFns` is the list of functions `dags.create_dag` keeps. -/
theorem neededFns_eq (inp : Input) (pr : Prep)
    (h : prepare (inp.rules.map (ruleFn inp.rounding)) inp.groupSpecs inp.pidSpecs inp.data
      (sortDedup inp.targets) = .ok pr) :
    neededFns inp = .ok (rnd_necessaryFns (sortDedup inp.targets) pr) :=
  pe_neededFns_of_prepare h

/-! ## non-vacuity

`Val` has no `DecidableEq` (it contains parameter trees), so equalities between result tables are
established through the Boolean comparisons `pe_isOk` / `pe_isErr` / `pe_tblBeq`
(`pe_isOk_eq : pe_isOk x tbl = true → x = .ok tbl` etc.), evaluated by `decide +kernel`. -/

section Examples
open GV.Simulate.Examples GV.Lang

private def σ3 : List Nat := [2, 0, 1]

/-- three persons in two households (`hh_id = [1, 0, 1]`); `a_m(x) -> float = x * 2`; person 5
receives what persons 7 and 5 point to. Targets: the rule, its automatic group sum, a time
conversion, a `sum_by_p_id` aggregation and the group sum of its time conversion. -/
private def inp3 : Input :=
  { rules := [a_m],
    pidSpecs := [("got_m", ⟨"p_id_recv", "a_m"⟩)],
    data := [("p_id", I [7, 3, 5]), ("hh_id", I [1, 0, 1]), ("x", F [1, 5/2, 3]),
             ("p_id_recv", I [5, -1, 5])],
    targets := ["a_m", "a_m_hh", "a_y", "got_m", "got_y_hh"] }

private def tbl3 : Table :=
  [("a_m", F [2, 5, 6]), ("a_m_hh", F [8, 5, 8]), ("a_y", F [24, 60, 72]),
   ("got_m", F [0, 0, 8]), ("got_y_hh", F [96, 0, 96])]

private def tbl3σ : Table :=
  [("a_m", F [6, 2, 5]), ("a_m_hh", F [8, 8, 5]), ("a_y", F [72, 24, 60]),
   ("got_m", F [8, 0, 0]), ("got_y_hh", F [96, 96, 0])]

/-- the hypotheses of `simulate_perm` hold … -/
example : σ3.Perm (List.range 3) := by decide
example : ∀ c ∈ inp3.data, c.2.length = 3 := by decide
example : ∀ r ∈ inp3.rules, r.ret.isSome = true := by decide
example : noGroupingNeeded inp3 = true := by decide +kernel
example : neededPermOK inp3 = true := by decide +kernel
/-- … the needed functions are of all four admissible kinds … -/
example : (neededFns inp3).map (·.map (·.name)) =
    .ok ["got_m", "a_y", "got_y", "a_m", "a_m_hh", "got_y_hh"] := by decide +kernel
/-- … the original run … -/
private theorem run3 : simulate inp3 = .ok tbl3 := pe_isOk_eq (by decide +kernel)
/-- … the run on the permuted data, computed independently … -/
example : simulate (permInput σ3 inp3) = .ok tbl3σ := pe_isOk_eq (by decide +kernel)
example : permTable σ3 tbl3 = tbl3σ := pe_tblBeq_eq (by decide +kernel)
/-- … and the instance of the theorem. -/
example : simulate (permInput σ3 inp3) = .ok (permTable σ3 tbl3) :=
  simulate_perm inp3 3 σ3 (by decide) (by decide) (by decide) (by decide +kernel) tbl3 run3

/-- instance of `simulate_perm_fails_iff`: a division by zero in ONE row (`1 / (x - 3)`) makes the
call fail, in whatever position that row is -/
private def inpZ : Input :=
  { rules := [zd], data := [("p_id", I [7, 3, 5]), ("x", F [1, 5/2, 3])], targets := ["zd"] }
example : simulate inpZ = .error .zeroDiv := pe_isErr_eq (by decide +kernel)
example : simulate (permInput σ3 inpZ) = .error .zeroDiv := pe_isErr_eq (by decide +kernel)
example : (∃ e, simulate (permInput σ3 inpZ) = .error e) ↔ (∃ e, simulate inpZ = .error e) :=
  simulate_perm_fails_iff inpZ 3 σ3 (by decide) (by decide) (by decide) (by decide +kernel)

/-- `def g(x): return 0.5 if x > 1.5 else 0` WITHOUT return annotation -/
private def gR : Rule :=
  { name := "g",
    fn := { name := "g", args := ["x"],
            body := [.ret (.ifexp (.cmp (.name "x") [(.gt, .const (.flt (3/2)))])
              (.const (.flt (1/2))) (.const (.int 0)))] } }
private def inpU : Input :=
  { rules := [gR], data := [("p_id", I [7, 3, 5]), ("x", F [1, 5/2, 3])], targets := ["g"] }

/-- C01-E2E.8 WHY the return type must be declared: without it `numpy.vectorize` takes the dtype
from the result of the FIRST row. On `x = [1, 5/2, 3]` the first result is the int `0`, the column
is int64 `[0, 0, 0]`; with the rows in the order `[3, 1, 5/2]` the first result is `0.5`, the
column is float64 `[0.5, 0, 0.5]`, which is NOT the permuted original result. All other hypotheses
of `simulate_perm` hold; `hdecl` (and `neededPermOK`) fail: the conclusion of `simulate_perm` is
FALSE for this input. -/
theorem simulate_undeclared_not_perm :
    σ3.Perm (List.range 3) ∧ (∀ c ∈ inpU.data, c.2.length = 3) ∧ noGroupingNeeded inpU = true ∧
    neededPermOK inpU = false ∧
    simulate inpU = .ok [("g", I [0, 0, 0])] ∧
    simulate (permInput σ3 inpU) = .ok [("g", F [1/2, 0, 1/2])] ∧
    simulate (permInput σ3 inpU) ≠ .ok (permTable σ3 [("g", I [0, 0, 0])]) := by
  have h1 : simulate inpU = .ok [("g", I [0, 0, 0])] := pe_isOk_eq (by decide +kernel)
  have h2 : simulate (permInput σ3 inpU) = .ok [("g", F [1/2, 0, 1/2])] :=
    pe_isOk_eq (by decide +kernel)
  refine ⟨by decide, by decide, by decide +kernel, by decide +kernel, h1, h2, ?_⟩
  rw [h2]
  intro h
  simp [permTable, permColumn, σ3, F, I] at h

private def inpG : Input :=
  { rules := [], data := [("p_id", I [7, 3, 5]), ("p_id_ehepartner", I [-1, 5, 3])],
    targets := ["ehe_id"] }

/-- C01-E2E.9 WHY the id constructors are excluded: `ehe_id` numbers the couples in the order of
their first appearance, so the ids themselves (not only their positions) depend on the order of
the rows: `[0, 1, 1]` for the original order, `[0, 1, 0]` for the permuted one, whereas the
permuted original result is `[1, 0, 1]` (the same partition into groups, other labels). The
conclusion of `simulate_perm` is FALSE for this input. -/
theorem simulate_grouping_not_perm :
    noGroupingNeeded inpG = false ∧
    simulate inpG = .ok [("ehe_id", I [0, 1, 1])] ∧
    simulate (permInput σ3 inpG) = .ok [("ehe_id", I [0, 1, 0])] ∧
    simulate (permInput σ3 inpG) ≠ .ok (permTable σ3 [("ehe_id", I [0, 1, 1])]) := by
  have h2 : simulate (permInput σ3 inpG) = .ok [("ehe_id", I [0, 1, 0])] :=
    pe_isOk_eq (by decide +kernel)
  refine ⟨by decide +kernel, pe_isOk_eq (by decide +kernel), h2, ?_⟩
  rw [h2]
  intro h
  simp [permTable, permColumn, σ3, I] at h

/-- an id column supplied as DATA is fine: the condition looks at the needed FUNCTIONS only -/
private def inpD : Input :=
  { rules := [a_m],
    data := [("p_id", I [7, 3, 5]), ("ehe_id", I [4, 9, 4]), ("x", F [1, 5/2, 3])],
    targets := ["a_m_ehe"] }
example : noGroupingNeeded inpD = true ∧ neededPermOK inpD = true := by decide +kernel
example : simulate inpD = .ok [("a_m_ehe", F [8, 5, 8])] := pe_isOk_eq (by decide +kernel)
example : simulate (permInput σ3 inpD) = .ok [("a_m_ehe", F [8, 8, 5])] :=
  pe_isOk_eq (by decide +kernel)

/-- the hypotheses of the stage theorems are satisfiable: the preparation and the plan of `inp3`
succeed (otherwise `simulate inp3` would fail), the prepared data are 1-d with 3 rows, and the
instances of `prepare_perm` / `plan_perm` hold -/
example : ∃ pr p, prepare (inp3.rules.map (ruleFn true)) [] inp3.pidSpecs inp3.data
      (sortDedup inp3.targets) = .ok pr ∧ plan [] (sortDedup inp3.targets) pr = .ok p ∧
    prepare (inp3.rules.map (ruleFn true)) [] inp3.pidSpecs (permTable σ3 inp3.data)
      (sortDedup inp3.targets) =
      .ok { dataCols := pr.dataCols, data := permData σ3 pr.data, fns := pr.fns } ∧
    plan [] (sortDedup inp3.targets)
        { dataCols := pr.dataCols, data := permData σ3 pr.data, fns := pr.fns } =
      .ok { data := permData σ3 pr.data, sys := p.sys, order := p.order, nRows := p.nRows } := by
  have h3 := run3
  unfold simulate run at h3
  obtain ⟨pr, hpr, h3⟩ := bind_ok h3
  obtain ⟨p, hp, _⟩ := bind_ok h3
  exact ⟨pr, p, hpr, hp, prepare_perm (n := 3) (by decide) _ _ _ _ _ pr (by decide) hpr,
    plan_perm (n := 3) (σ := σ3) rfl _ _ pr p (pe_prepare_arrN (by decide) hpr) hp⟩

/-- … and so are the hypotheses of `exec_perm` (`pe_exec_hyps` derives them from the successful
preparation and planning), with the instance of the theorem -/
example : ∃ (p : Plan) (specs : List (String × RSpec)) (fns : List Fn),
    (∀ e ∈ p.sys, e ∈ sysOf [] specs fns) ∧
    (∀ f ∈ fns, f.kind.permOK = true ∧ (f.kind.isPidSum = true →
      ∀ d, (freeArgs [] f)[2]? = some d → ∃ c, Dag.find? p.data d = some c ∧ c.ints.Nodup)) ∧
    ColsOK 3 (p.data.map (·.2)) ∧ p.nRows = 3 ∧ exec p (sortDedup inp3.targets) = .ok tbl3 ∧
    exec { data := permData σ3 p.data, sys := p.sys, order := p.order, nRows := p.nRows }
      (sortDedup inp3.targets) = .ok (permTable σ3 tbl3) := by
  have h3 := run3
  unfold simulate run at h3
  obtain ⟨pr, hpr, h3⟩ := bind_ok h3
  obtain ⟨p, hp, hex⟩ := bind_ok h3
  have hneeded : ∀ f ∈ rnd_necessaryFns (sortDedup inp3.targets) pr, f.kind.permOK = true := by
    have hb : neededPermOK inp3 = true := by decide +kernel
    unfold neededPermOK at hb
    rw [pe_neededFns_of_prepare hpr] at hb
    exact List.all_eq_true.1 hb
  obtain ⟨specs, h1, h2, h4, h5⟩ := pe_exec_hyps (n := 3) (by decide) hpr hneeded hp
  exact ⟨p, specs, _, h1, h2, h4, h5, hex,
    exec_perm (n := 3) (σ := σ3) (by decide) [] specs _ p _ tbl3 h1 h2 h4 h5 hex⟩

end Examples

end GV.Simulate
