import GettsimVerif.Core.Process
/-
Property C14: purity / history independence of the public API.

In the repaired code (`stepImpl true`) no call changes module bindings, module namespaces, the
registry or the caller's objects, so every call observes what it would observe in a fresh
process; in the original code (`stepImpl false`) two concrete histories show the leak.
-/
namespace GV.Process

/-- C14.1 Repaired code: no operation changes the process state at all ... -/
theorem fixed_step_id (s : PState) (op : Op) : stepImpl true s op = s := by
  cases op <;> rfl

/-- C14.1' ... in particular none of the caller-visible components. -/
theorem fixed_step_preserves (s : PState) (op : Op) :
    (stepImpl true s op).modules = s.modules ∧
    (stepImpl true s op).injected = s.injected ∧
    (stepImpl true s op).registry = s.registry ∧
    (stepImpl true s op).callerData = s.callerData ∧
    (stepImpl true s op).callerParams = s.callerParams ∧
    (stepImpl true s op).callerFunctions = s.callerFunctions := by
  rw [fixed_step_id]
  exact ⟨rfl, rfl, rfl, rfl, rfl, rfl⟩

/-- C14.2 In both versions the registry, the caller's params and the caller's functions are
never changed after import. -/
theorem registry_params_functions_const (fixed : Bool) (s : PState) (op : Op) :
    (stepImpl fixed s op).registry = s.registry ∧
    (stepImpl fixed s op).callerParams = s.callerParams ∧
    (stepImpl fixed s op).callerFunctions = s.callerFunctions := by
  cases op with
  | setup d => exact ⟨rfl, rfl, rfl⟩
  | reform => exact ⟨rfl, rfl, rfl⟩
  | simulate isDict cols =>
    simp only [stepImpl]
    split <;> exact ⟨rfl, rfl, rfl⟩
  | vectorize r =>
    simp only [stepImpl]
    split <;> exact ⟨rfl, rfl, rfl⟩

/-- C14.3 Repaired code: a history of calls leaves the state where it was. -/
theorem fixed_history_id (s₀ : PState) (h : List Op) : runHist true s₀ h = s₀ := by
  induction h generalizing s₀ with
  | nil => rfl
  | cons op rest ih =>
    simp only [runHist, List.foldl_cons, fixed_step_id]
    exact ih s₀

/-- C14.4 History independence: after ANY history of calls, every operation observes exactly
what it would observe in a fresh process. -/
theorem history_indep (s₀ : PState) (h : List Op) (op : Op) :
    observe (h.foldl (stepImpl true) s₀) op = observe s₀ op := by
  have := fixed_history_id s₀ h
  simp only [runHist] at this
  rw [this]

/-- C14.4' Every call inside a history observes the fresh-process values. -/
theorem trace_fixed (s₀ : PState) (h : List Op) : trace true s₀ h = h.map (observe s₀) := by
  induction h with
  | nil => rfl
  | cons op rest ih => simp only [trace, fixed_step_id, ih, List.map_cons]

/-- C14.4'' Two histories: the observations of a call do not depend on which one ran before
(e.g. the calls of a history can be reordered, repeated or dropped). -/
theorem history_irrelevant (s₀ : PState) (h h' : List Op) (op : Op) :
    observe (runHist true s₀ h) op = observe (runHist true s₀ h') op := by
  rw [fixed_history_id, fixed_history_id]

/-- C14.5 Determinism: state and observation after a call are functions of state and call. -/
theorem determinism (fixed : Bool) (s s' : PState) (op op' : Op) (hs : s = s') (ho : op = op') :
    stepImpl fixed s op = stepImpl fixed s' op' ∧ observe s op = observe s' op' := by
  subst hs ho
  exact ⟨rfl, rfl⟩

/-- C14.6 Original code: vectorizing a rule rebinds it in its module and injects `numpy`, so a
later `setup` observes a different function object. -/
theorem unfixed_vectorize_rebinds :
    let s₀ : PState := ⟨[("kindergeld_m", 0), ("soli_st_y", 0)], [], 12, [("alter", 0)], 0, 0⟩
    let h := [Op.setup 20230101, Op.vectorize "kindergeld_m"]
    observe (runHist false s₀ h) (.setup 20230101) ≠ observe s₀ (.setup 20230101) ∧
    (runHist false s₀ h).modules = [("kindergeld_m", 1), ("soli_st_y", 0)] ∧
    (runHist false s₀ h).injected = ["numpy"] ∧
    observe (runHist true s₀ h) (.setup 20230101) = observe s₀ (.setup 20230101) := by
  decide +kernel

/-- C14.7 Original code: simulating with a `dict` replaces the converted columns in the
caller's dict, so the second, identical call observes other `Series` objects (a DataFrame or
the repaired code: no change). -/
theorem unfixed_dict_mutated :
    let s₀ : PState := ⟨[("kindergeld_m", 0)], [], 12, [("alter", 0), ("p_id", 0)], 0, 0⟩
    let call := Op.simulate true ["alter"]
    let h := [Op.setup 20230101, call]
    observe (runHist false s₀ h) call ≠ observe s₀ call ∧
    (runHist false s₀ h).callerData = [("alter", 1), ("p_id", 0)] ∧
    runHist false s₀ [Op.setup 20230101, Op.simulate false ["alter"]] = s₀ ∧
    observe (runHist true s₀ h) call = observe s₀ call := by
  decide +kernel

/-- C14.8 Original code: the only leaks are these two (everything else is kept). -/
theorem unfixed_leaks_only (s : PState) (op : Op) :
    ((∀ r, op ≠ .vectorize r) →
      (stepImpl false s op).modules = s.modules ∧ (stepImpl false s op).injected = s.injected) ∧
    ((∀ cols, op ≠ .simulate true cols) → (stepImpl false s op).callerData = s.callerData) := by
  constructor
  · intro h
    cases op with
    | setup d => exact ⟨rfl, rfl⟩
    | reform => exact ⟨rfl, rfl⟩
    | simulate isDict cols => simp only [stepImpl]; split <;> exact ⟨rfl, rfl⟩
    | vectorize r => exact absurd rfl (h r)
  · intro h
    cases op with
    | setup d => rfl
    | reform => rfl
    | simulate isDict cols =>
      cases isDict with
      | true => exact absurd rfl (h cols)
      | false => rfl
    | vectorize r => rfl

end GV.Process
