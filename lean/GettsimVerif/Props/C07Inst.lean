import GettsimVerif.Lemmas.ParamsByDate
import GettsimVerif.Props.C07
import GettsimVerif.Generated.Registry
import GettsimVerif.Generated.ParamNames
/-
C07 — instance obligations on the tables regenerated from /repo (kernel-decided).
-/
namespace GV.Props.C07Inst
open GV.Params GV.Gen GV.Reg

/-- the registry as the loader sees it -/
def registry : List FnEntry := rules.map RuleInfo.entry

/-- Any two rule functions are compatible: time-dependent implementations of one column name
have disjoint validity intervals (checked for *all* pairs, including equal `__name__`s, which
the registration-time check skips), and no two functions share a name otherwise.  With
`functionsFor_spec` / `active_unique` this gives: at every date each column name has exactly
the implementations whose interval contains the date, and at most one. -/
theorem registry_ok : RegOK registry = true := by decide +kernel

/-- consequence for every date and name, by `functionsFor_spec` -/
theorem active_implementations (d : Int) (name : String) (e : FnEntry) :
    (name, e) ∈ functionsFor registry d ↔
      e ∈ registry ∧ ((e.timeDependent = true ∧ e.dagName = name ∧ e.start ≤ d ∧ d ≤ e.stop) ∨
        (e.timeDependent = false ∧ e.fname = name)) :=
  functionsFor_spec registry registry_ok d name e

/-- no parameter file has a top-level key `datum` (hypothesis `NoDatum` of the cut theorems) -/
theorem no_parameter_named_datum :
    paramNames.all (fun gp => !gp.2.contains "datum") = true := by decide +kernel

/-- cross-file deviations do not chain (so they cannot form a cycle, and the loader's
recursion through them has depth one) -/
theorem cross_deviations_acyclic :
    crossDeviations.all (fun d => !crossDeviations.any fun d' => d'.1 = d.2.2.1 && d'.2.1 = d.2.2.2) = true := by
  decide +kernel

/-- validity intervals are well-formed -/
theorem intervals_wellformed : registry.all (fun e => decide (e.start ≤ e.stop)) = true := by
  decide +kernel

end GV.Props.C07Inst
