import GettsimVerif.Lemmas.SimMisc
/-
Property C03 for the CONCRETE node operation `ruleOp` of `Core/Simulate.lean` (a user rule wrapped
by `numpy.vectorize(f, otypes=[T])`, `T` the return annotation): the column a rule produces has the
declared dtype, one entry per row, and the entry of row `i` is the declared-type cast of the
scalar rule applied to the inputs of row `i` ONLY.

Scope of the statements: rules WITH arguments (`fn.args ≠ []`: a rule without any argument is
called directly by `numpy.vectorize`, its result is a Python number that is NOT cast — see
`ruleOp_noargs_not_declared`) and WITHOUT a rounding spec (`spec = none`; the rounding wrapper
turns every result into `float64`, property C10).
-/
namespace GV.Simulate
open GV.VecDtype (R DT numOf)
open GV.Lang (Val FunDef)

/-- **Row-wise specification.** Let a rule with arguments and return annotation `ty` be applied
to input columns that broadcast to `n` rows, none of the inputs being a numpy scalar (i.e. all
inputs are arrays or 0-d arrays, `npFlags … = false` everywhere; numpy scalars arise only from
time conversions / roundings of 0-d results). If the vectorized call succeeds, then the result has
dtype `ty`, exactly `n` entries, and for every row `i < n` the scalar rule `fn` run on the
arguments of row `i` (`rowArgs`: the `i`-th entries of the input columns, scalars repeated,
parameter arguments replaced by their sub-tree of `params`) returns a number `v`, and the entry of
row `i` is `v` cast to `ty`. -/
theorem ruleOp_rowwise_spec (params : List (String × Val)) (fn : FunDef) (ty : Ty)
    (free : List String) (cols : List Col) (out : Col) (n : Nat) (hargs : fn.args ≠ [])
    (hb : broadcastLen cols = .ok (some n))
    (hnp : (npFlags free fn.args cols).any id = false)
    (h : ruleOp params fn (some ty) none free cols = .ok out) :
    out.dt = ty.toDT ∧ out.vals.length = n ∧ out.shape = .arr ∧
      ∀ i, i < n → ∃ v r, Lang.runFun fn (rowArgs params free i fn.args cols) = .ok v ∧
        valToR v = some r ∧ out.vals[i]? = some (VecDtype.cast ty.toDT r) := by
  obtain ⟨n?, hb', hdt, hshape, hlen, hrows⟩ := mi_ruleOp_rowwise hargs h
  rw [hb] at hb'
  cases hb'
  refine ⟨hdt, hlen, hshape, fun i hi => ?_⟩
  obtain ⟨v, r, hv, hr, ho⟩ := hrows i hi
  rw [mi_rowFn_plain hnp] at hv
  exact ⟨v, r, hv, hr, ho⟩

/-- **Row-wise specification, general form** (numpy scalars among the inputs allowed; also the case
that ALL inputs are scalars, `n? = none`, where the result is a 0-d array with one entry). The
per-row call is `rowFn`: `Lang.runFun` on the row's arguments, or — if a numpy scalar is among the
inputs — the evaluation with numpy-scalar semantics `runNumpy` on the same arguments. -/
theorem ruleOp_rowwise_spec_general (params : List (String × Val)) (fn : FunDef) (ty : Ty)
    (free : List String) (cols : List Col) (out : Col) (hargs : fn.args ≠ [])
    (h : ruleOp params fn (some ty) none free cols = .ok out) :
    ∃ n?, broadcastLen cols = .ok n? ∧ out.dt = ty.toDT ∧
      out.shape = (if n?.isNone then Shape.arr0 else Shape.arr) ∧
      out.vals.length = n?.getD 1 ∧
      ∀ i, i < n?.getD 1 → ∃ v r, rowFn params fn free cols i = .ok v ∧ valToR v = some r ∧
        out.vals[i]? = some (VecDtype.cast ty.toDT r) :=
  mi_ruleOp_rowwise hargs h

/-- **The dtype is the declared one, whatever the data.** -/
theorem ruleOp_dtype_declared (params : List (String × Val)) (fn : FunDef) (ty : Ty)
    (free : List String) (cols : List Col) (out : Col) (hargs : fn.args ≠ [])
    (h : ruleOp params fn (some ty) none free cols = .ok out) : out.dt = ty.toDT := by
  obtain ⟨_, _, hdt, _⟩ := mi_ruleOp_rowwise hargs h
  exact hdt

/-- **Row independence.** Two calls of the same rule on two lists of input columns that agree in
row `i` (same shapes, same `i`-th entries; all OTHER rows, and even the number of rows, may
differ) produce the same entry in row `i`, provided both calls succeed. -/
theorem ruleOp_row_independent (params : List (String × Val)) (fn : FunDef) (ty : Ty)
    (free : List String) (cols cols' : List Col) (out out' : Col) (i : Nat) (hargs : fn.args ≠ [])
    (hrow : List.Forall₂ (fun c c' => c.shape = c'.shape ∧ c.at i = c'.at i) cols cols')
    (h : ruleOp params fn (some ty) none free cols = .ok out)
    (h' : ruleOp params fn (some ty) none free cols' = .ok out')
    (hi : i < out.vals.length) (hi' : i < out'.vals.length) :
    out.vals[i]? = out'.vals[i]? := by
  obtain ⟨n?, _, _, _, hlen, hrows⟩ := mi_ruleOp_rowwise hargs h
  obtain ⟨n?', _, _, _, hlen', hrows'⟩ := mi_ruleOp_rowwise hargs h'
  obtain ⟨v, r, hv, hr, ho⟩ := hrows i (hlen ▸ hi)
  obtain ⟨v', r', hv', hr', ho'⟩ := hrows' i (hlen' ▸ hi')
  rw [mi_rowFn_congr params fn free i hrow, hv'] at hv
  cases hv
  rw [hr'] at hr
  cases hr
  rw [ho, ho']

/-! ## non-vacuity and the limits of the statements -/
namespace C03SimExamples
open GV.Lang

def cf (xs : List Rat) : Col := { dt := .float, vals := xs.map .f }
def ci (xs : List Int) : Col := { dt := .int, vals := xs.map .i }

/-- `def f(x, k): return x * 3 / 2 + k` -/
def f : FunDef :=
  { name := "f", args := ["x", "k"],
    body := [.ret (.bin .add (.bin .div (.bin .mul (.name "x") (.const (.int 3))) (.const (.int 2))) (.name "k"))] }

def X : Col := cf [1, 5/2, 3]
def X' : Col := cf [7, 5/2, -1, 12]
def K : Col := ci [10, 20, 30]
def K' : Col := ci [0, 20, 5, 5]

-- the hypotheses of `ruleOp_rowwise_spec` (annotation `int`: the results are truncated)
example : f.args ≠ [] ∧ broadcastLen [X, K] = .ok (some 3) ∧
    (npFlags ["x", "k"] f.args [X, K]).any id = false ∧
    ruleOp [] f (some .int) none ["x", "k"] [X, K] = .ok (ci [11, 23, 34]) := by decide +kernel
-- … and what it says about row 1: `f(2.5, 20) = 23.75`, cast to `int` = 23
example : (Lang.runFun f (rowArgs [] ["x", "k"] 1 f.args [X, K]) >>= resultToR) = .ok (.f (95/4)) ∧
    VecDtype.cast .int (.f (95/4)) = .i 23 := by decide +kernel

-- row independence: the two tables agree in row 1 only (and have different numbers of rows)
example : List.Forall₂ (fun c c' => c.shape = c'.shape ∧ c.at 1 = c'.at 1) [X, K] [X', K'] := by
  decide +kernel
example : ruleOp [] f (some .int) none ["x", "k"] [X', K'] = .ok (ci [10, 23, 3, 23]) := by
  decide +kernel

/-- `def g(x, k): return k if x < k else x` (`k` an int column, `x` a float column) -/
def g : FunDef :=
  { name := "g", args := ["x", "k"],
    body := [.ret (.ifexp (.cmp (.name "x") [(.lt, .name "k")]) (.name "k") (.name "x"))] }

/-- **Without a return annotation the dtype DOES depend on the data of the first row**
(`numpy.vectorize` without `otypes` probes the rule on the first row): the same rule on the same
rows in two different orders gives an `int64` column (the fractional part of `2.5` is lost) or a
`float64` column. With an annotation this cannot happen (`ruleOp_dtype_declared`). -/
theorem ruleOp_undeclared_dtype_depends_on_first_row :
    ruleOp [] g none none ["x", "k"] [cf [1, 5/2], ci [2, 2]] = .ok (ci [2, 2]) ∧
    ruleOp [] g none none ["x", "k"] [cf [5/2, 1], ci [2, 2]] = .ok (cf [5/2, 2]) ∧
    ruleOp [] g (some .float) none ["x", "k"] [cf [1, 5/2], ci [2, 2]] = .ok (cf [2, 5/2]) ∧
    ruleOp [] g (some .float) none ["x", "k"] [cf [5/2, 1], ci [2, 2]] = .ok (cf [5/2, 2]) := by
  decide +kernel

/-- `def z() -> int: return 2.5` -/
def z : FunDef := { name := "z", args := [], body := [.ret (.const (.flt (5/2)))] }

/-- **The hypothesis `fn.args ≠ []` cannot be dropped**: `numpy.vectorize.__call__` without
arguments returns `f()` itself, so the annotation `int` is ignored and the value stays the Python
float `2.5`. -/
theorem ruleOp_noargs_not_declared :
    ruleOp [] z (some .int) none [] [] = .ok { dt := .float, vals := [.f (5/2)], shape := .pyScalar } := by
  decide +kernel

/-- the scalar case of `ruleOp_rowwise_spec_general`: all inputs 0-d, one entry, a 0-d result -/
example : ruleOp [] f (some .float) none ["x", "k"]
      [{ dt := .float, vals := [.f 4], shape := .arr0 }, { dt := .int, vals := [.i 1], shape := .arr0 }] =
    .ok { dt := .float, vals := [.f 7], shape := .arr0 } := by decide +kernel

end C03SimExamples

end GV.Simulate
