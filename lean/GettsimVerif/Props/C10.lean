import GettsimVerif.Lemmas.Round
/-!
C10 — statutory rounding wrapper: `roundTo base dir off x = base * steps dir (x / base) + off`.
All statements about `roundTo` assume `0 < base`.
-/
namespace GV.Round

/-- concrete instances (non-vacuity of `0 < base`; offsets; half-to-even) -/
example : roundTo 5 .up 0 17 = 20 ∧ roundTo 5 .down 0 17 = 15 ∧ roundTo 5 .nearest 0 17 = 15 ∧
    roundTo 5 .nearest 0 (35/2) = 20 ∧ roundTo 5 .nearest 0 (25/2) = 10 ∧
    roundTo (1/100) .down 0 (314159/100000) = 314/100 ∧ roundTo 1 .up (-1) (7/2) = 3 ∧
    roundTo 5 .up 0 (-17) = -15 ∧ roundTo 5 .down 0 (-17) = -20 := by decide +kernel

/-- A1. The rounded value (minus the offset) is an integer multiple of `base`. -/
theorem roundTo_on_grid (base off x : Rat) (dir : Dir) :
    ∃ k : Int, roundTo base dir off x - off = base * (k : Rat) :=
  ⟨steps dir (x / base), by unfold roundTo; ring⟩

/-- A2. Rounding up: result in `[x, x + base)`. -/
theorem roundTo_up_bounds (base off x : Rat) (hb : 0 < base) :
    x ≤ roundTo base .up off x - off ∧ roundTo base .up off x - off < x + base := by
  have e := roundTo_sub base off x .up hb
  have h1 := le_ceil' (x / base)
  have h2 := ceil_lt' (x / base)
  simp only [steps] at e
  constructor
  · have : 0 ≤ base * (((x / base).ceil : Rat) - x / base) :=
      mul_nonneg hb.le (by linarith)
    linarith
  · have : base * (((x / base).ceil : Rat) - x / base) < base * 1 :=
      mul_lt_mul_of_pos_left (by linarith) hb
    linarith

/-- A3. Rounding down: result in `(x - base, x]`. -/
theorem roundTo_down_bounds (base off x : Rat) (hb : 0 < base) :
    x - base < roundTo base .down off x - off ∧ roundTo base .down off x - off ≤ x := by
  have e := roundTo_sub base off x .down hb
  have h1 := floor_le' (x / base)
  have h2 := lt_floor_add_one' (x / base)
  simp only [steps] at e
  constructor
  · have : base * (-1) < base * (((x / base).floor : Rat) - x / base) :=
      mul_lt_mul_of_pos_left (by linarith) hb
    linarith
  · have : base * (((x / base).floor : Rat) - x / base) ≤ base * 0 :=
      mul_le_mul_of_nonneg_left (by linarith) hb.le
    linarith

/-- A4. Rounding to nearest: error at most half a step. -/
theorem roundTo_nearest_bounds (base off x : Rat) (hb : 0 < base) :
    |roundTo base .nearest off x - off - x| ≤ base / 2 := by
  have e := roundTo_sub base off x .nearest hb
  have h := roundHalfEven_bounds (x / base)
  simp only [steps] at e
  rw [e, abs_le]
  constructor
  · have : base * (-(1/2)) ≤ base * (((roundHalfEven (x / base) : Int) : Rat) - x / base) :=
      mul_le_mul_of_nonneg_left (by linarith) hb.le
    linarith
  · have : base * (((roundHalfEven (x / base) : Int) : Rat) - x / base) ≤ base * (1/2) :=
      mul_le_mul_of_nonneg_left (by linarith) hb.le
    linarith

/-- A5a. Ties (`x / base` exactly half-way between two integers) go to the even step. -/
theorem roundTo_nearest_tie_even (base x : Rat)
    (h : x / base - ((x / base).floor : Rat) = 1/2) :
    roundHalfEven (x / base) % 2 = 0 :=
  roundHalfEven_tie_even _ h

example : (5 : Rat) / 2 - (((5 : Rat) / 2).floor : Rat) = 1/2 := by decide +kernel
example : roundHalfEven ((5 : Rat) / 2) = 2 ∧ roundHalfEven ((7 : Rat) / 2) = 4 := by decide +kernel

/-- A5b. `roundHalfEven` is the identity on integers. -/
theorem roundHalfEven_int (k : Int) : roundHalfEven (k : Rat) = k := roundHalfEven_intCast k

/-- A6. For every direction the rounding error is strictly less than one step. -/
theorem roundTo_error_lt_step (base off x : Rat) (dir : Dir) (hb : 0 < base) :
    |roundTo base dir off x - off - x| < base := by
  have e := roundTo_sub base off x dir hb
  have h := steps_bounds dir (x / base)
  rw [e, abs_lt]
  constructor
  · have : base * (-1) < base * ((steps dir (x / base) : Rat) - x / base) :=
      mul_lt_mul_of_pos_left (by linarith) hb
    linarith
  · have : base * ((steps dir (x / base) : Rat) - x / base) < base * 1 :=
      mul_lt_mul_of_pos_left (by linarith) hb
    linarith

/-- A7. Values already on the grid are left unchanged (offset 0). -/
theorem roundTo_idempotent_on_grid (base x : Rat) (dir : Dir) (hb : 0 < base) (k : Int)
    (hx : x = base * (k : Rat)) : roundTo base dir 0 x = x := by
  have hq : x / base = (k : Rat) := by rw [hx]; field_simp
  unfold roundTo
  rw [hq, steps_int, hx, add_zero]

example : (15 : Rat) = 5 * ((3 : Int) : Rat) := by decide +kernel

/-- A8a. Rounding switched off: identity. -/
theorem applyRounding_off (hk : Bool) (spec : Option Spec) (x : Rat) :
    applyRounding false hk spec x = .ok x := by
  simp [applyRounding]

/-- A8b. Rule has no rounding key: identity. -/
theorem applyRounding_no_key (on : Bool) (spec : Option Spec) (x : Rat) :
    applyRounding on false spec x = .ok x := by
  simp [applyRounding]

/-- A8c. Key present but no spec in the parameters: `KeyError`. -/
theorem applyRounding_missing_spec_is_error (x : Rat) :
    applyRounding true true none x = .error .keyError := by
  simp [applyRounding]

/-- A8d. Spec present but `base` or `direction` missing: `KeyError`. -/
theorem applyRounding_missing_base_or_direction_is_error (s : Spec) (x : Rat)
    (h : s.base = none ∨ s.direction = none) :
    applyRounding true true (some s) x = .error .keyError := by
  obtain ⟨b, d, o⟩ := s
  rcases h with h | h
  · simp only at h; subst h; simp [applyRounding]
  · simp only at h; subst h; cases b <;> simp [applyRounding]

example : applyRounding true true (some ⟨none, some "up", none⟩) 3 = .error .keyError := by
  decide +kernel
example : applyRounding true true (some ⟨some 1, none, some 0⟩) 3 = .error .keyError := by
  decide +kernel

/-- A8e. Complete valid spec: the result is `roundTo` (missing offset means 0). -/
theorem applyRounding_spec (b : Rat) (d : String) (dir : Dir) (off : Option Rat) (x : Rat)
    (hd : parseDir d = some dir) :
    applyRounding true true (some ⟨some b, some d, off⟩) x
      = .ok (roundTo b dir (off.getD 0) x) := by
  simp [applyRounding, hd]

example : parseDir "nearest" = some .nearest := by decide
example : applyRounding true true (some ⟨some 5, some "down", none⟩) 17 = .ok 15 := by
  decide +kernel

/-- A8f. Unknown direction string: `ValueError`. -/
theorem applyRounding_bad_direction (b : Rat) (d : String) (off : Option Rat) (x : Rat)
    (hd : parseDir d = none) :
    applyRounding true true (some ⟨some b, some d, off⟩) x = .error .valueError := by
  simp [applyRounding, hd]

example : parseDir "Up" = none := by decide

/-- A9a. Rounding an already rounded value again (same base/direction, offset 0) is harmless. -/
theorem rounded_once (base x : Rat) (dir : Dir) (hb : 0 < base) :
    roundTo base dir 0 (roundTo base dir 0 x) = roundTo base dir 0 x :=
  roundTo_idempotent_on_grid base _ dir hb (steps dir (x / base)) (by unfold roundTo; ring)

/-- A9b. But rounding a *time-converted* rounded value again changes it: derived
(time-converted) columns must not be rounded a second time. -/
theorem double_rounding_differs :
    roundTo 1 .down 0 (roundTo 1 .down 0 100 / 12) ≠ roundTo 1 .down 0 100 / 12 := by
  decide +kernel

end GV.Round
