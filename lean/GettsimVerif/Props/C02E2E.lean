import GettsimVerif.Lemmas.SimUnionE2E
import GettsimVerif.Core.ArrSem
/-
Property C02, END TO END on the executable model `GV.Simulate.simulate` of
`compute_taxes_and_transfers`: "The results for a set of persons that is closed under household
membership and person-to-person pointers are identical whether these persons are simulated alone
or together with arbitrary other households."

Setting: `inp` is the JOINT call; all its data columns have `nA + nB` rows. The persons of A are the
first `nA` rows, the other households (B) the remaining `nB` rows (together with C01 — row
permutations — this covers any position of the persons of A). The two separate calls are
`takeInput nA inp` (the same rules, parameters, aggregation specs, targets and rounding switch, every
data column cut to its first `nA` rows) and `dropInput nA inp` (the remaining rows).
`takeTable nA tbl` / `dropTable nA tbl` cut every column of a result table in the same way.

Vocabulary (all defined in `Lemmas/SimUnionE2E.lean`; the checks are COMPUTABLE, so they can be
discharged by `decide +kernel` for a concrete input):
* `ue_prep inp`: what `_process_and_check_data`, `load_and_check_functions` and
  `_convert_data_to_correct_types` produce for the joint call (the functions that are not overridden
  by data columns, the converted data); `ue_needed inp pr`: those functions that end up as nodes of
  the DAG executed for the targets (`plan`: pruned to the ancestors of the targets).
* `ue_noGroupingNeeded inp`: none of the needed functions is an id constructor of `groupings.py`
  (`fg_id`, `bg_id`, `eg_id`, `ehe_id`, `sn_id`, `wthh_id`): group ids are supplied as data.
* `ue_declaredNeeded inp`: every needed rule has a return annotation.
* `ue_separated nA inp`: for every needed grouped aggregation the group-id argument is a DATA column
  (`hh_id`, …) whose (converted) values on the first `nA` rows and on the remaining rows are disjoint
  (`un_IdsSep`); for every needed `sum_by_p_id` aggregation the `p_id` argument is a data column
  (the column `p_id` itself — its uniqueness is guaranteed by `_fail_if_pid_is_non_unique`, theorem
  `prepare_pid_unique` — or another duplicate-free column) and the pointer argument a data column
  under which both parts are closed
  (`un_PtrsClosed`: a pointer of a row of A is negative or the p_id of a row of A, a pointer of
  another row is negative or the p_id of another row).
* `ue_DtStable part whole` (a raw data column): if the part consists of ints only, so does the whole
  column. Needed because the dtype of a data column is inferred from ALL its values (`colOfData`;
  ints and floats mixed give `float64`). Every homogeneous column (`ue_Homog`: all int, all float or
  all bool — what a pandas column is) has this property for every non-empty part.

Form of the statements: the joint call and the separate call both succeed; then the result of the
separate call is the corresponding part of the joint result. (Errors are not compared: a failing
row of B makes the joint call fail although A alone succeeds.) `simulate_union_of_parts` is the
converse: if the two separate calls succeed (and the joint data pass the data checks), the joint
call succeeds and its result consists of the two separate results.
-/
namespace GV.Simulate
open GV.Lang (Val)

/-! ## 1. the main theorems -/

/-- **C02 end to end (persons of A).** Let all data columns of the call have `nA + nB` rows,
`nA, nB > 0`; let every rule have a return annotation; let no id constructor of `groupings.py` be
needed for the targets; let the first `nA` rows be separated from the others (`ue_separated`: the
group-id columns used by the needed aggregations are data columns with disjoint values on the two
parts, the pointer columns used by the needed `sum_by_p_id` aggregations are data columns under
which both parts are closed); let no data column be "int on A, but with
floats among the others" (`ue_DtStable`). If `compute_taxes_and_transfers` succeeds on the whole
table and on the first `nA` rows alone, the result for the first `nA` rows alone consists of the
first `nA` rows of the joint result — column by column, values and dtypes, including 0-d results
that are broadcast to the number of rows. -/
theorem simulate_union (inp : Input) (nA nB : Nat)
    (hrows : ∀ c ∈ inp.data, c.2.length = nA + nB) (hA : 0 < nA) (_hB : 0 < nB)
    (hdecl : ∀ r ∈ inp.rules, r.ret.isSome = true)
    (hnogrp : ue_noGroupingNeeded inp = true)
    (hsep : ue_separated nA inp = true)
    (hdt : ∀ c ∈ inp.data, ue_DtStable (c.2.take nA) c.2)
    (tbl tblA : Table) (h : simulate inp = .ok tbl) (hAok : simulate (takeInput nA inp) = .ok tblA) :
    takeTable nA tbl = tblA :=
  (ue_simulate_sel (b := true) hrows hA (ue_declaredNeeded_of_all hdecl) hnogrp hsep hdt h hAok).symm

/-- **C02 end to end (the other households).** The symmetric statement: the result for the
remaining `nB` rows alone consists of the remaining rows of the joint result. So the results of
the other households do not depend on the presence of the persons of A either. -/
theorem simulate_union_snd (inp : Input) (nA nB : Nat)
    (hrows : ∀ c ∈ inp.data, c.2.length = nA + nB) (_hA : 0 < nA) (hB : 0 < nB)
    (hdecl : ∀ r ∈ inp.rules, r.ret.isSome = true)
    (hnogrp : ue_noGroupingNeeded inp = true)
    (hsep : ue_separated nA inp = true)
    (hdt : ∀ c ∈ inp.data, ue_DtStable (c.2.drop nA) c.2)
    (tbl tblB : Table) (h : simulate inp = .ok tbl) (hBok : simulate (dropInput nA inp) = .ok tblB) :
    dropTable nA tbl = tblB :=
  (ue_simulate_sel (b := false) hrows hB (ue_declaredNeeded_of_all hdecl) hnogrp hsep hdt h hBok).symm

/-- **C02 end to end, sharper on the rules.** Only the rules that are NEEDED for the targets (the
nodes of the pruned DAG) must have a return annotation (`ue_declaredNeeded`); a rule without
annotation that is not an ancestor of a target does no harm. Stated for both parts at once. -/
theorem simulate_union_needed (inp : Input) (nA nB : Nat)
    (hrows : ∀ c ∈ inp.data, c.2.length = nA + nB) (hA : 0 < nA) (hB : 0 < nB)
    (hdecl : ue_declaredNeeded inp = true)
    (hnogrp : ue_noGroupingNeeded inp = true)
    (hsep : ue_separated nA inp = true)
    (hdtA : ∀ c ∈ inp.data, ue_DtStable (c.2.take nA) c.2)
    (hdtB : ∀ c ∈ inp.data, ue_DtStable (c.2.drop nA) c.2)
    (tbl tblA tblB : Table) (h : simulate inp = .ok tbl)
    (hAok : simulate (takeInput nA inp) = .ok tblA) (hBok : simulate (dropInput nA inp) = .ok tblB) :
    takeTable nA tbl = tblA ∧ dropTable nA tbl = tblB :=
  ⟨(ue_simulate_sel (b := true) hrows hA hdecl hnogrp hsep hdtA h hAok).symm,
   (ue_simulate_sel (b := false) hrows hB hdecl hnogrp hsep hdtB h hBok).symm⟩

/-- **C02 end to end for homogeneous columns** (the situation of a pandas `DataFrame`, and the
ASSUMPTION under which the model is tied to the Python code): if every raw data column is all-int,
all-float or all-bool, no dtype hypothesis is needed. -/
theorem simulate_union_homogeneous (inp : Input) (nA nB : Nat)
    (hrows : ∀ c ∈ inp.data, c.2.length = nA + nB) (hA : 0 < nA) (hB : 0 < nB)
    (hdecl : ∀ r ∈ inp.rules, r.ret.isSome = true)
    (hnogrp : ue_noGroupingNeeded inp = true)
    (hsep : ue_separated nA inp = true)
    (hhom : ∀ c ∈ inp.data, ue_Homog c.2 = true)
    (tbl tblA tblB : Table) (h : simulate inp = .ok tbl)
    (hAok : simulate (takeInput nA inp) = .ok tblA) (hBok : simulate (dropInput nA inp) = .ok tblB) :
    takeTable nA tbl = tblA ∧ dropTable nA tbl = tblB := by
  have hne : ∀ (b : Bool), 0 < ue_n b nA nB → ∀ c ∈ inp.data, ue_rows b nA c.2 ≠ [] := by
    intro b hpos c hc he
    have := ue_rows_length (b := b) (hrows c hc)
    rw [he] at this
    simp only [List.length_nil] at this
    omega
  exact simulate_union_needed inp nA nB hrows hA hB (ue_declaredNeeded_of_all hdecl) hnogrp hsep
    (fun c hc => ue_dtStable_of_homog (b := true) (hhom c hc) (hne true hA c hc))
    (fun c hc => ue_dtStable_of_homog (b := false) (hhom c hc) (hne false hB c hc))
    tbl tblA tblB h hAok hBok

/-- **C02 end to end, the converse (the joint call is the two separate calls stacked).** Let the
rules needed for the targets be annotated, no id constructor be needed and the first `nA` rows be
separated from the others (as above); let every raw data column be homogeneous (all int, all float
or all bool); let the p_ids of the two parts be disjoint and, for every group id column present in
the data (`hh_id`, `wthh_id`, `fg_id`, …), the ids of the two parts be disjoint (`ue_idsDisjoint`).
If `compute_taxes_and_transfers` succeeds on the persons of A alone and on the other households
alone, it SUCCEEDS on the joint table, and the joint result consists of the two separate results.
(What is needed besides the separation of the needed aggregations: the joint table must pass
`_process_and_check_data` — unique p_ids, valid foreign keys, group-level columns constant within
groups — and that follows from the checks of the parts exactly when p_ids and group ids do not
collide across the parts.) -/
theorem simulate_union_of_parts (inp : Input) (nA nB : Nat)
    (hrows : ∀ c ∈ inp.data, c.2.length = nA + nB) (hA : 0 < nA) (hB : 0 < nB)
    (hdecl : ue_declaredNeeded inp = true)
    (hnogrp : ue_noGroupingNeeded inp = true)
    (hsep : ue_separated nA inp = true)
    (hhom : ∀ c ∈ inp.data, ue_Homog c.2 = true)
    (hdis : ue_idsDisjoint nA inp.data = true)
    (tblA tblB : Table)
    (hAok : simulate (takeInput nA inp) = .ok tblA) (hBok : simulate (dropInput nA inp) = .ok tblB) :
    ∃ tbl, simulate inp = .ok tbl ∧ takeTable nA tbl = tblA ∧ dropTable nA tbl = tblB :=
  ue_simulate_of_parts_homog hrows hA hB hdecl hnogrp hsep hhom hdis hAok hBok

/-- **The converse, general form.** Instead of homogeneity and disjoint ids it suffices that the joint
data pass the dtype inference and `_process_and_check_data` (`ue_dataOK`) and that the columns are
dtype-stable for both parts. -/
theorem simulate_union_of_parts_checked (inp : Input) (nA nB : Nat)
    (hrows : ∀ c ∈ inp.data, c.2.length = nA + nB) (hA : 0 < nA) (hB : 0 < nB)
    (hdecl : ue_declaredNeeded inp = true)
    (hnogrp : ue_noGroupingNeeded inp = true)
    (hsep : ue_separated nA inp = true)
    (hdtA : ∀ c ∈ inp.data, ue_DtStable (c.2.take nA) c.2)
    (hdtB : ∀ c ∈ inp.data, ue_DtStable (c.2.drop nA) c.2)
    (hok : ue_dataOK inp.data = true)
    (tblA tblB : Table)
    (hAok : simulate (takeInput nA inp) = .ok tblA) (hBok : simulate (dropInput nA inp) = .ok tblB) :
    ∃ tbl, simulate inp = .ok tbl ∧ takeTable nA tbl = tblA ∧ dropTable nA tbl = tblB :=
  ue_simulate_of_parts hrows hA hB hdecl hnogrp hsep hdtA hdtB hok hAok hBok

/-- **The data checks of the joint table.** `_process_and_check_data` accepts a typed table of 1-d
columns if it accepts the first `nA` rows and the remaining rows, the p_ids of the two parts are
disjoint and so are the ids of every group id column present (`ue_idColsSep`). (Unique p_ids: unique
in each part and disjoint. Foreign keys: a pointer of a row of A is `-1` or a p_id of A, which is a
p_id of the joint table. Group-level columns: two rows with the same group id lie in the same
part.) -/
theorem checkData_union_of_parts (nA : Nat) (raw : List (String × Col))
    (harr : ∀ e ∈ raw, e.2.scalar = false)
    (hA : checkData (un_takeData nA raw) = .ok ()) (hB : checkData (un_dropData nA raw) = .ok ())
    (hdis : ue_idColsSep nA raw = true) :
    checkData raw = .ok () :=
  (mi_checkData_ok_iff raw).2 (ue_checkB_of_parts (nA := nA) harr
    ((mi_checkData_ok_iff (ue_selData true nA raw)).1 hA)
    ((mi_checkData_ok_iff (ue_selData false nA raw)).1 hB)
    (ue_idColsSep_elim hdis).1 (ue_idColsSep_elim hdis).2)

/-- **The converted `p_id` column is duplicate free.** After `_process_and_check_data`
(`_fail_if_pid_is_non_unique` on the raw values) and `_convert_data_to_correct_types` (`p_id` is
converted to `int`, losslessly or not at all) the integer values of the column `p_id` are pairwise
different. So `ue_separated` does not have to ask for it. -/
theorem prepare_pid_unique {ruleFns : List Fn} {gs : List (String × GroupSpec)}
    {ps : List (String × PidSpec)} {data : List (String × Column)} {T : List String} {pr : Prep}
    (h : prepare ruleFns gs ps data T = .ok pr) (c : Col) (hc : find? pr.data "p_id" = some c) :
    c.ints.Nodup :=
  ue_prepare_pid_nodup h c hc

/-! ### the stages (what `simulate_union` is assembled from) -/

/-- **Stage 1, `prepare`.** If the data checks, the construction of the function set and the type
conversion succeed for the joint data and for the first `nA` rows (non-empty, dtype-stable), then
both calls work with the SAME functions and data-column names (`load_and_check_functions` only
looks at the column names), and the converted data of the separate call are the first `nA` rows of
the converted joint data. -/
theorem prepare_take {nA : Nat} {ruleFns : List Fn} {gs : List (String × GroupSpec)}
    {ps : List (String × PidSpec)} {data : List (String × Column)} {T : List String} {pr prA : Prep}
    (h : prepare ruleFns gs ps data T = .ok pr)
    (hA : prepare ruleFns gs ps (data.map fun p => (p.1, p.2.take nA)) T = .ok prA)
    (hne : ∀ c ∈ data, c.2.take nA ≠ [])
    (hst : ∀ c ∈ data, ue_DtStable (c.2.take nA) c.2) :
    prA.fns = pr.fns ∧ prA.dataCols = pr.dataCols ∧ prA.data = un_takeData nA pr.data :=
  ue_prepare_sel (b := true) h hA hne hst

/-- **Stage 2, `plan`.** `dags.create_dag`, the cycle check, `_add_rounding_to_functions` and
`_fail_if_root_nodes_are_missing` depend on the data only through the column names: for two
preparations with the same functions and column names the plans have the same system of nodes and
the same execution order. -/
theorem plan_take {params : List (String × Val)} {T : List String} {pr prA : Prep} {p pA : Plan}
    (hfns : prA.fns = pr.fns) (hdc : prA.dataCols = pr.dataCols)
    (h : plan params T pr = .ok p) (hA : plan params T prA = .ok pA) :
    pA.sys = p.sys ∧ pA.order = p.order ∧ pA.data = prA.data ∧ p.data = pr.data := by
  obtain ⟨specs, rfl, rfl⟩ := ue_plan_sel hfns hdc h hA
  unfold planResult
  simp only [hfns, hdc, and_self]

/-- **Stage 3, `exec`.** The same system of nodes (built from `fns`, separated on the joint data `D`,
see `un_UnionFns` in `Props/C02Sim.lean`) executed on `D` (`nA + nB` rows) and on the first `nA` rows
of `D`: if both executions succeed, the table for the part consists of the first `nA` rows of the
joint table (0-d results are broadcast to `nA + nB` resp. `nA` rows). -/
theorem exec_take {nA nB : Nat} (params : List (String × Val)) (specs : List (String × RSpec))
    (fns : List Fn) (D : Dag.Data Col) (order orderA : List String) (T : List String)
    (hfns : un_UnionFns params D nA fns) (hD : ColsOK (nA + nB) (D.map (·.2))) (tbl tblA : Table)
    (h : exec { data := D, sys := sysOf params specs fns, order := order, nRows := nA + nB } T = .ok tbl)
    (hA : exec { data := un_takeData nA D, sys := sysOf params specs fns, order := orderA,
                 nRows := nA } T = .ok tblA) :
    takeTable nA tbl = tblA :=
  (ue_exec_sel (b := true) params specs fns order orderA T hfns hD h hA).symm

/-! ## 2. non-vacuity: household 5 (p_ids 10, 11) together with household 2 (p_ids 3, 20) -/

section examples
open Examples (I F rule nm mul it)

/-- `def net_m(inc_m) -> float: return inc_m * 2` -/
private def net_m : Rule := rule "net_m" ["inc_m"] (mul (nm "inc_m") (it 2)) (some .float)

/-- the joint call: a rule (`net_m`), an automatic group sum (`net_m_hh`), a time conversion
(`net_y`) and a p_id aggregation (`recv_m`: the `net_m` of the persons pointing to me) as targets -/
private def inpJ : Input :=
  { rules := [net_m],
    pidSpecs := [("recv_m", ⟨"p_id_recv", "net_m"⟩)],
    data := [("p_id", I [10, 11, 3, 20]), ("hh_id", I [5, 5, 2, 2]), ("p_id_recv", I [11, -1, 20, 20]),
             ("inc_m", F [100, 40, 60, 20])],
    targets := ["net_m", "net_m_hh", "net_y", "recv_m"] }

private def tblJ : Table :=
  [("net_m", F [200, 80, 120, 40]), ("net_m_hh", F [280, 280, 160, 160]),
   ("net_y", F [2400, 960, 1440, 480]), ("recv_m", F [0, 200, 0, 160])]
private def tblA0 : Table :=
  [("net_m", F [200, 80]), ("net_m_hh", F [280, 280]), ("net_y", F [2400, 960]), ("recv_m", F [0, 200])]
private def tblB0 : Table :=
  [("net_m", F [120, 40]), ("net_m_hh", F [160, 160]), ("net_y", F [1440, 480]), ("recv_m", F [0, 160])]

/-- the three calls, evaluated -/
example : simulate inpJ = .ok tblJ := by decide +kernel
example : simulate (takeInput 2 inpJ) = .ok tblA0 := by decide +kernel
example : simulate (dropInput 2 inpJ) = .ok tblB0 := by decide +kernel
/-- the separate calls see households 5 resp. 2 only -/
example : (takeInput 2 inpJ).data = [("p_id", I [10, 11]), ("hh_id", I [5, 5]), ("p_id_recv", I [11, -1]),
    ("inc_m", F [100, 40])] := by decide +kernel
/-- all hypotheses of the theorems hold for this input … -/
example : (∀ c ∈ inpJ.data, c.2.length = 2 + 2) ∧ (∀ r ∈ inpJ.rules, r.ret.isSome = true) ∧
    ue_noGroupingNeeded inpJ = true ∧ ue_declaredNeeded inpJ = true ∧ ue_separated 2 inpJ = true ∧
    (∀ c ∈ inpJ.data, ue_DtStable (c.2.take 2) c.2) ∧ (∀ c ∈ inpJ.data, ue_DtStable (c.2.drop 2) c.2) ∧
    (∀ c ∈ inpJ.data, ue_Homog c.2 = true) := by decide +kernel
/-- … the needed functions are the four targets (all four kinds of nodes) … -/
example : (ue_prep inpJ).map (fun pr => (ue_needed inpJ pr).map (·.name)) =
    .ok ["recv_m", "net_y", "net_m", "net_m_hh"] := by decide +kernel
/-- … and the theorems apply: the A-part of the joint result is the result for A alone, the B-part
the result for B alone. -/
example : takeTable 2 tblJ = tblA0 :=
  simulate_union inpJ 2 2 (by decide +kernel) (by decide) (by decide) (by decide +kernel)
    (by decide +kernel) (by decide +kernel) (by decide +kernel) _ _ (by decide +kernel) (by decide +kernel)
example : dropTable 2 tblJ = tblB0 :=
  simulate_union_snd inpJ 2 2 (by decide +kernel) (by decide) (by decide) (by decide +kernel)
    (by decide +kernel) (by decide +kernel) (by decide +kernel) _ _ (by decide +kernel) (by decide +kernel)
example : takeTable 2 tblJ = tblA0 ∧ dropTable 2 tblJ = tblB0 :=
  simulate_union_homogeneous inpJ 2 2 (by decide +kernel) (by decide) (by decide) (by decide +kernel)
    (by decide +kernel) (by decide +kernel) (by decide +kernel) _ _ _ (by decide +kernel)
    (by decide +kernel) (by decide +kernel)

/-- … and the converse: the hypotheses of `simulate_union_of_parts` hold, so the success of the two
separate calls alone gives the joint result. -/
example : ue_idsDisjoint 2 inpJ.data = true ∧ ue_dataOK inpJ.data = true := by decide +kernel
example : ∃ tbl, simulate inpJ = .ok tbl ∧ takeTable 2 tbl = tblA0 ∧ dropTable 2 tbl = tblB0 :=
  simulate_union_of_parts inpJ 2 2 (by decide +kernel) (by decide) (by decide) (by decide +kernel)
    (by decide +kernel) (by decide +kernel) (by decide +kernel) (by decide +kernel) _ _
    (by decide +kernel) (by decide +kernel)
example : ∃ tbl, simulate inpJ = .ok tbl ∧ takeTable 2 tbl = tblA0 ∧ dropTable 2 tbl = tblB0 :=
  simulate_union_of_parts_checked inpJ 2 2 (by decide +kernel) (by decide) (by decide) (by decide +kernel)
    (by decide +kernel) (by decide +kernel) (by decide +kernel) (by decide +kernel) (by decide +kernel)
    _ _ (by decide +kernel) (by decide +kernel)

/-! ### non-vacuity of the stage lemmas -/

/-- `prepare_take` and `plan_take`: both preparations and both plans of the example succeed, so the
hypotheses hold together; the conclusions follow. -/
example : ∃ pr prA p pA, ue_prep inpJ = .ok pr ∧ ue_prep (takeInput 2 inpJ) = .ok prA ∧
    plan inpJ.params (sortDedup inpJ.targets) pr = .ok p ∧
    plan inpJ.params (sortDedup inpJ.targets) prA = .ok pA ∧
    prA.fns = pr.fns ∧ prA.dataCols = pr.dataCols ∧ prA.data = un_takeData 2 pr.data ∧
    pA.sys = p.sys ∧ pA.order = p.order := by
  have h1 : ((ue_prep inpJ).bind (plan inpJ.params (sortDedup inpJ.targets))).isOk = true := by
    decide +kernel
  have h2 : ((ue_prep (takeInput 2 inpJ)).bind (plan inpJ.params (sortDedup inpJ.targets))).isOk = true := by
    decide +kernel
  cases h : ue_prep inpJ with
  | error e => rw [h] at h1; cases h1
  | ok pr =>
    cases hA : ue_prep (takeInput 2 inpJ) with
    | error e => rw [hA] at h2; cases h2
    | ok prA =>
      rw [h] at h1
      rw [hA] at h2
      cases hp : plan inpJ.params (sortDedup inpJ.targets) pr with
      | error e => simp only [Except.bind, hp] at h1; cases h1
      | ok p =>
        cases hpA : plan inpJ.params (sortDedup inpJ.targets) prA with
        | error e => simp only [Except.bind, hpA] at h2; cases h2
        | ok pA =>
          obtain ⟨e1, e2, e3⟩ := prepare_take (nA := 2) h hA (by decide +kernel) (by decide +kernel)
          obtain ⟨e4, e5, _⟩ := plan_take e1 e2 hp hpA
          exact ⟨pr, prA, p, pA, rfl, rfl, hp, hpA, e1, e2, e3, e4, e5⟩

/-- `prepare_pid_unique`: the preparation of the example succeeds and has a `p_id` column -/
example : ((ue_prep inpJ).map fun pr => (find? pr.data "p_id").map (·.ints)) = .ok (some [10, 11, 3, 20]) := by
  decide +kernel

private def fnsE : List Fn :=
  [ { name := "x_y", args := ["x_m"], ann := none, kind := .timeConv "x_m" .m .y },
    { name := "x_y_hh", args := ["x_y", "hh_id"], ann := none, kind := .groupAgg .sum (some "x_y") "hh_id" } ]
private def DE : Dag.Data Col :=
  [("x_m", { dt := .int, vals := [.i 1, .i 2, .i 3, .i 4] }), ("hh_id", { dt := .int, vals := [.i 5, .i 5, .i 2, .i 2] })]
private theorem fnsE_sep : un_UnionFns [] DE 2 fnsE := by
  intro f hf
  simp only [fnsE, List.mem_cons, List.not_mem_nil, or_false] at hf
  rcases hf with rfl | rfl
  · exact ⟨rfl, fun h => (by cases h), fun h => (by cases h), fun h => (by cases h)⟩
  · refine ⟨rfl, fun _ d hd => ?_, fun h => (by cases h), fun h => (by cases h)⟩
    cases hd
    exact ⟨_, rfl, by decide +kernel⟩
/-- `exec_take`: a time conversion and a household sum -/
example : takeTable 2 [("x_y_hh", I [36, 36, 84, 84])] = [("x_y_hh", I [36, 36])] :=
  exec_take (nA := 2) (nB := 2) [] [] fnsE DE ["x_y", "x_y_hh"] ["x_y", "x_y_hh"] ["x_y_hh"] fnsE_sep
    (by decide) _ _ (by decide +kernel) (by decide +kernel)

private def rawE : List (String × Col) :=
  [("p_id", { dt := .int, vals := [.i 10, .i 11, .i 3, .i 20] }),
   ("hh_id", { dt := .int, vals := [.i 5, .i 5, .i 2, .i 2] }),
   ("p_id_ehepartner", { dt := .int, vals := [.i 11, .i 10, .i (-1), .i (-1)] }),
   ("miete_hh", { dt := .float, vals := [.f 500, .f 500, .f 300, .f 300] })]
/-- `checkData_union_of_parts`: unique p_ids, a foreign key, a household-level column -/
example : checkData rawE = .ok () :=
  checkData_union_of_parts 2 rawE (by decide) (by decide +kernel) (by decide +kernel) (by decide +kernel)
/-- household 5 also occurs among the others, with another rent -/
private def rawBad : List (String × Col) :=
  [("p_id", { dt := .int, vals := [.i 10, .i 11, .i 3, .i 20] }),
   ("hh_id", { dt := .int, vals := [.i 5, .i 5, .i 5, .i 2] }),
   ("miete_hh", { dt := .float, vals := [.f 500, .f 500, .f 300, .f 300] })]
/-- … and WHY the group ids must not collide: both parts pass the checks, the joint table does not
(`_fail_if_group_variables_not_constant_within_groups`). -/
example : ue_idColsSep 2 rawBad = false ∧ checkData (un_takeData 2 rawBad) = .ok () ∧
    checkData (un_dropData 2 rawBad) = .ok () ∧ checkData rawBad = .error .valueError := by
  decide +kernel

/-! ## 3. why the hypotheses are needed -/

/-- person 3 of the other households carries the household id 5 of A -/
private def inpShared : Input :=
  { inpJ with data := [("p_id", I [10, 11, 3, 20]), ("hh_id", I [5, 5, 5, 2]),
      ("p_id_recv", I [11, -1, 20, 20]), ("inc_m", F [100, 40, 60, 20])] }

/-- **WHY the households must be disjoint**: if a row of B carries the household id 5 of A, the check
`ue_separated` fails, both calls succeed, and the household sum `net_m_hh` of A on the joint table
(`400`) contains that row, while A alone gets `280`. All other hypotheses of `simulate_union` hold. -/
theorem simulate_union_needs_disjoint_households :
    ue_separated 2 inpShared = false ∧
    ue_noGroupingNeeded inpShared = true ∧ (∀ c ∈ inpShared.data, ue_DtStable (c.2.take 2) c.2) ∧
    simulate inpShared = .ok [("net_m", F [200, 80, 120, 40]), ("net_m_hh", F [400, 400, 400, 40]),
      ("net_y", F [2400, 960, 1440, 480]), ("recv_m", F [0, 200, 0, 160])] ∧
    simulate (takeInput 2 inpShared) = .ok tblA0 ∧
    takeTable 2 [("net_m", F [200, 80, 120, 40]), ("net_m_hh", F [400, 400, 400, 40]),
      ("net_y", F [2400, 960, 1440, 480]), ("recv_m", F [0, 200, 0, 160])] ≠ tblA0 := by
  decide +kernel

/-- person 3 of the other households points to person 11 of A -/
private def inpOpen : Input :=
  { inpJ with data := [("p_id", I [10, 11, 3, 20]), ("hh_id", I [5, 5, 2, 2]),
      ("p_id_recv", I [11, -1, 11, 20]), ("inc_m", F [100, 40, 60, 20])] }

/-- **WHY the parts must be closed under the pointer columns**: if a person of another household
points to person 11 of A, person 11 receives `200 + 120` on the joint table but `200` alone. -/
theorem simulate_union_needs_closed_pointers :
    ue_separated 2 inpOpen = false ∧
    simulate inpOpen = .ok [("net_m", F [200, 80, 120, 40]), ("net_m_hh", F [280, 280, 160, 160]),
      ("net_y", F [2400, 960, 1440, 480]), ("recv_m", F [0, 320, 0, 40])] ∧
    simulate (takeInput 2 inpOpen) = .ok tblA0 := by
  decide +kernel

/-- the column `x_m` is `int` on A but contains a float among the others -/
private def inpMixed : Input :=
  { rules := [],
    data := [("p_id", I [10, 11, 3, 20]), ("hh_id", I [5, 5, 2, 2]),
             ("x_m", [.int 1, .int 2, .flt (5/2), .int 3])],
    targets := ["x_y"] }

/-- **WHY dtype stability is needed**: the dtype of a data column is inferred from all its values. A
column that is `[1, 2]` for A and `[2.5, 3]` for the others is `float64` on the joint table but
`int64` for A alone; the time conversion `m → y` keeps integer dtypes, so A alone gets the ints
`[12, 24]`, on the joint table the floats `[12.0, 24.0]`. All other hypotheses of `simulate_union`
hold. (A pandas column cannot be like that: it would be `float64` as a whole, and so would its
first two rows be; the hypothesis concerns the model's per-call dtype inference only.) -/
theorem simulate_union_needs_dtype_stability :
    ¬ (∀ c ∈ inpMixed.data, ue_DtStable (c.2.take 2) c.2) ∧
    (∀ c ∈ inpMixed.data, c.2.length = 2 + 2) ∧ (∀ r ∈ inpMixed.rules, r.ret.isSome = true) ∧
    ue_noGroupingNeeded inpMixed = true ∧ ue_separated 2 inpMixed = true ∧
    simulate inpMixed = .ok [("x_y", F [12, 24, 30, 36])] ∧
    simulate (takeInput 2 inpMixed) = .ok [("x_y", I [12, 24])] ∧
    takeTable 2 [("x_y", F [12, 24, 30, 36])] ≠ [("x_y", I [12, 24])] := by
  decide +kernel

/-- `def g(x): return 0.5 if x > 1.5 else 0` WITHOUT return annotation -/
private def gRule : Rule :=
  rule "g" ["x"] (.ifexp (.cmp (nm "x") [(.gt, .const (.flt (3/2)))]) (.const (.flt (1/2))) (it 0))

private def inpUndeclared : Input :=
  { rules := [gRule],
    data := [("p_id", I [10, 11, 3, 20]), ("hh_id", I [5, 5, 2, 2]), ("x", F [1, 5/2, 3, 7])],
    targets := ["g"] }

/-- **WHY the return annotations are needed**: without annotation `numpy.vectorize` probes the dtype on
the FIRST row of the table it is called with. On the joint table the first result is the int `0`, so
the column is int64 `[0, 0, 0, 0]` (the `0.5`s are truncated); the other households alone start with
`0.5` and get float64 `[0.5, 0.5]`. All other hypotheses of `simulate_union_snd` hold. -/
theorem simulate_union_needs_return_annotation :
    ue_declaredNeeded inpUndeclared = false ∧
    ue_noGroupingNeeded inpUndeclared = true ∧ ue_separated 2 inpUndeclared = true ∧
    (∀ c ∈ inpUndeclared.data, ue_DtStable (c.2.drop 2) c.2) ∧
    simulate inpUndeclared = .ok [("g", I [0, 0, 0, 0])] ∧
    simulate (dropInput 2 inpUndeclared) = .ok [("g", F [1/2, 1/2])] ∧
    dropTable 2 [("g", I [0, 0, 0, 0])] ≠ [("g", F [1/2, 1/2])] := by
  decide +kernel

/-- household 2 contains a person with the p_id 10 of A -/
private def inpDupPid : Input :=
  { inpJ with data := [("p_id", I [10, 11, 10, 20]), ("hh_id", I [5, 5, 2, 2]),
      ("p_id_recv", I [11, -1, 20, 20]), ("inc_m", F [100, 40, 60, 20])] }

/-- **WHY the converse needs disjoint p_ids**: both separate calls succeed, but the joint table has a
duplicate p_id and is rejected by `_fail_if_pid_is_non_unique`. -/
theorem simulate_union_of_parts_needs_disjoint_pids :
    ue_idsDisjoint 2 inpDupPid.data = false ∧
    simulate (takeInput 2 inpDupPid) = .ok tblA0 ∧
    simulate (dropInput 2 inpDupPid) = .ok tblB0 ∧
    simulate inpDupPid = .error .valueError := by
  decide +kernel

end examples

end GV.Simulate
