import GettsimVerif.Props.C08
import GettsimVerif.Generated.Graphs
/-
C08 — instance obligations on the dependency graphs of the default targets regenerated from
/repo (one per distinct function table from 2015-01-01 on), decided by the kernel.
-/
namespace GV.Props.C08Inst
open GV.Graph GV.Gen.Graphs

/-- the real graph could be built at every validity bound from 2015-01-01 on -/
theorem graphs_build : buildErrors = [] ∧ 0 < count := by decide +kernel

set_option maxRecDepth 1000000 in
/-- every graph has a valid topological certificate (hence is acyclic, `cert_sound`, and is
evaluated completely with fuel `n`, `eval_terminates_with_fuel_n`) and all its leaves are
documented input variables, parameter dictionaries or parameter-only rules -/
theorem all_graphs_ok :
    all.all (fun g => certOK g.1 g.2.1 && rootsAllowed g.1 g.2.2) = true := by decide +kernel

/-- consequence: no default-target graph from 2015-01-01 on has a dependency cycle -/
theorem all_graphs_acyclic : ∀ g ∈ all, Acyclic g.1 := by
  intro g hg
  have h := all_graphs_ok
  rw [List.all_eq_true] at h
  have := h g hg
  simp only [Bool.and_eq_true] at this
  exact cert_sound this.1

end GV.Props.C08Inst
