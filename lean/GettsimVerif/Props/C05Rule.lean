import GettsimVerif.Lemmas.SimFeedBack
import GettsimVerif.Props.C05Sim
/-
Property C05 ("feeding a computed column back as data leaves every other result unchanged") for the
CONCRETE end-to-end model `GV.Simulate.simulate`, with side conditions that a user can check BY
LOOKING AT NAMES AND ANNOTATIONS.

`Props/C05Sim.lean` proves the feed-back theorem `simulate_feed_back_gen` under the semantic /
computable side conditions (S) the value of `n` is a 1-d array, (T) the type to which the supplied
column is converted is the dtype of that value, (F) `load_and_check_functions` builds the same
function set with and without a data column `n`, (E) the table is not empty. Here these are derived
from syntactic facts about an ordinary user rule `n`:

 (R1) `n` is the name of a rule;
 (R2) `n` has no time-unit suffix `_y/_m/_w/_d` (optionally followed by a group suffix):
      `TimeConv.parseName n = none`;
 (R3) every rule called `n` (there is normally exactly one) has a return annotation `-> ty`, no
      `params_key_for_rounding` (or the call uses `rounding=False`), and at least one parameter that
      is a data column (and is not called `…_params`);
 (R4) `n` is not the name of a user aggregation spec (`aggregate_by_group_specs`) and not one of the
      id constructors `wthh_id, fg_id, bg_id, eg_id, ehe_id, sn_id` (either would REPLACE the rule);
 (R5) `n` is not one of the `TYPES_INPUT_VARIABLES`.

* `fnsStable_of_plain_rule`        : (R1) + (R2) ⟹ (F);
* `feed_back_S_T_of_declared_rule` : (R1) + (R3) + (R4) + (R5) ⟹ (S) and (T);
* `simulate_feed_back_rule`        : (R1)–(R5) + both calls succeed + non-empty column ⟹ the column
  of any other target `t` is unchanged.
-/
namespace GV.Simulate
open GV.Lang (Val)

/-- **(F) holds for every rule name without a time-unit suffix.** If `n` is the name of a rule of
`inp` and carries no time-unit suffix (`TimeConv.parseName n = none`), then
`load_and_check_functions` returns the same `all_functions` with and without a data column called
`n` (the computable check `ov_fnsStable inp n` succeeds; by `fnsStable_sound` the two function sets
are equal). Reason: (a) `create_time_conversion_functions` derives nothing from a column without
time unit; (b) a p_id aggregation spec whose source is `n` is kept anyway, because `n` is a
function; (c) automatic group sums `n_hh`, … are created anyway, because `n` is a function.
Compared with the name conditions (P1)–(P3) of `xc_plain` (`Lemmas/SimExtraCol.lean`, for an
ARBITRARY new column name) only (P1) is needed: (P2) "`n` is not the source of a p_id aggregation"
and (P3) "`n` is not what remains of an argument / target / spec source after
`remove_group_suffix`" – and a fortiori "`n` has no group suffix" – are superfluous for the name of
a rule. -/
theorem fnsStable_of_plain_rule (inp : Input) (n : String) (hr : n ∈ inp.rules.map (·.name))
    (hp : TimeConv.parseName n = none) : ov_fnsStable inp n = true :=
  fb_fnsStable_of_rule hr hp

/-- **(S) and (T) hold for a declared, unrounded rule that reads a data column.** Let `n` be the
name of a rule such that every rule called `n` has the return annotation `ty`, no rounding key (or
`rounding=False`), and a parameter `a` that is a data column and not a `<g>_params` argument; let
`n` be neither the name of an aggregation spec nor of an id constructor of `groupings.py`, nor an
entry of `TYPES_INPUT_VARIABLES`. If the call for the targets `n`, `t` succeeds, then the value `v`
of `n` in that run exists, (S) is a 1-d array, has the declared dtype `ty`, and (T) the type to
which the second run (targets `[t]`, data extended by ANY column `c` called `n`) converts the
supplied column — if there is one — is that dtype. -/
theorem feed_back_S_T_of_declared_rule (inp : Input) (n t : String) (ty : Ty) (tbl : Table) (c : Column)
    (hr : n ∈ inp.rules.map (·.name))
    (hdecl : ∀ r ∈ inp.rules, r.name = n → r.ret = some ty ∧
      (r.roundingKey = none ∨ inp.rounding = false) ∧
      ∃ a ∈ r.fn.args, isParamArg a = false ∧ a ∈ inp.data.map (·.1))
    (hgs : n ∉ inp.groupSpecs.map (·.1)) (hgr : n ∉ groupingFns.map (·.name))
    (hin : find? typesInputVariables n = none)
    (h : simulate { inp with targets := [n, t] } = .ok tbl) :
    ∃ v, ov_value { inp with targets := [n, t] } n = .ok v ∧ v.shape = .arr ∧ v.dt = ty.toDT ∧
      ∀ ty', ov_convTy { inp with targets := [t], data := inp.data ++ [(n, c)] } n = some ty' →
        ty'.toDT = v.dt := by
  obtain ⟨v, hv, hs, hdt⟩ := fb_value_of_declared_rule (inp := { inp with targets := [n, t] }) (ty := ty)
    h List.mem_cons_self hr hdecl hgs hgr
  refine ⟨v, hv, hs, hdt, ?_⟩
  intro ty' hty'
  have := fb_convTy_of_declared_rule (inp := { inp with targets := [t], data := inp.data ++ [(n, c)] })
    (ty := ty) hr (fun r hr' hn => (hdecl r hr' hn).1) hgs hgr hin hty'
  rw [this, hdt]

/-- **Feeding the column of a plain declared rule back as data does not change another target.**
Let `n` be a rule name without time-unit suffix, such that every rule called `n` is declared
`-> ty`, is not rounded and reads at least one data column; `n` is no aggregation spec, no id
constructor and no `TYPES_INPUT_VARIABLES` entry (all of this can be read off the source). Run the
system for the targets `n` and `t`, take the reported column `c` of `n`, add it to the data under
the name `n` and run again for `t`. If both calls succeed (and the table has at least one row), the
column of `t` is exactly the same. `t` is arbitrary (a rule, a time conversion, an aggregation …). -/
theorem simulate_feed_back_rule (inp : Input) (n t : String) (ty : Ty) (tbl tbl' : Table) (c : Column)
    (hr : n ∈ inp.rules.map (·.name))
    (hp : TimeConv.parseName n = none)
    (hdecl : ∀ r ∈ inp.rules, r.name = n → r.ret = some ty ∧
      (r.roundingKey = none ∨ inp.rounding = false) ∧
      ∃ a ∈ r.fn.args, isParamArg a = false ∧ a ∈ inp.data.map (·.1))
    (hgs : n ∉ inp.groupSpecs.map (·.1)) (hgr : n ∉ groupingFns.map (·.name))
    (hin : find? typesInputVariables n = none)
    (h : simulate { inp with targets := [n, t] } = .ok tbl) (hc : find? tbl n = some c)
    (h' : simulate { inp with targets := [t], data := inp.data ++ [(n, c)] } = .ok tbl')
    (hne : c ≠ []) :
    find? tbl' t = find? tbl t := by
  obtain ⟨v, hv, hs, _, hty⟩ := feed_back_S_T_of_declared_rule inp n t ty tbl c hr hdecl hgs hgr hin h
  exact simulate_feed_back_gen inp n t tbl tbl' c v h hc h' hv hs hne hty
    (fnsStable_of_plain_rule { inp with targets := [t] } n hr hp)

/-! ### non-vacuity and the role of the conditions -/

namespace FeedBackRule
open GV.Lang Examples FeedBack

/-- `a(x) -> float: return 2 * x`, `b(a) -> float: return a + 1`; data `p_id`, `hh_id`, `x` -/
def sys : Input :=
  mk [rule "a" ["x"] (mul (nm "x") (it 2)) (some .float), rule "b" ["a"] (add (nm "a") (it 1)) (some .float)]

/-- the name / annotation hypotheses (R1)–(R5) of the three theorems for `n = a` -/
example : "a" ∈ sys.rules.map (·.name) ∧ TimeConv.parseName "a" = none ∧
    (∀ r ∈ sys.rules, r.name = "a" → r.ret = some .float ∧
      (r.roundingKey = none ∨ sys.rounding = false) ∧
      ∃ a ∈ r.fn.args, isParamArg a = false ∧ a ∈ sys.data.map (·.1)) ∧
    "a" ∉ sys.groupSpecs.map (·.1) ∧ "a" ∉ groupingFns.map (·.name) ∧
    find? typesInputVariables "a" = none := by decide +kernel

/-- both calls succeed, the fed-back column is not empty, and `b = [3, 6, 9]` in both -/
example : (match simulate { sys with targets := ["a", "b"] } with
    | .ok tbl =>
      match find? tbl "a" with
      | some c =>
        !c.isEmpty &&
        match simulate { sys with targets := ["b"], data := sys.data ++ [("a", c)] } with
        | .ok tbl' => ov_shown tbl' "b" == some ("float", ["3.000000", "6.000000", "9.000000"]) &&
            ov_shown tbl "b" == some ("float", ["3.000000", "6.000000", "9.000000"])
        | .error _ => false
      | none => false
    | .error _ => false) = true := by decide +kernel

/-- (R2) cannot be dropped: `cexLastSource` of `Props/C05Sim.lean` (`s_m(x) -> float`, `s_y(x) -> float`,
feed `s_m` back, target `s_w`) satisfies (R1), (R3), (R4), (R5) – only the time-unit suffix of
`s_m` is wrong – and the result differs -/
example : "s_m" ∈ cexLastSource.rules.map (·.name) ∧ (TimeConv.parseName "s_m").isSome = true ∧
    (∀ r ∈ cexLastSource.rules, r.name = "s_m" → r.ret = some .float ∧
      (r.roundingKey = none ∨ cexLastSource.rounding = false) ∧
      ∃ a ∈ r.fn.args, isParamArg a = false ∧ a ∈ cexLastSource.data.map (·.1)) ∧
    "s_m" ∉ cexLastSource.groupSpecs.map (·.1) ∧ "s_m" ∉ groupingFns.map (·.name) ∧
    find? typesInputVariables "s_m" = none ∧
    (ov_feedReport cexLastSource "s_m" "s_w").map (·.sameResult) = some false := by decide +kernel

/-- (R3) "no rounding key" and (R5) cannot be dropped: `cexRounded` / `cexInputVar` of
`Props/C05Sim.lean` satisfy all the other conditions -/
example : TimeConv.parseName "ri" = none ∧ TimeConv.parseName "alter" = none ∧
    (ov_feedReport cexRounded "ri" "tri").map (·.sameResult) = some false ∧
    (ov_feedReport cexInputVar "alter" "talt").map (·.sameResult) = some false := by decide +kernel

/-- (R3) "reads a data column" cannot be dropped: `cexZeroArg` of `Props/C05Sim.lean` (a declared,
unrounded rule without arguments, whose result is a Python number that is not cast). (R4) is a
sufficient condition that makes "the function called `n`" the rule; it is not claimed necessary. -/
example : (ov_feedReport cexZeroArg "za" "tza").map (·.sameResult) = some false := by decide +kernel

end FeedBackRule

end GV.Simulate
