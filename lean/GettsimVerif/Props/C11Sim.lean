import GettsimVerif.Lemmas.SimMisc
/-
Property C11 for the CONCRETE function-set construction of `Core/Simulate.lean`
(`load_and_check_functions`): "an individual-level column requested with a group suffix is summed
over the group unless an explicit specification exists, and user specifications take precedence
over built-in ones."

`groupAggFns fns targets dataCols userSpecs` models `_create_aggregate_by_group_functions`
(`fns` = `{**time_conversions, **rules, **p_id_aggregations}`): the automatic specs (sum of
`remove_group_suffix(name)` over the group of the suffix) and the user specs are merged as Python
dictionaries `{**automated, **user}` and every spec is turned into a function (`groupAggFn`).
-/
namespace GV.Simulate
open GV.Lang (Val)

/-- **The user's specification wins.** If `(n, s)` is the LAST user spec with the name `n`
(later dictionary keys overwrite earlier ones), the aggregation function named `n` is the one
built from `s` (the user's aggregation kind and source column) — whether or not an automatic group
sum would exist for `n`. -/
theorem groupAggFns_user_wins (fns : List Fn) (targets dataCols : List String)
    (userSpecs : List (String × GroupSpec)) (grp : List Fn)
    (h : groupAggFns fns targets dataCols userSpecs = .ok grp)
    (pre post : List (String × GroupSpec)) (n : String) (s : GroupSpec)
    (hsplit : userSpecs = pre ++ (n, s) :: post) (hlast : ∀ e ∈ post, e.1 ≠ n) :
    ∃ f, findFn? grp n = some f ∧ groupAggFn fns n s = .ok f := by
  have hl : lookupLast userSpecs n = some s := by
    rw [hsplit]; exact mi_lookupLast_split pre post n s hlast
  exact (mi_findFn?_grp h n).1 s (mi_specOfName_user hl)

/-- **The automatic group sum.** If no user spec is named `n`, `n` is an argument of some function,
a requested target or the source column of a user aggregation specification, `n` is not itself a
function, `n` ends in a group suffix (group id `gid`)
and `n` without its group suffixes is a function or a data column, then the aggregation function
named `n` is the SUM of that column over `gid`. -/
theorem groupAggFns_automatic (fns : List Fn) (targets dataCols : List String)
    (userSpecs : List (String × GroupSpec)) (grp : List Fn)
    (h : groupAggFns fns targets dataCols userSpecs = .ok grp) (n gid : String)
    (hno : ∀ e ∈ userSpecs, e.1 ≠ n)
    (hpot : n ∈ fns.flatMap (·.args) ∨ n ∈ targets ∨ ∃ e ∈ userSpecs, e.2.source = some n)
    (hnf : hasFn fns n = false) (hgid : groupIdOf n = some gid)
    (hsrc : hasFn fns (removeGroupSuffix n) = true ∨ removeGroupSuffix n ∈ dataCols) :
    findFn? grp n = some
      { name := n, args := [removeGroupSuffix n, gid],
        ann := aggAnn .sum (some (removeGroupSuffix n)) fns,
        kind := .groupAgg .sum (some (removeGroupSuffix n)) gid } := by
  have hl := (mi_lookupLast_none_iff userSpecs n).2 hno
  have hspec := mi_specOfName_auto fns targets dataCols userSpecs n hl
  rw [if_pos ⟨(mi_mem_potential _ _ _ _).2 hpot, (mi_autoOk_iff fns dataCols n).2 ⟨hnf, by rw [hgid]; rfl, hsrc⟩⟩]
    at hspec
  obtain ⟨f, hf, hg⟩ := (mi_findFn?_grp h n).1 _ hspec
  rw [hf, (mi_groupAggFn_sum hgid hg).1]

/-- **Nothing else is created.** Every aggregation function `f` comes from the last user spec of
its name, or no user spec has its name and it is the automatic sum under exactly the conditions of
`groupAggFns_automatic`. -/
theorem groupAggFns_only_if (fns : List Fn) (targets dataCols : List String)
    (userSpecs : List (String × GroupSpec)) (grp : List Fn)
    (h : groupAggFns fns targets dataCols userSpecs = .ok grp) (f : Fn) (hf : f ∈ grp) :
    (∃ pre post s, userSpecs = pre ++ (f.name, s) :: post ∧ (∀ e ∈ post, e.1 ≠ f.name) ∧
      groupAggFn fns f.name s = .ok f) ∨
    ((∀ e ∈ userSpecs, e.1 ≠ f.name) ∧
      (f.name ∈ fns.flatMap (·.args) ∨ f.name ∈ targets ∨
        ∃ e ∈ userSpecs, e.2.source = some f.name) ∧ hasFn fns f.name = false ∧
      (hasFn fns (removeGroupSuffix f.name) = true ∨ removeGroupSuffix f.name ∈ dataCols) ∧
      ∃ gid, groupIdOf f.name = some gid ∧
        f = { name := f.name, args := [removeGroupSuffix f.name, gid],
              ann := aggAnn .sum (some (removeGroupSuffix f.name)) fns,
              kind := .groupAgg .sum (some (removeGroupSuffix f.name)) gid }) := by
  have hfind := findFn?_of_mem_nodup (mi_groupAggFns_nodup h) hf
  obtain ⟨s, hs, hg⟩ := (mi_findFn?_grp h f.name).2 f hfind
  cases hl : lookupLast userSpecs f.name with
  | some s' =>
    left
    rw [mi_specOfName_user hl] at hs
    cases hs
    obtain ⟨pre, post, hsplit, hpost⟩ := mi_lookupLast_some hl
    exact ⟨pre, post, s, hsplit, hpost, hg⟩
  | none =>
    right
    rw [mi_specOfName_auto _ _ _ _ _ hl] at hs
    split at hs
    · rename_i hcond
      cases hs
      obtain ⟨hpot, hauto⟩ := hcond
      obtain ⟨hnf, hgid, hsrc⟩ := (mi_autoOk_iff fns dataCols f.name).1 hauto
      refine ⟨(mi_lookupLast_none_iff _ _).1 hl, (mi_mem_potential _ _ _ _).1 hpot, hnf, hsrc, ?_⟩
      cases hgid' : groupIdOf f.name with
      | none => rw [hgid'] at hgid; cases hgid
      | some gid => exact ⟨gid, rfl, (mi_groupAggFn_sum hgid' hg).1⟩
    · cases hs

/-- **An automatic sum never shadows an existing function**: if `n` is already a function (a rule,
a time conversion, a p_id aggregation), an aggregation function named `n` can only come from a
user spec. -/
theorem groupAggFns_never_shadows (fns : List Fn) (targets dataCols : List String)
    (userSpecs : List (String × GroupSpec)) (grp : List Fn)
    (h : groupAggFns fns targets dataCols userSpecs = .ok grp) (f : Fn) (hf : f ∈ grp)
    (hfn : hasFn fns f.name = true) :
    ∃ s, (f.name, s) ∈ userSpecs ∧ groupAggFn fns f.name s = .ok f := by
  rcases groupAggFns_only_if fns targets dataCols userSpecs grp h f hf with
    ⟨pre, post, s, hsplit, _, hg⟩ | ⟨_, _, hnf, _⟩
  · exact ⟨s, by rw [hsplit]; simp, hg⟩
  · rw [hfn] at hnf; cases hnf

/-- the aggregation functions have distinct names (the result is a dictionary) -/
theorem groupAggFns_names_distinct (fns : List Fn) (targets dataCols : List String)
    (userSpecs : List (String × GroupSpec)) (grp : List Fn)
    (h : groupAggFns fns targets dataCols userSpecs = .ok grp) : (grp.map (·.name)).Nodup :=
  mi_groupAggFns_nodup h

/-- **The order of the dictionary merge**
`{**pid, **time_conversions, **rules, **group_aggregations, **groupings}`: the function registered
under a name `n` in `all_functions` is the grouping id constructor of that name if there is one,
else the group aggregation, else the user rule, else the time conversion, else the p_id
aggregation. In particular a name defined both as a user rule and as a (user-specified) group
aggregation resolves to the aggregation, and the id constructors of `groupings.py` win over
everything. -/
theorem buildFunctions_merge_order (ruleFns : List Fn) (groupSpecs : List (String × GroupSpec))
    (pidSpecs : List (String × PidSpec)) (targets dataCols : List String) (all : List Fn)
    (h : buildFunctions ruleFns groupSpecs pidSpecs targets dataCols = .ok all) :
    ∃ pid grp,
      pidFns (merge [] ruleFns) dataCols pidSpecs = .ok pid ∧
      groupAggFns (merge (merge (timeConvFns (merge (merge [] ruleFns) pid) dataCols) (merge [] ruleFns)) pid)
        targets dataCols groupSpecs = .ok grp ∧
      ∀ n, findFn? all n =
        (findFn? groupingFns n).or ((findFn? grp n).or ((findFn? (merge [] ruleFns) n).or
          ((findFn? (timeConvFns (merge (merge [] ruleFns) pid) dataCols) n).or (findFn? pid n)))) := by
  obtain ⟨pid, grp, hpid, hgrp, rfl⟩ := buildFunctions_ok h
  refine ⟨pid, grp, hpid, hgrp, fun n => ?_⟩
  rw [mi_findFn?_merge_nodup _ _ mi_groupingFns_nodup, mi_findFn?_merge_nodup _ _ (mi_groupAggFns_nodup hgrp),
    mi_findFn?_merge_nodup _ _ (nodup_merge_nil ruleFns),
    mi_findFn?_merge_nodup _ _ (mi_timeConvFns_nodup _ dataCols)]

/-- corollary: a group aggregation beats a user rule of the same name -/
theorem buildFunctions_aggregation_beats_rule (ruleFns : List Fn) (groupSpecs : List (String × GroupSpec))
    (pidSpecs : List (String × PidSpec)) (targets dataCols : List String) (all : List Fn)
    (h : buildFunctions ruleFns groupSpecs pidSpecs targets dataCols = .ok all) :
    ∃ pid grp,
      pidFns (merge [] ruleFns) dataCols pidSpecs = .ok pid ∧
      groupAggFns (merge (merge (timeConvFns (merge (merge [] ruleFns) pid) dataCols) (merge [] ruleFns)) pid)
        targets dataCols groupSpecs = .ok grp ∧
      ∀ n f, hasFn groupingFns n = false → findFn? grp n = some f → findFn? all n = some f := by
  obtain ⟨pid, grp, hpid, hgrp, hall⟩ :=
    buildFunctions_merge_order ruleFns groupSpecs pidSpecs targets dataCols all h
  refine ⟨pid, grp, hpid, hgrp, fun n f hg hf => ?_⟩
  rw [hall n, hf]
  unfold hasFn at hg
  cases hgr : findFn? groupingFns n with
  | none => rfl
  | some _ => rw [hgr] at hg; cases hg

/-- corollary: the id constructors of `groupings.py` win over everything -/
theorem buildFunctions_groupings_win (ruleFns : List Fn) (groupSpecs : List (String × GroupSpec))
    (pidSpecs : List (String × PidSpec)) (targets dataCols : List String) (all : List Fn)
    (h : buildFunctions ruleFns groupSpecs pidSpecs targets dataCols = .ok all) (n : String) (g : Fn)
    (hg : findFn? groupingFns n = some g) : findFn? all n = some g := by
  obtain ⟨pid, grp, _, _, hall⟩ :=
    buildFunctions_merge_order ruleFns groupSpecs pidSpecs targets dataCols all h
  rw [hall n, hg]
  rfl

/-! ## non-vacuity -/
namespace C11SimExamples
open GV.Lang

/-- `def eink_m(x) -> float: return x * 2` -/
def einkRule : Rule :=
  { name := "eink_m", fn := { name := "eink_m", args := ["x"], body := [.ret (.bin .mul (.name "x") (.const (.int 2)))] },
    ret := some .float }
/-- `def netto(eink_m_hh, miete_hh)`: uses the household sums of a rule and of a data column -/
def nettoRule : Rule :=
  { name := "netto",
    fn := { name := "netto", args := ["eink_m_hh", "miete_hh"],
            body := [.ret (.bin .sub (.name "eink_m_hh") (.name "miete_hh"))] },
    ret := some .float }
/-- a user rule that is ALSO called like a group aggregation -/
def clashRule : Rule :=
  { name := "eink_m_bg", fn := { name := "eink_m_bg", args := ["x"], body := [.ret (.name "x")] }, ret := some .float }

def fns : List Fn := [einkRule, nettoRule, clashRule].map (ruleFn true)
def cols : List String := ["p_id", "hh_id", "x", "miete"]
def specs : List (String × GroupSpec) :=
  [("eink_m_hh", ⟨.max, some "eink_m"⟩), ("kinder_hh", ⟨.count, none⟩), ("eink_m_hh", ⟨.mean, some "eink_m"⟩),
   ("eink_m_bg", ⟨.max, some "eink_m"⟩)]

def showFn (f : Fn) : String × List String × String :=
  (f.name, f.args, match f.kind with
    | .groupAgg .sum _ _ => "sum" | .groupAgg .max _ _ => "max" | .groupAgg .mean _ _ => "mean"
    | .groupAgg .count _ _ => "count" | .groupAgg _ _ _ => "agg" | .rule _ _ _ => "rule"
    | .grouping _ => "grouping" | _ => "other")

theorem ok_of_toBool {α : Type} {x : Except Err α} (h : x.toBool = true) : ∃ a, x = .ok a := by
  cases x with
  | error e => cases h
  | ok a => exact ⟨a, rfl⟩

/-- the aggregation functions of the example: the LAST user spec `eink_m_hh` (mean) wins over the
first one (max) and over the automatic sum that exists for it (`eink_m_hh` is an argument of
`netto`); `miete_hh` (argument of `netto`, `miete` a data column) and the requested `x_fg` become
automatic sums, the requested `nope_fg` does not (`nope` is no column); `eink_m_bg` is a rule AND a
user spec -/
theorem grp_ok : (groupAggFns fns ["x_fg", "nope_fg"] cols specs).toBool = true := by decide +kernel

example : ((groupAggFns fns ["x_fg", "nope_fg"] cols specs).toOption.map (·.map showFn)) =
    some [("eink_m_hh", ["eink_m", "hh_id"], "mean"), ("miete_hh", ["miete", "hh_id"], "sum"),
          ("x_fg", ["x", "fg_id"], "sum"), ("kinder_hh", ["hh_id"], "count"),
          ("eink_m_bg", ["eink_m", "bg_id"], "max")] := by decide +kernel

-- hypotheses of `groupAggFns_user_wins` for `eink_m_hh` (two specs of that name: the last one counts)
example : specs = [("eink_m_hh", ⟨.max, some "eink_m"⟩), ("kinder_hh", ⟨.count, none⟩)] ++
    ("eink_m_hh", ⟨.mean, some "eink_m"⟩) :: [("eink_m_bg", ⟨.max, some "eink_m"⟩)] ∧
    ∀ e ∈ [("eink_m_bg", (⟨.max, some "eink_m"⟩ : GroupSpec))], e.1 ≠ "eink_m_hh" := by
  refine ⟨rfl, ?_⟩
  decide

example : ∃ grp f, groupAggFns fns ["x_fg", "nope_fg"] cols specs = .ok grp ∧
    findFn? grp "eink_m_hh" = some f ∧ groupAggFn fns "eink_m_hh" ⟨.mean, some "eink_m"⟩ = .ok f := by
  obtain ⟨grp, h⟩ := ok_of_toBool grp_ok
  obtain ⟨f, hf, hg⟩ := groupAggFns_user_wins fns _ cols specs grp h
    [("eink_m_hh", ⟨.max, some "eink_m"⟩), ("kinder_hh", ⟨.count, none⟩)]
    [("eink_m_bg", ⟨.max, some "eink_m"⟩)] "eink_m_hh" ⟨.mean, some "eink_m"⟩ rfl (by decide)
  exact ⟨grp, f, h, hf, hg⟩

-- hypotheses of `groupAggFns_automatic` for `miete_hh` (an argument) and `x_fg` (a target)
example : (∀ e ∈ specs, e.1 ≠ "miete_hh") ∧ "miete_hh" ∈ fns.flatMap (·.args) ∧
    hasFn fns "miete_hh" = false ∧ groupIdOf "miete_hh" = some "hh_id" ∧
    removeGroupSuffix "miete_hh" ∈ cols := by decide +kernel
example : (∀ e ∈ specs, e.1 ≠ "x_fg") ∧ "x_fg" ∈ ["x_fg", "nope_fg"] ∧
    hasFn fns "x_fg" = false ∧ groupIdOf "x_fg" = some "fg_id" ∧
    removeGroupSuffix "x_fg" ∈ cols := by decide +kernel
-- the third alternative of the premise: `x_bg` is neither an argument nor a target, but the SOURCE
-- column of the user spec `mx_hh`; the automatic sum `x_bg` is created for it
example : (∀ e ∈ specs ++ [("mx_hh", (⟨.max, some "x_bg"⟩ : GroupSpec))], e.1 ≠ "x_bg") ∧
    "x_bg" ∉ fns.flatMap (·.args) ∧
    (∃ e ∈ specs ++ [("mx_hh", (⟨.max, some "x_bg"⟩ : GroupSpec))], e.2.source = some "x_bg") ∧
    hasFn fns "x_bg" = false ∧ groupIdOf "x_bg" = some "bg_id" ∧ removeGroupSuffix "x_bg" ∈ cols := by
  refine ⟨by decide +kernel, by decide +kernel, ⟨("mx_hh", ⟨.max, some "x_bg"⟩), by simp, rfl⟩,
    by decide +kernel, by decide +kernel, by decide +kernel⟩
example : ((groupAggFns fns [] cols (specs ++ [("mx_hh", ⟨.max, some "x_bg"⟩)])).toOption.bind
      fun grp => (findFn? grp "x_bg").map showFn) = some ("x_bg", ["x", "bg_id"], "sum") := by
  decide +kernel
-- `nope_fg` is requested but `nope` is neither a function nor a data column: no function
example : hasFn fns (removeGroupSuffix "nope_fg") = false ∧ removeGroupSuffix "nope_fg" ∉ cols := by
  decide +kernel

-- hypotheses of `groupAggFns_never_shadows`: `eink_m_bg` is a rule; it is in `grp` only because of the
-- user spec
example : hasFn fns "eink_m_bg" = true ∧
    ("eink_m_bg", (⟨.max, some "eink_m"⟩ : GroupSpec)) ∈ specs := by
  constructor
  · decide +kernel
  · simp [specs]

/-- `buildFunctions_merge_order` on the example: `eink_m_bg` (rule and aggregation) resolves to the
aggregation; a user rule called `fg_id` would lose against the id constructor -/
def fgRule : Rule :=
  { name := "fg_id", fn := { name := "fg_id", args := ["x"], body := [.ret (.name "x")] }, ret := some .int }

def allFns : Except Err (List Fn) :=
  buildFunctions ([einkRule, nettoRule, clashRule, fgRule].map (ruleFn true)) specs [] ["x_fg"] cols

example : (allFns.toOption.bind fun all => (findFn? all "eink_m_bg").map showFn) =
    some ("eink_m_bg", ["eink_m", "bg_id"], "max") := by decide +kernel
example : (allFns.toOption.bind fun all => (findFn? all "fg_id").map showFn) =
    some ("fg_id", ["p_id", "hh_id", "alter", "p_id_einstandspartner", "p_id_elternteil_1",
      "p_id_elternteil_2"], "grouping") := by decide +kernel
example : (allFns.toOption.bind fun all => (findFn? all "eink_m").map showFn) =
    some ("eink_m", ["x"], "rule") := by decide +kernel

end C11SimExamples

end GV.Simulate
