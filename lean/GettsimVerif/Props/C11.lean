import GettsimVerif.Lemmas.Agg
/-
Property C11: the scatter/gather aggregation algorithms (`grouped_*`, `sum_by_p_id`,
`join_numpy`) equal their mathematical definition.

Spec vocabulary (defined in `Lemmas/Agg.lean`):
* `members gid col g` : values of the rows whose group id is `g`, in row order;
* `WF gid col`        : `gid.length = col.length ∧ ∀ g ∈ gid, 0 ≤ g`;
* `groupVal f dflt l` : `dflt` if `l = []`, else `vs.foldl f v` for `l = v :: vs`.
`List.sum` is core `List.sum` (`foldr (· + ·) 0`).
-/
namespace GV.Agg

/-! ## 1. generic specification -/

/-- C11.1 The generic grouped reduction returns, for every row, the left fold of `f` over the
members of the row's group (in row order); `dflt` is only used for an empty group. -/
theorem grouped_spec {α : Type} (f : α → α → α) (dflt : α) (col : List α) (gid : List Int)
    (h : WF gid col) :
    grouped f dflt col gid = .ok (gid.map fun g =>
      match members gid col g with
      | [] => dflt
      | v :: vs => vs.foldl f v) := by
  rw [grouped_eq f dflt col gid h]
  congr 1

/-- C11.1' Same statement with the named spec function `groupVal`; moreover no group that is
gathered is empty, so `dflt` never shows up in the result. -/
theorem grouped_spec' {α : Type} (f : α → α → α) (dflt : α) (col : List α) (gid : List Int)
    (h : WF gid col) :
    grouped f dflt col gid = .ok (gid.map fun g => groupVal f dflt (members gid col g)) ∧
    ∀ g ∈ gid, members gid col g ≠ [] :=
  ⟨grouped_eq f dflt col gid h, fun g hg => members_ne_nil gid col g h.1 hg⟩

example : WF [5, 0, 5, 3] ([1, 2, 3, 4] : List Rat) := ⟨rfl, by decide⟩
example : members [5, 0, 5, 3] ([1, 2, 3, 4] : List Rat) 5 = [1, 3] := by decide +kernel
example : grouped (fun a b : Int => a - b) 7 [10, 2, 3, 4] [5, 0, 5, 3] = .ok [7, 2, 7, 4] := by
  decide +kernel

/-! ## 2. corollaries for the concrete aggregations -/

/-- C11.2a `grouped_sum` (ℚ) = sum (`List.sum`) of the members of the row's group. -/
theorem groupedSum_spec (col : List Rat) (gid : List Int) (h : WF gid col) :
    groupedSum col gid = .ok (gid.map fun g => (members gid col g).sum) := by
  unfold groupedSum
  rw [grouped_eq _ _ col gid h]
  simp only [groupVal_add]

/-- C11.2b `grouped_sum` (ℤ) = sum of the members of the row's group. -/
theorem groupedSumInt_spec (col : List Int) (gid : List Int) (h : WF gid col) :
    groupedSumInt col gid = .ok (gid.map fun g => (members gid col g).sum) := by
  unfold groupedSumInt
  rw [grouped_eq _ _ col gid h]
  simp only [groupVal_add]

/-- C11.2c `grouped_count` = number of rows of the row's group. -/
theorem groupedCount_spec (gid : List Int) (h : ∀ g ∈ gid, 0 ≤ g) :
    groupedCount gid = .ok (gid.map fun g => ((members gid gid g).length : Int)) := by
  unfold groupedCount
  rw [grouped_eq _ _ _ gid ⟨by simp, h⟩]
  simp only [groupVal_add, members_map, sum_map_one]

/-- C11.2d `grouped_any` = disjunction over the members of the row's group. -/
theorem groupedAny_spec (col : List Bool) (gid : List Int) (h : WF gid col) :
    groupedAny col gid = .ok (gid.map fun g => (members gid col g).any id) := by
  unfold groupedAny
  rw [grouped_eq _ _ col gid h]
  simp only [groupVal_or]

/-- C11.2e `grouped_all` = conjunction over the members of the row's group. -/
theorem groupedAll_spec (col : List Bool) (gid : List Int) (h : WF gid col) :
    groupedAll col gid = .ok (gid.map fun g => (members gid col g).all id) := by
  unfold groupedAll
  rw [grouped_eq _ _ col gid h]
  simp only [groupVal_and]

/-- C11.2f `grouped_max`: the result has one entry per row; the entry of a row with group `g`
is an element of the group's members and an upper bound of them. -/
theorem groupedMax_spec (col : List Rat) (gid : List Int) (h : WF gid col) :
    ∃ res, groupedMax col gid = .ok res ∧ res.length = gid.length ∧
      ∀ (i : Nat) (g : Int), gid[i]? = some g →
        ∃ m, res[i]? = some m ∧ m ∈ members gid col g ∧ ∀ x ∈ members gid col g, x ≤ m := by
  refine ⟨_, grouped_eq _ _ col gid h, by simp, ?_⟩
  intro i g hi
  have hg : g ∈ gid := List.mem_of_getElem? hi
  refine ⟨groupVal max 0 (members gid col g), by simp [hi], ?_⟩
  exact groupVal_max_spec 0 _ (members_ne_nil gid col g h.1 hg)

/-- C11.2g `grouped_min`: the entry of a row with group `g` is an element of the group's members
and a lower bound of them. -/
theorem groupedMin_spec (col : List Rat) (gid : List Int) (h : WF gid col) :
    ∃ res, groupedMin col gid = .ok res ∧ res.length = gid.length ∧
      ∀ (i : Nat) (g : Int), gid[i]? = some g →
        ∃ m, res[i]? = some m ∧ m ∈ members gid col g ∧ ∀ x ∈ members gid col g, m ≤ x := by
  refine ⟨_, grouped_eq _ _ col gid h, by simp, ?_⟩
  intro i g hi
  have hg : g ∈ gid := List.mem_of_getElem? hi
  refine ⟨groupVal min 0 (members gid col g), by simp [hi], ?_⟩
  exact groupVal_min_spec 0 _ (members_ne_nil gid col g h.1 hg)

/-- C11.2h `grouped_mean` = sum of the members divided by their number; the number of members
of every gathered group is at least 1 (no division by zero). -/
theorem groupedMean_spec (col : List Rat) (gid : List Int) (h : WF gid col) :
    groupedMean col gid = .ok (gid.map fun g =>
      (members gid col g).sum / ((members gid col g).length : Rat)) ∧
    ∀ g ∈ gid, 1 ≤ (members gid col g).length := by
  constructor
  · unfold groupedMean
    rw [groupedSum_spec col gid h, groupedCount_spec gid h.2]
    simp only [bind, Except.bind, pure, Except.pure]
    congr 1
    rw [List.zipWith_map, List.zipWith_self]
    apply List.map_congr_left
    intro g _
    rw [members_length gid col g h.1]
    simp
  · intro g hg
    rw [members_length gid col g h.1]
    exact members_self_length_pos gid g hg

example : groupedSum [1, 2, 3, 4] [5, 0, 5, 3] = .ok [4, 2, 4, 4] := by decide +kernel
example : groupedMean [1, 2, 4, 4] [5, 0, 5, 3] = .ok [5/2, 2, 5/2, 4] := by decide +kernel
example : groupedMax [1, -2, 3, 4] [5, 0, 5, 3] = .ok [3, -2, 3, 4] := by decide +kernel
example : groupedMin [1, -2, 3, 4] [5, 0, 5, 3] = .ok [1, -2, 1, 4] := by decide +kernel
example : groupedCount [5, 0, 5, 3] = .ok [2, 1, 2, 1] := by decide +kernel
example : groupedAny [false, false, true, false] [5, 0, 5, 3] = .ok [true, false, true, false] := by
  decide +kernel
example : groupedAll [false, true, true, true] [5, 0, 5, 3] = .ok [false, true, false, true] := by
  decide +kernel

/-! ## 3. constant within a group -/

/-- C11.3 Whenever the generic grouped reduction succeeds, two rows with the same group id get
the same value. -/
theorem grouped_const_within_group {α : Type} (f : α → α → α) (dflt : α) (col : List α)
    (gid : List Int) (res : List α) (h : grouped f dflt col gid = .ok res)
    (i j : Nat) (g : Int) (hi : gid[i]? = some g) (hj : gid[j]? = some g) :
    ∃ v, res[i]? = some v ∧ res[j]? = some v := by
  rw [grouped_ok_eq f dflt col gid res h]
  exact ⟨groupVal f dflt (members gid col g), by simp [hi], by simp [hj]⟩

example : ([5, 0, 5, 3] : List Int)[0]? = some 5 ∧ ([5, 0, 5, 3] : List Int)[2]? = some 5 := by
  decide

/-! ## 4. invariance under permutation of the rows -/

/-- C11.4 (generic) for a commutative and associative `f`, the group value does not depend on
the order of the rows. -/
theorem grouped_fold_perm {α : Type} (f : α → α → α) (dflt : α)
    (hc : ∀ a b, f a b = f b a) (ha : ∀ a b c, f (f a b) c = f a (f b c))
    {rows rows' : List (Int × α)} (h : rows'.Perm rows) (g : Int) :
    groupVal f dflt (members (rows'.map (·.1)) (rows'.map (·.2)) g) =
      groupVal f dflt (members (rows.map (·.1)) (rows.map (·.2)) g) :=
  groupVal_perm f dflt hc ha (members_perm h g)

/-- C11.4a group sums are invariant under row permutations. -/
theorem grouped_sum_perm {rows rows' : List (Int × Rat)} (h : rows'.Perm rows) (g : Int) :
    (members (rows'.map (·.1)) (rows'.map (·.2)) g).sum =
      (members (rows.map (·.1)) (rows.map (·.2)) g).sum :=
  (members_perm h g).sum_eq

/-- C11.4b group counts are invariant under row permutations. -/
theorem grouped_count_perm {α : Type} {rows rows' : List (Int × α)} (h : rows'.Perm rows) (g : Int) :
    (members (rows'.map (·.1)) (rows'.map (·.1)) g).length =
      (members (rows.map (·.1)) (rows.map (·.1)) g).length := by
  rw [← members_length _ (rows'.map (·.2)) g (by simp), ← members_length _ (rows.map (·.2)) g (by simp)]
  exact (members_perm h g).length_eq

/-- C11.4c group disjunctions are invariant under row permutations. -/
theorem grouped_any_perm {rows rows' : List (Int × Bool)} (h : rows'.Perm rows) (g : Int) :
    (members (rows'.map (·.1)) (rows'.map (·.2)) g).any id =
      (members (rows.map (·.1)) (rows.map (·.2)) g).any id :=
  any_id_perm (members_perm h g)

/-- C11.4d group conjunctions are invariant under row permutations. -/
theorem grouped_all_perm {rows rows' : List (Int × Bool)} (h : rows'.Perm rows) (g : Int) :
    (members (rows'.map (·.1)) (rows'.map (·.2)) g).all id =
      (members (rows.map (·.1)) (rows.map (·.2)) g).all id :=
  all_id_perm (members_perm h g)

/-- C11.4e group maxima are invariant under row permutations. -/
theorem grouped_max_perm {rows rows' : List (Int × Rat)} (h : rows'.Perm rows) (g : Int) :
    groupVal max 0 (members (rows'.map (·.1)) (rows'.map (·.2)) g) =
      groupVal max 0 (members (rows.map (·.1)) (rows.map (·.2)) g) :=
  grouped_fold_perm max 0 max_comm max_assoc h g

/-- C11.4f group minima are invariant under row permutations. -/
theorem grouped_min_perm {rows rows' : List (Int × Rat)} (h : rows'.Perm rows) (g : Int) :
    groupVal min 0 (members (rows'.map (·.1)) (rows'.map (·.2)) g) =
      groupVal min 0 (members (rows.map (·.1)) (rows.map (·.2)) g) :=
  grouped_fold_perm min 0 min_comm min_assoc h g

/-- C11.4g end-to-end: for commutative-associative `f` and permuted rows, a row of the permuted
table with group `g` gets the same value as any row with group `g` in the original table. -/
theorem grouped_perm_rows {α : Type} (f : α → α → α) (dflt : α)
    (hc : ∀ a b, f a b = f b a) (ha : ∀ a b c, f (f a b) c = f a (f b c))
    {rows rows' : List (Int × α)} (h : rows'.Perm rows) (res res' : List α)
    (hr : grouped f dflt (rows.map (·.2)) (rows.map (·.1)) = .ok res)
    (hr' : grouped f dflt (rows'.map (·.2)) (rows'.map (·.1)) = .ok res')
    (i j : Nat) (g : Int) (hi : (rows'.map (·.1))[i]? = some g) (hj : (rows.map (·.1))[j]? = some g) :
    ∃ v, res'[i]? = some v ∧ res[j]? = some v := by
  rw [grouped_ok_eq f dflt _ _ res hr, grouped_ok_eq f dflt _ _ res' hr']
  refine ⟨groupVal f dflt (members (rows.map (·.1)) (rows.map (·.2)) g), ?_, ?_⟩
  · rw [List.getElem?_map, hi, ← grouped_fold_perm f dflt hc ha h g]; rfl
  · rw [List.getElem?_map, hj]; rfl

example : ([(3, 4), (5, 1), (0, 2), (5, 3)] : List (Int × Rat)).Perm [(5, 1), (0, 2), (5, 3), (3, 4)] := by
  decide +kernel

/-! ## 5. invariance under relabelling of the group ids -/

/-- C11.5 Renaming the group ids by a map that is injective on the occurring ids (and keeps
them non-negative) does not change the result. -/
theorem grouped_relabel {α : Type} (f : α → α → α) (dflt : α) (col : List α) (gid : List Int)
    (ρ : Int → Int) (h : WF gid col)
    (hinj : ∀ a ∈ gid, ∀ b ∈ gid, ρ a = ρ b → a = b) (hnn : ∀ a ∈ gid, 0 ≤ ρ a) :
    grouped f dflt col (gid.map ρ) = grouped f dflt col gid := by
  have h' : WF (gid.map ρ) col := by
    refine ⟨by simpa using h.1, ?_⟩
    intro g hg
    obtain ⟨a, ha, rfl⟩ := List.mem_map.1 hg
    exact hnn a ha
  rw [grouped_eq f dflt col _ h', grouped_eq f dflt col gid h, List.map_map]
  congr 1
  apply List.map_congr_left
  intro g hg
  simp only [Function.comp]
  rw [members_relabel ρ gid hinj g hg gid col (fun _ h => h)]

example : let ρ : Int → Int := fun g => 100 - 7 * g
    (∀ a ∈ ([5, 0, 5, 3] : List Int), ∀ b ∈ ([5, 0, 5, 3] : List Int), ρ a = ρ b → a = b) ∧
    ∀ a ∈ ([5, 0, 5, 3] : List Int), 0 ≤ ρ a := by
  decide

/-! ## 6. conservation of the total -/

/-- C11.6 (generic) summing the group sums over any duplicate-free list of ids that covers the
occurring ids gives the column total. -/
theorem sum_conservation_ids (col : List Rat) (gid ids : List Int) (hlen : gid.length = col.length)
    (hnd : ids.Nodup) (hcov : ∀ g ∈ gid, g ∈ ids) :
    (ids.map fun g => (members gid col g).sum).sum = col.sum :=
  sum_groups_eq_total ids hnd gid col hlen hcov

/-- C11.6 summing the group sums over the distinct ids gives the column total. -/
theorem sum_conservation (col : List Rat) (gid : List Int) (hlen : gid.length = col.length) :
    (gid.eraseDups.map fun g => (members gid col g).sum).sum = col.sum :=
  sum_groups_eq_total _ (nodup_eraseDups gid) gid col hlen (fun _ hg => List.mem_eraseDups.2 hg)

example : ([5, 0, 5, 3] : List Int).eraseDups = [5, 0, 3] := by decide

/-! ## 7. the guards are loud -/

/-- C11.7a a negative group id (lengths equal) raises `ValueError`. -/
theorem grouped_neg_id_error {α : Type} (f : α → α → α) (dflt : α) (col : List α) (gid : List Int)
    (hlen : gid.length = col.length) (hneg : ∃ g ∈ gid, g < 0) :
    grouped f dflt col gid = .error .valueError := by
  unfold grouped
  rw [guard_neg_error gid col.length hlen hneg]
  rfl

/-- C11.7b different lengths of column and group id raise the shape error. -/
theorem grouped_length_error {α : Type} (f : α → α → α) (dflt : α) (col : List α) (gid : List Int)
    (hlen : gid.length ≠ col.length) :
    grouped f dflt col gid = .error .shape := by
  unfold grouped
  rw [guard_length_error gid col.length hlen]
  rfl

example : groupedSum [1, 2, 3] [5, -1, 5] = .error .valueError := by decide +kernel
example : groupedSum [1, 2, 3] [5, 0] = .error .shape := by decide +kernel

/-! ## 8. `sum_by_p_id` -/

/-- C11.8 `sum_by_p_id`: with duplicate-free receiver ids, every receiver `p ≥ 0` is credited
the sum of the rows pointing to it; rows with a negative pointer are credited nowhere (so a
receiver with a negative id gets 0). -/
theorem sumByPid_spec (col : List Rat) (ptr pid : List Int) (hnd : pid.Nodup)
    (hlen : ptr.length = col.length) (hmem : ∀ r ∈ ptr, 0 ≤ r → r ∈ pid) :
    sumByPid col ptr pid =
      .ok (pid.map fun p => if 0 ≤ p then (members ptr col p).sum else 0) := by
  unfold sumByPid
  simp only [ne_eq, hlen, not_true_eq_false, if_false]
  rw [sumByPidLoop_spec pid hnd ptr col _ hlen (by simp) hmem, zipWith_zero_add]
  rfl

/-- C11.8' the same for non-negative receiver ids, without the case distinction. -/
theorem sumByPid_spec_nonneg (col : List Rat) (ptr pid : List Int) (hnd : pid.Nodup)
    (hnn : ∀ p ∈ pid, 0 ≤ p)
    (hlen : ptr.length = col.length) (hmem : ∀ r ∈ ptr, 0 ≤ r → r ∈ pid) :
    sumByPid col ptr pid = .ok (pid.map fun p => (members ptr col p).sum) := by
  rw [sumByPid_spec col ptr pid hnd hlen hmem]
  congr 1
  apply List.map_congr_left
  intro p hp
  simp [hnn p hp]

/-- C11.8'' a non-negative pointer without receiver raises `KeyError`. -/
theorem sumByPid_missing_receiver (col : List Rat) (ptr pid : List Int)
    (hlen : ptr.length = col.length) (hbad : ∃ r ∈ ptr, 0 ≤ r ∧ r ∉ pid) :
    sumByPid col ptr pid = .error .keyError := by
  unfold sumByPid
  simp only [ne_eq, hlen, not_true_eq_false, if_false]
  exact sumByPidLoop_missing pid ptr col _ hlen hbad

/-- C11.8''' different lengths of column and pointer raise the shape error. -/
theorem sumByPid_length_error (col : List Rat) (ptr pid : List Int)
    (hlen : ptr.length ≠ col.length) : sumByPid col ptr pid = .error .shape := by
  simp [sumByPid, hlen]

example : sumByPid [10, 20, 30, 40] [7, -1, 7, 2] [2, 9, 7] = .ok [40, 0, 40] := by decide +kernel
example : ([2, 9, 7] : List Int).Nodup ∧ ∀ r ∈ ([7, -1, 7, 2] : List Int), 0 ≤ r → r ∈ ([2, 9, 7] : List Int) := by
  decide
example : sumByPid [10, 20] [7, 4] [2, 9, 7] = .error .keyError := by decide +kernel

/-! ## 9. `join_numpy` -/

/-- C11.9 `join_numpy`: with duplicate-free primary keys, a foreign key that occurs among the
primary keys gets the target value at the position of that key, every other (then negative)
foreign key gets the default. -/
theorem join_spec {α : Type} (fk pk : List Int) (target : List α) (dflt : α) (hnd : pk.Nodup)
    (hlen : target.length = pk.length) (hmem : ∀ k ∈ fk, 0 ≤ k → k ∈ pk) :
    joinNumpy fk pk target dflt = .ok (fk.map fun k =>
      if h : k ∈ pk then target[pk.idxOf k]'(hlen ▸ List.idxOf_lt_length_iff.2 h) else dflt) := by
  have h1 : hasDup pk = false := (hasDup_eq_false_iff pk).2 hnd
  have h2 : fk.any (fun k => k ≥ 0 && !pk.contains k) = false := by
    simp only [List.any_eq_false, Bool.and_eq_true, decide_eq_true_eq, Bool.not_eq_true',
      List.contains_eq_mem, decide_eq_false_iff_not, not_and, not_not]
    intro k hk h0; exact hmem k hk h0
  unfold joinNumpy
  simp only [h1, h2, hlen, ne_eq, not_true_eq_false, if_false, Bool.false_eq_true]
  congr 1
  apply List.map_congr_left
  intro k _
  rw [firstIdx_eq]
  by_cases hk : k ∈ pk
  · have : pk.idxOf k < target.length := hlen ▸ List.idxOf_lt_length_iff.2 hk
    simp [hk, List.getD_eq_getElem?_getD, this]
  · simp [hk]

/-- C11.9' position characterisation: with duplicate-free primary keys, a foreign key equal to
the `i`-th primary key is mapped to the `i`-th target value. -/
theorem join_spec_at {α : Type} (fk pk : List Int) (target : List α) (dflt : α) (hnd : pk.Nodup)
    (hlen : target.length = pk.length) (hmem : ∀ k ∈ fk, 0 ≤ k → k ∈ pk) :
    ∃ res, joinNumpy fk pk target dflt = .ok res ∧ res.length = fk.length ∧
      ∀ (j : Nat) (k : Int), fk[j]? = some k →
        (∀ i : Nat, pk[i]? = some k → res[j]? = target[i]?) ∧ (k ∉ pk → res[j]? = some dflt) := by
  refine ⟨_, join_spec fk pk target dflt hnd hlen hmem, by simp, ?_⟩
  intro j k hj
  constructor
  · intro i hi
    have hk : k ∈ pk := List.mem_of_getElem? hi
    obtain ⟨hilt, hik⟩ := List.getElem?_eq_some_iff.1 hi
    have hidx : pk.idxOf k = i := by
      have h1 : pk.idxOf k < pk.length := List.idxOf_lt_length_iff.2 hk
      have h2 : pk[pk.idxOf k] = k := List.getElem_idxOf h1
      exact (List.getElem_inj hnd).1 (h2.trans hik.symm)
    subst hidx
    simp [hj, hk, hlen ▸ hilt]
  · intro hk
    simp [hj, hk]

/-- C11.9'' duplicate primary keys raise `ValueError`. -/
theorem join_dup_pk_error {α : Type} (fk pk : List Int) (target : List α) (dflt : α)
    (hdup : ¬ pk.Nodup) : joinNumpy fk pk target dflt = .error .valueError := by
  have h1 : hasDup pk = true := by
    cases h : hasDup pk with
    | true => rfl
    | false => exact absurd ((hasDup_eq_false_iff pk).1 h) hdup
  simp [joinNumpy, h1]

/-- C11.9''' a non-negative foreign key that is no primary key raises `ValueError`. -/
theorem join_missing_pk_error {α : Type} (fk pk : List Int) (target : List α) (dflt : α)
    (hbad : ∃ k ∈ fk, 0 ≤ k ∧ k ∉ pk) : joinNumpy fk pk target dflt = .error .valueError := by
  have h2 : fk.any (fun k => k ≥ 0 && !pk.contains k) = true := by
    simp only [List.any_eq_true, Bool.and_eq_true, decide_eq_true_eq, Bool.not_eq_true',
      List.contains_eq_mem, decide_eq_false_iff_not]
    exact hbad
  unfold joinNumpy
  rw [h2]
  split <;> rfl

/-- C11.9'''' (primary keys fine, foreign keys fine) a target of the wrong length raises the
shape error. -/
theorem join_length_error {α : Type} (fk pk : List Int) (target : List α) (dflt : α)
    (hnd : pk.Nodup) (hmem : ∀ k ∈ fk, 0 ≤ k → k ∈ pk) (hlen : target.length ≠ pk.length) :
    joinNumpy fk pk target dflt = .error .shape := by
  have h1 : hasDup pk = false := (hasDup_eq_false_iff pk).2 hnd
  have h2 : fk.any (fun k => k ≥ 0 && !pk.contains k) = false := by
    simp only [List.any_eq_false, Bool.and_eq_true, decide_eq_true_eq, Bool.not_eq_true',
      List.contains_eq_mem, decide_eq_false_iff_not, not_and, not_not]
    intro k hk h0; exact hmem k hk h0
  unfold joinNumpy
  rw [h1, h2]
  simp [hlen]

example : joinNumpy [7, -1, 2, 7] [2, 9, 7] ["a", "b", "c"] "-" = .ok ["c", "-", "a", "c"] := by
  decide
example : ([2, 9, 7] : List Int).Nodup ∧
    ∀ k ∈ ([7, -1, 2, 7] : List Int), 0 ≤ k → k ∈ ([2, 9, 7] : List Int) := by decide
example : joinNumpy [7] [2, 7, 2] ["a", "b", "c"] "-" = .error .valueError := by decide
example : joinNumpy [7, 4] [2, 9, 7] ["a", "b", "c"] "-" = .error .valueError := by decide

end GV.Agg
