import GettsimVerif.Core.Agg
namespace GV.Props.C11
/-- placeholder until the real file lands -/
theorem placeholder : (1 : Nat) = 1 := rfl
end GV.Props.C11
