import GettsimVerif.Lemmas.Piecewise
import GettsimVerif.Props.C18
import GettsimVerif.Generated.Schedules
/-
C18 — instance obligations: every piecewise schedule of every parameter file, at every
date at which its resolved value changes (table regenerated from /repo), checked in the
kernel; the generic theorems of Props/C18.lean then give the global properties.
-/
namespace GV.Props.C18Inst
open GV.Piecewise GV.Gen

/-- `_parse_piecewise_parameters` for one table entry -/
def resolved (e : SchedEntry) : Except Err Schedule := do
  if !e.keysOk then throw .valueError
  let ps ← if e.prog then addProgressionsfaktor e.pieces else pure e.pieces
  parse ps e.degree

def holds (p : Schedule → Bool) (e : SchedEntry) : Bool :=
  match resolved e with
  | .ok s => p s
  | .error _ => false

def isTariff (e : SchedEntry) : Bool := e.group = "eink_st" && e.param = "eink_st_tarif"
def isSoli (e : SchedEntry) : Bool := e.group = "soli_st" && e.param = "soli_st"

/-- every schedule parses, covers the real line with strictly increasing thresholds, and
has rate rows / intercepts of the right length -/
theorem all_schedules_wellformed : schedules.all (holds WF) = true := by decide +kernel

/-- the income-tax tariff: zero first intercept, continuous, non-decreasing, convex,
top piece linear (so the marginal rate is bounded by the top rate) -/
def tariffOk (s : Schedule) : Bool :=
  WFconvexQ s && decide (ic s 0 = 0) && decide (0 < (inner s).length) &&
  decide (rate s 1 (inner s).length = 0)

theorem tariff_schedules_ok : (schedules.filter isTariff).all (holds tariffOk) = true := by
  decide +kernel

theorem tariff_table_nonempty : (schedules.filter isTariff).length ≥ 10 := by decide +kernel

/-- the solidarity surcharge: zero first intercept, continuous, non-decreasing, and never
above its nominal (top) rate times the tax by more than one cent -/
def soliOk (s : Schedule) : Bool :=
  WFmono s && decide (ic s 0 = 0) && soliCondEps s (1 / 100)

theorem soli_schedules_ok : (schedules.filter isSoli).all (holds soliOk) = true := by
  decide +kernel

theorem soli_table_nonempty : (schedules.filter isSoli).length ≥ 3 := by decide +kernel

/-! The global properties for every entry of the table, by the generic theorems. -/

private theorem holds_ok {p : Schedule → Bool} {e : SchedEntry} (h : holds p e = true) :
    ∃ s, resolved e = .ok s ∧ p s = true := by
  unfold holds at h
  split at h
  · exact ⟨_, by assumption, h⟩
  · exact absurd h (by simp)

/-- Every income-tax tariff in force at any date is zero up to the basic allowance,
non-decreasing, convex (subgradient inequality) with marginal rate ≤ top rate. -/
theorem tariff_global (e : SchedEntry) (he : e ∈ schedules) (ht : isTariff e = true) :
    ∃ s, resolved e = .ok s ∧
      (∀ x, x < thr s 0 → eval s x = 0) ∧
      (∀ x y, x ≤ y → eval s x ≤ eval s y) ∧
      (∀ x y, margRate s x * (y - x) ≤ eval s y - eval s x) ∧
      (∀ x, margRate s x ≤ rate s 0 (inner s).length) ∧
      (∀ x, 0 ≤ eval s x) := by
  have hall := tariff_schedules_ok
  rw [List.all_eq_true] at hall
  have hmem : e ∈ schedules.filter isTariff := List.mem_filter.2 ⟨he, ht⟩
  obtain ⟨s, hs, hp⟩ := holds_ok (hall e hmem)
  simp only [tariffOk, Bool.and_eq_true, decide_eq_true_eq] at hp
  obtain ⟨⟨⟨hc, h0⟩, hne⟩, hlast⟩ := hp
  have hq : WFmonoQ s = true := by
    simp only [WFconvexQ, Bool.and_eq_true] at hc; exact hc.1.1
  have hwf : WF s = true := by
    simp only [WFmonoQ, Bool.and_eq_true] at hq; exact hq.1.1.1
  refine ⟨s, hs, ?_, ?_, ?_, ?_, ?_⟩
  · intro x hx
    exact C18.eval_zero_below_first hwf h0 (fun _ => hx)
  · intro x y hxy; exact C18.eval_mono_quadratic hq hxy
  · intro x y; exact C18.eval_convex_quadratic hc x y
  · intro x; exact C18.marginal_rate_le_top hc hne hlast x
  · intro x; exact C18.eval_nonneg_of_mono (Or.inr hq) h0 x

/-- Every solidarity-surcharge schedule in force at any date is non-decreasing,
non-negative and at most `top rate × tax + 0.01`. -/
theorem soli_global (e : SchedEntry) (he : e ∈ schedules) (ht : isSoli e = true) :
    ∃ s, resolved e = .ok s ∧
      (∀ x y, x ≤ y → eval s x ≤ eval s y) ∧
      (∀ x, 0 ≤ x → eval s x ≤ topRate s * x + 1 / 100) ∧
      (∀ x, 0 ≤ eval s x) := by
  have hall := soli_schedules_ok
  rw [List.all_eq_true] at hall
  have hmem : e ∈ schedules.filter isSoli := List.mem_filter.2 ⟨he, ht⟩
  obtain ⟨s, hs, hp⟩ := holds_ok (hall e hmem)
  simp only [soliOk, Bool.and_eq_true, decide_eq_true_eq] at hp
  obtain ⟨⟨hm, h0⟩, hso⟩ := hp
  refine ⟨s, hs, ?_, ?_, ?_⟩
  · intro x y hxy; exact C18.eval_mono_linear hm hxy
  · intro x hx; exact C18.soli_le_nominal_eps hso hx
  · intro x; exact C18.eval_nonneg_of_mono (Or.inl hm) h0 x

end GV.Props.C18Inst
