import GettsimVerif.Lemmas.SimRound
import GettsimVerif.Props.C10
import GettsimVerif.Props.C11
import GettsimVerif.Props.C13
/-!
C13 on the CONCRETE model of `compute_taxes_and_transfers` (`Core/Simulate.lean`): the node
operation `timeConvOp u v` of a time-conversion function multiplies every value of a float column
by the fixed factor (`TimeConv.conv`, `conv_factor`), the round trip is the identity, and the
conversion commutes with the group sum `groupAggOp .sum` (`conv_list_sum`, `groupedSum_spec`).

Vocabulary (`Lemmas/SimRound.lean`):
* `FloatArr c` : `c.dt = .float ∧ c.shape = .arr`;
* `FloatCol c` : `FloatArr c` and every value is a float `.f q` (the invariant of float columns);
* `IntArr c`   : `c.dt = .int ∧ c.shape = .arr`;
* `convCol u v c` : the float column of the values `conv u v (numOf r)`.
`Col.rats` / `Col.ints` are the numeric values of a column (`Core/Simulate.lean`),
`Agg.members gid col g` the values of the rows of group `g`, `Agg.WF gid col` = equal lengths and
no negative id (`Lemmas/Agg.lean`).
-/
namespace GV.Simulate
open GV.Lang (Val FunDef)
open GV.VecDtype (R DT numOf)
open GV.TimeConv (TUnit)
open GV.Yaml (Y Key)

/-! ## time-unit conversion and group sums on concrete columns -/

/-- **Time-unit variants differ exactly by the fixed factor.** On a float column the converter
node returns a float column of the same length whose `i`-th value is `conv u v` of the `i`-th
source value, i.e. (`conv_factor`) the source value times `perYear u / perYear v`
(12, 365.25/7, 365.25 units per year). Nothing else — in particular no rounding — happens. -/
theorem timeConvOp_values (u v : TUnit) (c : Col) (h : c.dt = .float) :
    ∃ out, timeConvOp u v [c] = .ok out ∧ out.dt = .float ∧
      out.vals = c.vals.map (fun r => R.f (TimeConv.conv u v (numOf r))) ∧
      out.vals = c.vals.map (fun r => R.f (numOf r * (TimeConv.perYear u / TimeConv.perYear v))) :=
  ⟨convCol u v c, timeConvOp_float u v c h, rfl, rfl, by simp only [convCol, TimeConv.conv_factor]⟩

/-- **Round trip.** Converting a float column (a float array all of whose values are floats) from
`u` to `v` and back gives back the column itself. -/
theorem timeConvOp_round_trip (u v : TUnit) (c : Col) (h : FloatCol c) :
    (timeConvOp u v [c] >>= fun out => timeConvOp v u [out]) = .ok c := by
  obtain ⟨hdt, hsh, hv⟩ := h
  rw [timeConvOp_float u v c hdt]
  show timeConvOp v u [convCol u v c] = _
  rw [timeConvOp_float v u _ rfl]
  have h1 := convCol_round_trip_vals u v c
  rw [map_f_numOf_of_floatCol hv] at h1
  have h2 : (convCol v u (convCol u v c)).shape = .arr := by simp [convCol, hsh]
  have h3 : (convCol v u (convCol u v c)).dt = .float := rfl
  obtain ⟨dt, vals, shape⟩ := c
  generalize convCol v u (convCol u v ⟨dt, vals, shape⟩) = c' at h1 h2 h3
  obtain ⟨dt', vals', shape'⟩ := c'
  simp only at h1 h2 h3 hdt hsh
  subst h1 h2 h3 hdt hsh
  rfl

/-- Without the hypothesis on the values the round trip still restores all numeric values (a value
stored as int or bool in a float column comes back as the equal float). -/
theorem timeConvOp_round_trip_vals (u v : TUnit) (c : Col) (h : c.dt = .float) :
    ∃ out, (timeConvOp u v [c] >>= fun out => timeConvOp v u [out]) = .ok out ∧
      out.vals = c.vals.map fun r => R.f (numOf r) :=
  ⟨convCol v u (convCol u v c), by rw [timeConvOp_float u v c h]; exact timeConvOp_float v u _ rfl,
   convCol_round_trip_vals u v c⟩

/-- **Conversion commutes with group summation.** For a float ARRAY `col` and ANY id column `gid`:
first converting and then summing within groups is the same computation — the same column or the
same error (wrong dtype / scalar id column, length mismatch, negative id) — as first summing and
then converting. This is why `a_y_hh` can be derived either from `a_m_hh` or from `a_y`.
Hypotheses on `col` only: dtype float, shape array (`FloatArr`). -/
theorem timeConvOp_groupSum_commute (u v : TUnit) (col gid : Col) (h : FloatArr col) :
    (timeConvOp u v [col] >>= fun c => groupAggOp .sum [c, gid])
      = (groupAggOp .sum [col, gid] >>= fun a => timeConvOp u v [a]) :=
  timeConvOp_groupSum_commute' u v col gid h

/-- **Group sums of a (possibly rounded) float column are plain sums**: every row gets the sum
(`List.sum`) of the values of the rows of its group (`Agg.members`) — no rounding is involved — and
the converted group sum is the sum of the converted members (`conv_list_sum`). -/
theorem groupAggOp_sum_values (u v : TUnit) (col gid : Col) (h : FloatArr col) (hg : IntArr gid)
    (hwf : Agg.WF gid.ints col.rats) :
    groupAggOp .sum [col, gid] = .ok { dt := .float, vals := gid.ints.map (fun g => R.f (Agg.members gid.ints col.rats g).sum) } ∧
    (groupAggOp .sum [col, gid] >>= fun a => timeConvOp u v [a]) = .ok { dt := .float, vals := gid.ints.map (fun g => R.f ((Agg.members gid.ints col.rats g).map (TimeConv.conv u v)).sum) } := by
  have e : groupAggOp .sum [col, gid] = .ok { dt := .float, vals := gid.ints.map (fun g => R.f (Agg.members gid.ints col.rats g).sum) } := by
    rw [groupAggOp_sum_floatArr col gid h, Agg.groupedSum_spec _ _ hwf]
    have h1 : (gid.shape == Shape.pyScalar) = false := by rw [hg.2]; rfl
    have h2 : (gid.dt != DT.int) = false := by rw [hg.1]; rfl
    have h3 : gid.scalar = false := by simp [Col.scalar, hg.2]
    simp only [h1, h2, h3, Bool.false_eq_true, if_false]
    show Except.ok _ = Except.ok _
    simp [List.map_map, Function.comp_def]
  refine ⟨e, ?_⟩
  rw [e]
  show timeConvOp u v [_] = _
  rw [timeConvOp_float _ _ _ rfl]
  simp [convCol, numOf, List.map_map, Function.comp_def, TimeConv.conv_list_sum]


namespace C13SimExamples

def col : Col := { dt := .float, vals := [.f 100, .f (5/2), .f 7, .f (-3)] }
def gid : Col := { dt := .int, vals := [.i 3, .i 0, .i 3, .i 0] }

/-- the hypotheses of `timeConvOp_values`, `timeConvOp_round_trip`, `timeConvOp_groupSum_commute` and
`groupAggOp_sum_values` hold for `col`, `gid` -/
example : FloatCol col := ⟨rfl, rfl, by
  intro r hr
  simp only [col, List.mem_cons, List.not_mem_nil, or_false] at hr
  rcases hr with rfl | rfl | rfl | rfl <;> exact ⟨_, rfl⟩⟩
example : FloatArr col ∧ IntArr gid := ⟨⟨rfl, rfl⟩, ⟨rfl, rfl⟩⟩
example : Agg.WF gid.ints col.rats := ⟨rfl, by decide +kernel⟩

/-- months → years on the concrete column, and the two sides of the commutation (sum per household
of the yearly values = yearly value of the household sums) -/
example : (match timeConvOp .m .y [col] with
    | .ok out => out.vals == [.f 1200, .f 30, .f 84, .f (-36)] && out.dt == .float
    | .error _ => false) = true := by decide +kernel
example : (match timeConvOp .m .y [col] >>= (fun c => groupAggOp .sum [c, gid]),
      groupAggOp .sum [col, gid] >>= (fun a => timeConvOp .m .y [a]) with
    | .ok a, .ok b => a.vals == [.f 1284, .f (-6), .f 1284, .f (-6)] && b.vals == a.vals
    | _, _ => false) = true := by decide +kernel
/-- the commutation also holds as an equality of ERRORS: a negative group id -/
example : (match timeConvOp .m .y [col] >>= (fun c => groupAggOp .sum [c, { gid with vals := [.i 3, .i (-1), .i 3, .i 0] }]),
      groupAggOp .sum [col, { gid with vals := [.i 3, .i (-1), .i 3, .i 0] }] >>= (fun a => timeConvOp .m .y [a]) with
    | .error .valueError, .error .valueError => true
    | _, _ => false) = true := by decide +kernel

/-- **Why the float hypothesis is there.** `m_to_y` is `value * 12` and keeps integer dtypes: on an
int column the converter returns INTS (and bool → int), not `.f (conv …)`; every other converter
divides and returns floats. -/
example : (match timeConvOp .m .y [{ dt := .int, vals := [.i 100, .i (-3)] }],
      timeConvOp .y .m [{ dt := .int, vals := [.i 100, .i (-3)] }],
      timeConvOp .m .y [{ dt := .bool, vals := [.b true] }] with
    | .ok a, .ok b, .ok c =>
      a.dt == .int && a.vals == [.i 1200, .i (-36)] &&
      b.dt == .float && b.vals == [.f (25/3), .f (-1/4)] &&
      c.dt == .int && c.vals == [.i 12]
    | _, _, _ => false) = true := by decide +kernel

/-- **Why derived columns must not be rounded again** (`Round.double_rounding_differs` on the
concrete operations): rounding `x*2` down to integers and converting to years is NOT the same as
rounding the yearly value again. -/
example : Round.roundTo 1 .down 0 (Round.roundTo 1 .down 0 100 / 12) ≠ Round.roundTo 1 .down 0 100 / 12 :=
  Round.double_rounding_differs

end C13SimExamples
end GV.Simulate
