import GettsimVerif.Lemmas.SimPerm
/-
Property C01 on the CONCRETE node operations of the executable model `Core/Simulate.lean` of
`compute_taxes_and_transfers`: permuting the rows of the input table permutes the rows of every
computed column identically and changes no value.

Vocabulary (defined in `Lemmas/SimPerm.lean`):
* a row permutation is an index list `σ` with `σ.Perm (List.range n)`; row `k` of the permuted table
  is row `σ[k]` of the original one: `permList σ l = σ.map (l.getD · default)`;
* `Col.permute σ c`   : `c` if `c` is a scalar (0-d array, numpy scalar, Python number: no rows),
                        else `c` with `vals := permList σ c.vals`;
* `ColOK n c`         : `c` is a scalar or has exactly `n` rows; `ColsOK n cols`: all of `cols` are;
* `permData σ D`      : every data column permuted by `σ`;
* `sysOf params specs fns` : the `Dag.Sys` built from the functions `fns` by `nodeOf` (as in `plan`);
* `Kind.permOK`       : vectorized rules WITH a declared return type, `sum_by_p_id`, time
                        conversions and grouped aggregations (NOT: the id constructors of
                        `groupings.py`, rules without return annotation).

All theorems are conditional on SUCCESS of the original run: with permuted rows a different row
may be the first one to raise, so the error that is reported is order dependent; what is order
independent is WHETHER the operation fails (`…_fails_iff`).
-/
namespace GV.Simulate
open GV.VecDtype (R DT)
open GV.Lang (Val FunDef)
open GV.TimeConv (TUnit)

/-! ## 1. vectorized rules with a declared return type -/

/-- C01-Sim.1 A vectorized rule with a declared return type (`numpy.vectorize(f, otypes=[ty])`
followed by the rounding wrapper): if the call succeeds on columns with `n` rows (scalars
allowed), the call on the columns permuted by `σ` succeeds and returns the result permuted by `σ`.
This includes the case that all inputs are scalars (then nothing is permuted). -/
theorem ruleOp_perm {n : Nat} {σ : List Nat} (hσ : σ.Perm (List.range n))
    (params : List (String × Val)) (fn : FunDef) (ty : Ty) (spec : Option RSpec)
    (free : List String) (cols : List Col) (out : Col) (hcols : ColsOK n cols)
    (h : ruleOp params fn (some ty) spec free cols = .ok out) :
    ruleOp params fn (some ty) spec free (cols.map (Col.permute σ)) = .ok (out.permute σ) :=
  (ruleOp_perm_ok hσ hcols h).1

/-- C01-Sim.1a The result of such a rule is a scalar or has as many rows as the inputs. -/
theorem ruleOp_rows {n : Nat} (params : List (String × Val)) (fn : FunDef) (ty : Ty)
    (spec : Option RSpec) (free : List String) (cols : List Col) (out : Col)
    (hcols : ColsOK n cols) (h : ruleOp params fn (some ty) spec free cols = .ok out) :
    ColOK n out :=
  (ruleOp_perm_ok (σ := List.range n) (List.Perm.refl _) hcols h).2

/-- C01-Sim.1b The all-scalar case (`n? = none`): there is nothing to permute, the call is
literally the same and its result is a scalar. `σ` is arbitrary here. -/
theorem ruleOp_perm_scalar (σ : List Nat) (params : List (String × Val)) (fn : FunDef) (ty : Ty)
    (spec : Option RSpec) (free : List String) (cols : List Col) (out : Col)
    (hcols : ∀ c ∈ cols, c.scalar = true)
    (h : ruleOp params fn (some ty) spec free cols = .ok out) :
    ruleOp params fn (some ty) spec free (cols.map (Col.permute σ)) = .ok out ∧
      out.scalar = true := by
  rw [map_permute_of_all_scalar σ cols hcols]
  refine ⟨h, ?_⟩
  have hok : ColsOK (out.vals.length + 1) cols := fun c hc hs => by
    rw [hcols c hc] at hs; cases hs
  have := ruleOp_rows params fn ty spec free cols out hok h
  cases hs : out.scalar with
  | true => rfl
  | false => have := this hs; omega

/-- C01-Sim.1c Whether the rule fails does not depend on the order of the rows (WHICH error is
raised may: the first failing row decides). -/
theorem ruleOp_fails_iff {n : Nat} {σ : List Nat} (hσ : σ.Perm (List.range n))
    (params : List (String × Val)) (fn : FunDef) (ty : Ty) (spec : Option RSpec)
    (free : List String) (cols : List Col) (hcols : ColsOK n cols) :
    (∃ e, ruleOp params fn (some ty) spec free (cols.map (Col.permute σ)) = .error e) ↔
      (∃ e, ruleOp params fn (some ty) spec free cols = .error e) :=
  fails_iff_of_perm hσ (ruleOp params fn (some ty) spec free) (fun _ => True)
    (fun _ _ _ _ _ => trivial)
    (fun _ hτ _ _ hc _ h => ⟨_, (ruleOp_perm_ok hτ hc h).1⟩) cols hcols trivial

/-! ### non-vacuity, and why the declaration is needed -/

private def σ3 : List Nat := [2, 0, 1]
/-- `def f(x, y) -> float: return x + y` -/
private def fAdd : FunDef := { name := "f", args := ["x", "y"], body := [.ret (.bin .add (.name "x") (.name "y"))] }
private def colX : Col := { dt := .float, vals := [.f 1, .f (5/2), .f 3] }
private def colY : Col := { dt := .int, vals := [.i 10, .i 20, .i 30] }
/-- a numpy scalar among the inputs -/
private def colS : Col := { dt := .float, vals := [.f 100], shape := .npScalar }

example : σ3.Perm (List.range 3) := by decide
example : ColsOK 3 [colX, colY] := by decide
example : ruleOp [] fAdd (some .float) none ["x", "y"] [colX, colY] =
    .ok { dt := .float, vals := [.f 11, .f (45/2), .f 33] } := by decide +kernel
example : ruleOp [] fAdd (some .float) none ["x", "y"] ([colX, colY].map (Col.permute σ3)) =
    .ok { dt := .float, vals := [.f 33, .f 11, .f (45/2)] } := by decide +kernel
/-- instance of the theorem -/
example : ruleOp [] fAdd (some .float) none ["x", "y"] ([colX, colY].map (Col.permute σ3)) =
    .ok (Col.permute σ3 { dt := .float, vals := [.f 11, .f (45/2), .f 33] }) :=
  ruleOp_perm (n := 3) (by decide) [] fAdd .float none ["x", "y"] [colX, colY] _ (by decide)
    (by decide +kernel)
/-- a scalar input stays where it is -/
example : ColsOK 3 [colX, colS] ∧
    ruleOp [] fAdd (some .float) none ["x", "y"] [colX, colS] =
      .ok { dt := .float, vals := [.f 101, .f (205/2), .f 103] } ∧
    [colX, colS].map (Col.permute σ3) = [{ dt := .float, vals := [.f 3, .f 1, .f (5/2)] }, colS] := by
  decide +kernel
/-- all inputs scalars -/
example : (∀ c ∈ [colS, colS], c.scalar = true) ∧
    ruleOp [] fAdd (some .float) none ["x", "y"] [colS, colS] =
      .ok { dt := .float, vals := [.f 200], shape := .arr0 } := by decide +kernel

/-- `def g(x): return 0.5 if x > 1.5 else 0` WITHOUT return annotation -/
private def gMixed : FunDef :=
  { name := "g", args := ["x"],
    body := [.ret (.ifexp (.cmp (.name "x") [(.gt, .const (.flt (3/2)))]) (.const (.flt (1/2))) (.const (.int 0)))] }

/-- C01-Sim.1d WHY `ret = some ty` is required: without a declared return type `numpy.vectorize`
probes the dtype on the FIRST row. For `g` on `x = [1, 5/2, 3]` the first result is the int `0`,
so the column is int64 `[0, 0, 0]` (the `0.5`s are truncated); with the rows in the order
`[3, 1, 5/2]` the first result is `0.5`, the column is float64 `[0.5, 0, 0.5]` — not a permutation
of the former. The statement of `ruleOp_perm` is FALSE for `ret = none`. -/
theorem ruleOp_undeclared_not_perm :
    ruleOp [] gMixed none none ["x"] [colX] = .ok { dt := .int, vals := [.i 0, .i 0, .i 0] } ∧
    ruleOp [] gMixed none none ["x"] ([colX].map (Col.permute σ3)) =
      .ok { dt := .float, vals := [.f (1/2), .f 0, .f (1/2)] } ∧
    ruleOp [] gMixed none none ["x"] ([colX].map (Col.permute σ3)) ≠
      .ok (Col.permute σ3 { dt := .int, vals := [.i 0, .i 0, .i 0] }) := by
  decide +kernel

/-- … whereas with the declaration `-> float` the two runs agree up to the permutation -/
example : ruleOp [] gMixed (some .float) none ["x"] [colX] =
      .ok { dt := .float, vals := [.f 0, .f (1/2), .f (1/2)] } ∧
    ruleOp [] gMixed (some .float) none ["x"] ([colX].map (Col.permute σ3)) =
      .ok { dt := .float, vals := [.f (1/2), .f 0, .f (1/2)] } := by decide +kernel

/-! ## 2. time conversions -/

/-- C01-Sim.2 The time-conversion wrappers (`m_to_y`, `y_to_m`, …: arithmetic on the array) commute
with every row permutation — success or not (the only failure is a wrong number of arguments).
This covers the integer branch of `m_to_y` (`value * 12` keeps integer dtypes), which is
element-wise as well. -/
theorem timeConvOp_perm {n : Nat} {σ : List Nat} (hσ : σ.Perm (List.range n)) (u v : TUnit)
    (cols : List Col) (hcols : ColsOK n cols) :
    timeConvOp u v (cols.map (Col.permute σ)) = (timeConvOp u v cols).map (Col.permute σ) :=
  timeConvOp_perm_list (perm_valid hσ) u v cols hcols

/-- C01-Sim.2a The result of a time conversion is a scalar or has as many rows as the input. -/
theorem timeConvOp_rows {n : Nat} (u v : TUnit) (cols : List Col) (out : Col)
    (hcols : ColsOK n cols) (h : timeConvOp u v cols = .ok out) : ColOK n out :=
  timeConvOp_colOK hcols h

example : ColsOK 3 [colY] ∧
    timeConvOp .m .y [colY] = .ok { dt := .int, vals := [.i 120, .i 240, .i 360] } ∧
    timeConvOp .m .y ([colY].map (Col.permute σ3)) =
      .ok { dt := .int, vals := [.i 360, .i 120, .i 240] } := by decide +kernel
example : timeConvOp .y .m [colX] = .ok { dt := .float, vals := [.f (1/12), .f (5/24), .f (1/4)] } ∧
    timeConvOp .y .m ([colX].map (Col.permute σ3)) =
      .ok { dt := .float, vals := [.f (1/4), .f (1/12), .f (5/24)] } := by decide +kernel
/-- a 0-d array becomes a numpy scalar and is not touched by the permutation -/
example : timeConvOp .y .m [{ colS with shape := .arr0 }] =
    .ok { dt := .float, vals := [.f (100/12)], shape := .npScalar } := by decide +kernel

/-! ## 3. grouped aggregations -/

/-- C01-Sim.3 `grouped_sum/mean/max/min/any/all(col, group_id)`: if the aggregation succeeds on a
source column and a group-id column with `n` rows each (the source may also be a 0-d array, which
`grouped_sum` broadcasts), it succeeds on the permuted columns and returns the permuted result.
(The group id cannot be a scalar: then the call fails.) -/
theorem groupAggOp_perm {n : Nat} {σ : List Nat} (hσ : σ.Perm (List.range n)) (a : Aggr)
    (col gid out : Col) (hcols : ColsOK n [col, gid]) (h : groupAggOp a [col, gid] = .ok out) :
    groupAggOp a [col.permute σ, gid.permute σ] = .ok (out.permute σ) :=
  (groupAggOp_two_perm hσ a hcols h).1

/-- C01-Sim.3a `grouped_count(group_id)`: same statement for the one-argument form. -/
theorem groupAggOp_count_perm {n : Nat} {σ : List Nat} (hσ : σ.Perm (List.range n)) (a : Aggr)
    (gid out : Col) (hcols : ColsOK n [gid]) (h : groupAggOp a [gid] = .ok out) :
    groupAggOp a [gid.permute σ] = .ok (out.permute σ) :=
  (groupAggOp_one_perm hσ a hcols h).1

/-- C01-Sim.3b A successful grouped aggregation returns a 1-d array with `n` rows. -/
theorem groupAggOp_rows {n : Nat} (a : Aggr) (cols : List Col) (out : Col)
    (hcols : ColsOK n cols) (h : groupAggOp a cols = .ok out) : ColOK n out :=
  (groupAggOp_perm_list (σ := List.range n) (List.Perm.refl _) a hcols h).2

/-- C01-Sim.3c Whether a grouped aggregation fails does not depend on the order of the rows. -/
theorem groupAggOp_fails_iff {n : Nat} {σ : List Nat} (hσ : σ.Perm (List.range n)) (a : Aggr)
    (cols : List Col) (hcols : ColsOK n cols) :
    (∃ e, groupAggOp a (cols.map (Col.permute σ)) = .error e) ↔ (∃ e, groupAggOp a cols = .error e) :=
  fails_iff_of_perm hσ (groupAggOp a) (fun _ => True) (fun _ _ _ _ _ => trivial)
    (fun _ hτ _ _ hc _ h => ⟨_, (groupAggOp_perm_list hτ a hc h).1⟩) cols hcols trivial

private def colG : Col := { dt := .int, vals := [.i 7, .i 3, .i 7] }
private def colB : Col := { dt := .bool, vals := [.b false, .b true, .b true] }

example : ColsOK 3 [colX, colG] := by decide
example : groupAggOp .sum [colX, colG] = .ok { dt := .float, vals := [.f 4, .f (5/2), .f 4] } ∧
    groupAggOp .sum [colX.permute σ3, colG.permute σ3] =
      .ok { dt := .float, vals := [.f 4, .f 4, .f (5/2)] } := by decide +kernel
example : groupAggOp .mean [colX, colG] = .ok { dt := .float, vals := [.f 2, .f (5/2), .f 2] } ∧
    groupAggOp .mean [colX.permute σ3, colG.permute σ3] =
      .ok { dt := .float, vals := [.f 2, .f 2, .f (5/2)] } := by decide +kernel
example : groupAggOp .max [colY, colG] = .ok { dt := .int, vals := [.i 30, .i 20, .i 30] } ∧
    groupAggOp .min [colY.permute σ3, colG.permute σ3] =
      .ok { dt := .int, vals := [.i 10, .i 10, .i 20] } := by decide +kernel
example : groupAggOp .all [colB, colG] = .ok { dt := .bool, vals := [.b false, .b true, .b false] } ∧
    groupAggOp .any [colB.permute σ3, colG.permute σ3] =
      .ok { dt := .bool, vals := [.b true, .b true, .b true] } := by decide +kernel
example : groupAggOp .count [colG] = .ok { dt := .float, vals := [.f 2, .f 1, .f 2] } ∧
    groupAggOp .count [colG.permute σ3] = .ok { dt := .float, vals := [.f 2, .f 2, .f 1] } := by
  decide +kernel
/-- a 0-d source column: `grouped_sum` broadcasts it (covered by the theorem), every other
aggregation raises -/
example : ColsOK 3 [{ colS with shape := .arr0 }, colG] ∧
    groupAggOp .sum [{ colS with shape := .arr0 }, colG] =
      .ok { dt := .float, vals := [.f 200, .f 100, .f 200] } ∧
    groupAggOp .max [{ colS with shape := .arr0 }, colG] = .error .valueError := by decide +kernel
/-- instance of the theorem -/
example : groupAggOp .sum [colX.permute σ3, colG.permute σ3] =
    .ok (Col.permute σ3 { dt := .float, vals := [.f 4, .f (5/2), .f 4] }) :=
  groupAggOp_perm (n := 3) (by decide) .sum colX colG _ (by decide) (by decide +kernel)

/-! ## 4. `sum_by_p_id` -/

/-- C01-Sim.4 `sum_by_p_id(col, pointer, p_id)`: if `p_id` has no duplicates and the call succeeds
on three columns with `n` rows (the source may be a 0-d array), the call on the three columns
permuted by the same `σ` succeeds and returns the permuted result. -/
theorem pidSumOp_perm {n : Nat} {σ : List Nat} (hσ : σ.Perm (List.range n))
    (col ptr pid out : Col) (hcols : ColsOK n [col, ptr, pid]) (hnd : pid.ints.Nodup)
    (h : pidSumOp [col, ptr, pid] = .ok out) :
    pidSumOp [col.permute σ, ptr.permute σ, pid.permute σ] = .ok (out.permute σ) :=
  (pidSumOp_three_perm hσ hcols hnd h).1

/-- C01-Sim.4a A successful `sum_by_p_id` returns a 1-d array with `n` rows. -/
theorem pidSumOp_rows {n : Nat} (cols : List Col) (out : Col) (hcols : ColsOK n cols)
    (hnd : ∀ pid, cols[2]? = some pid → pid.ints.Nodup) (h : pidSumOp cols = .ok out) :
    ColOK n out :=
  (pidSumOp_perm_list (σ := List.range n) (List.Perm.refl _) hcols hnd h).2

/-- C01-Sim.4b Whether `sum_by_p_id` fails does not depend on the order of the rows (duplicate-free
`p_id`). -/
theorem pidSumOp_fails_iff {n : Nat} {σ : List Nat} (hσ : σ.Perm (List.range n))
    (cols : List Col) (hcols : ColsOK n cols)
    (hnd : ∀ pid, cols[2]? = some pid → pid.ints.Nodup) :
    (∃ e, pidSumOp (cols.map (Col.permute σ)) = .error e) ↔ (∃ e, pidSumOp cols = .error e) :=
  fails_iff_of_perm hσ pidSumOp (fun cols => ∀ pid, cols[2]? = some pid → pid.ints.Nodup)
    (fun τ hτ cols hc hP pid hpid => by
      rw [List.getElem?_map] at hpid
      cases h2 : cols[2]? with
      | none => rw [h2] at hpid; cases hpid
      | some c =>
        rw [h2] at hpid
        cases hpid
        exact Col.ints_permute_nodup hτ (hc c (List.mem_of_getElem? h2)) (hP c h2))
    (fun _ hτ _ _ hc hP h => ⟨_, (pidSumOp_perm_list hτ hc hP h).1⟩) cols hcols hnd

private def colPid : Col := { dt := .int, vals := [.i 1, .i 2, .i 5] }
private def colPtr : Col := { dt := .int, vals := [.i 5, .i (-1), .i 5] }

example : ColsOK 3 [colX, colPtr, colPid] ∧ colPid.ints.Nodup := by decide +kernel
example : pidSumOp [colX, colPtr, colPid] = .ok { dt := .float, vals := [.f 0, .f 0, .f 4] } ∧
    pidSumOp [colX.permute σ3, colPtr.permute σ3, colPid.permute σ3] =
      .ok { dt := .float, vals := [.f 4, .f 0, .f 0] } := by decide +kernel
/-- instance of the theorem -/
example : pidSumOp [colX.permute σ3, colPtr.permute σ3, colPid.permute σ3] =
    .ok (Col.permute σ3 { dt := .float, vals := [.f 0, .f 0, .f 4] }) :=
  pidSumOp_perm (n := 3) (by decide) colX colPtr colPid _ (by decide) (by decide +kernel)
    (by decide +kernel)

private def colPidDup : Col := { dt := .int, vals := [.i 5, .i 2, .i 5] }

/-- C01-Sim.4c WHY `p_id` must be duplicate free: with `p_id = [5, 2, 5]` the position table keeps
the LAST row of id 5, so the amount pointing to 5 is credited to row 2. After the permutation
`p_id = [5, 5, 2]`; the old row 2 is the new row 0, but the amount is credited to the new row 1
(the last one with id 5): the result `[0, 4, 0]` is not the permuted `[4, 0, 0]`.
(`_fail_if_pid_is_non_unique` rules this out for the data.) -/
theorem pidSumOp_dup_not_perm :
    pidSumOp [colX, colPtr, colPidDup] = .ok { dt := .float, vals := [.f 0, .f 0, .f 4] } ∧
    pidSumOp [colX.permute σ3, colPtr.permute σ3, colPidDup.permute σ3] =
      .ok { dt := .float, vals := [.f 0, .f 4, .f 0] } ∧
    Col.permute σ3 { dt := .float, vals := [.f 0, .f 0, .f 4] } =
      { dt := .float, vals := [.f 4, .f 0, .f 0] } := by
  decide +kernel

/-! ## 5. lifting through the evaluation of the DAG -/

/-- C01-Sim.5 (general form) Let `S` be a system all of whose nodes are built by `nodeOf` from
vectorized rules with declared return type, time conversions, grouped aggregations and
`sum_by_p_id` (`GoodNode`: no id constructors, no rule without return annotation; the third
argument of every `sum_by_p_id` node never evaluates to a column with duplicates), and let all
data columns have `n` rows (or be scalars). Then every value computed from the data `D` is
computed, in permuted form, from the data permuted by `σ` (same fuel). -/
theorem sys_eval_perm {n : Nat} {σ : List Nat} (hσ : σ.Perm (List.range n))
    (params : List (String × Val)) (specs : List (String × RSpec)) (S : Dag.Sys Col)
    (D : Dag.Data Col)
    (hS : ∀ x node, Dag.find? S x = some node → GoodNode params specs S D node)
    (hD : ColsOK n (D.map (·.2)))
    (fuel : Nat) (t : String) (v : Col) (h : Dag.eval S D fuel t = .ok v) :
    Dag.eval S (permData σ D) fuel t = .ok (v.permute σ) :=
  (sys_eval_perm_aux hσ params specs S D hS hD fuel t v h).1

/-- C01-Sim.5a The invariant used by the lift: every successfully evaluated node is a scalar or
has exactly `n` rows. -/
theorem sys_eval_rows {n : Nat} (params : List (String × Val)) (specs : List (String × RSpec))
    (S : Dag.Sys Col) (D : Dag.Data Col)
    (hS : ∀ x node, Dag.find? S x = some node → GoodNode params specs S D node)
    (hD : ColsOK n (D.map (·.2)))
    (fuel : Nat) (t : String) (v : Col) (h : Dag.eval S D fuel t = .ok v) : ColOK n v :=
  (sys_eval_perm_aux (σ := List.range n) (List.Perm.refl _) params specs S D hS hD fuel t v h).2

/-- C01-Sim.5b Systems without `sum_by_p_id` nodes, built from a list of functions as in `plan`
(`sysOf`): no side condition besides the kinds of the functions. -/
theorem sys_eval_perm_partial {n : Nat} {σ : List Nat} (hσ : σ.Perm (List.range n))
    (params : List (String × Val)) (specs : List (String × RSpec)) (fns : List Fn)
    (D : Dag.Data Col)
    (hk : ∀ f ∈ fns, f.kind.permOK = true ∧ f.kind.isPidSum = false)
    (hD : ColsOK n (D.map (·.2)))
    (fuel : Nat) (t : String) (v : Col) (h : Dag.eval (sysOf params specs fns) D fuel t = .ok v) :
    Dag.eval (sysOf params specs fns) (permData σ D) fuel t = .ok (v.permute σ) :=
  sys_eval_perm hσ params specs _ D
    (fun x node hx => (sysOf_goodNodeData params specs fns D
      (fun f hf => ⟨(hk f hf).1, fun hp => by rw [(hk f hf).2] at hp; cases hp⟩) x node hx).good _)
    hD fuel t v h

/-- C01-Sim.5c The situation of the real code: the third argument of every `sum_by_p_id` node is
a DATA column (`p_id`) without duplicates (`GoodNodeData`). -/
theorem sys_eval_perm_pid_data {n : Nat} {σ : List Nat} (hσ : σ.Perm (List.range n))
    (params : List (String × Val)) (specs : List (String × RSpec)) (S : Dag.Sys Col)
    (D : Dag.Data Col)
    (hS : ∀ x node, Dag.find? S x = some node → GoodNodeData params specs D node)
    (hD : ColsOK n (D.map (·.2)))
    (fuel : Nat) (t : String) (v : Col) (h : Dag.eval S D fuel t = .ok v) :
    Dag.eval S (permData σ D) fuel t = .ok (v.permute σ) :=
  sys_eval_perm hσ params specs S D (fun x node hx => (hS x node hx).good S) hD fuel t v h

/-- C01-Sim.5d In that situation a target fails on the permuted data iff it fails on the
original data (the error itself may differ). -/
theorem sys_eval_fails_iff {n : Nat} {σ : List Nat} (hσ : σ.Perm (List.range n))
    (params : List (String × Val)) (specs : List (String × RSpec)) (S : Dag.Sys Col)
    (D : Dag.Data Col)
    (hS : ∀ x node, Dag.find? S x = some node → GoodNodeData params specs D node)
    (hD : ColsOK n (D.map (·.2))) (fuel : Nat) (t : String) :
    (∃ e, Dag.eval S (permData σ D) fuel t = .error e) ↔ (∃ e, Dag.eval S D fuel t = .error e) := by
  constructor
  · rintro ⟨e, he⟩
    cases h : Dag.eval S D fuel t with
    | error e' => exact ⟨e', rfl⟩
    | ok v =>
      rw [sys_eval_perm_pid_data hσ params specs S D hS hD fuel t v h] at he
      cases he
  · rintro ⟨e, he⟩
    cases h : Dag.eval S (permData σ D) fuel t with
    | error e' => exact ⟨e', rfl⟩
    | ok v =>
      have := sys_eval_perm_pid_data (invPerm_perm hσ) params specs S (permData σ D)
        (fun x node hx => (hS x node hx).permData hσ hD)
        (colsOK_permData σ (perm_length hσ) D) fuel t v h
      rw [permData_invPerm hσ hD, he] at this
      cases this

/-- C01-Sim.5e The form in which `exec` evaluates: the system is first pruned to the ancestors of
the targets (`dags.create_dag`, which only looks at the NAMES of the data columns). For functions
`fns` of admissible kinds whose `sum_by_p_id` nodes take a duplicate-free data column as third
argument, a target computed on `D` is computed in permuted form on the permuted data — where the
pruning, too, is done with the permuted data. -/
theorem pruned_eval_perm {n : Nat} {σ : List Nat} (hσ : σ.Perm (List.range n))
    (params : List (String × Val)) (specs : List (String × RSpec)) (fns : List Fn)
    (D : Dag.Data Col)
    (hfns : ∀ f ∈ fns, f.kind.permOK = true ∧ (f.kind.isPidSum = true →
      ∀ d, (freeArgs params f)[2]? = some d → ∃ c, Dag.find? D d = some c ∧ c.ints.Nodup))
    (hD : ColsOK n (D.map (·.2))) (pfuel : Nat) (targets : List String)
    (fuel : Nat) (t : String) (v : Col)
    (h : Dag.eval (Dag.prune (sysOf params specs fns) D pfuel targets) D fuel t = .ok v) :
    Dag.eval (Dag.prune (sysOf params specs fns) (permData σ D) pfuel targets) (permData σ D) fuel t =
      .ok (v.permute σ) := by
  rw [prune_permData]
  exact sys_eval_perm_pid_data hσ params specs _ D
    (subsys_goodNodeData params specs fns D _ (prune_sub _ D pfuel targets) hfns) hD fuel t v h

/-! ### non-vacuity: a system with all four kinds of nodes -/

/-- `def net(inc, tax) -> float: return inc - tax` -/
private def fNet : FunDef :=
  { name := "net", args := ["inc", "tax"], body := [.ret (.bin .sub (.name "inc") (.name "tax"))] }
private def fns0 : List Fn :=
  [ { name := "net_m", args := ["inc", "tax"], ann := some .float, kind := .rule fNet (some .float) none },
    { name := "net_m_hh", args := ["net_m", "hh_id"], ann := some .float,
      kind := .groupAgg .sum (some "net_m") "hh_id" },
    { name := "net_y_hh", args := ["net_m_hh"], ann := none, kind := .timeConv "net_m_hh" .m .y },
    { name := "recv_m", args := ["net_m", "p_id_recv", "p_id"], ann := some .float,
      kind := .pidSum "net_m" "p_id_recv" },
    { name := "total", args := ["net_y_hh", "recv_m"], ann := some .float, kind := .rule fAdd' (some .float) none } ]
where fAdd' : FunDef :=
  { name := "total", args := ["net_y_hh", "recv_m"],
    body := [.ret (.bin .add (.name "net_y_hh") (.name "recv_m"))] }
private def D0 : Dag.Data Col :=
  [("inc", { dt := .float, vals := [.f 100, .f 40, .f 60] }),
   ("tax", { dt := .float, vals := [.f 10, .f 4, .f 6] }),
   ("hh_id", colG), ("p_id", colPid), ("p_id_recv", colPtr)]

example : ColsOK 3 (D0.map (·.2)) := by decide
example : Dag.eval (sysOf [] [] fns0) D0 5 "total" =
    .ok { dt := .float, vals := [.f 1728, .f 432, .f 1872] } := by decide +kernel
example : Dag.eval (sysOf [] [] fns0) (permData σ3 D0) 5 "total" =
    .ok { dt := .float, vals := [.f 1872, .f 1728, .f 432] } := by decide +kernel
private theorem fns0_good : ∀ x node, Dag.find? (sysOf [] [] fns0) x = some node →
    GoodNodeData [] [] D0 node := by
  apply sysOf_goodNodeData
  intro f hf
  simp only [fns0, List.mem_cons, List.not_mem_nil, or_false] at hf
  rcases hf with rfl | rfl | rfl | rfl | rfl
  · exact ⟨rfl, fun h => by cases h⟩
  · exact ⟨rfl, fun h => by cases h⟩
  · exact ⟨rfl, fun h => by cases h⟩
  · refine ⟨rfl, fun _ d hd => ?_⟩
    cases hd
    exact ⟨colPid, rfl, by decide +kernel⟩
  · exact ⟨rfl, fun h => by cases h⟩
/-- all hypotheses of `sys_eval_perm_pid_data` hold together -/
example : Dag.eval (sysOf [] [] fns0) (permData σ3 D0) 5 "total" =
    .ok (Col.permute σ3 { dt := .float, vals := [.f 1728, .f 432, .f 1872] }) :=
  sys_eval_perm_pid_data (n := 3) (by decide) [] [] _ D0 fns0_good (by decide) 5 "total" _
    (by decide +kernel)
/-- the pruned system for the target `net_y_hh` no longer contains the `sum_by_p_id` node -/
example : (Dag.prune (sysOf [] [] fns0) D0 6 ["net_y_hh"]).map (·.1) = ["net_m", "net_m_hh", "net_y_hh"] ∧
    Dag.eval (Dag.prune (sysOf [] [] fns0) D0 6 ["net_y_hh"]) D0 6 "net_y_hh" =
      .ok { dt := .float, vals := [.f 1728, .f 432, .f 1728] } := by decide +kernel
/-- … and of `sys_eval_perm_partial` for the functions without the `sum_by_p_id` node -/
example : (∀ f ∈ fns0.take 3, f.kind.permOK = true ∧ f.kind.isPidSum = false) ∧
    Dag.eval (sysOf [] [] (fns0.take 3)) D0 5 "net_y_hh" =
      .ok { dt := .float, vals := [.f 1728, .f 432, .f 1728] } := by decide +kernel

end GV.Simulate
