import GettsimVerif.Lemmas.SimPermIds
/-
Property C01 for the DERIVED GROUP IDENTIFIERS of the executable model `Core/Simulate.lean` of
`compute_taxes_and_transfers`: "derived group identifiers may be numbered differently in another
row order, but they must induce the same partition of the persons" — and what is computed FROM
them (grouped aggregates, `bg_id` on top of `fg_id`) does not change.

Vocabulary (defined in `Lemmas/SimPermIds.lean`, the permutation vocabulary in `Lemmas/SimPerm.lean`):
* `SamePartition a b`     : `a`, `b` have the same length and `a[i] = a[j] ↔ b[i] = b[j]` for all rows;
* `Col.SamePart c c'`     : same dtype, same shape and `SamePartition c.ints c'.ints`;
* `pi_Valid g cols`       : the inputs of the id constructor `g` are 1-d arrays (no scalars) whose ROWS
                            satisfy the validity hypothesis of the partition specification of `g`
  (`Props/C12.lean`, `Props/C12Cor.lean`):
  - `eg`, `ehe` (`pi_ValidPair`): `ValidRows (p_id.zip pointer)` — unique non-negative p_ids, no
    self pointers, every non-negative pointer is answered by a row pointing back;
  - `sn` (`pi_ValidSn`): `ValidRows3` of the rows `(p_id, spouse pointer, flag)` (that spouses
    agree on the flag follows from the success of the call);
  - `fg` (`pi_ValidFg`): `ValidPersons` and `ValidDependents` of the person table;
  - `bg` (`pi_ValidBg`): `BgSmall` — fewer than 100 self-sufficient children per family unit;
  - `wthh` (`pi_ValidWthh`): nothing besides "1-d arrays".
* `pi_colChk c = false`   : `c` is not a float column with a non-integral value (the check of
                            `groupingOp`; automatic for int columns).
* `IdRel σ isId x c c'`   : if `isId x` then `Col.SamePart (c.permute σ) c'` else `c' = c.permute σ`;
* `pi_GoodFn params isId S D f` : the side conditions of the lift on one function `f` (see section 3).

All statements about a permuted call are conditional on SUCCESS of the original call (as in
`Props/C01Sim.lean`). Rules and time conversions are assumed NOT to consume derived ids (they could
do arithmetic on the numbers): in the lift a marked node may only be consumed as the group-id (last)
argument of a grouped aggregation or as the `fg_id` (first) argument of `bg_id`.
-/
namespace GV.Simulate
open GV.VecDtype (R DT)
open GV.Lang (Val FunDef)
open GV.Groupings

/-! ## 1. grouped aggregates depend on the id column only through its partition -/

/-- C01-Ids.1 `grouped_sum/mean/max/min/any/all(col, group_id)`: if two group-id columns have the
same dtype and shape and induce the same partition of the rows, and all ids are non-negative in
both, the aggregation gives literally the same result (value or error) with either of them. -/
theorem groupAggOp_partition_congr (a : Aggr) (col gid gid' : Col) (h : Col.SamePart gid gid')
    (hn : ∀ g ∈ gid.ints, 0 ≤ g) (hn' : ∀ g ∈ gid'.ints, 0 ≤ g) :
    groupAggOp a [col, gid] = groupAggOp a [col, gid'] :=
  pi_groupAggOp_two_congr a col h hn hn'

/-- C01-Ids.1a `grouped_count(group_id)`: same statement for the one-argument form. -/
theorem groupAggOp_count_partition_congr (a : Aggr) (gid gid' : Col) (h : Col.SamePart gid gid')
    (hn : ∀ g ∈ gid.ints, 0 ≤ g) (hn' : ∀ g ∈ gid'.ints, 0 ≤ g) :
    groupAggOp a [gid] = groupAggOp a [gid'] :=
  pi_groupAggOp_one_congr a h hn hn'

/-- C01-Ids.1b The non-negativity hypothesis is needed: `[0, 0, 1]` and `[-1, -1, 5]` induce the
same partition, but `numpy_groupies` rejects negative ids. -/
theorem groupAggOp_partition_congr_needs_nonneg :
    let col : Col := { dt := .float, vals := [.f 1, .f 2, .f 4] }
    let gid : Col := { dt := .int, vals := [.i 0, .i 0, .i 1] }
    let gid' : Col := { dt := .int, vals := [.i (-1), .i (-1), .i 5] }
    Col.SamePart gid gid' ∧
      groupAggOp .sum [col, gid] = .ok { dt := .float, vals := [.f 3, .f 3, .f 4] } ∧
      groupAggOp .sum [col, gid'] = .error .valueError := by
  decide +kernel

/-- C01-Ids.1c Row permutation and renumbering together: if the aggregation succeeds on `col` and
`gid` (`n` rows), then on the permuted source column and ANY id column `gid'` that induces the same
partition as the permuted `gid` it returns the permuted result. -/
theorem groupAggOp_perm_partition {n : Nat} {σ : List Nat} (hσ : σ.Perm (List.range n)) (a : Aggr)
    (col gid gid' out : Col) (hcols : ColsOK n [col, gid])
    (h : Col.SamePart (gid.permute σ) gid') (hn : ∀ g ∈ gid.ints, 0 ≤ g)
    (hn' : ∀ g ∈ gid'.ints, 0 ≤ g) (ho : groupAggOp a [col, gid] = .ok out) :
    groupAggOp a [col.permute σ, gid'] = .ok (out.permute σ) := by
  rw [← groupAggOp_partition_congr a _ _ _ h (pi_nonneg_permute hσ (hcols gid (by simp)) hn) hn']
  exact (groupAggOp_two_perm hσ a hcols ho).1

/-- C01-Ids.1d … and for `grouped_count`. -/
theorem groupAggOp_count_perm_partition {n : Nat} {σ : List Nat} (hσ : σ.Perm (List.range n))
    (a : Aggr) (gid gid' out : Col) (hcols : ColsOK n [gid])
    (h : Col.SamePart (gid.permute σ) gid') (hn : ∀ g ∈ gid.ints, 0 ≤ g)
    (hn' : ∀ g ∈ gid'.ints, 0 ≤ g) (ho : groupAggOp a [gid] = .ok out) :
    groupAggOp a [gid'] = .ok (out.permute σ) := by
  rw [← groupAggOp_count_partition_congr a _ _ h
    (pi_nonneg_permute hσ (hcols gid (by simp)) hn) hn']
  exact (groupAggOp_one_perm hσ a hcols ho).1

/-! ## 2. the id constructors under a permutation of the rows -/

/-- C01-Ids.2 For every id constructor `g` of `groupings.py` (`eg_id`, `ehe_id`, `sn_id`, the
repaired `fg_id`, `bg_id`, `wthh_id`): if the call succeeds on valid input columns with `n` rows,
the call on the columns permuted by `σ` succeeds, and its result induces the same partition of the
persons as the permuted original result (the numbers themselves may differ). The original result
has `n` rows. -/
theorem groupingOp_perm {n : Nat} {σ : List Nat} (hσ : σ.Perm (List.range n)) (g : Grouping)
    (cols : List Col) (out : Col) (hcols : ColsOK n cols) (hv : pi_Valid g cols)
    (h : groupingOp g cols = .ok out) :
    ∃ out', groupingOp g (cols.map (Col.permute σ)) = .ok out' ∧
      Col.SamePart (out.permute σ) out' ∧ ColOK n out :=
  pi_groupingOp_perm hσ g hcols hv h

/-- C01-Ids.2a `wthh_id` is computed row by row: the result on the permuted columns IS the permuted
result. -/
theorem groupingOp_wthh_perm {n : Nat} {σ : List Nat} (hσ : σ.Perm (List.range n))
    (cols : List Col) (out : Col) (hcols : ColsOK n cols) (hv : pi_ValidWthh cols)
    (h : groupingOp .wthh cols = .ok out) :
    groupingOp .wthh (cols.map (Col.permute σ)) = .ok (out.permute σ) :=
  (pi_wthh_perm hσ hcols hv h).1

/-- C01-Ids.2b The ids produced by `eg_id`, `ehe_id`, `sn_id` and `fg_id` are counters: they are
non-negative (so they satisfy the hypothesis of C01-Ids.1 when fed to a grouped aggregation). -/
theorem groupingOp_nonneg {n : Nat} (g : Grouping) (hg : g = .eg ∨ g = .ehe ∨ g = .sn ∨ g = .fg)
    (cols : List Col) (out : Col) (hcols : ColsOK n cols) (hv : pi_Valid g cols)
    (h : groupingOp g cols = .ok out) : ∀ x ∈ out.ints, 0 ≤ x := by
  have hσ : (List.range n).Perm (List.range n) := List.Perm.refl _
  rcases hg with rfl | rfl | rfl | rfl
  · obtain ⟨_, _, _, _, h4, _⟩ := pi_pair_perm hσ .eg (Or.inl rfl) hcols hv h; exact h4
  · obtain ⟨_, _, _, _, h4, _⟩ := pi_pair_perm hσ .ehe (Or.inr rfl) hcols hv h; exact h4
  · obtain ⟨_, _, _, _, h4, _⟩ := pi_sn_perm hσ hcols hv h; exact h4
  · obtain ⟨_, _, _, _, h4, _⟩ := pi_fg_perm hσ hcols hv h; exact h4

/-- C01-Ids.2c `bg_id` from non-negative fg ids is non-negative. -/
theorem groupingOp_bg_nonneg (fg alter eigen out : Col) (h0 : fg.scalar = false)
    (h1 : alter.scalar = false) (h2 : eigen.scalar = false) (hn : ∀ x ∈ fg.ints, 0 ≤ x)
    (h : groupingOp .bg [fg, alter, eigen] = .ok out) : ∀ x ∈ out.ints, 0 ≤ x :=
  pi_bg_out_nonneg h0 h1 h2 hn h

/-- C01-Ids.2d `bg_id` is a congruence in its `fg_id` argument: if `fg` and `fg'` have the same
dtype and induce the same partition (`fg'` passing the integrality check of the constructor, which
is automatic for int columns), `alter` and `eigenbedarf_gedeckt` are the same and every family
unit has fewer than 100 self-sufficient children (`BgSmall`, for `fg`; it follows for `fg'`), then
`bg_id` succeeds with `fg'` and induces the same partition. -/
theorem groupingOp_bg_congr {n : Nat} (fg fg' alter eigen out : Col)
    (hcols : ColsOK n [fg, alter, eigen]) (hv : pi_ValidBg [fg, alter, eigen])
    (hfg : Col.SamePart fg fg') (hchk : pi_colChk fg' = false)
    (h : groupingOp .bg [fg, alter, eigen] = .ok out) :
    ∃ out', groupingOp .bg [fg', alter, eigen] = .ok out' ∧ Col.SamePart out out' ∧
      pi_ValidBg [fg', alter, eigen] := by
  obtain ⟨h0, h1, h2, hs⟩ := hv
  obtain ⟨out', ho', hsp, hs'⟩ := pi_bg_congr hcols h0 h1 h2 hfg hchk hs h
  exact ⟨out', ho', hsp, by rw [← hfg.scalar_eq]; exact h0, h1, h2, hs'⟩

/-- C01-Ids.2e The situation inside a permuted run: the rows are permuted by `σ` and the `fg_id`
column of the permuted run is only partition-equal to the permuted original one (it was renumbered).
Then `bg_id` of the permuted run is partition-equal to the permuted original `bg_id`. -/
theorem groupingOp_bg_perm_congr {n : Nat} {σ : List Nat} (hσ : σ.Perm (List.range n))
    (fg fg' alter eigen out : Col) (hcols : ColsOK n [fg, alter, eigen])
    (hv : pi_ValidBg [fg, alter, eigen]) (hfg : Col.SamePart (fg.permute σ) fg')
    (hchk : pi_colChk fg' = false) (h : groupingOp .bg [fg, alter, eigen] = .ok out) :
    ∃ out', groupingOp .bg [fg', alter.permute σ, eigen.permute σ] = .ok out' ∧
      Col.SamePart (out.permute σ) out' := by
  obtain ⟨h0, h1, h2, hs⟩ := hv
  obtain ⟨out', ho', hsp, _⟩ := pi_bg_perm_congr hσ hcols h0 h1 h2 hfg hchk hs
    (pi_bgSmall_cols hσ hcols h0 h1 h2 hfg hs) h
  exact ⟨out', ho', hsp⟩

/-! ### non-vacuity: a couple (70, 3) with a child (12) in household 1 and a single (41) in
household 2; sparse unsorted ids; the second row order is `[41, 12, 70, 3]` -/

private def σ4 : List Nat := [3, 1, 0, 2]
private def cPid : Col := { dt := .int, vals := [.i 70, .i 12, .i 3, .i 41] }
private def cHh : Col := { dt := .int, vals := [.i 1, .i 1, .i 1, .i 2] }
private def cAlter : Col := { dt := .int, vals := [.i 40, .i 5, .i 38, .i 50] }
private def cPartner : Col := { dt := .int, vals := [.i 3, .i (-1), .i 70, .i (-1)] }
private def cE1 : Col := { dt := .int, vals := [.i (-1), .i 70, .i (-1), .i (-1)] }
private def cE2 : Col := { dt := .int, vals := [.i (-1), .i 3, .i (-1), .i (-1)] }
private def cEigen : Col := { dt := .bool, vals := [.b false, .b true, .b false, .b false] }
private def cInc : Col := { dt := .float, vals := [.f 100, .f 0, .f 50, .f 30] }
private def fgCols : List Col := [cPid, cHh, cAlter, cPartner, cE1, cE2]
private def cEg : Col := { dt := .int, vals := [.i 0, .i 1, .i 0, .i 2] }
private def cEg' : Col := { dt := .int, vals := [.i 0, .i 1, .i 2, .i 2] }
private def cFg : Col := { dt := .int, vals := [.i 0, .i 0, .i 0, .i 1] }
private def cFg' : Col := { dt := .int, vals := [.i 0, .i 2, .i 2, .i 2] }
private def cBg : Col := { dt := .int, vals := [.i 0, .i 1, .i 0, .i 100] }
private def cBg' : Col := { dt := .int, vals := [.i 0, .i 201, .i 200, .i 200] }

example : σ4.Perm (List.range 4) := by decide
example : ColsOK 4 fgCols ∧ ColsOK 4 [cPid, cPartner] := by decide

/-- eg_id in the two row orders: different numbers, same partition -/
example : groupingOp .eg [cPid, cPartner] = .ok cEg ∧
    groupingOp .eg ([cPid, cPartner].map (Col.permute σ4)) = .ok cEg' ∧
    cEg.permute σ4 ≠ cEg' ∧ Col.SamePart (cEg.permute σ4) cEg' := by decide +kernel

/-- fg_id in the two row orders -/
example : groupingOp .fg fgCols = .ok cFg ∧
    groupingOp .fg (fgCols.map (Col.permute σ4)) = .ok cFg' ∧
    cFg.permute σ4 ≠ cFg' ∧ Col.SamePart (cFg.permute σ4) cFg' := by decide +kernel

/-- bg_id on top of the fg_id of the respective run -/
example : groupingOp .bg [cFg, cAlter, cEigen] = .ok cBg ∧
    groupingOp .bg [cFg', cAlter.permute σ4, cEigen.permute σ4] = .ok cBg' ∧
    cBg.permute σ4 ≠ cBg' ∧ Col.SamePart (cBg.permute σ4) cBg' := by decide +kernel

/-- the income of the family unit: equal (permuted) in both runs although the ids differ -/
example : groupAggOp .sum [cInc, cFg] = .ok { dt := .float, vals := [.f 150, .f 150, .f 150, .f 30] } ∧
    groupAggOp .sum [cInc.permute σ4, cFg'] =
      .ok (Col.permute σ4 { dt := .float, vals := [.f 150, .f 150, .f 150, .f 30] }) ∧
    groupAggOp .count [cFg'] = .ok (Col.permute σ4 { dt := .float, vals := [.f 3, .f 3, .f 3, .f 1] }) := by
  decide +kernel

/-- the validity hypotheses hold on the example -/
private theorem validEg : pi_Valid .eg [cPid, cPartner] :=
  ⟨by decide, by decide, ⟨by decide +kernel, by decide +kernel, by decide +kernel, by decide +kernel⟩⟩
private theorem validFg : pi_Valid .fg fgCols :=
  ⟨by decide, by decide, by decide, by decide, by decide, by decide,
    ⟨by decide +kernel, by decide +kernel, by decide +kernel, by decide +kernel⟩,
    ⟨by decide +kernel, by decide +kernel⟩⟩
private theorem validBg : pi_ValidBg [cFg, cAlter, cEigen] :=
  ⟨by decide, by decide, by decide, by decide +kernel⟩

private def cGv : Col := { dt := .bool, vals := [.b true, .b false, .b true, .b false] }
private def cV1 : Col := { dt := .bool, vals := [.b false, .b false, .b false, .b true] }

private theorem validSn : pi_Valid .sn [cPid, cPartner, cGv] :=
  ⟨by decide, by decide, by decide,
    ⟨by decide +kernel, by decide +kernel, by decide +kernel, by decide +kernel⟩⟩

/-- sn_id and wthh_id in the two row orders -/
example : groupingOp .sn [cPid, cPartner, cGv] = .ok { dt := .int, vals := [.i 0, .i 1, .i 0, .i 2] } ∧
    groupingOp .sn ([cPid, cPartner, cGv].map (Col.permute σ4)) =
      .ok { dt := .int, vals := [.i 0, .i 1, .i 2, .i 2] } ∧
    groupingOp .wthh [cHh, cV1, cGv] = .ok { dt := .int, vals := [.i 101, .i 100, .i 101, .i 201] } ∧
    groupingOp .wthh ([cHh, cV1, cGv].map (Col.permute σ4)) =
      .ok { dt := .int, vals := [.i 201, .i 100, .i 101, .i 101] } := by decide +kernel

/-- instances of the theorems: all hypotheses hold together -/
example : ∃ out', groupingOp .eg ([cPid, cPartner].map (Col.permute σ4)) = .ok out' ∧
    Col.SamePart (cEg.permute σ4) out' ∧ ColOK 4 cEg :=
  groupingOp_perm (n := 4) (by decide) .eg _ cEg (by decide) validEg (by decide +kernel)
example : ∃ out', groupingOp .fg (fgCols.map (Col.permute σ4)) = .ok out' ∧
    Col.SamePart (cFg.permute σ4) out' ∧ ColOK 4 cFg :=
  groupingOp_perm (n := 4) (by decide) .fg fgCols cFg (by decide) validFg (by decide +kernel)
example : ∃ out', groupingOp .sn ([cPid, cPartner, cGv].map (Col.permute σ4)) = .ok out' ∧
    Col.SamePart (Col.permute σ4 { dt := .int, vals := [.i 0, .i 1, .i 0, .i 2] }) out' ∧
    ColOK 4 { dt := .int, vals := [.i 0, .i 1, .i 0, .i 2] } :=
  groupingOp_perm (n := 4) (by decide) .sn _ _ (by decide) validSn (by decide +kernel)
example : groupingOp .wthh ([cHh, cV1, cGv].map (Col.permute σ4)) =
    .ok (Col.permute σ4 { dt := .int, vals := [.i 101, .i 100, .i 101, .i 201] }) :=
  groupingOp_wthh_perm (n := 4) (by decide) _ _ (by decide) ⟨by decide, by decide, by decide⟩
    (by decide +kernel)
example : ∀ x ∈ cFg.ints, 0 ≤ x :=
  groupingOp_nonneg (n := 4) .fg (by simp) fgCols cFg (by decide) validFg (by decide +kernel)
example : ∃ out', groupingOp .bg [cFg', cAlter.permute σ4, cEigen.permute σ4] = .ok out' ∧
    Col.SamePart (cBg.permute σ4) out' :=
  groupingOp_bg_perm_congr (n := 4) (by decide) cFg cFg' cAlter cEigen cBg (by decide) validBg
    (by decide +kernel) (by decide +kernel) (by decide +kernel)
/-- `bg_id` with the fg ids renumbered `0 ↦ 7, 1 ↦ 4` (same row order) -/
example : ∃ out', groupingOp .bg [{ dt := .int, vals := [.i 7, .i 7, .i 7, .i 4] }, cAlter, cEigen] =
    .ok out' ∧ Col.SamePart cBg out' ∧
    pi_ValidBg [{ dt := .int, vals := [.i 7, .i 7, .i 7, .i 4] }, cAlter, cEigen] :=
  groupingOp_bg_congr (n := 4) cFg _ cAlter cEigen cBg (by decide) validBg (by decide +kernel)
    (by decide +kernel) (by decide +kernel)
example : groupAggOp .sum [cInc.permute σ4, cFg'] =
    .ok (Col.permute σ4 { dt := .float, vals := [.f 150, .f 150, .f 150, .f 30] }) :=
  groupAggOp_perm_partition (n := 4) (by decide) .sum cInc cFg cFg' _ (by decide)
    (by decide +kernel) (by decide +kernel) (by decide +kernel) (by decide +kernel)
example : groupAggOp .mean [cInc, cFg] = groupAggOp .mean [cInc, { dt := .int, vals := [.i 7, .i 7, .i 7, .i 4] }] :=
  groupAggOp_partition_congr .mean cInc cFg _ (by decide +kernel) (by decide +kernel) (by decide +kernel)
example : groupAggOp .count [cFg'] = .ok (Col.permute σ4 { dt := .float, vals := [.f 3, .f 3, .f 3, .f 1] }) :=
  groupAggOp_count_perm_partition (n := 4) (by decide) .count cFg cFg' _ (by decide)
    (by decide +kernel) (by decide +kernel) (by decide +kernel) (by decide +kernel)


/-! ## 3. lifting through the evaluation of the DAG -/

/-- C01-Ids.3 (the lift) Let the system be built (`sysOf`, as in `plan`) from functions that are
id constructors, grouped aggregations, or of the kinds covered by C01-Sim (rules with declared
return type, time conversions, `sum_by_p_id`); let `isId` mark exactly the id constructors other than
`wthh_id` (no data column is marked: id columns in the DATA are permuted exactly); let every consumer
of a marked node be a grouped aggregation using it as LAST argument (the group id) or `bg_id` using it
as FIRST argument (`fg_id`); and let the validity hypotheses of every id constructor hold on its
evaluated arguments in the ORIGINAL run (`pi_GoodFn`). Then every node computed from the data `D` is
computed from the data permuted by `σ` (same fuel), and the two values are related by `IdRel`: marked
nodes induce the same partition of the persons as the permuted original, all other nodes ARE the
permuted original. -/
theorem sys_eval_perm_ids {n : Nat} {σ : List Nat} (hσ : σ.Perm (List.range n))
    (params : List (String × Val)) (specs : List (String × RSpec)) (fns : List Fn)
    (isId : String → Bool) (D : Dag.Data Col)
    (hfns : ∀ f ∈ fns, pi_GoodFn params isId (sysOf params specs fns) D f)
    (hD : ColsOK n (D.map (·.2))) (hDid : ∀ p ∈ D, isId p.1 = false)
    (fuel : Nat) (t : String) (v : Col)
    (h : Dag.eval (sysOf params specs fns) D fuel t = .ok v) :
    ∃ v', Dag.eval (sysOf params specs fns) (permData σ D) fuel t = .ok v' ∧ IdRel σ isId t v v' := by
  obtain ⟨v', h1, h2⟩ := pi_sys_eval_perm_ids hσ params specs fns isId D hfns hD hDid fuel t v h
  exact ⟨v', h1, h2.idRel⟩

/-- C01-Ids.3a In particular every unmarked target (everything except the derived ids themselves) is
unchanged up to the permutation of the rows, although it may have been computed THROUGH group ids
that were numbered differently. -/
theorem sys_eval_perm_ids_value {n : Nat} {σ : List Nat} (hσ : σ.Perm (List.range n))
    (params : List (String × Val)) (specs : List (String × RSpec)) (fns : List Fn)
    (isId : String → Bool) (D : Dag.Data Col)
    (hfns : ∀ f ∈ fns, pi_GoodFn params isId (sysOf params specs fns) D f)
    (hD : ColsOK n (D.map (·.2))) (hDid : ∀ p ∈ D, isId p.1 = false)
    (fuel : Nat) (t : String) (v : Col) (ht : isId t = false)
    (h : Dag.eval (sysOf params specs fns) D fuel t = .ok v) :
    Dag.eval (sysOf params specs fns) (permData σ D) fuel t = .ok (v.permute σ) := by
  obtain ⟨v', h1, h2⟩ := pi_sys_eval_perm_ids hσ params specs fns isId D hfns hD hDid fuel t v h
  rw [h1, h2.unmarked ht]

/-- C01-Ids.3b The invariants carried by the lift: every evaluated node is a scalar or has `n` rows;
the marked ones hold non-negative ids. -/
theorem sys_eval_ids_rows {n : Nat} (params : List (String × Val)) (specs : List (String × RSpec))
    (fns : List Fn) (isId : String → Bool) (D : Dag.Data Col)
    (hfns : ∀ f ∈ fns, pi_GoodFn params isId (sysOf params specs fns) D f)
    (hD : ColsOK n (D.map (·.2))) (hDid : ∀ p ∈ D, isId p.1 = false)
    (fuel : Nat) (t : String) (v : Col)
    (h : Dag.eval (sysOf params specs fns) D fuel t = .ok v) :
    ColOK n v ∧ (isId t = true → ∀ x ∈ v.ints, 0 ≤ x) := by
  obtain ⟨v', _, h2⟩ := pi_sys_eval_perm_ids (σ := List.range n) (List.Perm.refl _) params specs fns
    isId D hfns hD hDid fuel t v h
  exact ⟨h2.1, fun hi => (h2.marked hi).2.1⟩

/-! ### non-vacuity: the family of the examples above; `eg_id`, `fg_id`, `bg_id` are computed by the
constructors, aggregated over, and a rule adds two of the aggregates -/

/-- `def total(inc_fg, anz_bg) -> float: return inc_fg + anz_bg` -/
private def fTot : FunDef :=
  { name := "total", args := ["inc_fg", "anz_bg"],
    body := [.ret (.bin .add (.name "inc_fg") (.name "anz_bg"))] }
/-- `fg_id`, `bg_id`, `eg_id` as in `groupingFns` (`groupings.create_groupings()`) -/
private def fFg : Fn :=
  { name := "fg_id", args := ["p_id", "hh_id", "alter", "p_id_einstandspartner", "p_id_elternteil_1",
      "p_id_elternteil_2"], ann := some .int, kind := .grouping .fg }
private def fBg : Fn :=
  { name := "bg_id", args := ["fg_id", "alter", "eigenbedarf_gedeckt"], ann := some .int, kind := .grouping .bg }
private def fEg : Fn :=
  { name := "eg_id", args := ["p_id", "p_id_einstandspartner"], ann := some .int, kind := .grouping .eg }
private def fIncFg : Fn :=
  { name := "inc_fg", args := ["inc", "fg_id"], ann := some .float, kind := .groupAgg .sum (some "inc") "fg_id" }
private def fAnzBg : Fn :=
  { name := "anz_bg", args := ["bg_id"], ann := some .int, kind := .groupAgg .count none "bg_id" }
private def fIncEg : Fn :=
  { name := "inc_eg", args := ["inc", "eg_id"], ann := some .float, kind := .groupAgg .max (some "inc") "eg_id" }
private def fTotal : Fn :=
  { name := "total", args := ["inc_fg", "anz_bg"], ann := some .float, kind := .rule fTot (some .float) none }
private def fnsI : List Fn := [fFg, fBg, fEg, fIncFg, fAnzBg, fIncEg, fTotal]
private def DI : Dag.Data Col :=
  [("p_id", cPid), ("hh_id", cHh), ("alter", cAlter), ("p_id_einstandspartner", cPartner),
   ("p_id_elternteil_1", cE1), ("p_id_elternteil_2", cE2), ("eigenbedarf_gedeckt", cEigen), ("inc", cInc)]
private def isIdI (x : String) : Bool := x == "eg_id" || x == "fg_id" || x == "bg_id"

example : (groupingFns.map (·.name)).filter (fun x => (fnsI.map (·.name)).contains x) =
    ["fg_id", "bg_id", "eg_id"] := by decide +kernel
/-- the two runs: ids numbered differently, same partitions; the values agree up to the permutation -/
example : Dag.eval (sysOf [] [] fnsI) DI 5 "fg_id" = .ok cFg ∧
    Dag.eval (sysOf [] [] fnsI) (permData σ4 DI) 5 "fg_id" = .ok cFg' ∧
    Dag.eval (sysOf [] [] fnsI) DI 5 "bg_id" = .ok cBg ∧
    Dag.eval (sysOf [] [] fnsI) (permData σ4 DI) 5 "bg_id" = .ok cBg' ∧
    Dag.eval (sysOf [] [] fnsI) DI 5 "total" =
      .ok { dt := .float, vals := [.f 152, .f 151, .f 152, .f 31] } ∧
    Dag.eval (sysOf [] [] fnsI) (permData σ4 DI) 5 "total" =
      .ok { dt := .float, vals := [.f 31, .f 151, .f 152, .f 152] } ∧
    Dag.eval (sysOf [] [] fnsI) (permData σ4 DI) 5 "inc_eg" =
      .ok { dt := .float, vals := [.f 30, .f 0, .f 100, .f 100] } := by decide +kernel



private theorem fnsI_good : ∀ f ∈ fnsI, pi_GoodFn [] isIdI (sysOf [] [] fnsI) DI f := by
  intro f hf
  simp only [fnsI, List.mem_cons, List.not_mem_nil, or_false] at hf
  rcases hf with rfl | rfl | rfl | rfl | rfl | rfl | rfl
  · refine ⟨by decide +kernel, pi_idx_of_zipIdx (by decide +kernel), fun k args hargs => ?_⟩
    have h0 : Dag.evalAll (Dag.eval (sysOf [] [] fnsI) DI 5) (freeArgs [] fFg) = .ok fgCols := by
      decide +kernel
    rw [pi_evalAll_det _ _ h0 hargs]
    exact ⟨validFg, fun h => by cases h⟩
  · refine ⟨by decide +kernel, pi_idx_of_zipIdx (by decide +kernel), fun k args hargs => ?_⟩
    have h0 : Dag.evalAll (Dag.eval (sysOf [] [] fnsI) DI 5) (freeArgs [] fBg) =
        .ok [cFg, cAlter, cEigen] := by decide +kernel
    rw [pi_evalAll_det _ _ h0 hargs]
    refine ⟨validBg, fun _ c hc => ?_⟩
    cases hc
    decide +kernel
  · refine ⟨by decide +kernel, pi_idx_of_zipIdx (by decide +kernel), fun k args hargs => ?_⟩
    have h0 : Dag.evalAll (Dag.eval (sysOf [] [] fnsI) DI 5) (freeArgs [] fEg) =
        .ok [cPid, cPartner] := by decide +kernel
    rw [pi_evalAll_det _ _ h0 hargs]
    exact ⟨validEg, fun h => by cases h⟩
  · exact ⟨by decide +kernel, pi_idx_of_zipIdx (by decide +kernel)⟩
  · exact ⟨by decide +kernel, pi_idx_of_zipIdx (by decide +kernel)⟩
  · exact ⟨by decide +kernel, pi_idx_of_zipIdx (by decide +kernel)⟩
  · exact ⟨rfl, by decide +kernel, by decide +kernel, fun h => by cases h⟩

example : ColsOK 4 (DI.map (·.2)) ∧ ∀ p ∈ DI, isIdI p.1 = false := by decide +kernel

/-- all hypotheses of the lift hold together: the permuted run computes `bg_id` with the same
partition and `total` with the same (permuted) values -/
example : ∃ v', Dag.eval (sysOf [] [] fnsI) (permData σ4 DI) 5 "bg_id" = .ok v' ∧
    IdRel σ4 isIdI "bg_id" cBg v' :=
  sys_eval_perm_ids (n := 4) (by decide) [] [] fnsI isIdI DI fnsI_good (by decide) (by decide +kernel)
    5 "bg_id" cBg (by decide +kernel)
example : Dag.eval (sysOf [] [] fnsI) (permData σ4 DI) 5 "total" =
    .ok (Col.permute σ4 { dt := .float, vals := [.f 152, .f 151, .f 152, .f 31] }) :=
  sys_eval_perm_ids_value (n := 4) (by decide) [] [] fnsI isIdI DI fnsI_good (by decide)
    (by decide +kernel) 5 "total" _ (by decide +kernel) (by decide +kernel)

end GV.Simulate
