import GettsimVerif.Lemmas.ParamsByDate
/-
Property C07: the parameter loader (`_load_parameter_group_from_yaml`,
`_load_rounding_parameters`, `set_up_policy_environment`) and the selection of time-dependent
functions (`load_functions_for_date`) are piecewise constant in the date: the result only
changes at entry dates (and at the probe dates derived from them).

Vocabulary (defined in `Lemmas/ParamsByDate.lean`):
* `entryDates y`, `allEntryDates raw` : every `Key.d o` key at any depth of a tree / of all files;
* `sameCutAt E d d'`  : `∀ e ∈ E, (e ≤ d ↔ e ≤ d')`;
* `Similar E n d d'`  : `d`, `d'` agree on every probe the loader makes within `n` levels of
  recursion (cut w.r.t. `E`, the test `jan1 date = date`, recursively `subYear`, `jan1`);
* `NoDatum raw`       : no group has a top-level key `datum`;
* `stripDatum`, `stripEnv` : remove the `datum` entry of a loaded group / of every group;
* `RegOK reg`         : entries at different positions are `compatible` (`RegOK_iff`);
* `nameOf e`, `inclAt e d` : DAG name of a registry entry / entry selected at `d`.
-/
namespace GV.Params
open GV.Yaml GV.Dates

/-! ## 1./2. the entry in force -/

/-- C07.1a `latest` returns the greatest entry date `≤ d`. -/
theorem latest_spec (dates : List Int) (d e : Int) :
    latest dates d = some e ↔ e ∈ dates ∧ e ≤ d ∧ ∀ e' ∈ dates, e' ≤ d → e' ≤ e :=
  latest_eq_some_iff dates d e

/-- C07.1b `latest` is `none` exactly if every entry date lies after `d`. -/
theorem latest_none_iff (dates : List Int) (d : Int) :
    latest dates d = none ↔ ∀ e ∈ dates, d < e :=
  latest_eq_none_iff dates d

/-- C07.1c No entry date lies strictly between the selected entry and `d`. -/
theorem latest_no_entry_between (dates : List Int) (d e : Int) (h : latest dates d = some e) :
    ¬ ∃ e' ∈ dates, e < e' ∧ e' ≤ d :=
  latest_no_entry_between_aux dates d e h

/-- C07.2a `latest` depends on `d` only through the cut `{e ∈ dates | e ≤ d}`. -/
theorem latest_congr (dates : List Int) (d d' : Int) (h : ∀ e ∈ dates, (e ≤ d ↔ e ≤ d')) :
    latest dates d = latest dates d' :=
  latest_congr_iff dates d d' h

/-- C07.2b The selected entry does not change between consecutive change dates. -/
theorem latest_stable_between (dates : List Int) (d d' e : Int) (h : latest dates d = some e)
    (hdd : d ≤ d') (hno : ∀ e' ∈ dates, ¬ (d < e' ∧ e' ≤ d')) : latest dates d' = some e :=
  latest_stable_between_aux dates d d' e h hdd hno

example : latest [10, 30, 20] 25 = some 20 := by decide +kernel
example : latest [10, 30, 20] 5 = none := by decide +kernel
example : ∀ e' ∈ [10, 30, 20], ¬ ((25 : Int) < e' ∧ e' ≤ 29) := by decide

/-! ## 5. the registration-time conflict test -/

/-- C07.5 For non-empty intervals the conflict test is exactly "the closed intervals intersect". -/
theorem conflictTest_iff_overlap (s e fs fe : Int) (h1 : s ≤ e) (h2 : fs ≤ fe) :
    conflictTest s e fs fe = true ↔ max s fs ≤ min e fe :=
  conflictTest_iff_overlap_aux s e fs fe h1 h2

/-- C07.5' The same with an explicit common point. -/
theorem conflictTest_iff_common_point (s e fs fe : Int) (h1 : s ≤ e) (h2 : fs ≤ fe) :
    conflictTest s e fs fe = true ↔ ∃ x, s ≤ x ∧ x ≤ e ∧ fs ≤ x ∧ x ≤ fe :=
  conflictTest_iff_exists s e fs fe h1 h2

example : conflictTest 1 5 5 9 = true ∧ conflictTest 1 5 6 9 = false := by decide

/-! ## 6./7. `load_functions_for_date` -/

/-- C07.6a Meaning of the decidable registry check: entries at different positions are
`compatible`, i.e. have different DAG names (`dagName` for time-dependent entries, `fname`
otherwise) or are both time-dependent with disjoint `[start, stop]`. -/
theorem RegOK_iff_pairwise (reg : List FnEntry) :
    RegOK reg = true ↔ reg.Pairwise (fun a b => compatible a b = true) :=
  RegOK_iff reg

/-- C07.6b For a well-formed registry, `functionsFor reg d` contains `(name, e)` iff `e` is a
registry entry that is either time-dependent, named `name` in the DAG and active at `d`, or
not time-dependent and called `name`. -/
theorem functionsFor_spec (reg : List FnEntry) (h : RegOK reg = true) (d : Int) (name : String)
    (e : FnEntry) :
    (name, e) ∈ functionsFor reg d ↔
      e ∈ reg ∧ ((e.timeDependent = true ∧ e.dagName = name ∧ e.start ≤ d ∧ d ≤ e.stop) ∨
                 (e.timeDependent = false ∧ e.fname = name)) := by
  rw [(functionsFor_inv reg h d).2 name e]
  unfold inclAt activeAt nameOf
  cases e.timeDependent
  · simp only [Bool.false_eq_true, if_false, Bool.not_false, Bool.true_or, true_and, false_and,
      false_or]
  · simp only [if_true, Bool.not_true, Bool.false_or, Bool.and_eq_true, decide_eq_true_eq,
      true_and, Bool.true_eq_false, false_and, or_false]
    constructor
    · rintro ⟨h1, ⟨h2, h3⟩, h4⟩; exact ⟨h1, h4, h2, h3⟩
    · rintro ⟨h1, h4, h2, h3⟩; exact ⟨h1, ⟨h2, h3⟩, h4⟩

/-- C07.6c Each name occurs at most once in the result (for any registry). -/
theorem active_unique (reg : List FnEntry) (d : Int) :
    ((functionsFor reg d).map (·.1)).Nodup ∧
    ∀ name e₁ e₂, (name, e₁) ∈ functionsFor reg d → (name, e₂) ∈ functionsFor reg d → e₁ = e₂ :=
  ⟨functionsFor_names_nodup reg d,
   fun name e₁ e₂ h1 h2 => assoc_unique _ (functionsFor_names_nodup reg d) name e₁ e₂ h1 h2⟩

/-- C07.7 The selection depends on `d` only through its position relative to the `start` and
`stop` dates of the registry. -/
theorem functionsFor_cut (reg : List FnEntry) (d d' : Int)
    (h : ∀ e ∈ reg, (e.start ≤ d ↔ e.start ≤ d') ∧ (d ≤ e.stop ↔ d' ≤ e.stop)) :
    functionsFor reg d = functionsFor reg d' := by
  apply functionsFor_congr
  intro e he
  unfold activeAt
  rw [decide_eq_decide.2 (h e he).1, decide_eq_decide.2 (h e he).2]

/-- a small registry: one plain function, one name with two consecutive implementations -/
def exReg : List FnEntry :=
  [⟨"m", "f", "f", false, 1, 3652059⟩,
   ⟨"m", "g_bis_2010", "g", true, 1, 733772⟩,
   ⟨"m", "g_ab_2011", "g", true, 733773, 3652059⟩]

example : RegOK exReg = true := by decide +kernel
example : (functionsFor exReg 733000).map (fun ne => (ne.1, ne.2.fname)) =
    [("f", "f"), ("g", "g_bis_2010")] := by decide +kernel
example : (functionsFor exReg 734000).map (fun ne => (ne.1, ne.2.fname)) =
    [("f", "f"), ("g", "g_ab_2011")] := by decide +kernel
example : ∀ e ∈ exReg, (e.start ≤ 733000 ↔ e.start ≤ 733500) ∧ (733000 ≤ e.stop ↔ 733500 ≤ e.stop) := by
  decide +kernel
/-- `RegOK` rejects overlapping implementations of the same DAG name. -/
example : RegOK [⟨"m", "g1", "g", true, 1, 100⟩, ⟨"m", "g2", "g", true, 100, 200⟩] = false := by
  decide +kernel

/-! ## 3. the cut theorem for the parameter loader -/

/-- C07.3a `Similar` is monotone in the recursion depth. -/
theorem Similar_mono' (E : List Int) (n : Nat) (d d' : Int) (h : Similar E (n + 1) d d') :
    Similar E n d d' :=
  Similar_mono E n d d' h

/-- C07.3b The rounding parameters depend on the date only through the cut w.r.t. the entry
dates of the rounding block. -/
theorem loadRounding_cut (copied : List String) (spec : Y) (d d' : Int)
    (h : sameCutAt (entryDates spec) d d') :
    loadRounding copied d spec = loadRounding copied d' spec :=
  loadRounding_congr copied spec d d' h

/-- C07.3 THE CUT THEOREM. If `d` and `d'` agree on every probe the loader makes within `fuel`
levels of recursion (`Similar`), then loading any group (all or selected parameters) gives the
same result - same error, or the same key-value list - except for the `datum` entry.
`NoDatum raw` (no YAML parameter is itself called `datum`) is necessary: the recursive
look-ups `tmp[param]` of such a parameter would return the stored date. -/
theorem loadGroup_cut (copied : List String) (raw : Raw) (hnd : NoDatum raw = true) (fuel : Nat)
    (d d' : Int) (h : Similar (allEntryDates raw) fuel d d') (g : String)
    (ps : Option (List String)) :
    (loadGroup copied raw fuel d g ps).map stripDatum =
      (loadGroup copied raw fuel d' g ps).map stripDatum :=
  (loadGroup_cut_aux copied raw hnd fuel d d' h g ps).eqUpToDatum

/-- C07.3' Sharper form: same error, or the two lists agree entry by entry (`DatumEq`: equal
entries, or both `datum ↦ date`). -/
theorem loadGroup_cut_entrywise (copied : List String) (raw : Raw) (hnd : NoDatum raw = true)
    (fuel : Nat) (d d' : Int) (h : Similar (allEntryDates raw) fuel d d') (g : String)
    (ps : Option (List String)) :
    ERel DatumEq (loadGroup copied raw fuel d g ps) (loadGroup copied raw fuel d' g ps) :=
  loadGroup_cut_aux copied raw hnd fuel d d' h g ps

/-! ## 4. the environment -/

/-- C07.4a First stage of `set_up_policy_environment` (load + parse every group). -/
theorem envLoad_cut' (copied : List String) (groups : List String) (raw : Raw)
    (hnd : NoDatum raw = true) (fuel : Nat) (d d' : Int)
    (h : Similar (allEntryDates raw) fuel d d') :
    (envLoad copied groups raw fuel d).map stripEnvL =
      (envLoad copied groups raw fuel d').map stripEnvL :=
  envLoad_cut copied groups raw hnd fuel d d' h

/-- C07.4 The whole parameter environment (including the three year-derived values) is the same
for `Similar` dates of the same calendar year, except for the `datum` entry of every group. -/
theorem env_cut (copied : List String) (groups : List String) (raw : Raw)
    (hnd : NoDatum raw = true) (fuel : Nat) (d d' : Int)
    (h : Similar (allEntryDates raw) fuel d d') (hy : year d = year d') :
    (env copied groups raw fuel d).map stripEnv = (env copied groups raw fuel d').map stripEnv :=
  env_cut_aux copied groups raw hnd fuel d d' h hy

/-! ### non-vacuity: a concrete two-file parameter set -/

/-- group `ga`: parameter `p1` with three entries (two `deviation_from: previous`) and
`access_different_date: vorjahr`, plus a rounding block; group `gb`: `p2` (scalar, `inf`,
`jahresanfang`) and `p3` deviating from `ga.p1`. -/
def exRaw : Raw :=
  [("ga", .dict [
      (.s "p1", .dict [
        (.s "access_different_date", .str "vorjahr"),
        (.d (ofYMD 2004 1 1), .dict [(.s "a", .num 1), (.s "b", .num 2)]),
        (.d (ofYMD 2005 1 1), .dict [(.s "deviation_from", .str "previous"), (.s "b", .num 3)]),
        (.d (ofYMD 2007 7 1), .dict [(.s "deviation_from", .str "previous"), (.s "a", .num 5)])]),
      (.s "rounding", .dict [
        (.s "fn1", .dict [
          (.d (ofYMD 2004 1 1), .dict [(.s "base", .num 1), (.s "direction", .str "up"),
                                       (.s "note", .str "x")]),
          (.d (ofYMD 2007 7 1), .dict [(.s "base", .num 5), (.s "direction", .str "down")])])])]),
   ("gb", .dict [
      (.s "p2", .dict [
        (.s "access_different_date", .str "jahresanfang"),
        (.d (ofYMD 2004 6 1), .dict [(.s "scalar", .num 7)]),
        (.d (ofYMD 2006 6 1), .dict [(.s "scalar", .str "inf")])]),
      (.s "p3", .dict [
        (.d (ofYMD 2004 1 1), .dict [(.s "deviation_from", .str "ga.p1"), (.s "a", .num 9)])])])]

def exCopied : List String := ["base", "direction"]
/-- 2006-03-15 and 2006-05-20 lie in the same cell, 2006-09-20 does not (`gb.p2` changes on
2006-06-01). -/
def exD : Int := ofYMD 2006 3 15
def exD' : Int := ofYMD 2006 5 20
def exD'' : Int := ofYMD 2006 9 20

example : allEntryDates exRaw =
    [731581, 731947, 732858, 731581, 732858, 731733, 732463, 731581] := by decide +kernel
example : NoDatum exRaw = true := by decide +kernel
example : Similar (allEntryDates exRaw) 6 exD exD' := by decide +kernel
example : ¬ Similar (allEntryDates exRaw) 6 exD exD'' := by decide +kernel
example : year exD = year exD' := by decide +kernel

def exGa (datum : Int) : List (Key × Y) :=
  [(.s "p1", .dict [(.s "a", .num 1), (.s "b", .num 3)]),
   (.s "p1_vorjahr", .dict [(.s "a", .num 1), (.s "b", .num 3)]),
   (.s "datum", .date datum),
   (.s "rounding", .dict [(.s "fn1", .dict [(.s "base", .num 1), (.s "direction", .str "up")])])]

/-- `String.splitOn` (used for `deviation_from: ga.p1`) does not reduce in the kernel, so the
kernel-checked examples for `gb` select `p2` only; `#eval loadGroup exCopied exRaw 6 exD "gb" none`
additionally yields `p3 ↦ {a: 9, b: 3}`. -/
def exGb (p2 : Y) (datum : Int) : List (Key × Y) :=
  [(.s "p2", p2), (.s "p2_jahresanfang", .num 7), (.s "datum", .date datum)]

example : okKV (loadGroup exCopied exRaw 6 exD "ga" none) (exGa exD) = true := by decide +kernel
example : okKV (loadGroup exCopied exRaw 6 exD' "ga" none) (exGa exD') = true := by decide +kernel
example : okKV (loadGroup exCopied exRaw 6 exD "gb" (some ["p2"])) (exGb (.num 7) exD) = true := by
  decide +kernel
example : okKV (loadGroup exCopied exRaw 6 exD' "gb" (some ["p2"])) (exGb (.num 7) exD') = true := by
  decide +kernel
/-- outside the cell the value differs -/
example : okKV (loadGroup exCopied exRaw 6 exD'' "gb" (some ["p2"])) (exGb .pinf exD'') = true := by
  decide +kernel
/-- too little fuel is an error on both sides (covered by the theorem as well) -/
example : (match loadGroup exCopied exRaw 3 exD "ga" none with | .error .other => true | _ => false)
    = true := by decide +kernel

/-! ## 8. calendar (checked by computation on a window) -/

/-- C07.8 For every first-of-month, last day of February and 31 December of the years 1980-2035:
`toYMD (ofYMD y m d) = (y, m, d)`, `jan1 o ≤ o`, `jan1 (jan1 o) = jan1 o`, `jan1 o` is 1 January
of the same year, `subYear o < o`, and `subYear o` is the same month/day one year earlier
(29 Feb ↦ 28 Feb). (General proofs over all ordinals are not provided.) -/
theorem calendar_window_ok :
    ((List.range 56).all fun (i : Nat) => (calDatesOfYear (1980 + (i : Int))).all calCheck) = true := by
  decide +kernel

/-- the ordinals of the window 1900-01-01 .. 2100-01-01 and the checks on its boundaries -/
example : ofYMD 1900 1 1 = 693596 ∧ ofYMD 2100 1 1 = 766645 ∧
    calCheck (1900, 1, 1) = true ∧ calCheck (2100, 1, 1) = true ∧ calCheck (2000, 2, 29) = true := by
  decide +kernel

end GV.Params
