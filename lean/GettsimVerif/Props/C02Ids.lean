import GettsimVerif.Lemmas.SimUnionIds
import GettsimVerif.Props.C01Ids
import GettsimVerif.Props.C02Sim
/-
Property C02 (separability) for the DERIVED GROUP IDENTIFIERS of the executable model
`Core/Simulate.lean` of `compute_taxes_and_transfers`: if the persons of `A` (the first `nA` rows)
are simulated together with other households `B` (the remaining `nB` rows), the group ids that
`groupings.py` COMPUTES for the `A`-rows may in principle be other numbers than those computed on `A`
alone, but they induce the same partition of the `A`-persons, they never coincide with an id of a
`B`-row, and hence every grouped aggregate over them is the same for `A` alone and for `A` inside
`A ++ B`.

Vocabulary (`Lemmas/SimUnion.lean`, `Lemmas/SimPermIds.lean`, `Lemmas/SimUnionIds.lean`):
* `Col.takeRows nA c`     : the first `nA` rows of a column (a scalar is unchanged);
* `Col.SamePart c c'`     : same dtype, same shape, and the id lists induce the same partition;
* `un_IdsSep nA l`        : no value of the first `nA` entries of `l` occurs among the others;
* `pi_Valid g cols`       : the validity hypothesis of the partition specification of constructor `g`;
* `ui_Sep g nA cols`      : the separation hypothesis of the union theorem of `g` in
  `Props/C12Cor.lean`, on the row lists built from the columns:
  - `eg`, `ehe`: `PairClosed A B` (no pointer of an `A`-row is the p_id of a `B`-row),
  - `sn`: `SnClosed A B`,
  - `fg`: `FgSeparated A B` (no partner / parent pointer crosses between `A` and `B`),
  - `bg`: `un_IdsSep nA fg_id` (no fg id of `A` occurs in `B`),
  - `wthh`: `un_IdsSep nA hh_id` (no household id of `A` occurs in `B`).
-/
namespace GV.Simulate
open GV.VecDtype (R DT)
open GV.Lang (Val FunDef)
open GV.Groupings

/-! ## 1. the id constructors on `A ++ B` and on `A` alone -/

/-- C02-Ids.1 For every id constructor `g` of `groupings.py` (`eg_id`, `ehe_id`, `sn_id`, the repaired
`fg_id`, `bg_id`, `wthh_id`): if the call succeeds on valid input columns with `nA + nB` rows in which
the first `nA` rows are separated from the others (`ui_Sep`), then the call on the first `nA` rows
alone succeeds, its result induces the same partition as the first `nA` rows of the joint result,
no id given to one of the first `nA` rows in the joint result is given to one of the other rows,
the restricted inputs are again valid, and for `bg_id` and `wthh_id` the result on `A` alone IS the
restriction of the joint result. -/
theorem groupingOp_union {nA nB : Nat} (g : Grouping) (cols : List Col) (out : Col)
    (hcols : ColsOK (nA + nB) cols) (hv : pi_Valid g cols) (hsep : ui_Sep g nA cols)
    (h : groupingOp g cols = .ok out) :
    ∃ outA, groupingOp g (cols.map (Col.takeRows nA)) = .ok outA ∧
      Col.SamePart (out.takeRows nA) outA ∧ un_IdsSep nA out.ints ∧
      pi_Valid g (cols.map (Col.takeRows nA)) ∧
      ((g = .bg ∨ g = .wthh) → outA = out.takeRows nA) :=
  ui_groupingOp_union g hcols hv hsep h

/-- C02-Ids.1a The form "simulated alone or together": whatever the constructor returns on the
persons of `A` alone has the same partition as the restriction of what it returns on `A ++ B`. -/
theorem groupingOp_union_both {nA nB : Nat} (g : Grouping) (cols : List Col) (out outA : Col)
    (hcols : ColsOK (nA + nB) cols) (hv : pi_Valid g cols) (hsep : ui_Sep g nA cols)
    (h : groupingOp g cols = .ok out)
    (hA : groupingOp g (cols.map (Col.takeRows nA)) = .ok outA) :
    Col.SamePart (out.takeRows nA) outA := by
  obtain ⟨o, h1, h2, _⟩ := ui_groupingOp_union g hcols hv hsep h
  rw [hA] at h1
  cases h1
  exact h2

/-- C02-Ids.1b `bg_id` (with `A` first: the scan has not seen `B` yet) and `wthh_id` (computed row
by row) return on `A` alone EXACTLY the `A`-rows of the joint result. -/
theorem groupingOp_union_exact {nA nB : Nat} (g : Grouping) (hg : g = .bg ∨ g = .wthh)
    (cols : List Col) (out : Col) (hcols : ColsOK (nA + nB) cols) (hv : pi_Valid g cols)
    (hsep : ui_Sep g nA cols) (h : groupingOp g cols = .ok out) :
    groupingOp g (cols.map (Col.takeRows nA)) = .ok (out.takeRows nA) := by
  obtain ⟨o, h1, _, _, _, h5⟩ := ui_groupingOp_union g hcols hv hsep h
  rw [h1, h5 hg]

/-- C02-Ids.1c The ids computed on the joint table for the rows of `A` and for the rows of `B` are
different: for `eg_id`, `ehe_id`, `sn_id`, `fg_id` because a person of `A` and a person of `B` are
never partners / one family; for `bg_id = fg_id * 100 + k` and `wthh_id = hh_id * 100 + flag`
because the fg ids resp. household ids of `A` and `B` are different (and `k < 100`). This is the
hypothesis `un_IdsSep` of `groupAggOp_union` for a COMPUTED id column. -/
theorem groupingOp_union_idsSep {nA nB : Nat} (g : Grouping) (cols : List Col) (out : Col)
    (hcols : ColsOK (nA + nB) cols) (hv : pi_Valid g cols) (hsep : ui_Sep g nA cols)
    (h : groupingOp g cols = .ok out) : un_IdsSep nA out.ints := by
  obtain ⟨_, _, _, h3, _⟩ := ui_groupingOp_union g hcols hv hsep h
  exact h3

/-! ## 2. grouped aggregates over a computed id column -/

/-- C02-Ids.2 `grouped_sum/mean/max/min/any/all(col, group_id)` on a table with `nA + nB` rows: if
the joint id column `gid` gives the first `nA` rows no id of the other rows, and `gidA` is ANY id
column on the first `nA` rows that induces the same partition as the restriction of `gid` (all ids
non-negative), then the aggregation on the first `nA` rows with `gidA` returns the first `nA` rows
of the joint result. -/
theorem groupAggOp_union_partition {nA nB : Nat} (a : Aggr) (col gid gidA out : Col)
    (hcols : ColsOK (nA + nB) [col, gid]) (hsep : un_IdsSep nA gid.ints)
    (hpart : Col.SamePart (gid.takeRows nA) gidA) (hn : ∀ g ∈ gid.ints, 0 ≤ g)
    (hnA : ∀ g ∈ gidA.ints, 0 ≤ g) (h : groupAggOp a [col, gid] = .ok out) :
    groupAggOp a [col.takeRows nA, gidA] = .ok (out.takeRows nA) := by
  rw [← groupAggOp_partition_congr a _ _ _ hpart (ui_nonneg_takeRows hn) hnA]
  exact (groupAggOp_union a col gid out hcols hsep h).1

/-- C02-Ids.2a … and for `grouped_count(group_id)`. -/
theorem groupAggOp_count_union_partition {nA nB : Nat} (a : Aggr) (gid gidA out : Col)
    (hcols : ColsOK (nA + nB) [gid]) (hsep : un_IdsSep nA gid.ints)
    (hpart : Col.SamePart (gid.takeRows nA) gidA) (hn : ∀ g ∈ gid.ints, 0 ≤ g)
    (hnA : ∀ g ∈ gidA.ints, 0 ≤ g) (h : groupAggOp a [gid] = .ok out) :
    groupAggOp a [gidA] = .ok (out.takeRows nA) := by
  rw [← groupAggOp_count_partition_congr a _ _ hpart (ui_nonneg_takeRows hn) hnA]
  exact (groupAggOp_count_union a gid out hcols hsep h).1

/-- C02-Ids.2b End to end for `eg_id`, `ehe_id`, `sn_id`, `fg_id`: compute the ids with the
constructor and aggregate a column over them. If both steps succeed on the joint table (valid and
separated inputs), both succeed on the first `nA` rows alone — with possibly different id numbers —
and the aggregate on `A` alone is the restriction of the joint aggregate. -/
theorem groupAggOp_grouping_union {nA nB : Nat} (g : Grouping)
    (hg : g = .eg ∨ g = .ehe ∨ g = .sn ∨ g = .fg) (a : Aggr) (cols : List Col) (col gid out : Col)
    (hcols : ColsOK (nA + nB) cols) (hcol : ColOK (nA + nB) col) (hv : pi_Valid g cols)
    (hsep : ui_Sep g nA cols) (hgid : groupingOp g cols = .ok gid)
    (h : groupAggOp a [col, gid] = .ok out) :
    ∃ gidA, groupingOp g (cols.map (Col.takeRows nA)) = .ok gidA ∧
      groupAggOp a [col.takeRows nA, gidA] = .ok (out.takeRows nA) := by
  obtain ⟨gidA, h1, hsp, hids, hvA, _⟩ := ui_groupingOp_union g hcols hv hsep hgid
  obtain ⟨_, _, _, hok⟩ := groupingOp_perm (List.Perm.refl (List.range (nA + nB))) g cols gid hcols
    hv hgid
  have hc2 : ColsOK (nA + nB) [col, gid] := by
    intro c hc
    simp only [List.mem_cons, List.not_mem_nil, or_false] at hc
    rcases hc with rfl | rfl
    · exact hcol
    · exact hok
  exact ⟨gidA, h1, groupAggOp_union_partition a col gid gidA out hc2 hids hsp
    (groupingOp_nonneg g hg cols gid hcols hv hgid)
    (groupingOp_nonneg g hg _ gidA (ui_colsOK_take hcols) hvA h1) h⟩

/-- C02-Ids.2c End to end for `bg_id` and `wthh_id`: the ids on `A` alone are the restriction of the
joint ids, and so is every aggregate over them. -/
theorem groupAggOp_grouping_union_exact {nA nB : Nat} (g : Grouping) (hg : g = .bg ∨ g = .wthh)
    (a : Aggr) (cols : List Col) (col gid out : Col)
    (hcols : ColsOK (nA + nB) cols) (hcol : ColOK (nA + nB) col) (hv : pi_Valid g cols)
    (hsep : ui_Sep g nA cols) (hgid : groupingOp g cols = .ok gid)
    (h : groupAggOp a [col, gid] = .ok out) :
    groupingOp g (cols.map (Col.takeRows nA)) = .ok (gid.takeRows nA) ∧
      groupAggOp a [col.takeRows nA, gid.takeRows nA] = .ok (out.takeRows nA) := by
  obtain ⟨_, _, _, hok⟩ := groupingOp_perm (List.Perm.refl (List.range (nA + nB))) g cols gid hcols
    hv hgid
  have hc2 : ColsOK (nA + nB) [col, gid] := by
    intro c hc
    simp only [List.mem_cons, List.not_mem_nil, or_false] at hc
    rcases hc with rfl | rfl
    · exact hcol
    · exact hok
  exact ⟨groupingOp_union_exact g hg cols gid hcols hv hsep hgid,
    (groupAggOp_union a col gid out hc2 (groupingOp_union_idsSep g cols gid hcols hv hsep hgid) h).1⟩

/-- C02-Ids.2d `bg_id` on top of a COMPUTED `fg_id` (the step needed inside a run): on the joint
table `bg_id` is computed from the joint fg ids `fg` (no fg id of `A` occurring in `B`, which is
C02-Ids.1c for `fg_id`); in the run on `A` alone it is computed from fg ids `fgA` that only induce
the same partition as the restriction of `fg` (C02-Ids.1 for `fg_id`). Then `bg_id` on `A` alone
succeeds and induces the same partition as the restriction of the joint `bg_id`, and the joint bg
ids of `A` and `B` are different. -/
theorem groupingOp_bg_union_congr {nA nB : Nat} (fg fgA alter eigen out : Col)
    (hcols : ColsOK (nA + nB) [fg, alter, eigen]) (hv : pi_ValidBg [fg, alter, eigen])
    (hsep : un_IdsSep nA fg.ints) (hfg : Col.SamePart (fg.takeRows nA) fgA)
    (hchk : pi_colChk fgA = false) (h : groupingOp .bg [fg, alter, eigen] = .ok out) :
    ∃ outA, groupingOp .bg [fgA, alter.takeRows nA, eigen.takeRows nA] = .ok outA ∧
      Col.SamePart (out.takeRows nA) outA ∧ un_IdsSep nA out.ints := by
  obtain ⟨h1, h2, h3⟩ := ui_bg_union (nB := nB) hcols hv hsep h
  have hc := ui_colsOK_take (nA := nA) hcols
  simp only [List.map_cons, List.map_nil] at h1 h3 hc
  obtain ⟨outA, ho, hsp, _⟩ := groupingOp_bg_congr (n := nA) _ fgA _ _ _ hc h3 hfg hchk h1
  exact ⟨outA, ho, hsp, h2⟩

/-! ### non-vacuity: A = a couple (70, 3) with a child (12) in household 5 (sparse unsorted ids),
B = a single (41) in household 2 -/

private def cPid : Col := { dt := .int, vals := [.i 70, .i 12, .i 3, .i 41] }
private def cHh : Col := { dt := .int, vals := [.i 5, .i 5, .i 5, .i 2] }
private def cAlter : Col := { dt := .int, vals := [.i 40, .i 5, .i 38, .i 50] }
private def cPartner : Col := { dt := .int, vals := [.i 3, .i (-1), .i 70, .i (-1)] }
private def cE1 : Col := { dt := .int, vals := [.i (-1), .i 70, .i (-1), .i (-1)] }
private def cE2 : Col := { dt := .int, vals := [.i (-1), .i 3, .i (-1), .i (-1)] }
private def cEigen : Col := { dt := .bool, vals := [.b false, .b true, .b false, .b false] }
private def cInc : Col := { dt := .float, vals := [.f 100, .f 0, .f 50, .f 30] }
private def cGv : Col := { dt := .bool, vals := [.b true, .b false, .b true, .b false] }
private def cV1 : Col := { dt := .bool, vals := [.b false, .b false, .b false, .b true] }
private def fgCols : List Col := [cPid, cHh, cAlter, cPartner, cE1, cE2]
private def cEg : Col := { dt := .int, vals := [.i 0, .i 1, .i 0, .i 2] }
private def cFg : Col := { dt := .int, vals := [.i 0, .i 0, .i 0, .i 1] }
private def cBg : Col := { dt := .int, vals := [.i 0, .i 1, .i 0, .i 100] }

example : ColsOK (3 + 1) fgCols ∧ ColsOK (3 + 1) [cPid, cPartner] ∧ ColOK (3 + 1) cInc := by decide

/-- `fg_id`, `bg_id`, `eg_id` on `A ++ B`, restricted to `A`, have the same partition as on `A` alone;
the ids of `A` and `B` are different; the `sum` over `fg_id` agrees -/
example : groupingOp .fg fgCols = .ok cFg ∧
    groupingOp .fg (fgCols.map (Col.takeRows 3)) = .ok { dt := .int, vals := [.i 0, .i 0, .i 0] } ∧
    Col.SamePart (cFg.takeRows 3) { dt := .int, vals := [.i 0, .i 0, .i 0] } ∧
    un_IdsSep 3 cFg.ints := by decide +kernel
example : groupingOp .bg [cFg, cAlter, cEigen] = .ok cBg ∧
    groupingOp .bg ([cFg, cAlter, cEigen].map (Col.takeRows 3)) = .ok (cBg.takeRows 3) ∧
    Col.SamePart (cBg.takeRows 3) { dt := .int, vals := [.i 0, .i 1, .i 0] } ∧
    un_IdsSep 3 cBg.ints := by decide +kernel
example : groupingOp .eg [cPid, cPartner] = .ok cEg ∧
    groupingOp .eg ([cPid, cPartner].map (Col.takeRows 3)) = .ok { dt := .int, vals := [.i 0, .i 1, .i 0] } ∧
    Col.SamePart (cEg.takeRows 3) { dt := .int, vals := [.i 0, .i 1, .i 0] } ∧
    un_IdsSep 3 cEg.ints := by decide +kernel
example : groupAggOp .sum [cInc, cFg] = .ok { dt := .float, vals := [.f 150, .f 150, .f 150, .f 30] } ∧
    groupAggOp .sum [cInc.takeRows 3, { dt := .int, vals := [.i 0, .i 0, .i 0] }] =
      .ok (Col.takeRows 3 { dt := .float, vals := [.f 150, .f 150, .f 150, .f 30] }) := by
  decide +kernel
/-- an id column on `A` with other numbers but the same partition gives the same sums -/
example : groupAggOp .sum [cInc.takeRows 3, { dt := .int, vals := [.i 7, .i 7, .i 7] }] =
    .ok (Col.takeRows 3 { dt := .float, vals := [.f 150, .f 150, .f 150, .f 30] }) :=
  groupAggOp_union_partition (nA := 3) (nB := 1) .sum cInc cFg _ _ (by decide) (by decide +kernel)
    (by decide +kernel) (by decide +kernel) (by decide +kernel) (by decide +kernel)
example : groupAggOp .count [{ dt := .int, vals := [.i 7, .i 7, .i 7] }] =
    .ok (Col.takeRows 3 { dt := .float, vals := [.f 3, .f 3, .f 3, .f 1] }) :=
  groupAggOp_count_union_partition (nA := 3) (nB := 1) .count cFg _ _ (by decide) (by decide +kernel)
    (by decide +kernel) (by decide +kernel) (by decide +kernel) (by decide +kernel)

/-- the validity and separation hypotheses hold on the example -/
private theorem validEg : pi_Valid .eg [cPid, cPartner] :=
  ⟨by decide, by decide, ⟨by decide +kernel, by decide +kernel, by decide +kernel, by decide +kernel⟩⟩
private theorem sepEg : ui_Sep .eg 3 [cPid, cPartner] := by
  show PairClosed _ _
  decide +kernel
private theorem validFg : pi_Valid .fg fgCols :=
  ⟨by decide, by decide, by decide, by decide, by decide, by decide,
    ⟨by decide +kernel, by decide +kernel, by decide +kernel, by decide +kernel⟩,
    ⟨by decide +kernel, by decide +kernel⟩⟩
private theorem sepFg : ui_Sep .fg 3 fgCols :=
  ⟨by decide +kernel, by decide +kernel, by decide +kernel⟩
private theorem validBg : pi_Valid .bg [cFg, cAlter, cEigen] :=
  ⟨by decide, by decide, by decide, by decide +kernel⟩
private theorem sepBg : ui_Sep .bg 3 [cFg, cAlter, cEigen] := by
  show un_IdsSep 3 cFg.ints
  decide +kernel
private theorem validSn : pi_Valid .sn [cPid, cPartner, cGv] :=
  ⟨by decide, by decide, by decide,
    ⟨by decide +kernel, by decide +kernel, by decide +kernel, by decide +kernel⟩⟩
private theorem sepSn : ui_Sep .sn 3 [cPid, cPartner, cGv] := by
  show SnClosed _ _
  decide +kernel
private theorem sepWthh : ui_Sep .wthh 3 [cHh, cV1, cGv] := by
  show un_IdsSep 3 cHh.ints
  decide +kernel

/-- instances of the theorems: all hypotheses hold together -/
example : ∃ outA, groupingOp .fg (fgCols.map (Col.takeRows 3)) = .ok outA ∧
    Col.SamePart (cFg.takeRows 3) outA ∧ un_IdsSep 3 cFg.ints ∧
    pi_Valid .fg (fgCols.map (Col.takeRows 3)) ∧
    ((Grouping.fg = .bg ∨ Grouping.fg = .wthh) → outA = cFg.takeRows 3) :=
  groupingOp_union (nA := 3) (nB := 1) .fg fgCols cFg (by decide) validFg sepFg (by decide +kernel)
example : Col.SamePart (cEg.takeRows 3) { dt := .int, vals := [.i 0, .i 1, .i 0] } :=
  groupingOp_union_both (nA := 3) (nB := 1) .eg [cPid, cPartner] cEg _ (by decide) validEg sepEg
    (by decide +kernel) (by decide +kernel)
example : Col.SamePart (Col.takeRows 3 { dt := .int, vals := [.i 0, .i 1, .i 0, .i 2] })
    { dt := .int, vals := [.i 0, .i 1, .i 0] } :=
  groupingOp_union_both (nA := 3) (nB := 1) .sn [cPid, cPartner, cGv] _ _ (by decide) validSn sepSn
    (by decide +kernel) (by decide +kernel)
example : groupingOp .bg ([cFg, cAlter, cEigen].map (Col.takeRows 3)) = .ok (cBg.takeRows 3) :=
  groupingOp_union_exact (nA := 3) (nB := 1) .bg (Or.inl rfl) _ cBg (by decide) validBg sepBg
    (by decide +kernel)
example : groupingOp .wthh ([cHh, cV1, cGv].map (Col.takeRows 3)) =
    .ok (Col.takeRows 3 { dt := .int, vals := [.i 501, .i 500, .i 501, .i 201] }) :=
  groupingOp_union_exact (nA := 3) (nB := 1) .wthh (Or.inr rfl) _ _ (by decide)
    ⟨by decide, by decide, by decide⟩ sepWthh (by decide +kernel)
example : un_IdsSep 3 cBg.ints :=
  groupingOp_union_idsSep (nA := 3) (nB := 1) .bg _ cBg (by decide) validBg sepBg (by decide +kernel)
example : ∃ gidA, groupingOp .fg (fgCols.map (Col.takeRows 3)) = .ok gidA ∧
    groupAggOp .sum [cInc.takeRows 3, gidA] =
      .ok (Col.takeRows 3 { dt := .float, vals := [.f 150, .f 150, .f 150, .f 30] }) :=
  groupAggOp_grouping_union (nA := 3) (nB := 1) .fg (by simp) .sum fgCols cInc cFg _ (by decide)
    (by decide) validFg sepFg (by decide +kernel) (by decide +kernel)
example : groupingOp .bg ([cFg, cAlter, cEigen].map (Col.takeRows 3)) = .ok (cBg.takeRows 3) ∧
    groupAggOp .max [cInc.takeRows 3, cBg.takeRows 3] =
      .ok (Col.takeRows 3 { dt := .float, vals := [.f 100, .f 0, .f 100, .f 30] }) :=
  groupAggOp_grouping_union_exact (nA := 3) (nB := 1) .bg (Or.inl rfl) .max _ cInc cBg _ (by decide)
    (by decide) validBg sepBg (by decide +kernel) (by decide +kernel)

/-- `bg_id` on `A` alone from fg ids numbered differently (`7` instead of `0`) -/
example : ∃ outA, groupingOp .bg [{ dt := .int, vals := [.i 7, .i 7, .i 7] }, cAlter.takeRows 3,
      cEigen.takeRows 3] = .ok outA ∧ Col.SamePart (cBg.takeRows 3) outA ∧ un_IdsSep 3 cBg.ints :=
  groupingOp_bg_union_congr (nA := 3) (nB := 1) cFg _ cAlter cEigen cBg (by decide) validBg
    (by decide +kernel) (by decide +kernel) (by decide +kernel) (by decide +kernel)
example : groupingOp .bg [{ dt := .int, vals := [.i 7, .i 7, .i 7] }, cAlter.takeRows 3,
    cEigen.takeRows 3] = .ok { dt := .int, vals := [.i 700, .i 701, .i 700] } := by decide +kernel

/-- C02-Ids.1d WHY separation is needed for `fg_id` (`fg_union_needs_separation` on columns): G (50)
and her co-resident child P (20) form one family unit when simulated alone; together with P's baby
(a `B`-row whose parent pointer leads into `A`) P leaves G's family unit. -/
theorem groupingOp_union_needs_separation :
    let cols : List Col :=
      [{ dt := .int, vals := [.i 1, .i 2, .i 3] }, { dt := .int, vals := [.i 1, .i 1, .i 1] },
       { dt := .int, vals := [.i 50, .i 20, .i 0] }, { dt := .int, vals := [.i (-1), .i (-1), .i (-1)] },
       { dt := .int, vals := [.i (-1), .i 1, .i 2] }, { dt := .int, vals := [.i (-1), .i (-1), .i (-1)] }]
    groupingOp .fg cols = .ok { dt := .int, vals := [.i 0, .i 1, .i 1] } ∧
      groupingOp .fg (cols.map (Col.takeRows 2)) = .ok { dt := .int, vals := [.i 0, .i 0] } ∧
      ¬ Col.SamePart (Col.takeRows 2 { dt := .int, vals := [.i 0, .i 1, .i 1] })
        { dt := .int, vals := [.i 0, .i 0] } := by
  decide +kernel

/-! ## 3. lifting through the evaluation of the DAG -/

/-- C02-Ids.3 (the lift) Let the system be built (`sysOf`, as in `plan`) from functions that are id
constructors, grouped aggregations, vectorized rules with declared return type (with at least one
argument, or without any input node), time conversions or `sum_by_p_id`; let `isId` mark exactly the id constructors other than
`wthh_id` (no data column is marked); let every consumer of a marked node be a grouped aggregation
using it as LAST argument (the group id) or `bg_id` using it as FIRST argument (`fg_id`); and let, in
the run on the JOINT table `D` (`nA + nB` rows, the first `nA` = the persons of A), the validity and
separation hypotheses of every id constructor hold on its evaluated arguments, every unmarked group
id column separate A from the others, and `sum_by_p_id` pointers be closed on both parts
(`ui_GoodFn`). Then every node computed on the joint table is computed on the first `nA` rows alone
(same fuel), and the two values are related by `UnionIdRel`: marked nodes (computed group ids)
induce on A the same partition as the restriction of the joint ids (the numbers may differ), all
other nodes ARE the restriction of the joint value to the first `nA` rows. -/
theorem sys_eval_union_ids {nA nB : Nat} (params : List (String × Val))
    (specs : List (String × RSpec)) (fns : List Fn) (isId : String → Bool) (D : Dag.Data Col)
    (hfns : ∀ f ∈ fns, ui_GoodFn params isId (sysOf params specs fns) D nA f)
    (hD : ColsOK (nA + nB) (D.map (·.2))) (hDid : ∀ p ∈ D, isId p.1 = false)
    (fuel : Nat) (t : String) (v : Col)
    (h : Dag.eval (sysOf params specs fns) D fuel t = .ok v) :
    ∃ vA, Dag.eval (sysOf params specs fns) (un_takeData nA D) fuel t = .ok vA ∧
      UnionIdRel nA isId t v vA := by
  obtain ⟨vA, h1, h2⟩ := ui_sys_eval_union_ids params specs fns isId D hfns hD hDid fuel t v h
  exact ⟨vA, h1, h2.rel⟩

/-- C02-Ids.3a In particular every unmarked target (everything except the derived ids themselves)
computed for A alone is exactly the restriction of the joint result, although it may have been
computed THROUGH group ids that are numbered differently in the two runs. -/
theorem sys_eval_union_ids_value {nA nB : Nat} (params : List (String × Val))
    (specs : List (String × RSpec)) (fns : List Fn) (isId : String → Bool) (D : Dag.Data Col)
    (hfns : ∀ f ∈ fns, ui_GoodFn params isId (sysOf params specs fns) D nA f)
    (hD : ColsOK (nA + nB) (D.map (·.2))) (hDid : ∀ p ∈ D, isId p.1 = false)
    (fuel : Nat) (t : String) (v : Col) (ht : isId t = false)
    (h : Dag.eval (sysOf params specs fns) D fuel t = .ok v) :
    Dag.eval (sysOf params specs fns) (un_takeData nA D) fuel t = .ok (v.takeRows nA) := by
  obtain ⟨vA, h1, h2⟩ := ui_sys_eval_union_ids params specs fns isId D hfns hD hDid fuel t v h
  rw [h1, h2.unmarked ht]

/-- C02-Ids.3b The invariants carried by the lift: every evaluated node is a scalar or has
`nA + nB` rows; a marked node holds non-negative ids, and no id of the first `nA` rows occurs among
the remaining rows. -/
theorem sys_eval_union_ids_rows {nA nB : Nat} (params : List (String × Val))
    (specs : List (String × RSpec)) (fns : List Fn) (isId : String → Bool) (D : Dag.Data Col)
    (hfns : ∀ f ∈ fns, ui_GoodFn params isId (sysOf params specs fns) D nA f)
    (hD : ColsOK (nA + nB) (D.map (·.2))) (hDid : ∀ p ∈ D, isId p.1 = false)
    (fuel : Nat) (t : String) (v : Col)
    (h : Dag.eval (sysOf params specs fns) D fuel t = .ok v) :
    ColOK (nA + nB) v ∧ (isId t = true → (∀ x ∈ v.ints, 0 ≤ x) ∧ un_IdsSep nA v.ints) := by
  obtain ⟨vA, _, h2⟩ := ui_sys_eval_union_ids params specs fns isId D hfns hD hDid fuel t v h
  exact ⟨h2.1, fun hi => ⟨(h2.marked hi).2.1, (h2.marked hi).2.2.2.2⟩⟩

/-! ### non-vacuity: the family of the examples above; `fg_id`, `bg_id`, `eg_id` are computed by the
constructors, aggregated over, and a rule adds two of the aggregates -/

/-- `def total(inc_fg, anz_bg) -> float: return inc_fg + anz_bg` -/
private def fTot : FunDef :=
  { name := "total", args := ["inc_fg", "anz_bg"],
    body := [.ret (.bin .add (.name "inc_fg") (.name "anz_bg"))] }
private def fFg : Fn :=
  { name := "fg_id", args := ["p_id", "hh_id", "alter", "p_id_einstandspartner", "p_id_elternteil_1",
      "p_id_elternteil_2"], ann := some .int, kind := .grouping .fg }
private def fBg : Fn :=
  { name := "bg_id", args := ["fg_id", "alter", "eigenbedarf_gedeckt"], ann := some .int, kind := .grouping .bg }
private def fEg : Fn :=
  { name := "eg_id", args := ["p_id", "p_id_einstandspartner"], ann := some .int, kind := .grouping .eg }
private def fIncFg : Fn :=
  { name := "inc_fg", args := ["inc", "fg_id"], ann := some .float, kind := .groupAgg .sum (some "inc") "fg_id" }
private def fAnzBg : Fn :=
  { name := "anz_bg", args := ["bg_id"], ann := some .int, kind := .groupAgg .count none "bg_id" }
private def fIncEg : Fn :=
  { name := "inc_eg", args := ["inc", "eg_id"], ann := some .float, kind := .groupAgg .max (some "inc") "eg_id" }
private def fIncHh : Fn :=
  { name := "inc_hh", args := ["inc", "hh_id"], ann := some .float, kind := .groupAgg .sum (some "inc") "hh_id" }
private def fTotal : Fn :=
  { name := "total", args := ["inc_fg", "anz_bg"], ann := some .float, kind := .rule fTot (some .float) none }
private def fnsI : List Fn := [fFg, fBg, fEg, fIncFg, fAnzBg, fIncEg, fIncHh, fTotal]
private def DI : Dag.Data Col :=
  [("p_id", cPid), ("hh_id", cHh), ("alter", cAlter), ("p_id_einstandspartner", cPartner),
   ("p_id_elternteil_1", cE1), ("p_id_elternteil_2", cE2), ("eigenbedarf_gedeckt", cEigen), ("inc", cInc)]
private def isIdI (x : String) : Bool := x == "eg_id" || x == "fg_id" || x == "bg_id"

/-- the joint run and the run on A alone -/
example : Dag.eval (sysOf [] [] fnsI) DI 5 "fg_id" = .ok cFg ∧
    Dag.eval (sysOf [] [] fnsI) (un_takeData 3 DI) 5 "fg_id" = .ok (cFg.takeRows 3) ∧
    Dag.eval (sysOf [] [] fnsI) DI 5 "bg_id" = .ok cBg ∧
    Dag.eval (sysOf [] [] fnsI) (un_takeData 3 DI) 5 "bg_id" = .ok (cBg.takeRows 3) ∧
    Dag.eval (sysOf [] [] fnsI) DI 5 "total" =
      .ok { dt := .float, vals := [.f 152, .f 151, .f 152, .f 31] } ∧
    Dag.eval (sysOf [] [] fnsI) (un_takeData 3 DI) 5 "total" =
      .ok { dt := .float, vals := [.f 152, .f 151, .f 152] } ∧
    Dag.eval (sysOf [] [] fnsI) (un_takeData 3 DI) 5 "inc_hh" =
      .ok { dt := .float, vals := [.f 150, .f 150, .f 150] } := by decide +kernel

private theorem fnsI_good : ∀ f ∈ fnsI, ui_GoodFn [] isIdI (sysOf [] [] fnsI) DI 3 f := by
  intro f hf
  simp only [fnsI, List.mem_cons, List.not_mem_nil, or_false] at hf
  rcases hf with rfl | rfl | rfl | rfl | rfl | rfl | rfl | rfl
  · refine ⟨by decide +kernel, pi_idx_of_zipIdx (by decide +kernel), fun k args hargs => ?_⟩
    have h0 : Dag.evalAll (Dag.eval (sysOf [] [] fnsI) DI 5) (freeArgs [] fFg) = .ok fgCols := by
      decide +kernel
    rw [pi_evalAll_det _ _ h0 hargs]
    exact ⟨validFg, sepFg, fun h => by cases h⟩
  · refine ⟨by decide +kernel, pi_idx_of_zipIdx (by decide +kernel), fun k args hargs => ?_⟩
    have h0 : Dag.evalAll (Dag.eval (sysOf [] [] fnsI) DI 5) (freeArgs [] fBg) =
        .ok [cFg, cAlter, cEigen] := by decide +kernel
    rw [pi_evalAll_det _ _ h0 hargs]
    refine ⟨validBg, sepBg, fun _ c hc => ?_⟩
    cases hc
    decide +kernel
  · refine ⟨by decide +kernel, pi_idx_of_zipIdx (by decide +kernel), fun k args hargs => ?_⟩
    have h0 : Dag.evalAll (Dag.eval (sysOf [] [] fnsI) DI 5) (freeArgs [] fEg) =
        .ok [cPid, cPartner] := by decide +kernel
    rw [pi_evalAll_det _ _ h0 hargs]
    exact ⟨validEg, sepEg, fun h => by cases h⟩
  · refine ⟨by decide +kernel, pi_idx_of_zipIdx (by decide +kernel), fun d hd hi => ?_⟩
    cases hd
    exact absurd hi (by decide +kernel)
  · refine ⟨by decide +kernel, pi_idx_of_zipIdx (by decide +kernel), fun d hd hi => ?_⟩
    cases hd
    exact absurd hi (by decide +kernel)
  · refine ⟨by decide +kernel, pi_idx_of_zipIdx (by decide +kernel), fun d hd hi => ?_⟩
    cases hd
    exact absurd hi (by decide +kernel)
  · refine ⟨by decide +kernel, pi_idx_of_zipIdx (by decide +kernel), fun d hd _ k v hv => ?_⟩
    cases hd
    rw [un_eval_data (c := cHh) (by decide +kernel) hv]
    decide +kernel
  · exact ⟨rfl, Or.inl (show fTot.args ≠ [] by decide), by decide +kernel, by decide +kernel,
      fun h => (by cases h), fun h => (by cases h)⟩

example : ColsOK (3 + 1) (DI.map (·.2)) ∧ ∀ p ∈ DI, isIdI p.1 = false := by decide +kernel

/-- all hypotheses of the lift hold together: the run on A alone computes `bg_id` with the same
partition and `total` / `inc_eg` with the same values -/
example : ∃ vA, Dag.eval (sysOf [] [] fnsI) (un_takeData 3 DI) 5 "bg_id" = .ok vA ∧
    UnionIdRel 3 isIdI "bg_id" cBg vA :=
  sys_eval_union_ids (nA := 3) (nB := 1) [] [] fnsI isIdI DI fnsI_good (by decide)
    (by decide +kernel) 5 "bg_id" cBg (by decide +kernel)
example : Dag.eval (sysOf [] [] fnsI) (un_takeData 3 DI) 5 "total" =
    .ok (Col.takeRows 3 { dt := .float, vals := [.f 152, .f 151, .f 152, .f 31] }) :=
  sys_eval_union_ids_value (nA := 3) (nB := 1) [] [] fnsI isIdI DI fnsI_good (by decide)
    (by decide +kernel) 5 "total" _ (by decide +kernel) (by decide +kernel)
example : Dag.eval (sysOf [] [] fnsI) (un_takeData 3 DI) 5 "inc_eg" =
    .ok (Col.takeRows 3 { dt := .float, vals := [.f 100, .f 0, .f 100, .f 30] }) :=
  sys_eval_union_ids_value (nA := 3) (nB := 1) [] [] fnsI isIdI DI fnsI_good (by decide)
    (by decide +kernel) 5 "inc_eg" _ (by decide +kernel) (by decide +kernel)
example : ColOK (3 + 1) cFg ∧ (isIdI "fg_id" = true → (∀ x ∈ cFg.ints, 0 ≤ x) ∧ un_IdsSep 3 cFg.ints) :=
  sys_eval_union_ids_rows (nA := 3) (nB := 1) [] [] fnsI isIdI DI fnsI_good (by decide)
    (by decide +kernel) 5 "fg_id" cFg (by decide +kernel)

end GV.Simulate
