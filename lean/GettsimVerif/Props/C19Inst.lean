import GettsimVerif.Props.SymSound
import GettsimVerif.Generated.Chains
/-
C19 — kernel-decided shape certificates for contribution chains regenerated from /repo
(two dates × four branches); the soundness theorems of the symbolic evaluator turn each
certificate into a statement about ALL gross wages `w ≥ 0`.
-/
namespace GV.Props.C19Inst
open GV.Sym GV.Gen.Chains

def certified (i : Instance) : Bool :=
  checkOn nonnegChk i.chain i.target 0 i.bs &&
  checkOn nondecChk i.chain i.target 0 i.bs &&
  checkOn (zeroBelowChk i.g true) i.chain i.target 0 i.bs &&
  checkOn (constantAboveChk i.c true) i.chain i.target 0 i.bs &&
  checkOn (continuousAtChk i.m) i.chain i.target 0 i.bs

set_option maxRecDepth 1000000 in
/-- every generated chain passes all five shape checks (decided by the kernel) -/
theorem all_certified : instances.all certified = true := by decide +kernel

theorem instances_nonempty : 4 ≤ instances.length := by decide +kernel

/-- For every generated contribution chain and ALL gross wages `w ≥ 0`: the employee contribution
is defined (the rules do not raise), non-negative, non-decreasing in the wage, zero up to the
minijob limit and constant from the contribution ceiling on. -/
theorem contribution_shape (i : Instance) (hi : i ∈ instances) :
    (∀ w, 0 ≤ w → ∃ q, i.chain.valAt i.target w = some q ∧ 0 ≤ q) ∧
    (∀ x y, 0 ≤ x → x ≤ y → ∃ qx qy, i.chain.valAt i.target x = some qx ∧
        i.chain.valAt i.target y = some qy ∧ qx ≤ qy) ∧
    (∀ w, 0 ≤ w → w ≤ i.g → i.chain.valAt i.target w = some 0) ∧
    (∃ K, ∀ w, 0 ≤ w → i.c ≤ w → i.chain.valAt i.target w = some K) := by
  have hall := all_certified
  rw [List.all_eq_true] at hall
  have h := hall i hi
  simp only [certified, Bool.and_eq_true] at h
  obtain ⟨⟨⟨⟨h1, h2⟩, h3⟩, h4⟩, _⟩ := h
  obtain ⟨p1, hp1, hc1⟩ := checkOn_elim h1
  obtain ⟨p2, hp2, hc2⟩ := checkOn_elim h2
  obtain ⟨p3, hp3, hc3⟩ := checkOn_elim h3
  obtain ⟨p4, hp4, hc4⟩ := checkOn_elim h4
  refine ⟨nonneg_sound hp1 hc1, nondecreasing_sound hp2 hc2, ?_, ?_⟩
  · intro w hw hg
    exact zeroBelow_sound hp3 hc3 w hw (by simpa using hg)
  · obtain ⟨K, _, hK⟩ := constantAbove_sound hp4 hc4
    exact ⟨K, fun w hw hc => hK w hw (by simpa using hc)⟩

end GV.Props.C19Inst
