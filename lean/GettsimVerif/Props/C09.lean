import GettsimVerif.Lemmas.Vectorize
/-
C09: the vectorising rewrite (`_gettsim/vectorization.py`, modelled by `GV.Vectorize`)
preserves meaning on a well-typed fragment, fails loudly otherwise, and is UNSOUND on four
documented-style shapes outside the fragment.

Setting.  `GV.Lang.evalExpr / runFun` is the scalar (Python) semantics, `GV.ArrSem.evalA /
runFunA` the array (numpy) semantics on columns of length `n`, where an element may be
POISON (`none`: the `inf`/`nan` numpy produces for a division by zero instead of raising).
All statements are per ROW `i < n`: *if the scalar run on row `i` succeeds with value `v` and
the array run does not raise, then element `i` of the array result is `some v`* (in
particular it is not poison).  "Or it fails loudly" is the hypothesis that the array run
returned `.ok`.

The fragment.  `GV.VecTy.typeOf Γ e : Option Ty` (expressions, F) and
`GV.VecTy.typeStmt / typeBlock / funOK` (statements, F⁻) are Bool/Option-valued and can be
evaluated on the real rules.  `Ty = num | bool | dyn` (`dyn` = statically unknown scalar:
parameter trees, strings, results of subscripts and of opaque calls; `dyn` is the top of
the subsumption order `Ty.le`).
F: constants, names of `Γ`, `+ - * /`, unary minus, ONE comparison, `not`, `a if c else b`
(any typed operands; result `num`, `num`, `bool`, `bool`, join of the branches), `and`/`or`
whose operands are ALL `bool` (the only place where operand types matter: Python returns an
operand, `logical_and` a bool), `max`/`min` with two arguments, `float`, `abs`, any other
non-builtin call (e.g. `piecewise_polynomial`), `e[idx]`.
Outside F: chained comparisons, `in`, `sum/any/all`, one-argument `max/min` (all LOUD on
columns in the array semantics), `mcall`, opaque expressions.
F⁻: assignments, augmented assignments, `return`, expression statements (docstrings), and
`if` statements of the sound shapes (`chainOK`): every leaf of the `if/elif/else` tree
(nesting allowed in both branches) is a single `return` (kind `ret`), or every leaf is a
single assignment to the SAME variable `x` with a type `≤ t` (kind `asg x t`), where a
missing `else` is allowed only if `x` is already bound with a type `≤ t`.

Consistency of the array environment with `Γ` at row `i` (`ConsistentAt`): row `i` of `ρ`
is poison-free (`rowEnv ρ i = some σ`) and `σ` binds every name of `Γ` to a value of its
type.  Nothing is assumed about the other rows or about column lengths (the claim is local
to row `i`); poison arises only internally, from divisions.
-/
namespace GV.Props.C09
open GV GV.Lang GV.Vectorize GV.ArrSem GV.VecTy GV.VecLemmas

/-- `ρ` is consistent with `Γ` at row `i`, with row environment `σ` -/
def ConsistentAt (Γ : Ctx) (ρ : AEnv) (i : Nat) (σ : Env) : Prop :=
  rowEnv ρ i = some σ ∧ EnvTyped Γ σ

/-! ### 1. expressions -/

/-- **tExpr_sound.** For `e` in F (`typeOf Γ e = some t`), an array environment consistent
with `Γ` at row `i < n`: if the rewrite succeeds, the scalar evaluation on row `i` yields
`v`, and the array evaluation of the rewritten expression does not raise, then element `i`
of the array result is `some v` (not poison, and equal), and `v` has type `t` (for
`t = bool`, `v` is a `.bool`). -/
theorem tExpr_sound {Γ : Ctx} {e e' : Expr} {t : Ty} {ρ : AEnv} {n i : Nat} {σ : Env}
    {v : Val} {a : AVal}
    (ht : typeOf Γ e = some t) (he : tExpr e = .ok e') (hi : i < n)
    (hρ : ConsistentAt Γ ρ i σ)
    (hv : evalExpr σ e = .ok v) (ha : evalA n ρ e' = .ok a) :
    a.get i = some v ∧ hasTy v t = true :=
  ⟨t_expr (rowEnv_rel hρ.1) hi hρ.2 e t e' v a ht he hv ha, pres_expr hρ.2 e t v ht hv⟩

/-- the `bool` case spelled out -/
theorem tExpr_sound_bool {Γ : Ctx} {e e' : Expr} {ρ : AEnv} {n i : Nat} {σ : Env}
    {v : Val} {a : AVal}
    (ht : typeOf Γ e = some .bool) (he : tExpr e = .ok e') (hi : i < n)
    (hρ : ConsistentAt Γ ρ i σ)
    (hv : evalExpr σ e = .ok v) (ha : evalA n ρ e' = .ok a) :
    ∃ b, v = .bool b ∧ a.get i = some (.bool b) := by
  obtain ⟨h1, h2⟩ := tExpr_sound ht he hi hρ hv ha
  obtain ⟨b, rfl⟩ := hasTy_bool h2
  exact ⟨b, rfl, h1⟩

/-- The same with the weaker, relational notion of consistency used inside function bodies
(intermediate variables may hold poison in OTHER rows; in row `i` every name bound in the
scalar environment `σ` has the same, non-poison, element in `ρ`). -/
theorem tExpr_sound_rel {Γ : Ctx} {e e' : Expr} {t : Ty} {ρ : AEnv} {n i : Nat} {σ : Env}
    {v : Val} {a : AVal}
    (ht : typeOf Γ e = some t) (he : tExpr e = .ok e') (hi : i < n)
    (hr : RowRel σ ρ i) (hΓ : EnvTyped Γ σ)
    (hv : evalExpr σ e = .ok v) (ha : evalA n ρ e' = .ok a) :
    a.get i = some v ∧ hasTy v t = true :=
  ⟨t_expr hr hi hΓ e t e' v a ht he hv ha, pres_expr hΓ e t v ht hv⟩

/-- Untransformed code on arrays (the operands of `not` and of unary minus are not visited
by the rewriter): whenever it is not loud it agrees with the scalar semantics. -/
theorem untransformed_sound {Γ : Ctx} {e : Expr} {t : Ty} {ρ : AEnv} {n i : Nat} {σ : Env}
    {v : Val} {a : AVal}
    (ht : typeOf Γ e = some t) (hi : i < n) (hr : RowRel σ ρ i)
    (hv : evalExpr σ e = .ok v) (ha : evalA n ρ e = .ok a) : a.get i = some v :=
  id_expr hr hi e Γ t v a ht hv ha

/-- … and it IS loud on real columns: Python `not` / `and` on a column of length ≠ 1 raise
`ValueError` (so e.g. `not (a and b)` → `logical_not(a and b)` fails loudly). -/
example : evalA 2 [("x", .col [some (.bool true), some (.bool false)])] (.not (.name "x"))
    = .error .valueError := by decide +kernel
example : evalA 2 [("x", .col [some (.bool true), some (.bool false)])]
    (.mcall "logical_not" [.boolop true [.name "x", .name "x"]]) = .error .valueError := by
  decide +kernel

/-! ### 2. functions -/

/-- **transform_sound.** For `f` in F⁻ (`funOK tys f`) whose rewrite succeeds, argument
arrays `args` (scalars or columns of length `n`) whose row `i < n` is the poison-free
argument list `vs` of the declared types: if the scalar run on row `i` returns `v` and the
array run of the rewritten function does not raise, then element `i` of the array result is
`some v`. -/
theorem transform_sound {f f' : FunDef} {tys : List Ty} {args : List AVal} {n i : Nat}
    {vs : List Val} {v : Val} {out : AVal}
    (hf : funOK tys f = true) (ht : transform f = .ok f') (hi : i < n)
    (hrow : rowArgs args i = some vs) (hty : argsTyped vs tys = true)
    (hrun : runFun f vs = .ok v) (hrunA : runFunA f' args n = .ok out) :
    out.get i = some v :=
  fun_sound hf ht hi hrow hty hrun hrunA

/-- Block-level form (simulation invariant): running a block of F⁻ and its rewrite from
related states ends in related states — both fall through with `EnvTyped`/`RowRel`
re-established, or both `return` and the returned element `i` is the scalar value
(`Sim Γ' i σ' r ρ' ra` is: `r = ra = none ∧ EnvTyped Γ' σ' ∧ RowRel σ' ρ' i`, or
`r = some v ∧ ra = some a ∧ a.get i = some v`). -/
theorem tBlock_sound {n i : Nat} (hi : i < n) {ss ss' : List Stmt} {Γ Γ' : Ctx} {σ σ' : Env}
    {ρ ρ' : AEnv} {r : Option Val} {ra : Option AVal}
    (hr : RowRel σ ρ i) (hΓ : EnvTyped Γ σ) (ht : typeBlock Γ ss = some Γ')
    (hs : tBlock ss = .ok ss') (hrun : execBlock σ ss = .ok (σ', r))
    (hrunA : execBlockA n ρ ss' = .ok (ρ', ra)) :
    Sim Γ' i σ' r ρ' ra :=
  block_sound hi ss ss' Γ Γ' σ σ' ρ ρ' r ra hr hΓ ht hs hrun hrunA

/-- **transform_pure.** In the model the rewrite is a function of the syntax tree only. -/
theorem transform_pure (f g : FunDef) (h : f = g) : transform f = transform g := by rw [h]

/-! ### 3. non-vacuity: a realistic rule

```python
def f(x, n, flag):
    if flag and n > 0:
        out = x / n
    elif x > 10:
        out = max(x, 20.0)
    else:
        out = 0.0
    return out
```
-/

def rule : FunDef := { name := "f", args := ["x", "n", "flag"], body := [
  .ite (.boolop true [.name "flag", .cmp (.name "n") [(.gt, .const (.int 0))]])
     [.assign "out" (.bin .div (.name "x") (.name "n"))]
     [.ite (.cmp (.name "x") [(.gt, .const (.int 10))])
        [.assign "out" (.call "max" [.name "x", .const (.flt 20)])]
        [.assign "out" (.const (.flt 0))]],
  .ret (.name "out")] }

/-- `out = where(logical_and(flag, n > 0), x / n, where(x > 10, maximum(x, 20.0), 0.0))` -/
def rule' : FunDef := { name := "f", args := ["x", "n", "flag"], body := [
  .assign "out" (.mcall "where" [
    .mcall "logical_and" [.name "flag", .cmp (.name "n") [(.gt, .const (.int 0))]],
    .bin .div (.name "x") (.name "n"),
    .mcall "where" [.cmp (.name "x") [(.gt, .const (.int 10))],
      .mcall "maximum" [.name "x", .const (.flt 20)],
      .const (.flt 0)]]),
  .ret (.name "out")] }

/-- rows: `(6, 3, True)`, `(12, 0, True)`, `(5, 0, False)` — in rows 1 and 2 the division
`x / n` of the unselected branch is poison -/
def ruleArgs : List AVal :=
  [.col [some (.flt 6), some (.flt 12), some (.flt 5)],
   .col [some (.int 3), some (.int 0), some (.int 0)],
   .col [some (.bool true), some (.bool true), some (.bool false)]]

/-- the rule is in F⁻ -/
example : funOK [.num, .num, .bool] rule = true := by decide
/-- it is rewritten to the expected tree -/
example : transform rule = .ok rule' := rfl
/-- the unselected division really is poison in rows 1 and 2 -/
example : evalA 3 (["x", "n", "flag"].zip ruleArgs) (.bin .div (.name "x") (.name "n"))
    = .ok (.col [some (.flt 2), none, none]) := by decide +kernel
/-- the array run succeeds … -/
example : runFunA rule' ruleArgs 3 = .ok (.col [some (.flt 2), some (.flt 20), some (.flt 0)]) := by
  decide +kernel
/-- … and agrees row by row with the scalar runs -/
example : scalarRows rule ruleArgs 3 =
    [some (.ok (.flt 2)), some (.ok (.flt 20)), some (.ok (.flt 0))] := by decide +kernel
example : agreesOnRows rule rule' ruleArgs 3 = true := by decide +kernel
/-- all hypotheses of `transform_sound` hold for row 1 (instance of the theorem) -/
example : (runFunA rule' ruleArgs 3).toOption.map (·.get 1) = some (some (.flt 20)) := by
  have h : runFunA rule' ruleArgs 3 = .ok (.col [some (.flt 2), some (.flt 20), some (.flt 0)]) := by
    decide +kernel
  have := transform_sound (f := rule) (f' := rule') (tys := [.num, .num, .bool])
    (args := ruleArgs) (n := 3) (i := 1) (vs := [.flt 12, .int 0, .bool true]) (v := .flt 20)
    (by decide) rfl (by decide) (by decide +kernel) (by decide) (by decide +kernel) h
  rw [h]; exact congrArg some this

/-- `tExpr_sound`, instance: `flag and n > 0` at row 1 of the same columns -/
example : ∃ σ, ConsistentAt [("x", .num), ("n", .num), ("flag", .bool)]
    (["x", "n", "flag"].zip ruleArgs) 1 σ :=
  ⟨[("x", .flt 12), ("n", .int 0), ("flag", .bool true)], by decide +kernel,
    zip_typed ["x", "n", "flag"] [.num, .num, .bool] [.flt 12, .int 0, .bool true] (by decide)⟩
example : typeOf [("x", .num), ("n", .num), ("flag", .bool)]
    (.boolop true [.name "flag", .cmp (.name "n") [(.gt, .const (.int 0))]]) = some .bool := by
  decide

/-- A second rule: `return n > 0 and x / n > 1`.  In the rows with `n = 0` the right operand
is poison (numpy: `nan > 1 = False`, `inf > 1 = True`); `logical_and(False, poison) = False`
whatever the poison is, as the scalar short-circuit evaluation. -/
def rule2 : FunDef := { name := "g", args := ["x", "n"], body := [
  .ret (.boolop true [.cmp (.name "n") [(.gt, .const (.int 0))],
    .cmp (.bin .div (.name "x") (.name "n")) [(.gt, .const (.int 1))]])] }
def rule2Args : List AVal :=
  [.col [some (.flt 6), some (.flt 0), some (.flt 5)],
   .col [some (.int 3), some (.int 0), some (.int 0)]]
example : funOK [.num, .num] rule2 = true := by decide
example : (transform rule2).toOption.map (fun f' => runFunA f' rule2Args 3) =
    some (.ok (.col [some (.bool true), some (.bool false), some (.bool false)])) := by
  decide +kernel
example : scalarRows rule2 rule2Args 3 =
    [some (.ok (.bool true)), some (.ok (.bool false)), some (.ok (.bool false))] := by
  decide +kernel
/-- … while `logical_and(True, poison)` stays poison (unknown), it is not guessed -/
example : evalA 1 [("p", .col [none])] (.mcall "logical_and" [.const (.bool true), .name "p"])
    = .ok (.col [none]) := by decide +kernel

/-- leaves of different types (`num` and a parameter subscript, `dyn`) and an else-less
assignment to a bound variable are in F⁻ -/
example : funOK [.num, .dyn] { name := "h", args := ["x", "params"], body := [
    .ite (.cmp (.name "x") [(.lt, .const (.int 18))])
      [.assign "out" (.sub (.name "params") (.const (.str "a")))]
      [.assign "out" (.const (.flt 0))],
    .ite (.cmp (.name "x") [(.gt, .const (.int 65))]) [.assign "out" (.const (.flt 1))] [],
    .ret (.name "out")] } = true := by decide

/-! ### 4. the documented-style shapes on which the rewrite is UNSOUND

Each theorem exhibits a program the rewriter ACCEPTS, argument columns, and a row where the
array result differs from the scalar result (no error anywhere).  None of them is in F⁻. -/

/-- (u1) `out = a; if c: out += b; return out` ↦ `out += where(c, b, out)`:
in a row with `c` false the result is `2a` instead of `a`. -/
def u1 : FunDef := { name := "u1", args := ["a", "b", "c"], body := [
  .assign "out" (.name "a"),
  .ite (.name "c") [.aug "out" .add (.name "b")] [],
  .ret (.name "out")] }

/-- (u2) `out = a; if c: out += x else: out = y; return out` ↦ `out += where(c, x, y)`:
in a row with `c` false the result is `a + y` instead of `y`. -/
def u2 : FunDef := { name := "u2", args := ["a", "x", "y", "c"], body := [
  .assign "out" (.name "a"),
  .ite (.name "c") [.aug "out" .add (.name "x")] [.assign "out" (.name "y")],
  .ret (.name "out")] }

/-- (u3) `p = a; q = a; if c: p = x else: q = y; return q` ↦ `p = where(c, x, y)`:
`q` is never updated. -/
def u3 : FunDef := { name := "u3", args := ["a", "x", "y", "c"], body := [
  .assign "p" (.name "a"),
  .assign "q" (.name "a"),
  .ite (.name "c") [.assign "p" (.name "x")] [.assign "q" (.name "y")],
  .ret (.name "q")] }

/-- (u4) `if c: return a else: x = b` followed by `return x + 1` ↦ `return where(c, a, b)`:
in a row with `c` false the result is `b` instead of `b + 1`. -/
def u4 : FunDef := { name := "u4", args := ["a", "b", "c"], body := [
  .ite (.name "c") [.ret (.name "a")] [.assign "x" (.name "b")],
  .ret (.bin .add (.name "x") (.const (.int 1)))] }

/-- what "unsound on `f`" means: the rewriter returns a tree `f'`, and there are argument
columns of length `n` and a row `i` on which both runs succeed with different values -/
def UnsoundOn (f : FunDef) : Prop :=
  ∃ (f' : FunDef) (args : List AVal) (n i : Nat) (vs : List Val) (v : Val) (out : AVal),
    transform f = .ok f' ∧ i < n ∧ rowArgs args i = some vs ∧ runFun f vs = .ok v ∧
    runFunA f' args n = .ok out ∧ out.get i ≠ some v

theorem augassign_elseless_unsound : UnsoundOn u1 :=
  ⟨{ u1 with body := [
      .assign "out" (.name "a"),
      .aug "out" .add (.mcall "where" [.name "c", .name "b", .name "out"]),
      .ret (.name "out")] },
    [.col [some (.int 1), some (.int 10)], .col [some (.int 2), some (.int 20)],
     .col [some (.bool true), some (.bool false)]],
    2, 1, [.int 10, .int 20, .bool false], .int 10, .col [some (.int 3), some (.int 20)],
    rfl, by decide, by decide +kernel, by decide +kernel, by decide +kernel, by decide +kernel⟩

theorem aug_assign_mixed_unsound : UnsoundOn u2 :=
  ⟨{ u2 with body := [
      .assign "out" (.name "a"),
      .aug "out" .add (.mcall "where" [.name "c", .name "x", .name "y"]),
      .ret (.name "out")] },
    [.col [some (.int 1), some (.int 10)], .col [some (.int 2), some (.int 20)],
     .col [some (.int 5), some (.int 50)], .col [some (.bool true), some (.bool false)]],
    2, 1, [.int 10, .int 20, .int 50, .bool false], .int 50,
    .col [some (.int 3), some (.int 60)],
    rfl, by decide, by decide +kernel, by decide +kernel, by decide +kernel, by decide +kernel⟩

theorem different_targets_unsound : UnsoundOn u3 :=
  ⟨{ u3 with body := [
      .assign "p" (.name "a"),
      .assign "q" (.name "a"),
      .assign "p" (.mcall "where" [.name "c", .name "x", .name "y"]),
      .ret (.name "q")] },
    [.col [some (.int 1), some (.int 10)], .col [some (.int 2), some (.int 20)],
     .col [some (.int 5), some (.int 50)], .col [some (.bool true), some (.bool false)]],
    2, 1, [.int 10, .int 20, .int 50, .bool false], .int 50,
    .col [some (.int 1), some (.int 10)],
    rfl, by decide, by decide +kernel, by decide +kernel, by decide +kernel, by decide +kernel⟩

theorem return_assign_mixed_unsound : UnsoundOn u4 :=
  ⟨{ u4 with body := [
      .ret (.mcall "where" [.name "c", .name "a", .name "b"]),
      .ret (.bin .add (.name "x") (.const (.int 1)))] },
    [.col [some (.int 1), some (.int 10)], .col [some (.int 2), some (.int 20)],
     .col [some (.bool true), some (.bool false)]],
    2, 1, [.int 10, .int 20, .bool false], .int 21, .col [some (.int 1), some (.int 20)],
    rfl, by decide, by decide +kernel, by decide +kernel, by decide +kernel, by decide +kernel⟩

/-- a block containing a statement that is untypable in every context is not in F⁻ -/
theorem typeBlock_none_of_mem (s : Stmt) (hs : ∀ Γ, typeStmt Γ s = none) :
    ∀ (ss : List Stmt) (Γ : Ctx), s ∈ ss → typeBlock Γ ss = none
  | [], _, h => by cases h
  | a :: rest, Γ, h => by
    simp only [typeBlock]
    cases h with
    | head => rw [hs Γ]
    | tail _ h =>
      cases typeStmt Γ a with
      | none => rfl
      | some Γ' => exact typeBlock_none_of_mem s hs rest Γ' h

/-- none of the four is in F⁻, whatever the argument types: their `if` statement is not of
a sound shape in any context -/
theorem unsound_shapes_not_in_fragment (tys : List Ty) :
    funOK tys u1 = false ∧ funOK tys u2 = false ∧ funOK tys u3 = false ∧
    funOK tys u4 = false := by
  have key : ∀ (f : FunDef) (s : Stmt), s ∈ f.body → (∀ Γ, typeStmt Γ s = none) →
      funOK tys f = false := by
    intro f s hm h
    simp [funOK, typeBlock_none_of_mem s h f.body _ hm]
  refine ⟨key u1 (.ite (.name "c") [.aug "out" .add (.name "b")] []) (by simp [u1]) ?_,
    key u2 (.ite (.name "c") [.aug "out" .add (.name "x")] [.assign "out" (.name "y")])
      (by simp [u2]) ?_,
    key u3 (.ite (.name "c") [.assign "p" (.name "x")] [.assign "q" (.name "y")])
      (by simp [u3]) ?_,
    key u4 (.ite (.name "c") [.ret (.name "a")] [.assign "x" (.name "b")]) (by simp [u4]) ?_⟩
    <;> intro Γ
  · simp [typeStmt, chainKind, leaf?, leafL?]
  · simp [typeStmt, chainKind, leaf?, leafL?]
  · simp only [typeStmt, chainKind, leaf?, leafL?, typeOf]
    cases Γ.get? "x" <;> simp [chainOK, bodyOK, elseOK]
  · simp [typeStmt, chainKind, leaf?, leafL?, chainOK, bodyOK, elseOK]

/-! #### A hazard OUTSIDE the model: in-place `+=` through aliases

numpy's `out += e` mutates the array `out` is bound to.  After `out = a` this is the
caller's column `a`: real numpy returns `(a+b)*(a+b)` for the function below (scalar:
`(a+b)*a`) and leaves the input column changed (checked with numpy 2.5.3: `a=[1,10]`,
`b=[2,20]` gives `[9, 900]` instead of `[3, 300]`, and `a` becomes `[3, 30]`).  The array
semantics `GV.ArrSem` is purely functional and does not see this, so F⁻ (`noAliasedAug`)
only allows augmented assignments to variables that are neither arguments nor involved in a
bare alias assignment `x = y`. -/

def u5 : FunDef := { name := "u5", args := ["a", "b"], body := [
  .assign "out" (.name "a"),
  .aug "out" .add (.name "b"),
  .ret (.bin .mul (.name "out") (.name "a"))] }
example : funOK [.num, .num] u5 = false := by decide
/-- with a fresh array (`out = a + 0`) the same program is in F⁻ -/
example : funOK [.num, .num] { u5 with body := [
    .assign "out" (.bin .add (.name "a") (.const (.int 0))),
    .aug "out" .add (.name "b"),
    .ret (.bin .mul (.name "out") (.name "a"))] } = true := by decide

/-! ### 5. rejections: the rewriter returns an error, never a tree -/

/-- More than one statement in a branch: never a tree.  (The error is
`tooManyOperations` as soon as the children are rewritable and the first body statement
has a value, see `transform_rejects_tooManyOperations_exact`.) -/
theorem transform_rejects_tooManyOperations (c : Expr) (body orelse : List Stmt)
    (h : body.length > 1 ∨ orelse.length > 1) (s' : Stmt) :
    tStmt (.ite c body orelse) ≠ .ok s' := by
  intro hs
  obtain ⟨c', body', orelse', _, hb, ho, hs⟩ := tStmt_ite_inv hs
  have h' : body'.length > 1 ∨ orelse'.length > 1 := by
    rw [tBlock_length hb, tBlock_length ho]; exact h
  rcases ifToStmt_tooMany c' body' orelse' h' with e | e <;> rw [e] at hs <;> cases hs

theorem transform_rejects_tooManyOperations_exact (c' : Expr) (b0 : Stmt) (v0 : Expr)
    (rest orelse' : List Stmt) (hv : stmtValue? b0 = some v0)
    (h : (b0 :: rest).length > 1 ∨ orelse'.length > 1) :
    ifToStmt c' (b0 :: rest) orelse' = .error .tooManyOperations := by
  rcases ifToStmt_tooMany c' (b0 :: rest) orelse' h with e | e
  · exact e
  · exfalso
    simp [ifToStmt, hv] at e
    split at e <;> first | cases e | skip
    all_goals (revert e; cases b0 <;> cases orelse' <;> simp_all [stmtValue?])

/-- `if c: return e` without `else` (whatever follows in the body): never a tree; for the
exact documented shape the error is `returnWithoutElse`. -/
theorem transform_rejects_returnWithoutElse (c e : Expr) (rest : List Stmt) (s' : Stmt) :
    tStmt (.ite c (.ret e :: rest) []) ≠ .ok s' := by
  intro hs
  obtain ⟨c', body', orelse', _, hb, ho, hs⟩ := tStmt_ite_inv hs
  obtain ⟨b0, rest', hb0, _, rfl⟩ := tBlock_cons_inv hb
  obtain ⟨e', _, rfl⟩ := tStmt_ret_inv hb0
  simp only [tBlock] at ho
  cases ho
  exact ifToStmt_ret_noelse c' e' rest' s' hs

theorem transform_rejects_returnWithoutElse_exact {c c' e e' : Expr} (hc : tExpr c = .ok c')
    (he : tExpr e = .ok e') : tStmt (.ite c [.ret e] []) = .error .returnWithoutElse := by
  simp only [tStmt, tBlock, hc, he, ok_bind, pure_eq_ok]
  rfl

/-- An `else` branch that is an expression statement or an unsupported statement
(`raise`, `for`, …): never a tree; with a single valued body statement and rewritable
children the error is `unallowedOperation`. -/
theorem transform_rejects_unallowedOperation (c : Expr) (body : List Stmt) (o : Stmt)
    (ho : (∃ w, o = .other w) ∨ (∃ e, o = .expr e)) (s' : Stmt) :
    tStmt (.ite c body [o]) ≠ .ok s' := by
  intro hs
  obtain ⟨c', body', orelse', _, _, hor, hs⟩ := tStmt_ite_inv hs
  obtain ⟨o', rest', ho', hrest', rfl⟩ := tBlock_cons_inv hor
  simp only [tBlock] at hrest'
  cases hrest'
  have ho'' : (∃ w, o' = .other w) ∨ (∃ e, o' = .expr e) := by
    rcases ho with ⟨w, rfl⟩ | ⟨e, rfl⟩
    · simp only [tStmt] at ho'; cases ho'; exact Or.inl ⟨w, rfl⟩
    · obtain ⟨e', _, rfl⟩ := tStmt_expr_inv ho'; exact Or.inr ⟨e', rfl⟩
  exact ifToStmt_else_unallowed c' body' o' ho'' s' hs

theorem transform_rejects_unallowedOperation_exact (c' : Expr) (b0 o : Stmt) (v0 : Expr)
    (hv : stmtValue? b0 = some v0) (ho : (∃ w, o = .other w) ∨ (∃ e, o = .expr e)) :
    ifToStmt c' [b0] [o] = .error .unallowedOperation :=
  ifToStmt_unallowed_exact c' b0 o v0 hv ho

/-- `max/min/sum/any/all` with zero or ≥ 3 arguments (and `sum/any/all` with 2): if the
arguments are rewritable the error is `tooManyArguments`; in any case never a tree. -/
theorem transform_rejects_tooManyArguments (f : String) (args : List Expr)
    (hf : f = "max" ∨ f = "min" ∨ f = "sum" ∨ f = "any" ∨ f = "all")
    (h1 : args.length ≠ 1) (h2 : ¬ ((f = "max" ∨ f = "min") ∧ args.length = 2)) :
    (∀ e', tExpr (.call f args) ≠ .ok e') ∧
    (∀ args', tList args = .ok args' → tExpr (.call f args) = .error .tooManyArguments) := by
  have hc : builtinsToModule.contains f = true := by
    rw [contains_builtins]
    rcases hf with h | h | h | h | h <;> simp [h]
  have key : ∀ args', tList args = .ok args' →
      tExpr (.call f args) = .error .tooManyArguments := by
    intro args' ha
    have hl := tList_length ha
    simp only [tExpr, ha, ok_bind]
    exact callToModule_tooMany f args' hc (by rw [hl]; exact h1) (by rw [hl]; exact h2)
  refine ⟨?_, key⟩
  intro e' he
  have he' := he
  simp only [tExpr] at he'
  obtain ⟨args', ha, _⟩ := bind_ok he'
  rw [key args' ha] at he
  cases he

/-- Rejections propagate: a function whose body contains (at top level) a statement the
rewriter rejects is rejected as a whole. -/
theorem transform_rejects_propagate (f : FunDef) (s : Stmt) (hs : s ∈ f.body)
    (hrej : ∀ s', tStmt s ≠ .ok s') (f' : FunDef) : transform f ≠ .ok f' := by
  intro h
  simp only [transform] at h
  obtain ⟨body', hb, _⟩ := bind_ok h
  have : ∀ (ss ss' : List Stmt), tBlock ss = .ok ss' → s ∈ ss → ∃ s', tStmt s = .ok s' := by
    intro ss
    induction ss with
    | nil => intro _ _ hm; cases hm
    | cons a rest ih =>
      intro ss' hss hm
      obtain ⟨a', rest', ha, hrest, _⟩ := tBlock_cons_inv hss
      cases hm with
      | head => exact ⟨a', ha⟩
      | tail _ hm => exact ih rest' hrest hm
  obtain ⟨s', hs'⟩ := this f.body body' hb hs
  exact hrej s' hs'

/-- concrete instances of the four rejections -/
example : transform { name := "g", args := ["x"], body := [
    .ite (.name "x") [.assign "a" (.const (.int 1)), .assign "b" (.const (.int 2))]
      [.assign "a" (.const (.int 0))], .ret (.name "a")] } = .error .tooManyOperations := rfl
example : transform { name := "g", args := ["x"], body := [
    .ite (.name "x") [.ret (.const (.int 1))] [], .ret (.const (.int 0))] }
    = .error .returnWithoutElse := rfl
example : transform { name := "g", args := ["x"], body := [
    .ite (.name "x") [.ret (.const (.int 1))] [.other "raise"]] }
    = .error .unallowedOperation := rfl
example : transform { name := "g", args := ["x", "y", "z"], body := [
    .ret (.call "max" [.name "x", .name "y", .name "z"])] } = .error .tooManyArguments := rfl
example : transform { name := "g", args := [], body := [.ret (.call "min" [])] }
    = .error .tooManyArguments := rfl

end GV.Props.C09
