import GettsimVerif.Lemmas.Sym
/-
Soundness of the symbolic evaluator `GV.Sym` and of the shape certificates built on it.

VALUE RELATION.  All soundness theorems are stated with plain EQUALITY of `Val`s (the
concrete run returns exactly `s.eval w`, including the int/float distinction), which is
stronger than numeric equivalence `Val.numEq`; this is possible because `max`/`min` mirror
`pickExt` (leftmost extremal argument) and demand that each deciding comparison is constant on
the interval.  `Val.numEq` is defined below only to record the implication.

`f w` in the shape theorems is `C.valAt target w`: the numeric value of `target` in the
CONCRETE run `runChain` of the chain with the wage input bound to `.flt w`; `some q` includes
"the run raises no error".
-/
namespace GV.Sym
open GV.Lang

/-! ### 1–5: evaluator soundness -/

/-- equal, or both numeric with the same rational value -/
def Val.numEq (u v : Val) : Prop :=
  u = v ∨ ∃ q fu fv, num? u = some (q, fu) ∧ num? v = some (q, fv)

/-- Expression soundness: if `symExpr` certifies `s` on `I`, then for every `w ∈ I` and every
concrete environment agreeing with the symbolic one at `w`, `evalExpr` succeeds (no
ZeroDivisionError / KeyError / NameError / TypeError) and returns exactly `s.eval w`. -/
theorem symExpr_sound {I : Ivl} {env : SEnv} {cenv : Env} {e : Expr} {s : SVal} {w : Rat}
    (h : symExpr I env e = some s) (hw : I.mem w)
    (hag : ∀ x sv, env.get? x = some sv → cenv.get? x = some (sv.eval w)) :
    evalExpr cenv e = .ok (s.eval w) :=
  symExpr_ok hw hag e s h

/-- the `∃ v, … ∧ v ≈ s.at w` form of the specification (a corollary of the exact one) -/
theorem symExpr_sound_numEq {I : Ivl} {env : SEnv} {cenv : Env} {e : Expr} {s : SVal} {w : Rat}
    (h : symExpr I env e = some s) (hw : I.mem w)
    (hag : ∀ x sv, env.get? x = some sv → cenv.get? x = some (sv.eval w)) :
    ∃ v, evalExpr cenv e = .ok v ∧ Val.numEq v (s.eval w) :=
  ⟨_, symExpr_sound h hw hag, Or.inl rfl⟩

/-- Block soundness: the concrete block, started in the environment denoted at `w`, succeeds,
ends in the environment denoted by the symbolic result and returns the denoted value (or
falls through when the symbolic block does). -/
theorem symBlock_sound {I : Ivl} {env env' : SEnv} {body : List Stmt} {r : Option SVal} {w : Rat}
    (h : symBlock I env body = some (env', r)) (hw : I.mem w) :
    execBlock (env.eval w) body = .ok (env'.eval w, r.map (fun s => s.eval w)) :=
  symBlock_ok hw body env env' r h

/-- Block soundness for ANY concrete environment agreeing with the symbolic one (it may bind
additional names); the agreement is preserved. -/
theorem symBlock_sound_agree {I : Ivl} {env env' : SEnv} {cenv : Env} {body : List Stmt}
    {r : Option SVal} {w : Rat} (h : symBlock I env body = some (env', r)) (hw : I.mem w)
    (hag : ∀ x sv, env.get? x = some sv → cenv.get? x = some (sv.eval w)) :
    ∃ cenv', execBlock cenv body = .ok (cenv', r.map (fun s => s.eval w)) ∧
      ∀ x sv, env'.get? x = some sv → cenv'.get? x = some (sv.eval w) :=
  symBlock_agree hw body env env' r cenv hag h

/-- Function soundness: `runFun` on the denoted arguments succeeds with the denoted result. -/
theorem symFun_sound {I : Ivl} {f : FunDef} {args : List SVal} {s : SVal} {w : Rat}
    (h : symFun I f args = some s) (hw : I.mem w) :
    runFun f (args.map (fun a => a.eval w)) = .ok (s.eval w) :=
  symFun_ok h hw

/-- Chain soundness: for every `w ∈ I` the concrete chain run succeeds and its final
environment is the one denoted by the symbolic result (so EVERY node's value is the
symbolic one at `w`). -/
theorem symChain_sound {I : Ivl} {env env' : SEnv} {nodes : List ChainNode} {w : Rat}
    (h : symChain I env nodes = some env') (hw : I.mem w) :
    runChain (env.eval w) nodes = .ok (env'.eval w) :=
  symChain_ok hw nodes env env' h

/-- … in particular every name bound symbolically is bound to the denoted value. -/
theorem symChain_sound_lookup {I : Ivl} {env env' : SEnv} {nodes : List ChainNode} {w : Rat}
    (h : symChain I env nodes = some env') (hw : I.mem w) {x : String} {sv : SVal}
    (hx : env'.get? x = some sv) :
    ∃ cenv', runChain (env.eval w) nodes = .ok cenv' ∧ cenv'.get? x = some (sv.eval w) :=
  ⟨_, symChain_sound h hw, agree_eval env' w x sv hx⟩

/-- The symbolic inputs of a `Chain` denote its concrete inputs at wage `w`. -/
theorem chain_inputs (C : Chain) (w : Rat) : C.symInputs.eval w = C.inputsAt w :=
  Chain.symInputs_eval C w

/-- One piece: if `affinePiece` yields `(a, b)` on `I`, the concrete chain run at any
`w ∈ I` succeeds and `target` has the numeric value `a*w + b`. -/
theorem affinePiece_sound {C : Chain} {t : String} {I : Ivl} {a b w : Rat}
    (h : affinePiece C t I = some (a, b)) (hw : I.mem w) : C.valAt t w = some (a * w + b) :=
  affinePiece_val h hw

/-- `affineOn` describes the concrete function on all of `[start, ∞)`: every `w ≥ start` lies in
a listed piece, on which the concrete value is the listed affine function.  No assumption on
the (untrusted) breakpoints is needed. -/
theorem affineOn_sound {C : Chain} {t : String} {start : Rat} {bs : List (Rat × Bool)}
    {pcs : Pieces} (h : affineOn C t start bs = some pcs) {w : Rat} (hw : start ≤ w) :
    ∃ p ∈ pcs, p.1.mem w ∧ C.valAt t w = some (p.2.1 * w + p.2.2) := by
  have hd := affineOn_describes h
  obtain ⟨p, hp, hm⟩ := hd.cover w hw
  exact ⟨p, hp, hm, hd.val p hp w hm⟩

/-! ### 6: shape certificates -/

/-- Non-negativity on `[start, ∞)`. -/
theorem nonneg_sound {C : Chain} {t : String} {start : Rat} {bs : List (Rat × Bool)}
    {pcs : Pieces} (h : affineOn C t start bs = some pcs) (hc : nonnegChk pcs = true) :
    ∀ w, start ≤ w → ∃ q, C.valAt t w = some q ∧ 0 ≤ q :=
  nonneg_generic (affineOn_describes h) hc

/-- Monotonicity on `[start, ∞)` (`nondecChk` also re-checks that consecutive pieces are
adjacent and ordered, so unsorted breakpoints are rejected). -/
theorem nondecreasing_sound {C : Chain} {t : String} {start : Rat} {bs : List (Rat × Bool)}
    {pcs : Pieces} (h : affineOn C t start bs = some pcs) (hc : nondecChk pcs = true) :
    ∀ x y, start ≤ x → x ≤ y →
      ∃ qx qy, C.valAt t x = some qx ∧ C.valAt t y = some qy ∧ qx ≤ qy :=
  nondec_generic (affineOn_describes h) hc

/-- Zero below the limit `g` (`incl = true`: for `w ≤ g`, else for `w < g`). -/
theorem zeroBelow_sound {C : Chain} {t : String} {start : Rat} {bs : List (Rat × Bool)}
    {pcs : Pieces} {g : Rat} {incl : Bool} (h : affineOn C t start bs = some pcs)
    (hc : zeroBelowChk g incl pcs = true) :
    ∀ w, start ≤ w → (if incl then w ≤ g else w < g) → C.valAt t w = some 0 :=
  zeroBelow_generic (affineOn_describes h) hc

/-- Constant above the ceiling `c` (`incl = true`: for `w ≥ c`, else for `w > c`); the
constant is the intercept of the last piece. -/
theorem constantAbove_sound {C : Chain} {t : String} {start : Rat} {bs : List (Rat × Bool)}
    {pcs : Pieces} {c : Rat} {incl : Bool} (h : affineOn C t start bs = some pcs)
    (hc : constantAboveChk c incl pcs = true) :
    ∃ K, lastConst pcs = some K ∧
      ∀ w, start ≤ w → (if incl then c ≤ w else c < w) → C.valAt t w = some K := by
  unfold constantAboveChk at hc
  split at hc
  · rename_i K hK
    exact ⟨K, hK, constAbove_generic (affineOn_describes h) hc⟩
  · cases hc

/-- … hence any two wages above the ceiling give the same (defined) value. -/
theorem constantAbove_sound_pair {C : Chain} {t : String} {start : Rat}
    {bs : List (Rat × Bool)} {pcs : Pieces} {c : Rat} {incl : Bool}
    (h : affineOn C t start bs = some pcs) (hc : constantAboveChk c incl pcs = true) :
    ∀ x y, start ≤ x → start ≤ y → (if incl then c ≤ x else c < x) →
      (if incl then c ≤ y else c < y) →
      C.valAt t x = C.valAt t y ∧ (C.valAt t x).isSome = true := by
  obtain ⟨K, _, hK⟩ := constantAbove_sound h hc
  intro x y hx hy hcx hcy
  rw [hK x hx hcx, hK y hy hcy]
  exact ⟨rfl, rfl⟩

/-- Continuity at `m` relative to `[start, ∞)`, ε-δ form: the value `V` at `m` is defined and
all one-sided limits of the pieces touching `m` equal it. -/
theorem continuousAt_sound {C : Chain} {t : String} {start : Rat} {bs : List (Rat × Bool)}
    {pcs : Pieces} {m : Rat} (h : affineOn C t start bs = some pcs)
    (hc : continuousAtChk m pcs = true) :
    ∃ V, C.valAt t m = some V ∧
      ∀ ε : Rat, 0 < ε → ∃ δ : Rat, 0 < δ ∧
        ∀ w, start ≤ w → |w - m| < δ → ∃ q, C.valAt t w = some q ∧ |q - V| < ε := by
  have hd := affineOn_describes h
  unfold continuousAtChk at hc
  split at hc
  · rename_i V hV
    obtain ⟨p, hp, hm, rfl⟩ := valueAt?_spec hV
    exact ⟨_, hd.val p hp m hm, cont_eps_delta (cont_generic hd hc)⟩
  · cases hc

/-- Continuity at `m`, local Lipschitz form. -/
theorem continuousAt_sound_lipschitz {C : Chain} {t : String} {start : Rat}
    {bs : List (Rat × Bool)} {pcs : Pieces} {m : Rat} (h : affineOn C t start bs = some pcs)
    (hc : continuousAtChk m pcs = true) :
    ∃ V, C.valAt t m = some V ∧ ∃ δ : Rat, 0 < δ ∧ ∃ K : Rat, 0 ≤ K ∧
      ∀ w, start ≤ w → |w - m| < δ → ∃ q, C.valAt t w = some q ∧ |q - V| ≤ K * |w - m| := by
  have hd := affineOn_describes h
  unfold continuousAtChk at hc
  split at hc
  · rename_i V hV
    obtain ⟨p, hp, hm, rfl⟩ := valueAt?_spec hV
    exact ⟨_, hd.val p hp m hm, cont_generic hd hc⟩
  · cases hc

/-- Sum identity `t1 + t2 = t3` pointwise on `[start, ∞)` (all three defined). -/
theorem sumEq_sound {C : Chain} {t1 t2 t3 : String} {start : Rat} {bs : List (Rat × Bool)}
    (hc : sumEqChk C t1 t2 t3 start bs = true) :
    ∀ w, start ≤ w → ∃ q1 q2 q3, C.valAt t1 w = some q1 ∧ C.valAt t2 w = some q2 ∧
      C.valAt t3 w = some q3 ∧ q1 + q2 = q3 := by
  intro w hw
  obtain ⟨I, hI, hm⟩ := pieces_cover start bs w hw
  exact sumEqL_generic hc hI hm

/-- Sum identity on a single interval. -/
theorem sumEq_sound_ivl {C : Chain} {t1 t2 t3 : String} {I : Ivl}
    (hc : sumEqChkL C t1 t2 t3 [I] = true) :
    ∀ w, I.mem w → ∃ q1 q2 q3, C.valAt t1 w = some q1 ∧ C.valAt t2 w = some q2 ∧
      C.valAt t3 w = some q3 ∧ q1 + q2 = q3 :=
  fun _ hw => sumEqL_generic hc (List.mem_singleton.mpr rfl) hw

/-- `checkOn chk … = true` packages "`affineOn` succeeded and `chk` holds of its result". -/
theorem checkOn_elim {chk : Pieces → Bool} {C : Chain} {t : String} {start : Rat}
    {bs : List (Rat × Bool)} (h : checkOn chk C t start bs = true) :
    ∃ pcs, affineOn C t start bs = some pcs ∧ chk pcs = true := by
  unfold checkOn at h
  split at h
  · rename_i pcs hp
    exact ⟨pcs, hp, h⟩
  · cases h

/-! ### 7: non-vacuity on the miniature contribution chain `Mini.chain` -/

section NonVacuity
open Mini

/-- the affine forms with right-closed pieces `[0,450], (450,1300], (1300,7100], (7100,∞)` -/
def miniPcs : Pieces :=
  [(⟨0, true, some 450, true⟩, 0, 0),
   (⟨450, false, some 1300, true⟩, 3999/34000, -10881/340),
   (⟨1300, false, some 7100, true⟩, 93/1000, 0),
   (⟨7100, false, none, false⟩, 0, 6603/10)]

example : bs = rightClosedBreaks [450, 1300, 7100] := by decide +kernel
example : bsPoints = pointBreaks [450, 1300, 7100] := by decide +kernel
example : affineOn chain "beitrag" 0 bs = some miniPcs := by decide +kernel
-- wrong closedness of the breakpoints is rejected, the point/open decomposition accepted
example : (affineOn chain "beitrag" 0 bsWrong).isSome = false := by decide +kernel
example : (affineOn chain "beitrag" 0 bsPoints).isSome = true := by decide +kernel
-- the concrete chain, for comparison
example : chain.valAt "beitrag" 1000 = some (29109 / 340) := by decide +kernel
example : chain.valAt "beitrag" 450 = some 0 := by decide +kernel
example : chain.valAt "beitrag" 10000 = some (6603 / 10) := by decide +kernel

example : checkOn nonnegChk chain "beitrag" 0 bs = true := by decide +kernel
example : checkOn nondecChk chain "beitrag" 0 bs = true := by decide +kernel
example : checkOn nondecChk chain "beitrag" 0 bsPoints = true := by decide +kernel
example : checkOn (zeroBelowChk 450 true) chain "beitrag" 0 bs = true := by decide +kernel
example : checkOn (constantAboveChk 7100 true) chain "beitrag" 0 bs = true := by decide +kernel
example : checkOn (continuousAtChk 1300) chain "beitrag" 0 bs = true := by decide +kernel
example : checkOn (continuousAtChk 7100) chain "beitrag" 0 bsPoints = true := by decide +kernel
-- the employee contribution of this toy chain jumps at 450: the check must fail
example : checkOn (continuousAtChk 450) chain "beitrag" 0 bs = false := by decide +kernel
-- not zero up to 451, not constant from 7000 on
example : checkOn (zeroBelowChk 451 true) chain "beitrag" 0 bs = false := by decide +kernel
example : checkOn (constantAboveChk 7000 true) chain "beitrag" 0 bs = false := by decide +kernel
example : sumEqChk chain "beitrag" "ag" "gesamt" 0 bs = true := by decide +kernel
example : sumEqChk chain "beitrag" "ag" "beitrag" 0 bs = false := by decide +kernel

/-- instantiated: the toy employee contribution is non-negative for EVERY wage `w ≥ 0` -/
example : ∀ w : Rat, 0 ≤ w → ∃ q, chain.valAt "beitrag" w = some q ∧ 0 ≤ q :=
  nonneg_sound (pcs := miniPcs) (bs := bs) (by decide +kernel) (by decide +kernel)

example : ∀ x y : Rat, 0 ≤ x → x ≤ y →
    ∃ qx qy, chain.valAt "beitrag" x = some qx ∧ chain.valAt "beitrag" y = some qy ∧ qx ≤ qy :=
  nondecreasing_sound (pcs := miniPcs) (bs := bs) (by decide +kernel) (by decide +kernel)

example : ∀ w : Rat, 0 ≤ w → w ≤ 450 → chain.valAt "beitrag" w = some 0 :=
  fun w h0 h1 => zeroBelow_sound (pcs := miniPcs) (bs := bs) (g := 450) (incl := true)
    (by decide +kernel) (by decide +kernel) w h0 (by simpa using h1)

example : ∀ w : Rat, 7100 ≤ w → chain.valAt "beitrag" w = some (6603 / 10) := by
  obtain ⟨K, hK, h⟩ := constantAbove_sound (C := chain) (t := "beitrag") (start := 0) (bs := bs)
    (pcs := miniPcs) (c := 7100) (incl := true) (by decide +kernel) (by decide +kernel)
  have : K = 6603 / 10 := by
    have : lastConst miniPcs = some (6603 / 10) := by decide +kernel
    rw [this] at hK
    cases hK
    rfl
  subst this
  intro w hw
  exact h w (by linarith) (by simpa using hw)

example : ∃ V, chain.valAt "beitrag" 1300 = some V ∧
    ∀ ε : Rat, 0 < ε → ∃ δ : Rat, 0 < δ ∧
      ∀ w, 0 ≤ w → |w - 1300| < δ → ∃ q, chain.valAt "beitrag" w = some q ∧ |q - V| < ε :=
  continuousAt_sound (pcs := miniPcs) (bs := bs) (by decide +kernel) (by decide +kernel)

example : ∀ w : Rat, 0 ≤ w → ∃ q1 q2 q3, chain.valAt "beitrag" w = some q1 ∧
    chain.valAt "ag" w = some q2 ∧ chain.valAt "gesamt" w = some q3 ∧ q1 + q2 = q3 :=
  sumEq_sound (bs := bs) (by decide +kernel)

-- evaluator level: the hypotheses of `symBlock_sound` / `symFun_sound` / `symChain_sound` are
-- satisfiable on the midijob piece `(450, 1300]`
example : (symBlock ⟨450, false, some 1300, true⟩
    [("w", .aff 1 0), ("geringf", .const (.bool false)), ("gleitzone", .const (.bool true)),
     ("bemessung", .aff 2 3)] gesamtFn.body).isSome = true := by decide +kernel
example : ((symFun ⟨450, false, some 1300, true⟩ beitragFn
    [.aff 1 0, .const (.bool false), .const (.bool true), .aff 2 3]).bind SVal.lin?) =
    some (279 / 1000, 279 / 500) := by decide +kernel
example : (chain.symPiece ⟨450, false, some 1300, true⟩).isSome = true := by decide +kernel

/-- instantiated `symChain_sound`: on `(450, 1300]` the concrete run never raises -/
example : ∀ w : Rat, 450 < w → w ≤ 1300 → ∃ cenv, chain.run w = .ok cenv := by
  intro w h1 h2
  have hI : (⟨450, false, some 1300, true⟩ : Ivl).mem w := ⟨h1, h2⟩
  cases hs : chain.symPiece ⟨450, false, some 1300, true⟩ with
  | none =>
    have : (chain.symPiece ⟨450, false, some 1300, true⟩).isSome = true := by decide +kernel
    rw [hs] at this
    cases this
  | some env' =>
    refine ⟨env'.eval w, ?_⟩
    have := symChain_sound hs hI
    rw [chain_inputs] at this
    exact this

-- expression level: `max(0, w - 450)` is `w - 450` on `(450, ∞)` but is refused on `[0, 900]`
-- (the selected argument changes inside); `1 / w` is refused (not affine, and `w = 0 ∈ [0,1]`)
example : (symExpr ⟨450, false, none, false⟩ [("w", .aff 1 0)]
    (.call "max" [cI 0, .bin .sub nW (cI 450)])).bind SVal.lin? = some (1, -450) := by
  decide +kernel
example : (symExpr ⟨0, true, some 1, true⟩ [("w", .aff 1 0)]
    (.bin .div (cI 1) nW)).isSome = false := by decide +kernel
example : (symExpr ⟨0, true, some 900, true⟩ [("w", .aff 1 0)]
    (.call "max" [cI 0, .bin .sub nW (cI 450)])).isSome = false := by decide +kernel

end NonVacuity

end GV.Sym
