import GettsimVerif.Lemmas.Dag
/-
Property C06: locality of a reform. Changing some nodes of the system (or a parameter that only
some nodes read) leaves every node that does not depend on a changed node bit-identical —
value or error, for every fuel.

Model: `GV.Dag` (`Core/Dag.lean`). A "reform" is a second system `S'`; `U` lists the names whose
binding may differ (changed, added or removed functions).
-/
namespace GV.Dag

variable {α : Type}

/-- C06.1 If `S` and `S'` agree on every name outside `U` and no name reachable from `m`
(in `S`) is in `U`, then `m` evaluates identically in both systems. (No assumption that the
two systems have the same names is needed.) -/
theorem locality (S S' : Sys α) (D : Data α) (U : List Name) (k : Nat) (m : Name)
    (hagree : ∀ x, x ∉ U → find? S x = find? S' x)
    (hreach : ∀ x ∈ reach S D k m, x ∉ U) :
    eval S D k m = eval S' D k m :=
  eval_congr_reach S S' D D k m (fun x hx => ⟨hagree x (hreach x hx), rfl⟩)

/-- C06.1' Under the same hypotheses the reachable set is the same in both systems, so the
hypothesis `hreach` can equivalently be checked in the reformed system. -/
theorem locality_reach (S S' : Sys α) (D : Data α) (U : List Name) (k : Nat) (m : Name)
    (hagree : ∀ x, x ∉ U → find? S x = find? S' x)
    (hreach : ∀ x ∈ reach S D k m, x ∉ U) :
    reach S D k m = reach S' D k m :=
  reach_congr S S' D D k m (fun x hx => ⟨hagree x (hreach x hx), rfl⟩)

/-- C06.1'' Locality also holds when the data change outside what `m` reaches (e.g. a reform
that comes with new input columns). -/
theorem locality_data (S S' : Sys α) (D D' : Data α) (U : List Name) (k : Nat) (m : Name)
    (hagree : ∀ x, x ∉ U → find? S x = find? S' x ∧ find? D x = find? D' x)
    (hreach : ∀ x ∈ reach S D k m, x ∉ U) :
    eval S D k m = eval S' D' k m :=
  eval_congr_reach S S' D D' k m (fun x hx => hagree x (hreach x hx))

/-- C06.2 (general form) Two systems whose bindings are pairwise extensionally equal (same
dependencies, pointwise equal operations) give identical results everywhere. -/
theorem ext_equiv (S S' : Sys α) (D : Data α) (h : ∀ x, SameBinding (find? S x) (find? S' x))
    (k : Nat) (m : Name) : eval S D k m = eval S' D k m := by
  apply eval_congr_reach
  intro x _
  refine ⟨?_, rfl⟩
  have hx := h x
  unfold SameBinding at hx
  cases hS : find? S x with
  | none => cases hS' : find? S' x with
    | none => rfl
    | some b => rw [hS, hS'] at hx; exact hx.elim
  | some a => cases hS' : find? S' x with
    | none => rw [hS, hS'] at hx; exact hx.elim
    | some b =>
      rw [hS, hS'] at hx
      obtain ⟨ad, aop⟩ := a
      obtain ⟨bd, bop⟩ := b
      simp only at hx
      obtain ⟨h1, h2⟩ := hx
      have : aop = bop := funext h2
      rw [h1, this]

/-- C06.2 Replacing a node by a copy (same dependencies, extensionally equal operation) changes
no result at all. -/
theorem replace_by_copy (S : Sys α) (D : Data α) (n : Name) (node node' : Node α)
    (hS : find? S n = some node) (hdeps : node'.deps = node.deps)
    (hop : ∀ args, node'.op args = node.op args) (k : Nat) (m : Name) :
    eval (replaceNode S n node') D k m = eval S D k m := by
  apply ext_equiv
  intro x
  rw [find?_replaceNode]
  by_cases hx : x = n
  · subst hx
    simp only [if_true, hS, Option.map_some]
    exact ⟨hdeps, hop⟩
  · simp only [hx, if_false]
    cases find? S x with
    | none => trivial
    | some a => exact ⟨rfl, fun _ => rfl⟩

/-- C06.3 Parameters: a family of systems `Sp p` indexed by the parameter value. If every node
outside `U` does not read the parameter and `m` reaches no node of `U`, the value of `m` is the
same for every two parameter values. -/
theorem params_locality {P : Type} (Sp : P → Sys α) (D : Data α) (U : List Name) (p p' : P)
    (k : Nat) (m : Name)
    (hindep : ∀ x, x ∉ U → find? (Sp p) x = find? (Sp p') x)
    (hreach : ∀ x ∈ reach (Sp p) D k m, x ∉ U) :
    eval (Sp p) D k m = eval (Sp p') D k m :=
  locality (Sp p) (Sp p') D U k m hindep hreach

/-! ### non-vacuity -/

/-- parameterised system: only `c` reads the parameter -/
private def Sp (p : Int) : Sys Int :=
  [("a", ⟨[], fun _ => .ok 1⟩),
   ("b", ⟨["a", "x"], fun | [a, x] => .ok (a + x) | _ => .error .typeError⟩),
   ("c", ⟨["b"], fun | [b] => .ok (p * b) | _ => .error .typeError⟩),
   ("d", ⟨["b", "a"], fun | [b, a] => .ok (b - a) | _ => .error .typeError⟩),
   ("e", ⟨["c", "d"], fun | [c, d] => .ok (c + d) | _ => .error .typeError⟩)]
private def D0 : Data Int := [("x", 10)]

/-- `d` does not reach `c`; `e` does, and really changes -/
example : (∀ x ∈ reach (Sp 2) D0 5 "d", x ∉ ["c"]) ∧ "c" ∈ reach (Sp 2) D0 5 "e" ∧
    eval (Sp 2) D0 5 "d" = .ok 10 ∧ eval (Sp 3) D0 5 "d" = .ok 10 ∧
    eval (Sp 2) D0 5 "e" = .ok 32 ∧ eval (Sp 3) D0 5 "e" = .ok 43 := by decide
/-- the agreement hypothesis for this family: the bindings outside `c` are literally equal -/
example (p p' : Int) : ∀ x, x ∉ ["c"] → find? (Sp p) x = find? (Sp p') x := by
  intro x hx
  have : ¬ "c" = x := fun h => hx (by simp [h])
  simp [Sp, find?_cons, this]
/-- a copy of `b` with the arguments added in the other order -/
example : eval (replaceNode (Sp 2) "b"
    ⟨["a", "x"], fun | [a, x] => .ok (x + a) | _ => .error .typeError⟩) D0 5 "e" = .ok 32 := by
  decide

end GV.Dag
