import GettsimVerif.Lemmas.Typing
/-
C20: malformed data are rejected with an error instead of being simulated; automatic type
conversion never changes a numeric value and is announced by a warning.

Model: `GettsimVerif/Core/Typing.lean` (probe table of the real pandas behaviour at its top).
Declarative predicates (`NoDupColumns`, `GroupVarsConstant`, `PidPresentUnique`,
`ForeignKeysValid`, `CellEq`, …): `GettsimVerif/Lemmas/Typing.lean`.
-/
namespace GV.Typing

/-! ## 1. Characterisation of the accepted tables -/

/-- `_process_and_check_data` accepts a table iff column names are unique, every `*_<level>` column
is constant within the groups of every present `<level>_id`, `p_id` is present with pairwise
different values, and every present foreign-key column points only to `-1` or existing `p_id`s and
never to its own row.  (Right-hand side: ∀-statements over rows, see `Lemmas/Typing.lean`.) -/
theorem accepts_iff (levels fks : List String) (t : Table) :
    processAndCheck levels fks t = .ok () ↔
      NoDupColumns t ∧ GroupVarsConstant levels t ∧ PidPresentUnique t ∧ ForeignKeysValid fks t := by
  constructor
  · intro h
    unfold processAndCheck at h
    split at h
    · cases h
    · rename_i hd
      have hnd : NoDupColumns t := dupColumns_eq_false_iff.mp (by simpa using hd)
      have hnd' := noDupColumns_iff.mp hnd
      rcases groupVarsConstant_cases levels t with hg | hg <;> rw [hg] at h <;> simp only at h
      · rcases pidUnique_cases t with hp | hp <;> rw [hp] at h <;> simp only at h
        · have hpu := (pidUnique_ok_iff hnd').mp hp
          obtain ⟨p, hp1, _⟩ := hpu
          exact ⟨hnd, (groupVarsConstant_ok_iff hnd').mp hg, (pidUnique_ok_iff hnd').mp hp,
            (foreignKeysValid_ok_iff hnd' ⟨p, hp1⟩).mp h⟩
        · cases h
      · cases h
  · rintro ⟨hnd, hg, hp, hf⟩
    have hnd' := noDupColumns_iff.mp hnd
    unfold processAndCheck
    rw [dupColumns_eq_false_iff.mpr hnd, (groupVarsConstant_ok_iff hnd').mpr hg,
      (pidUnique_ok_iff hnd').mpr hp]
    obtain ⟨p, hp1, _⟩ := hp
    simpa using (foreignKeysValid_ok_iff hnd' ⟨p, hp1⟩).mpr hf

/-- Whatever is not accepted fails with a `ValueError`. -/
theorem rejected_of_not_accepted {levels fks : List String} {t : Table}
    (h : ¬ (NoDupColumns t ∧ GroupVarsConstant levels t ∧ PidPresentUnique t ∧
      ForeignKeysValid fks t)) :
    processAndCheck levels fks t = .error .valueError := by
  rcases processAndCheck_cases levels fks t with h' | h'
  · exact absurd ((accepts_iff levels fks t).mp h') h
  · exact h'

/-! ## 2. One loud error per fault class -/

/-- A column name occurring at two positions is rejected. -/
theorem dup_column_rejected (levels fks : List String) (t : Table) (i j : Nat) (n : String)
    (hij : i < j) (hi : (columns t)[i]? = some n) (hj : (columns t)[j]? = some n) :
    processAndCheck levels fks t = .error .valueError :=
  rejected_of_not_accepted fun h => h.1 i j n hij hi hj

/-- A table without the column `p_id` is rejected. -/
theorem missing_pid_rejected (levels fks : List String) (t : Table) (h : "p_id" ∉ columns t) :
    processAndCheck levels fks t = .error .valueError :=
  rejected_of_not_accepted fun ⟨_, _, ⟨_, hp, _⟩, _⟩ => h (mem_columns_of_mem hp)

/-- Two rows with the same person identifier are rejected (value equality: `1`, `1.0`, `True`
coincide, and so do two NaNs). -/
theorem duplicate_pid_rejected (levels fks : List String) (t : Table) (p : Col) (i j : Nat)
    (a b : Cell) (hp : ("p_id", p) ∈ t) (hij : i < j)
    (hi : p.cells[i]? = some a) (hj : p.cells[j]? = some b) (hab : a.key = b.key) :
    processAndCheck levels fks t = .error .valueError :=
  rejected_of_not_accepted fun ⟨hnd, _, ⟨p', hp', hd⟩, _⟩ => by
    have hnd' := noDupColumns_iff.mp hnd
    have : p' = p := by
      have h1 := lookup_of_mem hnd' hp'
      rw [lookup_of_mem hnd' hp] at h1
      exact (Option.some.inj h1).symm
    subst this
    exact hd i j a b hij hi hj hab

/-- Integer version: `p_id` column of dtype int64 with a repeated identifier. -/
theorem duplicate_pid_rejected_int (levels fks : List String) (t : Table) (ids : List Int)
    (i j : Nat) (x : Int) (hp : ("p_id", ⟨.int64, ids.map .i⟩) ∈ t) (hij : i < j)
    (hi : ids[i]? = some x) (hj : ids[j]? = some x) :
    processAndCheck levels fks t = .error .valueError :=
  duplicate_pid_rejected levels fks t _ i j (.i x) (.i x) hp hij
    (by simp [List.getElem?_map, hi]) (by simp [List.getElem?_map, hj]) rfl

/-- A spouse/partner/parent pointer that is neither `-1` nor the identifier of some row is
rejected (so is `-2`). -/
theorem dangling_pointer_rejected (levels fks : List String) (t : Table) (p c : Col) (k : String)
    (v : Cell) (hp : ("p_id", p) ∈ t) (hk : k ∈ fks) (hc : (k, c) ∈ t) (hv : v ∈ c.cells)
    (hne : v.key ≠ .i (-1)) (hdangling : ∀ q, q ∈ p.cells → v.key ≠ q.key) :
    processAndCheck levels fks t = .error .valueError :=
  rejected_of_not_accepted fun ⟨_, _, _, hf⟩ => by
    obtain ⟨i, hi⟩ := List.mem_iff_getElem?.mp hv
    rcases ((hf p hp k hk c hc).2 i v hi).1 with h | ⟨q, hq, h⟩
    · exact hne h
    · exact hdangling q hq h

/-- Integer version: pointer `x ≠ -1` not among the `p_id`s. -/
theorem dangling_pointer_rejected_int (levels fks : List String) (t : Table) (ids ptrs : List Int)
    (k : String) (x : Int) (hp : ("p_id", ⟨.int64, ids.map .i⟩) ∈ t) (hk : k ∈ fks)
    (hc : (k, ⟨.int64, ptrs.map .i⟩) ∈ t) (hx : x ∈ ptrs) (hne : x ≠ -1) (hdangling : x ∉ ids) :
    processAndCheck levels fks t = .error .valueError := by
  refine dangling_pointer_rejected levels fks t _ _ k (.i x) hp hk hc
    (List.mem_map.mpr ⟨x, hx, rfl⟩) ?_ ?_
  · intro h; rw [Cell.key_i] at h; cases h; exact hne rfl
  · intro q hq h
    obtain ⟨y, hy, rfl⟩ := List.mem_map.mp hq
    rw [Cell.key_i, Cell.key_i] at h
    cases h; exact hdangling hy

/-- A pointer equal to the `p_id` of its own row is rejected. -/
theorem self_pointer_rejected (levels fks : List String) (t : Table) (p c : Col) (k : String)
    (i : Nat) (v q : Cell) (hp : ("p_id", p) ∈ t) (hk : k ∈ fks) (hc : (k, c) ∈ t)
    (hv : c.cells[i]? = some v) (hq : p.cells[i]? = some q) (hself : CellEq v q) :
    processAndCheck levels fks t = .error .valueError :=
  rejected_of_not_accepted fun ⟨_, _, _, hf⟩ =>
    ((hf p hp k hk c hc).2 i v hv).2 q hq hself

/-- Two rows of one group (equal `<L>_id`) with different values of a `*_<L>` column are
rejected, for every supported level `L` whose id column is in the data (e.g. `L = "hh"`). -/
theorem group_var_not_constant_rejected (levels fks : List String) (t : Table) (L stem : String)
    (ids col : Col) (i j : Nat) (g g' v w : Cell) (hL : L ∈ levels)
    (hids : (L ++ "_id", ids) ∈ t) (hcol : (stem ++ "_" ++ L, col) ∈ t)
    (hgi : ids.cells[i]? = some g) (hgj : ids.cells[j]? = some g') (hsame : g.key = g'.key)
    (hvi : col.cells[i]? = some v) (hvj : col.cells[j]? = some w) (hdiff : w.key ≠ v.key) :
    processAndCheck levels fks t = .error .valueError :=
  rejected_of_not_accepted fun ⟨_, hg, _, _⟩ => by
    obtain ⟨g0, hg0, _, _, hall⟩ := hg L hL ids hids _ col hcol ⟨stem, rfl⟩ i v hvi
    rw [hgi] at hg0; cases hg0
    exact hdiff (hall j g' w hgj hvj hsame)

/-- A missing value (NaN) in a `*_<L>` column, or a row whose `<L>_id` is NaN or absent, is
rejected as well ("every row equals its group maximum" fails for NaN). -/
theorem group_var_nan_rejected (levels fks : List String) (t : Table) (L stem : String)
    (ids col : Col) (i : Nat) (v : Cell) (hL : L ∈ levels)
    (hids : (L ++ "_id", ids) ∈ t) (hcol : (stem ++ "_" ++ L, col) ∈ t)
    (hvi : col.cells[i]? = some v)
    (hnan : v = .fnan ∨ ids.cells[i]? = some .fnan ∨ ids.cells[i]? = none) :
    processAndCheck levels fks t = .error .valueError :=
  rejected_of_not_accepted fun ⟨_, hg, _, _⟩ => by
    obtain ⟨g0, hg0, hgn, hvn, _⟩ := hg L hL ids hids _ col hcol ⟨stem, rfl⟩ i v hvi
    rcases hnan with h | h | h
    · exact hvn h
    · rw [h] at hg0; cases hg0; exact hgn rfl
    · rw [h] at hg0; cases hg0

/-! ### Non-vacuity: one valid table accepted, one table per fault class rejected -/

private def iC (l : List Int) : Col := ⟨.int64, l.map .i⟩
private def fC (l : List Rat) : Col := ⟨.float64, l.map .f⟩

/-- a well-formed three-person table -/
private def good : Table :=
  [("p_id", iC [1, 2, 3]), ("hh_id", iC [1, 1, 2]), ("wohnfläche_hh", fC [50, 50, 70]),
   ("p_id_ehepartner", iC [2, 1, -1]), ("p_id_elternteil_1", iC [-1, -1, 1])]

example : processAndCheck supportedGroupings foreignKeys good = .ok () := by decide +kernel

example : NoDupColumns good ∧ GroupVarsConstant supportedGroupings good ∧ PidPresentUnique good ∧
    ForeignKeysValid foreignKeys good :=
  (accepts_iff _ _ _).mp (by decide +kernel)

-- duplicate column
example : processAndCheck supportedGroupings foreignKeys
    [("p_id", iC [1, 2]), ("alter", iC [30, 40]), ("alter", iC [30, 41])] = .error .valueError := by
  decide +kernel
-- missing p_id
example : processAndCheck supportedGroupings foreignKeys
    [("hh_id", iC [1, 1]), ("alter", iC [30, 40])] = .error .valueError := by decide +kernel
-- duplicate p_id
example : processAndCheck supportedGroupings foreignKeys
    [("p_id", iC [1, 2, 1]), ("hh_id", iC [1, 1, 2])] = .error .valueError := by decide +kernel
-- dangling pointer (7 is nobody), and -2
example : processAndCheck supportedGroupings foreignKeys
    [("p_id", iC [1, 2, 3]), ("p_id_ehepartner", iC [2, 1, 7])] = .error .valueError := by
  decide +kernel
example : processAndCheck supportedGroupings foreignKeys
    [("p_id", iC [1, 2, 3]), ("p_id_elternteil_2", iC [-1, -1, -2])] = .error .valueError := by
  decide +kernel
-- pointer to oneself
example : processAndCheck supportedGroupings foreignKeys
    [("p_id", iC [1, 2, 3]), ("p_id_einstandspartner", iC [2, 1, 3])] = .error .valueError := by
  decide +kernel
-- household variable varying within a household
example : processAndCheck supportedGroupings foreignKeys
    [("p_id", iC [1, 2, 3]), ("hh_id", iC [1, 1, 2]), ("wohnfläche_hh", fC [50, 60, 70])]
      = .error .valueError := by decide +kernel
-- NaN in a household variable
example : processAndCheck supportedGroupings foreignKeys
    [("p_id", iC [1, 2, 3]), ("hh_id", iC [1, 1, 2]),
     ("wohnfläche_hh", ⟨.float64, [.fnan, .fnan, .f 70]⟩)] = .error .valueError := by
  decide +kernel
-- `*_wthh` is not checked when only `hh_id` is given
example : processAndCheck supportedGroupings foreignKeys
    [("p_id", iC [1, 2, 3]), ("hh_id", iC [1, 1, 2]), ("x_wthh", iC [1, 2, 3])] = .ok () := by
  decide +kernel

-- hypotheses of the fault theorems are satisfiable
example : (columns [("p_id", iC [1]), ("a", iC [1]), ("a", iC [2])])[1]? = some "a" ∧
    (columns [("p_id", iC [1]), ("a", iC [1]), ("a", iC [2])])[2]? = some "a" := by decide
example : "p_id" ∉ columns [("hh_id", iC [1, 1])] := by decide
example : ("p_id", (⟨.int64, [1, 2, 1].map .i⟩ : Col)) ∈ [("p_id", iC [1, 2, 1])] ∧
    ([1, 2, 1] : List Int)[0]? = some 1 ∧ ([1, 2, 1] : List Int)[2]? = some 1 := by decide
example : (7 : Int) ∈ [2, 1, 7] ∧ (7 : Int) ≠ -1 ∧ (7 : Int) ∉ [1, 2, 3] := by decide
example : CellEq (.i 3) (.i 3) ∧ CellEq (.f 3) (.i 3) ∧ ¬ CellEq .fnan .fnan := by
  refine ⟨⟨by decide, by decide⟩, ⟨by decide, by decide +kernel⟩, fun h => h.1 rfl⟩
example : "hh" ∈ supportedGroupings ∧ ("wohnfläche" ++ "_" ++ "hh" : String) = "wohnfläche_hh" ∧
    (Cell.f 60).key ≠ (Cell.f 50).key := by decide +kernel

/-! ## 3. Automatic conversion never changes a numeric value -/

/-- A successful conversion of an int64 / float64 / bool column yields a column of the target
dtype with the same number of rows, and in every row the numeric value (`numOf`: bool ↦ 0/1, int,
finite float; NaN/±inf ↦ none) is unchanged.  Explicit guard: when the target is float, int64
cells must be exactly representable as a double (|v| ≤ 2^53). -/
theorem convert_lossless (c c' : Col) (t : ITy) (h : convert c t = .ok c')
    (hsrc : c.dtype = .int64 ∨ c.dtype = .float64 ∨ c.dtype = .bool)
    (hguard : t = .float → ∀ v : Int, Cell.i v ∈ c.cells → v.natAbs ≤ 2 ^ 53) :
    c'.dtype = t.dtype ∧ c'.cells.length = c.cells.length ∧
      ∀ (i : Nat) (h1 : i < c.cells.length) (h2 : i < c'.cells.length),
        numOf c'.cells[i] = numOf c.cells[i] := by
  obtain ⟨f, hf, hmap, hd⟩ := convert_ok h
  obtain ⟨hlen, hpt⟩ := mapE_ok hmap
  refine ⟨hd, hlen, fun i h1 h2 => ?_⟩
  obtain ⟨y, hy, hfy⟩ := hpt i c.cells[i] (List.getElem?_eq_getElem h1)
  rw [List.getElem?_eq_getElem h2] at hy
  cases hy
  refine cellFn_lossless hsrc hf _ _ (fun ht v hv => ?_) hfy
  have : Cell.i v ∈ c.cells := by rw [← hv]; exact List.getElem_mem h1
  simpa [exactlyRepresentable] using hguard ht v this

/-- Without the guard the value changes: the int64 value 2^53+1 is silently converted to the
float 2^53 (and the conversion succeeds). -/
theorem convert_int_to_float_rounds_beyond_2_53 :
    convert ⟨.int64, [.i (2 ^ 53 + 1)]⟩ .float = .ok ⟨.float64, [.f (2 ^ 53)]⟩ ∧
      numOf (.f (2 ^ 53)) ≠ numOf (.i (2 ^ 53 + 1)) := by
  decide +kernel

/-- str → float: every string cell is replaced by the double nearest to the number it spells
(python `float()`); in particular every string must parse. -/
theorem convert_str_to_float_parsed (c c' : Col) (h : convert c .float = .ok c')
    (hsrc : c.dtype = .str) (i : Nat) (s : String) (hi : c.cells[i]? = some (.s s)) :
    ∃ y, c'.cells[i]? = some y ∧ parseFloat s = some y := by
  obtain ⟨f, hf, hmap, _⟩ := convert_ok h
  rw [hsrc] at hf
  injection hf with hf; subst hf
  obtain ⟨y, hy, hfy⟩ := (mapE_ok hmap).2 i _ hi
  refine ⟨y, hy, ?_⟩
  simp only [strToFloat] at hfy
  split at hfy
  · rename_i c0 hc0; cases hfy; exact hc0
  · cases hfy

/-- str → int: every string cell is replaced by the integer it spells (python `int()`). -/
theorem convert_str_to_int_parsed (c c' : Col) (h : convert c .int = .ok c')
    (hsrc : c.dtype = .str) (i : Nat) (s : String) (hi : c.cells[i]? = some (.s s)) :
    ∃ z : Int, c'.cells[i]? = some (.i z) ∧ parseInt s = .ok z := by
  obtain ⟨f, hf, hmap, _⟩ := convert_ok h
  rw [hsrc] at hf
  injection hf with hf; subst hf
  obtain ⟨y, hy, hfy⟩ := (mapE_ok hmap).2 i _ hi
  simp only [strToInt] at hfy
  split at hfy
  · rename_i z hz; cases hfy; exact ⟨z, hy, hz⟩
  · cases hfy

/-- Finding: a datetime column given where an int is documented is converted (with a warning only)
to its epoch offsets. -/
theorem convert_datetime_to_int_epoch (c c' : Col) (h : convert c .int = .ok c')
    (hsrc : c.dtype = .datetime) (i : Nat) (o : Int) (hi : c.cells[i]? = some (.d o)) :
    c'.cells[i]? = some (.i o) := by
  obtain ⟨f, hf, hmap, _⟩ := convert_ok h
  rw [hsrc] at hf
  injection hf with hf; subst hf
  obtain ⟨y, hy, hfy⟩ := (mapE_ok hmap).2 i _ hi
  simp only [dateToInt] at hfy
  cases hfy; exact hy

-- non-vacuity
example : convert ⟨.float64, [.f 0, .f 1, .f 7]⟩ .int = .ok ⟨.int64, [.i 0, .i 1, .i 7]⟩ := by
  decide +kernel
example : convert ⟨.int64, [.i 0, .i (-3), .i (2 ^ 53)]⟩ .float
    = .ok ⟨.float64, [.f 0, .f (-3), .f (2 ^ 53)]⟩ := by decide +kernel
example : convert ⟨.bool, [.b true, .b false]⟩ .int = .ok ⟨.int64, [.i 1, .i 0]⟩ := by
  decide +kernel
example : convert ⟨.float64, [.f 0, .f 1]⟩ .bool = .ok ⟨.bool, [.b false, .b true]⟩ := by
  decide +kernel
example : convert ⟨.str, [.s " 1.5", .s "1e3", .s "0.1"]⟩ .float
    = .ok ⟨.float64, [.f (3 / 2), .f 1000, .f (3602879701896397 / 36028797018963968)]⟩ := by
  decide +kernel
example : convert ⟨.str, [.s "12", .s "-7"]⟩ .int = .ok ⟨.int64, [.i 12, .i (-7)]⟩ := by
  decide +kernel
example : convert ⟨.datetime, [.d 1577836800000000]⟩ .int = .ok ⟨.int64, [.i 1577836800000000]⟩ := by
  decide +kernel

/-! ## 4. Conversions that would change a value are rejected -/

/-- float → int: a cell that is not a finite integral value within the int64 range (a fraction,
NaN, ±inf, 1e30) makes the conversion fail with a `ValueError`. -/
theorem convert_rejects_lossy_float_to_int (c : Col) (x : Cell) (hsrc : c.dtype = .float64)
    (hx : x ∈ c.cells)
    (hlossy : ∀ z : Int, -(2 ^ 63 : Int) ≤ z → z < (2 ^ 63 : Int) → x ≠ .f (z : Rat)) :
    convert c .int = .error .valueError := by
  have hf : cellFn c.dtype .int = .ok floatToInt := by rw [hsrc]; rfl
  rw [convert_eq_of_cellFn hf,
    mapE_valueError (f := floatToInt) (fun _ _ => floatToInt_err) hx (floatToInt_fails hlossy)]

/-- int/float → bool: a cell whose value is neither 0 nor 1 (also NaN, ±inf) makes the conversion
fail with a `ValueError`. -/
theorem convert_rejects_lossy_to_bool (c : Col) (x : Cell)
    (hsrc : c.dtype = .int64 ∨ c.dtype = .float64) (hx : x ∈ c.cells)
    (h0 : numOf x ≠ some 0) (h1 : numOf x ≠ some 1) :
    convert c .bool = .error .valueError := by
  rcases hsrc with hsrc | hsrc
  · have hf : cellFn c.dtype .bool = .ok intToBool := by rw [hsrc]; rfl
    rw [convert_eq_of_cellFn hf,
      mapE_valueError (f := intToBool) (fun _ _ => intToBool_err) hx (intToBool_fails h0 h1)]
  · have hf : cellFn c.dtype .bool = .ok floatToBool := by rw [hsrc]; rfl
    rw [convert_eq_of_cellFn hf,
      mapE_valueError (f := floatToBool) (fun _ _ => floatToBool_err) hx (floatToBool_fails h0 h1)]

/-- bool → float is not supported. -/
theorem convert_rejects_bool_to_float (c : Col) (hsrc : c.dtype = .bool) :
    convert c .float = .error .valueError := by
  unfold convert; rw [hsrc]; rfl

/-- Object dtype is rejected for every target type. -/
theorem convert_rejects_object (c : Col) (t : ITy) (hsrc : c.dtype = .object) :
    convert c t = .error .valueError := by
  unfold convert; rw [hsrc]; rfl

/-- Only int and float columns can become bool (str, datetime, and even bool itself: ValueError). -/
theorem convert_rejects_other_to_bool (c : Col) (h1 : c.dtype ≠ .int64) (h2 : c.dtype ≠ .float64) :
    convert c .bool = .error .valueError := by
  unfold convert
  cases hd : c.dtype <;> first | rfl | exact absurd hd h1 | exact absurd hd h2

/-- Nothing but a datetime column can become datetime. -/
theorem convert_rejects_to_datetime (c : Col) (h : c.dtype ≠ .datetime) :
    convert c .datetime = .error .valueError := by
  unfold convert
  cases hd : c.dtype <;> first | rfl | exact absurd hd h

/-- The four statements of C20 item 4 in one theorem. -/
theorem convert_rejects_lossy :
    (∀ (c : Col) (x : Cell), c.dtype = .float64 → x ∈ c.cells →
        (∀ z : Int, -(2 ^ 63 : Int) ≤ z → z < (2 ^ 63 : Int) → x ≠ .f (z : Rat)) →
        convert c .int = .error .valueError) ∧
    (∀ (c : Col) (x : Cell), c.dtype = .int64 ∨ c.dtype = .float64 → x ∈ c.cells →
        numOf x ≠ some 0 → numOf x ≠ some 1 → convert c .bool = .error .valueError) ∧
    (∀ c : Col, c.dtype = .bool → convert c .float = .error .valueError) ∧
    (∀ (c : Col) (t : ITy), c.dtype = .object → convert c t = .error .valueError) :=
  ⟨fun c x h1 h2 h3 => convert_rejects_lossy_float_to_int c x h1 h2 h3,
   fun c x h1 h2 h3 h4 => convert_rejects_lossy_to_bool c x h1 h2 h3 h4,
   convert_rejects_bool_to_float, convert_rejects_object⟩

-- non-vacuity: the hypotheses hold for 1.5, NaN, +inf; 2 is neither 0 nor 1
example : ∀ z : Int, -(2 ^ 63 : Int) ≤ z → z < (2 ^ 63 : Int) → Cell.f (3 / 2) ≠ .f (z : Rat) := by
  intro z _ _ h
  injection h with h
  have : ((3 / 2 : Rat)).den = ((z : Int) : Rat).den := by rw [h]
  rw [Rat.den_intCast] at this
  revert this; decide +kernel
example : ∀ z : Int, -(2 ^ 63 : Int) ≤ z → z < (2 ^ 63 : Int) → Cell.fnan ≠ .f (z : Rat) :=
  fun _ _ _ h => by cases h
example : convert ⟨.float64, [.f 1, .f (3 / 2)]⟩ .int = .error .valueError := by decide +kernel
example : convert ⟨.float64, [.f 1, .fnan]⟩ .int = .error .valueError := by decide +kernel
example : convert ⟨.float64, [.finf false]⟩ .int = .error .valueError := by decide +kernel
example : convert ⟨.float64, [.f (10 ^ 30)]⟩ .int = .error .valueError := by decide +kernel
example : numOf (.i 2) ≠ some 0 ∧ numOf (.i 2) ≠ some 1 ∧ numOf .fnan ≠ some 0 := by
  decide +kernel
example : convert ⟨.int64, [.i 0, .i 2]⟩ .bool = .error .valueError := by decide +kernel
example : convert ⟨.float64, [.f 0, .fnan]⟩ .bool = .error .valueError := by decide +kernel
example : convert ⟨.bool, [.b true]⟩ .float = .error .valueError := by decide +kernel
example : convert ⟨.object, [.i 1, .i 2]⟩ .int = .error .valueError := by decide +kernel
example : convert ⟨.str, [.s "1.5"]⟩ .int = .error .valueError := by decide +kernel
example : convert ⟨.str, [.s "abc"]⟩ .float = .error .valueError := by decide +kernel

/-! ## 5. The warning is emitted exactly when something was converted -/

/-- A column that is undocumented or already has its documented type is left untouched by
`_convert_data_to_correct_types` and (column names being unique) is not listed in the warning. -/
theorem convert_identity_when_typed (types : List (String × ITy)) (t t' : Table)
    (names : List String) (h : convertAll types t = .ok (t', names)) (i : Nat) (n : String)
    (c : Col) (hi : t[i]? = some (n, c))
    (htyped : ∀ ty, lookupTy types n = some ty → hasExpectedType c ty = true) :
    t'[i]? = some (n, c) ∧ ((columns t).Nodup → n ∉ names) := by
  obtain ⟨hnames, _, hpt⟩ := convertAllAux_ok (convertAll_ok h)
  have hnc : needsConv types (n, c) = false := by
    unfold needsConv
    cases hl : lookupTy types n with
    | none => rfl
    | some ty => simp [htyped ty hl]
  obtain ⟨nc', h1, h2⟩ := hpt i _ hi
  constructor
  · rcases h2 with ⟨_, rfl⟩ | ⟨ty, c', hl, he, _⟩
    · exact h1
    · rw [htyped ty hl] at he; cases he
  · intro hnd hmem
    rw [hnames] at hmem
    obtain ⟨nc, hnc1, hnc2⟩ := List.mem_map.mp hmem
    obtain ⟨hnc1, hnc3⟩ := List.mem_filter.mp hnc1
    have hmem' : (n, c) ∈ t := List.mem_iff_getElem?.mpr ⟨i, hi⟩
    have : nc = (n, c) := by
      obtain ⟨n0, c0⟩ := nc
      simp only at hnc2; subst hnc2
      have e1 := lookup_of_mem hnd hnc1
      rw [lookup_of_mem hnd hmem'] at e1
      cases e1; rfl
    rw [this, hnc] at hnc3; cases hnc3

/-- If every documented column already has its type, the table is returned unchanged and the list
of conversions is empty (no warning). -/
theorem convertAll_identity_when_all_typed (types : List (String × ITy)) (t : Table)
    (h : ∀ n c ty, (n, c) ∈ t → lookupTy types n = some ty → hasExpectedType c ty = true) :
    convertAll types t = .ok (t, []) := by
  unfold convertAll
  rw [convertAllAux_all_typed]
  · rfl
  · intro nc hnc
    unfold needsConv
    cases hl : lookupTy types nc.1 with
    | none => rfl
    | some ty => simp [h nc.1 nc.2 ty hnc hl]

/-- On success the listed names are exactly the documented columns that did not have their
expected type; hence the warning is emitted iff there was such a column. -/
theorem warning_iff_converted (types : List (String × ITy)) (t t' : Table) (names : List String)
    (h : convertAll types t = .ok (t', names)) :
    names = (t.filter (needsConv types)).map (·.1) ∧
    (names ≠ [] ↔ ∃ n c ty, (n, c) ∈ t ∧ lookupTy types n = some ty ∧
      hasExpectedType c ty = false) := by
  obtain ⟨hnames, _, _⟩ := convertAllAux_ok (convertAll_ok h)
  refine ⟨hnames, ?_⟩
  rw [hnames]
  constructor
  · intro hne
    cases hf : t.filter (needsConv types) with
    | nil => rw [hf] at hne; exact absurd rfl hne
    | cons nc rest =>
      have hm : nc ∈ t.filter (needsConv types) := by rw [hf]; exact List.mem_cons_self
      obtain ⟨hm1, hm2⟩ := List.mem_filter.mp hm
      unfold needsConv at hm2
      cases hl : lookupTy types nc.1 with
      | none => rw [hl] at hm2; cases hm2
      | some ty =>
        rw [hl] at hm2
        exact ⟨nc.1, nc.2, ty, hm1, hl, by simpa using hm2⟩
  · rintro ⟨n, c, ty, hm, hl, he⟩ hnil
    have : (n, c) ∈ t.filter (needsConv types) :=
      List.mem_filter.mpr ⟨hm, by simp [needsConv, hl, he]⟩
    have : n ∈ (t.filter (needsConv types)).map (·.1) := List.mem_map.mpr ⟨_, this, rfl⟩
    rw [hnil] at this; cases this

/-- On success the result has the same column names in the same order, every listed column really
is the result of `convert`, and every documented column of the result has its documented type. -/
theorem convertAll_result (types : List (String × ITy)) (t t' : Table) (names : List String)
    (h : convertAll types t = .ok (t', names)) :
    t'.length = t.length ∧
    ∀ (i : Nat) (n : String) (c : Col), t[i]? = some (n, c) →
      ∃ c', t'[i]? = some (n, c') ∧
        (∀ ty, lookupTy types n = some ty → hasExpectedType c' ty = true) ∧
        (c' = c ∨ ∃ ty, lookupTy types n = some ty ∧ convert c ty = .ok c') := by
  obtain ⟨_, hlen, hpt⟩ := convertAllAux_ok (convertAll_ok h)
  refine ⟨hlen, fun i n c hi => ?_⟩
  obtain ⟨nc', h1, h2⟩ := hpt i _ hi
  rcases h2 with ⟨hn, rfl⟩ | ⟨ty, c', hl, he, hc, rfl⟩
  · refine ⟨c, h1, fun ty hl => ?_, Or.inl rfl⟩
    simpa [needsConv, hl] using hn
  · refine ⟨c', h1, fun ty' hl' => ?_, Or.inr ⟨ty, hl, hc⟩⟩
    simp only at hl
    rw [hl] at hl'; cases hl'
    obtain ⟨_, _, _, hd⟩ := convert_ok hc
    exact hasExpectedType_iff.mpr hd

/-- A documented column whose conversion fails makes the whole call fail (all columns are
attempted; one failing column suffices); if all failures are `ValueError`s so is the result. -/
theorem convertAll_rejects (types : List (String × ITy)) (t : Table) (n : String) (c : Col)
    (ty : ITy) (e : Err) (hm : (n, c) ∈ t) (hl : lookupTy types n = some ty)
    (he : hasExpectedType c ty = false) (hc : convert c ty = .error e) :
    (∃ e', convertAll types t = .error e') ∧
    ((∀ nc e, nc ∈ t → colOutcome types nc = .error e → e = .valueError) →
      convertAll types t = .error .valueError) := by
  have hco : colOutcome types (n, c) = .error e := colOutcome_error_of hl he hc
  constructor
  · unfold convertAll
    cases haux : convertAllAux types t with
    | error e' => exact ⟨e', rfl⟩
    | ok r =>
      obtain ⟨t', names, bad⟩ := r
      have := convertAllAux_bad hm hco haux
      subst this
      exact ⟨.valueError, rfl⟩
  · intro hall
    obtain ⟨⟨t', names, bad⟩, haux⟩ := convertAllAux_no_other hall
    have := convertAllAux_bad hm hco haux
    subst this
    unfold convertAll; rw [haux]; rfl

-- non-vacuity
private def docTypes : List (String × ITy) :=
  [("p_id", .int), ("hh_id", .int), ("vermögen_bedürft", .float), ("eigenbedarf_gedeckt", .bool)]

example : convertAll docTypes
    [("p_id", iC [1, 2]), ("vermögen_bedürft", fC [0, 1000]), ("notiz", ⟨.object, [.s "a", .i 1]⟩)]
    = .ok ([("p_id", iC [1, 2]), ("vermögen_bedürft", fC [0, 1000]),
            ("notiz", ⟨.object, [.s "a", .i 1]⟩)], []) := by decide +kernel
example : convertAll docTypes
    [("p_id", fC [1, 2]), ("vermögen_bedürft", iC [0, 1000]), ("eigenbedarf_gedeckt", iC [0, 1]),
     ("hh_id", iC [1, 1])]
    = .ok ([("p_id", iC [1, 2]), ("vermögen_bedürft", fC [0, 1000]),
            ("eigenbedarf_gedeckt", ⟨.bool, [.b false, .b true]⟩), ("hh_id", iC [1, 1])],
           ["p_id", "vermögen_bedürft", "eigenbedarf_gedeckt"]) := by decide +kernel
example : convertAll docTypes [("p_id", fC [1, 3 / 2]), ("vermögen_bedürft", iC [0, 1000])]
    = .error .valueError := by decide +kernel
-- a non-ValueError exception (TypeError datetime → float) propagates
example : convertAll docTypes [("p_id", fC [1, 3 / 2]), ("vermögen_bedürft", ⟨.datetime, [.d 0]⟩)]
    = .error .typeError := by decide +kernel

/-! ## 6. Missing required columns -/

/-- `_fail_if_root_nodes_are_missing` reports exactly the root nodes that are neither a column of
the data nor a function depending on parameters only. -/
theorem missingRoots_spec (roots : List String) (t : Table) (paramOnly : List String) (r : String) :
    r ∈ missingRoots roots t paramOnly ↔ r ∈ roots ∧ r ∉ columns t ∧ r ∉ paramOnly := by
  simp [missingRoots, List.mem_filter]

/-- Hence the check passes iff every root node is provided. -/
theorem missingRoots_nil_iff (roots : List String) (t : Table) (paramOnly : List String) :
    missingRoots roots t paramOnly = [] ↔ ∀ r, r ∈ roots → r ∈ columns t ∨ r ∈ paramOnly := by
  rw [List.eq_nil_iff_forall_not_mem]
  constructor
  · intro h r hr
    have := h r
    rw [missingRoots_spec] at this
    by_cases h1 : r ∈ columns t
    · exact Or.inl h1
    · by_cases h2 : r ∈ paramOnly
      · exact Or.inr h2
      · exact absurd ⟨hr, h1, h2⟩ this
  · intro h r hr
    rw [missingRoots_spec] at hr
    rcases h r hr.1 with h1 | h1
    · exact hr.2.1 h1
    · exact hr.2.2 h1

example : missingRoots ["p_id", "alter", "kindergeld_params_only"] [("p_id", iC [1])]
    ["kindergeld_params_only"] = ["alter"] := by decide
example : missingRoots ["p_id"] [("p_id", iC [1])] [] = [] := by decide

end GV.Typing
