import GettsimVerif.Lemmas.Dag
/-
Property C05: supplying a column that the system could compute itself.

Model: `GV.Dag` (`Core/Dag.lean`): a data column overrides the function of the same name.
-/
namespace GV.Dag

variable {α : Type}

/-- C05.1 (general form) Let `v` be the value the system computes for `n`. If the data `D'`
differ from `D` at most in the binding of `n`, which is then `v`, every result that was
computed from `D` (with any fuel) is also computed from `D'`. -/
theorem override_equiv_gen (S : Sys α) (D D' : Data α) (n : Name) (v : α) (k : Nat)
    (hn : eval S D k n = .ok v)
    (hD' : ∀ m, find? D' m = find? D m ∨ (m = n ∧ find? D' m = some v))
    (k' : Nat) (m : Name) (w : α) (h : eval S D k' m = .ok w) : eval S D' k' m = .ok w := by
  induction k' generalizing m w with
  | zero => simp [eval] at h
  | succ k' ih =>
    rcases hD' m with hsame | ⟨rfl, hv⟩
    · cases hD : find? D m with
      | some c =>
        rw [eval_succ_of_data hD] at h
        rw [eval_succ_of_data (hsame.trans hD)]
        exact h
      | none =>
        cases hS : find? S m with
        | none => rw [eval_succ_of_missing hD hS] at h; cases h
        | some node =>
          rw [eval_succ_of_node hD hS] at h
          rw [eval_succ_of_node (hsame.trans hD) hS]
          cases hargs : evalAll (eval S D k') node.deps with
          | error e => rw [hargs] at h; cases h
          | ok args =>
            rw [hargs] at h
            rw [evalAll_ok_mono (fun d _ u hu => ih d u hu) hargs]
            exact h
    · rw [eval_succ_of_data hv, eval_fuel_det S D hn h]

/-- C05.1 Supplying a node's own value as a data column (in front) changes no result. -/
theorem override_equiv (S : Sys α) (D : Data α) (n : Name) (v : α) (k : Nat)
    (hn : eval S D k n = .ok v) (k' : Nat) (m : Name) (w : α) (h : eval S D k' m = .ok w) :
    eval S ((n, v) :: D) k' m = .ok w := by
  refine override_equiv_gen S D _ n v k hn (fun m' => ?_) k' m w h
  by_cases hm : n = m'
  · subst hm; exact Or.inr ⟨rfl, find?_cons_self n v D⟩
  · exact Or.inl (find?_cons_ne v D hm)

/-- C05.1' The same with the new column appended at the end of the data (if `D` already has a
column `n`, that column stays in force and equals `v` anyway; no side condition is needed). -/
theorem override_equiv_append (S : Sys α) (D : Data α) (n : Name) (v : α) (k : Nat)
    (hn : eval S D k n = .ok v) (k' : Nat) (m : Name) (w : α) (h : eval S D k' m = .ok w) :
    eval S (D ++ [(n, v)]) k' m = .ok w := by
  refine override_equiv_gen S D _ n v k hn (fun m' => ?_) k' m w h
  by_cases hm : n = m'
  · subst hm
    rw [find?_append, find?_cons_self]
    cases hD : find? D n with
    | none => exact Or.inr ⟨rfl, rfl⟩
    | some c => exact Or.inl rfl
  · exact Or.inl (find?_append_ne D v hm)

/-- C05.1'' Converse: whatever is computed with the supplied column is also computed without
it (the supplied column only saves depth: at most the `k` levels needed for `n` itself). -/
theorem override_equiv_conv (S : Sys α) (D D' : Data α) (n : Name) (v : α) (k : Nat)
    (hn : eval S D k n = .ok v)
    (hD' : ∀ m, find? D' m = find? D m ∨ (m = n ∧ find? D' m = some v))
    (k' : Nat) (m : Name) (w : α) (h : eval S D' k' m = .ok w) : eval S D (k' + k) m = .ok w := by
  induction k' generalizing m w with
  | zero => simp [eval] at h
  | succ k' ih =>
    have hk : k' + 1 + k = (k' + k) + 1 := by omega
    rcases hD' m with hsame | ⟨rfl, hv⟩
    · cases hD : find? D m with
      | some c =>
        rw [eval_succ_of_data (hsame.trans hD)] at h
        rw [hk, eval_succ_of_data hD]
        exact h
      | none =>
        cases hS : find? S m with
        | none => rw [eval_succ_of_missing (hsame.trans hD) hS] at h; cases h
        | some node =>
          rw [eval_succ_of_node (hsame.trans hD) hS] at h
          rw [hk, eval_succ_of_node hD hS]
          cases hargs : evalAll (eval S D' k') node.deps with
          | error e => rw [hargs] at h; cases h
          | ok args =>
            rw [hargs] at h
            rw [evalAll_ok_mono (fun d _ u hu => ih d u hu) hargs]
            exact h
    · rw [eval_succ_of_data hv] at h
      cases h
      exact eval_fuel_le S D (by omega) _ _ hn

/-- C05.2 A supplied column is used, never the function: whatever `S` says about `n`
(function, failing function, no function at all), the value of `n` is the first data binding. -/
theorem override_used (S : Sys α) (D : Data α) (n : Name) (c : α) (k : Nat)
    (h : find? D n = some c) : eval S D (k + 1) n = .ok c :=
  eval_succ_of_data h

/-- C05.2' … in particular for a column put in front of the data. -/
theorem override_used_cons (S : Sys α) (D : Data α) (n : Name) (c : α) (k : Nat) :
    eval S ((n, c) :: D) (k + 1) n = .ok c :=
  eval_succ_of_data (find?_cons_self n c D)

/-- C05.2'' A consumer `m` (a function, not itself supplied) of the supplied column `n` hands
`c` to its `op` at every argument position where `n` is listed. -/
theorem override_used_consumer (S : Sys α) (D : Data α) (n m : Name) (c : α) (k : Nat)
    (node : Node α) (hm : find? ((n, c) :: D) m = none) (hS : find? S m = some node) :
    eval S ((n, c) :: D) (k + 2) m =
      (do let args ← evalAll (eval S ((n, c) :: D) (k + 1)) node.deps; node.op args) ∧
    ∀ args, evalAll (eval S ((n, c) :: D) (k + 1)) node.deps = .ok args →
      ∀ i : Nat, node.deps[i]? = some n → args[i]? = some c := by
  refine ⟨eval_succ_of_node hm hS, ?_⟩
  intro args hargs i hi
  rw [evalAll_ok_iff] at hargs
  obtain ⟨b, hb, hev⟩ := forall₂_getElem?_left hargs hi
  rw [override_used_cons] at hev
  cases hev
  exact hb

/-- C05.3 The overlap that triggers the `functions_overridden` warning: `n` is reported iff it
names both a function of `S` and a data column of `D`. -/
theorem overridden_spec (S : Sys α) (D : Data α) (n : Name) :
    n ∈ overridden S D ↔ n ∈ S.map (·.1) ∧ n ∈ D.map (·.1) := by
  unfold overridden
  rw [List.mem_filter, find?_isSome_iff]

/-- C05.3' the same in terms of lookups -/
theorem overridden_spec' (S : Sys α) (D : Data α) (n : Name) :
    n ∈ overridden S D ↔ (∃ node, find? S n = some node) ∧ ∃ c, find? D n = some c := by
  rw [overridden_spec, ← find?_isSome_iff, ← find?_isSome_iff, Option.isSome_iff_exists,
    Option.isSome_iff_exists]

/-! ### non-vacuity -/

private def S0 : Sys Int :=
  [("a", ⟨[], fun _ => .ok 1⟩),
   ("b", ⟨["a", "x"], fun | [a, x] => .ok (a + x) | _ => .error .typeError⟩),
   ("c", ⟨["b"], fun | [b] => .ok (2 * b) | _ => .error .typeError⟩),
   ("d", ⟨["b", "c"], fun | [b, c] => .ok (c - b) | _ => .error .typeError⟩)]
private def D0 : Data Int := [("x", 10)]

/-- `b` computes 11; supplying 11 for `b` reproduces `c` and `d` (with less depth needed) -/
example : eval S0 D0 2 "b" = .ok 11 ∧ eval S0 D0 4 "d" = .ok 11 ∧
    eval S0 (("b", 11) :: D0) 4 "d" = .ok 11 ∧ eval S0 (D0 ++ [("b", 11)]) 4 "d" = .ok 11 ∧
    eval S0 D0 3 "d" = .error .other ∧ eval S0 (("b", 11) :: D0) 3 "d" = .ok 11 := by decide
/-- supplying a DIFFERENT value is used (not the function) and propagates to the consumers -/
example : eval S0 (("b", 0) :: D0) 1 "b" = .ok 0 ∧ eval S0 (("b", 0) :: D0) 3 "d" = .ok 0 ∧
    eval S0 (("b", 0) :: D0) 2 "c" = .ok 0 := by decide
example : find? (("b", (0 : Int)) :: D0) "d" = none ∧ (find? S0 "d").isSome := by decide
example : overridden S0 (("b", 0) :: D0) = ["b"] ∧ overridden S0 D0 = [] := by decide

end GV.Dag
