import Mathlib.Algebra.Order.Field.Rat
import Mathlib.Tactic.Linarith
import GettsimVerif.Generated.RulesC17
import GettsimVerif.Core.Groupings
/-
C17 — means-tested benefits are mutually exclusive as the priority rules say.
The rule definitions are regenerated from /repo on every run (Generated/RulesC17.lean);
the statements quantify over all real-valued entitlements / incomes and all flag values.
-/
namespace GV.Props.C17
open GV.Gen.RulesC17

/-- ALG II / Bürgergeld is positive only if no priority flag of the needs unit is set and
not all adults of the household are pensioners. -/
theorem alg2_pos_requires (v : Rat) (wv kv wkv ar : Bool)
    (h : 0 < «arbeitsl_geld_2_m_bg» v wv kv wkv ar) :
    wv = false ∧ kv = false ∧ wkv = false ∧ ar = false ∧ 0 < v := by
  unfold «arbeitsl_geld_2_m_bg» at h
  cases wv <;> cases kv <;> cases wkv <;> cases ar <;> simp_all

/-- Kinderzuschlag is positive only with one of its two priority flags and without a pensioner. -/
theorem kiz_pos_requires (k : Rat) (kv wkv : Bool) (nr : Rat)
    (h : 0 < «kinderzuschl_m_bg» k kv wkv nr) :
    (kv = true ∨ wkv = true) ∧ nr ≤ 0 ∧ 0 < k := by
  unfold «kinderzuschl_m_bg» at h
  by_cases hn : 0 < nr
  · simp [hn] at h
  · have hn' : nr ≤ 0 := not_lt.1 hn
    cases kv <;> cases wkv <;> simp [hn] at h ⊢ <;> exact ⟨hn', h⟩

/-- No needs unit receives ALG II together with Kinderzuschlag (both read the same flags). -/
theorem alg2_kiz_exclusive (v k : Rat) (wv kv wkv ar : Bool) (nr : Rat)
    (h : 0 < «arbeitsl_geld_2_m_bg» v wv kv wkv ar) :
    «kinderzuschl_m_bg» k kv wkv nr = 0 := by
  obtain ⟨_, hk, hwk, _, _⟩ := alg2_pos_requires v wv kv wkv ar h
  subst hk; subst hwk
  simp [«kinderzuschl_m_bg»]

/-- Wohngeld is positive only for the priority part-household and not for pensioner households. -/
theorem wohngeld_pos_requires (a : Rat) (ar wkvw wvw : Bool)
    (h : 0 < «wohngeld_m_wthh» a ar wkvw wvw) :
    ar = false ∧ (wvw = true ∨ wkvw = true) ∧ 0 < a := by
  unfold «wohngeld_m_wthh» at h
  cases ar <;> cases wkvw <;> cases wvw <;> simp_all

/-- Inside one Wohngeld part-household all members carry the same value of
`wohngeld_vorrang_bg ∨ wohngeld_kinderzuschl_vorrang_bg` (this is how `wthh_id` is built:
`hh_id*100 + flag`, see `wthhId_spec`); hence the two `any`-aggregates over the part-household
together equal that common flag. -/
theorem wthh_any_eq_flag (members : List (Bool × Bool)) (f : Bool) (hne : members ≠ [])
    (hall : ∀ m ∈ members, (m.1 || m.2) = f) :
    ((members.any (·.1)) || (members.any (·.2))) = f := by
  cases f
  · have : ∀ m ∈ members, m.1 = false ∧ m.2 = false := by
      intro m hm; have := hall m hm; simpa [Bool.or_eq_false_iff] using this
    have h1 : members.any (·.1) = false := by
      rw [List.any_eq_false]; intro m hm; simp [(this m hm).1]
    have h2 : members.any (·.2) = false := by
      rw [List.any_eq_false]; intro m hm; simp [(this m hm).2]
    simp [h1, h2]
  · obtain ⟨m, hm⟩ := List.exists_mem_of_ne_nil members hne
    have := hall m hm
    rcases Bool.or_eq_true_iff.1 this with h | h
    · have : members.any (·.1) = true := List.any_eq_true.2 ⟨m, hm, h⟩
      simp [this]
    · have : members.any (·.2) = true := List.any_eq_true.2 ⟨m, hm, h⟩
      simp [this]

/-- No person receives ALG II together with Wohngeld: the person's needs unit has flags
`(wv, wkv)`, the part-household aggregates are the `any` over its members, who all share the
person's flag disjunction. -/
theorem alg2_wohngeld_exclusive (v a : Rat) (wv kv wkv ar : Bool) (members : List (Bool × Bool))
    (hmem : (wv, wkv) ∈ members) (hall : ∀ m ∈ members, (m.1 || m.2) = (wv || wkv))
    (h : 0 < «arbeitsl_geld_2_m_bg» v wv kv wkv ar) :
    «wohngeld_m_wthh» a ar (members.any (·.2)) (members.any (·.1)) = 0 := by
  obtain ⟨hw, _, hwk, _, _⟩ := alg2_pos_requires v wv kv wkv ar h
  have hne : members ≠ [] := List.ne_nil_of_mem hmem
  have hflag := wthh_any_eq_flag members (wv || wkv) hne hall
  subst hw; subst hwk
  simp only [Bool.or_self, Bool.or_eq_false_iff] at hflag
  unfold «wohngeld_m_wthh»
  simp [hflag.1, hflag.2]

/-- Grundsicherung im Alter is positive only if all adults of the household are pensioners
and the Einstandsgemeinschaft contains an adult. -/
theorem grunds_pos_requires (r mb kg ku uv ei : Rat) (ar : Bool) (verm frei nk np : Rat)
    (h : 0 < «grunds_im_alter_m_eg» r mb kg ku uv ei ar verm frei nk np) :
    ar = true ∧ nk ≠ np ∧ verm < frei := by
  unfold «grunds_im_alter_m_eg» at h
  cases ar
  · simp at h
  · by_cases h1 : verm ≥ frei
    · simp [h1] at h
    · by_cases h2 : nk = np
      · simp [h2] at h
      · exact ⟨rfl, h2, not_le.1 h1⟩

/-- all adults pensioners and at least one adult ⇒ at least one pensioner -/
theorem alle_rentner_has_rentner (ne nr : Rat) (h : «erwachsene_alle_rentner_hh» ne nr = true)
    (hpos : 0 < ne) : 0 < nr := by
  unfold «erwachsene_alle_rentner_hh» at h
  simp at h
  linarith

/-- Grundsicherung im Alter excludes ALG II, Wohngeld and (given a pensioner in the household,
see `alle_rentner_has_rentner`) Kinderzuschlag. -/
theorem grunds_excludes_others (r mb kg ku uv ei : Rat) (ar : Bool) (verm frei nk np : Rat)
    (h : 0 < «grunds_im_alter_m_eg» r mb kg ku uv ei ar verm frei nk np)
    (v a k : Rat) (wv kv wkv wvw wkvw : Bool) (nr : Rat) (hnr : 0 < nr) :
    «arbeitsl_geld_2_m_bg» v wv kv wkv ar = 0 ∧ «wohngeld_m_wthh» a ar wkvw wvw = 0 ∧
      «kinderzuschl_m_bg» k kv wkv nr = 0 := by
  obtain ⟨har, _, _⟩ := grunds_pos_requires r mb kg ku uv ei ar verm frei nk np h
  subst har
  refine ⟨by simp [«arbeitsl_geld_2_m_bg»], by simp [«wohngeld_m_wthh»], ?_⟩
  unfold «kinderzuschl_m_bg»
  simp [hnr]

/-- Kinderzuschlag is only paid where it, alone or together with the Wohngeld entitlement,
covers the assessed need. -/
theorem kiz_only_if_need_covered (r e k w : Rat) (nr : Rat)
    (h : 0 < «kinderzuschl_m_bg» k («kinderzuschl_vorrang_bg» r e k)
          («wohngeld_kinderzuschl_vorrang_bg» r e k w) nr) :
    e + k ≥ r ∨ e + w + k ≥ r := by
  obtain ⟨hf, _, _⟩ := kiz_pos_requires _ _ _ _ h
  rcases hf with hf | hf
  · left; simpa [«kinderzuschl_vorrang_bg»] using hf
  · right; simpa [«wohngeld_kinderzuschl_vorrang_bg»] using hf

/-- All members of a Bedarfsgemeinschaft fall into the same Wohngeld part-household: the
part-household id is `hh_id*100 + flag` with a flag that is constant on the needs unit. -/
theorem bg_in_one_wthh (hh : List Int) (v1 v2 : List Bool) (i j : Nat)
    (h1 : v1.length = hh.length) (h2 : v2.length = hh.length) (hi : i < hh.length) (hj : j < hh.length)
    (hhh : hh[i] = hh[j]) (hf1 : v1[i]'(h1 ▸ hi) = v1[j]'(h1 ▸ hj)) (hf2 : v2[i]'(h2 ▸ hi) = v2[j]'(h2 ▸ hj)) :
    (Groupings.wthhId hh v1 v2)[i]? = (Groupings.wthhId hh v1 v2)[j]? := by
  unfold Groupings.wthhId
  simp only [List.getElem?_map, List.getElem?_eq_getElem, hi, hj,
    h1 ▸ hi, h1 ▸ hj, h2 ▸ hi, h2 ▸ hj, List.length_zip, Nat.min_self, lt_min_iff, and_self,
    Option.map_some, List.getElem_zip, hhh, hf1, hf2]

/-! ## The same statements on the rules WIRED BY NAME

`Generated/RulesC17.lean` also contains every rule with its arguments read from an environment under the arguments'
own names (`«f».w ρ β`) — that is how the dependency graph connects the rules — and `Consistent ρ β`: the environment
holds under each rule's column name what the rule returns.  The theorems below therefore depend on WHICH columns the
current sources read: if the priority checks tested another amount than the one that is paid out, they would not hold. -/

section wired
variable {ρ : String → Rat} {β : String → Bool}

/-- the Kinderzuschlag that is paid, when positive, is the amount after the wealth check -/
theorem kiz_pos_eq (k : Rat) (kv wkv : Bool) (nr : Rat) (h : 0 < «kinderzuschl_m_bg» k kv wkv nr) :
    «kinderzuschl_m_bg» k kv wkv nr = k := by
  unfold «kinderzuschl_m_bg» at h ⊢
  split at h
  · simp at h
  · rename_i hc; simp [hc]

/-- **Kinderzuschlag is only paid where it (alone or with Wohngeld) covers the assessed need** — for the amount that is
actually PAID (`kinderzuschl_m_bg`), with the columns connected as the current sources connect them. -/
theorem kiz_only_if_need_covered_wired (hc : Consistent ρ β) (h : 0 < ρ "kinderzuschl_m_bg") :
    ρ "arbeitsl_geld_2_eink_m_bg" + ρ "kinderzuschl_m_bg" ≥ ρ "arbeitsl_geld_2_regelbedarf_m_bg" ∨
    ρ "arbeitsl_geld_2_eink_m_bg" + ρ "wohngeld_anspruchshöhe_m_bg" + ρ "kinderzuschl_m_bg" ≥
      ρ "arbeitsl_geld_2_regelbedarf_m_bg" := by
  have hk := hc.«kinderzuschl_m_bg»
  rw [hk] at h ⊢
  unfold «kinderzuschl_m_bg».w at h ⊢
  rw [kiz_pos_eq _ _ _ _ h]
  obtain ⟨hf, _, _⟩ := kiz_pos_requires _ _ _ _ h
  rcases hf with hf | hf
  · left
    rw [hc.«kinderzuschl_vorrang_bg»] at hf
    simpa [«kinderzuschl_vorrang_bg».w, «kinderzuschl_vorrang_bg»] using hf
  · right
    rw [hc.«wohngeld_kinderzuschl_vorrang_bg»] at hf
    simpa [«wohngeld_kinderzuschl_vorrang_bg».w, «wohngeld_kinderzuschl_vorrang_bg»] using hf

/-- **No needs unit receives ALG II / Bürgergeld together with Kinderzuschlag** (both rules read the same two
priority flags, by name). -/
theorem alg2_kiz_exclusive_wired (hc : Consistent ρ β) (h : 0 < ρ "arbeitsl_geld_2_m_bg") :
    ρ "kinderzuschl_m_bg" = 0 := by
  rw [hc.«arbeitsl_geld_2_m_bg»] at h
  rw [hc.«kinderzuschl_m_bg»]
  exact alg2_kiz_exclusive _ _ _ _ _ _ _ h

/-- **ALG II positive ⇒ the needs unit passes neither priority check**, i.e. its income plus Wohngeld entitlement
(plus Kinderzuschlag after the wealth check) does not cover the need — the regime selection is by the same amounts
the other benefits pay. -/
theorem alg2_pos_need_uncovered_wired (hc : Consistent ρ β) (h : 0 < ρ "arbeitsl_geld_2_m_bg") :
    ρ "arbeitsl_geld_2_eink_m_bg" + ρ "wohngeld_anspruchshöhe_m_bg" < ρ "arbeitsl_geld_2_regelbedarf_m_bg" ∧
    ρ "arbeitsl_geld_2_eink_m_bg" + ρ "_kinderzuschl_nach_vermög_check_m_bg" < ρ "arbeitsl_geld_2_regelbedarf_m_bg" := by
  rw [hc.«arbeitsl_geld_2_m_bg»] at h
  obtain ⟨h1, h2, _, _, _⟩ := alg2_pos_requires _ _ _ _ _ h
  rw [hc.«wohngeld_vorrang_bg»] at h1
  rw [hc.«kinderzuschl_vorrang_bg»] at h2
  constructor
  · simpa [«wohngeld_vorrang_bg».w, «wohngeld_vorrang_bg»] using h1
  · simpa [«kinderzuschl_vorrang_bg».w, «kinderzuschl_vorrang_bg»] using h2

/-- **Grundsicherung im Alter excludes ALG II and Wohngeld, and — with a pensioner in the household — Kinderzuschlag**
(all four rules read the household flag `erwachsene_alle_rentner_hh` / `anz_rentner_hh` by name). -/
theorem grunds_excludes_others_wired (hc : Consistent ρ β) (h : 0 < ρ "grunds_im_alter_m_eg")
    (hnr : 0 < ρ "anz_rentner_hh") :
    ρ "arbeitsl_geld_2_m_bg" = 0 ∧ ρ "wohngeld_m_wthh" = 0 ∧ ρ "kinderzuschl_m_bg" = 0 := by
  rw [hc.«grunds_im_alter_m_eg»] at h
  rw [hc.«arbeitsl_geld_2_m_bg», hc.«wohngeld_m_wthh», hc.«kinderzuschl_m_bg»]
  exact grunds_excludes_others _ _ _ _ _ _ _ _ _ _ _ h _ _ _ _ _ _ _ _ _ hnr

end wired

/-- non-vacuity of `Consistent` and of the hypotheses of the wired theorems: a needs unit with need 1500, income 1000,
Wohngeld entitlement 200 and Kinderzuschlag 400 after the wealth check — Kinderzuschlag alone does not cover the need,
together with Wohngeld it does; it is paid, ALG II is not. -/
def exρ : String → Rat := fun n =>
  if n = "arbeitsl_geld_2_regelbedarf_m_bg" then 1500 else if n = "arbeitsl_geld_2_eink_m_bg" then 1000
  else if n = "wohngeld_anspruchshöhe_m_bg" then 200 else if n = "wohngeld_anspruchshöhe_m_wthh" then 200
  else if n = "_kinderzuschl_nach_vermög_check_m_bg" then 400 else if n = "anz_erwachsene_hh" then 2
  else if n = "arbeitsl_geld_2_vermög_freib_bg" then 10000 else if n = "arbeitsl_geld_2_vor_vorrang_m_bg" then 500
  else if n = "kinderzuschl_m_bg" then 400 else if n = "wohngeld_m_wthh" then 200
  else if n = "grunds_im_alter_vermög_freib_eg" then 10000 else if n = "anz_personen_eg" then 2 else 0
def exβ : String → Bool := fun n =>
  n = "wohngeld_kinderzuschl_vorrang_bg" || n = "wohngeld_kinderzuschl_vorrang_wthh" || n = "erwachsen"

example : Consistent exρ exβ := by
  constructor <;> decide +kernel
example : 0 < exρ "kinderzuschl_m_bg" ∧ exρ "arbeitsl_geld_2_m_bg" = 0 := by decide +kernel

/-- non-vacuity: ALG II positive, Kinderzuschlag and Wohngeld zero -/
example : 0 < «arbeitsl_geld_2_m_bg» 400 false false false false ∧
    «kinderzuschl_m_bg» 100 false false 0 = 0 := by
  decide +kernel

example : 0 < «grunds_im_alter_m_eg» 500 0 0 0 0 100 true 1000 5000 0 1 := by decide +kernel

end GV.Props.C17
